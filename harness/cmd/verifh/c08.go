//go:build c08 || allprops

package main

import (
	"fmt"
	"strconv"
	"strings"

	"github.com/emersion/go-imap/v2/internal/imapwire"
)

// C08 — on-the-wire mailbox view consistency across sessions.
//
// One case = one history: 1–4 raw connections to ONE real server with the real in-memory backend
// (mailboxes INBOX and B), commands issued one at a time. Every response line a connection
// receives is tokenised (memsrv.go, not imapclient) into events
//   X<n> EXISTS | E<k> EXPUNGE | F<k>:<uid>:<flags> FETCH | S… SEARCH | R… ESEARCH | C… COPYUID | N<n> UIDNEXT
// and the observation of a command is "STATUS|event|…" for the issuing connection (no other
// connection receives anything, except one sitting in IDLE, whose events are collected at DONE).
// A check point (K) is NOOP, then UID FETCH 1:* (UID) on the connection, then the mailbox's actual
// message list read through a fresh selection on an observer connection.
//
// Op tokens ("<conn> <letter> args", connections 1-based, mailboxes 0=INBOX 1=B 2=missing):
//   A m flags | S m | C | U | T uid set op flags silent | E | X set | Y uid set m | M uid set m
//   F uid set withFlags markSeen | Q uid seqset uidset has hasNot ext | N | I | D | K

func init() {
	props["C08"] = genC08
	replayers["C08"] = replayC08
}

var c08Mailboxes = []string{"INBOX", "B", "Missing"}

const c08Msg = "Subject: m\r\n\r\nbody\r\n"

type c08Run struct {
	env     *msEnv
	obs     *rawClient
	sel     []int // selected mailbox per connection, -1 none
	idle    []bool
	idleTag []string
	cnt     []int // count announced on the connection (for the evidence histogram only)
	counts  []string
}

func c08FlagsWire(fl string) string {
	var out []string
	for _, c := range fl {
		switch c {
		case 'd':
			out = append(out, `\Deleted`)
		case 's':
			out = append(out, `\Seen`)
		case 'f':
			out = append(out, `\Flagged`)
		}
	}
	return "(" + strings.Join(out, " ") + ")"
}

// c08Speller spells command words (command names, UID, RETURN) in upper, lower or mixed case: IMAP
// command names are case-insensitive. The spelling is a function of the op token's text alone, so a
// recorded or minimised history replays with the same bytes; tokens, tokenizer, model and oracle stay
// keyed on the canonical (upper-case) name.
type c08Speller struct {
	h    uint64
	mode string
}

func c08NewSpeller(tok string) *c08Speller {
	h := uint64(14695981039346656037)
	for i := 0; i < len(tok); i++ {
		h = (h ^ uint64(tok[i])) * 1099511628211
	}
	h ^= h >> 29
	sp := &c08Speller{h: h}
	switch h % 5 {
	case 0, 1:
		sp.mode = "upper"
	case 2:
		sp.mode = "lower"
	default:
		sp.mode = "mixed"
	}
	return sp
}

func (sp *c08Speller) w(word string) string {
	switch sp.mode {
	case "upper":
		return word
	case "lower":
		return strings.ToLower(word)
	}
	b := []byte(word)
	lowered := false
	for i := range b {
		sp.h = sp.h*6364136223846793005 + 1442695040888963407
		if (sp.h>>33)&1 == 1 && b[i] >= 'A' && b[i] <= 'Z' {
			b[i] += 'a' - 'A'
			lowered = true
		}
	}
	if !lowered && len(b) > 0 && b[0] >= 'A' && b[0] <= 'Z' {
		b[0] += 'a' - 'A' // "mixed" never degenerates into the all-upper spelling
	}
	return string(b)
}

func (sp *c08Speller) uid(u string) string {
	if u == "1" {
		return sp.w("UID") + " "
	}
	return ""
}

// c08Track updates the announced count of connection c from the events of a response.
func (r *c08Run) track(c int, resp string) {
	for _, ev := range strings.Split(resp, "|")[1:] {
		if len(ev) < 2 {
			continue
		}
		switch ev[0] {
		case 'X':
			r.cnt[c], _ = strconv.Atoi(ev[1:])
		case 'E':
			r.cnt[c]--
		}
	}
}

// serverCount asks the observer how many messages the mailbox holds right now.
func (r *c08Run) serverCount(m int) int {
	tag := r.env.tag()
	r.obs.send(tag + " STATUS " + c08Mailboxes[m] + " (MESSAGES)\r\n")
	n := -1
	for {
		l, err := msReadLine(r.obs)
		if err != nil {
			return -1
		}
		if strings.HasPrefix(l.text, tag+" ") {
			return n
		}
		if i := strings.Index(l.text, "(MESSAGES "); i >= 0 {
			n, _ = strconv.Atoi(strings.TrimSuffix(l.text[i+len("(MESSAGES "):], ")"))
		}
	}
}

// noteStar records, for a non-UID set containing "*", whether the server's count (against which the
// backend resolves "*") differs from the count announced on the connection (open question Q1: not judged).
func (r *c08Run) noteStar(c int, uid, set string) {
	if uid == "1" || !strings.Contains(set, "*") || r.sel[c] < 0 {
		return
	}
	if n := r.serverCount(r.sel[c]); n >= 0 {
		if n != r.cnt[c] {
			r.counts = append(r.counts, "star:server-count-differs-from-announced")
		} else {
			r.counts = append(r.counts, "star:same-count")
		}
	}
}

// actual reads the mailbox's message list through a fresh selection on the observer connection.
func (r *c08Run) actual(m int) string {
	if st := r.env.msExec(r.obs, "EXAMINE "+c08Mailboxes[m]); !strings.HasPrefix(st, "OK") {
		return "A?" + strings.SplitN(st, "|", 2)[0]
	}
	resp := r.env.msExec(r.obs, "UID FETCH 1:* (FLAGS)")
	r.env.msExec(r.obs, "UNSELECT")
	f := strings.Split(resp, "|")
	if f[0] != "OK" {
		return "A?" + f[0]
	}
	var out []string
	for i, ev := range f[1:] {
		p := strings.Split(ev, ":")
		if len(p) != 3 || p[0] != fmt.Sprintf("F%d", i+1) {
			return "A?" + ev
		}
		out = append(out, p[1]+p[2])
	}
	return "A" + strings.Join(out, ".")
}

// exec runs one op token and returns its observation.
func (r *c08Run) exec(tok string) string {
	f := strings.Fields(tok)
	if len(f) < 2 {
		return "?"
	}
	ci, _ := strconv.Atoi(f[0])
	c := ci - 1
	if c < 0 || c >= len(r.env.conns) {
		return "-"
	}
	rc := r.env.conns[c]
	kind, a := f[1], f[2:]
	sp := c08NewSpeller(tok)
	// an idling connection is only ever sent DONE, and DONE only goes to an idling connection
	if r.idle[c] != (kind == "D") {
		return "-"
	}
	run := func(text string) string {
		resp := r.env.msExec(rc, text)
		r.track(c, resp)
		return resp
	}
	if kind != "D" && kind != "I" {
		r.counts = append(r.counts, "spelling:"+sp.mode)
	}
	mb := func(s string) string {
		i, _ := strconv.Atoi(s)
		if i < 0 || i >= len(c08Mailboxes) {
			i = len(c08Mailboxes) - 1
		}
		return c08Mailboxes[i]
	}
	switch kind {
	case "A":
		tag := r.env.tag()
		rc.send(fmt.Sprintf("%s %s %s %s {%d}\r\n", tag, sp.w("APPEND"), mb(a[0]), c08FlagsWire(a[1]), len(c08Msg)))
		l, err := msReadLine(rc)
		if err != nil {
			return "PANIC"
		}
		if !strings.HasPrefix(l.text, "+") {
			return msUnknown(l.text)
		}
		rc.send(c08Msg + "\r\n")
		resp := r.env.msCollect(rc, tag)
		r.track(c, resp)
		return resp
	case "S":
		r.cnt[c] = 0
		resp := run(sp.w("SELECT") + " " + mb(a[0]))
		if strings.HasPrefix(resp, "OK") {
			r.sel[c], _ = strconv.Atoi(a[0])
		} else {
			r.sel[c] = -1
		}
		return resp
	case "C", "U":
		text := "CLOSE"
		if kind == "U" {
			text = "UNSELECT"
		}
		resp := run(sp.w(text))
		if strings.HasPrefix(resp, "OK") {
			r.sel[c] = -1
			r.cnt[c] = 0
		}
		return resp
	case "T":
		r.noteStar(c, a[0], a[1])
		item := map[string]string{"s": "FLAGS", "a": "+FLAGS", "d": "-FLAGS"}[a[2]]
		if a[4] == "1" {
			item += ".SILENT"
		}
		return run(fmt.Sprintf("%s%s %s %s %s", sp.uid(a[0]), sp.w("STORE"), a[1], item, c08FlagsWire(a[3])))
	case "E":
		return run(sp.w("EXPUNGE"))
	case "X":
		return run(sp.w("UID") + " " + sp.w("EXPUNGE") + " " + a[0])
	case "Y", "M":
		r.noteStar(c, a[0], a[1])
		name := "COPY"
		if kind == "M" {
			name = "MOVE"
		}
		return run(fmt.Sprintf("%s%s %s %s", sp.uid(a[0]), sp.w(name), a[1], mb(a[2])))
	case "F":
		r.noteStar(c, a[0], a[1])
		var items []string
		if a[2] == "1" {
			items = append(items, "FLAGS")
		}
		if a[3] == "1" {
			items = append(items, "BODY[]")
		}
		if len(items) == 0 {
			items = append(items, "UID")
		}
		return run(fmt.Sprintf("%s%s %s (%s)", sp.uid(a[0]), sp.w("FETCH"), a[1], strings.Join(items, " ")))
	case "Q":
		if a[1] != "-" {
			r.noteStar(c, a[0], a[1])
		}
		var keys []string
		if a[1] != "-" {
			keys = append(keys, a[1])
		}
		if a[2] != "-" {
			keys = append(keys, "UID "+a[2])
		}
		for _, ch := range a[3] {
			if k, ok := map[rune]string{'d': "DELETED", 's': "SEEN", 'f': "FLAGGED"}[ch]; ok {
				keys = append(keys, k)
			}
		}
		for _, ch := range a[4] {
			if k, ok := map[rune]string{'d': "UNDELETED", 's': "UNSEEN", 'f': "UNFLAGGED"}[ch]; ok {
				keys = append(keys, k)
			}
		}
		if len(keys) == 0 {
			keys = append(keys, "ALL")
		}
		ret := ""
		if a[5] == "1" {
			ret = sp.w("RETURN") + " (MIN MAX ALL COUNT) "
		}
		return run(fmt.Sprintf("%s%s %s%s", sp.uid(a[0]), sp.w("SEARCH"), ret, strings.Join(keys, " ")))
	case "N":
		return run(sp.w("NOOP"))
	case "I":
		tag := r.env.tag()
		rc.send(tag + " " + sp.w("IDLE") + "\r\n")
		l, err := msReadLine(rc)
		if err != nil {
			return "PANIC"
		}
		if !strings.HasPrefix(l.text, "+") {
			return msUnknown(l.text)
		}
		r.idle[c], r.idleTag[c] = true, tag
		return "+"
	case "D":
		rc.send("DONE\r\n")
		resp := r.env.msCollect(rc, r.idleTag[c])
		r.idle[c] = false
		r.track(c, resp)
		return resp
	case "K":
		if r.sel[c] < 0 {
			return "-"
		}
		o1 := run(sp.w("NOOP"))
		o2 := run(sp.w("UID") + " " + sp.w("FETCH") + " 1:* (UID)")
		return o1 + "~" + o2 + "~" + r.actual(r.sel[c])
	}
	return "?"
}

// c08RunHist executes a history on a fresh server; it stops after a crashed connection.
func c08RunHist(nconn int, ops []string) caseLine {
	env := msNewEnv(nconn+1, c08Mailboxes[:2])
	defer env.close()
	r := &c08Run{env: env, obs: env.conns[nconn], sel: make([]int, nconn), idle: make([]bool, nconn),
		idleTag: make([]string, nconn), cnt: make([]int, nconn)}
	for i := range r.sel {
		r.sel[i] = -1
	}
	var obs []string
	for _, op := range ops {
		o := r.exec(op)
		obs = append(obs, o)
		if strings.Contains(o, "PANIC") {
			break
		}
	}
	return caseLine{kind: "hist", fields: []string{strconv.Itoa(nconn), strings.Join(ops[:len(obs)], ";"), strings.Join(obs, ";")},
		counts: r.counts}
}

func replayC08(e *emitter, kind string, f []string) {
	n, _ := strconv.Atoi(f[0])
	l := c08RunHist(n, strings.Split(f[1], ";"))
	e.emit(l.kind, l.fields...)
}

// ---------------------------------------------------------------------------------------------
// history generator

type c08Gen struct {
	r     *rng
	nconn int
	sel   []int
	idle  []bool
	n     [2]int // approximate message count per mailbox
	next  [2]int // approximate uidNext per mailbox
	ops   []string
	cnt   []string
}

func (g *c08Gen) add(c int, format string, args ...interface{}) {
	tok := fmt.Sprintf("%d ", c+1) + fmt.Sprintf(format, args...)
	g.ops = append(g.ops, tok)
	g.cnt = append(g.cnt, "op:"+strings.Fields(tok)[1])
}

func (g *c08Gen) flags() string {
	out := ""
	for i, ch := range "dsf" {
		if g.r.chance([]int{2, 1, 1}[i], 4) {
			out += string(ch)
		}
	}
	if out == "" {
		return "-"
	}
	return out
}

// set builds a number set over 1..hi+1 (static numbers, ranges, "*") in the canonical text of
// imapwire.ParseSeqSet, so that the wire text and the set handed to the model are the same thing.
func (g *c08Gen) set(hi int) string {
	num := func() string { return strconv.Itoa(1 + g.r.intn(hi+2)) }
	var items []string
	for i, k := 0, 1+g.r.intn(3)/2+g.r.intn(2)*g.r.intn(2); i < k; i++ {
		switch g.r.intn(10) {
		case 0, 1, 2:
			items = append(items, num())
		case 3, 4:
			items = append(items, num()+":"+num())
		case 5, 6:
			items = append(items, "*")
		case 7:
			items = append(items, "1:*")
		default:
			items = append(items, num()+":*")
		}
	}
	s, err := imapwire.ParseSeqSet(strings.Join(items, ","))
	if err != nil {
		return "1"
	}
	if strings.Contains(s.String(), "*") {
		g.cnt = append(g.cnt, "set:star")
	} else {
		g.cnt = append(g.cnt, "set:static")
	}
	return s.String()
}

func (g *c08Gen) numSet(c int, uid bool) string {
	m := g.sel[c]
	if m < 0 {
		m = 0
	}
	if uid {
		return g.set(g.next[m])
	}
	return g.set(g.n[m])
}

func (g *c08Gen) appendTo(c, m int) {
	g.add(c, "A %d %s", m, g.flags())
	if m < 2 {
		g.n[m]++
		g.next[m]++
	}
}

func (g *c08Gen) selectedCmd(c int) {
	m := g.sel[c]
	uid := g.r.chance(3, 10)
	u := b01(uid)
	other := 1 - m
	if m < 0 {
		other = 0
	}
	if g.r.chance(1, 12) {
		other = pick(g.r, []int{m, 2}) // same mailbox (refused) or a missing one
		if other < 0 {
			other = 2
		}
	}
	switch k := g.r.intn(100); {
	case k < 12:
		g.appendTo(c, pick(g.r, []int{0, 0, 0, 1, 1, c08Max(m, 0), c08Max(m, 0), c08Max(m, 0), 2}))
	case k < 27:
		fl := g.flags()
		if g.r.chance(1, 2) {
			fl = "d"
		}
		g.add(c, "T %s %s %s %s %s", u, g.numSet(c, uid), pick(g.r, []string{"a", "a", "a", "s", "d"}), fl, b01(g.r.chance(1, 3)))
	case k < 36:
		g.add(c, "E")
		if m >= 0 {
			g.n[m] = g.n[m] * 2 / 3
		}
	case k < 40:
		g.add(c, "X %s", g.numSet(c, true))
	case k < 45:
		g.add(c, "Y %s %s %d", u, g.numSet(c, uid), other)
		if other < 2 {
			g.n[other]++
			g.next[other]++
		}
	case k < 53:
		g.add(c, "M %s %s %d", u, g.numSet(c, uid), other)
		if other < 2 && other != m {
			g.n[other]++
			g.next[other]++
			if m >= 0 && g.n[m] > 0 {
				g.n[m]--
			}
		}
	case k < 68:
		g.add(c, "F %s %s %s %s", u, g.numSet(c, uid), b01(g.r.chance(1, 2)), b01(g.r.chance(1, 5)))
	case k < 78:
		sq, us := "-", "-"
		if g.r.chance(1, 2) {
			sq = g.numSet(c, false)
		}
		if g.r.chance(1, 4) {
			us = g.numSet(c, true)
		}
		has, hasNot := "-", "-"
		switch g.r.intn(6) {
		case 0:
			has = "d"
		case 1:
			hasNot = "d"
		case 2:
			has = "s"
		case 3:
			hasNot = pick(g.r, []string{"s", "f", "ds"})
		}
		g.add(c, "Q %s %s %s %s %s %s", u, sq, us, has, hasNot, b01(g.r.chance(1, 3)))
	case k < 86:
		g.add(c, "N")
	case k < 89:
		g.add(c, "I")
		g.idle[c] = true
	case k < 91:
		g.add(c, "C")
		g.sel[c] = -1
	case k < 92:
		g.add(c, "U")
		g.sel[c] = -1
	case k < 94:
		g.doSelect(c)
	default:
		g.add(c, "K")
	}
}

func c08Max(a, b int) int {
	if a > b {
		return a
	}
	return b
}

func (g *c08Gen) doSelect(c int) {
	m := pick(g.r, []int{0, 0, 0, 0, 0, 0, 1, 1, 1, 2})
	if g.r.chance(1, 2) {
		// prefer a mailbox another connection is looking at
		for _, s := range g.sel {
			if s >= 0 {
				m = s
				break
			}
		}
	}
	g.add(c, "S %d", m)
	if m < 2 {
		g.sel[c] = m
	} else {
		g.sel[c] = -1
	}
}

func c08RandHist(r *rng) (int, []string, []string) {
	nconn := pick(r, []int{1, 2, 2, 2, 2, 3, 3, 3, 4, 4})
	g := &c08Gen{r: r, nconn: nconn, sel: make([]int, nconn), idle: make([]bool, nconn)}
	g.next = [2]int{1, 1}
	for i := range g.sel {
		g.sel[i] = -1
	}
	g.cnt = append(g.cnt, fmt.Sprintf("conns:%d", nconn))
	// prologue: some messages, most connections select right away
	for i, k := 0, 1+r.intn(5); i < k; i++ {
		g.appendTo(r.intn(nconn), pick(r, []int{0, 0, 0, 1}))
	}
	for c := 0; c < nconn; c++ {
		if r.chance(4, 5) {
			g.doSelect(c)
		}
	}
	length := 6 + r.intn(20)
	for i := 0; i < length; i++ {
		c := r.intn(nconn)
		switch {
		case g.idle[c]:
			if r.chance(1, 2) {
				g.add(c, "D")
				g.idle[c] = false
			}
		case g.sel[c] < 0:
			switch k := r.intn(20); {
			case k < 13:
				g.doSelect(c)
			case k < 17:
				g.appendTo(c, pick(r, []int{0, 0, 1}))
			case k < 18:
				g.add(c, "N")
			case k < 19:
				g.add(c, "I")
				g.idle[c] = true
			default:
				g.selectedCmd(c) // answered BAD: no mailbox selected
			}
		default:
			g.selectedCmd(c)
		}
	}
	// epilogue: leave IDLE, then synchronise every connection that has a mailbox selected
	for c := 0; c < nconn; c++ {
		if g.idle[c] {
			g.add(c, "D")
		}
	}
	for c := 0; c < nconn; c++ {
		if g.sel[c] >= 0 {
			g.add(c, "K")
		}
	}
	return nconn, g.ops, g.cnt
}

// past failures and the two defects of the design read-through (F09: MOVE 2 of 3; F10: UID FETCH of
// a message not yet announced), plus hand-written stale-view histories
var c08Corpus = []struct {
	nconn int
	ops   string
}{
	{1, "1 A 0 -;1 A 0 -;1 A 0 -;1 S 0;1 M 0 2 1;1 K"},
	{2, "1 A 0 -;1 S 0;2 A 0 -;1 F 1 1:* 0 0;1 K"},
	{2, "1 A 0 d;1 A 0 -;1 A 0 d;1 S 0;2 S 0;2 E;1 F 0 1:* 1 0;1 T 0 * a s 0;1 Q 0 1:* - - - 0;1 N;1 K;2 K"},
	{3, "1 A 0 -;1 A 0 -;1 S 0;2 S 0;3 S 0;1 I;2 A 0 d;3 T 0 1 a d 0;3 E;2 M 0 1:* 1;1 D;1 K;2 K;3 K"},
	{2, "1 A 0 d;1 A 0 d;1 S 0;2 S 0;1 C;2 F 0 * 1 1;2 Q 0 * - - - 1;2 K"},
	{2, "1 A 0 -;1 A 1 -;1 S 0;2 S 1;1 Y 0 1 1;2 Y 0 1 0;1 N;2 N;1 M 1 1:* 1;2 K;1 K"},
	// minimised replays of the seeded breaking edits (SEARCH with server numbers, EXPUNGE during STORE,
	// flag updates queued with the storer's number, an expunge dropped by a poll, encode off by one)
	{2, "2 S 0;1 A 0 sf;2 Q 0 * - - - 1;2 K"},
	{2, "1 A 0 d;1 S 0;2 S 0;2 E;1 T 0 * a s 0;1 K"},
	{2, "1 A 0 -;1 S 0;2 S 0;1 A 0 d;2 T 1 2:5 a d 1;1 F 0 1,3 0 0;1 K;2 K"},
	{3, "3 A 0 f;2 A 0 df;1 S 1;3 S 0;3 M 0 1:* 1;1 F 0 1:3 0 0;1 K;3 K"},
	{2, "1 A 0 d;1 S 0;2 S 0;1 C;2 Q 0 * - - - 1;2 K"},
	{2, "2 A 0 ds;1 A 0 -;1 S 0;2 S 0;2 E;2 Q 1 - - - - 0;2 S 1;2 E;2 F 0 1:2,* 0 0;1 Q 0 - - - - 0;1 E;2 S 0;1 K;2 K"},
}

func genC08(e *emitter, tier string, seed uint64) {
	nHist := 4000
	switch tier {
	case "thorough":
		nHist = 200000
	case "widen":
		nHist = 20000
	}
	for _, c := range c08Corpus {
		l := c08RunHist(c.nconn, strings.Split(c.ops, ";"))
		e.emit(l.kind, l.fields...)
		e.count("corpus")
	}
	base := newRng(seed, "C08")
	seeds := make([]uint64, nHist)
	for i := range seeds {
		seeds[i] = base.next()
	}
	parCases(e, nHist, func(i int) []caseLine {
		r := &rng{s: seeds[i]}
		nconn, ops, cnt := c08RandHist(r)
		l := c08RunHist(nconn, ops)
		l.counts = append(l.counts, cnt...)
		l.counts = append(l.counts, fmt.Sprintf("len:%d", len(ops)/10*10))
		return []caseLine{l}
	})
}
