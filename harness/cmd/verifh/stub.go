package main

import (
	"bufio"
	"crypto/tls"
	"fmt"
	"io"
	"strings"
	"sync"
	"time"

	"github.com/emersion/go-imap/v2"
	"github.com/emersion/go-imap/v2/imapserver"
)

// recSession is a recording imapserver.Session: it logs every call with deep-copied, canonically
// rendered arguments and answers with canned success or a configured error.

type recCall struct {
	name string
	args string
	st   imap.ConnState // connection state observed inside the call (when conn is known)
	// failed: the stub answered this call with its configured error
	failed bool
}

type recSession struct {
	mu      sync.Mutex
	conn    *imapserver.Conn
	calls   []recCall
	fail    map[string]error // method name -> error to return
	closes  int
	onCall  func(s *recSession, name string)
	search  *imap.SearchCriteria
	selData *imap.SelectData
}

func newRecSession() *recSession { return &recSession{fail: map[string]error{}} }

func (s *recSession) rec(name, args string) error {
	s.mu.Lock()
	c := recCall{name: name, args: args}
	if s.conn != nil {
		c.st = s.conn.VerifState()
	}
	err := s.fail[name]
	c.failed = err != nil
	s.calls = append(s.calls, c)
	cb := s.onCall
	s.mu.Unlock()
	if cb != nil {
		cb(s, name)
	}
	return err
}

func (s *recSession) log() []recCall {
	s.mu.Lock()
	defer s.mu.Unlock()
	return append([]recCall(nil), s.calls...)
}

func (s *recSession) Close() error {
	s.mu.Lock()
	s.closes++
	s.mu.Unlock()
	return s.rec("Close", "")
}
func (s *recSession) Login(username, password string) error {
	return s.rec("Login", hx([]byte(username))+" "+hx([]byte(password)))
}
func (s *recSession) Select(mailbox string, options *imap.SelectOptions) (*imap.SelectData, error) {
	ro := false
	if options != nil {
		ro = options.ReadOnly
	}
	if err := s.rec("Select", hx([]byte(mailbox))+" ro="+b01(ro)); err != nil {
		return nil, err
	}
	if s.selData != nil {
		return s.selData, nil
	}
	return &imap.SelectData{NumMessages: 3, UIDNext: 10, UIDValidity: 1, Flags: []imap.Flag{imap.FlagSeen}, PermanentFlags: []imap.Flag{imap.FlagSeen}}, nil
}
func (s *recSession) Create(mailbox string, options *imap.CreateOptions) error {
	use := ""
	if options != nil {
		for _, u := range options.SpecialUse {
			use += " " + hx([]byte(u))
		}
	}
	return s.rec("Create", hx([]byte(mailbox))+use)
}
func (s *recSession) Delete(mailbox string) error { return s.rec("Delete", hx([]byte(mailbox))) }
func (s *recSession) Rename(mailbox, newName string) error {
	return s.rec("Rename", hx([]byte(mailbox))+" "+hx([]byte(newName)))
}
func (s *recSession) Subscribe(mailbox string) error   { return s.rec("Subscribe", hx([]byte(mailbox))) }
func (s *recSession) Unsubscribe(mailbox string) error { return s.rec("Unsubscribe", hx([]byte(mailbox))) }
func (s *recSession) List(w *imapserver.ListWriter, ref string, patterns []string, options *imap.ListOptions) error {
	var ps []string
	for _, p := range patterns {
		ps = append(ps, hx([]byte(p)))
	}
	return s.rec("List", hx([]byte(ref))+" ["+strings.Join(ps, ",")+"] "+fmtListOptions(options))
}
func (s *recSession) Status(mailbox string, options *imap.StatusOptions) (*imap.StatusData, error) {
	if err := s.rec("Status", hx([]byte(mailbox))+" "+fmtStatusOptions(options)); err != nil {
		return nil, err
	}
	return stubStatusData(mailbox, options), nil
}

// stubStatusData answers every requested item (the server's STATUS writer dereferences them).
func stubStatusData(mailbox string, o *imap.StatusOptions) *imap.StatusData {
	d := &imap.StatusData{Mailbox: mailbox}
	if o == nil {
		return d
	}
	n3, n1, n0, lim := uint32(3), uint32(1), uint32(0), uint32(1000)
	sz, dst := int64(1234), int64(0)
	if o.NumMessages {
		d.NumMessages = &n3
	}
	if o.UIDNext {
		d.UIDNext = 10
	}
	if o.UIDValidity {
		d.UIDValidity = 1
	}
	if o.NumUnseen {
		d.NumUnseen = &n1
	}
	if o.NumDeleted {
		d.NumDeleted = &n0
	}
	if o.Size {
		d.Size = &sz
	}
	if o.AppendLimit {
		d.AppendLimit = &lim
	}
	if o.DeletedStorage {
		d.DeletedStorage = &dst
	}
	return d
}
func (s *recSession) Append(mailbox string, r imap.LiteralReader, options *imap.AppendOptions) (*imap.AppendData, error) {
	b, _ := io.ReadAll(r)
	var fl []string
	t := "0"
	if options != nil {
		for _, f := range options.Flags {
			fl = append(fl, hx([]byte(f)))
		}
		if !options.Time.IsZero() {
			t = options.Time.UTC().Format(time.RFC3339) + fmt.Sprintf("@%d", zoneOffset(options.Time))
		}
	}
	if err := s.rec("Append", hx([]byte(mailbox))+" ["+strings.Join(fl, ",")+"] "+t+" "+hx(b)); err != nil {
		return nil, err
	}
	return &imap.AppendData{UID: 7, UIDValidity: 1}, nil
}
func zoneOffset(t time.Time) int { _, off := t.Zone(); return off }
func (s *recSession) Poll(w *imapserver.UpdateWriter, allowExpunge bool) error {
	return s.rec("Poll", b01(allowExpunge))
}
func (s *recSession) Idle(w *imapserver.UpdateWriter, stop <-chan struct{}) error {
	if err := s.rec("Idle", ""); err != nil {
		return err
	}
	<-stop
	return nil
}
func (s *recSession) Unselect() error { return s.rec("Unselect", "") }
func (s *recSession) Expunge(w *imapserver.ExpungeWriter, uids *imap.UIDSet) error {
	a := "nil"
	if uids != nil {
		a = uids.String()
	}
	return s.rec("Expunge", a)
}
func (s *recSession) Search(kind imapserver.NumKind, criteria *imap.SearchCriteria, options *imap.SearchOptions) (*imap.SearchData, error) {
	s.mu.Lock()
	s.search = criteria
	s.mu.Unlock()
	if err := s.rec("Search", kind.String()+" "+fmtCriteria(criteria)+" "+fmtSearchOptions(options)); err != nil {
		return nil, err
	}
	if kind == imapserver.NumKindUID {
		return &imap.SearchData{All: imap.UIDSet{}, UID: true}, nil
	}
	return &imap.SearchData{All: imap.SeqSet{}}, nil
}
func (s *recSession) Fetch(w *imapserver.FetchWriter, numSet imap.NumSet, options *imap.FetchOptions) error {
	return s.rec("Fetch", fmtNumSet(numSet)+" "+fmtFetchOptions(options))
}
func (s *recSession) Store(w *imapserver.FetchWriter, numSet imap.NumSet, flags *imap.StoreFlags, options *imap.StoreOptions) error {
	var fl []string
	for _, f := range flags.Flags {
		fl = append(fl, hx([]byte(f)))
	}
	return s.rec("Store", fmt.Sprintf("%s op=%d silent=%s [%s]", fmtNumSet(numSet), flags.Op, b01(flags.Silent), strings.Join(fl, ",")))
}
func (s *recSession) Copy(numSet imap.NumSet, dest string) (*imap.CopyData, error) {
	if err := s.rec("Copy", fmtNumSet(numSet)+" "+hx([]byte(dest))); err != nil {
		return nil, err
	}
	return nil, nil
}

// optional interfaces are added by wrapper types so that their presence is a configuration bit
type recSessionMove struct{ *recSession }

func (s recSessionMove) Move(w *imapserver.MoveWriter, numSet imap.NumSet, dest string) error {
	return s.rec("Move", fmtNumSet(numSet)+" "+hx([]byte(dest)))
}

type recSessionFull struct{ *recSession }

func (s recSessionFull) Move(w *imapserver.MoveWriter, numSet imap.NumSet, dest string) error {
	return s.rec("Move", fmtNumSet(numSet)+" "+hx([]byte(dest)))
}
func (s recSessionFull) Namespace() (*imap.NamespaceData, error) {
	if err := s.rec("Namespace", ""); err != nil {
		return nil, err
	}
	return &imap.NamespaceData{Personal: []imap.NamespaceDescriptor{{Prefix: "", Delim: '/'}}}, nil
}
func (s recSessionFull) Unauthenticate() error { return s.rec("Unauthenticate", "") }

func fmtNumSet(ns imap.NumSet) string {
	switch v := ns.(type) {
	case imap.SeqSet:
		return "seq:" + v.String()
	case imap.UIDSet:
		return "uid:" + v.String()
	}
	return "?"
}

func fmtListOptions(o *imap.ListOptions) string {
	if o == nil {
		return "nil"
	}
	st := "nil"
	if o.ReturnStatus != nil {
		st = fmtStatusOptions(o.ReturnStatus)
	}
	return fmt.Sprintf("sub=%s rem=%s rec=%s su=%s rsub=%s rch=%s rsu=%s rst=%s", b01(o.SelectSubscribed), b01(o.SelectRemote), b01(o.SelectRecursiveMatch),
		b01(o.SelectSpecialUse), b01(o.ReturnSubscribed), b01(o.ReturnChildren), b01(o.ReturnSpecialUse), st)
}

func fmtStatusOptions(o *imap.StatusOptions) string {
	if o == nil {
		return "nil"
	}
	return fmt.Sprintf("{n=%s un=%s uv=%s us=%s d=%s sz=%s al=%s dst=%s hm=%s}", b01(o.NumMessages), b01(o.UIDNext), b01(o.UIDValidity), b01(o.NumUnseen),
		b01(o.NumDeleted), b01(o.Size), b01(o.AppendLimit), b01(o.DeletedStorage), b01(o.HighestModSeq))
}

func fmtSearchOptions(o *imap.SearchOptions) string {
	if o == nil {
		return "nil"
	}
	return fmt.Sprintf("{min=%s max=%s all=%s count=%s save=%s}", b01(o.ReturnMin), b01(o.ReturnMax), b01(o.ReturnAll), b01(o.ReturnCount), b01(o.ReturnSave))
}

func fmtFetchOptions(o *imap.FetchOptions) string {
	if o == nil {
		return "nil"
	}
	var parts []string
	add := func(b bool, n string) {
		if b {
			parts = append(parts, n)
		}
	}
	add(o.BodyStructure != nil, "bs")
	if o.BodyStructure != nil {
		add(o.BodyStructure.Extended, "bsx")
	}
	add(o.Envelope, "env")
	add(o.Flags, "flags")
	add(o.InternalDate, "date")
	add(o.RFC822Size, "size")
	add(o.UID, "uid")
	add(o.ModSeq, "modseq")
	for _, bs := range o.BodySection {
		parts = append(parts, "sec:"+fmtBodySection(bs))
	}
	for _, bs := range o.BinarySection {
		p := fmt.Sprintf("bin:%v peek=%s", bs.Part, b01(bs.Peek))
		if bs.Partial != nil {
			p += fmt.Sprintf(" <%d.%d>", bs.Partial.Offset, bs.Partial.Size)
		}
		parts = append(parts, p)
	}
	for _, bs := range o.BinarySectionSize {
		parts = append(parts, fmt.Sprintf("binsize:%v", bs.Part))
	}
	return "{" + strings.Join(parts, ";") + "}"
}

func fmtBodySection(bs *imap.FetchItemBodySection) string {
	var hf, hfn []string
	for _, h := range bs.HeaderFields {
		hf = append(hf, hx([]byte(h)))
	}
	for _, h := range bs.HeaderFieldsNot {
		hfn = append(hfn, hx([]byte(h)))
	}
	p := fmt.Sprintf("%s part=%v hf=[%s] hfn=[%s] peek=%s", bs.Specifier, bs.Part, strings.Join(hf, ","), strings.Join(hfn, ","), b01(bs.Peek))
	if bs.Partial != nil {
		p += fmt.Sprintf(" <%d.%d>", bs.Partial.Offset, bs.Partial.Size)
	}
	return p
}

const goZeroUnix = 62135596800

func fmtTime(t time.Time) int64 {
	if t.IsZero() {
		return 0
	}
	return t.Unix() + goZeroUnix
}

func fmtRangesOf(s string) string {
	// "1:3,5,7:*" -> "1-3,5-5,7-0"
	if s == "" {
		return ""
	}
	var out []string
	for _, it := range strings.Split(s, ",") {
		ab := strings.Split(it, ":")
		conv := func(x string) string {
			if x == "*" {
				return "0"
			}
			return x
		}
		if len(ab) == 1 {
			out = append(out, conv(ab[0])+"-"+conv(ab[0]))
		} else {
			out = append(out, conv(ab[0])+"-"+conv(ab[1]))
		}
	}
	return strings.Join(out, ",")
}

// fmtCriteria renders a SearchCriteria in the text form the Lean driver parses.
func fmtCriteria(c *imap.SearchCriteria) string {
	var items []string
	for _, s := range c.SeqNum {
		items = append(items, "q"+fmtRangesOf(s.String()))
	}
	for _, s := range c.UID {
		items = append(items, "u"+fmtRangesOf(s.String()))
	}
	if !c.Since.IsZero() {
		items = append(items, fmt.Sprintf("s%d", fmtTime(c.Since)))
	}
	if !c.Before.IsZero() {
		items = append(items, fmt.Sprintf("b%d", fmtTime(c.Before)))
	}
	if !c.SentSince.IsZero() {
		items = append(items, fmt.Sprintf("S%d", fmtTime(c.SentSince)))
	}
	if !c.SentBefore.IsZero() {
		items = append(items, fmt.Sprintf("B%d", fmtTime(c.SentBefore)))
	}
	for _, h := range c.Header {
		items = append(items, "h"+hx([]byte(h.Key))+":"+hx([]byte(h.Value)))
	}
	for _, s := range c.Body {
		items = append(items, "y"+hx([]byte(s)))
	}
	for _, s := range c.Text {
		items = append(items, "t"+hx([]byte(s)))
	}
	for _, f := range c.Flag {
		items = append(items, "f"+hx([]byte(f)))
	}
	for _, f := range c.NotFlag {
		items = append(items, "F"+hx([]byte(f)))
	}
	if c.Larger != 0 {
		items = append(items, fmt.Sprintf("l%d", c.Larger))
	}
	if c.Smaller != 0 {
		items = append(items, fmt.Sprintf("m%d", c.Smaller))
	}
	for i := range c.Not {
		items = append(items, "n "+fmtCriteria(&c.Not[i]))
	}
	for i := range c.Or {
		items = append(items, "o "+fmtCriteria(&c.Or[i][0])+" "+fmtCriteria(&c.Or[i][1]))
	}
	return "(" + strings.Join(items, " ") + ")"
}

// testServer bundles a real imapserver.Server over the in-memory listener.
type testServer struct {
	srv  *imapserver.Server
	ln   *memListener
	mu   sync.Mutex
	sess []*recSession
	logs []string
}

type logSink struct{ ts *testServer }

func (l logSink) Printf(format string, args ...interface{}) {
	l.ts.mu.Lock()
	l.ts.logs = append(l.ts.logs, fmt.Sprintf(format, args...))
	l.ts.mu.Unlock()
}

type stubCfg struct {
	caps     imap.CapSet
	insecure bool
	preauth  bool
	full     bool // session implements Move/Namespace/Unauthenticate
	fail     map[string]error
	onCall   func(s *recSession, name string)
	// implicitTLS: Server.Serve is handed *tls.Conn connections (tls.Server over the in-memory
	// pipe); clients must speak TLS (memTLSClientConfig). startTLS: Options.TLSConfig is set.
	implicitTLS bool
	startTLS    bool
}

func newStubServer(cfg stubCfg) *testServer {
	ts := &testServer{ln: newMemListener()}
	opts := &imapserver.Options{
		NewSession: func(c *imapserver.Conn) (imapserver.Session, *imapserver.GreetingData, error) {
			s := newRecSession()
			s.conn = c
			s.onCall = cfg.onCall
			for k, v := range cfg.fail {
				s.fail[k] = v
			}
			ts.mu.Lock()
			ts.sess = append(ts.sess, s)
			ts.mu.Unlock()
			g := &imapserver.GreetingData{PreAuth: cfg.preauth}
			if cfg.full {
				return recSessionFull{s}, g, nil
			}
			return s, g, nil
		},
		Caps:         cfg.caps,
		InsecureAuth: cfg.insecure,
		Logger:       logSink{ts},
		TLSConfig:    stubStartTLSConfig(cfg),
	}
	ts.srv = imapserver.New(opts)
	scrambleOptions(opts)
	if cfg.implicitTLS {
		go ts.srv.Serve(tlsMemListener{ts.ln, memTLSServerConfig()})
	} else {
		go ts.srv.Serve(ts.ln)
	}
	return ts
}

func stubStartTLSConfig(cfg stubCfg) *tls.Config {
	if cfg.startTLS {
		return memTLSServerConfig()
	}
	return nil
}

func (ts *testServer) close() { ts.srv.Close() }

func (ts *testServer) lastSession() *recSession {
	ts.mu.Lock()
	defer ts.mu.Unlock()
	if len(ts.sess) == 0 {
		return nil
	}
	return ts.sess[len(ts.sess)-1]
}

// rawClient is a minimal line-oriented client for driving a server with exact bytes.
type rawClient struct {
	c  *memConn
	br *bufio.Reader
}

func newRawClient(c *memConn) *rawClient {
	c.SetReadDeadline(time.Now().Add(120 * time.Second))
	return &rawClient{c: c, br: bufio.NewReader(c)}
}

func (rc *rawClient) send(s string) { rc.c.Write([]byte(s)) }

// readLine returns one response line without CRLF ("" + error at EOF).
func (rc *rawClient) readLine() (string, error) {
	line, err := rc.br.ReadString('\n')
	return strings.TrimRight(line, "\r\n"), err
}

// until reads lines until one starts with prefix (e.g. "a1 ") and returns all lines read.
func (rc *rawClient) until(prefix string) ([]string, error) {
	var lines []string
	for {
		l, err := rc.readLine()
		if l != "" || err == nil {
			lines = append(lines, l)
		}
		if err != nil {
			return lines, err
		}
		if strings.HasPrefix(l, prefix) {
			return lines, nil
		}
	}
}

// cmd sends a tagged command and returns the status word of its completion ("OK"/"NO"/"BAD") and the lines.
func (rc *rawClient) cmd(tag, text string) (string, []string) {
	rc.send(tag + " " + text + "\r\n")
	lines, err := rc.until(tag + " ")
	if err != nil || len(lines) == 0 {
		return "EOF", lines
	}
	f := strings.Fields(lines[len(lines)-1])
	if len(f) < 2 {
		return "?", lines
	}
	return f[1], lines
}

// scrambleOptions turns the caller's Options into the opposite policy after the server was built:
// a server is configured by what New was given (it keeps a copy), so reusing or editing the struct
// afterwards - say, to build a second, laxer server in a table-driven setup - must not change what a
// running server offers or accepts (C05/C17: credentials only as configured).
func scrambleOptions(o *imapserver.Options) {
	o.InsecureAuth = !o.InsecureAuth
	if o.TLSConfig != nil {
		o.TLSConfig = nil
	}
	o.Caps = nil
}
