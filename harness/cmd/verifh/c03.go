//go:build c03 || allprops

package main

import (
	"fmt"
	"io"
	"mime"
	"sort"
	"strings"
	"sync"
	"time"

	"github.com/emersion/go-imap/v2"
	"github.com/emersion/go-imap/v2/imapclient"
	"github.com/emersion/go-imap/v2/imapserver"
)

// C03 — server responses are decoded by the client into the data the backend supplied.
//
// A scripted backend (respSession, respstub.go) hands generated data to the REAL server writers;
// the REAL imapclient.Client on the other end of an in-memory connection issues the matching
// command. Each case line carries: family, configuration, stream, request, what the backend
// supplied, the outcome class, what Wait/Collect/Next delivered, and the bytes the server wrote.
// The Lean driver judges `delivered = canon supplied` (Spec/RespGrammar.lean) and compares bytes
// and delivery with printResp/parseResp (Model/RespGrammar.lean).

func init() {
	props["C03"] = genC03
	replayers["C03"] = replayC03
}

// ---- environment: real server + real client over an in-memory connection ---------------------------

type c03Env struct {
	srv  *imapserver.Server
	ln   *memListener
	sess *respSession
	cl   *imapclient.Client
	cfg  string
	mu   sync.Mutex
	wire []byte
	exp  []uint32 // EXPUNGE numbers delivered to the unilateral data handler
	dead bool
}

func c03NewEnv(cfg string) *c03Env {
	env := &c03Env{ln: newMemListener(), cfg: cfg}
	newS := make(chan *respSession, 1)
	env.srv = imapserver.New(&imapserver.Options{
		NewSession: func(c *imapserver.Conn) (imapserver.Session, *imapserver.GreetingData, error) {
			s := newRespSession()
			newS <- s
			return s, nil, nil
		},
		Caps:         imap.CapSet{imap.CapIMAP4rev1: {}, imap.CapIMAP4rev2: {}}, // as cmd/imapmemserver
		InsecureAuth: true,
		Logger:       discardLogger{},
	})
	go env.srv.Serve(env.ln)
	c, s := memPipe()
	s.onWrite = func(p []byte) {
		env.mu.Lock()
		env.wire = append(env.wire, p...)
		env.mu.Unlock()
	}
	env.ln.ch <- s
	env.sess = <-newS
	env.cl = imapclient.New(c, &imapclient.Options{UnilateralDataHandler: &imapclient.UnilateralDataHandler{
		Expunge: func(n uint32) {
			env.mu.Lock()
			env.exp = append(env.exp, n)
			env.mu.Unlock()
		},
	}})
	ok := c03Do(func() string {
		if err := env.cl.WaitGreeting(); err != nil {
			return "clienterr"
		}
		if err := env.cl.Login("u", "p").Wait(); err != nil {
			return "clienterr"
		}
		switch cfg {
		case "rev2":
			if _, err := env.cl.Enable(imap.CapIMAP4rev2).Wait(); err != nil {
				return "clienterr"
			}
		case "utf8":
			if _, err := env.cl.Enable(imap.CapUTF8Accept).Wait(); err != nil {
				return "clienterr"
			}
		}
		if _, err := env.cl.Select("INBOX", nil).Wait(); err != nil {
			return "clienterr"
		}
		return "ok"
	})
	if ok != "ok" {
		panic("c03: cannot set up environment: " + ok)
	}
	return env
}

func (env *c03Env) close() {
	env.cl.Close()
	env.srv.Close()
}

func (env *c03Env) mark() int {
	env.mu.Lock()
	defer env.mu.Unlock()
	env.exp = nil
	return len(env.wire)
}

func (env *c03Env) since(off int) []byte {
	env.mu.Lock()
	defer env.mu.Unlock()
	b := append([]byte(nil), env.wire[off:]...)
	if len(env.wire) > 1<<20 {
		env.wire = nil
	}
	return b
}

var c03Pool = struct {
	mu sync.Mutex
	m  map[string][]*c03Env
}{m: map[string][]*c03Env{}}

func c03Get(cfg string) *c03Env {
	c03Pool.mu.Lock()
	l := c03Pool.m[cfg]
	if len(l) > 0 {
		env := l[len(l)-1]
		c03Pool.m[cfg] = l[:len(l)-1]
		c03Pool.mu.Unlock()
		return env
	}
	c03Pool.mu.Unlock()
	return c03NewEnv(cfg)
}

func c03Put(env *c03Env) {
	if env.dead {
		go env.close()
		return
	}
	c03Pool.mu.Lock()
	c03Pool.m[env.cfg] = append(c03Pool.m[env.cfg], env)
	c03Pool.mu.Unlock()
}

func c03Drain() {
	c03Pool.mu.Lock()
	defer c03Pool.mu.Unlock()
	for k, l := range c03Pool.m {
		for _, env := range l {
			env.close()
		}
		delete(c03Pool.m, k)
	}
}

// c03Do runs f with a watchdog; a panic in f's goroutine and a hang are outcomes, not harness failures.
func c03Do(f func() string) string {
	done := make(chan string, 1)
	go func() {
		defer func() {
			if r := recover(); r != nil {
				done <- "panic"
			}
		}()
		done <- f()
	}()
	select {
	case s := <-done:
		return s
	case <-time.After(90 * time.Second): // generous: a loaded machine must not turn a slow run into a verdict
		return "hang"
	}
}

func c03Err(err error) string {
	if err == nil {
		return "ok"
	}
	if ie, ok := err.(*imap.Error); ok {
		return strings.ToLower(string(ie.Type))
	}
	return "clienterr"
}

// ---- running one case ---------------------------------------------------------------------------------

// c03Run executes one case: req and supplied are vals (see the generators for the layout per family).
// c03Step is one command of a case: the script its backend call will hand to the writers, how to send
// the command (issue: returns as soon as the command is on the wire) and how to wait for what it delivers.
type c03Step struct {
	family    string
	sc        *respScript
	issue     func()
	collect   func() string
	delivered *val
}

func c03Prepare(env *c03Env, family string, req, sup *val) *c03Step {
	st := &c03Step{family: family, sc: &respScript{}}
	sc := st.sc
	cl := env.cl

	switch family {
	case "fetch":
		// req: ( uidmode ext mode chunk ) ; sup: ( ( seq ( item* ) )* )
		uidMode, mode := req.at(0).boolean(), req.at(2).s
		sc.chunk = int(req.at(3).n)
		opts := &imap.FetchOptions{}
		if !req.at(1).isNil() {
			opts.BodyStructure = &imap.FetchItemBodyStructure{Extended: req.at(1).boolean()}
		}
		var seqs imap.SeqSet
		var uids imap.UIDSet
		for _, m := range sup.kids {
			rm := respMsg{seq: m.at(0).u32()}
			for _, it := range m.at(1).kids {
				item := gFetchItem(it)
				if item.kind == "uid" {
					uids.AddNum(item.uid)
				}
				rm.items = append(rm.items, item)
			}
			seqs.AddNum(rm.seq)
			sc.fetch = append(sc.fetch, rm)
		}
		if len(seqs) == 0 {
			seqs.AddNum(1)
		}
		if len(uids) == 0 {
			uids.AddNum(1)
		}
		var cmd *imapclient.FetchCommand
		st.issue = func() {
			if uidMode {
				cmd = cl.Fetch(uids, opts)
			} else {
				cmd = cl.Fetch(seqs, opts)
			}
		}
		st.collect = func() string {
			st.delivered = vL()
			if mode == "collect" {
				bufs, err := cmd.Collect()
				for _, b := range bufs {
					st.delivered.add(c03BufferVal(b))
				}
				return c03Err(err)
			}
			for {
				msg := cmd.Next()
				if msg == nil {
					break
				}
				items := vL()
				for {
					item := msg.Next()
					if item == nil {
						break
					}
					var lit []byte
					switch it := item.(type) {
					case imapclient.FetchItemDataBodySection:
						if it.Literal != nil {
							lit, _ = io.ReadAll(it.Literal)
						}
					case imapclient.FetchItemDataBinarySection:
						if it.Literal != nil {
							lit, _ = io.ReadAll(it.Literal)
						}
					}
					items.add(vFetchItem(item, lit))
				}
				st.delivered.add(vL(vN(uint64(msg.SeqNum)), items))
			}
			return c03Err(cmd.Close())
		}
	case "list":
		// req: ( statusopts|_ ) ; sup: ( listdata* )
		var opts *imap.ListOptions
		if so := gStatusOpts(req.at(0)); so != nil {
			opts = &imap.ListOptions{ReturnStatus: so}
		}
		for _, d := range sup.kids {
			sc.list = append(sc.list, gListData(d))
		}
		var cmd *imapclient.ListCommand
		st.issue = func() { cmd = cl.List("", "*", opts) }
		st.collect = func() string {
			l, err := cmd.Collect()
			st.delivered = vL()
			for _, d := range l {
				st.delivered.add(vListData(d))
			}
			return c03Err(err)
		}
	case "status":
		// req: ( statusopts ) ; sup: statusdata
		opts := gStatusOpts(req.at(0))
		sc.status = gStatus(sup)
		mbox := sc.status.Mailbox
		var cmd *imapclient.StatusCommand
		st.issue = func() { cmd = cl.Status(mbox, opts) }
		st.collect = func() string {
			d, err := cmd.Wait()
			st.delivered = vStatus(d)
			return c03Err(err)
		}
	case "select":
		// req: ( readonly mailbox ) ; sup: selectdata
		sc.sel = gSelect(sup)
		mbox := req.at(1).s
		ro := req.at(0).boolean()
		var cmd *imapclient.SelectCommand
		st.issue = func() { cmd = cl.Select(mbox, &imap.SelectOptions{ReadOnly: ro}) }
		st.collect = func() string {
			d, err := cmd.Wait()
			st.delivered = vSelect(d)
			return c03Err(err)
		}
	case "search":
		// req: ( uidmode searchopts|_ ) ; sup: searchdata
		sc.search = gSearch(sup)
		opts := gSearchOpts(req.at(1))
		uidMode := req.at(0).boolean()
		var cmd *imapclient.SearchCommand
		st.issue = func() {
			if uidMode {
				cmd = cl.UIDSearch(&imap.SearchCriteria{}, opts)
			} else {
				cmd = cl.Search(&imap.SearchCriteria{}, opts)
			}
		}
		st.collect = func() string {
			d, err := cmd.Wait()
			st.delivered = vSearch(d)
			return c03Err(err)
		}
	case "append":
		sc.appendD = gAppend(sup)
		var cmd *imapclient.AppendCommand
		st.issue = func() {
			cmd = cl.Append("INBOX", 3, nil)
			cmd.Write([]byte("abc"))
			cmd.Close()
		}
		st.collect = func() string {
			d, err := cmd.Wait()
			st.delivered = vAppend(d)
			return c03Err(err)
		}
	case "copy":
		sc.copyD = gCopy(sup)
		var cmd *imapclient.CopyCommand
		st.issue = func() { cmd = cl.Copy(imap.SeqSetNum(1), "dest") }
		st.collect = func() string {
			d, err := cmd.Wait()
			if d != nil {
				st.delivered = vCopy(d)
			}
			return c03Err(err)
		}
	case "move":
		// sup: ( copydata|_ ( expunge* ) )
		sc.moveCopy = gCopy(sup.at(0))
		sc.moveExp = gU32s(sup.at(1))
		var cmd *imapclient.MoveCommand
		st.issue = func() { cmd = cl.Move(imap.SeqSetNum(1), "dest") }
		st.collect = func() string {
			d, err := cmd.Wait()
			cp := vNil()
			if d != nil {
				cp = vL(vN(uint64(d.UIDValidity)), c03SetRanges(d.SourceUIDs), c03SetRanges(d.DestUIDs))
			}
			env.mu.Lock()
			st.delivered = vL(cp, vU32s(env.exp))
			env.mu.Unlock()
			return c03Err(err)
		}
	case "namespace":
		sc.ns = gNamespace(sup)
		var cmd *imapclient.NamespaceCommand
		st.issue = func() { cmd = cl.Namespace() }
		st.collect = func() string {
			d, err := cmd.Wait()
			st.delivered = vNamespace(d)
			return c03Err(err)
		}
	case "expunge":
		// req: ( uidmode )
		sc.expunge = gU32s(sup)
		uidMode := req.at(0).boolean()
		var cmd *imapclient.ExpungeCommand
		st.issue = func() {
			if uidMode {
				cmd = cl.UIDExpunge(imap.UIDSetNum(1, 2, 3))
			} else {
				cmd = cl.Expunge()
			}
		}
		st.collect = func() string {
			l, err := cmd.Collect()
			st.delivered = vU32s(l)
			return c03Err(err)
		}
	case "caps":
		// sup: the capability set the server is configured with (constant: as cmd/imapmemserver)
		var cmd *imapclient.CapabilityCommand
		st.issue = func() { cmd = cl.Capability() }
		st.collect = func() string {
			caps, err := cmd.Wait()
			var l []string
			for c := range caps {
				l = append(l, string(c))
			}
			sort.Strings(l)
			st.delivered = vStrs(l)
			return c03Err(err)
		}
	default:
		panic("c03: unknown family " + family)
	}
	return st
}

// c03Run executes one case. family "pipe": req = ( ( Afamily req )* ), sup = ( sup* ): the commands are all
// sent before the backend answers the first one (the first scripted backend call waits for the gate), so the
// client routes every response with all commands pending; delivered = ( ( Aoutcome delivered )* ).
func c03Run(family, cfg, stream string, req, sup *val) caseLine {
	env := c03Get(cfg)
	defer c03Put(env)

	var steps []*c03Step
	if family == "pipe" {
		for i, r := range req.kids {
			steps = append(steps, c03Prepare(env, r.at(0).s, r.at(1), sup.at(i)))
		}
	} else {
		steps = []*c03Step{c03Prepare(env, family, req, sup)}
	}
	var scripts []*respScript
	for _, st := range steps {
		scripts = append(scripts, st.sc)
	}
	gate := make(chan struct{})
	env.sess.pushScripts(scripts, gate)
	off := env.mark()
	outcomes := make([]string, len(steps))
	outcome := c03Do(func() string {
		for _, st := range steps {
			st.issue()
		}
		close(gate)
		all := "ok"
		for i, st := range steps {
			outcomes[i] = st.collect()
			if all == "ok" && outcomes[i] != "ok" {
				all = outcomes[i]
			}
		}
		return all
	})
	select {
	case <-gate:
	default:
		close(gate)
	}
	env.sess.pushScripts(nil, nil)
	if outcome != "ok" && outcome != "no" && outcome != "bad" {
		env.dead = true
	}
	wire := env.since(off)
	var delivered *val
	qtab := vL()
	if family == "pipe" {
		delivered = vL()
		for i, st := range steps {
			d := st.delivered
			if d == nil {
				d = vNil()
			}
			o := outcomes[i]
			if o == "" {
				o = outcome
			}
			delivered.add(vL(vA(o), d))
		}
	} else {
		delivered = steps[0].delivered
		if delivered == nil {
			delivered = vNil()
		}
		if family == "fetch" {
			qtab = c03QTable(sup)
		}
	}
	return caseLine{kind: family, fields: []string{cfg, stream, req.String(), sup.String(), outcome, delivered.String(), hx(wire), qtab.String()},
		counts: []string{"family:" + family, "cfg:" + cfg, "stream:" + stream, "outcome:" + outcome}}
}

// c03QTable: what the real mime package does with the strings of the case (below the modelled interface):
// ( AE s enc ) = QEncoding.Encode("utf-8", s) when it changes s; ( AD w dec ) = WordDecoder.DecodeHeader(w) (w itself on
// error, as Options.decodeText does) for every supplied or encoded string containing "=?".
func c03QTable(sup *val) *val {
	hasHdr := false
	seen := map[string]bool{}
	var strs []string
	var walk func(v *val)
	walk = func(v *val) {
		switch v.k {
		case 'A':
			if v.s == "env" || v.s == "bs" {
				hasHdr = true
			}
		case 'S':
			if !seen[v.s] {
				seen[v.s] = true
				strs = append(strs, v.s)
			}
		case 'L':
			for _, k := range v.kids {
				walk(k)
			}
		}
	}
	walk(sup)
	t := vL()
	if !hasHdr {
		return t
	}
	dec := new(mime.WordDecoder)
	addDec := func(w string) {
		if strings.Contains(w, "=?") {
			d, err := dec.DecodeHeader(w)
			if err != nil {
				d = w
			}
			t.add(vL(vA("D"), vS(w), vS(d)))
		}
	}
	for _, s := range strs {
		if len(s) > 20000 {
			continue
		}
		e := mime.QEncoding.Encode("utf-8", s)
		if e != s {
			t.add(vL(vA("E"), vS(s), vS(e)))
			addDec(e)
		}
		addDec(s)
	}
	return t
}

func c03SetRanges(ns imap.NumSet) *val {
	if ns == nil {
		return vL()
	}
	return vRanges(ns.String())
}

// c03BufferVal renders what Collect delivered: ( seq uid flags date size env bs ( sec* ) ( bin* ) ( binsize* ) )
// with sections sorted by their rendering (a Go map has no order).
func c03BufferVal(b *imapclient.FetchMessageBuffer) *val {
	bs := vNil()
	if b.BodyStructure != nil {
		bs = vBody(b.BodyStructure)
	}
	var secs, bins []string
	secv, binv := map[string]*val{}, map[string]*val{}
	i := 0
	for k, d := range b.BodySection {
		v := vL(vSection(k), vS(string(d)))
		key := fmt.Sprintf("%s#%d", v.String(), i)
		i++
		secs = append(secs, key)
		secv[key] = v
	}
	for k, d := range b.BinarySection {
		v := vL(vBinSection(k), vS(string(d)))
		key := fmt.Sprintf("%s#%d", v.String(), i)
		i++
		bins = append(bins, key)
		binv[key] = v
	}
	sort.Strings(secs)
	sort.Strings(bins)
	sl, bl, zl := vL(), vL(), vL()
	for _, k := range secs {
		sl.add(secv[k])
	}
	for _, k := range bins {
		bl.add(binv[k])
	}
	for _, z := range b.BinarySectionSize {
		zl.add(vL(vInts(z.Part), vN(uint64(z.Size))))
	}
	return vL(vN(uint64(b.SeqNum)), vN(uint64(b.UID)), vFlags(b.Flags), vTime(b.InternalDate), vI(b.RFC822Size), vEnvelope(b.Envelope), bs, sl, bl, zl)
}

// ---- generators (all produce vals) ------------------------------------------------------------------

type c03Gen struct {
	seqBase uint32 // pipelined FETCH commands ask for disjoint message numbers
	noUID   bool
	r       *rng
	look    bool   // strings may be RFC 2047 encoded-word look-alikes
	ill     string // kind of ill-formedness to inject ("" = none)
	injectd bool
}

var c03Pieces = []string{
	"a", "b", "Z", "0", " ", "  ", "\r", "\n", "\r\n", "\"", "\\", "\\\"", "(", ")", "{", "}", "{3}", "%", "*", "]", "[", "~", "\t", "\x00", "\x7f",
	"é", "ü", "日本", "😀", "\xff", "\xc3", "\x80", "\xe6\x97", "NIL", "nil", "=", "?", "=?", "?=", "&", "&-", "&AOk-", "@", "<", ">", ",", ";", ":", ".",
	"INBOX", "hello world", "Re: test",
}

var c03Look = []string{
	"=?utf-8?q?abc?=", "=?UTF-8?Q?a_b?=", "=?utf-8?b?YWJj?=", "=?iso-8859-1?q?=E9?=", "=?utf-8?q??=", "=?bogus?q?x?=", "x =?utf-8?q?y?= z",
	"=?utf-8?q?a?= =?utf-8?q?b?=", "=?us-ascii?Q?=3D=3F?=",
}

func (g *c03Gen) str() string {
	r := g.r
	if g.look && r.chance(1, 3) {
		return pick(r, c03Look)
	}
	switch r.intn(10) {
	case 0:
		return ""
	case 1, 2, 3:
		return pick(r, []string{"a", "text", "plain", "foo", "Hello", "x-y", "INBOX", "user", "example.org"})
	case 4:
		if r.chance(1, 12) {
			return strings.Repeat(pick(r, []string{"a", "é", "\""}), pick(r, []int{4095, 4096, 4097, 1366}))
		}
		fallthrough
	default:
		n := 1 + r.intn(4)
		var sb strings.Builder
		for i := 0; i < n; i++ {
			sb.WriteString(pick(r, c03Pieces))
		}
		return sb.String()
	}
}

// asciiStr: adversarial but 7-bit (MIME tokens such as parameter names and encodings are ASCII)
func (g *c03Gen) asciiStr(nonEmpty bool) string {
	for {
		s := g.str()
		ok := !(nonEmpty && s == "")
		for i := 0; i < len(s); i++ {
			if s[i] >= 0x80 {
				ok = false
			}
		}
		if ok {
			return s
		}
	}
}

func c03ValidUTF8(s string) bool {
	for _, r := range s {
		if r == 0xFFFD {
			return false
		}
	}
	return true
}

func (g *c03Gen) mailbox() string {
	r := g.r
	switch r.intn(8) {
	case 0:
		return pick(r, []string{"INBOX", "inbox", "Inbox", "iNbOx"})
	case 1, 2:
		return pick(r, []string{"Sent", "Entwürfe", "日本語", "a/b", "a.b.c", "R&D", "&", "a&-b", "~peter/mail/台北/日本語", "x y", "&AOk-", "Tr\"ash", "back\\slash", "%", "*", "INBOX/sub", "inboxes"})
	default:
		for {
			s := g.str()
			if c03ValidUTF8(s) && len(s) < 1000 { // the name also travels in the request (STATUS/SELECT): keep it in a quoted string
				return s
			}
		}
	}
}

var c03SysFlags = []string{`\Seen`, `\Answered`, `\Flagged`, `\Deleted`, `\Draft`, `$Forwarded`, `$MDNSent`, `$Junk`, `$NotJunk`, `$Phishing`, `$Important`}
var c03Attrs = []string{`\NonExistent`, `\Noinferiors`, `\Noselect`, `\HasChildren`, `\HasNoChildren`, `\Marked`, `\Unmarked`, `\Subscribed`, `\Remote`,
	`\All`, `\Archive`, `\Drafts`, `\Flagged`, `\Junk`, `\Sent`, `\Trash`, `\Important`}

func c03CaseVariant(r *rng, s string) string {
	switch r.intn(4) {
	case 0:
		return strings.ToLower(s)
	case 1:
		return strings.ToUpper(s)
	case 2:
		b := []byte(s)
		for i := range b {
			if r.chance(1, 2) {
				b[i] = strings.ToUpper(string(b[i]))[0]
			} else {
				b[i] = strings.ToLower(string(b[i]))[0]
			}
		}
		return string(b)
	}
	return s
}

func (g *c03Gen) flag(perm bool) string {
	r := g.r
	if g.ill == "flag" && !g.injectd && r.chance(1, 2) {
		g.injectd = true
		return pick(r, []string{"", `\`, "a b", "a(b", `x\y`, "a\"b", "{1}", "a\r\nb", "é(", `\\Seen`, "%", "a]"})
	}
	switch r.intn(6) {
	case 0, 1, 2:
		return c03CaseVariant(r, pick(r, c03SysFlags))
	case 3:
		if perm {
			return `\*`
		}
		return pick(r, []string{`\Custom`, `\X-ext`, `\recent`})
	default:
		return pick(r, []string{"foo", "a.b", "x-1", "$label1", "NonJunk", "KEYWORD", "a[b", "a}b", "<x>", "a=b", "$", "~", "a&b", "nil", "NIL", "1", "seen"})
	}
}

func (g *c03Gen) flags(perm bool) *val {
	v := vL()
	n := pick(g.r, []int{0, 0, 1, 2, 3, 6})
	for i := 0; i < n; i++ {
		v.add(vS(g.flag(perm)))
	}
	return v
}

func (g *c03Gen) attrs() *val {
	v := vL()
	r := g.r
	n := pick(r, []int{0, 1, 1, 2, 3, 5})
	for i := 0; i < n; i++ {
		if g.ill == "attr" && !g.injectd {
			g.injectd = true
			v.add(vS(pick(r, []string{"Noselect", "", `\`, `\a b`, `\a(`})))
			continue
		}
		if r.chance(4, 5) {
			v.add(vS(c03CaseVariant(r, pick(r, c03Attrs))))
		} else {
			v.add(vS(pick(r, []string{`\X-custom`, `\Foo`, `\a.b`, `\$x`})))
		}
	}
	return v
}

func (g *c03Gen) delim() *val {
	r := g.r
	if g.ill == "delim" && !g.injectd {
		g.injectd = true
		return vI(pick(r, []int64{0xD800, 0x110000, 0xFFFD, -1}))
	}
	return vI(pick(r, []int64{0, '/', '/', '.', '"', '\\', ' ', 'é', '日', '😀', '\t', '%'}))
}

func (g *c03Gen) time(allowZero bool) *val {
	r := g.r
	if allowZero && r.chance(1, 6) {
		return vNil()
	}
	var unix int64
	switch r.intn(6) {
	case 0:
		unix = int64(r.next()%315537811200) - 62135510400 // years 1..9999 (a day inside the ends so any zone stays in range)
	case 1:
		unix = pick(r, []int64{0, 1, 86399, 86400, 951782400, 951868799, 1709164800, 4102444799, -1, 253402214399, -62135510400})
	default:
		unix = int64(r.next() % 2000000000)
	}
	off := pick(r, []int64{0, 0, 3600, -18000, 19800, 20700, -43200, 50400, 86340, -86340, 60, -60})
	ns := pick(r, []uint64{0, 0, 0, 1, 500000000, 999999999})
	if g.ill == "time" && !g.injectd {
		g.injectd = true
		switch r.intn(3) {
		case 0:
			off = pick(r, []int64{1, 59, -30, 3661})
		case 1:
			unix = pick(r, []int64{253402300800, 300000000000, -62135596801 - 86400, -70000000000})
		case 2:
			if !allowZero {
				return vNil()
			}
			off = 7
		}
	}
	// the location: unnamed fixed zone, UTC, or a named zone (an abbreviation the peer cannot resolve)
	name := ""
	switch r.intn(5) {
	case 0, 1:
		switch off {
		case 0:
			name = pick(r, []string{"UTC", "GMT", "WET"})
		case 3600:
			name = "CET"
		case -18000:
			name = pick(r, []string{"EST", "CDT"})
		case 19800:
			name = "IST"
		default:
			name = pick(r, []string{"PST", "JST", "XYZ", "LMT"})
		}
	}
	if name == "UTC" {
		return vTime(time.Unix(unix, int64(ns)).UTC())
	}
	return vTime(time.Unix(unix, int64(ns)).In(time.FixedZone(name, int(off))))
}

func (g *c03Gen) addr() *val {
	r := g.r
	switch r.intn(8) {
	case 0: // group start / end markers
		return vL(vS(""), vS(pick(r, []string{"", "group", g.str()})), vS(""))
	case 1:
		return vL(vS(g.str()), vS(g.str()), vS(g.str()))
	default:
		return vL(vS(pick(r, []string{"", "Alice", "Bob Smith", "José", g.str()})), vS(pick(r, []string{"alice", "bob", "a.b", g.str()})),
			vS(pick(r, []string{"example.org", "localhost", "bücher.example", g.str()})))
	}
}

func (g *c03Gen) addrs() *val {
	r := g.r
	switch r.intn(6) {
	case 0:
		return vNil()
	case 1:
		return vL()
	default:
		v := vL()
		n := 1 + r.intn(3)
		for i := 0; i < n; i++ {
			v.add(g.addr())
		}
		return v
	}
}

func (g *c03Gen) msgID() string {
	r := g.r
	if g.ill == "msgid" && !g.injectd {
		g.injectd = true
		return pick(r, []string{"x", "a b@c", "<a@b>", "a@b>", "a@@b", "@", "a@", "é@b", "a@b c", "a\"b@c", "a@b\r\n", g.str() + " "})
	}
	left := pick(r, []string{"a", "abc.def", "1234", "x-y_z", "a!#$%&'*+/=?^_`{|}~b", "20240101.1"})
	right := pick(r, []string{"b", "example.org", "mail.example.com", "[127.0.0.1]", "[x]", "[<a>,b;c]", "localhost"})
	return left + "@" + right
}

func (g *c03Gen) envelope() *val {
	r := g.r
	if r.chance(1, 12) {
		return vNil()
	}
	irt := vNil()
	switch r.intn(4) {
	case 0:
		irt = vL()
	case 1, 2:
		irt = vL()
		n := 1 + r.intn(3)
		for i := 0; i < n; i++ {
			irt.add(vS(g.msgID()))
		}
	}
	mid := ""
	if r.chance(3, 4) {
		mid = g.msgID()
	}
	return vL(g.time(true), vS(g.str()), g.addrs(), g.addrs(), g.addrs(), g.addrs(), g.addrs(), g.addrs(), irt, vS(mid))
}

func (g *c03Gen) params() *val {
	r := g.r
	switch r.intn(5) {
	case 0:
		return vNil()
	case 1:
		return vL()
	}
	n := 1 + r.intn(3)
	seen := map[string]bool{}
	var keys []string
	for i := 0; i < n; i++ {
		k := pick(r, []string{"charset", "name", "boundary", "format", "filename", "CHARSET", "Name", g.asciiStr(true)})
		if g.ill == "paramkey" && !g.injectd {
			g.injectd = true
			k = pick(r, []string{"", "é", "K\xff", "Ü"})
			if r.chance(1, 3) && len(keys) > 0 {
				k = strings.ToUpper(keys[0])
				if k == keys[0] {
					k = strings.ToLower(keys[0])
				}
			}
		} else if seen[strings.ToLower(k)] {
			continue
		}
		if seen[k] {
			continue
		}
		seen[strings.ToLower(k)] = true
		seen[k] = true
		keys = append(keys, k)
	}
	sort.Strings(keys)
	v := vL()
	for _, k := range keys {
		v.add(vL(vS(k), vS(pick(r, []string{"utf-8", "us-ascii", "x.txt", g.str()}))))
	}
	return v
}

func (g *c03Gen) disp() *val {
	r := g.r
	if r.chance(1, 3) {
		return vNil()
	}
	return vL(vS(pick(r, []string{"attachment", "inline", "INLINE", "", g.str()})), g.params())
}

func (g *c03Gen) lang() *val {
	r := g.r
	switch r.intn(5) {
	case 0:
		return vNil()
	case 1:
		return vL()
	}
	v := vL()
	n := 1 + r.intn(3)
	for i := 0; i < n; i++ {
		v.add(vS(pick(r, []string{"en", "fr-CA", "de", "", g.str()})))
	}
	return v
}

func (g *c03Gen) encoding() string {
	r := g.r
	if g.ill == "encoding" && !g.injectd {
		g.injectd = true
		return pick(r, []string{"é", "bin\xff", "ß", "ǆ"})
	}
	return pick(r, []string{"", "7BIT", "7bit", "8bit", "base64", "Base64", "QUOTED-PRINTABLE", "quoted-printable", "binary", "x-token", g.asciiStr(false)})
}

func (g *c03Gen) lines() *val {
	return vI(pick(g.r, []int64{0, 1, 42, 4294967295, 4294967296, 9223372036854775807}))
}

// body generates a body structure; ext says whether extension data is supplied at every level.
func (g *c03Gen) body(depth int, ext bool) *val {
	r := g.r
	kind := r.intn(10)
	if depth <= 0 && kind < 5 {
		kind = 5 + r.intn(5)
	}
	extHere := ext
	if g.ill == "ext-missing" && ext && !g.injectd && r.chance(1, 2) {
		g.injectd = true
		extHere = false
	}
	switch {
	case kind < 3: // multipart
		n := pick(r, []int{1, 1, 2, 2, 3, 4})
		if g.ill == "no-child" && !g.injectd {
			g.injectd = true
			n = 0
		}
		ch := vL()
		for i := 0; i < n; i++ {
			ch.add(g.body(depth-1, ext))
		}
		x := vNil()
		if extHere {
			x = vL(g.params(), g.disp(), g.lang(), vS(g.str()))
		}
		return vL(vA("M"), ch, vS(pick(r, []string{"mixed", "alternative", "MIXED", "related", "", g.str()})), x)
	case kind < 5: // message/rfc822
		typ, sub := c03CaseVariant(r, "message"), c03CaseVariant(r, pick(r, []string{"rfc822", "rfc822", "global"}))
		msg := vL(g.envelope(), g.body(depth-1, ext), g.lines())
		text := vNil()
		if g.ill == "kind-mismatch" && !g.injectd {
			g.injectd = true
			switch r.intn(3) {
			case 0:
				msg = vNil()
			case 1:
				typ = "application"
			case 2:
				text = vL(g.lines())
			}
		}
		return g.single(typ, sub, msg, text, extHere)
	case kind < 8: // text
		typ := c03CaseVariant(r, "text")
		text := vL(g.lines())
		if g.ill == "kind-mismatch" && !g.injectd {
			g.injectd = true
			if r.chance(1, 2) {
				text = vNil()
			} else {
				typ = "image"
			}
		}
		return g.single(typ, pick(r, []string{"plain", "html", "PLAIN", "", g.str()}), vNil(), text, extHere)
	default: // leaf
		typ := pick(r, []string{"application", "image", "audio", "APPLICATION", "x-unknown", "", "messages", "texts", "messagex", "message/rfc822", g.str()})
		if strings.EqualFold(typ, "text") {
			typ = "textual"
		}
		sub := pick(r, []string{"octet-stream", "png", "pdf", "rfc822", "global", "y", "", g.str()})
		if r.chance(1, 3) {
			// a message/* part that is NOT an embedded message: a plain leaf (only rfc822 and global carry envelope + body)
			typ = c03CaseVariant(r, "message")
			sub = pick(r, []string{"delivery-status", "disposition-notification", "partial", "external-body", "Delivery-Status", "rfc822x", "rfc82", "globals", "feedback-report", ""})
		}
		if strings.EqualFold(typ, "message") && (strings.EqualFold(sub, "rfc822") || strings.EqualFold(sub, "global")) {
			sub = "partial"
		}
		return g.single(typ, sub, vNil(), vNil(), extHere)
	}
}

func (g *c03Gen) single(typ, sub string, msg, text *val, ext bool) *val {
	r := g.r
	x := vNil()
	if ext {
		x = vL(g.disp(), g.lang(), vS(g.str()))
	}
	return vL(vA("P"), vS(typ), vS(sub), g.params(), vS(g.str()), vS(g.str()), vS(g.encoding()),
		vN(pick(r, []uint64{0, 1, 42, 4096, 4294967295})), msg, text, x)
}

func (g *c03Gen) part() *val {
	r := g.r
	v := vL()
	n := pick(r, []int{0, 0, 1, 1, 2, 3, 5})
	for i := 0; i < n; i++ {
		p := pick(r, []int64{1, 1, 2, 3, 10, 4294967295})
		if g.ill == "part" && !g.injectd {
			g.injectd = true
			p = pick(r, []int64{-1, 4294967296, -5})
		}
		v.add(vI(p))
	}
	return v
}

func (g *c03Gen) partial(sizeToo bool) *val {
	r := g.r
	if r.chance(2, 3) {
		return vNil()
	}
	off := pick(r, []int64{0, 1, 10, 4096, 4294967295})
	if g.ill == "partial" && !g.injectd {
		g.injectd = true
		off = pick(r, []int64{4294967296, 9223372036854775807, -1})
	}
	return vL(vI(off), vI(pick(r, []int64{0, 1, 100, 9223372036854775807})))
}

func (g *c03Gen) literal() string {
	r := g.r
	n := pick(r, []int{0, 0, 1, 1, 2, 3, 10, 10, 64, 100, 100, 1000, 4095, 4096, 4097})
	if r.chance(1, 150) {
		n = 65537
	}
	b := make([]byte, n)
	mode := r.intn(4)
	for i := range b {
		switch mode {
		case 0:
			b[i] = byte(r.next())
		case 1:
			b[i] = "abc \r\n)(\"\\{}~"[r.intn(13)]
		case 2:
			b[i] = "\r\n"[i%2]
		default:
			b[i] = byte('a' + i%26)
		}
	}
	if n >= 12 && r.chance(1, 2) {
		copy(b[n-12:], ")\r\nT9 OK x\r\n") // a payload that looks like the end of the response
	}
	return string(b)
}

func (g *c03Gen) section() *val {
	r := g.r
	spec := pick(r, []string{"", "", "HEADER", "TEXT", "MIME", "HEADER", "HEADER"})
	part := g.part()
	if spec == "MIME" && len(part.kids) == 0 {
		part.add(vN(1))
	}
	hf, hfn := vL(), vL()
	if spec == "HEADER" {
		names := vL()
		n := 1 + r.intn(3)
		for i := 0; i < n; i++ {
			names.add(vS(pick(r, []string{"Subject", "From", "X-Foo", "to", g.str()})))
		}
		switch r.intn(3) {
		case 0:
			hf = names
		case 1:
			hfn = names
		}
	}
	if g.ill == "section" && !g.injectd {
		g.injectd = true
		switch r.intn(3) {
		case 0:
			spec = pick(r, []string{"BOGUS", "header", "HEADER.FIELDS", "a b"})
		case 1:
			hf, hfn = vL(vS("A")), vL(vS("B"))
			spec = "HEADER"
		case 2:
			spec = ""
			hf = vL(vS("A"))
		}
	}
	return vL(vS(spec), part, hf, hfn, g.partial(true), vB(r.chance(1, 2)))
}

func (g *c03Gen) binSection() *val {
	return vL(g.part(), g.partial(true), vB(g.r.chance(1, 2)))
}

func (g *c03Gen) fetchItems(ext *val, uidMode bool, uid uint32) *val {
	r := g.r
	items := vL()
	if uidMode {
		items.add(vL(vA("uid"), vN(uint64(uid))))
	}
	kinds := []string{"flags", "date", "size", "env", "bs", "sec", "bin", "binsize", "uid"}
	n := pick(r, []int{0, 1, 1, 2, 2, 3, 4, 6, 9})
	for i := 0; i < n; i++ {
		k := pick(r, kinds)
		switch k {
		case "uid":
			if uidMode {
				continue
			}
			items.add(vL(vA("uid"), vN(pick(r, []uint64{1, 2, 42, 4294967295}))))
		case "flags":
			items.add(vL(vA("flags"), g.flags(false)))
		case "date":
			items.add(vL(vA("date"), g.time(false)))
		case "size":
			sz := pick(r, []int64{0, 1, 4096, 4294967295, 4294967296, 9223372036854775807})
			if g.ill == "negative" && !g.injectd {
				g.injectd = true
				sz = pick(r, []int64{-1, -9223372036854775808})
			}
			items.add(vL(vA("size"), vI(sz)))
		case "env":
			items.add(vL(vA("env"), g.envelope()))
		case "bs":
			if ext.isNil() {
				continue
			}
			items.add(vL(vA("bs"), ext, g.body(pick(r, []int{0, 1, 2, 3, 5}), ext.boolean())))
		case "sec":
			items.add(vL(vA("sec"), g.section(), vS(g.literal())))
		case "bin":
			items.add(vL(vA("bin"), g.binSection(), vS(g.literal())))
		case "binsize":
			items.add(vL(vA("binsize"), g.part(), vN(pick(r, []uint64{0, 1, 42, 4294967295}))))
		}
	}
	return items
}

func (g *c03Gen) fetch() (req, sup *val) {
	r := g.r
	uidMode := r.chance(1, 4) && !g.noUID
	ext := vNil()
	switch r.intn(3) {
	case 0:
		ext = vN(0)
	case 1:
		ext = vN(1)
	}
	mode := "stream"
	if r.chance(1, 4) {
		mode = "collect"
	}
	sup = vL()
	n := pick(r, []int{1, 1, 1, 2, 3})
	seq := uint32(pick(r, []int{1, 1, 2, 7, 4294967290}))
	if g.seqBase != 0 {
		seq = g.seqBase
	}
	uid := uint32(pick(r, []int{1, 5, 100, 4294967290}))
	for i := 0; i < n; i++ {
		sup.add(vL(vN(uint64(seq)), g.fetchItems(ext, uidMode, uid)))
		seq += uint32(1 + r.intn(3))
		uid += uint32(1 + r.intn(3))
	}
	req = vL(vB(uidMode), ext, vA(mode), vN(pick(r, []uint64{0, 0, 1, 7, 4096})))
	return
}

func (g *c03Gen) pU32() *val {
	return vN(pick(g.r, []uint64{0, 1, 42, 4294967295}))
}

func (g *c03Gen) statusOpts() *val {
	r := g.r
	v := vL()
	all := r.chance(1, 5)
	for i := 0; i < 8; i++ {
		v.add(vB(all || r.chance(1, 2)))
	}
	return v
}

// statusData supplies every requested item (and sometimes more than was requested)
func (g *c03Gen) statusData(mbox string, opts *val) *val {
	r := g.r
	extra := r.chance(1, 4)
	has := func(i int) bool { return opts.at(i).boolean() || (extra && r.chance(1, 2)) }
	p32 := func(i int) *val {
		if has(i) {
			return g.pU32()
		}
		return vNil()
	}
	p64 := func(i int) *val {
		if has(i) {
			n := pick(r, []int64{0, 1, 4294967296, 9223372036854775807})
			if g.ill == "negative" && !g.injectd {
				g.injectd = true
				n = -1
			}
			return vI(n)
		}
		return vNil()
	}
	n32 := func(i int) *val {
		if has(i) {
			return g.pU32()
		}
		return vN(0)
	}
	al := vNil() // APPENDLIMIT may legitimately be absent (NIL on the wire)
	if has(6) && r.chance(2, 3) {
		al = g.pU32()
	}
	if g.ill == "status-missing" && !g.injectd {
		for _, i := range []int{0, 3, 4} {
			if opts.at(i).boolean() {
				g.injectd = true
				v := vL(vS(mbox), p32(0), n32(1), n32(2), p32(3), p32(4), p64(5), al, p64(7))
				v.kids[1+i] = vNil()
				return v
			}
		}
	}
	return vL(vS(mbox), p32(0), n32(1), n32(2), p32(3), p32(4), p64(5), al, p64(7))
}

func (g *c03Gen) listData(statusOpts *val) *val {
	r := g.r
	mbox := g.mailbox()
	ci := vNil()
	if r.chance(1, 4) {
		ci = vB(r.chance(1, 2))
	}
	old := ""
	if r.chance(1, 4) {
		old = g.mailbox()
	}
	st := vNil()
	if !statusOpts.isNil() && r.chance(4, 5) {
		st = g.statusData(mbox, statusOpts)
	}
	return vL(g.attrs(), g.delim(), vS(mbox), ci, vS(old), st)
}

func (g *c03Gen) list() (req, sup *val) {
	r := g.r
	so := vNil()
	if r.chance(1, 2) {
		so = g.statusOpts()
	}
	sup = vL()
	n := pick(r, []int{0, 1, 1, 2, 3, 5})
	for i := 0; i < n; i++ {
		sup.add(g.listData(so))
	}
	return vL(so), sup
}

func (g *c03Gen) status() (req, sup *val) {
	so := g.statusOpts()
	return vL(so), g.statusData(g.mailbox(), so)
}

func (g *c03Gen) sel() (req, sup *val) {
	r := g.r
	mbox := g.mailbox()
	list := vNil()
	if r.chance(1, 2) {
		list = vL(g.attrs(), g.delim(), vS(mbox), vNil(), vS(""), vNil())
	}
	sup = vL(g.flags(false), g.flags(true), g.pU32(), g.pU32(), g.pU32(), list)
	return vL(vB(r.chance(1, 3)), vS(mbox)), sup
}

func (g *c03Gen) ranges(max int, small bool) *val {
	r := g.r
	v := vL()
	n := pick(r, []int{0, 1, 1, 2, 3, 6})
	cur := uint64(1 + r.intn(5))
	for i := 0; i < n; i++ {
		lo := cur
		hi := lo + uint64(pick(r, []int{0, 0, 1, 2, 10}))
		if !small && r.chance(1, 8) {
			lo = pick(r, []uint64{4294967290, 4294967295, 1000000})
			hi = pick(r, []uint64{4294967295, lo})
			if hi < lo {
				hi = lo
			}
		}
		v.add(vL(vN(lo), vN(hi)))
		cur = hi + uint64(2+r.intn(5))
		if cur > 4294967000 {
			break
		}
	}
	if g.ill == "dynamic-set" && !g.injectd {
		g.injectd = true
		v.add(vL(vN(cur), vN(0)))
	}
	if g.ill == "unsorted-set" && !g.injectd && len(v.kids) >= 2 {
		g.injectd = true
		v.kids[0], v.kids[1] = v.kids[1], v.kids[0]
	}
	return v
}

func (g *c03Gen) search(cfg string) (req, sup *val) {
	r := g.r
	uidMode := r.chance(1, 2)
	opts := vNil()
	if r.chance(2, 3) {
		opts = vL(vB(r.chance(1, 2)), vB(r.chance(1, 2)), vB(r.chance(1, 2)), vB(r.chance(1, 2)))
	}
	kind := "seq"
	if uidMode {
		kind = "uid"
	}
	esearch := cfg == "rev2"
	if !opts.isNil() {
		for _, k := range opts.kids {
			if k.boolean() {
				esearch = true
			}
		}
	}
	all := vL(vA(kind), g.ranges(0, !esearch))
	uidFlag := uidMode
	if g.ill == "search-kind" && !g.injectd {
		g.injectd = true
		uidFlag = !uidFlag
	}
	sup = vL(all, vB(uidFlag), g.pU32(), g.pU32(), g.pU32())
	return vL(vB(uidMode), opts), sup
}

func (g *c03Gen) copyData() *val {
	r := g.r
	if r.chance(1, 6) {
		return vNil()
	}
	src, dst := g.ranges(0, false), g.ranges(0, false)
	if len(src.kids) == 0 {
		src.add(vL(vN(1), vN(1)))
	}
	if len(dst.kids) == 0 {
		dst.add(vL(vN(7), vN(7)))
	}
	if g.ill == "empty-set" && !g.injectd {
		g.injectd = true
		src = vL()
	}
	return vL(g.pU32(), src, dst)
}

func (g *c03Gen) expunges() *val {
	r := g.r
	v := vL()
	n := pick(r, []int{0, 1, 1, 2, 5, 20})
	for i := 0; i < n; i++ {
		x := pick(r, []uint64{1, 1, 2, 3, 10, 4294967295})
		if g.ill == "zero-seq" && !g.injectd {
			g.injectd = true
			x = 0
		}
		v.add(vN(x))
	}
	return v
}

func (g *c03Gen) nsList() *val {
	r := g.r
	switch r.intn(4) {
	case 0:
		return vNil()
	case 1:
		if r.chance(1, 2) {
			return vL()
		}
	}
	v := vL()
	n := 1 + r.intn(3)
	for i := 0; i < n; i++ {
		v.add(vL(vS(pick(r, []string{"", "INBOX.", "#shared/", "~", "Other Users/", "Entwürfe/", g.str()})), g.delim()))
	}
	return v
}

// pipe: commands sent back to back before the backend answers the first; each must receive exactly the data
// the backend wrote while answering IT.
func (g *c03Gen) pipe(cfg string) (req, sup *val) {
	r := g.r
	req, sup = vL(), vL()
	add := func(fam string, rq, sp *val) {
		req.add(vL(vA(fam), rq))
		sup.add(sp)
	}
	canon := func(m string) string {
		if strings.EqualFold(m, "INBOX") {
			return "INBOX"
		}
		return m
	}
	switch r.intn(5) {
	case 0, 1: // LIST RETURN (STATUS) with a STATUS for one of the listed mailboxes queued behind it (sometimes one in front too)
		so := g.statusOpts()
		entries := vL()
		seen := map[string]bool{}
		var withStatus []string
		n := 1 + r.intn(4)
		for len(entries.kids) < n {
			d := g.listData(so)
			name := d.at(2).s
			if seen[canon(name)] {
				continue
			}
			seen[canon(name)] = true
			if !d.at(5).isNil() {
				withStatus = append(withStatus, name)
			}
			entries.add(d)
		}
		x := entries.at(r.intn(len(entries.kids))).at(2).s
		if len(withStatus) > 0 && r.chance(4, 5) {
			x = pick(r, withStatus)
		}
		if r.chance(1, 4) {
			o0 := g.statusOpts()
			add("status", vL(o0), g.statusData(pick(r, []string{x, "other-mailbox"}), o0))
		}
		add("list", vL(so), entries)
		o2 := g.statusOpts()
		add("status", vL(o2), g.statusData(x, o2))
		if r.chance(1, 4) {
			o3 := g.statusOpts()
			add("status", vL(o3), g.statusData(entries.at(0).at(2).s, o3))
		}
	case 2: // FETCH + FETCH on disjoint message numbers
		g.noUID = true
		g.seqBase = 1
		r1, s1 := g.fetch()
		g.seqBase = 1000
		r2, s2 := g.fetch()
		add("fetch", r1, s1)
		add("fetch", r2, s2)
	case 3: // SEARCH then FETCH (or the other way round)
		g.noUID = true
		rs, ss := g.search(cfg)
		rf, sf := g.fetch()
		if r.chance(1, 2) {
			add("search", rs, ss)
			add("fetch", rf, sf)
		} else {
			add("fetch", rf, sf)
			add("search", rs, ss)
		}
	default: // STATUS a + STATUS b
		a, b := g.mailbox(), g.mailbox()
		for canon(a) == canon(b) {
			b = g.mailbox()
		}
		oa, ob := g.statusOpts(), g.statusOpts()
		add("status", vL(oa), g.statusData(a, oa))
		add("status", vL(ob), g.statusData(b, ob))
		if r.chance(1, 3) {
			oc := g.statusOpts()
			add("status", vL(oc), g.statusData(a, oc))
		}
	}
	return
}

var c03IllKinds = map[string][]string{
	"fetch":     {"flag", "time", "msgid", "paramkey", "encoding", "ext-missing", "no-child", "kind-mismatch", "part", "partial", "section", "negative"},
	"list":      {"attr", "delim", "status-missing", "negative"},
	"status":    {"status-missing", "negative"},
	"select":    {"flag", "attr", "delim"},
	"search":    {"dynamic-set", "search-kind", "unsorted-set"},
	"copy":      {"dynamic-set", "empty-set", "unsorted-set"},
	"move":      {"dynamic-set", "zero-seq", "empty-set"},
	"namespace": {"delim"},
	"expunge":   {"zero-seq"},
	"append":    {"zero-uid"},
}

// c03Case generates one case from a sub-seed.
func c03Case(r *rng) caseLine {
	fam := pick(r, []string{"fetch", "fetch", "fetch", "fetch", "fetch", "fetch", "fetch", "list", "list", "status", "select", "search", "search",
		"append", "copy", "move", "namespace", "expunge", "caps", "pipe", "pipe"})
	cfg := pick(r, []string{"plain", "utf8", "rev2", "rev2"})
	g := &c03Gen{r: r}
	stream := "main"
	switch {
	case fam == "pipe":
		// routing is the point here; the look-alike and ill-formed streams are covered by the single-command families
	case r.chance(1, 8):
		g.look = true
		stream = "lookalike"
	case r.chance(1, 8):
		if kinds := c03IllKinds[fam]; len(kinds) > 0 {
			g.ill = pick(r, kinds)
			stream = "illformed"
		}
	}
	var req, sup *val
	switch fam {
	case "fetch":
		req, sup = g.fetch()
	case "list":
		req, sup = g.list()
	case "status":
		req, sup = g.status()
	case "select":
		req, sup = g.sel()
	case "search":
		req, sup = g.search(cfg)
	case "append":
		req, sup = vL(), vNil()
		if r.chance(5, 6) {
			uid := pick(r, []uint64{1, 2, 42, 4294967295})
			if g.ill == "zero-uid" {
				g.injectd = true
				uid = 0
			}
			sup = vL(g.pU32(), vN(uid))
		}
	case "copy":
		req, sup = vL(), g.copyData()
	case "move":
		req, sup = vL(), vL(g.copyData(), g.expunges())
	case "namespace":
		req, sup = vL(), vL(g.nsList(), g.nsList(), g.nsList())
	case "expunge":
		req, sup = vL(vB(r.chance(1, 3))), g.expunges()
	case "caps":
		req, sup = vL(), vStrs([]string{"IMAP4rev1", "IMAP4rev2"})
	case "pipe":
		req, sup = g.pipe(cfg)
	}
	if stream == "illformed" && !g.injectd {
		stream = "main"
	}
	cl := c03Run(fam, cfg, stream, req, sup)
	if g.ill != "" && g.injectd {
		cl.counts = append(cl.counts, "ill:"+g.ill)
	}
	return cl
}

// c03Corpus: past failures and the defects of the design read-through, always run first.
func c03Corpus() []caseLine {
	var out []caseLine
	run := func(fam, cfg, stream, req, sup string) {
		out = append(out, c03Run(fam, cfg, stream, parseVal(req), parseVal(sup)))
	}
	// F12: BINARY.SIZE[1] 42
	run("fetch", "plain", "main", "( N0 _ Astream N0 )", "( ( N1 ( ( Abinsize ( N1 ) N42 ) ) ) )")
	run("fetch", "rev2", "main", "( N0 _ Astream N0 )", "( ( N1 ( ( Abinsize ( ) N0 ) ( Aflags ( ) ) ) ) )")
	// F22: a subject that merely looks like an encoded word
	env := vL(vNil(), vS("=?utf-8?q?abc?="), vNil(), vNil(), vNil(), vNil(), vNil(), vNil(), vNil(), vS(""))
	run("fetch", "plain", "lookalike", "( N0 _ Astream N0 )", vL(vL(vN(1), vL(vL(vA("env"), env)))).String())
	// a description / parameter value that looks like an encoded word
	bs := vL(vA("P"), vS("image"), vS("png"), vL(vL(vS("name"), vS("=?utf-8?q?x?="))), vS(""), vS("=?utf-8?b?YWJj?="), vS("base64"), vN(1), vNil(), vNil(), vNil())
	run("fetch", "plain", "lookalike", "( N0 N0 Astream N0 )", vL(vL(vN(1), vL(vL(vA("bs"), vN(0), bs)))).String())
	// INBOX requested in another case: STATUS data and the LIST response of SELECT
	run("status", "plain", "main", "( ( N1 N0 N0 N0 N0 N0 N0 N0 ) )", vL(vS("inbox"), vN(3), vN(0), vN(0), vNil(), vNil(), vNil(), vNil(), vNil()).String())
	run("select", "rev2", "main", vL(vN(0), vS("inbox")).String(),
		vL(vL(), vL(), vN(1), vN(1), vN(1), vL(vL(), vN('/'), vS("inbox"), vNil(), vS(""), vNil())).String())
	return out
}

func genC03(e *emitter, tier string, seed uint64) {
	n := 6000
	switch tier {
	case "thorough":
		n = 150000
	case "widen":
		n = 30000
	}
	defer c03Drain()
	for _, cl := range c03Corpus() {
		e.emit(cl.kind, cl.fields...)
		for _, c := range cl.counts {
			e.count(c)
		}
		e.count("corpus")
	}
	root := newRng(seed, "C03")
	subs := make([]uint64, n)
	for i := range subs {
		subs[i] = root.next()
	}
	parCases(e, n, func(i int) []caseLine {
		return []caseLine{c03Case(&rng{s: subs[i]})}
	})
}

// replayC03 re-executes a recorded case: fields = cfg, stream, req, supplied, ...
func replayC03(e *emitter, kind string, f []string) {
	defer c03Drain()
	if len(f) < 4 {
		fmt.Fprintln(e.w, "# C03: malformed case line")
		return
	}
	cl := c03Run(kind, f[0], f[1], parseVal(f[2]), parseVal(f[3]))
	e.emit(cl.kind, cl.fields...)
}
