//go:build c02 || allprops

package main

import (
	"reflect"
	"errors"
	"fmt"
	"io"
	"net"
	"os"
	"strconv"
	"strings"
	"sync"
	"time"

	"github.com/emersion/go-imap/v2"
	"github.com/emersion/go-imap/v2/imapclient"
)

// C02 — client commands reach the server backend with the caller's arguments intact.
//
// The REAL imapclient.Client talks over an in-memory connection to the REAL imapserver.Server
// whose session is the recording stub (stub.go). One case = one client API call:
//
//	kind  cfg  caller-side rendering  outcome  stub log  wire bytes written by the client
//
// The caller-side rendering uses the very same formatters as the stub (fmtNumSet, fmtFetchOptions,
// …), so the Lean driver parses both sides with one parser; search dates on the caller side carry
// the calendar day in the time's own location and the instant ("s<day>:<instant>").

func init() {
	props["C02"] = genC02
	replayers["C02"] = replayC02
}

// ---------------------------------------------------------------------------------------------
// configurations

type c02Srv struct {
	letters string // capability letters handed to the model (see c02Letters)
	caps    imap.CapSet
	full    bool
}

var c02CapLetters = []struct {
	l string
	c imap.Cap
}{
	{"1", imap.CapIMAP4rev1}, {"2", imap.CapIMAP4rev2}, {"P", imap.CapLiteralPlus}, {"M", imap.CapMove},
	{"U", imap.CapUIDPlus}, {"E", imap.CapESearch}, {"R", imap.CapSearchRes}, {"L", imap.CapListExtended},
	{"S", imap.CapListStatus}, {"Z", imap.CapStatusSize}, {"B", imap.CapBinary}, {"C", imap.CapCreateSpecialUse},
	{"N", imap.CapNamespace},
}

func c02MkSrv(full bool, caps ...imap.Cap) c02Srv {
	s := c02Srv{caps: imap.CapSet{}, full: full}
	for _, c := range caps {
		s.caps[c] = struct{}{}
	}
	for _, cl := range c02CapLetters {
		if _, ok := s.caps[cl.c]; ok {
			s.letters += cl.l
		}
	}
	return s
}

var c02Srvs = []c02Srv{
	c02MkSrv(false, imap.CapIMAP4rev1),
	c02MkSrv(true, imap.CapIMAP4rev1, imap.CapIMAP4rev2),
	c02MkSrv(false, imap.CapIMAP4rev1, imap.CapLiteralPlus),
	c02MkSrv(true, imap.CapIMAP4rev1, imap.CapESearch, imap.CapSearchRes, imap.CapListExtended, imap.CapListStatus, imap.CapMove,
		imap.CapUIDPlus, imap.CapNamespace, imap.CapStatusSize, imap.CapBinary, imap.CapCreateSpecialUse),
	c02MkSrv(true, imap.CapIMAP4rev2, imap.CapCreateSpecialUse, imap.CapLiteralPlus),
	c02MkSrv(false, imap.CapIMAP4rev1, imap.CapUIDPlus),
}

// client modes: 0 = nothing enabled, 1 = ENABLE UTF8=ACCEPT, 2 = ENABLE IMAP4rev2
type c02Cfg struct {
	srv    int
	enable int
}

func (c c02Cfg) String() string { return fmt.Sprintf("%s/%d", c02Srvs[c.srv].letters, c.enable) }

func c02AllCfgs() []c02Cfg {
	var out []c02Cfg
	for i, s := range c02Srvs {
		out = append(out, c02Cfg{i, 0}, c02Cfg{i, 1})
		if _, ok := s.caps[imap.CapIMAP4rev2]; ok {
			out = append(out, c02Cfg{i, 2})
		}
	}
	return out
}

// ---------------------------------------------------------------------------------------------
// one client connection to a stub server

type c02Conn struct {
	cfg      c02Cfg
	ts       *testServer
	cl       *imapclient.Client
	sess     *recSession
	mu       sync.Mutex
	wire     []byte
	selected bool
	dead     bool
	timeout  time.Duration // 0 = c02Timeout
}

func c02Dial(ts *testServer, cfg c02Cfg) *c02Conn {
	cn := &c02Conn{cfg: cfg, ts: ts}
	mc := ts.ln.dial()
	mc.onWrite = func(p []byte) {
		cn.mu.Lock()
		cn.wire = append(cn.wire, p...)
		cn.mu.Unlock()
	}
	cn.cl = imapclient.New(mc, &imapclient.Options{})
	if err := cn.cl.WaitGreeting(); err != nil {
		panic("c02: no greeting: " + err.Error())
	}
	cn.sess = ts.lastSession()
	return cn
}

func (cn *c02Conn) reset() {
	cn.sess.mu.Lock()
	cn.sess.calls = nil
	cn.sess.mu.Unlock()
	cn.mu.Lock()
	cn.wire = nil
	cn.mu.Unlock()
}

// plainLogin brings a fresh connection to the authenticated state with the configured ENABLE.
func (cn *c02Conn) plainLogin() {
	if err := cn.cl.Login("u", "p").Wait(); err != nil {
		panic("c02: plain login failed: " + err.Error())
	}
	cn.enable()
}

func (cn *c02Conn) enable() {
	switch cn.cfg.enable {
	case 1:
		if _, err := cn.cl.Enable(imap.CapUTF8Accept).Wait(); err != nil {
			panic("c02: enable failed: " + err.Error())
		}
	case 2:
		if _, err := cn.cl.Enable(imap.CapIMAP4rev2).Wait(); err != nil {
			panic("c02: enable failed: " + err.Error())
		}
	}
}

func (cn *c02Conn) close() {
	cn.dead = true
	cn.cl.Close()
}

func c02Outcome(err error) string {
	if err == nil {
		return "ok"
	}
	var ie *imap.Error
	if errors.As(err, &ie) {
		switch ie.Type {
		case imap.StatusResponseTypeNo:
			return "no"
		case imap.StatusResponseTypeBad:
			return "bad"
		default:
			return "bye"
		}
	}
	if errors.Is(err, io.ErrUnexpectedEOF) || errors.Is(err, net.ErrClosed) || errors.Is(err, io.EOF) {
		return "closed"
	}
	return "refused" // an error raised by the client's own encoder
}

var c02Timeout = 20 * time.Second

// a command that did not return within c02Timeout is run again, alone on a fresh connection, with
// this much time: "timeout" is a verdict (the command was not delivered) only if it repeats there —
// a loaded machine must not turn a slow run into a violation
var c02RetryTimeout = 90 * time.Second

func (cn *c02Conn) waitFor() time.Duration {
	if cn.timeout != 0 {
		return cn.timeout
	}
	return c02Timeout
}

type c02Cmd struct {
	kind   string
	text   string // caller-side rendering
	sel    bool   // needs the selected state
	run    func(c *imapclient.Client) error
	counts []string
}

// c02Run executes one command and returns the case line.
func (cn *c02Conn) exec(cmd c02Cmd) caseLine {
	if cmd.sel && !cn.selected {
		if _, err := cn.cl.Select("INBOX", nil).Wait(); err != nil {
			panic("c02: select failed: " + err.Error())
		}
		cn.selected = true
	}
	presel := cn.selected
	cn.reset()
	done := make(chan error, 1)
	go func() {
		defer func() {
			if v := recover(); v != nil {
				done <- fmt.Errorf("c02panic: %v", v)
			}
		}()
		done <- cmd.run(cn.cl)
	}()
	var out string
	select {
	case err := <-done:
		out = c02Outcome(err)
		if err != nil && strings.HasPrefix(err.Error(), "c02panic") {
			out = "panic"
		}
	case <-time.After(cn.waitFor()):
		out = "timeout"
		if os.Getenv("C02_DEBUG") != "" {
			t := cmd.text
			if len(t) > 300 {
				t = t[:300]
			}
			fmt.Fprintln(os.Stderr, "c02: timeout:", cn.cfg.String(), t)
		}
	}
	if out != "ok" && out != "timeout" && cmd.kind == "move" && cn.cl.State() != imap.ConnStateLogout {
		// Move without the MOVE capability pipelines STORE and EXPUNGE behind COPY and returns on the
		// first failure: let them drain (bounded: a close racing the submission can strand a command)
		nd := make(chan struct{})
		go func() { cn.cl.Noop().Wait(); close(nd) }()
		select {
		case <-nd:
		case <-time.After(2 * time.Second):
		}
	}
	var log []string
	for _, c := range cn.sess.log() {
		if c.name == "Poll" || c.name == "Close" {
			continue
		}
		log = append(log, strings.TrimRight(c.name+" "+c.args, " "))
	}
	cn.mu.Lock()
	wire := append([]byte(nil), cn.wire...)
	cn.mu.Unlock()
	if out != "ok" {
		// the payload of a refused literal may have been parsed as commands: never reuse the connection
		cn.close()
	} else if cmd.kind == "select" {
		cn.selected = true
	}
	logs := strings.Join(log, " | ")
	if logs == "" {
		logs = "-"
	}
	cfg := fmt.Sprintf("%s/%s", cn.cfg.String(), b01(presel))
	if cmd.kind == "login" {
		// before authentication the client knows the greeting's capabilities only (no LITERAL+, no
		// extensions) and nothing is enabled yet
		pre := ""
		for _, l := range c02Srvs[cn.cfg.srv].letters {
			if l == '1' || l == '2' {
				pre += string(l)
			}
		}
		cfg = pre + "/0/0"
	}
	return caseLine{kind: cmd.kind, fields: []string{cfg, cmd.text, out, logs, hx(wire)}, counts: append(cmd.counts, "kind:"+cmd.kind, "cfg:"+cn.cfg.String(), "outcome:"+out)}
}

// c02Chunk runs a list of commands on one fresh server: the first one is the LOGIN case.
func c02Chunk(cfg c02Cfg, login c02Cmd, cmds []c02Cmd) []caseLine {
	s := c02Srvs[cfg.srv]
	ts := newStubServer(stubCfg{caps: s.caps, insecure: true, full: s.full})
	defer ts.close()
	var out []caseLine
	cn := c02Dial(ts, cfg)
	l := cn.exec(login)
	out = append(out, l)
	if cn.dead {
		cn = c02Dial(ts, cfg)
		cn.plainLogin()
	} else {
		cn.enable()
	}
	for _, cmd := range cmds {
		if cn.dead || cn.cl.State() == imap.ConnStateLogout {
			cn.cl.Close()
			cn = c02Dial(ts, cfg)
			cn.plainLogin()
		}
		l := cn.exec(cmd)
		if len(l.fields) > 2 && l.fields[2] == "timeout" {
			cn.cl.Close()
			cn = c02Dial(ts, cfg)
			cn.plainLogin()
			cn.timeout = c02RetryTimeout
			l = cn.exec(cmd)
			l.counts = append(l.counts, "rerun-alone-after-timeout")
			cn.timeout = 0
		}
		out = append(out, l)
	}
	cn.cl.Close()
	return out
}

// ---------------------------------------------------------------------------------------------
// value pools

var (
	c02Long4096 = strings.Repeat("x", 4096)
	c02Long4097 = strings.Repeat("y", 4097)
	c02LongU8   = strings.Repeat("é", 2048) // 4096 bytes, non-ASCII
)

// adversarial strings (astring/string arguments)
var c02Strs = []string{
	"", "a", "hello", "a b", `q"uote`, `back\slash`, `\`, `"`, "c\rr", "l\nf", "crlf\r\nx NOOP", "é", "日本語", "\xff\xfe", "\xc3",
	"&", "R&D", "%", "*", "a*b%c", "{", "{5}", "{3+}", "(", ")", "(p q)", "]", "[", " lead", "trail ", "NIL", "nil", "\x00", "a\x00b",
	"\x7f", "\x01", "~", "+", "T1 LOGOUT", "x\"y\\z", "ALL", "RETURN", "CHARSET",
}

var c02LongStrs = []string{c02Long4096, c02Long4097, c02LongU8, c02LongU8 + "é"}

// c02G is the generator state: the random stream and whether strings above the server's 4096-byte
// limit for buffered literals may be drawn. They are drawn only where the client sends them as
// non-synchronising literals (LITERAL+): a refused *synchronising* literal leaves client and server
// waiting for each other until the server's 30 s read timeout (command framing, C04/C10).
type c02G struct {
	*rng
	big bool
}

func (g *c02G) long(pool []string) string {
	for {
		s := pick(g.rng, pool)
		if g.big || len(s) <= 4096 {
			return s
		}
	}
}

func c02Str(r *c02G) string {
	if r.chance(1, 40) {
		return r.long(c02LongStrs)
	}
	return pick(r.rng, c02Strs)
}

var c02Mboxes = []string{
	"INBOX", "inbox", "InBoX", "INBOX/sub", "inbox.x", "Sent", "a b", "Entwürfe", "日本語", "R&D", "a&-b", "&", "&AOk-", "&-", "~peter/mail/&U,BTFw-",
	`q"uote`, `back\slash`, "cr\rx", "lf\nx", "crlf\r\nA1 LOGOUT", "%", "*", "a*b", "{5}", "(", ")", "", " ", "NIL", "\x00", "\x7f", "é\x01", "😀", "x😀y&z",
	"\xff", "ok\xc3", "A/B/C", "trailing/",
}

func c02Mbox(r *c02G) string {
	if r.chance(1, 40) {
		return r.long([]string{c02Long4096, c02Long4097, strings.Repeat("ü", 700), strings.Repeat("ü", 1500)})
	}
	return pick(r.rng, c02Mboxes)
}

var c02Flags = []imap.Flag{
	imap.FlagSeen, imap.FlagAnswered, imap.FlagFlagged, imap.FlagDeleted, imap.FlagDraft, imap.FlagForwarded, imap.FlagJunk, imap.FlagNotJunk,
	imap.FlagImportant, imap.FlagMDNSent, imap.FlagPhishing, `\seen`, `\SEEN`, `\deleted`, `\Recent`, `\recent`, `$forwarded`, `$JUNK`, "kw", "KW", "$label1",
	`\Custom`, `\*`, "a.b", "x-y_z", "é", "kw\xe9", "NIL", "nil", "1", "FLAGS", "+x", "~",
	// not flags at all: the client must refuse them
	"", "a b", "a(b", "a)b", `a\b`, "a{b", "a%b", "a*b", `a"b`, "a]b", "a\rb", "a\x00b", "\xc2\x85",
}

func c02FlagList(r *c02G) []imap.Flag {
	n := r.intn(4)
	if r.chance(1, 10) {
		n = 4 + r.intn(4)
	}
	var out []imap.Flag
	for i := 0; i < n; i++ {
		// mostly well-formed flags
		if r.chance(9, 10) {
			out = append(out, c02Flags[r.intn(33)])
		} else {
			out = append(out, pick(r.rng, c02Flags))
		}
	}
	return out
}

var c02Nums = []uint32{1, 2, 3, 5, 9, 10, 11, 100, 65536, 4294967294, 4294967295}

// c02NumSet draws a number set: built through the API (canonical) or written as a literal
// (unsorted, overlapping, reversed ranges), "*" forms, the empty set and the SEARCHRES marker.
func c02NumSet(r *c02G, uid bool) imap.NumSet {
	var rs []imap.SeqRange
	switch k := r.intn(12); k {
	case 0:
		// empty: the client must refuse it
	case 1:
		if uid {
			return imap.SearchRes()
		}
		rs = []imap.SeqRange{{1, 0}}
	case 2:
		rs = []imap.SeqRange{{0, 0}}
	case 3:
		n := pick(r.rng, c02Nums)
		rs = []imap.SeqRange{{n, 0}}
	case 4, 5, 6:
		var s imap.SeqSet
		for i, n := 0, 1+r.intn(4); i < n; i++ {
			switch r.intn(4) {
			case 0:
				s.AddRange(pick(r.rng, c02Nums), pick(r.rng, c02Nums))
			case 1:
				s.AddRange(pick(r.rng, c02Nums), 0)
			default:
				s.AddNum(pick(r.rng, c02Nums))
			}
		}
		rs = s
	case 7, 8:
		// literal: arbitrary order, overlaps, reversed bounds
		for i, n := 0, 1+r.intn(4); i < n; i++ {
			a, b := pick(r.rng, c02Nums), pick(r.rng, c02Nums)
			if r.chance(1, 5) {
				b = 0
			}
			rs = append(rs, imap.SeqRange{Start: a, Stop: b})
		}
	default:
		a := pick(r.rng, c02Nums)
		rs = []imap.SeqRange{{a, a}}
		if r.chance(1, 2) {
			b := pick(r.rng, c02Nums)
			if a <= b {
				rs = []imap.SeqRange{{a, b}}
			}
		}
	}
	if len(rs) == 0 && r.chance(2, 3) {
		// an empty set is not only nil: a scratch set that was reset (s[:0]) or preallocated
		// (make(…, 0, n)) is just as empty and must be refused just the same
		if uid {
			return make(imap.UIDSet, 0, 4)
		}
		return make(imap.SeqSet, 0, 4)
	}
	if uid {
		var u imap.UIDSet
		for _, x := range rs {
			u = append(u, imap.UIDRange{Start: imap.UID(x.Start), Stop: imap.UID(x.Stop)})
		}
		return u
	}
	return imap.SeqSet(rs)
}

// c02FmtNumSet renders a caller-side set range by range (the stub prints String(), which is the
// same text; an empty literal set prints as "seq:" / "uid:").
func c02FmtNumSet(ns imap.NumSet) string {
	// the caller's intent is rendered WITHOUT the library's String()/IsSearchRes (the text is what the
	// model is told the caller passed): the marker is the value SearchRes() returned, by identity
	num := func(n uint32) string {
		if n == 0 {
			return "*"
		}
		return strconv.FormatUint(uint64(n), 10)
	}
	rng := func(a, b uint32) string {
		if a == b {
			return num(a)
		}
		return num(a) + ":" + num(b)
	}
	var parts []string
	switch v := ns.(type) {
	case imap.SeqSet:
		for _, r := range v {
			parts = append(parts, rng(r.Start, r.Stop))
		}
		return "seq:" + strings.Join(parts, ",")
	case imap.UIDSet:
		if len(v) == 0 && cap(v) > 0 && reflect.ValueOf(v).Pointer() == reflect.ValueOf(imap.SearchRes()).Pointer() {
			return "uid:$"
		}
		for _, r := range v {
			parts = append(parts, rng(uint32(r.Start), uint32(r.Stop)))
		}
		return "uid:" + strings.Join(parts, ",")
	}
	return "?"
}

// ---------------------------------------------------------------------------------------------
// command generators

func c02Login(r0 *c02G) c02Cmd {
	// LITERAL+ is advertised only after authentication: before it, a long string is a synchronising literal
	r := &c02G{rng: r0.rng}
	u, p := c02Str(r), c02Str(r)
	return c02Cmd{kind: "login", text: "Login " + hx([]byte(u)) + " " + hx([]byte(p)),
		run: func(c *imapclient.Client) error { return c.Login(u, p).Wait() }}
}

func c02Simple(r *c02G) c02Cmd {
	m := c02Mbox(r)
	switch r.intn(6) {
	case 0:
		ro := r.chance(1, 2)
		var opt *imap.SelectOptions
		if ro || r.chance(1, 2) {
			opt = &imap.SelectOptions{ReadOnly: ro}
		}
		return c02Cmd{kind: "select", text: "Select " + hx([]byte(m)) + " ro=" + b01(ro),
			run: func(c *imapclient.Client) error { _, err := c.Select(m, opt).Wait(); return err }}
	case 1:
		var opt *imap.CreateOptions
		use := ""
		if r.chance(1, 2) {
			opt = &imap.CreateOptions{}
			pool := []imap.MailboxAttr{imap.MailboxAttrDrafts, imap.MailboxAttrSent, imap.MailboxAttrTrash, imap.MailboxAttrJunk, imap.MailboxAttrArchive,
				imap.MailboxAttrAll, imap.MailboxAttrFlagged, imap.MailboxAttrImportant, `\drafts`, `\SENT`, `\Custom`, "Drafts", `\a b`, ""}
			for i, n := 0, r.intn(3); i < n; i++ {
				a := pool[r.intn(len(pool))]
				if !r.chance(1, 8) {
					a = pool[r.intn(11)]
				}
				opt.SpecialUse = append(opt.SpecialUse, a)
				use += " " + hx([]byte(a))
			}
		}
		return c02Cmd{kind: "create", text: "Create " + hx([]byte(m)) + use,
			run: func(c *imapclient.Client) error { return c.Create(m, opt).Wait() }}
	case 2:
		return c02Cmd{kind: "delete", text: "Delete " + hx([]byte(m)), run: func(c *imapclient.Client) error { return c.Delete(m).Wait() }}
	case 3:
		n := c02Mbox(r)
		return c02Cmd{kind: "rename", text: "Rename " + hx([]byte(m)) + " " + hx([]byte(n)),
			run: func(c *imapclient.Client) error { return c.Rename(m, n).Wait() }}
	case 4:
		return c02Cmd{kind: "subscribe", text: "Subscribe " + hx([]byte(m)), run: func(c *imapclient.Client) error { return c.Subscribe(m).Wait() }}
	}
	return c02Cmd{kind: "unsubscribe", text: "Unsubscribe " + hx([]byte(m)), run: func(c *imapclient.Client) error { return c.Unsubscribe(m).Wait() }}
}

func c02StatusOptsFromBits(bits int) *imap.StatusOptions {
	return &imap.StatusOptions{NumMessages: bits&1 != 0, UIDNext: bits&2 != 0, UIDValidity: bits&4 != 0, NumUnseen: bits&8 != 0,
		NumDeleted: bits&16 != 0, Size: bits&32 != 0, AppendLimit: bits&64 != 0, DeletedStorage: bits&128 != 0, HighestModSeq: bits&256 != 0}
}

func c02Status(m string, o *imap.StatusOptions) c02Cmd {
	txt := "{n=0 un=0 uv=0 us=0 d=0 sz=0 al=0 dst=0 hm=0}" // a nil options pointer is documented to mean the zero value
	if o != nil {
		txt = fmtStatusOptions(o)
	}
	return c02Cmd{kind: "status", text: "Status " + hx([]byte(m)) + " " + txt,
		run: func(c *imapclient.Client) error { _, err := c.Status(m, o).Wait(); return err }}
}

func c02ListOptsFromBits(bits int, rst *imap.StatusOptions) *imap.ListOptions {
	return &imap.ListOptions{SelectSubscribed: bits&1 != 0, SelectRemote: bits&2 != 0, SelectRecursiveMatch: bits&4 != 0, SelectSpecialUse: bits&8 != 0,
		ReturnSubscribed: bits&16 != 0, ReturnChildren: bits&32 != 0, ReturnSpecialUse: bits&64 != 0, ReturnStatus: rst}
}

func c02List(ref, pat string, o *imap.ListOptions) c02Cmd {
	txt := "sub=0 rem=0 rec=0 su=0 rsub=0 rch=0 rsu=0 rst=nil"
	if o != nil {
		txt = fmtListOptions(o)
	}
	return c02Cmd{kind: "list", text: "List " + hx([]byte(ref)) + " [" + hx([]byte(pat)) + "] " + txt,
		run: func(c *imapclient.Client) error { _, err := c.List(ref, pat, o).Collect(); return err }}
}

var c02Pats = []string{"*", "%", "", "INBOX", "inbox", "a/%", "R&D", "R&D/*", "Entwürfe/%", "日本*", "&", "a b", `q"%`, `b\%`, "x\r\n%", "{3}", "(", "%/%/%", "*&*", "]", "&AOk-",
	"\x00", "\xff*", "NIL"}

func c02Append(r *c02G) c02Cmd {
	m := c02Mbox(r)
	var opt *imap.AppendOptions
	var fl []string
	t := "0"
	if r.chance(3, 4) {
		opt = &imap.AppendOptions{}
		if r.chance(1, 2) {
			opt.Flags = c02FlagList(r)
		}
		for _, f := range opt.Flags {
			fl = append(fl, hx([]byte(f)))
		}
		if r.chance(2, 3) {
			zones := []*time.Location{time.UTC, time.FixedZone("", 5*3600+1800), time.FixedZone("", -8*3600), time.FixedZone("", 14*3600), time.FixedZone("", -12*3600),
				time.FixedZone("", 3208), time.FixedZone("", -59)}
			z := zones[r.intn(5)]
			if r.chance(1, 12) {
				z = zones[5+r.intn(2)]
			}
			secs := []int64{0, 1, 951782400, 1577836799, 1577836800, 1709164800, 1735689599, 4102444799, -1, -62135596800 + 86400*400}
			ns := 0
			if r.chance(1, 4) {
				ns = 1 + r.intn(999999999)
			}
			opt.Time = time.Unix(pick(r.rng, secs)+int64(r.intn(3))*3600*11, int64(ns)).In(z)
			t = opt.Time.UTC().Format(time.RFC3339) + fmt.Sprintf("@%d", zoneOffset(opt.Time))
		}
	}
	size := pick(r.rng, []int{0, 1, 2, 17, 4096, 4097})
	payload := make([]byte, size)
	for i := range payload {
		payload[i] = byte(r.next())
	}
	if r.chance(1, 3) {
		copy(payload, "a\r\nT9 LOGOUT\r\n")
	}
	chunks := 1 + r.intn(3)
	return c02Cmd{kind: "append", text: "Append " + hx([]byte(m)) + " [" + strings.Join(fl, ",") + "] " + t + " " + hx(payload),
		counts: []string{fmt.Sprintf("append:size=%d", size)},
		run: func(c *imapclient.Client) error {
			cmd := c.Append(m, int64(size), opt)
			step := (size + chunks - 1) / chunks
			for off := 0; off < size; off += step {
				end := off + step
				if end > size {
					end = size
				}
				if _, err := cmd.Write(payload[off:end]); err != nil {
					cmd.Close()
					_, werr := cmd.Wait()
					if werr != nil {
						return werr
					}
					return err
				}
			}
			if err := cmd.Close(); err != nil {
				if _, werr := cmd.Wait(); werr != nil {
					return werr
				}
				return err
			}
			_, err := cmd.Wait()
			return err
		}}
}

func c02CopyMove(r *c02G) c02Cmd {
	uid := r.chance(1, 2)
	ns := c02NumSet(r, uid)
	m := c02Mbox(r)
	if r.chance(1, 2) {
		return c02Cmd{kind: "copy", sel: true, text: "Copy " + c02FmtNumSet(ns) + " " + hx([]byte(m)),
			run: func(c *imapclient.Client) error { _, err := c.Copy(ns, m).Wait(); return err }}
	}
	return c02Cmd{kind: "move", sel: true, text: "Move " + c02FmtNumSet(ns) + " " + hx([]byte(m)),
		run: func(c *imapclient.Client) error { _, err := c.Move(ns, m).Wait(); return err }}
}

func c02Store(r *c02G, op imap.StoreFlagsOp, silent bool) c02Cmd {
	uid := r.chance(1, 2)
	ns := c02NumSet(r, uid)
	flags := c02FlagList(r)
	var fl []string
	for _, f := range flags {
		fl = append(fl, hx([]byte(f)))
	}
	var so *imap.StoreOptions
	if r.chance(1, 3) {
		so = &imap.StoreOptions{}
	}
	return c02Cmd{kind: "store", sel: true, text: fmt.Sprintf("Store %s op=%d silent=%s [%s]", c02FmtNumSet(ns), op, b01(silent), strings.Join(fl, ",")),
		run: func(c *imapclient.Client) error {
			return c.Store(ns, &imap.StoreFlags{Op: op, Silent: silent, Flags: flags}, so).Close()
		}}
}

func c02Expunge(r *c02G) c02Cmd {
	if r.chance(1, 3) {
		return c02Cmd{kind: "expunge", sel: true, text: "Expunge nil", run: func(c *imapclient.Client) error { return c.Expunge().Close() }}
	}
	u := c02NumSet(r, true).(imap.UIDSet)
	return c02Cmd{kind: "uidexpunge", sel: true, text: strings.TrimRight("Expunge "+u.String(), " "), run: func(c *imapclient.Client) error { return c.UIDExpunge(u).Close() }}
}

func c02Fetch(ns imap.NumSet, o *imap.FetchOptions) c02Cmd {
	txt := "{}"
	if o != nil {
		txt = fmtFetchOptions(o)
	}
	return c02Cmd{kind: "fetch", sel: true, text: "Fetch " + c02FmtNumSet(ns) + " " + txt,
		run: func(c *imapclient.Client) error { return c.Fetch(ns, o).Close() }}
}

func c02FetchScalars(bits int) *imap.FetchOptions {
	o := &imap.FetchOptions{Envelope: bits&1 != 0, Flags: bits&2 != 0, InternalDate: bits&4 != 0, RFC822Size: bits&8 != 0, UID: bits&16 != 0}
	switch (bits >> 5) % 3 {
	case 1:
		o.BodyStructure = &imap.FetchItemBodyStructure{}
	case 2:
		o.BodyStructure = &imap.FetchItemBodyStructure{Extended: true}
	}
	return o
}

func c02Part(r *c02G) []int {
	var p []int
	n := r.intn(4)
	if r.chance(1, 2) {
		n = 0
	}
	for i := 0; i < n; i++ {
		p = append(p, pick(r.rng, []int{1, 2, 3, 10, 4294967295}))
		if r.chance(1, 40) {
			p[i] = pick(r.rng, []int{0, -1, 4294967296})
		}
	}
	return p
}

func c02Partial(r *c02G) *imap.SectionPartial {
	if r.chance(1, 2) {
		return nil
	}
	p := &imap.SectionPartial{Offset: pick(r.rng, []int64{0, 1, 100, 9223372036854775807}), Size: pick(r.rng, []int64{1, 10, 4096, 9223372036854775807, 0})}
	if r.chance(1, 40) {
		p.Offset = -1
	}
	return p
}

var c02Hdrs = []string{"Subject", "From", "X-Spam", "date", "a b", "é", `q"x`, "", "x\r\ny", "(", ")", "NIL", "To", "Message-ID", "{2}", "%", "]", `\`}

func c02HdrList(r *c02G) []string {
	var l []string
	for i, n := 0, 1+r.intn(3); i < n; i++ {
		if r.chance(1, 60) {
			l = append(l, r.long(c02LongStrs))
		} else {
			l = append(l, pick(r.rng, c02Hdrs))
		}
	}
	return l
}

func c02FetchRandom(r *c02G) c02Cmd {
	uid := r.chance(1, 2)
	ns := c02NumSet(r, uid)
	if r.chance(1, 30) {
		return c02Fetch(ns, nil)
	}
	o := c02FetchScalars(r.intn(96))
	if r.chance(1, 2) {
		o = &imap.FetchOptions{}
	}
	for i, n := 0, r.intn(4); i < n; i++ {
		bs := &imap.FetchItemBodySection{Part: c02Part(r), Partial: c02Partial(r), Peek: r.chance(1, 2)}
		bs.Specifier = pick(r.rng, []imap.PartSpecifier{imap.PartSpecifierNone, imap.PartSpecifierHeader, imap.PartSpecifierHeader, imap.PartSpecifierMIME, imap.PartSpecifierText})
		if bs.Specifier == imap.PartSpecifierHeader || r.chance(1, 30) {
			switch r.intn(4) {
			case 0:
				bs.HeaderFields = c02HdrList(r)
			case 1:
				bs.HeaderFieldsNot = c02HdrList(r)
			case 2:
				if r.chance(1, 10) {
					bs.HeaderFields, bs.HeaderFieldsNot = c02HdrList(r), c02HdrList(r)
				}
			}
		}
		o.BodySection = append(o.BodySection, bs)
	}
	if r.chance(1, 3) {
		for i, n := 0, 1+r.intn(2); i < n; i++ {
			o.BinarySection = append(o.BinarySection, &imap.FetchItemBinarySection{Part: c02Part(r), Partial: c02Partial(r), Peek: r.chance(1, 2)})
		}
	}
	if r.chance(1, 4) {
		for i, n := 0, 1+r.intn(2); i < n; i++ {
			o.BinarySectionSize = append(o.BinarySectionSize, &imap.FetchItemBinarySectionSize{Part: c02Part(r)})
		}
	}
	return c02Fetch(ns, o)
}

// --- search ---

var c02Zones = []*time.Location{time.UTC, time.FixedZone("p", 11*3600), time.FixedZone("m", -9*3600), time.FixedZone("h", 5*3600+1800)}

func c02Date(r *c02G) time.Time {
	base := int64(1577836800) + int64(r.intn(6))*86400 // 2020-01-01 …
	tod := pick(r.rng, []int64{0, 0, 1, 43200, 86399, 3600 * 15, 3600 * 23})
	return time.Unix(base+tod, 0).In(pick(r.rng, c02Zones))
}

// c02DatePair draws (since, before): unrelated, exactly 24h apart at local midnight (the ON form),
// 24h apart at another time of day, 24h apart in two different zones.
func c02DatePair(r *c02G) (time.Time, time.Time) {
	switch r.intn(8) {
	case 0:
		return c02Date(r), time.Time{}
	case 1:
		return time.Time{}, c02Date(r)
	case 2:
		d := c02Date(r)
		s := time.Date(d.Year(), d.Month(), d.Day(), 0, 0, 0, 0, d.Location())
		return s, s.Add(24 * time.Hour)
	case 3:
		s := c02Date(r)
		return s, s.Add(24 * time.Hour)
	case 4:
		s := c02Date(r)
		return s, s.Add(24 * time.Hour).In(pick(r.rng, c02Zones))
	case 5:
		s := c02Date(r)
		return s, s.Add(time.Duration(1+r.intn(5)) * 12 * time.Hour)
	}
	return c02Date(r), c02Date(r)
}

var c02HdrKeys = []string{"Subject", "subject", "SUBJECT", "sUbJeCt", "From", "from", "To", "TO", "Cc", "cc", "Bcc", "BCC", "X-Spam", "Reply-To", "Date", "a b", "",
	"é", `q"k`, "x\r\nk", "NIL", "Subject ", "(", "HEADER", "Message-ID"}

func c02Criteria(r *c02G, depth int) imap.SearchCriteria {
	var c imap.SearchCriteria
	n := r.intn(4)
	if r.chance(1, 8) {
		n = 4 + r.intn(4)
	}
	for i := 0; i < n; i++ {
		switch r.intn(15) {
		case 0:
			c.SeqNum = append(c.SeqNum, c02NumSet(r, false).(imap.SeqSet))
		case 1:
			c.UID = append(c.UID, c02NumSet(r, true).(imap.UIDSet))
		case 2, 3:
			c.Since, c.Before = c02DatePair(r)
		case 4, 5:
			c.SentSince, c.SentBefore = c02DatePair(r)
		case 6:
			c.Header = append(c.Header, imap.SearchCriteriaHeaderField{Key: pick(r.rng, c02HdrKeys), Value: c02Str(r)})
		case 7:
			c.Body = append(c.Body, c02Str(r))
		case 8:
			c.Text = append(c.Text, c02Str(r))
		case 9:
			c.Flag = append(c.Flag, c02FlagList(r)...)
		case 10:
			c.NotFlag = append(c.NotFlag, c02FlagList(r)...)
		case 11:
			c.Larger = pick(r.rng, []int64{0, 1, 5, 4096, 9223372036854775807, -3})
			if c.Larger < 0 && !r.chance(1, 8) {
				c.Larger = 7
			}
		case 12:
			c.Smaller = pick(r.rng, []int64{0, 1, 5, 4096, 9223372036854775807, -3})
			if c.Smaller < 0 && !r.chance(1, 8) {
				c.Smaller = 9
			}
		default:
			if depth > 0 {
				if r.chance(1, 2) {
					c.Not = append(c.Not, c02Criteria(r, depth-1))
				} else {
					c.Or = append(c.Or, [2]imap.SearchCriteria{c02Criteria(r, depth-1), c02Criteria(r, depth-1)})
				}
			}
		}
	}
	return c
}

func c02Day(t time.Time) int64 {
	return fmtTime(time.Date(t.Year(), t.Month(), t.Day(), 0, 0, 0, 0, time.UTC))
}

// c02FmtCriteria is fmtCriteria for the caller side: a date is rendered as
// <calendar day in the time's own location, as UTC midnight>:<instant>.
func c02FmtCriteria(c *imap.SearchCriteria) string {
	var items []string
	for _, s := range c.SeqNum {
		items = append(items, "q"+fmtRangesOf(s.String()))
	}
	for _, s := range c.UID {
		items = append(items, "u"+fmtRangesOf(s.String()))
	}
	date := func(tag string, t time.Time) {
		if !t.IsZero() {
			items = append(items, fmt.Sprintf("%s%d:%d", tag, c02Day(t), fmtTime(t)))
		}
	}
	date("s", c.Since)
	date("b", c.Before)
	date("S", c.SentSince)
	date("B", c.SentBefore)
	for _, h := range c.Header {
		items = append(items, "h"+hx([]byte(h.Key))+":"+hx([]byte(h.Value)))
	}
	for _, s := range c.Body {
		items = append(items, "y"+hx([]byte(s)))
	}
	for _, s := range c.Text {
		items = append(items, "t"+hx([]byte(s)))
	}
	for _, f := range c.Flag {
		items = append(items, "f"+hx([]byte(f)))
	}
	for _, f := range c.NotFlag {
		items = append(items, "F"+hx([]byte(f)))
	}
	if c.Larger != 0 {
		items = append(items, fmt.Sprintf("l%d", c.Larger))
	}
	if c.Smaller != 0 {
		items = append(items, fmt.Sprintf("m%d", c.Smaller))
	}
	for i := range c.Not {
		items = append(items, "n "+c02FmtCriteria(&c.Not[i]))
	}
	for i := range c.Or {
		items = append(items, "o "+c02FmtCriteria(&c.Or[i][0])+" "+c02FmtCriteria(&c.Or[i][1]))
	}
	return "(" + strings.Join(items, " ") + ")"
}

func c02SearchOptsFromBits(bits int) *imap.SearchOptions {
	return &imap.SearchOptions{ReturnMin: bits&1 != 0, ReturnMax: bits&2 != 0, ReturnAll: bits&4 != 0, ReturnCount: bits&8 != 0, ReturnSave: bits&16 != 0}
}

func c02Search(uid bool, crit imap.SearchCriteria, o *imap.SearchOptions) c02Cmd {
	kind := "seq"
	if uid {
		kind = "uid"
	}
	return c02Cmd{kind: "search", sel: true, text: "Search " + kind + " " + c02FmtCriteria(&crit) + " " + fmtSearchOptions(o),
		run: func(c *imapclient.Client) error {
			var err error
			if uid {
				_, err = c.UIDSearch(&crit, o).Wait()
			} else {
				_, err = c.Search(&crit, o).Wait()
			}
			return err
		}}
}

// ---------------------------------------------------------------------------------------------
// the run

// c02Exhaustive lists the cases that enumerate every subset of the boolean option sets.
func c02Exhaustive(r *c02G) []c02Cmd {
	var out []c02Cmd
	for bits := 0; bits < 512; bits++ {
		if bits >= 256 && bits%37 != 0 { // HIGHESTMODSEQ is not in the server's feature set: sampled
			continue
		}
		out = append(out, c02Status(pick(r.rng, []string{"INBOX", "Sent", "R&D", "Entwürfe"}), c02StatusOptsFromBits(bits)))
	}
	out = append(out, c02Status("INBOX", nil))
	for bits := 0; bits < 128; bits++ {
		for k := 0; k < 3; k++ {
			var rst *imap.StatusOptions
			switch k {
			case 1:
				rst = &imap.StatusOptions{}
			case 2:
				rst = c02StatusOptsFromBits(1 + r.intn(255))
			}
			out = append(out, c02List(pick(r.rng, []string{"", "INBOX", "a/", "R&D/"}), pick(r.rng, []string{"*", "%", "a/%", "INBOX"}), c02ListOptsFromBits(bits, rst)))
		}
	}
	out = append(out, c02List("", "*", nil))
	for bits := 0; bits < 96; bits++ {
		for _, uid := range []bool{false, true} {
			out = append(out, c02Fetch(c02SimpleSet(r, uid), c02FetchScalars(bits)))
		}
	}
	for bits := 0; bits < 32; bits++ {
		for _, uid := range []bool{false, true} {
			out = append(out, c02Search(uid, c02Criteria(r, 1), c02SearchOptsFromBits(bits)))
		}
	}
	out = append(out, c02Search(false, imap.SearchCriteria{}, nil), c02Search(true, imap.SearchCriteria{}, nil))
	for _, op := range []imap.StoreFlagsOp{imap.StoreFlagsSet, imap.StoreFlagsAdd, imap.StoreFlagsDel} {
		for _, silent := range []bool{false, true} {
			for k := 0; k < 4; k++ {
				out = append(out, c02Store(r, op, silent))
			}
		}
	}
	return out
}

func c02SimpleSet(r *c02G, uid bool) imap.NumSet {
	for {
		ns := c02NumSet(r, uid)
		if ns.String() != "" {
			return ns
		}
	}
}

func c02Random(r *c02G) c02Cmd {
	switch k := r.intn(40); {
	case k < 8:
		return c02Simple(r)
	case k < 10:
		return c02Status(c02Mbox(r), c02StatusOptsFromBits(r.intn(256)))
	case k < 14:
		var o *imap.ListOptions
		if r.chance(1, 2) {
			var rst *imap.StatusOptions
			if r.chance(1, 3) {
				rst = c02StatusOptsFromBits(r.intn(256))
			}
			o = c02ListOptsFromBits(r.intn(128)&^(8|64), rst)
		}
		ref := c02Mbox(r)
		if r.chance(1, 2) {
			ref = ""
		}
		pat := pick(r.rng, c02Pats)
		if r.chance(1, 6) {
			pat = c02Mbox(r)
		}
		return c02List(ref, pat, o)
	case k < 18:
		return c02Append(r)
	case k < 21:
		return c02CopyMove(r)
	case k < 24:
		return c02Store(r, imap.StoreFlagsOp(r.intn(3)), r.chance(1, 2))
	case k < 26:
		return c02Expunge(r)
	case k < 32:
		return c02FetchRandom(r)
	}
	var o *imap.SearchOptions
	if r.chance(1, 2) {
		o = c02SearchOptsFromBits(r.intn(32))
	}
	return c02Search(r.chance(1, 2), c02Criteria(r, 3), o)
}

// c02Corpus: past failures, always run first (on every configuration).
func c02Corpus() []c02Cmd {
	d := func(y int, m time.Month, day, h int, z *time.Location) time.Time { return time.Date(y, m, day, h, 0, 0, 0, z) }
	return []c02Cmd{
		c02List("", "R&D", nil),                                    // F14
		c02List("", "Entwürfe/%", nil),                             // F14
		c02List("R&D/", "&", &imap.ListOptions{ReturnChildren: true}), // F14
		c02Search(false, imap.SearchCriteria{}, &imap.SearchOptions{ReturnSave: true, ReturnCount: true}), // F15
		c02Search(true, imap.SearchCriteria{Text: []string{"x"}}, &imap.SearchOptions{ReturnSave: true}),  // F15
		// since/before exactly 24h apart but not a single calendar day
		c02Search(false, imap.SearchCriteria{Since: d(2020, 1, 1, 23, time.UTC), Before: d(2020, 1, 2, 23, time.UTC).In(time.FixedZone("p", 11*3600))}, nil),
		c02Search(false, imap.SearchCriteria{SentSince: d(2020, 1, 1, 23, time.UTC), SentBefore: d(2020, 1, 2, 23, time.UTC).In(time.FixedZone("p", 11*3600))}, nil),
		c02Search(false, imap.SearchCriteria{Smaller: 5, Not: []imap.SearchCriteria{{Larger: 1}}}, nil),
		// the server's nesting limits (Decoder.List: 1000 lists; NOT/OR: depth 1000): 999 levels are delivered, 1000 are refused
		c02Search(false, c02NotChain(999), nil),
		c02Search(true, c02NotChain(1000), nil),
	}
}

// c02NotChain builds a criteria tree of the given nesting depth: NOT (NOT (… (SEEN))).
func c02NotChain(depth int) imap.SearchCriteria {
	c := imap.SearchCriteria{Flag: []imap.Flag{imap.FlagSeen}}
	for i := 1; i < depth; i++ {
		c = imap.SearchCriteria{Not: []imap.SearchCriteria{c}}
	}
	return c
}

func genC02(e *emitter, tier string, seed uint64) {
	nRandom, exhaustiveCfgs := 9000, 4
	switch tier {
	case "thorough":
		nRandom, exhaustiveCfgs = 400000, 1000
	case "widen":
		nRandom, exhaustiveCfgs = 60000, 1000
	}
	root := newRng(seed, "C02")
	cfgs := c02AllCfgs()
	type chunk struct {
		cfg   c02Cfg
		login c02Cmd
		cmds  []c02Cmd
	}
	var chunks []chunk
	plain := c02Cmd{kind: "login", text: "Login " + hx([]byte("u")) + " " + hx([]byte("p")), run: func(c *imapclient.Client) error { return c.Login("u", "p").Wait() }}
	for _, cfg := range cfgs {
		chunks = append(chunks, chunk{cfg: cfg, login: plain, cmds: c02Corpus()})
	}
	// exhaustive option subsets: on every server configuration in the thorough tier, on a rotating
	// selection in the quick tier (the seed moves the window)
	for i, cfg := range cfgs {
		if exhaustiveCfgs < len(cfgs) && (i+int(seed))%len(cfgs) >= exhaustiveCfgs {
			continue
		}
		r := &c02G{rng: root.fork(1000 + i), big: strings.Contains(c02Srvs[cfg.srv].letters, "P")}
		ex := c02Exhaustive(r)
		for off := 0; off < len(ex); off += 100 {
			end := off + 100
			if end > len(ex) {
				end = len(ex)
			}
			chunks = append(chunks, chunk{cfg: cfg, login: c02Login(r), cmds: ex[off:end]})
		}
	}
	const per = 60
	for i := 0; i*per < nRandom; i++ {
		r := &c02G{rng: root.fork(5000 + i)}
		ch := chunk{cfg: cfgs[r.intn(len(cfgs))]}
		r.big = strings.Contains(c02Srvs[ch.cfg.srv].letters, "P")
		ch.login = c02Login(r)
		for j := 0; j < per; j++ {
			ch.cmds = append(ch.cmds, c02Random(r))
		}
		chunks = append(chunks, ch)
	}
	if v := os.Getenv("C02_MAXCHUNKS"); v != "" {
		n, _ := strconv.Atoi(v)
		if n < len(chunks) {
			chunks = chunks[:n]
		}
	}
	parCases(e, len(chunks), func(i int) []caseLine {
		return c02Chunk(chunks[i].cfg, chunks[i].login, chunks[i].cmds)
	})
}

// ---------------------------------------------------------------------------------------------
// replay: a recorded case carries the caller-side arguments in the canonical text; parse them back
// into the API call and run it again against the current tree.

func c02ParseNumSet(t string) (imap.NumSet, bool) {
	uid := strings.HasPrefix(t, "uid:")
	body := t[4:]
	if uid && body == "$" {
		return imap.SearchRes(), true
	}
	var rs []imap.SeqRange
	if body != "" {
		for _, it := range strings.Split(body, ",") {
			ab := strings.Split(it, ":")
			num := func(x string) uint32 {
				if x == "*" {
					return 0
				}
				n, _ := strconv.ParseUint(x, 10, 32)
				return uint32(n)
			}
			if len(ab) == 1 {
				rs = append(rs, imap.SeqRange{Start: num(ab[0]), Stop: num(ab[0])})
			} else {
				rs = append(rs, imap.SeqRange{Start: num(ab[0]), Stop: num(ab[1])})
			}
		}
	}
	if uid {
		u := make(imap.UIDSet, 0, 4) // an empty set replays as the preallocated kind (see c02NumSet)
		for _, x := range rs {
			u = append(u, imap.UIDRange{Start: imap.UID(x.Start), Stop: imap.UID(x.Stop)})
		}
		return u, true
	}
	if len(rs) == 0 {
		return make(imap.SeqSet, 0, 4), false
	}
	return imap.SeqSet(rs), false
}

func c02ParseDashSet(t string, uid bool) imap.NumSet {
	if t == "$-$" {
		return imap.SearchRes()
	}
	var parts []string
	if t != "" {
		for _, it := range strings.Split(t, ",") {
			ab := strings.Split(it, "-")
			conv := func(x string) string {
				if x == "0" {
					return "*"
				}
				return x
			}
			a, b := conv(ab[0]), conv(ab[1])
			switch {
			case a == "*" && b == "*":
				parts = append(parts, "*")
			case a == b:
				parts = append(parts, a)
			default:
				parts = append(parts, a+":"+b)
			}
		}
	}
	pre := "seq:"
	if uid {
		pre = "uid:"
	}
	ns, _ := c02ParseNumSet(pre + strings.Join(parts, ","))
	return ns
}

func c02KV(s, k string) string { return strings.TrimPrefix(s, k+"=") }

func c02ParseStatusOpts(s string) *imap.StatusOptions {
	f := strings.Fields(strings.Trim(s, "{}"))
	if len(f) != 9 {
		return nil
	}
	b := func(i int) bool { return strings.HasSuffix(f[i], "=1") }
	return &imap.StatusOptions{NumMessages: b(0), UIDNext: b(1), UIDValidity: b(2), NumUnseen: b(3), NumDeleted: b(4), Size: b(5), AppendLimit: b(6),
		DeletedStorage: b(7), HighestModSeq: b(8)}
}

func c02HexList(s string) []string {
	s = strings.Trim(s, "[]")
	if s == "" {
		return nil
	}
	var out []string
	for _, h := range strings.Split(s, ",") {
		out = append(out, string(unhx(h)))
	}
	return out
}

func c02ParseInts(s string) []int {
	var out []int
	for _, f := range strings.Fields(strings.Trim(s, "[]")) {
		n, _ := strconv.Atoi(f)
		out = append(out, n)
	}
	return out
}

func c02ParsePartial(s string) *imap.SectionPartial {
	s = strings.TrimSpace(s)
	if !strings.HasPrefix(s, "<") {
		return nil
	}
	ab := strings.Split(strings.Trim(s, "<>"), ".")
	o, _ := strconv.ParseInt(ab[0], 10, 64)
	z, _ := strconv.ParseInt(ab[1], 10, 64)
	return &imap.SectionPartial{Offset: o, Size: z}
}

func c02ParseFetchOpts(s string) *imap.FetchOptions {
	o := &imap.FetchOptions{}
	inner := strings.TrimSuffix(strings.TrimPrefix(s, "{"), "}")
	if inner == "" {
		return o
	}
	for _, it := range strings.Split(inner, ";") {
		switch {
		case it == "bs":
			if o.BodyStructure == nil {
				o.BodyStructure = &imap.FetchItemBodyStructure{}
			}
		case it == "bsx":
			o.BodyStructure = &imap.FetchItemBodyStructure{Extended: true}
		case it == "env":
			o.Envelope = true
		case it == "flags":
			o.Flags = true
		case it == "date":
			o.InternalDate = true
		case it == "size":
			o.RFC822Size = true
		case it == "uid":
			o.UID = true
		case it == "modseq":
			o.ModSeq = true
		case strings.HasPrefix(it, "sec:"):
			r := it[4:]
			i := strings.Index(r, " part=")
			spec, r := r[:i], r[i+6:]
			i = strings.Index(r, " hf=[")
			part, r := r[:i], r[i+5:]
			i = strings.Index(r, "] hfn=[")
			hf, r := r[:i], r[i+7:]
			i = strings.Index(r, "] peek=")
			hfn, r := r[:i], r[i+7:]
			o.BodySection = append(o.BodySection, &imap.FetchItemBodySection{Specifier: imap.PartSpecifier(spec), Part: c02ParseInts(part),
				HeaderFields: c02HexList(hf), HeaderFieldsNot: c02HexList(hfn), Peek: r[0] == '1', Partial: c02ParsePartial(r[1:])})
		case strings.HasPrefix(it, "binsize:"):
			o.BinarySectionSize = append(o.BinarySectionSize, &imap.FetchItemBinarySectionSize{Part: c02ParseInts(it[8:])})
		case strings.HasPrefix(it, "bin:"):
			r := it[4:]
			i := strings.Index(r, " peek=")
			part, r := r[:i], r[i+6:]
			o.BinarySection = append(o.BinarySection, &imap.FetchItemBinarySection{Part: c02ParseInts(part), Peek: r[0] == '1', Partial: c02ParsePartial(r[1:])})
		}
	}
	return o
}

// c02ParseDate rebuilds a time with the recorded instant whose calendar day (in its own zone) is the recorded day.
func c02ParseDate(s string) time.Time {
	ab := strings.Split(s, ":")
	day, _ := strconv.ParseInt(ab[0], 10, 64)
	inst := day
	if len(ab) > 1 {
		inst, _ = strconv.ParseInt(ab[1], 10, 64)
	}
	off := 0
	if inst < day || inst >= day+86400 {
		off = int(day - inst)
	}
	return time.Unix(inst-goZeroUnix, 0).In(time.FixedZone("", off))
}

func c02ParseCriteria(toks []string) (imap.SearchCriteria, []string) {
	var c imap.SearchCriteria
	toks = toks[1:] // "("
	for len(toks) > 0 {
		t := toks[0]
		toks = toks[1:]
		switch {
		case t == ")":
			return c, toks
		case t == "n":
			var n imap.SearchCriteria
			n, toks = c02ParseCriteria(toks)
			c.Not = append(c.Not, n)
		case t == "o":
			var a, b imap.SearchCriteria
			a, toks = c02ParseCriteria(toks)
			b, toks = c02ParseCriteria(toks)
			c.Or = append(c.Or, [2]imap.SearchCriteria{a, b})
		default:
			arg := t[1:]
			switch t[0] {
			case 'q':
				c.SeqNum = append(c.SeqNum, c02ParseDashSet(arg, false).(imap.SeqSet))
			case 'u':
				c.UID = append(c.UID, c02ParseDashSet(arg, true).(imap.UIDSet))
			case 's':
				c.Since = c02ParseDate(arg)
			case 'b':
				c.Before = c02ParseDate(arg)
			case 'S':
				c.SentSince = c02ParseDate(arg)
			case 'B':
				c.SentBefore = c02ParseDate(arg)
			case 'h':
				kv := strings.Split(arg, ":")
				c.Header = append(c.Header, imap.SearchCriteriaHeaderField{Key: string(unhx(kv[0])), Value: string(unhx(kv[1]))})
			case 'y':
				c.Body = append(c.Body, string(unhx(arg)))
			case 't':
				c.Text = append(c.Text, string(unhx(arg)))
			case 'f':
				c.Flag = append(c.Flag, imap.Flag(unhx(arg)))
			case 'F':
				c.NotFlag = append(c.NotFlag, imap.Flag(unhx(arg)))
			case 'l':
				c.Larger, _ = strconv.ParseInt(arg, 10, 64)
			case 'm':
				c.Smaller, _ = strconv.ParseInt(arg, 10, 64)
			}
		}
	}
	return c, nil
}

func c02ParseCall(text string) (cmd c02Cmd, ok bool) {
	defer func() {
		if recover() != nil {
			ok = false
		}
	}()
	f := strings.Split(text, " ")
	h := func(i int) string { return string(unhx(f[i])) }
	flags := func(s string) []imap.Flag {
		var out []imap.Flag
		for _, x := range c02HexList(s) {
			out = append(out, imap.Flag(x))
		}
		return out
	}
	switch f[0] {
	case "Login":
		u, p := h(1), h(2)
		return c02Cmd{kind: "login", text: text, run: func(c *imapclient.Client) error { return c.Login(u, p).Wait() }}, true
	case "Select":
		m, ro := h(1), f[2] == "ro=1"
		return c02Cmd{kind: "select", text: text, run: func(c *imapclient.Client) error {
			_, err := c.Select(m, &imap.SelectOptions{ReadOnly: ro}).Wait()
			return err
		}}, true
	case "Create":
		m := h(1)
		var opt *imap.CreateOptions
		if len(f) > 2 {
			opt = &imap.CreateOptions{}
			for i := 2; i < len(f); i++ {
				opt.SpecialUse = append(opt.SpecialUse, imap.MailboxAttr(h(i)))
			}
		}
		return c02Cmd{kind: "create", text: text, run: func(c *imapclient.Client) error { return c.Create(m, opt).Wait() }}, true
	case "Delete":
		m := h(1)
		return c02Cmd{kind: "delete", text: text, run: func(c *imapclient.Client) error { return c.Delete(m).Wait() }}, true
	case "Subscribe":
		m := h(1)
		return c02Cmd{kind: "subscribe", text: text, run: func(c *imapclient.Client) error { return c.Subscribe(m).Wait() }}, true
	case "Unsubscribe":
		m := h(1)
		return c02Cmd{kind: "unsubscribe", text: text, run: func(c *imapclient.Client) error { return c.Unsubscribe(m).Wait() }}, true
	case "Rename":
		m, n := h(1), h(2)
		return c02Cmd{kind: "rename", text: text, run: func(c *imapclient.Client) error { return c.Rename(m, n).Wait() }}, true
	case "List":
		ref := h(1)
		pats := c02HexList(f[2])
		pat := ""
		if len(pats) > 0 {
			pat = pats[0]
		}
		b := func(i int) bool { return strings.HasSuffix(f[i], "=1") }
		o := &imap.ListOptions{SelectSubscribed: b(3), SelectRemote: b(4), SelectRecursiveMatch: b(5), SelectSpecialUse: b(6), ReturnSubscribed: b(7),
			ReturnChildren: b(8), ReturnSpecialUse: b(9)}
		if rst := c02KV(strings.Join(f[10:], " "), "rst"); rst != "nil" {
			o.ReturnStatus = c02ParseStatusOpts(rst)
		}
		return c02List(ref, pat, o), true
	case "Status":
		return c02Status(h(1), c02ParseStatusOpts(strings.Join(f[2:], " "))), true
	case "Append":
		m := h(1)
		opt := &imap.AppendOptions{Flags: flags(f[2])}
		if f[3] != "0" {
			ab := strings.Split(f[3], "@")
			t, err := time.Parse(time.RFC3339, ab[0])
			if err != nil {
				return cmd, false
			}
			off, _ := strconv.Atoi(ab[1])
			opt.Time = t.In(time.FixedZone("", off))
		}
		payload := unhx(f[4])
		return c02Cmd{kind: "append", text: text, run: func(c *imapclient.Client) error {
			cmd := c.Append(m, int64(len(payload)), opt)
			if _, err := cmd.Write(payload); err != nil {
				cmd.Close()
				if _, werr := cmd.Wait(); werr != nil {
					return werr
				}
				return err
			}
			if err := cmd.Close(); err != nil {
				if _, werr := cmd.Wait(); werr != nil {
					return werr
				}
				return err
			}
			_, err := cmd.Wait()
			return err
		}}, true
	case "Copy", "Move":
		ns, _ := c02ParseNumSet(f[1])
		m := h(2)
		if f[0] == "Copy" {
			return c02Cmd{kind: "copy", sel: true, text: text, run: func(c *imapclient.Client) error { _, err := c.Copy(ns, m).Wait(); return err }}, true
		}
		return c02Cmd{kind: "move", sel: true, text: text, run: func(c *imapclient.Client) error { _, err := c.Move(ns, m).Wait(); return err }}, true
	case "Store":
		ns, _ := c02ParseNumSet(f[1])
		op, _ := strconv.Atoi(c02KV(f[2], "op"))
		silent := f[3] == "silent=1"
		fl := flags(f[4])
		return c02Cmd{kind: "store", sel: true, text: text, run: func(c *imapclient.Client) error {
			return c.Store(ns, &imap.StoreFlags{Op: imap.StoreFlagsOp(op), Silent: silent, Flags: fl}, nil).Close()
		}}, true
	case "Expunge":
		if len(f) > 1 && f[1] == "nil" {
			return c02Cmd{kind: "expunge", sel: true, text: text, run: func(c *imapclient.Client) error { return c.Expunge().Close() }}, true
		}
		t := ""
		if len(f) > 1 {
			t = f[1]
		}
		ns, _ := c02ParseNumSet("uid:" + t)
		u := ns.(imap.UIDSet)
		return c02Cmd{kind: "uidexpunge", sel: true, text: text, run: func(c *imapclient.Client) error { return c.UIDExpunge(u).Close() }}, true
	case "Fetch":
		ns, _ := c02ParseNumSet(f[1])
		return c02Fetch(ns, c02ParseFetchOpts(strings.Join(f[2:], " "))), true
	case "Search":
		uid := f[1] == "uid"
		body := strings.Join(f[2:], " ")
		var o *imap.SearchOptions
		if strings.HasSuffix(body, " nil") {
			body = strings.TrimSuffix(body, " nil")
		} else if i := strings.LastIndex(body, " {"); i >= 0 {
			of := strings.Fields(strings.Trim(body[i+1:], "{}"))
			b := func(i int) bool { return strings.HasSuffix(of[i], "=1") }
			o = &imap.SearchOptions{ReturnMin: b(0), ReturnMax: b(1), ReturnAll: b(2), ReturnCount: b(3), ReturnSave: b(4)}
			body = body[:i]
		}
		toks := strings.Fields(strings.ReplaceAll(strings.ReplaceAll(body, "(", " ( "), ")", " ) "))
		crit, _ := c02ParseCriteria(toks)
		return c02Search(uid, crit, o), true
	}
	return cmd, false
}

func replayC02(e *emitter, kind string, f []string) {
	if len(f) < 2 {
		fmt.Fprintln(e.w, "# C02: malformed case", kind, strings.Join(f, " "))
		return
	}
	cf := strings.Split(f[0], "/")
	cmd, ok := c02ParseCall(f[1])
	if !ok || len(cf) != 3 {
		fmt.Fprintln(e.w, "# C02: cannot parse the recorded call", f[1])
		return
	}
	var cfg c02Cfg
	found := false
	for i, s := range c02Srvs {
		// a LOGIN case records the greeting's capabilities only
		pre := ""
		for _, l := range s.letters {
			if l == '1' || l == '2' {
				pre += string(l)
			}
		}
		if s.letters == cf[0] || (kind == "login" && pre == cf[0]) {
			cfg.srv, found = i, true
			break
		}
	}
	if !found {
		fmt.Fprintln(e.w, "# C02: unknown configuration", cf[0])
		return
	}
	cfg.enable, _ = strconv.Atoi(cf[1])
	s := c02Srvs[cfg.srv]
	ts := newStubServer(stubCfg{caps: s.caps, insecure: true, full: s.full})
	defer ts.close()
	cn := c02Dial(ts, cfg)
	defer cn.cl.Close()
	if kind != "login" {
		cn.plainLogin()
		if cf[2] == "1" {
			if _, err := cn.cl.Select("INBOX", nil).Wait(); err != nil {
				panic(err)
			}
			cn.selected = true
		}
		cmd.sel = false
	}
	cn.timeout = c02RetryTimeout
	l := cn.exec(cmd)
	e.emit(l.kind, l.fields...)
}
