//go:build c11 || allprops

package main

import (
	"bytes"
	"errors"
	"fmt"
	"io"
	"net"
	"os"
	"runtime"
	"runtime/debug"
	"sort"
	"strconv"
	"strings"
	"sync"
	"sync/atomic"
	"syscall"
	"time"

	"github.com/emersion/go-imap/v2"
	"github.com/emersion/go-imap/v2/imapclient"
)

// C11 — the client never panics or blows up on arbitrary server bytes.
//
// A scripted server (the server end of memPipe) feeds a byte stream to the real
// imapclient.Client, which has issued the command whose responses are being fuzzed. Every
// case runs in a crash-isolating child (debug.SetMaxStack(16 MiB), address-space limit,
// watchdog in the parent): a fatal stack overflow or a hang kills only the child and is the
// observation. After the stream, every accessor of every value handed back is invoked under
// recover.
//
// case line:  kind  cmdspec  template  observation
//   template     = segments joined by '+':  h<hex>  |  r<count>x<hex>
//   observation  = cmd|dec|data|uni|acc|zero|dyn|depth|card|neg  (or crash / timeout)
// cost line:   cost  shape  n  t1|t2|alloc1|alloc2|len1|len2|class1|class2

func init() {
	props["C11"] = genC11
	replayers["C11"] = replayC11
	workers["c11"] = func() {
		debug.SetMaxStack(16 << 20)
		workerLoop(c11Worker)
	}
}

const c11Greeting = "* OK [CAPABILITY IMAP4rev1 LITERAL- MOVE UIDPLUS ESEARCH SORT THREAD=REFERENCES QUOTA METADATA NAMESPACE ENABLE CONDSTORE LIST-STATUS] ready\r\n"
const c11SelectResp = "* 3 EXISTS\r\n* FLAGS (\\Seen)\r\n* OK [UIDVALIDITY 7] x\r\nT1 OK [READ-WRITE] done\r\n"

// ---------------------------------------------------------------- templates

func c11H(s string) string {
	if s == "" {
		return ""
	}
	return "h" + hx([]byte(s))
}

func c11R(n int, s string) string {
	if n <= 0 || s == "" {
		return ""
	}
	return fmt.Sprintf("r%dx%s", n, hx([]byte(s)))
}

func c11T(segs ...string) string {
	var out []string
	for _, s := range segs {
		if s != "" {
			out = append(out, s)
		}
	}
	if len(out) == 0 {
		return "h-"
	}
	return strings.Join(out, "+")
}

// c11Lines makes one segment per response line so that the minimiser can drop lines.
func c11Lines(lines []string) string {
	segs := make([]string, len(lines))
	for i, l := range lines {
		segs[i] = c11H(l)
	}
	return c11T(segs...)
}

func c11Expand(t string) []byte {
	var out []byte
	for _, seg := range strings.Split(t, "+") {
		if seg == "" {
			continue
		}
		switch seg[0] {
		case 'h':
			out = append(out, unhx(seg[1:])...)
		case 'r':
			i := strings.IndexByte(seg, 'x')
			n, _ := strconv.Atoi(seg[1:i])
			out = append(out, bytes.Repeat(unhx(seg[i+1:]), n)...)
		}
	}
	return out
}

// ---------------------------------------------------------------- the child: one case

// c11Conn keeps Close from discarding what the scripted server already sent: the reader
// must reach the end of the stream on its own (the server end closes its write side).
type c11Conn struct {
	*memConn
	closed *atomic.Bool
}

// Close only stops writes: what the server already sent stays readable.
func (c c11Conn) Close() error { c.closed.Store(true); return nil }

func (c c11Conn) Write(p []byte) (int, error) {
	if c.closed.Load() {
		return 0, net.ErrClosed
	}
	return c.memConn.Write(p)
}

func c11CloseWrite(c *memConn) {
	c.w.mu.Lock()
	c.w.closed = true
	c.w.cond.Broadcast()
	c.w.mu.Unlock()
}

// c11Acc collects what the accessor phase saw.
type c11Acc struct {
	mu    sync.Mutex
	panic string // first accessor that panicked
	zero  bool   // a sequence number / UID 0 was handed to the caller
	neg   bool   // a size / count / limit below zero was handed to the caller
	dyn   bool   // an open-ended ("*") set was handed to the caller
	depth int    // deepest delivered tree
	card  uint64 // largest cardinality of a delivered static set
}

func (a *c11Acc) try(name string, f func()) {
	defer func() {
		if v := recover(); v != nil {
			a.mu.Lock()
			if a.panic == "" {
				a.panic = name
			}
			a.mu.Unlock()
		}
	}()
	f()
}

func (a *c11Acc) panicked() bool { a.mu.Lock(); defer a.mu.Unlock(); return a.panic != "" }

func (a *c11Acc) notePanic(name string) {
	a.mu.Lock()
	if a.panic == "" {
		a.panic = name
	}
	a.mu.Unlock()
}

func (a *c11Acc) noteDepth(d int) {
	a.mu.Lock()
	if d > a.depth {
		a.depth = d
	}
	a.mu.Unlock()
}

func (a *c11Acc) noteZero() { a.mu.Lock(); a.zero = true; a.mu.Unlock() }

// noteNum64 judges a 64-bit size, count or limit handed to the caller
func (a *c11Acc) noteNum64(v int64) {
	if v < 0 {
		a.mu.Lock()
		a.neg = true
		a.mu.Unlock()
	}
}

const c11MaxEnum = 1000000

// ranges renders a set canonically and exercises its accessors; Nums() is only called when
// the cardinality (computed from the ranges) is at most c11MaxEnum.
func (a *c11Acc) ranges(name string, rs [][2]uint32, str func() string, dynamic func() bool, nums func() (int, bool), contains func(uint32) bool) string {
	parts := make([]string, len(rs))
	var card uint64
	dyn := false
	for i, r := range rs {
		parts[i] = fmt.Sprintf("%d-%d", r[0], r[1])
		if r[0] == 0 || r[1] == 0 {
			dyn = true
		} else if r[1] >= r[0] {
			card += uint64(r[1]-r[0]) + 1
		}
	}
	a.mu.Lock()
	if dyn {
		a.dyn = true
	}
	if card > a.card {
		a.card = card
	}
	a.mu.Unlock()
	a.try(name+".String", func() { _ = str() })
	a.try(name+".Dynamic", func() {
		if dynamic() != dyn {
			panic("Dynamic() disagrees with the ranges")
		}
	})
	a.try(name+".Contains", func() { contains(1); contains(0); contains(4294967295) })
	if card <= c11MaxEnum {
		a.try(name+".Nums", func() {
			n, ok := nums()
			if ok && (dyn || uint64(n) != card) {
				panic("Nums() length differs from the cardinality")
			}
		})
	}
	return strings.Join(parts, ",")
}

func (a *c11Acc) seqSet(name string, s imap.SeqSet) string {
	rs := make([][2]uint32, len(s))
	for i, r := range s {
		rs[i] = [2]uint32{r.Start, r.Stop}
	}
	return a.ranges(name, rs, s.String, s.Dynamic, func() (int, bool) { n, ok := s.Nums(); return len(n), ok }, func(q uint32) bool { return s.Contains(q) })
}

func (a *c11Acc) uidSet(name string, s imap.UIDSet) string {
	rs := make([][2]uint32, len(s))
	for i, r := range s {
		rs[i] = [2]uint32{uint32(r.Start), uint32(r.Stop)}
	}
	return a.ranges(name, rs, s.String, s.Dynamic, func() (int, bool) { n, ok := s.Nums(); return len(n), ok }, func(q uint32) bool { return s.Contains(imap.UID(q)) })
}

func (a *c11Acc) numSet(name string, s imap.NumSet) string {
	switch s := s.(type) {
	case nil:
		return "~"
	case imap.SeqSet:
		return "q" + a.seqSet(name, s)
	case imap.UIDSet:
		a.try("IsSearchRes", func() { imap.IsSearchRes(s) })
		return "u" + a.uidSet(name, s)
	}
	return "?"
}

func (a *c11Acc) enumerable() bool {
	a.mu.Lock()
	defer a.mu.Unlock()
	return a.card <= c11MaxEnum
}

func (a *c11Acc) searchData(d *imap.SearchData) string {
	if d == nil {
		return "S:nil"
	}
	all := a.numSet("SearchData.All", d.All)
	if a.enumerable() {
		a.try("SearchData.AllSeqNums", func() { _ = d.AllSeqNums() })
		a.try("SearchData.AllUIDs", func() { _ = d.AllUIDs() })
	}
	return fmt.Sprintf("S:%s:%s:%d:%d:%d:%d", b01(d.UID), all, d.Min, d.Max, d.Count, d.ModSeq)
}

func (a *c11Acc) threads(ts []imapclient.ThreadData, depth int) string {
	var sb strings.Builder
	a.threadsTo(&sb, ts, depth)
	return sb.String()
}

func (a *c11Acc) threadsTo(sb *strings.Builder, ts []imapclient.ThreadData, depth int) {
	for _, t := range ts {
		a.noteDepth(depth)
		sb.WriteByte('(')
		for i, n := range t.Chain {
			if i > 0 {
				sb.WriteByte(' ')
			}
			if n == 0 {
				a.noteZero()
			}
			sb.WriteString(strconv.FormatUint(uint64(n), 10))
		}
		a.threadsTo(sb, t.SubThreads, depth+1)
		sb.WriteByte(')')
	}
}

func (a *c11Acc) envelope(e *imap.Envelope) {
	if e == nil {
		return
	}
	a.try("Envelope", func() {
		_ = e.Date.String()
		_ = len(e.Subject) + len(e.MessageID) + len(e.InReplyTo)
		for _, l := range [][]imap.Address{e.From, e.Sender, e.ReplyTo, e.To, e.Cc, e.Bcc} {
			for i := range l {
				_ = l[i].Addr()
				_ = l[i].IsGroupStart()
				_ = l[i].IsGroupEnd()
			}
		}
	})
}

func (a *c11Acc) disp(d *imap.BodyStructureDisposition) {
	if d != nil {
		_ = d.Value
		for k, v := range d.Params {
			_ = k + v
		}
	}
}

// body renders the structure of a body structure: s[type/subtype/enc/id/size(/t<lines>)(/r<child>/<lines>)(/x)]
// or m[subtype(/x):children].
func (a *c11Acc) body(bs imap.BodyStructure, depth int) string {
	var sb strings.Builder
	a.bodyTo(&sb, bs, depth)
	return sb.String()
}

func (a *c11Acc) bodyTo(sb *strings.Builder, bs imap.BodyStructure, depth int) {
	a.noteDepth(depth)
	switch bs := bs.(type) {
	case nil:
		sb.WriteString("nil")
	case *imap.BodyStructureSinglePart:
		if bs == nil {
			sb.WriteString("nilsp")
			return
		}
		a.try("SinglePart.accessors", func() {
			_ = bs.MediaType()
			_ = bs.Filename()
			a.disp(bs.Disposition())
			for k, v := range bs.Params {
				_ = k + v
			}
			if bs.Extended != nil {
				_ = len(bs.Extended.Language) + len(bs.Extended.Location)
			}
		})
		fmt.Fprintf(sb, "s[%s/%s/%s/%s/%d", hx([]byte(bs.Type)), hx([]byte(bs.Subtype)), hx([]byte(bs.Encoding)), hx([]byte(bs.ID)), bs.Size)
		if bs.Text != nil {
			a.noteNum64(bs.Text.NumLines)
			fmt.Fprintf(sb, "/t%d", bs.Text.NumLines)
		}
		if bs.MessageRFC822 != nil {
			a.noteNum64(bs.MessageRFC822.NumLines)
			a.envelope(bs.MessageRFC822.Envelope)
			sb.WriteString("/r")
			a.bodyTo(sb, bs.MessageRFC822.BodyStructure, depth+1)
			fmt.Fprintf(sb, "/%d", bs.MessageRFC822.NumLines)
		}
		if bs.Extended != nil {
			sb.WriteString("/x")
		}
		sb.WriteString("]")
	case *imap.BodyStructureMultiPart:
		if bs == nil {
			sb.WriteString("nilmp")
			return
		}
		a.try("MultiPart.accessors", func() {
			_ = bs.MediaType()
			a.disp(bs.Disposition())
			if bs.Extended != nil {
				for k, v := range bs.Extended.Params {
					_ = k + v
				}
				_ = len(bs.Extended.Language) + len(bs.Extended.Location)
			}
		})
		sb.WriteString("m[" + hx([]byte(bs.Subtype)))
		if bs.Extended != nil {
			sb.WriteString("/x")
		}
		sb.WriteString(":")
		for _, c := range bs.Children {
			a.bodyTo(sb, c, depth+1)
		}
		sb.WriteString("]")
	default:
		sb.WriteString("?")
	}
}

func (a *c11Acc) message(buf *imapclient.FetchMessageBuffer) string {
	if buf == nil {
		return "nil"
	}
	if buf.SeqNum == 0 {
		a.noteZero()
	}
	var it []string
	if buf.UID != 0 {
		it = append(it, fmt.Sprintf("U%d", buf.UID))
	}
	a.noteNum64(buf.RFC822Size)
	if buf.RFC822Size != 0 {
		it = append(it, fmt.Sprintf("Z%d", buf.RFC822Size))
	}
	if buf.ModSeq != 0 {
		it = append(it, fmt.Sprintf("M%d", buf.ModSeq))
	}
	if len(buf.Flags) > 0 {
		it = append(it, fmt.Sprintf("L%d", len(buf.Flags)))
	}
	if buf.BodyStructure != nil {
		bs := buf.BodyStructure
		a.try("BodyStructure.Walk", func() {
			n := 0
			bs.Walk(func(path []int, part imap.BodyStructure) bool {
				n++
				_ = part.MediaType()
				_ = part.Disposition()
				return true
			})
		})
		it = append(it, "B"+a.body(bs, 1))
	}
	if buf.Envelope != nil {
		a.envelope(buf.Envelope)
		it = append(it, "E")
	}
	if !buf.InternalDate.IsZero() {
		it = append(it, "D")
	}
	if n := len(buf.BodySection); n > 0 {
		t := 0
		for k, v := range buf.BodySection {
			if k != nil {
				_ = len(k.Part) + len(k.HeaderFields)
			}
			t += len(v)
		}
		it = append(it, fmt.Sprintf("S%d.%d", n, t))
	}
	if n := len(buf.BinarySection); n > 0 {
		it = append(it, fmt.Sprintf("Y%d", n))
	}
	if n := len(buf.BinarySectionSize); n > 0 {
		it = append(it, fmt.Sprintf("W%d", n))
	}
	return fmt.Sprintf("%d{%s}", buf.SeqNum, strings.Join(it, ";"))
}

func (a *c11Acc) copyData(uidValidity uint32, src, dst imap.NumSet) string {
	return fmt.Sprintf("C:%d:%s:%s", uidValidity, a.numSet("CopyData.SourceUIDs", src), a.numSet("CopyData.DestUIDs", dst))
}

// c11Rec records unilateral data.
type c11Rec struct {
	mu   sync.Mutex
	acc  *c11Acc
	msgs []string
}

func (r *c11Rec) add(s string) { r.mu.Lock(); r.msgs = append(r.msgs, s); r.mu.Unlock() }

func (r *c11Rec) handler() *imapclient.UnilateralDataHandler {
	guard := func(f func()) {
		defer func() {
			if v := recover(); v != nil {
				r.acc.notePanic("FetchMessageData.Collect(unilateral)")
			}
		}()
		f()
	}
	return &imapclient.UnilateralDataHandler{
		Expunge: func(n uint32) {
			if n == 0 {
				r.acc.noteZero()
			}
			r.add(fmt.Sprintf("x%d", n))
		},
		Mailbox: func(d *imapclient.UnilateralDataMailbox) {
			guard(func() {
				if d.NumMessages != nil {
					_ = *d.NumMessages
				}
				_ = len(d.Flags) + len(d.PermanentFlags)
			})
		},
		Fetch: func(msg *imapclient.FetchMessageData) {
			guard(func() {
				buf, _ := msg.Collect()
				r.add("f" + r.acc.message(buf))
			})
		},
		Metadata: func(mailbox string, entries []string) { _ = len(mailbox) + len(entries) },
	}
}

func c11ErrClass(err error) string {
	if err == nil {
		return "ok"
	}
	var ie *imap.Error
	if errors.As(err, &ie) {
		switch ie.Type {
		case imap.StatusResponseTypeNo:
			return "no"
		case imap.StatusResponseTypeBad:
			return "bad"
		}
	}
	return "err"
}

func c11NumSetArg(uid bool, s string) imap.NumSet {
	var seq imap.SeqSet
	var uids imap.UIDSet
	for _, p := range strings.Split(s, ",") {
		ab := strings.SplitN(p, ":", 2)
		num := func(t string) uint32 {
			if t == "*" {
				return 0
			}
			v, _ := strconv.ParseUint(t, 10, 32)
			return uint32(v)
		}
		x := num(ab[0])
		y := x
		if len(ab) == 2 {
			y = num(ab[1])
		}
		if uid {
			uids.AddRange(imap.UID(x), imap.UID(y))
		} else {
			seq.AddRange(x, y)
		}
	}
	if uid {
		return uids
	}
	return seq
}

// c11Issue sends the command named by spec and returns the function that waits for it and
// renders what it handed back.
//
// a judges values returned by Wait() (they count as handed over unless Wait() also returned a
// parse error); sa judges what is streamed to the caller while the response is still being
// read (FETCH messages, EXPUNGE numbers), which is handed over whatever happens later.
func c11Issue(cl *imapclient.Client, a, sa *c11Acc, spec string) func() (string, string) {
	name, arg := spec, ""
	if i := strings.IndexByte(spec, ':'); i >= 0 {
		name, arg = spec[:i], spec[i+1:]
	}
	uid := strings.HasPrefix(name, "uid")
	base := strings.TrimPrefix(name, "uid")
	switch base {
	case "search", "esearch":
		var opts *imap.SearchOptions
		if base == "esearch" {
			opts = &imap.SearchOptions{ReturnAll: true, ReturnCount: true, ReturnMin: true, ReturnMax: true}
		}
		var cmd *imapclient.SearchCommand
		if uid {
			cmd = cl.UIDSearch(&imap.SearchCriteria{}, opts)
		} else {
			cmd = cl.Search(&imap.SearchCriteria{}, opts)
		}
		return func() (string, string) {
			d, err := cmd.Wait()
			return c11ErrClass(err), a.searchData(d)
		}
	case "sort":
		o := &imapclient.SortOptions{SearchCriteria: &imap.SearchCriteria{}, SortCriteria: []imapclient.SortCriterion{{Key: imapclient.SortKeyDate}}}
		var cmd *imapclient.SortCommand
		if uid {
			cmd = cl.UIDSort(o)
		} else {
			cmd = cl.Sort(o)
		}
		return func() (string, string) {
			nums, err := cmd.Wait()
			parts := make([]string, len(nums))
			for i, n := range nums {
				if n == 0 {
					a.noteZero()
				}
				parts[i] = strconv.FormatUint(uint64(n), 10)
			}
			return c11ErrClass(err), "N:" + strings.Join(parts, ",")
		}
	case "thread":
		o := &imapclient.ThreadOptions{Algorithm: imap.ThreadReferences, SearchCriteria: &imap.SearchCriteria{}}
		var cmd *imapclient.ThreadCommand
		if uid {
			cmd = cl.UIDThread(o)
		} else {
			cmd = cl.Thread(o)
		}
		return func() (string, string) {
			ts, err := cmd.Wait()
			return c11ErrClass(err), "T:" + a.threads(ts, 1)
		}
	case "fetch":
		if arg == "" {
			arg = "1:*"
		}
		cmd := cl.Fetch(c11NumSetArg(uid, arg), &imap.FetchOptions{UID: true, BodyStructure: &imap.FetchItemBodyStructure{Extended: true}})
		return func() (string, string) {
			msgs, err := cmd.Collect()
			parts := make([]string, len(msgs))
			for i, m := range msgs {
				parts[i] = sa.message(m)
			}
			return c11ErrClass(err), "F:" + strings.Join(parts, ",")
		}
	case "list", "liststatus":
		var o *imap.ListOptions
		if base == "liststatus" {
			o = &imap.ListOptions{ReturnStatus: &imap.StatusOptions{NumMessages: true, UIDNext: true}}
		}
		cmd := cl.List("", "*", o)
		return func() (string, string) {
			l, err := cmd.Collect()
			a.try("ListData", func() {
				for _, d := range l {
					_ = len(d.Attrs) + len(d.Mailbox) + int(d.Delim) + len(d.OldName)
					if d.ChildInfo != nil {
						_ = d.ChildInfo.Subscribed
					}
					if d.Status != nil {
						c11Status(a, d.Status)
					}
				}
			})
			return c11ErrClass(err), "-"
		}
	case "status":
		cmd := cl.Status("INBOX", &imap.StatusOptions{NumMessages: true, UIDNext: true, UIDValidity: true, NumUnseen: true})
		return func() (string, string) {
			d, err := cmd.Wait()
			a.try("StatusData", func() { c11Status(a, d) })
			return c11ErrClass(err), "-"
		}
	case "getquota":
		cmd := cl.GetQuota(arg)
		return func() (string, string) {
			d, err := cmd.Wait()
			a.try("QuotaData", func() {
				if d != nil {
					for k, v := range d.Resources {
						_ = len(k)
						a.noteNum64(v.Usage)
						a.noteNum64(v.Limit)
					}
				}
			})
			return c11ErrClass(err), "-"
		}
	case "getquotaroot":
		cmd := cl.GetQuotaRoot("INBOX")
		return func() (string, string) {
			l, err := cmd.Wait()
			a.try("QuotaRootData", func() {
				for _, d := range l {
					for k, v := range d.Resources {
						_ = len(k)
						a.noteNum64(v.Usage)
						a.noteNum64(v.Limit)
					}
				}
			})
			return c11ErrClass(err), "-"
		}
	case "getmetadata":
		cmd := cl.GetMetadata("INBOX", []string{"/private/comment"}, nil)
		return func() (string, string) {
			d, err := cmd.Wait()
			a.try("GetMetadataData", func() {
				if d != nil {
					for k, v := range d.Entries {
						_ = len(k)
						if v != nil {
							_ = len(*v)
						}
					}
				}
			})
			return c11ErrClass(err), "-"
		}
	case "namespace":
		cmd := cl.Namespace()
		return func() (string, string) {
			d, err := cmd.Wait()
			a.try("NamespaceData", func() {
				if d != nil {
					for _, l := range [][]imap.NamespaceDescriptor{d.Personal, d.Other, d.Shared} {
						for _, x := range l {
							_ = len(x.Prefix) + int(x.Delim)
						}
					}
				}
			})
			return c11ErrClass(err), "-"
		}
	case "copy":
		cmd := cl.Copy(c11NumSetArg(uid, "1:3"), "Dest")
		return func() (string, string) {
			d, err := cmd.Wait()
			if d == nil {
				return c11ErrClass(err), "C:nil"
			}
			return c11ErrClass(err), a.copyData(d.UIDValidity, d.SourceUIDs, d.DestUIDs)
		}
	case "move":
		cmd := cl.Move(c11NumSetArg(uid, "1:3"), "Dest")
		return func() (string, string) {
			d, err := cmd.Wait()
			if d == nil {
				return c11ErrClass(err), "C:nil"
			}
			return c11ErrClass(err), a.copyData(d.UIDValidity, d.SourceUIDs, d.DestUIDs)
		}
	case "append":
		cmd := cl.Append("INBOX", 2, nil)
		cmd.Write([]byte("hi"))
		cmd.Close()
		return func() (string, string) {
			d, err := cmd.Wait()
			if d == nil {
				return c11ErrClass(err), "A:nil"
			}
			if d.UIDValidity != 0 && d.UID == 0 {
				a.noteZero()
			}
			return c11ErrClass(err), fmt.Sprintf("A:%d:%d", d.UIDValidity, d.UID)
		}
	case "select":
		cmd := cl.Select("INBOX", nil)
		return func() (string, string) {
			d, err := cmd.Wait()
			a.try("SelectData", func() {
				if d != nil {
					_ = len(d.Flags) + len(d.PermanentFlags) + int(d.NumMessages) + int(d.UIDNext) + int(d.UIDValidity)
					if d.List != nil {
						_ = len(d.List.Mailbox)
					}
				}
				if mb := cl.Mailbox(); mb != nil {
					_ = len(mb.Name) + int(mb.NumMessages) + len(mb.Flags)
				}
			})
			return c11ErrClass(err), "-"
		}
	case "capability":
		cmd := cl.Capability()
		return func() (string, string) {
			caps, err := cmd.Wait()
			a.try("CapSet", func() { c11Caps(caps) })
			return c11ErrClass(err), "-"
		}
	case "enable":
		cmd := cl.Enable(imap.CapUTF8Accept)
		return func() (string, string) {
			d, err := cmd.Wait()
			a.try("EnableData", func() {
				if d != nil {
					c11Caps(d.Caps)
				}
			})
			return c11ErrClass(err), "-"
		}
	case "expunge":
		cmd := cl.Expunge()
		return func() (string, string) {
			nums, err := cmd.Collect()
			parts := make([]string, len(nums))
			for i, n := range nums {
				if n == 0 {
					sa.noteZero()
				}
				parts[i] = strconv.FormatUint(uint64(n), 10)
			}
			return c11ErrClass(err), "X:" + strings.Join(parts, ",")
		}
	}
	cmd := cl.Noop()
	return func() (string, string) { return c11ErrClass(cmd.Wait()), "-" }
}

func c11Status(a *c11Acc, d *imap.StatusData) {
	if d == nil {
		return
	}
	for _, p := range []*int64{d.Size, d.DeletedStorage} {
		if p != nil {
			a.noteNum64(*p)
		}
	}
	n := len(d.Mailbox) + int(d.UIDNext) + int(d.UIDValidity) + int(d.HighestModSeq)
	for _, p := range []*uint32{d.NumMessages, d.NumUnseen, d.NumDeleted, d.AppendLimit} {
		if p != nil {
			n += int(*p)
		}
	}
	for _, p := range []*int64{d.Size, d.DeletedStorage} {
		if p != nil {
			n += int(*p)
		}
	}
	_ = n
}

func c11Caps(caps imap.CapSet) {
	_ = caps.Has(imap.CapIMAP4rev2)
	_ = caps.AuthMechanisms()
	_, _ = caps.AppendLimit()
	_ = caps.QuotaResourceTypes()
	_ = caps.ThreadAlgorithms()
}

func c11Settle(base int) {
	for i := 0; i < 20000; i++ {
		if runtime.NumGoroutine() <= base {
			return
		}
		if i == 19999 && os.Getenv("C11_DEBUG") != "" {
			buf := make([]byte, 1<<16)
			os.Stderr.Write(buf[:runtime.Stack(buf, true)])
		}
		if i < 50 {
			runtime.Gosched()
		} else {
			time.Sleep(500 * time.Microsecond)
		}
	}
}

// c11Run feeds one stream to a fresh client that has issued the command of spec.
func c11Run(spec string, stream []byte) string {
	base := runtime.NumGoroutine()
	a, sa := &c11Acc{}, &c11Acc{}
	rec := &c11Rec{acc: sa}
	cc, sc := memPipe()
	raw := strings.HasPrefix(spec, "raw+")
	if raw {
		spec = spec[4:]
	} else {
		sc.Write([]byte(c11Greeting))
	}
	opts := &imapclient.Options{UnilateralDataHandler: rec.handler()}
	if strings.HasPrefix(spec, "noh+") {
		// no handler: the library discards unilateral data in goroutines of its own
		spec = spec[4:]
		opts = nil
	}
	cl := imapclient.New(c11Conn{cc, new(atomic.Bool)}, opts)
	if !raw {
		cl.WaitGreeting() // the capabilities of the greeting decide how commands are written
	}
	if strings.HasPrefix(spec, "sel+") {
		spec = spec[4:]
		sel := cl.Select("INBOX", nil)
		sc.Write([]byte(c11SelectResp))
		sel.Wait()
	}
	var finish func() (string, string)
	if raw {
		// the stream is everything the server says, greeting included
		sc.Write(stream)
		c11CloseWrite(sc)
		finish = c11Issue(cl, a, sa, spec)
	} else {
		finish = c11Issue(cl, a, sa, spec)
		sc.Write(stream)
		c11CloseWrite(sc)
	}
	// Wait()/Collect() run in the caller: a panic there is a panic of an accessor
	cmdClass, data := "err", "-"
	a.try("Wait/Collect", func() { cmdClass, data = finish() })
	decClass := "none"
	closed := make(chan error, 1)
	go func() { closed <- cl.Close() }()
	var err error
	if a.panicked() || sa.panicked() {
		// the consumer died half-way: the reader may wait for it forever, and that is not news
		select {
		case err = <-closed:
		case <-time.After(3 * time.Second):
			err = errors.New("stuck behind a consumer that panicked")
		}
	} else {
		err = <-closed
	}
	if err != nil {
		decClass = "err"
		if strings.Contains(err.Error(), "panic reading response") {
			decClass = "panic"
		}
	}
	c11Settle(base)
	a.try("Client.Caps", func() { c11Caps(cl.Caps()) })
	rec.mu.Lock()
	uni := append([]string(nil), rec.msgs...)
	rec.mu.Unlock()
	sort.Strings(uni)
	a.mu.Lock()
	defer a.mu.Unlock()
	sa.mu.Lock()
	defer sa.mu.Unlock()
	if cmdClass == "err" {
		// returned next to a parse error: reported, not delivered
		a.zero, a.dyn, a.depth, a.card, a.neg = false, false, 0, 0, false
	}
	a.zero, a.dyn, a.neg = a.zero || sa.zero, a.dyn || sa.dyn, a.neg || sa.neg
	if sa.depth > a.depth {
		a.depth = sa.depth
	}
	if sa.card > a.card {
		a.card = sa.card
	}
	if a.panic == "" {
		a.panic = sa.panic
	}
	acc := "ok"
	if a.panic != "" {
		acc = "panic:" + a.panic
	}
	u := strings.Join(uni, ",")
	if u == "" {
		u = "-"
	}
	return fmt.Sprintf("%s|%s|%s|%s|%s|%s|%s|%d|%d|%s", cmdClass, decClass, data, u, acc, b01(a.zero), b01(a.dyn), a.depth, a.card, b01(a.neg))
}

// ---------------------------------------------------------------- cost shapes

func c11Shape(shape string, n int) (spec string, stream []byte) {
	var sb bytes.Buffer
	switch shape {
	case "search-asc", "search-desc":
		spec = "search"
		sb.WriteString("* SEARCH")
		for i := 0; i < n; i++ {
			k := 2*i + 1
			if shape == "search-desc" {
				k = 2*(n-i) + 1
			}
			fmt.Fprintf(&sb, " %d", k)
		}
		sb.WriteString("\r\n")
	case "esearch-asc", "esearch-desc":
		spec = "uidesearch"
		sb.WriteString("* ESEARCH (TAG \"T1\") UID ALL ")
		for i := 0; i < n; i++ {
			k := 2*i + 1
			if shape == "esearch-desc" {
				k = 2*(n-i) + 1
			}
			if i > 0 {
				sb.WriteByte(',')
			}
			fmt.Fprintf(&sb, "%d", k)
		}
		sb.WriteString("\r\n")
	case "fetch-asc", "fetch-desc":
		spec = "fetch:1:*"
		for i := 0; i < n; i++ {
			k := 2*i + 1
			if shape == "fetch-desc" {
				k = 2*(n-i) + 1
			}
			fmt.Fprintf(&sb, "* %d FETCH (UID %d)\r\n", k, k)
		}
	case "sort-many":
		spec = "sort"
		sb.WriteString("* SORT")
		for i := 0; i < n; i++ {
			fmt.Fprintf(&sb, " %d", n-i)
		}
		sb.WriteString("\r\n")
	case "thread-wide":
		spec = "thread"
		sb.WriteString("* THREAD")
		for i := 0; i < n; i++ {
			fmt.Fprintf(&sb, "(%d %d)", 2*i+1, 2*i+2)
		}
		sb.WriteString("\r\n")
	case "bs-wide":
		spec = "fetch:1:*"
		sb.WriteString("* 1 FETCH (BODYSTRUCTURE (")
		for i := 0; i < n; i++ {
			sb.WriteString(`("text" "plain" ("charset" "utf-8") NIL NIL "7BIT" 12 1)`)
		}
		sb.WriteString(" \"mixed\"))\r\n")
	case "list-many":
		spec = "list"
		for i := 0; i < n; i++ {
			fmt.Fprintf(&sb, "* LIST (\\HasNoChildren) \"/\" \"box%d\"\r\n", i)
		}
	case "literal-big":
		spec = "fetch:1:*"
		fmt.Fprintf(&sb, "* 1 FETCH (BODY[] {%d}\r\n", n*8)
		sb.Write(bytes.Repeat([]byte("abcdefg\n"), n))
		sb.WriteString(")\r\n")
	case "garbage-line":
		spec = "noop"
		sb.WriteString("* OK ")
		sb.Write(bytes.Repeat([]byte("(x) "), n))
		sb.WriteString("\r\n")
	}
	sb.WriteString("T1 OK done\r\n")
	return spec, sb.Bytes()
}

// c11CPU is the CPU time (user+system) this process has used: unlike wall-clock time it does
// not grow when other processes compete for the machine.
func c11CPU() time.Duration {
	var ru syscall.Rusage
	syscall.Getrusage(syscall.RUSAGE_SELF, &ru)
	return time.Duration(ru.Utime.Nano() + ru.Stime.Nano())
}

func c11Measure(spec string, stream []byte, reps int) (best time.Duration, alloc uint64, class string) {
	for i := 0; i < reps; i++ {
		runtime.GC()
		var m0, m1 runtime.MemStats
		runtime.ReadMemStats(&m0)
		t0 := c11CPU()
		obs := c11Run(spec, stream)
		d := c11CPU() - t0
		runtime.ReadMemStats(&m1)
		al := m1.TotalAlloc - m0.TotalAlloc
		if i == 0 || d < best {
			best = d
		}
		if i == 0 || al < alloc {
			alloc = al
		}
		f := strings.SplitN(obs, "|", 3)
		class = f[0] + "/" + f[1]
		if best >= 300*time.Millisecond {
			break // long enough for the noise not to matter
		}
	}
	return
}

func c11Cost(shape string, n int) string {
	s1, st1 := c11Shape(shape, n)
	_, st2 := c11Shape(shape, 2*n)
	t1, a1, c1 := c11Measure(s1, st1, 3)
	t2, a2, c2 := c11Measure(s1, st2, 3)
	return fmt.Sprintf("%d|%d|%d|%d|%d|%d|%s|%s", t1.Microseconds(), t2.Microseconds(), a1, a2, len(st1), len(st2), c1, c2)
}

// c11Suspect mirrors the thresholds of Spec.judgeCost (which decides); it only selects what is
// measured a second time.
func c11Suspect(ans string) bool {
	f := strings.Split(ans, "|")
	if len(f) < 6 {
		return ans == "timeout" || ans == "crash"
	}
	var v [6]uint64
	for i := range v {
		v[i], _ = strconv.ParseUint(f[i], 10, 64)
	}
	t1, t2, a1, a2, l1, l2 := v[0], v[1], v[2], v[3], v[4], v[5]
	return (t2 >= 1000000 && 10*t2 > 32*t1) || a1 > 64*l1+64<<20 || a2 > 64*l2+64<<20
}

func c11Worker(req string) string {
	f := strings.Split(req, "\t")
	if len(f) == 3 && f[0] == "cost" {
		n, _ := strconv.Atoi(f[2])
		return c11Cost(f[1], n)
	}
	if len(f) != 2 {
		return "bad-request"
	}
	return c11Run(f[0], c11Expand(f[1]))
}

// ---------------------------------------------------------------- generators

type c11Case struct {
	kind, spec, tmpl string
	counts           []string
}

type c11Gen struct {
	r   *rng
	tag string
}

var c11Nums = []string{"1", "2", "3", "4", "5", "7", "9", "10", "12", "42", "100", "999", "65535", "2147483647", "2147483648", "4294967294", "4294967295"}
var c11Boundary = []string{"0", "1", "2147483647", "2147483648", "4294967294", "4294967295", "4294967296", "9223372036854775807", "9223372036854775808",
	"18446744073709551615", "18446744073709551616", "100000000000000000000000000000", "-1", "00", "01", "+1", "*", "1:*", "0:5", ""}

func (g *c11Gen) num() string {
	if g.r.chance(1, 12) {
		return pick(g.r, c11Nums)
	}
	return strconv.Itoa(1 + g.r.intn(30))
}

func (g *c11Gen) str(s string) string {
	switch g.r.intn(5) {
	case 0:
		return fmt.Sprintf("{%d}\r\n%s", len(s), s)
	}
	return `"` + strings.ReplaceAll(strings.ReplaceAll(s, `\`, `\\`), `"`, `\"`) + `"`
}

func (g *c11Gen) astr(s string) string {
	if s != "" && !strings.ContainsAny(s, " \"\\(){%*]") && g.r.chance(1, 2) {
		return s
	}
	return g.str(s)
}

func (g *c11Gen) nstr(s string) string {
	if s == "" && g.r.chance(2, 3) {
		return "NIL"
	}
	return g.str(s)
}

var c11Words = []string{"hello", "INBOX", "Sent", "x", "a b", "=?utf-8?q?caf=C3=A9?=", "=?bad?x?", "r&AOk-sum&AOk-", "&bad", "foo/bar", "", "text", "plain", "MESSAGE", "rfc822", "\xff\xfe", "q\"uote", "back\\slash", "<id@host>", "Mon, 7 Feb 1994 21:52:25 -0800"}

func (g *c11Gen) word() string { return pick(g.r, c11Words) }

func (g *c11Gen) set() string {
	n := 1 + g.r.intn(4)
	parts := make([]string, n)
	for i := range parts {
		parts[i] = g.num()
		if g.r.chance(1, 3) {
			parts[i] += ":" + g.num()
		}
	}
	return strings.Join(parts, ",")
}

func (g *c11Gen) search() string {
	s := "* SEARCH"
	for i, n := 0, g.r.intn(8); i < n; i++ {
		s += " " + g.num()
	}
	if g.r.chance(1, 5) {
		s += " (MODSEQ " + g.num() + ")"
	}
	return s + "\r\n"
}

func (g *c11Gen) esearch(uid bool) string {
	s := "* ESEARCH"
	if g.r.chance(5, 6) {
		s += ` (TAG "` + g.tag + `")`
	}
	if uid {
		s += " UID"
	}
	for _, k := range []string{"MIN", "MAX", "COUNT", "ALL", "MODSEQ", "X-EXT"} {
		if !g.r.chance(1, 2) {
			continue
		}
		switch k {
		case "ALL":
			s += " ALL " + g.set()
		case "X-EXT":
			s += " X-EXT " + pick(g.r, []string{"1", "(1 2)", `"q"`, "(a (b c))", "NIL"})
		default:
			s += " " + k + " " + g.num()
		}
	}
	return s + "\r\n"
}

func (g *c11Gen) sortResp() string {
	s := "* SORT"
	for i, n := 0, g.r.intn(8); i < n; i++ {
		s += " " + g.num()
	}
	return s + "\r\n"
}

func (g *c11Gen) threadList(depth int) string {
	s := "("
	n := 1 + g.r.intn(3)
	for i := 0; i < n; i++ {
		if i > 0 {
			s += " "
		}
		s += g.num()
	}
	if depth > 0 {
		for i, k := 0, g.r.intn(3); i < k; i++ {
			if g.r.chance(1, 2) {
				s += " "
			}
			s += g.threadList(depth - 1)
		}
	}
	return s + ")"
}

func (g *c11Gen) thread() string {
	s := "* THREAD"
	for i, n := 0, g.r.intn(3); i < n; i++ {
		if i == 0 || g.r.chance(1, 2) {
			s += " "
		}
		s += g.threadList(2)
	}
	return s + "\r\n"
}

func (g *c11Gen) addr() string {
	return "(" + g.nstr(g.word()) + " NIL " + g.nstr(g.word()) + " " + g.nstr(g.word()) + ")"
}

func (g *c11Gen) addrList() string {
	if g.r.chance(1, 2) {
		return "NIL"
	}
	s := "("
	for i, n := 0, 1+g.r.intn(2); i < n; i++ {
		s += g.addr()
	}
	return s + ")"
}

func (g *c11Gen) envelope() string {
	s := "(" + g.nstr(g.word()) + " " + g.nstr(g.word())
	for i := 0; i < 6; i++ {
		s += " " + g.addrList()
	}
	return s + " " + g.nstr(g.word()) + " " + g.nstr(g.word()) + ")"
}

func (g *c11Gen) params() string {
	if g.r.chance(1, 2) {
		return "NIL"
	}
	s := "("
	for i, n := 0, 1+g.r.intn(2); i < n; i++ {
		if i > 0 {
			s += " "
		}
		s += g.str(pick(g.r, []string{"charset", "NAME", "filename", "boundary"})) + " " + g.str(g.word())
	}
	return s + ")"
}

func (g *c11Gen) dsp() string {
	if g.r.chance(1, 2) {
		return "NIL"
	}
	return "(" + g.str(pick(g.r, []string{"attachment", "inline"})) + " " + g.params() + ")"
}

func (g *c11Gen) lang() string {
	switch g.r.intn(3) {
	case 0:
		return "NIL"
	case 1:
		return g.str("en")
	}
	return "(" + g.str("en") + " " + g.str("fr") + ")"
}

func (g *c11Gen) extTail(s string) string {
	// body-fld-dsp [body-fld-lang [body-fld-loc *(body-extension)]]
	if g.r.chance(2, 3) {
		s += " " + g.dsp()
		if g.r.chance(2, 3) {
			s += " " + g.lang()
			if g.r.chance(2, 3) {
				s += " " + g.nstr(g.word())
				if g.r.chance(1, 3) {
					s += " " + pick(g.r, []string{"1", "(1 (2 3))", `"x"`, "NIL", "()"})
				}
			}
		}
	}
	return s
}

func (g *c11Gen) body(depth int) string {
	if depth > 0 && g.r.chance(1, 3) {
		s := "("
		for i, n := 0, 1+g.r.intn(3); i < n; i++ {
			s += g.body(depth - 1)
		}
		s += " " + g.str(pick(g.r, []string{"mixed", "alternative", "RELATED"}))
		if g.r.chance(1, 2) {
			s = g.extTail(s + " " + g.params())
		}
		return s + ")"
	}
	typ, sub := pick(g.r, []string{"text", "TEXT", "image", "application", "message", "audio"}), pick(g.r, []string{"plain", "html", "png", "rfc822", "RFC822", "global", "octet-stream"})
	size := g.num()
	if g.r.chance(1, 20) {
		size = "-1"
	}
	s := "(" + g.str(typ) + " " + g.str(sub) + " " + g.params() + " " + g.nstr(g.word()) + " " + g.nstr(g.word()) + " " + g.nstr(pick(g.r, []string{"7BIT", "base64", ""})) + " " + size
	isMsg := strings.EqualFold(typ, "message") && (strings.EqualFold(sub, "rfc822") || strings.EqualFold(sub, "global"))
	switch {
	case g.r.chance(1, 8):
		// servers that leave out the type-specific fields
	case isMsg:
		s += " " + g.envelope() + " " + g.body(depth-1) + " " + g.num()
	case strings.EqualFold(typ, "text"):
		s += " " + g.num()
	}
	if g.r.chance(1, 2) {
		s = g.extTail(s + " " + g.nstr("md5"))
	}
	return s + ")"
}

func (g *c11Gen) flags() string {
	n := g.r.intn(4)
	parts := make([]string, n)
	for i := range parts {
		parts[i] = pick(g.r, []string{`\Seen`, `\Deleted`, `\seen`, `$Junk`, `\*`, `custom`, `\Answered`})
	}
	return "(" + strings.Join(parts, " ") + ")"
}

func (g *c11Gen) fetch(seq string, modelled bool) string {
	var atts []string
	for i, n := 0, 1+g.r.intn(4); i < n; i++ {
		k := g.r.intn(12)
		if modelled && k >= 7 {
			k = g.r.intn(7)
		}
		switch k {
		case 0:
			atts = append(atts, "UID "+g.num())
		case 1:
			atts = append(atts, "RFC822.SIZE "+g.num())
		case 2:
			atts = append(atts, "MODSEQ ("+g.num()+")")
		case 3:
			atts = append(atts, "FLAGS "+g.flags())
		case 4:
			atts = append(atts, pick(g.r, []string{"BODYSTRUCTURE ", "BODY "})+g.body(2))
		case 5:
			atts = append(atts, "ENVELOPE "+g.envelope())
		case 6:
			atts = append(atts, "UID "+g.num())
		case 7:
			atts = append(atts, `INTERNALDATE "17-Jul-1996 02:44:25 -0700"`)
		case 8:
			atts = append(atts, "BODY["+pick(g.r, []string{"", "1", "1.2", "HEADER", "1.TEXT", "HEADER.FIELDS (From To)", "TEXT"})+"]"+pick(g.r, []string{"", "<0>"})+" "+g.nstr(g.word()))
		case 9:
			atts = append(atts, "BINARY[1] "+pick(g.r, []string{"~", ""})+g.nstr(g.word()))
		case 10:
			atts = append(atts, "BINARY.SIZE[1] "+g.num())
		case 11:
			atts = append(atts, "X-UNKNOWN 1")
		}
	}
	return "* " + seq + " FETCH (" + strings.Join(atts, " ") + ")\r\n"
}

func (g *c11Gen) mailbox() string {
	return g.astr(pick(g.r, []string{"INBOX", "inbox", "Sent", "r&AOk-sum&AOk-", "&bad", "a/b", "Dest", "x y"}))
}

func (g *c11Gen) list() string {
	s := "* LIST " + strings.ReplaceAll(g.flags(), "$Junk", `\HasChildren`) + " " + pick(g.r, []string{`"/"`, "NIL", `"."`, `"ab"`, `"\\"`}) + " " + g.mailbox()
	if g.r.chance(1, 4) {
		s += ` (` + pick(g.r, []string{`"CHILDINFO" ("SUBSCRIBED")`, `OLDNAME (` + g.mailbox() + `)`, `"X-EXT" (1 (2))`, `CHILDINFO ("SUBSCRIBED") X-Y NIL`}) + ")"
	}
	return s + "\r\n"
}

func (g *c11Gen) status() string {
	var items []string
	for i, n := 0, g.r.intn(5); i < n; i++ {
		k := pick(g.r, []string{"MESSAGES", "UIDNEXT", "UIDVALIDITY", "UNSEEN", "DELETED", "SIZE", "APPENDLIMIT", "DELETED-STORAGE", "HIGHESTMODSEQ", "X-FOO", "messages"})
		v := g.num()
		if k == "APPENDLIMIT" && g.r.chance(1, 2) {
			v = "NIL"
		}
		items = append(items, k+" "+v)
	}
	return "* STATUS " + g.mailbox() + " (" + strings.Join(items, " ") + ")\r\n"
}

func (g *c11Gen) quota() string {
	var items []string
	for i, n := 0, g.r.intn(3); i < n; i++ {
		items = append(items, pick(g.r, []string{"STORAGE", "MESSAGE", "X-R"})+" "+g.num()+" "+g.num())
	}
	return "* QUOTA " + g.astr(pick(g.r, []string{"", "root", "INBOX"})) + " (" + strings.Join(items, " ") + ")\r\n"
}

func (g *c11Gen) quotaRoot() string {
	s := "* QUOTAROOT " + g.mailbox()
	for i, n := 0, g.r.intn(3); i < n; i++ {
		s += " " + g.astr(pick(g.r, []string{"", "root", "INBOX"}))
	}
	return s + "\r\n"
}

func (g *c11Gen) metadata() string {
	if g.r.chance(1, 4) {
		return "* METADATA " + g.mailbox() + " /private/comment /shared/x\r\n"
	}
	var items []string
	for i, n := 0, 1+g.r.intn(2); i < n; i++ {
		items = append(items, g.astr("/private/comment")+" "+g.nstr(g.word()))
	}
	return "* METADATA " + g.mailbox() + " (" + strings.Join(items, " ") + ")\r\n"
}

func (g *c11Gen) nsList() string {
	if g.r.chance(1, 2) {
		return "NIL"
	}
	s := "("
	for i, n := 0, 1+g.r.intn(2); i < n; i++ {
		s += "(" + g.str(pick(g.r, []string{"", "#shared/", "Other/"})) + " " + pick(g.r, []string{`"/"`, "NIL", `"."`})
		if g.r.chance(1, 4) {
			s += ` "X-PARAM" ("FLAG1" "FLAG2")`
		}
		s += ")"
	}
	return s + ")"
}

func (g *c11Gen) namespace() string {
	return "* NAMESPACE " + g.nsList() + " " + g.nsList() + " " + g.nsList() + "\r\n"
}

func (g *c11Gen) code() string {
	switch g.r.intn(14) {
	case 0:
		return "[CAPABILITY IMAP4rev1 IDLE X-FOO] "
	case 1:
		return "[PERMANENTFLAGS " + g.flags() + "] "
	case 2:
		return "[UIDNEXT " + g.num() + "] "
	case 3:
		return "[UIDVALIDITY " + g.num() + "] "
	case 4:
		return "[COPYUID " + g.num() + " " + g.set() + " " + g.set() + "] "
	case 5:
		return "[APPENDUID " + g.num() + " " + g.num() + "] "
	case 6:
		return "[HIGHESTMODSEQ " + g.num() + "] "
	case 7:
		return "[NOMODSEQ] "
	case 8:
		return "[ALERT] "
	case 9:
		return "[X-UNKNOWN a b (c)] "
	case 10:
		return "[CLOSED] "
	case 11:
		return "[READ-WRITE] "
	}
	return ""
}

// noise: responses a server may send at any time
func (g *c11Gen) noise(modelled bool) string {
	k := g.r.intn(12)
	if modelled {
		k = g.r.intn(6)
	}
	switch k {
	case 0:
		return "* " + g.num() + " EXISTS\r\n"
	case 1:
		return "* " + g.num() + " RECENT\r\n"
	case 2:
		return "* " + g.num() + " EXPUNGE\r\n"
	case 3:
		c := g.code()
		if modelled && strings.HasPrefix(c, "[PERMANENTFLAGS") {
			c = ""
		}
		return "* " + pick(g.r, []string{"OK", "NO", "BAD", "OK", "BYE", "PREAUTH"}) + " " + c + pick(g.r, []string{"text", "a [b] c", "x"}) + "\r\n"
	case 4:
		return g.fetch(g.num(), modelled)
	case 5:
		return "* CAPABILITY IMAP4rev1 IDLE\r\n"
	case 6:
		return "* FLAGS " + g.flags() + "\r\n"
	case 7:
		return g.list()
	case 8:
		return g.status()
	case 9:
		return "* ENABLED CONDSTORE\r\n"
	case 10:
		return g.metadata()
	}
	return g.search()
}

var c11Specs = []string{"search", "uidsearch", "esearch", "uidesearch", "sort", "uidsort", "thread", "uidthread", "fetch:1:*", "fetch:1:5", "uidfetch:1:*", "uidfetch:2:9",
	"list", "liststatus", "status", "getquota:root", "getquotaroot", "getmetadata", "namespace", "copy", "uidcopy", "move", "uidmove", "append", "select", "capability", "enable", "noop", "expunge"}

// modelled command kinds (Model/ClientParse.lean delivers data for them)
var c11Modelled = map[string]bool{"search": true, "esearch": true, "sort": true, "thread": true, "fetch": true, "copy": true, "move": true, "append": true, "expunge": true, "noop": true}

func c11Base(spec string) string {
	spec = strings.TrimPrefix(strings.TrimPrefix(strings.TrimPrefix(spec, "raw+"), "noh+"), "sel+")
	if i := strings.IndexByte(spec, ':'); i >= 0 {
		spec = spec[:i]
	}
	return strings.TrimPrefix(spec, "uid")
}

// responses of the command itself
func (g *c11Gen) own(spec string) []string {
	uid := strings.HasPrefix(strings.TrimPrefix(strings.TrimPrefix(spec, "noh+"), "sel+"), "uid")
	var out []string
	switch c11Base(spec) {
	case "search":
		for i, n := 0, 1+g.r.intn(2); i < n; i++ {
			out = append(out, g.search())
		}
		if g.r.chance(1, 6) {
			out = append(out, g.esearch(uid))
		}
	case "esearch":
		out = append(out, g.esearch(uid))
		if g.r.chance(1, 6) {
			out = append(out, g.search())
		}
	case "sort":
		out = append(out, g.sortResp())
	case "thread":
		out = append(out, g.thread())
	case "fetch":
		for i, n := 0, 1+g.r.intn(3); i < n; i++ {
			out = append(out, g.fetch(g.num(), g.r.chance(3, 4)))
		}
	case "list":
		for i, n := 0, 1+g.r.intn(3); i < n; i++ {
			out = append(out, g.list())
		}
	case "liststatus":
		for i, n := 0, 1+g.r.intn(3); i < n; i++ {
			out = append(out, g.list())
			if g.r.chance(2, 3) {
				out = append(out, g.status())
			}
		}
	case "status":
		out = append(out, g.status())
	case "getquota":
		out = append(out, g.quota())
	case "getquotaroot":
		out = append(out, g.quotaRoot(), g.quota())
	case "getmetadata":
		out = append(out, g.metadata())
	case "namespace":
		out = append(out, g.namespace())
	case "select":
		out = append(out, "* "+g.num()+" EXISTS\r\n", "* FLAGS "+g.flags()+"\r\n", "* OK [PERMANENTFLAGS "+g.flags()+"] x\r\n", "* OK [UIDNEXT "+g.num()+"] x\r\n", "* OK [UIDVALIDITY "+g.num()+"] x\r\n", g.list())
	case "capability":
		out = append(out, "* CAPABILITY IMAP4rev1 AUTH=PLAIN APPENDLIMIT=100 QUOTA=RES-STORAGE THREAD=REFS APPENDLIMIT=x\r\n")
	case "enable":
		out = append(out, "* ENABLED CONDSTORE X-A\r\n")
	case "expunge":
		for i, n := 0, g.r.intn(4); i < n; i++ {
			out = append(out, "* "+g.num()+" EXPUNGE\r\n")
		}
	case "move":
		if g.r.chance(2, 3) {
			out = append(out, "* OK [COPYUID "+g.num()+" "+g.set()+" "+g.set()+"] moved\r\n")
		}
		for i, n := 0, g.r.intn(3); i < n; i++ {
			out = append(out, "* "+g.num()+" EXPUNGE\r\n")
		}
	}
	return out
}

func (g *c11Gen) tagged(spec string) string {
	st := pick(g.r, []string{"OK", "OK", "OK", "OK", "OK", "NO", "BAD"})
	code := ""
	switch c11Base(spec) {
	case "copy":
		if g.r.chance(3, 4) {
			code = "[COPYUID " + g.num() + " " + g.set() + " " + g.set() + "] "
		}
	case "append":
		if g.r.chance(3, 4) {
			code = "[APPENDUID " + g.num() + " " + g.num() + "] "
		}
	default:
		if g.r.chance(1, 4) {
			code = g.code()
			if strings.HasPrefix(code, "[PERMANENTFLAGS") {
				code = ""
			}
		}
	}
	text := pick(g.r, []string{"done", "completed [x]", "ok"})
	if code == "" && g.r.chance(1, 10) {
		return g.tag + " " + st + "\r\n"
	}
	return g.tag + " " + st + " " + code + text + "\r\n"
}

func c11Tag(spec string) string {
	if strings.HasPrefix(strings.TrimPrefix(spec, "noh+"), "sel+") {
		return "T2"
	}
	return "T1"
}

// stream returns the response lines for spec: noise, own responses, tagged completion, sometimes a trailer.
func (g *c11Gen) stream(spec string) []string {
	g.tag = c11Tag(spec)
	modelled := c11Modelled[c11Base(spec)]
	var lines []string
	for i, n := 0, g.r.intn(3); i < n; i++ {
		lines = append(lines, g.noise(modelled))
	}
	lines = append(lines, g.own(spec)...)
	if g.r.chance(1, 3) {
		lines = append(lines, g.noise(modelled))
	}
	if !g.r.chance(1, 25) {
		lines = append(lines, g.tagged(spec))
	}
	if g.r.chance(1, 8) || len(lines) == 0 {
		lines = append(lines, g.noise(modelled))
	}
	return lines
}

func (g *c11Gen) spec() string {
	s := pick(g.r, c11Specs)
	if g.r.chance(2, 3) {
		// concentrate on the families where numbers and sets are delivered
		s = pick(g.r, []string{"search", "uidsearch", "esearch", "uidesearch", "sort", "thread", "fetch:1:*", "fetch:1:5", "uidfetch:1:*", "uidfetch:2:9", "copy", "uidcopy", "move", "append", "expunge"})
	}
	if g.r.chance(1, 4) {
		s = "sel+" + s
	}
	if g.r.chance(1, 8) {
		s = "noh+" + s
	}
	return s
}

// --- mutations

func c11Tokens(s string) []string {
	var toks []string
	cur := ""
	flush := func() {
		if cur != "" {
			toks = append(toks, cur)
			cur = ""
		}
	}
	inq := false
	for i := 0; i < len(s); i++ {
		c := s[i]
		if inq {
			cur += string(c)
			if c == '\\' && i+1 < len(s) {
				i++
				cur += string(s[i])
			} else if c == '"' {
				inq = false
				flush()
			}
			continue
		}
		switch c {
		case '"':
			flush()
			cur = `"`
			inq = true
		case ' ', '(', ')', '[', ']', '\r', '\n':
			flush()
			toks = append(toks, string(c))
		default:
			cur += string(c)
		}
	}
	flush()
	return toks
}

var c11Inject = []string{"(", ")", " ", "NIL", "\"\"", "\"x\"", "{3}\r\nabc", "{0}\r\n", "*", "$", "1:*", "\r\n", "\n", "[", "]", "\\", "\"", "{", "}", "~", "+", "BODY[]", "UID", "()", "((", "))", "\x00", "\x80", "\xff"}

func (g *c11Gen) mutateTokens(s string) string {
	toks := c11Tokens(s)
	if len(toks) == 0 {
		return s
	}
	for k, n := 0, 1+g.r.intn(3); k < n; k++ {
		i := g.r.intn(len(toks))
		switch g.r.intn(9) {
		case 0:
			toks = append(toks[:i], toks[i+1:]...)
		case 1:
			toks = append(toks[:i+1], toks[i:]...)
		case 2:
			j := g.r.intn(len(toks))
			toks[i], toks[j] = toks[j], toks[i]
		case 3, 4:
			toks[i] = pick(g.r, c11Boundary)
		case 5, 6:
			toks[i] = pick(g.r, c11Inject)
		case 7:
			toks = append(toks[:i+1], append([]string{pick(g.r, c11Inject)}, toks[i+1:]...)...)
		case 8:
			toks = toks[:i]
		}
		if len(toks) == 0 {
			break
		}
	}
	return strings.Join(toks, "")
}

func (g *c11Gen) mutateBytes(s string) string {
	b := []byte(s)
	for k, n := 0, 1+g.r.intn(3); k < n && len(b) > 0; k++ {
		i := g.r.intn(len(b))
		switch g.r.intn(6) {
		case 0:
			b[i] ^= byte(1 << g.r.intn(8))
		case 1:
			b = append(b[:i], b[i+1:]...)
		case 2:
			b = append(b[:i+1], b[i:]...)
		case 3:
			b[i] = pick(g.r, []byte{0, ' ', '(', ')', '"', '{', '\r', '\n', 0xff, '0', '*', '\\'})
		case 4:
			b = b[:i]
		case 5:
			j := g.r.intn(len(b))
			if j < i {
				i, j = j, i
			}
			b = append(b[:i], b[j:]...)
		}
	}
	return string(b)
}

// replace one number token of the stream by a boundary number
func (g *c11Gen) boundary(s string) string {
	toks := c11Tokens(s)
	var idx []int
	for i, t := range toks {
		if t != "" && t[0] >= '0' && t[0] <= '9' {
			idx = append(idx, i)
		}
	}
	if len(idx) == 0 {
		return s
	}
	i := pick(g.r, idx)
	old := toks[i]
	toks[i] = pick(g.r, c11Boundary)
	if j := strings.IndexAny(old, ":,"); j >= 0 && g.r.chance(1, 2) {
		toks[i] = toks[i] + old[j:]
	}
	return strings.Join(toks, "")
}

// --- targeted: nesting

type c11NestSite struct {
	name, spec          string
	pre, open, mid, cls string
	post                string
}

const c11Env = "(NIL NIL NIL NIL NIL NIL NIL NIL NIL NIL)"

var c11NestSites = []c11NestSite{
	{"bs-mpart", "fetch:1:*", "* 1 FETCH (BODYSTRUCTURE ", "(", `("text" "plain" NIL NIL NIL "7BIT" 1 1)`, ` "mixed")`, ")\r\n"},
	{"bs-mpart-open", "fetch:1:*", "* 1 FETCH (BODYSTRUCTURE ", "(", "", "", "\r\n"},
	{"body-mpart", "uidfetch:1:*", "* 1 FETCH (UID 1 BODY ", "(", `("text" "plain" NIL NIL NIL "7BIT" 1 1)`, ` "mixed")`, ")\r\n"},
	{"bs-ext", "fetch:1:*", `* 1 FETCH (BODYSTRUCTURE ("text" "plain" NIL NIL NIL "7BIT" 1 1 NIL NIL NIL NIL `, "(", "x", ")", "))\r\n"},
	{"bs-rfc822", "fetch:1:*", "* 1 FETCH (BODYSTRUCTURE ", `("message" "rfc822" NIL NIL NIL "7BIT" 1 ` + c11Env + " ", `("text" "plain" NIL NIL NIL "7BIT" 1 1)`, " 1)", ")\r\n"},
	{"thread", "thread", "* THREAD ", "(", "1", ")", "\r\n"},
	{"thread-open", "uidthread", "* THREAD ", "(", "", "", "\r\n"},
	{"thread-chain", "thread", "* THREAD ", "(1 ", "(2)", ")", "\r\n"},
	{"esearch-ext", "esearch", `* ESEARCH (TAG "T1") X-FOO `, "(", "1", ")", "\r\n"},
	{"list-ext", "list", `* LIST () "/" INBOX ("X-EXT" `, "(", "1", ")", ")\r\n"},
	{"status-ext", "status", "* STATUS INBOX (X-FOO ", "(", "1", ")", ")\r\n"},
	{"namespace-ext", "namespace", `* NAMESPACE (("" "/" "X-PARAM" `, "(", `"a"`, ")", ")) NIL NIL\r\n"},
	{"envelope-addr", "fetch:1:*", "* 1 FETCH (ENVELOPE (NIL NIL ", "(", "", ")", " NIL NIL NIL NIL NIL NIL NIL))\r\n"},
}

// --- targeted: malformed literals

type c11LitSite struct{ name, spec, pre, post string }

var c11LitSites = []c11LitSite{
	{"list-mailbox", "list", `* LIST () "/" `, "\r\n"},
	{"status-mailbox", "status", "* STATUS ", " (MESSAGES 1)\r\n"},
	{"bs-type", "fetch:1:*", "* 1 FETCH (BODYSTRUCTURE (", ` "plain" NIL NIL NIL "7BIT" 1 1))` + "\r\n"},
	{"env-subject", "fetch:1:*", "* 1 FETCH (ENVELOPE (NIL ", " NIL NIL NIL NIL NIL NIL NIL NIL))\r\n"},
	{"metadata-value", "getmetadata", "* METADATA INBOX (/private/comment ", ")\r\n"},
	{"quota-root", "getquota:root", "* QUOTA ", " (STORAGE 1 2)\r\n"},
	{"esearch-tag", "esearch", "* ESEARCH (TAG ", ") ALL 1:3\r\n"},
	{"namespace-prefix", "namespace", "* NAMESPACE ((", ` "/")) NIL NIL` + "\r\n"},
	{"fetch-body", "fetch:1:*", "* 1 FETCH (BODY[] ", ")\r\n"},
	{"fetch-binary", "fetch:1:*", "* 1 FETCH (BINARY[1] ~", ")\r\n"},
}

// malformed literal, and whether the stream ends inside it
var c11BadLits = []struct {
	text string
	eof  bool
}{
	{"{-1}\r\n", false}, {"{99999999999999999999}\r\nab", false}, {"{9223372036854775808}\r\nab", false}, {"{5}\r\nab", true}, {"{5}ab123", false},
	{"{}\r\n", false}, {"{+5}\r\nhello", false}, {"{5+}\r\nhello", false}, {"{0x5}\r\nhello", false}, {"{5 }\r\nhello", false},
	{"{9223372036854775807}\r\nab", true}, {"{18446744073709551615}\r\n", false}, {"{9223372036854775808}\r\n", false}, {"{5", true}, {"{5}\r", true}, {"{ 5}\r\nhello", false}, {"{5}\rhello", false},
}

func c11Corpus() []c11Case {
	mk := func(spec string, lines ...string) c11Case {
		return c11Case{kind: "corpus", spec: spec, tmpl: c11Lines(lines)}
	}
	ok := "T1 OK done\r\n"
	return []c11Case{
		mk("search", "* SEARCH 0 3\r\n", ok),            // F17
		mk("uidsearch", "* SEARCH 5 0\r\n", ok),         // F17
		mk("sort", "* SORT 2 0 1\r\n", ok),              // F17
		mk("thread", "* THREAD (1 0 2)\r\n", ok),        // F17
		mk("thread", "* THREAD (1 (2)(0))\r\n", ok),     // F17
		mk("uidfetch:1:*", "* 0 FETCH (UID 5)\r\n", ok), // F17
		mk("fetch:1:*", "* 0 FETCH (UID 5)\r\n", ok),    // F17 (unilateral)
		mk("append", "T1 OK [APPENDUID 7 0] done\r\n"),  // F17
		mk("expunge", "* 0 EXPUNGE\r\n", ok),            // F17
		mk("expunge", "* 0 EXPUNGE\r\n* 0 EXPUNGE\r\n* 0 EXPUNGE\r\n"+strings.Repeat("* 1 EXPUNGE\r\n", 200), ok), // zero ends Collect early, reader blocks
		mk("uidesearch", "* ESEARCH (TAG \"T1\") UID ALL 1:4294967295\r\n", ok),                                   // F25
		mk("esearch", "* ESEARCH (TAG \"T1\") ALL 1:4294967295\r\n", ok),                                          // F25
		mk("uidcopy", "T1 OK [COPYUID 7 1:4294967295 1:4294967295] done\r\n"),                                     // F25
		mk("esearch", "* ESEARCH (TAG \"T1\") ALL 1:*\r\n", ok),                                                   // dynamic
		mk("esearch", "* ESEARCH (TAG \"T1\") ALL $\r\n", ok),                                                     // SEARCHRES marker
		mk("uidesearch", "* ESEARCH (TAG \"T1\") UID ALL 4294967295\r\n", ok),                                     // F04
		mk("uidcopy", "T1 OK [COPYUID 7 1:* 5] done\r\n"),                                                         // dynamic
		mk("uidcopy", "T1 OK [COPYUID 7 0 5] done\r\n"),                                                           // zero
		mk("move", "* OK [COPYUID 7 3:* 5] x\r\n", ok),                                                            // dynamic
		mk("search", "* SEARCH 4294967296\r\n", ok),                                                               // overflow
		mk("fetch:1:*", "* 4294967296 FETCH (UID 1)\r\n", ok),                                                     // overflow
		mk("fetch:1:*", "* 1 FETCH (RFC822.SIZE 9223372036854775808)\r\n", ok),                                    // overflow
		mk("fetch:1:*", "* 1 FETCH (MODSEQ (18446744073709551616))\r\n", ok),                                      // overflow
		mk("fetch:1:*", "* 1 FETCH (UID 1)\r\n* 1 FETCH (UID 2)\r\n", ok),                                         // second one is unilateral
		mk("getquota:root", ok),                        // no QUOTA response: Wait returns nil data
		mk("noop", "+ go ahead\r\n", ok),               // unmatched continuation
		mk("fetch:1:*", "* 1 FETCH (BODY[] {5}\r\nab"), // truncated literal
		mk("fetch:1:*", "* 1 FETCH (BODYSTRUCTURE ((\"a\" \"b\" NIL NIL NIL NIL 1) \"mixed\"))\r\n", ok), // NIL encoding
		mk("liststatus", "* STATUS INBOX (MESSAGES 1)\r\n* LIST () \"/\" INBOX\r\n* STATUS INBOX (MESSAGES 1)\r\n", ok),
		mk("fetch:1:*", "* 1 FETCH (BODY[] NIL)\r\n", ok),                                   // NIL section: Collect read from a nil reader
		mk("fetch:1:*", "* 1 FETCH (BINARY[1] NIL BODY[TEXT] {2}\r\nhi)\r\n", ok),           // NIL section before a literal
		mk("noop", "* 1 FETCH (BODY[] NIL UID 5)\r\n", ok),                                  // the same, unilateral
		mk("noh+noop", "* 1 FETCH (BODY[] NIL UID 5)\r\n* 2 FETCH (BINARY[1] NIL)\r\n", ok), // the same, discarded by the library itself
		mk("noh+fetch:1:*", "* 1 FETCH (UID 1)\r\n* 1 FETCH (BODY[] NIL)\r\n", ok),
		mk("fetch:1:*", "* 1 FETCH (RFC822.SIZE 18446744073709551615)\r\n", ok), // 64-bit numbers beyond 2^63-1
		mk("noop", "* 1 FETCH (RFC822.SIZE 9223372036854775808)\r\n", ok),
		mk("fetch:1:*", "* 1 FETCH (BODYSTRUCTURE (\"text\" \"plain\" NIL NIL NIL \"7BIT\" 1 18446744073709551615))\r\n", ok),
		mk("status", "* STATUS INBOX (SIZE 18446744073709551615 DELETED-STORAGE 9223372036854775808)\r\n", ok),
		mk("getquota:root", "* QUOTA root (STORAGE 18446744073709551615 9223372036854775808)\r\n", ok),
		mk("fetch:1:*", "* 1 FETCH (BODY[] {18446744073709551615}\r\n)\r\n", ok),
		mk("sel+expunge", "* 1 EXPUNGE\r\n* 1 EXPUNGE\r\n* 1 EXPUNGE\r\n* 1 EXPUNGE\r\n* OK [CLOSED] x\r\n* 1 EXPUNGE\r\n", "T2 OK done\r\n"),
	}
}

// c11Generate builds the cases of a run (deterministic in the seed).
func c11Generate(tier string, seed uint64) (cases []c11Case, costs [][2]string) {
	nGen, nMut, nNum, nRaw := 2200, 3600, 1500, 300
	deep := []int{300000}
	switch tier {
	case "thorough":
		nGen, nMut, nNum, nRaw = 100000, 220000, 70000, 10000
		deep = []int{20000, 300000, 1000000}
	case "widen":
		nGen, nMut, nNum, nRaw = 12000, 30000, 12000, 2000
	case "smoke":
		nGen, nMut, nNum, nRaw = 100, 200, 100, 30
		deep = nil
	}
	r := newRng(seed, "C11")
	g := &c11Gen{r: r}
	cases = append(cases, c11Corpus()...)
	for i := 0; i < nGen; i++ {
		spec := g.spec()
		cases = append(cases, c11Case{kind: "gen", spec: spec, tmpl: c11Lines(g.stream(spec)), counts: []string{"gen:" + c11Base(spec)}})
	}
	for i := 0; i < nMut; i++ {
		spec := g.spec()
		lines := g.stream(spec)
		how := "tokens"
		switch g.r.intn(5) {
		case 0, 1:
			j := g.r.intn(len(lines))
			lines[j] = g.mutateTokens(lines[j])
		case 2:
			j := g.r.intn(len(lines))
			lines[j] = g.mutateBytes(lines[j])
			how = "bytes"
		case 3:
			lines = []string{g.mutateBytes(strings.Join(lines, ""))}
			how = "bytes-across-lines"
		case 4:
			lines = []string{g.mutateTokens(strings.Join(lines, ""))}
			how = "tokens-across-lines"
		}
		cases = append(cases, c11Case{kind: "mut", spec: spec, tmpl: c11Lines(lines), counts: []string{"mut:" + how, "mut:" + c11Base(spec)}})
	}
	for i := 0; i < nNum; i++ {
		spec := g.spec()
		lines := g.stream(spec)
		j := g.r.intn(len(lines))
		lines[j] = g.boundary(lines[j])
		cases = append(cases, c11Case{kind: "num", spec: spec, tmpl: c11Lines(lines), counts: []string{"num:" + c11Base(spec)}})
	}
	// nesting at every place a list is read
	for _, s := range c11NestSites {
		depths := []int{1, 2, 500, 996, 997, 998, 999, 1000, 1001, 1002, 1500}
		if s.name != "bs-rfc822" {
			depths = append(depths, deep...)
		} else {
			depths = append(depths, 30000)
		}
		for _, n := range depths {
			tag := "T1"
			t := c11T(c11H(s.pre), c11R(n, s.open), c11H(s.mid), c11R(n, s.cls), c11H(s.post), c11H(tag+" OK done\r\n"))
			cases = append(cases, c11Case{kind: "nest", spec: s.spec, tmpl: t, counts: []string{"nest:" + s.name, fmt.Sprintf("nest:depth=%d", n)}})
		}
	}
	// malformed literals wherever a string is read
	for _, s := range c11LitSites {
		for _, l := range c11BadLits {
			segs := []string{c11H(s.pre + l.text)}
			if !l.eof {
				segs = append(segs, c11H(s.post), c11H("T1 OK done\r\n"))
			}
			cases = append(cases, c11Case{kind: "lit", spec: s.spec, tmpl: c11T(segs...), counts: []string{"lit:" + s.name}})
		}
		// and a well-formed one, for contrast
		cases = append(cases, c11Case{kind: "lit", spec: s.spec, tmpl: c11T(c11H(s.pre+"{5}\r\nhello"), c11H(s.post), c11H("T1 OK done\r\n")), counts: []string{"lit:wellformed"}})
	}
	// raw garbage, greeting included
	for i := 0; i < nRaw; i++ {
		var b []byte
		switch g.r.intn(4) {
		case 0:
			n := g.r.intn(200)
			b = make([]byte, n)
			for j := range b {
				b[j] = byte(g.r.intn(256))
			}
		case 1:
			b = []byte(g.mutateBytes(c11Greeting + strings.Join(g.stream("noop"), "")))
		case 2:
			for j, n := 0, g.r.intn(40); j < n; j++ {
				b = append(b, pick(g.r, c11Inject)...)
				if g.r.chance(1, 3) {
					b = append(b, pick(g.r, c11Boundary)...)
				}
			}
		case 3:
			b = []byte(g.mutateTokens("* " + pick(g.r, []string{"OK", "PREAUTH", "BYE", "NO"}) + " " + g.code() + "hi\r\n" + strings.Join(g.stream("noop"), "")))
		}
		cases = append(cases, c11Case{kind: "raw", spec: "raw+noop", tmpl: c11T(c11H(string(b))), counts: []string{"raw"}})
	}
	// descending numbers (F27) need ~1 MB before the quadratic term shows; the other shapes stay small
	costs = [][2]string{{"search-desc", "80000"}, {"search-asc", "20000"}, {"esearch-asc", "20000"}, {"fetch-asc", "12000"},
		{"sort-many", "30000"}, {"thread-wide", "20000"}, {"bs-wide", "3000"}, {"list-many", "5000"}, {"literal-big", "40000"}, {"garbage-line", "40000"}}
	if tier == "thorough" || tier == "widen" {
		costs = append(costs, [2]string{"search-desc", "160000"}, [2]string{"fetch-desc", "100000"}, [2]string{"esearch-desc", "160000"}, [2]string{"bs-wide", "30000"},
			[2]string{"search-asc", "160000"}, [2]string{"thread-wide", "100000"})
	}
	return
}

func c11RunCases(e *emitter, cases []c11Case, timeout time.Duration) {
	nw := runtime.NumCPU()
	if nw > 8 {
		nw = 8
	}
	if nw > len(cases) {
		nw = 1
	}
	res := make([]string, len(cases))
	var wg sync.WaitGroup
	chunk := (len(cases) + nw - 1) / nw
	for w := 0; w < nw; w++ {
		lo, hi := w*chunk, (w+1)*chunk
		if hi > len(cases) {
			hi = len(cases)
		}
		if lo >= hi {
			continue
		}
		wg.Add(1)
		go func(lo, hi int) {
			defer wg.Done()
			pool := &workerPool{name: "c11", timeout: timeout, memMB: 3072, maxBad: 40}
			reqs := make([]string, hi-lo)
			for i := lo; i < hi; i++ {
				reqs[i-lo] = cases[i].spec + "\t" + cases[i].tmpl
			}
			copy(res[lo:hi], pool.run(reqs))
		}(lo, hi)
	}
	wg.Wait()
	for i, c := range cases {
		e.emit(c.kind, c.spec, c.tmpl, res[i])
		for _, k := range c.counts {
			e.count(k)
		}
		e.count("kind:" + c.kind)
	}
}

func genC11(e *emitter, tier string, seed uint64) {
	cases, costs := c11Generate(tier, seed)
	// The cost measurements run next to the streams. Their verdict is coarse enough for the
	// noise this adds (see Spec: doubled input must take >= 1 s and > 3.2x as long).
	reqs := make([]string, len(costs))
	for i, c := range costs {
		reqs[i] = "cost\t" + c[0] + "\t" + c[1]
	}
	var ans []string
	done := make(chan struct{})
	go func() {
		defer close(done)
		pool := &workerPool{name: "c11", timeout: 120 * time.Second, memMB: 3072, maxBad: 20}
		ans = pool.run(reqs)
	}()
	c11RunCases(e, cases, 30*time.Second)
	<-done
	// a measurement that looks super-linear is taken again, alone, before it counts
	for i := range costs {
		if c11Suspect(ans[i]) {
			pool := &workerPool{name: "c11", timeout: 240 * time.Second, memMB: 3072}
			ans[i] = pool.run([]string{reqs[i]})[0]
			e.count("cost:remeasured-alone")
		}
	}
	for i, c := range costs {
		e.emit("cost", c[0], c[1], ans[i])
		e.count("cost:" + c[0])
	}
}

func replayC11(e *emitter, kind string, f []string) {
	if len(f) < 2 {
		return
	}
	pool := &workerPool{name: "c11", timeout: 90 * time.Second, memMB: 3072}
	if kind == "cost" {
		e.emit("cost", f[0], f[1], pool.run([]string{"cost\t" + f[0] + "\t" + f[1]})[0])
		return
	}
	e.emit(kind, f[0], f[1], pool.run([]string{f[0] + "\t" + f[1]})[0])
}

var _ = io.EOF
