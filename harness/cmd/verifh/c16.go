//go:build c16 || allprops

package main

import (
	"fmt"
	"strconv"
	"strings"
	"unicode/utf8"

	"github.com/emersion/go-imap/v2/internal/utf7"
	"golang.org/x/text/transform"
)

// C16 — modified UTF-7: one-shot String API and explicit Transform calls.

func init() {
	props["C16"] = genC16
	replayers["C16"] = replayC16
}

func c16Enc(e *emitter, s string) {
	impl := func() (res string) {
		defer func() {
			if r := recover(); r != nil {
				res = "panic"
			}
		}()
		out, err := utf7.Encoding.NewEncoder().String(s)
		if err != nil {
			return "err"
		}
		return "ok:" + hx([]byte(out))
	}()
	e.emit("enc", hx([]byte(s)), impl)
}

func c16Dec(e *emitter, s string) {
	impl := func() (res string) {
		defer func() {
			if r := recover(); r != nil {
				res = "panic"
			}
		}()
		out, err := utf7.Encoding.NewDecoder().String(s)
		if err != nil {
			return "err"
		}
		if !utf8.ValidString(out) {
			return "invalidutf8"
		}
		var parts []string
		for _, r := range out {
			parts = append(parts, strconv.Itoa(int(r)))
		}
		return "ok:" + strings.Join(parts, ",")
	}()
	e.emit("dec", hx([]byte(s)), impl)
}

// c16Stream drives a Transformer by explicit calls following the transform.Transformer
// contract; sched supplies (bytes to reveal, dst capacity) pairs.
func c16Stream(e *emitter, kind string, t transform.Transformer, src []byte, sched []int) {
	var calls, results []string
	final := "stuck"
	func() {
		defer func() {
			if r := recover(); r != nil {
				final = "panic"
			}
		}()
		pos, avail, si := 0, 0, 0
		lastCap, noProgress := 0, false
		next := func(def int) int {
			if si < len(sched) {
				si++
				return sched[si-1]
			}
			return def
		}
		needMore := false
		for step := 0; step < 400; step++ {
			k := next(len(src))
			if (needMore || pos == avail) && k == 0 {
				k = 1
			}
			avail += k
			if avail > len(src) {
				avail = len(src)
			}
			capN := next(64)
			if capN < 1 {
				capN = 1
			}
			if noProgress && capN <= lastCap {
				capN = lastCap * 2
			}
			eof := avail == len(src)
			dst := make([]byte, capN)
			nDst, nSrc, err := t.Transform(dst, src[pos:avail], eof)
			es := "nil"
			switch err {
			case nil:
			case transform.ErrShortDst:
				es = "shortdst"
			case transform.ErrShortSrc:
				es = "shortsrc"
			default:
				es = "invalid"
			}
			calls = append(calls, fmt.Sprintf("%d,%d,%d,%s", pos, avail, capN, b01(eof)))
			results = append(results, fmt.Sprintf("%d,%d,%s,%s", nDst, nSrc, es, hx(dst[:nDst])))
			pos += nSrc
			lastCap = capN
			noProgress = es == "shortdst" && nDst == 0 && nSrc == 0
			needMore = es == "shortsrc"
			if es == "invalid" {
				final = "invalid"
				return
			}
			if es == "nil" && eof {
				final = "done"
				return
			}
			if es == "shortsrc" && eof {
				return // contract violation: stuck
			}
		}
	}()
	e.emit(kind, hx(src), strings.Join(calls, ";"), strings.Join(results, ";"), final)
}

var c16EncAlphabet = []string{"A", "&", "-", ",", "~", "\x01", "\x7f", "é", "€", "😀"}
var c16DecAlphabet = []string{"&", "-", "A", "B", "/", "+", ",", "=", "a", "\r", "\x80"}

func c16All(alpha []string, maxLen int, f func(string)) {
	var rec func(prefix string, n int)
	rec = func(prefix string, n int) {
		f(prefix)
		if n == 0 {
			return
		}
		for _, a := range alpha {
			rec(prefix+a, n-1)
		}
	}
	rec("", maxLen)
}

var c16Runes = []rune{'a', 'Z', ' ', '~', '&', '-', ',', '+', '/', 0, 1, 0x1f, 0x7f, 0x80, 0xe9, 0x7ff, 0x800, 0x20ac, 0xd7ff, 0xe000, 0xfffd, 0xffff, 0x10000, 0x1f600, 0x10ffff, 0x263a}

func c16RandString(r *rng, n int) string {
	var sb strings.Builder
	for i := 0; i < n; i++ {
		sb.WriteRune(pick(r, c16Runes))
	}
	return sb.String()
}

var c16DecCorpus = []string{"&Jjo-", "&Jjo-&Jjo-", "&2D0-", "&AGE-", "&AOkA6Q-", "&AAB-", "a&-b", "&", "&-", "&A", "&AA", "&AA-", "&AAA-", "&AAAA-", "&AAAAA-",
	"&AAAAAA-", "&2D3eAA-", "&3gDYPQ-", "&2D3YPQ-", "&Jjo=-", "&Jjo!-", "&Jj\no-", "&Jj\ro-", "\x7f", "\x1f", "é", "&-&-", "&Jjo-&-&Jjo-", "&Jjo-a&Jjo-", "&,,8-", "&//8-", "&AOk", "&AOk-&", "~", "&AH4-"}

func c16Mutate(r *rng, s string) string {
	junk := []string{"&", "-", "=", "\r", "\n", "A", "/", ",", "\x80", "\x00", "&-", "-&"}
	b := s
	for k := 1 + r.intn(2); k > 0; k-- {
		pos := r.intn(len(b) + 1)
		switch r.intn(3) {
		case 0:
			b = b[:pos] + pick(r, junk) + b[pos:]
		case 1:
			if pos < len(b) {
				b = b[:pos] + b[pos+1:]
			}
		case 2:
			if pos < len(b) {
				b = b[:pos] + pick(r, junk) + b[pos+1:]
			}
		}
	}
	return b
}

func genC16(e *emitter, tier string, seed uint64) {
	encLen, decLen, nRand, nStream := 4, 4, 20000, 6000
	switch tier {
	case "thorough":
		encLen, decLen, nRand, nStream = 5, 6, 500000, 200000
	case "widen":
		encLen, decLen, nRand, nStream = 4, 5, 200000, 60000
	}
	for _, s := range c16DecCorpus {
		c16Dec(e, s)
	}
	c16All(c16EncAlphabet, encLen, func(s string) { c16Enc(e, s); e.count("enc:exhaustive") })
	c16All(c16DecAlphabet, decLen, func(s string) { c16Dec(e, s); e.count("dec:exhaustive") })
	r := newRng(seed, "C16")
	for i := 0; i < nRand; i++ {
		s := c16RandString(r, r.intn(12))
		c16Enc(e, s)
		e.count("enc:random")
		enc, _ := utf7.Encoding.NewEncoder().String(s)
		switch r.intn(3) {
		case 0:
			c16Dec(e, enc)
			e.count("dec:valid")
		default:
			c16Dec(e, c16Mutate(r, enc))
			e.count("dec:mutated")
		}
		if i%50 == 0 { // invalid UTF-8 to the encoder: outside the property, reported separately
			b := []byte(s)
			if len(b) > 0 {
				b[r.intn(len(b))] = byte(0x80 + r.intn(0x80))
			}
			c16Enc(e, string(b))
			e.count("enc:invalid-utf8")
		}
	}
	// long names through the one-shot API: transform.String works with 128-byte chunks, so only
	// names beyond that size exercise the ErrShortDst / ErrShortSrc paths of the library's own loop
	for i := 0; i < nRand/20; i++ {
		var sb strings.Builder
		for sb.Len() < 100+r.intn(400) {
			switch r.intn(4) {
			case 0:
				sb.WriteString(strings.Repeat("a", 1+r.intn(130)))
			case 1:
				sb.WriteString(c16RandString(r, 1+r.intn(6)))
			case 2:
				sb.WriteString(strings.Repeat(string(pick(r, []rune{0xe9, 0x20ac, 0x1f600, '&'})), 1+r.intn(70)))
			default:
				sb.WriteString("&")
			}
		}
		s := sb.String()
		c16Enc(e, s)
		e.count("enc:long")
		enc, _ := utf7.Encoding.NewEncoder().String(s)
		if r.chance(1, 2) {
			c16Dec(e, enc)
		} else {
			c16Dec(e, c16Mutate(r, enc))
		}
		e.count("dec:long")
	}
	// streaming: all (reveal, cap) schedules are drawn from 1..8 (plus 0 reveals)
	for i := 0; i < nStream; i++ {
		s := c16RandString(r, 1+r.intn(6))
		enc, _ := utf7.Encoding.NewEncoder().String(s)
		src := enc
		if r.chance(1, 3) {
			src = c16Mutate(r, enc)
		} else if r.chance(1, 8) {
			src = pick(r, c16DecCorpus)
		}
		sched := make([]int, 60)
		for j := range sched {
			if j%2 == 0 {
				sched[j] = r.intn(5) // reveal
			} else {
				sched[j] = 1 + r.intn(8) // dst capacity
			}
		}
		c16Stream(e, "dect", utf7.Encoding.NewDecoder().Transformer, []byte(src), sched)
		e.count("dect")
		c16Stream(e, "enct", utf7.Encoding.NewEncoder().Transformer, []byte(s), sched)
		e.count("enct")
	}
	// every split point of the corpus with ample destination
	for _, s := range c16DecCorpus {
		for cut := 0; cut <= len(s); cut++ {
			c16Stream(e, "dect", utf7.Encoding.NewDecoder().Transformer, []byte(s), []int{cut, 64, len(s), 64})
			e.count("dect:split")
		}
	}
}

func replayC16(e *emitter, kind string, f []string) {
	switch kind {
	case "enc":
		c16Enc(e, string(unhx(f[0])))
	case "dec":
		c16Dec(e, string(unhx(f[0])))
	case "dect", "enct":
		// rebuild the schedule from the recorded calls
		var sched []int
		prevAvail := 0
		if f[1] != "" {
			for _, c := range strings.Split(f[1], ";") {
				p := strings.Split(c, ",")
				avail, _ := strconv.Atoi(p[1])
				capN, _ := strconv.Atoi(p[2])
				sched = append(sched, avail-prevAvail, capN)
				prevAvail = avail
			}
		}
		if kind == "dect" {
			c16Stream(e, kind, utf7.Encoding.NewDecoder().Transformer, unhx(f[0]), sched)
		} else {
			c16Stream(e, kind, utf7.Encoding.NewEncoder().Transformer, unhx(f[0]), sched)
		}
	}
}
