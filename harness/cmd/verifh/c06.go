//go:build c06 || allprops

package main

import (
	"fmt"
	"os"
	"runtime"
	"runtime/debug"
	"strconv"
	"strings"
	"time"
)

// C06 — the server survives arbitrary input and disconnects, cleaning up exactly once.
//
//	cut    every transcript of a corpus, cut at every octet offset, then the client closes
//	gone   the client end is closed before the server writes its greeting
//	gen    grammar-generated command sequences (the C04 generator), played faithfully
//	mut    the same, with octet-level mutations, framed by sfParse and played faithfully
//	junk   raw garbage
//	depth  "(" / "NOT " / "OR " nested n deep, in a child process with a 16 MiB stack limit
//	leak   one line per run: goroutines and tracked connections after everything was closed

func init() {
	props["C06"] = genC06
	replayers["C06"] = replayC06
	workers["c06depth"] = c06DepthWorker
}

// transcripts that are valid from the first to the last octet (multi-command, pipelined)
var c06Corpus = []string{
	"a LOGIN u p\r\nb SELECT INBOX\r\nc NOOP\r\nd LOGOUT\r\n",
	"a LOGIN \"us er\" \"p\\\"w\"\r\nb CREATE \"m b\"\r\nc DELETE \"m b\"\r\n",
	"a LOGIN {1}\r\nu {1}\r\np\r\nb NOOP\r\n",
	"a LOGIN {1+}\r\nu {2+}\r\npw\r\nb NOOP\r\n",
	"a LOGIN {0}\r\n {0+}\r\n\r\nb CAPABILITY\r\n",
	"a LOGIN u p\r\nb RENAME {3}\r\nold {3+}\r\nnew\r\nc SUBSCRIBE new\r\nd UNSUBSCRIBE new\r\n",
	"a LOGIN u p\r\nb APPEND INBOX {11}\r\nhello world\r\nc NOOP\r\n",
	"a LOGIN u p\r\nb APPEND INBOX (\\Seen) {11+}\r\nhello world\r\nc NOOP\r\n",
	"a LOGIN u p\r\nb APPEND {5}\r\nINBOX (\\Seen \\Deleted) {3}\r\nabc\r\nc APPEND INBOX {0}\r\n\r\n",
	"a LOGIN u p\r\nb APPEND INBOX {26}\r\n\r\nz LOGIN u p\r\nx DELETE y\r\n\r\nc NOOP\r\n",
	"a AUTHENTICATE PLAIN\r\nAHUAcA==\r\nb SELECT INBOX\r\nc CLOSE\r\n",
	"a AUTHENTICATE PLAIN AHUAcA==\r\nb NOOP\r\n",
	"a AUTHENTICATE PLAIN\r\n*\r\nb LOGIN u p\r\n",
	"a LOGIN u p\r\nb IDLE\r\nDONE\r\nc NOOP\r\n",
	"a LOGIN u p\r\nb SELECT INBOX\r\nc IDLE\r\nDONE\r\nd UNSELECT\r\ne IDLE\r\nDONE\r\n",
	"a LOGIN u p\r\nb SELECT INBOX\r\nc SEARCH ALL\r\nd SEARCH NOT SEEN\r\ne UID SEARCH OR SEEN (DELETED NOT NEW)\r\n",
	"a LOGIN u p\r\nb SELECT INBOX\r\nc SEARCH SUBJECT {3}\r\nabc TEXT \"x y\"\r\nd SEARCH RETURN (MIN MAX) ALL\r\n",
	"a LOGIN u p\r\nb LIST \"\" *\r\nc LIST \"\" {1}\r\n%\r\nd LSUB \"\" \"*\"\r\ne STATUS INBOX (MESSAGES UNSEEN)\r\n",
	"a LOGIN u p\r\nb SELECT INBOX\r\nc FETCH 1:* (FLAGS UID BODY[HEADER.FIELDS (Subject From)])\r\nd STORE 1 +FLAGS (\\Seen)\r\ne EXPUNGE\r\n",
	"a LOGIN u p\r\nb SELECT INBOX\r\nc COPY 1:2 {4}\r\ndest\r\nd MOVE 1 dest\r\ne UID COPY 1 dest\r\nf UID EXPUNGE 1:5\r\n",
	"a LOGIN u p\r\nb ENABLE IMAP4rev2 UTF8=ACCEPT\r\nc NAMESPACE\r\nd UNAUTHENTICATE\r\ne LOGIN u p\r\n",
	"a NOOP\r\nb CAPABILITY\r\nc STARTTLS\r\nd LOGIN u p\r\ne CHECK\r\n",
	"a LOGIN u p\r\nb EXAMINE INBOX\r\nc SELECT other\r\nd CLOSE\r\ne LOGOUT\r\n",
	"a FOO\r\n",
	"a LOGIN u p\r\nb FOO bar\r\nc UID FOO\r\nd NOOP\r\n",
	"a LOGIN u p\r\nb CREATE {8+}\r\nmail&AOk- (USE (\\Sent))\r\nc CREATE plain\r\n",
	"a LOGIN u p\r\nb DELETE &AOk-\r\nc DELETE &\r\nd NOOP\r\n",
	"a LOGIN {4096}\r\n" + strings.Repeat("u", 4096) + " p\r\nb NOOP\r\n",
	"a LOGIN {4097}\r\nb NOOP\r\n",
	"a LOGIN u p\r\nb APPEND INBOX {104857601}\r\nc NOOP\r\n",
	"a LOGIN u {5000+}\r\n",
	"a LOGIN u p\r\nb NOOP {3+}\r\n",
	"a LOGIN u p\r\nb NOOP {3}\r\nc NOOP\r\n",
	"a LOGIN u p\r\nb SELECT INBOX\r\nc SEARCH ((((ALL))))\r\nd SEARCH NOT NOT NOT ALL\r\n",
	"a LOGIN u p\r\nb IDLE\r\nnope\r\nc IDLE\r\n" + strings.Repeat("D", 4100) + "\r\nd NOOP\r\n",
	"a AUTHENTICATE PLAIN\r\n" + strings.Repeat("A", 4200) + "\r\nb AUTHENTICATE PLAIN\r\n!!\r\nc AUTHENTICATE LOGIN\r\n",
	"a LOGIN u p\r\nb SELECT INBOX\r\nc FETCH 1 BODY[TEXT]<0.10>\r\nd FETCH 1 (BINARY.PEEK[1] BINARY.SIZE[1])\r\ne STORE 1 FLAGS.SILENT ()\r\n",
	"a LOGIN u p\r\nb LIST (SUBSCRIBED) \"\" (\"a\" b) RETURN (CHILDREN STATUS (MESSAGES))\r\nc SEARCH CHARSET UTF-8 BODY x\r\n",
	"a LOGIN u p\r\nb APPEND INBOX \"01-Jan-2020 00:00:00 +0000\" {1}\r\nx\r\nc APPEND INBOX (\\Seen) \" 1-Jan-2020 00:00:00 +0000\" ~{1+}\r\nx\r\n",
	"a LOGIN u p\r\nb APPEND INBOX UTF8 (~{1}\r\nx)\r\nc NOOP\r\n",
}

type c06Pool struct {
	envs map[string]chan *sfEnv
	all  []*sfEnv
}

func newC06Pool(per int) *c06Pool {
	p := &c06Pool{envs: map[string]chan *sfEnv{}}
	for _, l := range []string{"minus", "plus", "none", "minus/af", "plus/af"} {
		for _, pa := range []bool{false, true} {
			ch := make(chan *sfEnv, per)
			for i := 0; i < per; i++ {
				env := newSfEnv(l, pa)
				p.all = append(p.all, env)
				ch <- env
			}
			p.envs[l+b01(pa)] = ch
		}
	}
	return p
}

func (p *c06Pool) with(lit string, preauth bool, f func(env *sfEnv) sfObs) sfObs {
	ch := p.envs[lit+b01(preauth)]
	env := <-ch
	o := f(env)
	ch <- env
	return o
}

// fields: lit preauth cut delivered trace end calls closes panics drained maxArg idleLeft
func c06Fields(lit string, preauth bool, cut int, o sfObs) []string {
	return []string{lit, b01(preauth), strconv.Itoa(cut), hx(o.delivered), o.trace, o.end, o.calls,
		strconv.Itoa(o.closes), strconv.Itoa(o.panics), b01(o.drained), strconv.Itoa(o.maxArg), strconv.Itoa(o.idleLeft)}
}

func c06Mutate(r *rng, b []byte) []byte {
	b = append([]byte(nil), b...)
	tokens := []string{"\r\n", "\n", "\r", " ", "(", ")", "{", "}", "{5}\r\n", "{5+}\r\n", "\"", "\\", "*", "+", "~", "NIL", "\x00", "\xff", "&", "[", "]", "<", ">", "DONE\r\n", "{4097}\r\n", "{18446744073709551616}\r\n", "{-1}\r\n"}
	for i, n := 0, 1+r.intn(4); i < n && len(b) > 0; i++ {
		at := r.intn(len(b))
		switch r.intn(7) {
		case 0:
			b[at] = byte(r.intn(256))
		case 1:
			b = append(b[:at], b[at+1:]...)
		case 2:
			t := pick(r, tokens)
			b = append(b[:at], append([]byte(t), b[at:]...)...)
		case 3:
			to := at + r.intn(len(b)-at)
			b = append(b[:at], b[to:]...)
		case 4:
			span := len(b) - at
			if span > 64 {
				span = 64
			}
			to := at + r.intn(1+span)
			b = append(b[:to], append(append([]byte(nil), b[at:to]...), b[to:]...)...)
		case 5:
			b = b[:at]
		default:
			b[at] ^= 1 << uint(r.intn(8))
		}
	}
	return b
}

func c06Junk(r *rng) []byte {
	n := 1 + r.intn(300)
	b := make([]byte, 0, n)
	switch r.intn(3) {
	case 0:
		for len(b) < n {
			b = append(b, byte(r.intn(256)))
		}
	case 1:
		for len(b) < n {
			b = append(b, byte(32+r.intn(95)))
			if r.chance(1, 20) {
				b = append(b, '\r', '\n')
			}
		}
	default:
		soup := []string{"a ", "b1 ", "LOGIN ", "SEARCH ", "FETCH ", "APPEND ", "IDLE", "AUTHENTICATE PLAIN", "UID ", "NOT ", "OR ", "(", ")", "{3}\r\n", "{3+}\r\n", "abc", "\"q\"", "\r\n", "\r\n", " ", "1:*", "INBOX", "DONE\r\n", "*", "~", "\\Seen", "BODY[", "]", "<1.2>", "RETURN ", "NIL", "\x80"}
		for len(b) < n {
			b = append(b, pick(r, soup)...)
		}
	}
	return b
}

// ---- depth probes (child process) ---------------------------------------------------------------

func c06DepthInput(shape string, n int) []byte {
	var sb strings.Builder
	sb.WriteString("d SEARCH ")
	switch shape {
	case "paren":
		sb.WriteString(strings.Repeat("(", n) + "ALL" + strings.Repeat(")", n))
	case "not":
		sb.WriteString(strings.Repeat("NOT ", n) + "ALL")
	case "or":
		sb.WriteString(strings.Repeat("OR ", n) + "ALL" + strings.Repeat(" ALL", n))
	case "notparen":
		sb.WriteString(strings.Repeat("NOT (", n) + "ALL" + strings.Repeat(")", n))
	case "notlistnot": // n NOTs, one list, n more NOTs: the two limits must not multiply
		sb.WriteString(strings.Repeat("NOT ", n) + "(" + strings.Repeat("NOT ", n) + "ALL)")
	case "orlistor":
		sb.WriteString(strings.Repeat("OR ALL ", n) + "(" + strings.Repeat("OR ALL ", n) + "ALL)")
	case "notlists": // 3 lists, n NOTs in front of and inside each
		sb.WriteString(strings.Repeat(strings.Repeat("NOT ", n)+"(", 3) + strings.Repeat("NOT ", n) + "ALL)))")
	}
	sb.WriteString("\r\n")
	return []byte(sb.String())
}

// the child answers "<shape> <n>" with the status of the probe's tagged reply
func c06DepthWorker() {
	debug.SetMaxStack(16 << 20)
	env := newSfEnv("minus", true)
	workerLoop(func(req string) string {
		f := strings.Fields(req)
		n, _ := strconv.Atoi(f[1])
		sc := env.dial()
		sc.write([]byte("s SELECT m\r\n"))
		sc.settle()
		sc.trace = nil
		sc.write(c06DepthInput(f[0], n))
		out := sc.settle()
		o := sc.observe()
		res := "noreply"
		for _, l := range strings.Split(string(out), "\r\n") {
			if w := strings.Fields(l); len(w) >= 2 && w[0] == "d" {
				res = w[1]
			}
		}
		return fmt.Sprintf("%s %d %d %s", res, o.closes, o.panics, b01(o.drained))
	})
}

func genC06(e *emitter, tier string, seed uint64) {
	nGen, nMut, nJunk, stride := 500, 700, 500, 1
	switch tier {
	case "thorough":
		nGen, nMut, nJunk = 20000, 40000, 20000
	case "widen":
		nGen, nMut, nJunk = 4000, 6000, 3000
	}
	baseG := runtime.NumGoroutine()
	pool := newC06Pool(3)
	baseWithEnvs := runtime.NumGoroutine()
	lits := []string{"minus", "plus", "none"}

	// (a) every transcript cut at every offset
	type cutJob struct {
		lit  string
		cmds []sfCmd
		pipe bool
		k    int
	}
	var jobs []cutJob
	for i, s := range c06Corpus {
		lit := lits[i%3]
		cmds, pipe := sfParse([]byte(s)), i%2 == 0
		full := pool.with(lit, false, func(env *sfEnv) sfObs { return sfRun(env, cmds, pipe) })
		e.emit("gen", c06Fields(lit, false, len(full.delivered), full)...)
		d := full.delivered
		st := stride
		if len(d) > 600 {
			st = 1 // every offset of the command text, a stride inside long payloads
		}
		for k := 0; k < len(d); k += st {
			if len(d) > 600 && k > 80 && k < len(d)-80 && k%97 != 0 {
				continue
			}
			jobs = append(jobs, cutJob{lit, cmds, pipe, k})
		}
		e.count(fmt.Sprintf("script:%d", i))
	}
	parCases(e, len(jobs), func(i int) []caseLine {
		j := jobs[i]
		o := pool.with(j.lit, false, func(env *sfEnv) sfObs { return sfRunCut(env, j.cmds, j.pipe, j.k) })
		return []caseLine{{kind: "cut", fields: c06Fields(j.lit, false, j.k, o), counts: []string{"cut"}}}
	})

	// (a') the peer is gone before the greeting can be written
	for i := 0; i < 24; i++ {
		lit := lits[i%3]
		o := pool.with(lit, i%2 == 1, func(env *sfEnv) sfObs { return env.dialGone().observe() })
		e.emit("gone", c06Fields(lit, i%2 == 1, 0, o)...)
		e.count("gone")
	}

	// (b) generated, mutated, garbage
	base := newRng(seed, "C06")
	n := nGen + nMut + nJunk
	seeds := make([]uint64, n)
	for i := range seeds {
		seeds[i] = base.next()
	}
	parCases(e, n, func(i int) []caseLine {
		g := &sfGen{r: &rng{s: seeds[i]}}
		lit := lits[g.r.intn(3)]
		if lit != "none" && g.r.chance(1, 6) {
			lit += "/af"
		}
		preauth := g.r.chance(1, 3)
		kind := "gen"
		var cmds []sfCmd
		switch {
		case i < nGen:
			cmds = g.stream()
		case i < nGen+nMut:
			kind = "mut"
			var raw []byte
			for _, c := range g.stream() {
				raw = append(raw, c.bytes()...)
			}
			if len(raw) > 3000 { // keep mutated streams short: drop the bulk of long payloads
				raw = append(raw[:1500], raw[len(raw)-1500:]...)
			}
			cmds = sfParse(c06Mutate(g.r, raw))
		default:
			kind = "junk"
			cmds = sfParse(c06Junk(g.r))
		}
		o := pool.with(lit, preauth, func(env *sfEnv) sfObs { return sfRun(env, cmds, g.r.chance(1, 2)) })
		return []caseLine{{kind: kind, fields: c06Fields(lit, preauth, len(o.delivered), o), counts: []string{"kind:" + kind, "lit:" + lit}}}
	})

	// (c) depth probes in a crash-isolating child
	var reqs []string
	for _, shape := range []string{"paren", "not", "or", "notparen"} {
		for _, n := range []int{999, 1000, 1001, 100000} {
			reqs = append(reqs, fmt.Sprintf("%s %d", shape, n))
		}
	}
	for _, shape := range []string{"notlistnot", "orlistor"} {
		for _, n := range []int{499, 500, 501, 700, 999} {
			reqs = append(reqs, fmt.Sprintf("%s %d", shape, n))
		}
	}
	for _, n := range []int{249, 250, 251, 400, 999} {
		reqs = append(reqs, fmt.Sprintf("notlists %d", n))
	}
	wp := &workerPool{name: "c06depth", timeout: 60 * time.Second}
	for i, ans := range wp.run(reqs) {
		f := strings.Fields(reqs[i])
		a := strings.Fields(ans)
		for len(a) < 4 {
			a = append(a, "-")
		}
		e.emit("depth", f[0], f[1], a[0], a[1], a[2], a[3])
		e.count("depth:" + f[0])
	}

	// (d) nothing is left behind
	for _, env := range pool.all {
		env.awaitDrained()
	}
	conns := 0
	for _, env := range pool.all {
		conns += env.srv.VerifNumConns()
	}
	excess := awaitGoroutines(baseWithEnvs)
	e.emit("leak", strconv.Itoa(baseG), strconv.Itoa(baseWithEnvs), strconv.Itoa(excess), strconv.Itoa(conns))
}

func replayC06(e *emitter, kind string, f []string) {
	switch kind {
	case "depth":
		wp := &workerPool{name: "c06depth", timeout: 60 * time.Second}
		a := strings.Fields(wp.run([]string{f[0] + " " + f[1]})[0])
		for len(a) < 4 {
			a = append(a, "-")
		}
		e.emit("depth", f[0], f[1], a[0], a[1], a[2], a[3])
	case "leak":
		fmt.Fprintln(os.Stderr, "the leak line summarises a whole run; re-run ./check C06")
		e.emit("leak", f...)
	case "gone":
		env := newSfEnv(f[0], f[1] == "1")
		defer env.close()
		e.emit("gone", c06Fields(f[0], f[1] == "1", 0, env.dialGone().observe())...)
	default:
		// lit preauth cut delivered …: the delivered octets are replayed as they are
		env := newSfEnv(f[0], f[1] == "1")
		defer env.close()
		o := sfRunRaw(env, unhx(f[3]))
		e.emit(kind, c06Fields(f[0], f[1] == "1", len(o.delivered), o)...)
	}
}
