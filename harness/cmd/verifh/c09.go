//go:build c09 || allprops

package main

import (
	"fmt"
	"os"
	"sort"
	"strconv"
	"strings"
	"sync"
	"time"

	"github.com/emersion/go-imap/v2"
	"github.com/emersion/go-imap/v2/imapserver"
	"github.com/emersion/go-imap/v2/imapserver/imapmemserver"
	"github.com/emersion/go-imap/v2/internal/imapwire"
)

// C09 — the in-memory backend obeys IMAP mailbox semantics (reference model).
//
// A case is a whole command history: op tokens (the input) and, per command, the canonicalised
// response of the real server (imapserver.New + imapmemserver sessions over the in-memory listener).
// Commands are issued one at a time on 1–2 raw connections; responses are parsed by the small
// tokenizer below (not imapclient). The wire text of a command is derived from its token by
// c09Wire, so a recorded case replays from its tokens alone.

func init() {
	props["C09"] = genC09
	replayers["C09"] = replayC09
}

// ---------------------------------------------------------------------------------------------
// environment

type c09Env struct {
	srv   *imapserver.Server
	ln    *memListener
	mu    sync.Mutex
	logs  []string
	conns []*rawClient
	n     int
}

func (e *c09Env) Printf(format string, args ...interface{}) {
	e.mu.Lock()
	e.logs = append(e.logs, fmt.Sprintf(format, args...))
	e.mu.Unlock()
}

func (e *c09Env) panicked() bool {
	e.mu.Lock()
	defer e.mu.Unlock()
	for _, l := range e.logs {
		if strings.Contains(l, "panic") {
			return true
		}
	}
	return false
}

func c09NewEnv(nconn int) *c09Env {
	env := &c09Env{ln: newMemListener()}
	mem := imapmemserver.New()
	u := imapmemserver.NewUser("u", "p")
	u.Create("INBOX", nil)
	mem.AddUser(u)
	env.srv = imapserver.New(&imapserver.Options{
		NewSession: func(c *imapserver.Conn) (imapserver.Session, *imapserver.GreetingData, error) {
			return mem.NewSession(), nil, nil
		},
		Caps:         imap.CapSet{imap.CapIMAP4rev1: {}, imap.CapIMAP4rev2: {}},
		InsecureAuth: true,
		Logger:       env,
	})
	go env.srv.Serve(env.ln)
	for i := 0; i < nconn; i++ {
		rc := newRawClient(env.ln.dial())
		rc.readLine()
		rc.cmd("l", "LOGIN u p")
		env.conns = append(env.conns, rc)
	}
	return env
}

func (e *c09Env) close() {
	for _, rc := range e.conns {
		rc.c.Close()
	}
	e.srv.Close()
}

// ---------------------------------------------------------------------------------------------
// token -> wire

func c09Str(h string) string { return string(unhx(h)) }

func c09Quote(s string) string {
	return `"` + strings.ReplaceAll(strings.ReplaceAll(s, `\`, `\\`), `"`, `\"`) + `"`
}

func c09List(s string) []string {
	if s == "_" {
		return nil
	}
	return strings.Split(s, ",")
}

// "1-3,5-5,7-0" -> "1:3,5,7:*"
func c09SetWire(s string) string {
	var out []string
	for _, it := range strings.Split(s, ",") {
		ab := strings.Split(it, "-")
		conv := func(x string) string {
			if x == "0" {
				return "*"
			}
			return x
		}
		if ab[0] == ab[1] {
			out = append(out, conv(ab[0]))
		} else {
			out = append(out, conv(ab[0])+":"+conv(ab[1]))
		}
	}
	return strings.Join(out, ",")
}

func c09DateWire(secs string) string {
	v, _ := strconv.ParseInt(secs, 10, 64)
	return time.Unix(v-goZeroUnix, 0).UTC().Format("2-Jan-2006")
}

func c09FlagsWire(s string) string {
	var fl []string
	for _, h := range c09List(s) {
		fl = append(fl, c09Str(h))
	}
	return strings.Join(fl, " ")
}

// search key tokens (the C19 key grammar) -> wire text; returns the remaining tokens
func c09KeyWire(t []string) (string, []string) {
	if len(t) == 0 {
		return "ALL", nil
	}
	k, rest := t[0], t[1:]
	switch k {
	case "A":
		return "ALL", rest
	case "N":
		return "NEW", rest
	case "O":
		return "OLD", rest
	case "n":
		s, r := c09KeyWire(rest)
		return "NOT " + s, r
	case "o":
		a, r := c09KeyWire(rest)
		b, r2 := c09KeyWire(r)
		return "OR " + a + " " + b, r2
	case "(":
		var parts []string
		for len(rest) > 0 && rest[0] != ")" {
			var s string
			s, rest = c09KeyWire(rest)
			parts = append(parts, s)
		}
		if len(rest) > 0 {
			rest = rest[1:]
		}
		return "(" + strings.Join(parts, " ") + ")", rest
	}
	arg := k[1:]
	switch k[0] {
	case 'q':
		return c09SetWire(arg), rest
	case 'u':
		return "UID " + c09SetWire(arg), rest
	case 'f', 'F':
		name := c09Str(arg)
		un := ""
		if k[0] == 'F' {
			un = "UN"
		}
		if strings.HasPrefix(name, `\`) {
			return un + strings.ToUpper(name[1:]), rest
		}
		return un + "KEYWORD " + name, rest
	case 'h':
		kv := strings.Split(arg, ":")
		switch k := c09Str(kv[0]); k {
		case "From", "To", "Cc", "Bcc", "Subject": // what the server turns FROM/TO/CC/BCC/SUBJECT into
			return strings.ToUpper(k) + " " + c09Quote(c09Str(kv[1])), rest
		}
		return "HEADER " + c09Quote(c09Str(kv[0])) + " " + c09Quote(c09Str(kv[1])), rest
	case 's':
		return "SINCE " + c09DateWire(arg), rest
	case 'b':
		return "BEFORE " + c09DateWire(arg), rest
	case 'd':
		return "ON " + c09DateWire(arg), rest
	case 'S':
		return "SENTSINCE " + c09DateWire(arg), rest
	case 'B':
		return "SENTBEFORE " + c09DateWire(arg), rest
	case 'D':
		return "SENTON " + c09DateWire(arg), rest
	case 'y':
		return "BODY " + c09Quote(c09Str(arg)), rest
	case 't':
		return "TEXT " + c09Quote(c09Str(arg)), rest
	case 'l':
		return "LARGER " + arg, rest
	case 'm':
		return "SMALLER " + arg, rest
	}
	return "ALL", rest
}

func c09FetchItemWire(it string) string {
	switch it {
	case "FLAGS", "UID", "FAST", "ALL", "FULL", "RFC822", "RFC822.HEADER", "RFC822.TEXT":
		return it
	case "BS":
		return "BODYSTRUCTURE"
	case "BD":
		return "BODY"
	case "ENV":
		return "ENVELOPE"
	case "SIZE":
		return "RFC822.SIZE"
	case "DATE":
		return "INTERNALDATE"
	}
	// B<peek>/<part>/<spec>/<fields>/<partial>
	f := strings.Split(it[1:], "/")
	s := "BODY"
	if f[0] == "1" {
		s = "BODY.PEEK"
	}
	s += "["
	inner := ""
	if f[1] != "-" {
		inner = f[1]
	}
	spec := ""
	switch f[2] {
	case "H":
		spec = "HEADER"
	case "T":
		spec = "TEXT"
	case "M":
		spec = "MIME"
	}
	if f[3] != "-" {
		var hs []string
		for _, h := range strings.Split(f[3][1:], "+") {
			hs = append(hs, c09Str(h))
		}
		if f[3][0] == 'n' {
			spec = "HEADER.FIELDS.NOT (" + strings.Join(hs, " ") + ")"
		} else {
			spec = "HEADER.FIELDS (" + strings.Join(hs, " ") + ")"
		}
	}
	if inner != "" && spec != "" {
		inner += "."
	}
	s += inner + spec + "]"
	if f[4] != "-" {
		s += "<" + f[4] + ">"
	}
	return s
}

// c09MsgBytes builds the literal of an APPEND from its parts.
func c09MsgBytes(hdrs, body string) []byte {
	var sb strings.Builder
	for _, kv := range c09List(hdrs) {
		p := strings.Split(kv, ":")
		sb.WriteString(c09Str(p[0]) + ": " + c09Str(p[1]) + "\r\n")
	}
	sb.WriteString("\r\n")
	sb.WriteString(c09Str(body))
	return []byte(sb.String())
}

// c09Wire renders one op token ("c1 NAME args...") as the command text after the tag.
func c09Wire(tok string) (conn int, text string) {
	w := strings.Fields(tok)
	conn, _ = strconv.Atoi(w[0][1:])
	a := w[2:]
	mb := func(h string) string { return c09Quote(c09Str(h)) }
	uid := func(u string) string {
		if u == "u" {
			return "UID "
		}
		return ""
	}
	switch w[1] {
	case "CREATE", "DELETE", "SELECT", "EXAMINE":
		return conn, w[1] + " " + mb(a[0])
	case "SUB":
		return conn, "SUBSCRIBE " + mb(a[0])
	case "UNSUB":
		return conn, "UNSUBSCRIBE " + mb(a[0])
	case "RENAME":
		return conn, "RENAME " + mb(a[0]) + " " + mb(a[1])
	case "CLOSE", "UNSELECT", "NOOP", "EXPUNGE":
		return conn, w[1]
	case "LIST":
		s := "LIST "
		if a[0] == "1" {
			s += "(SUBSCRIBED) "
		}
		s += mb(a[1]) + " "
		var ps []string
		for _, p := range c09List(a[3]) {
			ps = append(ps, c09Quote(c09Str(p)))
		}
		if a[2] == "1" {
			s += "(" + strings.Join(ps, " ") + ")"
		} else if len(ps) > 0 {
			s += ps[0]
		} else {
			s += `""`
		}
		if a[4] != "_" {
			s += " RETURN (STATUS (" + strings.Join(c09List(a[4]), " ") + "))"
		}
		return conn, s
	case "STATUS":
		return conn, "STATUS " + mb(a[0]) + " (" + strings.Join(c09List(a[1]), " ") + ")"
	case "APPEND":
		s := "APPEND " + mb(a[0])
		if a[1] != "_" {
			s += " (" + c09FlagsWire(a[1]) + ")"
		}
		if a[2] != "_" {
			p := strings.Split(a[2], "/")
			l, _ := strconv.ParseInt(p[0], 10, 64)
			z, _ := strconv.Atoi(p[1])
			t := time.Unix(l-goZeroUnix-int64(z), 0).In(time.FixedZone("", z))
			s += " " + c09Quote(t.Format("_2-Jan-2006 15:04:05 -0700"))
		}
		lit := c09MsgBytes(a[3], a[4])
		return conn, s + fmt.Sprintf(" {%d+}\r\n%s", len(lit), lit)
	case "STORE":
		item := map[string]string{"set": "FLAGS", "add": "+FLAGS", "del": "-FLAGS"}[a[2]]
		if a[3] == "1" {
			item += ".SILENT"
		}
		return conn, uid(a[0]) + "STORE " + c09SetWire(a[1]) + " " + item + " (" + c09FlagsWire(a[4]) + ")"
	case "COPY", "MOVE":
		return conn, uid(a[0]) + w[1] + " " + c09SetWire(a[1]) + " " + mb(a[2])
	case "UIDEXPUNGE":
		return conn, "UID EXPUNGE " + c09SetWire(a[0])
	case "SEARCH":
		s := uid(a[0]) + "SEARCH "
		if a[1] != "_" {
			var opts []string
			for _, c := range a[1] {
				switch c {
				case 'n':
					opts = append(opts, "MIN")
				case 'x':
					opts = append(opts, "MAX")
				case 'a':
					opts = append(opts, "ALL")
				case 'c':
					opts = append(opts, "COUNT")
				}
			}
			s += "RETURN (" + strings.Join(opts, " ") + ") "
		}
		rest := a[2:]
		var keys []string
		for len(rest) > 0 {
			var k string
			k, rest = c09KeyWire(rest)
			keys = append(keys, k)
		}
		return conn, s + strings.Join(keys, " ")
	case "FETCH":
		var items []string
		for _, it := range a[2:] {
			items = append(items, c09FetchItemWire(it))
		}
		s := uid(a[0]) + "FETCH " + c09SetWire(a[1]) + " "
		if len(items) == 1 && (items[0] == "FAST" || items[0] == "ALL" || items[0] == "FULL") {
			return conn, s + items[0]
		}
		return conn, s + "(" + strings.Join(items, " ") + ")"
	}
	return conn, "NOOP"
}

// ---------------------------------------------------------------------------------------------
// response reader and tokenizer (independent of imapclient)

// c09Line is one response line; literal payloads are lifted out and replaced by \x00<idx>\x00.
type c09Line struct {
	text string
	lits []string
}

func c09ReadLine(rc *rawClient) (c09Line, error) {
	var l c09Line
	for {
		seg, err := rc.br.ReadString('\n')
		if err != nil {
			return l, err
		}
		seg = strings.TrimRight(seg, "\r\n")
		if strings.HasSuffix(seg, "}") {
			if i := strings.LastIndexByte(seg, '{'); i >= 0 {
				if n, err := strconv.Atoi(seg[i+1 : len(seg)-1]); err == nil {
					buf := make([]byte, n)
					for got := 0; got < n; {
						k, err := rc.br.Read(buf[got:])
						if err != nil {
							return l, err
						}
						got += k
					}
					l.text += seg[:i] + fmt.Sprintf("\x00%d\x00", len(l.lits))
					l.lits = append(l.lits, string(buf))
					continue
				}
			}
		}
		l.text += seg
		return l, nil
	}
}

type c09Val struct {
	kind byte // 'a' atom, 's' string, 'l' list
	s    string
	list []c09Val
}

type c09Parser struct {
	s     string
	i     int
	lits  []string
	depth int
	bad   bool // a list or quoted string is not closed, or a ")" has no "("
}

func (p *c09Parser) vals() []c09Val {
	var out []c09Val
	mine := p.depth
	for p.i < len(p.s) {
		c := p.s[p.i]
		switch {
		case c == ' ':
			p.i++
		case c == ')':
			p.i++
			if mine == 0 {
				p.bad = true
				continue
			}
			return out
		case c == '(':
			p.i++
			p.depth++
			l := p.vals()
			p.depth--
			out = append(out, c09Val{kind: 'l', list: l})
		case c == '"':
			p.i++
			var sb strings.Builder
			for p.i < len(p.s) && p.s[p.i] != '"' {
				if p.s[p.i] == '\\' && p.i+1 < len(p.s) {
					p.i++
				}
				sb.WriteByte(p.s[p.i])
				p.i++
			}
			if p.i >= len(p.s) {
				p.bad = true
			}
			p.i++
			out = append(out, c09Val{kind: 's', s: sb.String()})
		case c == 0:
			j := strings.IndexByte(p.s[p.i+1:], 0)
			idx, _ := strconv.Atoi(p.s[p.i+1 : p.i+1+j])
			p.i += j + 2
			out = append(out, c09Val{kind: 's', s: p.lits[idx]})
		default:
			st := p.i
			depth := 0
			for p.i < len(p.s) {
				ch := p.s[p.i]
				if ch == '[' {
					depth++
				} else if ch == ']' && depth > 0 {
					depth--
				} else if depth == 0 && (ch == ' ' || ch == '(' || ch == ')' || ch == 0) {
					break
				}
				p.i++
			}
			out = append(out, c09Val{kind: 'a', s: p.s[st:p.i]})
		}
	}
	if mine > 0 {
		p.bad = true
	}
	return out
}

func c09Nums(set string) string {
	// expand "1:3,5" -> "1.2.3.5"
	if set == "" {
		return "-"
	}
	var out []string
	for _, it := range strings.Split(set, ",") {
		ab := strings.Split(it, ":")
		a, err := strconv.Atoi(ab[0])
		if err != nil {
			return "?"
		}
		b := a
		if len(ab) == 2 {
			if b, err = strconv.Atoi(ab[1]); err != nil {
				return "?"
			}
		}
		if a > b {
			a, b = b, a
		}
		if b-a > 100000 {
			return "?"
		}
		for x := a; x <= b; x++ {
			out = append(out, strconv.Itoa(x))
		}
	}
	return strings.Join(out, ".")
}

func c09Flags(v c09Val) string {
	if v.kind != 'l' {
		return "?"
	}
	var fl []string
	for _, f := range v.list {
		fl = append(fl, hx([]byte(f.s)))
	}
	if len(fl) == 0 {
		return "-"
	}
	sort.Strings(fl)
	return strings.Join(fl, "+")
}

func c09IsNum(s string) bool {
	_, err := strconv.ParseUint(s, 10, 64)
	return err == nil
}

// c09Section canonicalises "BODY[...]<o>" to <part>/<spec>/<fields>/<origin>
func c09Section(name string) string {
	i := strings.IndexByte(name, '[')
	j := strings.LastIndexByte(name, ']')
	if i < 0 || j < i {
		return "?"
	}
	inner, tail := name[i+1:j], name[j+1:]
	origin := "-"
	if strings.HasPrefix(tail, "<") && strings.HasSuffix(tail, ">") {
		origin = tail[1 : len(tail)-1]
	} else if tail != "" {
		return "?"
	}
	k := 0
	for k < len(inner) && (inner[k] == '.' || (inner[k] >= '0' && inner[k] <= '9')) {
		k++
	}
	part := strings.TrimSuffix(inner[:k], ".")
	rest := inner[k:]
	if part == "" {
		part = "-"
	}
	spec, fields := "-", "-"
	switch {
	case rest == "":
	case rest == "HEADER":
		spec = "H"
	case rest == "TEXT":
		spec = "T"
	case rest == "MIME":
		spec = "M"
	case strings.HasPrefix(rest, "HEADER.FIELDS"):
		spec = "H"
		kind := "f"
		r := strings.TrimPrefix(rest, "HEADER.FIELDS")
		if strings.HasPrefix(r, ".NOT") {
			kind = "n"
			r = strings.TrimPrefix(r, ".NOT")
		}
		p := &c09Parser{s: strings.TrimSpace(r)}
		vs := p.vals()
		if len(vs) != 1 || vs[0].kind != 'l' {
			return "?"
		}
		var hs []string
		for _, h := range vs[0].list {
			hs = append(hs, hx([]byte(h.s)))
		}
		fields = kind + strings.Join(hs, "+")
	default:
		return "?"
	}
	return part + "/" + spec + "/" + fields + "/" + origin
}

func c09FetchItem(seq string, v c09Val) string {
	if v.kind != 'l' || len(v.list)%2 != 0 {
		return "?fetch"
	}
	var atts []string
	for i := 0; i+1 < len(v.list); i += 2 {
		name, val := v.list[i].s, v.list[i+1]
		switch {
		case name == "UID":
			atts = append(atts, "u"+val.s)
		case name == "FLAGS":
			atts = append(atts, "f"+c09Flags(val))
		case name == "RFC822.SIZE":
			atts = append(atts, "s"+val.s)
		case name == "INTERNALDATE":
			t, err := time.Parse("_2-Jan-2006 15:04:05 -0700", val.s)
			if err != nil {
				atts = append(atts, "d?")
			} else if d := time.Since(t); d > -48*time.Hour && d < 48*time.Hour { // appended without a date: time.Now()
				atts = append(atts, "dnow")
			} else {
				_, off := t.Zone()
				atts = append(atts, fmt.Sprintf("d%d/%d", t.Unix()+goZeroUnix+int64(off), off))
			}
		case name == "RFC822" || name == "RFC822.HEADER" || name == "RFC822.TEXT":
			atts = append(atts, "r"+name+"="+hx([]byte(val.s)))
		case name == "ENVELOPE" || name == "BODYSTRUCTURE" || name == "BODY":
			// derived by go-message: outside the reference model (parsed above for completeness only)
		case strings.HasPrefix(name, "BODY["):
			atts = append(atts, "b"+c09Section(name)+"="+hx([]byte(val.s)))
		default:
			atts = append(atts, "?"+hx([]byte(name)))
		}
	}
	sort.Strings(atts)
	return "F" + seq + "(" + strings.Join(atts, ",") + ")"
}

// c09Code canonicalises the bracketed response code of a status response.
func c09Code(rest string) string {
	if !strings.HasPrefix(rest, "[") {
		return ""
	}
	j := strings.IndexByte(rest, ']')
	if j < 0 {
		return "?"
	}
	f := strings.Fields(rest[1:j])
	if len(f) == 0 {
		return "?"
	}
	switch f[0] {
	case "APPENDUID":
		if len(f) == 3 && c09IsNum(f[1]) && c09IsNum(f[2]) {
			return "APPENDUID/" + f[1] + "/" + f[2]
		}
		return "?"
	case "COPYUID":
		if len(f) == 4 && c09IsNum(f[1]) && c09Nums(f[2]) != "?" && c09Nums(f[3]) != "?" {
			return "COPYUID/" + f[1] + "/" + c09Nums(f[2]) + "/" + c09Nums(f[3])
		}
		return "?"
	}
	if len(f) == 1 {
		return f[0]
	}
	return "?"
}

func c09Untagged(l c09Line) string {
	p := &c09Parser{s: l.text, lits: l.lits}
	unknown := "?" + hx([]byte(l.text))
	// status responses carry free text: handle before tokenizing
	if strings.HasPrefix(l.text, "* OK ") {
		rest := l.text[5:]
		if !strings.HasPrefix(rest, "[") {
			return unknown
		}
		j := strings.IndexByte(rest, ']')
		if j < 0 {
			return unknown
		}
		inner := rest[1:j]
		switch {
		case strings.HasPrefix(inner, "UIDVALIDITY ") && c09IsNum(inner[12:]):
			return "V" + inner[12:]
		case strings.HasPrefix(inner, "UIDNEXT ") && c09IsNum(inner[8:]):
			return "N" + inner[8:]
		case inner == "CLOSED":
			return "K"
		case strings.HasPrefix(inner, "PERMANENTFLAGS "):
			q := &c09Parser{s: inner[15:]}
			vs := q.vals()
			if len(vs) == 1 {
				return "P" + c09Flags(vs[0])
			}
		case strings.HasPrefix(inner, "COPYUID "):
			if c := c09Code(rest); c != "?" {
				return "C" + strings.TrimPrefix(c, "COPYUID/")
			}
		}
		return unknown
	}
	v := p.vals()
	if p.bad {
		return "!" + hx([]byte(l.text)) // an incomplete response line
	}
	if len(v) < 2 || v[0].s != "*" {
		return unknown
	}
	switch {
	case len(v) == 3 && c09IsNum(v[1].s) && v[2].s == "EXISTS":
		return "X" + v[1].s
	case len(v) == 3 && c09IsNum(v[1].s) && v[2].s == "RECENT":
		return "Q" + v[1].s
	case len(v) == 3 && c09IsNum(v[1].s) && v[2].s == "EXPUNGE":
		return "E" + v[1].s
	case len(v) == 4 && c09IsNum(v[1].s) && v[2].s == "FETCH":
		return c09FetchItem(v[1].s, v[3])
	case v[1].s == "SEARCH":
		var ns []string
		for _, x := range v[2:] {
			if !c09IsNum(x.s) {
				return unknown
			}
			ns = append(ns, x.s)
		}
		if len(ns) == 0 {
			return "S-"
		}
		return "S" + strings.Join(ns, ".")
	case v[1].s == "ESEARCH":
		kind, all, mn, mx, cnt := "s", "-", "-", "-", "-"
		i := 2
		if i < len(v) && v[i].kind == 'l' {
			i++
		}
		for i < len(v) {
			switch {
			case v[i].s == "UID":
				kind = "u"
				i++
			case i+1 < len(v) && v[i].s == "ALL":
				all = c09Nums(v[i+1].s)
				i += 2
			case i+1 < len(v) && v[i].s == "MIN":
				mn = v[i+1].s
				i += 2
			case i+1 < len(v) && v[i].s == "MAX":
				mx = v[i+1].s
				i += 2
			case i+1 < len(v) && v[i].s == "COUNT":
				cnt = v[i+1].s
				i += 2
			default:
				return unknown
			}
		}
		return "R" + kind + "/" + all + "/" + mn + "/" + mx + "/" + cnt
	case v[1].s == "LIST" && len(v) == 5 && v[3].s == "/":
		var at []string
		for _, a := range v[2].list {
			at = append(at, hx([]byte(a.s)))
		}
		sort.Strings(at)
		as := "-"
		if len(at) > 0 {
			as = strings.Join(at, "+")
		}
		return "L" + as + "/" + hx([]byte(v[4].s))
	case v[1].s == "STATUS" && len(v) == 4 && v[3].kind == 'l' && len(v[3].list)%2 == 0:
		var kv []string
		for i := 0; i+1 < len(v[3].list); i += 2 {
			kv = append(kv, v[3].list[i].s+"="+v[3].list[i+1].s)
		}
		sort.Strings(kv)
		ks := "-"
		if len(kv) > 0 {
			ks = strings.Join(kv, ",")
		}
		return "T" + hx([]byte(v[2].s)) + "/" + ks
	case v[1].s == "FLAGS" && len(v) == 3:
		return "G" + c09Flags(v[2])
	}
	return unknown
}

// c09Exec issues one command and returns the canonical response.
func c09Exec(env *c09Env, tok string) string {
	conn, text := c09Wire(tok)
	rc := env.conns[conn-1]
	env.n++
	tag := fmt.Sprintf("t%d", env.n)
	rc.c.SetReadDeadline(time.Now().Add(60 * time.Second)) // healthy replies take well under a millisecond; generous because an expiry counts as a crash
	rc.send(tag + " " + text + "\r\n")
	var items []string
	for {
		l, err := c09ReadLine(rc)
		if err != nil {
			if os.Getenv("C09_DEBUG") != "" {
				env.mu.Lock()
				for _, lg := range env.logs {
					if len(lg) > 700 {
						lg = lg[:700]
					}
					fmt.Fprintln(os.Stderr, "server log:", lg)
				}
				env.mu.Unlock()
			}
			return "PANIC"
		}
		if strings.HasPrefix(l.text, tag+" ") {
			f := strings.SplitN(l.text, " ", 3)
			st := f[1]
			rest := ""
			if len(f) == 3 {
				rest = f[2]
			}
			if st != "OK" && st != "NO" && st != "BAD" {
				st = "?" + st
			}
			if c := c09Code(rest); c != "" {
				st += ":" + c
			}
			if strings.Fields(tok)[1] == "LIST" {
				sort.Strings(items)
			}
			if env.panicked() {
				return "PANIC"
			}
			return strings.Join(append([]string{st}, items...), "|")
		}
		items = append(items, c09Untagged(l))
	}
}

// c09Run executes a history on a fresh server; it stops after a crashed connection.
func c09Run(nconn int, ops []string) caseLine {
	env := c09NewEnv(nconn)
	defer env.close()
	var obs []string
	for _, op := range ops {
		r := c09Exec(env, op)
		obs = append(obs, r)
		if r == "PANIC" {
			break
		}
	}
	return caseLine{kind: "hist", fields: []string{strconv.Itoa(nconn), strings.Join(ops[:len(obs)], ";"), strings.Join(obs, ";")}}
}

func replayC09(e *emitter, kind string, f []string) {
	n, _ := strconv.Atoi(f[0])
	l := c09Run(n, strings.Split(f[1], ";"))
	e.emit(l.kind, l.fields...)
}

// ---------------------------------------------------------------------------------------------
// history generator

const c09D0 = 1577836800 // 2020-01-01T00:00:00Z

var (
	c09Names    = []string{"INBOX", "Sent", "Trash", "a", "a/b", "a/b/c", "a/c", "Sent/x", "inbox", "Inbox"}
	c09NewNames = []string{"Sent", "Trash", "a", "a/b", "a/b/c", "a/c", "Sent/x", "a/", "Trash/", "b//", "INBOX", "inbox"}
	c09FlagPool = []string{`\Seen`, `\Deleted`, `\Flagged`, `\Answered`, `\Draft`, `$kw`, `$Other`, `\SEEN`, `\deleted`, `$KW`, `\DELETED`}
	c09Patterns = []string{"*", "%", "a/%", "a/*", "%/%", "*b", "S*", "INBOX", "inbox", "a", "*/c", "%/b/%", "Sent", "", "a%", "*x", "/*", "a/b*"}
	c09Refs     = []string{"", "", "", "", "", "", "", "a", "a/", "Sent", "a/b", "x"}
	c09StatusK  = []string{"MESSAGES", "UIDNEXT", "UIDVALIDITY", "UNSEEN", "DELETED", "SIZE", "RECENT", "APPENDLIMIT", "DELETED-STORAGE"}
	c09Zones    = []int{0, 0, 11 * 3600, -9 * 3600, 3600}
	c09Texts    = []string{"hello", "world", "lorem", "HELLO", "zzz", "", "alice", "o w"}
	c09Hdrs     = [][2]string{{"Subject", "hi"}, {"subject", ""}, {"From", "alice"}, {"X-Spam", ""}, {"To", "bob"}, {"SUBJECT", "LOREM"}, {"From", "example.org"}, {"Date", "2020"}}
	c09HdrNames = []string{"Subject", "subject", "FROM", "X-Spam", "To", "Date", "Cc", "x-spam"}
)

// repeated header fields; the later values contain words the first one does not
var c09DupHdrs = []struct {
	key  string
	vals []string
}{
	{"Keywords", []string{"alpha", "beta gamma", "delta"}},
	{"Received", []string{"from mx1.example.org by a", "from mx2.example.net by b", "from relay3 by c"}},
	{"Comments", []string{"first", "second thought", "third"}},
	{"X-Tag", []string{"red", "green", "blue"}},
	{"To", []string{"bob@example.org", "carol@example.net", "dave@example.com"}},
	{"Cc", []string{"erin@example.org", "frank@example.net"}},
	{"Bcc", []string{"gina@example.org", "hal@example.net"}},
	{"Subject", []string{"hi there", "second subject", "third line"}},
	{"From", []string{"Alice <alice@example.org>", "Zed <zed@example.net>"}},
}

// dupHdrKey is a HEADER-type key on a repeated field: mostly a word of a non-first occurrence.
func (g *c09Gen) dupHdrKey() string {
	d := pick(g.r, c09DupHdrs)
	v := d.vals[g.r.intn(len(d.vals))]
	if g.r.chance(2, 3) {
		v = d.vals[1+g.r.intn(len(d.vals)-1)]
	}
	w := strings.Fields(v)
	word := strings.Trim(pick(g.r, w), "<>")
	if g.r.chance(1, 4) {
		word = strings.ToUpper(word)
	}
	if g.r.chance(1, 8) {
		word = ""
	}
	key := d.key
	switch g.r.intn(4) {
	case 0:
		key = strings.ToLower(key)
	case 1:
		key = strings.ToUpper(key)
	}
	return "h" + hxs(key) + ":" + hxs(word)
}

// hdrNested puts a repeated-field HEADER key plain, under NOT, under OR or in a group.
func (g *c09Gen) hdrNested(depth int) []string {
	r := g.r
	if depth <= 0 {
		return []string{g.dupHdrKey()}
	}
	switch r.intn(5) {
	case 0:
		return []string{g.dupHdrKey()}
	case 1, 2:
		return append([]string{"n"}, g.hdrNested(depth-1)...)
	case 3:
		if r.chance(1, 2) {
			return append(append([]string{"o"}, g.hdrNested(depth-1)...), g.key(1)...)
		}
		return append(append([]string{"o"}, g.key(1)...), g.hdrNested(depth-1)...)
	}
	return append(append([]string{"("}, g.hdrNested(depth-1)...), ")")
}

type c09Gen struct {
	r      *rng
	nconn  int
	names  map[string]int // simulated User.mailboxes: name -> object id
	count  map[int]int    // approximate number of messages per object
	nextUI map[int]int    // approximate uidNext per object
	sel    []int          // selected object per connection (-1 none)
	nextID int
	ops    []string
	counts []string
	curN   int // messages / largest UID of the mailbox the SEARCH being generated runs on
	curU   int
}

func c09Canon(n string) string {
	if strings.EqualFold(n, "INBOX") {
		return "INBOX"
	}
	return n
}

func (g *c09Gen) add(conn int, kind string, args ...string) {
	g.ops = append(g.ops, fmt.Sprintf("c%d %s", conn, strings.Join(append([]string{kind}, args...), " ")))
	g.counts = append(g.counts, "op:"+kind)
}

func (g *c09Gen) existing() []string {
	var l []string
	for n := range g.names {
		l = append(l, n)
	}
	sort.Strings(l)
	return l
}

func (g *c09Gen) pickName() string {
	ex := g.existing()
	if len(ex) > 0 && g.r.chance(5, 6) {
		n := pick(g.r, ex)
		if n == "INBOX" && g.r.chance(1, 6) {
			return pick(g.r, []string{"inbox", "Inbox"})
		}
		return n
	}
	return pick(g.r, c09Names)
}

func (g *c09Gen) selectedBy(obj int) int {
	for i, s := range g.sel {
		if s == obj {
			return i + 1
		}
	}
	return 0
}

func hxs(s string) string { return hx([]byte(s)) }

func (g *c09Gen) flags(min int) string {
	n := min + g.r.intn(3)
	if n == 0 {
		return "_"
	}
	var fl []string
	for i := 0; i < n; i++ {
		fl = append(fl, hxs(pick(g.r, c09FlagPool)))
	}
	return strings.Join(fl, ",")
}

// set renders a random number set (in the "a-b,c-d" token form) around n messages / uids up to m.
func (g *c09Gen) set(n int) string {
	if n < 1 {
		n = 1
	}
	x := func() int { return 1 + g.r.intn(n+1) }
	var s string
	switch g.r.intn(14) {
	case 0:
		s = "1"
	case 1:
		s = fmt.Sprint(x())
	case 2:
		s = "*"
	case 3, 4:
		s = "1:*"
	case 5:
		a, b := x(), x()
		s = fmt.Sprintf("%d:%d", a, b)
	case 6:
		s = fmt.Sprintf("%d,%d", x(), x())
	case 7:
		s = fmt.Sprintf("%d:*", x())
	case 8:
		s = fmt.Sprintf("%d", n+1+g.r.intn(3))
	case 9:
		s = fmt.Sprintf("%d:%d,*", n+2, n+4)
	case 10:
		s = fmt.Sprintf("1:%d,%d", x(), x())
	case 11:
		s = fmt.Sprintf("*:%d", x())
	case 12:
		s = fmt.Sprint(n)
	default:
		s = fmt.Sprintf("%d:%d", x(), n+3)
	}
	v, err := imapwire.ParseSeqSet(s)
	if err != nil {
		return "1-1"
	}
	return fmtRangesOf(v.String())
}

func (g *c09Gen) genAppend(conn int, name string) {
	flags := g.flags(0)
	date := "_"
	if g.r.chance(4, 5) {
		z := pick(g.r, c09Zones)
		u := int64(c09D0) + int64(g.r.intn(5))*86400 + int64(g.r.intn(86400))
		date = fmt.Sprintf("%d/%d", u+goZeroUnix+int64(z), z)
	}
	var hdrs []string
	if g.r.chance(2, 3) {
		hdrs = append(hdrs, hxs("Subject")+":"+hxs(pick(g.r, []string{"hi there", "Re: lorem", "Hi"})))
	}
	if g.r.chance(2, 3) {
		hdrs = append(hdrs, hxs("From")+":"+hxs("Alice <alice@example.org>"))
	}
	if g.r.chance(1, 4) {
		hdrs = append(hdrs, hxs("X-Spam")+":"+hxs(""))
	}
	if g.r.chance(1, 4) {
		hdrs = append(hdrs, hxs("To")+":"+hxs("bob@example.org"))
	}
	if g.r.chance(1, 6) {
		hdrs = append(hdrs, hxs("subject")+":"+hxs("second subject"))
	}
	sentDay, sentErr := int64(0), "0"
	switch g.r.intn(5) {
	case 0:
	case 1:
		hdrs = append(hdrs, hxs("Date")+":"+hxs("not a date"))
		sentErr = "1"
	default:
		z := pick(g.r, c09Zones)
		t := time.Unix(c09D0+int64(g.r.intn(5))*86400+int64(g.r.intn(86400)), 0).In(time.FixedZone("", z))
		hdrs = append(hdrs, hxs("Date")+":"+hxs(t.Format("Mon, 02 Jan 2006 15:04:05 -0700")))
		sentDay = fmtTime(time.Date(t.Year(), t.Month(), t.Day(), 0, 0, 0, 0, time.UTC))
	}
	// the same field more than once: a searched substring may sit in a non-first occurrence only
	if g.r.chance(1, 3) {
		d := pick(g.r, c09DupHdrs)
		for _, v := range d.vals[:2+g.r.intn(len(d.vals)-1)] {
			hdrs = append(hdrs, hxs(pick(g.r, []string{d.key, d.key, strings.ToLower(d.key)}))+":"+hxs(v))
		}
		g.counts = append(g.counts, "append:repeated-header-field")
	}
	// headers only the envelope / body structure look at (outside the model, exercised for crashes)
	if g.r.chance(1, 5) {
		hdrs = append(hdrs, hxs("Message-Id")+":"+hxs(pick(g.r, []string{"<m1@example.org>", "not an id", "<>"})))
	}
	if g.r.chance(1, 6) {
		hdrs = append(hdrs, hxs("In-Reply-To")+":"+hxs(pick(g.r, []string{"<m0@example.org> <m9@example.org>", "garbage"})))
	}
	if g.r.chance(1, 6) {
		hdrs = append(hdrs, hxs(pick(g.r, []string{"Cc", "Bcc", "Sender", "Reply-To"}))+":"+hxs(pick(g.r, []string{"Carol <carol@example.org>, dave@example.org", "undisclosed-recipients:;", "broken <", "=?utf-8?q?J=C3=BCrgen?= <j@example.org>"})))
	}
	body := pick(g.r, []string{"Hello World", "lorem ipsum", "hello", "", "x", "line one\r\nline two\r\n"})
	if g.r.chance(1, 4) {
		ct := pick(g.r, []string{"multipart/mixed; boundary=b1", "Multipart/Alternative; boundary=\"b1\"", "multipart/mixed; boundary=b1", "multipart/digest; boundary=b1",
			"message/rfc822", "text/plain; charset=utf-8", "text/html", "application/octet-stream; name=x.bin", "multipart/mixed"})
		hdrs = append(hdrs, hxs(pick(g.r, []string{"Content-Type", "content-type", "Content-Type"}))+":"+hxs(ct))
		if g.r.chance(1, 3) {
			hdrs = append(hdrs, hxs("Content-Transfer-Encoding")+":"+hxs(pick(g.r, []string{"7bit", "base64", "QUOTED-PRINTABLE"})))
		}
		if g.r.chance(1, 4) {
			hdrs = append(hdrs, hxs("Content-Disposition")+":"+hxs(pick(g.r, []string{"inline", "attachment; filename=a.txt"})))
		}
		if g.r.chance(1, 5) {
			hdrs = append(hdrs, hxs("Content-Language")+":"+hxs("en, de"))
		}
		body = pick(g.r, []string{
			"--b1\r\nContent-Type: text/plain\r\n\r\npart one\r\n--b1\r\nX-Part: 2\r\n\r\npart two\r\n--b1--\r\n",
			"preamble\r\n--b1\r\n\r\nonly part\r\n--b1--\r\nepilogue",
			"--b1--\r\n",
			"--b1\r\nContent-Type: text/plain\r\n\r\nno closing boundary\r\n",
			"--b1\r\nContent-Type: multipart/mixed; boundary=b2\r\n\r\n--b2\r\n\r\ninner\r\n--b2--\r\n--b1\r\nContent-Type: message/rfc822\r\n\r\nSubject: inner\r\n\r\ninner body\r\n--b1--\r\n",
			"Subject: embedded\r\nFrom: x@example.org\r\n\r\nembedded body",
			"", "no boundary here", body})
	}
	hs := "_"
	if len(hdrs) > 0 {
		hs = strings.Join(hdrs, ",")
	}
	g.add(conn, "APPEND", hxs(name), flags, date, hs, hxs(body), fmt.Sprint(sentDay), sentErr)
	if id, ok := g.names[c09Canon(name)]; ok {
		g.count[id]++
		g.nextUI[id]++
	}
}

// dynSet renders a set containing "*" ("*", "k:*", "*:k", "k,*", "k:m,*" ...) around n.
func (g *c09Gen) dynSet(n int) string {
	if n < 1 {
		n = 1
	}
	x := func() int { return 1 + g.r.intn(n+2) }
	var s string
	switch g.r.intn(7) {
	case 0, 1:
		s = "*"
	case 2:
		s = fmt.Sprintf("%d:*", x())
	case 3:
		s = fmt.Sprintf("*:%d", x())
	case 4:
		s = fmt.Sprintf("%d,*", x())
	case 5:
		s = fmt.Sprintf("%d:*", n+1+g.r.intn(8))
	default:
		s = fmt.Sprintf("%d:%d,*", n+2, n+4)
	}
	v, err := imapwire.ParseSeqSet(s)
	if err != nil {
		return "0-0"
	}
	return fmtRangesOf(v.String())
}

// dynNested puts a dynamic sequence / UID set under NOT / OR / a group, `depth` levels deep.
func (g *c09Gen) dynNested(depth int) []string {
	r := g.r
	leaf := func() []string {
		if r.chance(2, 3) {
			return []string{"q" + g.dynSet(g.curN)}
		}
		return []string{"u" + g.dynSet(g.curU)}
	}
	if depth <= 0 {
		return leaf()
	}
	sub := func() []string {
		if r.chance(2, 3) {
			return g.dynNested(depth - 1)
		}
		return g.key(1)
	}
	switch r.intn(5) {
	case 0, 1:
		return append([]string{"n"}, g.dynNested(depth-1)...)
	case 2:
		return append(append([]string{"o"}, g.dynNested(depth-1)...), sub()...)
	case 3:
		return append(append([]string{"o"}, sub()...), g.dynNested(depth-1)...)
	}
	out := []string{"("}
	out = append(out, g.dynNested(depth-1)...)
	if r.chance(1, 2) {
		out = append(out, sub()...)
	}
	return append(out, ")")
}

func (g *c09Gen) key(depth int) []string {
	r := g.r
	date := func() string { return fmt.Sprint(int64(c09D0) + goZeroUnix + int64(r.intn(5))*86400) }
	sys := []string{`\Answered`, `\Deleted`, `\Draft`, `\Flagged`, `\Recent`, `\Seen`}
	switch k := r.intn(25); k {
	case 0:
		return []string{"A"}
	case 1:
		if r.chance(1, 2) {
			return []string{"q" + g.dynSet(g.curN)}
		}
		return []string{"q" + g.set(g.curN)}
	case 2:
		if r.chance(1, 2) {
			return []string{"u" + g.dynSet(g.curU)}
		}
		return []string{"u" + g.set(g.curU)}
	case 3:
		return []string{"f" + hxs(pick(r, sys))}
	case 4:
		return []string{"F" + hxs(pick(r, []string{`\Answered`, `\Deleted`, `\Draft`, `\Flagged`, `\Seen`}))}
	case 5:
		return []string{pick(r, []string{"N", "O"})}
	case 6:
		return []string{"f" + hxs(pick(r, []string{"$kw", "$KW", "$Other"}))}
	case 7:
		return []string{"F" + hxs(pick(r, []string{"$kw", "$other"}))}
	case 8, 9:
		h := pick(r, c09Hdrs)
		return []string{"h" + hxs(h[0]) + ":" + hxs(h[1])}
	case 10, 11, 12, 13, 14, 15:
		return []string{[]string{"s", "b", "d", "S", "B", "D"}[k-10] + date()}
	case 16:
		return []string{"y" + hxs(pick(r, c09Texts))}
	case 17:
		return []string{"t" + hxs(pick(r, c09Texts))}
	case 18:
		return []string{fmt.Sprintf("l%d", pick(r, []int{0, 1, 5, 12, 40, 100}))}
	case 19:
		return []string{fmt.Sprintf("m%d", pick(r, []int{0, 1, 5, 12, 40, 100}))}
	}
	if depth <= 0 {
		return []string{"A"}
	}
	switch r.intn(3) {
	case 0:
		return append([]string{"n"}, g.key(depth-1)...)
	case 1:
		return append(append([]string{"o"}, g.key(depth-1)...), g.key(depth-1)...)
	}
	out := []string{"("}
	for i, n := 0, 1+r.intn(3); i < n; i++ {
		out = append(out, g.key(depth-1)...)
	}
	return append(out, ")")
}

func (g *c09Gen) partial() string {
	r := g.r
	lens := []int64{0, 1, 5, 11, 20, 42, 53, 60, 90}
	big := []int64{1 << 31, 1<<32 + 1, 1<<63 - 1, 1<<63 - 2, 1 << 62}
	off := pick(r, lens)
	if r.chance(1, 5) {
		off = pick(r, big)
	}
	size := pick(r, []int64{0, 1, 5, 20, 100})
	if r.chance(1, 3) {
		size = pick(r, big)
	}
	if r.chance(1, 10) {
		size = (1<<63 - 1) - off
	}
	return fmt.Sprintf("%d.%d", off, size)
}

func (g *c09Gen) fetchItems() []string {
	r := g.r
	if r.chance(1, 10) {
		return []string{pick(r, []string{"FAST", "ALL", "FULL"})}
	}
	var items []string
	n := 1 + r.intn(3)
	if r.chance(1, 4) {
		n = 3 + r.intn(4) // longer lists: repetitions and every order of BODY / BODYSTRUCTURE / ENVELOPE among the others
	}
	for i := 0; i < n; i++ {
		if r.chance(1, 4) {
			items = append(items, pick(r, []string{"BS", "BD", "ENV", "BS", "BD"}))
			g.counts = append(g.counts, "fetch:unmodelled-item")
			continue
		}
		switch r.intn(12) {
		case 0:
			items = append(items, "FLAGS")
		case 1:
			items = append(items, "UID")
		case 2:
			items = append(items, "SIZE")
		case 3:
			items = append(items, "DATE")
		case 4:
			items = append(items, pick(r, []string{"RFC822", "RFC822.HEADER", "RFC822.TEXT"}))
		default:
			peek := b01(r.chance(2, 3))
			part := pick(r, []string{"-", "-", "-", "-", "1", "1", "2", "1.1", "1.2", "0"})
			spec := pick(r, []string{"-", "-", "H", "T", "M"})
			fields := "-"
			if r.chance(1, 3) {
				spec = "H"
				var hs []string
				for j, m := 0, 1+r.intn(2); j < m; j++ {
					hs = append(hs, hxs(pick(r, c09HdrNames)))
				}
				fields = pick(r, []string{"f", "f", "n"}) + strings.Join(hs, "+")
			}
			if spec == "M" && part == "-" && r.chance(1, 2) {
				part = "1"
			}
			partial := "-"
			if r.chance(1, 2) {
				partial = g.partial()
			}
			items = append(items, "B"+peek+"/"+part+"/"+spec+"/"+fields+"/"+partial)
		}
	}
	return items
}

// otherConn returns a connection different from conn (or conn itself when there is only one).
func (g *c09Gen) anyConn() int { return 1 + g.r.intn(g.nconn) }

// trySelect issues SELECT/EXAMINE name on conn unless another connection has that mailbox open.
func (g *c09Gen) trySelect(conn int, name string) bool {
	id, ok := g.names[c09Canon(name)]
	if ok {
		if by := g.selectedBy(id); by != 0 && by != conn {
			return false
		}
	}
	g.add(conn, pick(g.r, []string{"SELECT", "SELECT", "SELECT", "EXAMINE"}), hxs(name))
	if ok {
		g.sel[conn-1] = id
	} else {
		g.sel[conn-1] = -1
	}
	return true
}

func (g *c09Gen) verify(name string) {
	// a connection that may open `name` lists everything in it
	id, ok := g.names[c09Canon(name)]
	if !ok {
		return
	}
	conn := g.selectedBy(id)
	if conn == 0 {
		conn = g.anyConn()
		if !g.trySelect(conn, name) {
			return
		}
	}
	if g.r.chance(1, 2) {
		g.add(conn, "NOOP")
	}
	g.add(conn, "FETCH", pick(g.r, []string{"u", "s"}), "1-0", "FLAGS", "SIZE", "B1/-/-/-/-")
	g.counts = append(g.counts, "macro:verify")
}

func (g *c09Gen) step() {
	r := g.r
	conn := g.anyConn()
	sel := g.sel[conn-1]
	n := 0
	if sel >= 0 {
		n = g.count[sel]
	}
	k := r.intn(100)
	switch {
	case k < 5:
		name := pick(r, c09NewNames)
		g.add(conn, "CREATE", hxs(name))
		cn := c09Canon(strings.TrimRight(name, "/"))
		if _, ok := g.names[cn]; !ok {
			g.names[cn] = g.nextID
			g.nextUI[g.nextID] = 1
			g.nextID++
		}
	case k < 8:
		name := g.pickName()
		if r.chance(1, 2) {
			g.add(conn, "STATUS", hxs(name), "UIDVALIDITY,UIDNEXT,MESSAGES")
		}
		g.add(conn, "DELETE", hxs(name))
		cn := c09Canon(name)
		delete(g.names, cn)
		if r.chance(2, 3) {
			g.add(conn, "CREATE", hxs(name))
			g.names[cn] = g.nextID
			g.nextUI[g.nextID] = 1
			g.nextID++
			g.add(conn, "STATUS", hxs(name), "UIDVALIDITY,UIDNEXT,MESSAGES")
			g.counts = append(g.counts, "macro:delete-recreate")
		}
	case k < 11:
		old, nw := g.pickName(), pick(r, c09NewNames)
		g.add(conn, "RENAME", hxs(old), hxs(nw))
		co, cn := c09Canon(old), c09Canon(strings.TrimRight(nw, "/"))
		if id, ok := g.names[co]; ok {
			if _, ex := g.names[cn]; !ex {
				delete(g.names, co)
				g.names[cn] = id
			}
		}
	case k < 14:
		g.add(conn, pick(r, []string{"SUB", "SUB", "UNSUB"}), hxs(g.pickName()))
	case k < 20:
		paren := r.chance(1, 4)
		var pats []string
		np := 1
		if paren {
			np = r.intn(3)
		}
		for i := 0; i < np; i++ {
			pats = append(pats, hxs(pick(r, c09Patterns)))
		}
		ps := "_"
		if len(pats) > 0 {
			ps = strings.Join(pats, ",")
		}
		st := "_"
		if r.chance(1, 4) {
			st = pick(r, []string{"MESSAGES", "MESSAGES,UIDNEXT", "UNSEEN,SIZE", "UIDVALIDITY,DELETED,RECENT"})
		}
		g.add(conn, "LIST", b01(r.chance(1, 4)), hxs(pick(r, c09Refs)), b01(paren), ps, st)
	case k < 25:
		var ks []string
		for i, m := 0, 1+r.intn(4); i < m; i++ {
			ks = append(ks, pick(r, c09StatusK[:7]))
		}
		if r.chance(1, 12) {
			ks = append(ks, pick(r, c09StatusK[7:]))
		}
		g.add(conn, "STATUS", hxs(g.pickName()), strings.Join(ks, ","))
	case k < 40:
		name := g.pickName()
		g.genAppend(conn, name)
		if r.chance(1, 4) {
			g.verify(name)
		}
	case k < 48:
		g.trySelect(conn, g.pickName())
	case k < 50:
		g.add(conn, pick(r, []string{"CLOSE", "UNSELECT"}))
		g.sel[conn-1] = -1
	case k < 52:
		g.add(conn, "NOOP")
	case k < 62:
		if sel < 0 && r.chance(4, 5) {
			g.trySelect(conn, g.pickName())
			return
		}
		uid := pick(r, []string{"s", "s", "u"})
		m := n
		if uid == "u" && sel >= 0 {
			m = g.nextUI[sel] - 1
		}
		g.add(conn, "STORE", uid, g.set(m), pick(r, []string{"set", "add", "add", "del"}), b01(r.chance(1, 3)), g.flags(1))
		if r.chance(1, 2) {
			g.add(conn, "FETCH", "s", "1-0", "FLAGS", "UID")
		}
	case k < 70:
		if sel < 0 && r.chance(4, 5) {
			g.trySelect(conn, g.pickName())
			return
		}
		uid := pick(r, []string{"s", "s", "u"})
		m := n
		if uid == "u" && sel >= 0 {
			m = g.nextUI[sel] - 1
		}
		dest := g.pickName()
		for try := 0; try < 4; try++ { // prefer an existing mailbox other than the selected one
			if id, ok := g.names[c09Canon(dest)]; ok && id != sel {
				break
			}
			dest = g.pickName()
		}
		kind := pick(r, []string{"COPY", "COPY", "MOVE"})
		g.add(conn, kind, uid, g.set(m), hxs(dest))
		if r.chance(1, 2) {
			g.verify(dest)
		}
		if kind == "MOVE" && r.chance(1, 2) {
			g.add(conn, "FETCH", "s", "1-0", "FLAGS", "UID")
		}
	case k < 76:
		if sel < 0 && r.chance(4, 5) {
			g.trySelect(conn, g.pickName())
			return
		}
		if r.chance(1, 2) {
			g.add(conn, "STORE", "s", g.set(n), "add", b01(r.chance(1, 2)), hxs(pick(r, []string{`\Deleted`, `\DELETED`, `\deleted`})))
		}
		if r.chance(2, 3) {
			g.add(conn, "EXPUNGE")
		} else {
			m := 1
			if sel >= 0 {
				m = g.nextUI[sel] - 1
			}
			g.add(conn, "UIDEXPUNGE", g.set(m))
		}
		if r.chance(1, 2) {
			g.add(conn, "FETCH", "s", "1-0", "FLAGS", "UID")
		}
	case k < 86:
		if sel < 0 && r.chance(4, 5) {
			g.trySelect(conn, g.pickName())
			return
		}
		ret := "_"
		if r.chance(1, 3) {
			ret = pick(r, []string{"0", "n", "x", "a", "c", "nx", "nxc", "ac", "nxac"})
		}
		var ks []string
		g.curN, g.curU = n, 1
		if sel >= 0 {
			g.curU = g.nextUI[sel] - 1
		}
		for i, m := 0, 1+r.intn(3); i < m; i++ {
			if r.chance(1, 4) {
				ks = append(ks, g.dynNested(1+r.intn(3))...)
				g.counts = append(g.counts, "search:dynamic-set-under-not-or-group")
			} else if r.chance(1, 4) {
				ks = append(ks, g.hdrNested(r.intn(3))...)
				g.counts = append(g.counts, "search:header-key-on-repeated-field")
			} else {
				ks = append(ks, g.key(2+r.intn(2))...)
			}
		}
		g.add(conn, "SEARCH", append([]string{pick(r, []string{"s", "s", "u"}), ret}, ks...)...)
	default:
		if sel < 0 && r.chance(4, 5) {
			g.trySelect(conn, g.pickName())
			return
		}
		uid := pick(r, []string{"s", "s", "u"})
		m := n
		if uid == "u" && sel >= 0 {
			m = g.nextUI[sel] - 1
		}
		g.add(conn, "FETCH", append([]string{uid, g.set(m)}, g.fetchItems()...)...)
	}
}

func c09RandHist(r *rng) (int, []string, []string) {
	g := &c09Gen{r: r, nconn: 1 + r.intn(2), names: map[string]int{"INBOX": 0}, count: map[int]int{}, nextUI: map[int]int{0: 1}, nextID: 1}
	g.sel = make([]int, g.nconn)
	for i := range g.sel {
		g.sel[i] = -1
	}
	// a few messages early so that the interesting commands have something to work on
	for i, n := 0, r.intn(4); i < n; i++ {
		g.genAppend(g.anyConn(), "INBOX")
	}
	if r.chance(1, 2) {
		g.add(1, "CREATE", hxs("Sent"))
		g.names["Sent"] = g.nextID
		g.nextUI[g.nextID] = 1
		g.nextID++
	}
	length := 6 + r.intn(22)
	for len(g.ops) < length {
		g.step()
	}
	g.counts = append(g.counts, fmt.Sprintf("conns:%d", g.nconn), fmt.Sprintf("len:%d", len(g.ops)/10*10))
	return g.nconn, g.ops, g.counts
}

// past failures and the defects of the design read-through, always run first
var c09Corpus = []struct {
	nconn int
	ops   []string
}{
	{1, []string{"c1 APPEND 494e424f58 _ _ _ 68656c6c6f 0 0", "c1 SELECT 494e424f58", "c1 FETCH s 1-1 B0/-/-/-/1.9223372036854775807"}},
	{1, []string{"c1 APPEND 494e424f58 _ _ _ 61 0 0", "c1 APPEND 494e424f58 _ _ _ 62 0 0", "c1 APPEND 494e424f58 _ _ _ 63 0 0", "c1 CREATE 53656e74",
		"c1 SELECT 494e424f58", "c1 MOVE s 2-2 53656e74", "c1 FETCH s 1-0 UID"}},
	{2, []string{"c1 APPEND 494e424f58 _ _ _ 61 0 0", "c1 SELECT 494e424f58", "c2 APPEND 494e424f58 _ _ _ 62 0 0", "c1 FETCH u 1-0 FLAGS", "c1 NOOP"}},
	{1, []string{"c1 STATUS 494e424f58 MESSAGES,DELETED-STORAGE"}},
	{1, []string{"c1 CREATE 53656e74", "c1 SELECT 494e424f58", "c1 COPY s 5-5 53656e74", "c1 MOVE u 7-7 53656e74", "c1 NOOP"}},
	{1, []string{"c1 APPEND 494e424f58 _ _ _ 61 0 0", "c1 APPEND 494e424f58 _ _ _ 62 0 0", "c1 APPEND 494e424f58 _ _ _ 63 0 0",
		"c1 SELECT 494e424f58", "c1 FETCH s 5-7,0-0 UID", "c1 FETCH u 5-0 UID"}},
	// BODY / BODYSTRUCTURE / ENVELOPE in every order (oracle-only items; seeded change R3-a05-1)
	{1, []string{"c1 APPEND 494e424f58 _ _ 5375626a656374:6869 68656c6c6f 0 0", "c1 SELECT 494e424f58", "c1 FETCH s 1-1 BS BD", "c1 FETCH s 1-1 BD BS",
		"c1 FETCH u 1-0 BS FLAGS BD ENV BS", "c1 FETCH s 1-1 FULL", "c1 FETCH s 1-1 ALL", "c1 FETCH s 1-1 ENV BD B1/-/-/-/- BS SIZE"}},
	// a multipart message without any part: BODY / BODYSTRUCTURE crashed the connection (F44)
	{1, []string{"c1 APPEND 494e424f58 _ _ 436f6e74656e742d54797065:6d756c7469706172742f6d697865643b20626f756e646172793d6231 2d2d62312d2d0d0a 0 0",
		"c1 SELECT 494e424f58", "c1 FETCH s 1-1 BD", "c1 FETCH s 1-1 BS B1/1/-/-/-", "c1 FETCH s 1-1 FULL"}},
	// a searched word in a non-first occurrence of a repeated field (seeded change C09-seed6)
	{1, []string{"c1 APPEND 494e424f58 _ _ 4b6579776f726473:616c706861,4b6579776f726473:626574612067616d6d61,546f:626f62406578616d706c652e6f7267,746f:6361726f6c406578616d706c652e6e6574 78 0 0",
		"c1 APPEND 494e424f58 _ _ 4b6579776f726473:616c706861 79 0 0", "c1 SELECT 494e424f58",
		"c1 SEARCH s _ h4b6579776f726473:62657461", "c1 SEARCH s _ n h4b6579776f726473:67616d6d61", "c1 SEARCH s _ o h546f:6361726f6c q2-2",
		"c1 SEARCH u _ n h544f:4341524f4c", "c1 SEARCH s _ h4b6579776f726473:616c706861", "c1 SEARCH s nxc o n h6b6579776f726473:62657461 h546f:-"}},
	// "*" under NOT / OR / nested groups must be resolved like at top level (seeded change R3-a08-1)
	{1, []string{"c1 APPEND 494e424f58 _ _ _ 61 0 0", "c1 APPEND 494e424f58 _ _ _ 62 0 0", "c1 APPEND 494e424f58 _ _ _ 63 0 0", "c1 APPEND 494e424f58 _ _ _ 64 0 0",
		"c1 SELECT 494e424f58", "c1 SEARCH s _ n q0-0", "c1 SEARCH s _ o q1-1 q0-0", "c1 SEARCH s _ n q10-0", "c1 SEARCH u _ n n u0-0",
		"c1 SEARCH s _ o n ( q0-0 ) n u2-0", "c1 SEARCH u nxc n o q0-2 ( n q3-0 )"}},
}

func genC09(e *emitter, tier string, seed uint64) {
	nHist := 3000
	switch tier {
	case "thorough":
		nHist = 50000
	case "widen":
		nHist = 20000
	}
	for _, c := range c09Corpus {
		l := c09Run(c.nconn, c.ops)
		e.emit(l.kind, l.fields...)
	}
	base := newRng(seed, "C09")
	seeds := make([]uint64, nHist)
	for i := range seeds {
		seeds[i] = base.next()
	}
	parCases(e, nHist, func(i int) []caseLine {
		r := &rng{s: seeds[i]}
		nconn, ops, counts := c09RandHist(r)
		l := c09Run(nconn, ops)
		l.counts = counts
		return []caseLine{l}
	})
}
