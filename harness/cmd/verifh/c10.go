//go:build c10 || allprops

package main

import (
	"bytes"
	"errors"
	"fmt"
	"net"
	"os"
	"runtime"
	"strconv"
	"strings"
	"sync"
	"sync/atomic"
	"time"

	"github.com/emersion/go-imap/v2/imapclient"
)

// C10 — every client command terminates, whatever happens to the connection.
//
// The real imapclient.Client sits on the client end of an in-memory connection; a scripted peer
// plays a server transcript up to a cut offset and then injects a fault. A caller goroutine runs
// the scenario's program (a fixed list of blocking API calls, "phases"). Observed: the class of
// every phase (ok / err / ret / hang / - (not reached)), whether Client.Close returned, whether
// the reader goroutine exited, whether a read deadline was armed at the cut.
//
// Every case runs alone in a worker process (cases of one worker are sequential), so the goroutine
// accounting (stack dump filtered for imapclient.(*Client).read) is local to the case.

func init() {
	props["C10"] = genC10
	replayers["C10"] = replayC10
	workers["c10"] = func() { workerLoop(c10WorkerAnswer) }
}

var c10Baseline = -1
var c10WorkerHangs = 0

var errC10Injected = errors.New("c10: injected connection error")
var errC10Skip = errors.New("c10: phase not reached")

// c10Watchdog bounds every wait whose expiry is a failing verdict (healthy cases take ~2 ms, so this
// is > 10000x; the box may be very busy). Waits are channel receives or polls to this deadline;
// an expiry is re-run once alone in a fresh process before it counts. Stalls that the property
// wants to end by a timeout use the connection's own (virtual) read deadline, never this.
const c10Watchdog = 30 * time.Second

// c10Conn is the client's end. Like a real net.Conn (and unlike the bare memConn) a locally closed
// connection fails reads and writes with net.ErrClosed instead of reporting a clean EOF.
type c10Conn struct {
	*memConn
	closed atomic.Bool
}

func (c *c10Conn) Read(p []byte) (int, error) {
	if c.closed.Load() {
		return 0, net.ErrClosed
	}
	n, err := c.memConn.Read(p)
	if err != nil && c.closed.Load() {
		return n, net.ErrClosed
	}
	return n, err
}

func (c *c10Conn) Write(p []byte) (int, error) {
	if c.closed.Load() {
		return 0, net.ErrClosed
	}
	return c.memConn.Write(p)
}

func (c *c10Conn) Close() error {
	if c.closed.Swap(true) {
		return net.ErrClosed
	}
	return c.memConn.Close()
}

// ---- scenario description ------------------------------------------------------------------

// c10Step is one step of the scripted peer: wait for recv more lines from the client, or send data.
type c10Step struct {
	recv int
	abs  string // abstract shape of the item sent (see Model/ClientFault.lean)
	data []byte
}

// c10Phase is one blocking call of the caller's program.
type c10Phase struct {
	kind byte // see c10PhaseKinds
	cmd  int  // command (= tag number) the call belongs to, 0 for none
	ret  bool // the call has no error result worth comparing: class "ret"
	f    func(x *c10Ctx) error
}

type c10Ctx struct {
	conn *c10Conn
	c    *imapclient.Client
	mu   sync.Mutex
}

func (x *c10Ctx) setClient(c *imapclient.Client) {
	x.mu.Lock()
	x.c = c
	x.mu.Unlock()
}

func (x *c10Ctx) client() *imapclient.Client {
	x.mu.Lock()
	defer x.mu.Unlock()
	return x.c
}

type c10Scenario struct {
	name          string
	modes         []string
	quick         bool
	build         func(b *c10B, mode string) // fills b.steps, b.cmds, b.mk
	sample        bool                       // literal bodies are sampled on the quick tier
	allModesQuick bool                       // quick tier runs every mode (default: the first two)
	greetQuick    bool                       // quick tier cuts inside the greeting too
	noHealthy     bool                       // without a cut the program ends only when the caller closes the client
	quickStride   int                        // quick tier: cut the long middle of the transcript at every n-th offset only
}

// c10B accumulates one scenario instance.
type c10B struct {
	steps    []c10Step
	cmds     []string
	phases   []c10Phase
	noNew    bool // the program creates the client itself (NewStartTLS)
	litSpan  [][2]int
	total    int
	greetLen int
}

func (b *c10B) R(n int) { b.steps = append(b.steps, c10Step{recv: n}) }

func (b *c10B) send(abs string, data string) {
	b.steps = append(b.steps, c10Step{abs: abs, data: []byte(data)})
	b.total += len(data)
}

const c10Caps = "IMAP4rev1 MOVE"

// greetNoCaps: a greeting without a CAPABILITY code: the client refreshes the capabilities on its
// own (a CAPABILITY command sent by a background goroutine, tag T1)
func (b *c10B) greetNoCaps() {
	s := "* OK hi"
	b.send(fmt.Sprintf("g:%d", len(s)+2), s+"\r\n")
	b.greetLen = b.total
}

// c10Quoted is a FETCH section sent as a quoted string: the client wraps it in a literal reader
// too (the reader goroutine waits until it was read), without any further bytes on the wire.
type c10Quoted string

// greetCaps: a greeting announcing exactly these capabilities
func (b *c10B) greetCaps(caps string) {
	s := "* OK [CAPABILITY " + caps + "] hi"
	b.send(fmt.Sprintf("g:%d", len(s)+2), s+"\r\n")
	b.greetLen = b.total
}

func (b *c10B) greet() {
	s := "* OK [CAPABILITY " + c10Caps + "] hi"
	b.send(fmt.Sprintf("g:%d", len(s)+2), s+"\r\n")
	b.greetLen = b.total
}

// line: a complete untagged response line
func (b *c10B) line(cmd int, s string) {
	b.send(fmt.Sprintf("u%d:%d", cmd, len(s)+2), s+"\r\n")
}

func (b *c10B) cont(cmd int, s string) {
	b.send(fmt.Sprintf("c%d:%d", cmd, len(s)+2), s+"\r\n")
}

func (b *c10B) tagged(cmd int, ok bool, s string) {
	sign := "+"
	if !ok {
		sign = "-"
	}
	line := fmt.Sprintf("T%d %s\r\n", cmd, s)
	// head: the bytes up to and including the status atom and the space after it, if any (the
	// point where the unrepaired client already took the response for complete)
	head := strings.IndexByte(s, ' ')
	if head < 0 {
		head = len(s)
	} else {
		head++
	}
	head += len(fmt.Sprintf("T%d ", cmd))
	b.send(fmt.Sprintf("T%d%s:%d.%d", cmd, sign, len(line), head), line)
}

// fetch: one FETCH response; parts alternate text (string) and literal bodies ([]byte). The
// literal header "{n}\r\n" is appended to the text preceding a literal.
func (b *c10B) fetch(cmd int, parts ...interface{}) {
	var abs []string
	var data []byte
	start := b.total
	txt := ""
	flush := func() {
		if txt != "" {
			abs = append(abs, fmt.Sprintf("t%d", len(txt)))
			data = append(data, txt...)
			txt = ""
		}
	}
	for _, p := range parts {
		switch p := p.(type) {
		case string:
			txt += p
		case c10Quoted:
			txt += `"` + string(p) + `"`
			flush()
			abs = append(abs, "l0")
		case []byte:
			txt += fmt.Sprintf("{%d}\r\n", len(p))
			flush()
			abs = append(abs, fmt.Sprintf("l%d", len(p)))
			b.litSpan = append(b.litSpan, [2]int{start + len(data), start + len(data) + len(p)})
			data = append(data, p...)
		}
	}
	txt += "\r\n"
	flush()
	b.steps = append(b.steps, c10Step{abs: fmt.Sprintf("F%d:%s", cmd, strings.Join(abs, ".")), data: data})
	b.total += len(data)
}

func (b *c10B) cmd(kind string) int {
	b.cmds = append(b.cmds, kind)
	return len(b.cmds)
}

func (b *c10B) phase(kind byte, cmd int, f func(x *c10Ctx) error) {
	b.phases = append(b.phases, c10Phase{kind: kind, cmd: cmd, f: f})
}

func (b *c10B) phaseRet(kind byte, cmd int, f func(x *c10Ctx) error) {
	b.phases = append(b.phases, c10Phase{kind: kind, cmd: cmd, ret: true, f: f})
}

func (b *c10B) absItems() string {
	var l []string
	for _, s := range b.steps {
		if s.recv == 0 {
			l = append(l, s.abs)
		}
	}
	return strings.Join(l, ";")
}

func (b *c10B) absPhases() string {
	var l []string
	for _, p := range b.phases {
		l = append(l, fmt.Sprintf("%c%d", p.kind, p.cmd))
	}
	return strings.Join(l, ",")
}

// ---- running one case ------------------------------------------------------------------------

type c10Obs struct {
	phases []string
	close_ string // 1 returned, 0 did not
	reader string // 1 exited, 0 still alive
	armed  string // stimeout: 1 a deadline was armed at the cut, 0 none; "-" otherwise
	prober string // werr: class of the probing NOOP; "-" otherwise
	hung   bool
}

func (o c10Obs) String() string {
	return fmt.Sprintf("p=%s;c=%s;r=%s;a=%s;w=%s", strings.Join(o.phases, ","), o.close_, o.reader, o.armed, o.prober)
}

var c10StackBuf = make([]byte, 256<<10)
var c10StackMu sync.Mutex

// c10Stacks calls f on a dump of all goroutine stacks (one reusable buffer per process).
func c10Stacks(f func(dump []byte)) {
	c10StackMu.Lock()
	defer c10StackMu.Unlock()
	for {
		n := runtime.Stack(c10StackBuf, true)
		if n < len(c10StackBuf) {
			f(c10StackBuf[:n])
			return
		}
		c10StackBuf = make([]byte, 2*len(c10StackBuf))
	}
}

func c10CountReaders() int {
	n := 0
	c10Stacks(func(d []byte) { n = bytes.Count(d, []byte("imapclient.(*Client).read(")) })
	return n
}

// c10ProberBlocked: the probing goroutine is parked on the client's encoder mutex.
func c10ProberBlocked() bool {
	blocked := false
	c10Stacks(func(d []byte) {
		for _, g := range bytes.Split(d, []byte("\n\n")) {
			if bytes.Contains(g, []byte("main.c10Probe")) && bytes.Contains(g, []byte("beginCommand")) &&
				bytes.Contains(g, []byte("sync.(*Mutex).Lock")) {
				blocked = true
			}
		}
	})
	return blocked
}

func c10Probe(c *imapclient.Client) error {
	return c.Noop().Wait()
}

func c10Class(p c10Phase, err error) string {
	switch {
	case err == errC10Skip:
		return "-"
	case p.ret:
		return "ret"
	case err == nil:
		return "ok"
	default:
		return "err"
	}
}

// c10RunCase plays the scenario with the connection cut before server byte k (k == total: no
// fault) and returns what the client did.
func c10RunCase(b *c10B, k int, fault string, watchdog time.Duration) c10Obs {
	cc, sc := memPipe()
	conn := &c10Conn{memConn: cc}
	x := &c10Ctx{conn: conn}
	obs := c10Obs{armed: "-", prober: "-"}
	baseline := c10Baseline // cases of a worker are sequential: what the previous case left behind
	if baseline < 0 {
		baseline = c10CountReaders()
	}

	stall := make(chan struct{}, 1)
	peerDone := make(chan struct{})
	go func() { // the scripted peer
		defer close(peerDone)
		sent := 0
		var inbuf [4096]byte
		for _, st := range b.steps {
			if st.recv > 0 {
				need := st.recv
				for need > 0 {
					n, err := sc.Read(inbuf[:])
					need -= bytes.Count(inbuf[:n], []byte{'\n'})
					if err != nil {
						return
					}
				}
				continue
			}
			d := st.data
			cut := false
			if sent+len(d) > k {
				d, cut = d[:k-sent], true
			}
			if len(d) > 0 {
				sc.Write(d)
				sent += len(d)
			}
			if cut {
				switch fault {
				case "eof":
					sc.Close()
				case "rerr":
					cc.failRead(errC10Injected)
				default:
					sc.awaitPeerIdle(watchdog)
					stall <- struct{}{}
				}
				return
			}
		}
	}()

	res := make([]string, len(b.phases))
	var progress atomic.Int32
	callerDone := make(chan struct{})
	if !b.noNew {
		x.setClient(imapclient.New(conn, nil))
	}
	go func() { // the caller
		defer close(callerDone)
		for i, p := range b.phases {
			res[i] = c10Class(p, p.f(x))
			progress.Store(int32(i + 1))
		}
	}()

	closeRet := make(chan struct{})
	var closeOnce sync.Once
	doClose := func() {
		closeOnce.Do(func() {
			go func() {
				if c := x.client(); c != nil {
					c.Close()
				} else {
					conn.Close()
				}
				close(closeRet)
			}()
		})
	}

	timer := time.NewTimer(watchdog)
	defer timer.Stop()
	probeRet := make(chan error, 1)
	probing := false
	stalling := k < b.total && (fault == "sclose" || fault == "stimeout" || fault == "werr")
	if !stalling {
		select {
		case <-callerDone:
		case <-timer.C:
		}
	} else {
		// The stall is acted upon once the client has consumed everything delivered and sits in a
		// read (the peer reports that), whether or not the caller's program is already through:
		// what the action finds (deadline armed? encoder free?) then depends on the cut alone.
		select {
		case <-stall:
		case <-time.After(2 * watchdog):
			obs.hung = true // the cut was never reached: counts only if it happens again when re-run alone
		}
		switch fault {
		case "sclose":
			doClose()
		case "stimeout":
			if cc.fireReadDeadline() {
				obs.armed = "1"
			} else {
				obs.armed = "0"
				doClose()
			}
		case "werr":
			cc.failWrite(errC10Injected)
			if c := x.client(); c == nil {
				doClose()
			} else {
				probing = true
				go func() { probeRet <- c10Probe(c) }()
				blocked := 0
			poll:
				for dl := time.Now().Add(watchdog); time.Now().Before(dl); {
					select {
					case err := <-probeRet:
						probeRet <- err
						break poll
					default:
					}
					if c10ProberBlocked() {
						blocked++
						if blocked >= 2 {
							doClose()
							break poll
						}
					} else {
						blocked = 0
					}
					time.Sleep(200 * time.Microsecond)
				}
			}
		}
		select {
		case <-callerDone:
		case <-timer.C:
		}
	}

	done := int(progress.Load())
	select {
	case <-callerDone:
		done = len(b.phases)
	default:
		obs.hung = true
	}
	for i := range b.phases {
		switch {
		case i < done:
			obs.phases = append(obs.phases, res[i])
		case i == done:
			obs.phases = append(obs.phases, "hang")
		default:
			obs.phases = append(obs.phases, "-")
		}
	}

	// the caller always closes the client in the end
	doClose()
	if obs.hung {
		watchdog /= 8 // the case already failed: do not spend the full watchdog on every further wait
	}
	t2 := time.NewTimer(watchdog)
	select {
	case <-closeRet:
		obs.close_ = "1"
	case <-t2.C:
		obs.close_ = "0"
		obs.hung = true
	}
	t2.Stop()
	if probing {
		t3 := time.NewTimer(watchdog)
		select {
		case err := <-probeRet:
			if err == nil {
				obs.prober = "ok"
			} else {
				obs.prober = "err"
			}
		case <-t3.C:
			obs.prober = "hang"
			obs.hung = true
		}
		t3.Stop()
	}
	// the reader goroutine must be gone: poll to a deadline, never sleep a fixed time
	obs.reader = "0"
	for dl := time.Now().Add(watchdog); ; {
		n := c10CountReaders()
		c10Baseline = n
		if n <= baseline {
			obs.reader = "1"
			break
		}
		if !time.Now().Before(dl) {
			obs.hung = true
			break
		}
		time.Sleep(100 * time.Microsecond)
	}
	// release the peer if it is still waiting for client bytes
	conn.Close()
	sc.Close()
	<-peerDone
	return obs
}

// ---- worker protocol: "<scenario>|<mode>|<k>|<fault>" -> "<obs>" ----------------------------

func c10Find(name, mode string) *c10B {
	for _, s := range c10Scenarios() {
		if s.name == name {
			b := &c10B{}
			s.build(b, mode)
			return b
		}
	}
	return nil
}

func c10WorkerAnswer(req string) string {
	f := strings.Split(req, "|")
	if len(f) != 4 {
		return "bad-request"
	}
	b := c10Find(f[0], f[1])
	if b == nil {
		return "bad-scenario"
	}
	k, _ := strconv.Atoi(f[2])
	if c10WorkerHangs >= 2 {
		return "aborted" // this process has seen two expiries: let the orchestrator confirm them first
	}
	o := c10RunCase(b, k, f[3], c10Watchdog)
	h := "0"
	if o.hung {
		h = "1"
		c10WorkerHangs++
	}
	return h + "|" + o.String()
}

var c10Faults = []string{"eof", "rerr", "werr", "sclose", "stimeout"}

type c10Req struct {
	scn, mode string
	k         int
	fault     string
	b         *c10B
}

func (r c10Req) String() string { return fmt.Sprintf("%s|%s|%d|%s", r.scn, r.mode, r.k, r.fault) }

// c10Offsets lists the cut offsets of a scenario instance (every offset; literal bodies longer
// than 48 bytes are sampled when sampling is requested).
func c10Offsets(b *c10B, sample bool, rg *rng) []int {
	var ks []int
	for k := 0; k < b.total; k++ {
		if sample {
			skip := false
			for _, sp := range b.litSpan {
				n := sp[1] - sp[0]
				if n > 48 && k > sp[0]+6 && k < sp[1]-6 {
					// keep the neighbourhood of the bufio boundary and a few random offsets
					off := k - sp[0]
					if !(off >= 4090 && off <= 4100) && rg.intn(n) >= 12 {
						skip = true
					}
				}
			}
			if skip {
				continue
			}
		}
		ks = append(ks, k)
	}
	return ks
}

func c10RunAll(reqs []c10Req) []string {
	nw := runtime.NumCPU()
	if nw > 16 {
		nw = 16
	}
	if nw > len(reqs) {
		nw = len(reqs)
	}
	if nw < 1 {
		nw = 1
	}
	// the worker children run one case at a time; a single P keeps 16 of them from fighting for
	// cores (measured: 1.6 ms per case with GOMAXPROCS=1, 3.5 ms with the default on a loaded box)
	os.Setenv("GOMAXPROCS", "1")
	out := make([]string, len(reqs))
	var next atomic.Int64
	var confirmed atomic.Int32
	const chunk = 64
	var wg sync.WaitGroup
	for w := 0; w < nw; w++ {
		wg.Add(1)
		go func() {
			defer wg.Done()
			pool := &workerPool{name: "c10", timeout: 5 * c10Watchdog, memMB: 0, maxBad: 3}
			for {
				lo := int(next.Add(chunk)) - chunk
				if lo >= len(reqs) {
					return
				}
				hi := lo + chunk
				if hi > len(reqs) {
					hi = len(reqs)
				}
				if confirmed.Load() >= 3 {
					// the property is already refuted three times over: do not spend 2 s per further hang
					for i := lo; i < hi; i++ {
						out[i] = "aborted"
					}
					continue
				}
				strs := make([]string, hi-lo)
				for i := lo; i < hi; i++ {
					strs[i-lo] = reqs[i].String()
				}
				ans := pool.runOnce(strs)
				for i, a := range ans {
					if a == "aborted" || (a == "skipped" && confirmed.Load() >= 3) {
						if confirmed.Load() >= 3 {
							out[lo+i] = "aborted"
							continue
						}
						a = pool.runOnce([]string{strs[i]})[0] // not refuted yet: run it after all
					}
					if a == "skipped" || a == "crash" || a == "timeout" || strings.HasPrefix(a, "1|") {
						// a watchdog expiry is re-run once alone, in a fresh process, before it counts
						a = pool.runOnce([]string{strs[i]})[0]
						if a == "crash" || a == "timeout" || strings.HasPrefix(a, "1|") {
							confirmed.Add(1)
						}
					}
					out[lo+i] = a
				}
			}
		}()
	}
	wg.Wait()
	return out
}

func c10Emit(e *emitter, r c10Req, ans string) {
	obs := ans
	if i := strings.IndexByte(ans, '|'); i >= 0 {
		obs = ans[i+1:]
	}
	switch ans {
	case "aborted":
		e.count("skipped:aborted-after-3-confirmed-hangs")
		return
	case "crash", "timeout", "skipped":
		obs = "p=" + ans + ";c=0;r=0;a=-;w=-"
	}
	e.emit("cut", r.scn, r.mode, strings.Join(r.b.cmds, ","), r.b.absItems(), r.b.absPhases(),
		strconv.Itoa(r.k), r.fault, obs)
	e.count("fault:" + r.fault)
	e.count("scenario:" + r.scn)
}

func genC10(e *emitter, tier string, seed uint64) {
	rg := newRng(seed, "C10")
	var reqs []c10Req
	add := func(s c10Scenario, mode string, k int, fault string, b *c10B) {
		reqs = append(reqs, c10Req{scn: s.name, mode: mode, k: k, fault: fault, b: b})
	}
	// corpus of past failures first
	for _, c := range c10Corpus {
		for _, s := range c10Scenarios() {
			if s.name == c.scn {
				b := &c10B{}
				s.build(b, c.mode)
				add(s, c.mode, c.k, c.fault, b)
			}
		}
	}
	for _, s := range c10Scenarios() {
		if tier == "quick" && !s.quick {
			continue
		}
		switch s.name {
		case "noop", "starttls-no", "auth-plain", "fetch-lit5":
			s.greetQuick = true
		}
		for mi, mode := range s.modes {
			b := &c10B{}
			s.build(b, mode)
			if tier == "quick" && !s.allModesQuick && mi >= c10QuickModes(s.name) {
				continue // the remaining modes run on the thorough tier
			}
			if !s.noHealthy {
				add(s, mode, b.total, "none", b)
			}
			sample := s.sample && tier != "thorough"
			for _, k := range c10Offsets(b, sample, rg) {
				if tier == "quick" && (mi > 0 || !s.greetQuick) && k < b.greetLen-1 {
					// the modes of a scenario differ only after the greeting, and so do the scenarios
					// whose program starts with WaitGreeting: the quick tier cuts the greeting at every
					// offset in a few scenarios only (thorough: in all)
					continue
				}
				if tier == "quick" && s.quickStride > 1 && k > b.greetLen+40 && k < b.total-50 && k%s.quickStride != 0 {
					continue
				}
				for _, f := range c10Faults {
					if tier == "widen" && rg.intn(3) != 0 {
						continue
					}
					if tier == "quick" && mi > 0 && (f == "eof" || f == "werr") {
						continue // secondary modes: the faults that reach the consumer differently
					}
					add(s, mode, k, f, b)
				}
			}
		}
	}
	ans := c10RunAll(reqs)
	for i, r := range reqs {
		c10Emit(e, r, ans[i])
	}
}

// replayC10 re-executes one case line: fields = scenario, mode, cmds, items, phases, k, fault, obs
func replayC10(e *emitter, kind string, f []string) {
	if kind != "cut" || len(f) < 7 {
		return
	}
	b := c10Find(f[0], f[1])
	if b == nil {
		fmt.Fprintln(os.Stderr, "C10: unknown scenario", f[0])
		return
	}
	k, _ := strconv.Atoi(f[5])
	r := c10Req{scn: f[0], mode: f[1], k: k, fault: f[6], b: b}
	c10Emit(e, r, c10RunAll([]c10Req{r})[0])
}

// c10QuickModes: how many consumption modes of a streaming scenario the quick tier runs
func c10QuickModes(name string) int {
	switch name {
	case "list", "expunge", "fetch-two-lits", "fetch-lit40", "fetch-many-atts":
		return 2
	}
	return 1
}

type c10CorpusCase struct {
	scn, mode string
	k         int
	fault     string
}
