//go:build c12 || allprops

package main

import (
	"bufio"
	"fmt"
	"os"
	"sort"
	"strconv"
	"strings"
	"sync"
	"sync/atomic"
	"time"

	"github.com/emersion/go-imap/v2"
	"github.com/emersion/go-imap/v2/imapclient"
)

// C12 — the client routes responses to the right command and mirrors protocol state.
//
// A scripted server (the server end of an in-memory pipe) reads what the real client wrote (so the
// tags are known from the wire) and writes generated response lines one at a time. After EVERY
// step the harness waits for a barrier that needs no sleeping — the client's reader goroutine is
// blocked in Read having consumed every byte written so far (or the client closed the connection),
// plus, for a tagged reply, the return of that command's Wait — and records State(), Mailbox(),
// the commands whose Wait returned (status class, code, data) and the unilateral-handler calls.
// One case = one transcript (events) with the observation after every event.

func init() {
	props["C12"] = genC12
	replayers["C12"] = replayC12
}

// Every wait is event-driven (condition variables / channels), so the healthy path never sleeps;
// the deadline only bounds a wait that will never be satisfied (a command that never completes,
// a reader that died). It is generous because the machine may be heavily loaded, one deadline
// is shared by all waits of a step, and a case in which a wait expired is re-run once alone
// (c12RunChecked) before its observation counts.
const c12Deadline = 30 * time.Second

var c12Isolation sync.RWMutex // re-runs after an expiry hold it exclusively
var c12Hangs int32          // cases whose re-run in isolation expired again (genuine hangs)

var c12Mboxes = []string{"INBOX", "Archive", "Work", "Trash"}
var c12Flags = []string{`\Seen`, `\Answered`, `\Flagged`, `\Deleted`, `\Draft`, `$Forwarded`, `\*`}
var c12Caps = []string{"IMAP4rev1", "IDLE", "UNSELECT", "UIDPLUS", "ESEARCH", "NAMESPACE"}
var c12Codes = map[int]string{1: "ALERT", 2: "TRYCREATE", 3: "READ-WRITE", 4: "READ-ONLY", 5: "NONEXISTENT",
	6: "AUTHENTICATIONFAILED", 7: "CANNOT", 8: "TOOBIG"}

func c12CodeID(s string) int {
	switch s {
	case "":
		return 0
	case "CAPABILITY":
		return 100
	case "APPENDUID":
		return 101
	}
	for id, n := range c12Codes {
		if n == s {
			return id
		}
	}
	return 99
}

func c12FlagDigits(fs []imap.Flag) string {
	var ds []string
	for _, f := range fs {
		d := "9"
		for i, n := range c12Flags {
			if strings.EqualFold(n, string(f)) {
				d = strconv.Itoa(i)
			}
		}
		ds = append(ds, d)
	}
	sort.Strings(ds)
	if len(ds) == 0 {
		return "-"
	}
	return strings.Join(ds, "")
}

func c12FlagList(digits string) string {
	var fs []string
	if digits != "-" {
		for _, d := range digits {
			fs = append(fs, c12Flags[int(d-'0')])
		}
	}
	return "(" + strings.Join(fs, " ") + ")"
}

func c12Imapflags(digits string) []imap.Flag {
	var fs []imap.Flag
	if digits != "-" {
		for _, d := range digits {
			fs = append(fs, imap.Flag(c12Flags[int(d-'0')]))
		}
	}
	return fs
}

func c12MboxID(name string) int {
	for i, n := range c12Mboxes {
		if n == name {
			return i
		}
	}
	return 9
}

func c12Nums(s string) []int {
	var out []int
	if s == "-" || s == "" {
		return out
	}
	for _, p := range strings.Split(s, ",") {
		n, _ := strconv.Atoi(p)
		out = append(out, n)
	}
	return out
}

func c12Join(ns []int, sep string) string {
	if len(ns) == 0 {
		return "-"
	}
	var ss []string
	for _, n := range ns {
		ss = append(ss, strconv.Itoa(n))
	}
	return strings.Join(ss, sep)
}

// c12Conn is the client end: it records, under the read half's lock, how many bytes the client
// had consumed when it last asked for more. "entryAt == bytes written by the server" means the
// reader goroutine has processed every complete line and is waiting for the next one.
type c12Conn struct {
	*memConn
	consumed       int
	entryAt        int
	closedByClient bool
}

func (c *c12Conn) Read(p []byte) (int, error) {
	h := c.memConn.r
	h.mu.Lock()
	c.entryAt = c.consumed
	h.cond.Broadcast()
	h.mu.Unlock()
	n, err := c.memConn.Read(p)
	h.mu.Lock()
	c.consumed += n
	h.mu.Unlock()
	return n, err
}

// awaitIdle waits until the client's reader has consumed `written` bytes and asked for more
// ("idle"), the client closed its end ("closed"), or the deadline passed ("timeout").
func (c *c12Conn) awaitIdle(written int, d time.Duration) string {
	h := c.memConn.r
	deadline := time.Now().Add(d)
	t := time.AfterFunc(d, func() { h.mu.Lock(); h.cond.Broadcast(); h.mu.Unlock() })
	defer t.Stop()
	h.mu.Lock()
	defer h.mu.Unlock()
	for {
		if c.clientClosedLocked() {
			return "closed"
		}
		if c.entryAt == written && c.consumed == written {
			return "idle"
		}
		if !time.Now().Before(deadline) {
			return "timeout"
		}
		h.cond.Wait()
	}
}

// the client called conn.Close(): memConn.Close marks its read half closed and drops the buffer
func (c *c12Conn) clientClosedLocked() bool { return c.closedByClient }

type c12Cmd struct {
	tag      int
	kind     string
	auto     bool
	finished chan struct{} // the observer goroutine (Wait/Collect) returned
	returned chan struct{} // the command method returned (literal commands run in a goroutine)
	status   string
	code     int
	data     string
	reported bool
}

type c12Script struct {
	mu        sync.Mutex
	cond      *sync.Cond
	client    *imapclient.Client
	cc        *c12Conn
	sc        *memConn
	sr        *bufio.Reader
	written   int
	cmds      []*c12Cmd
	uni       []string
	uniShown  int
	fetchSent int
	fetchSeen int
	blocked   *c12Cmd
	litSize   int
	dead      bool // the client has closed the connection (observed)
	srvClosed bool

	stepDeadline time.Time
	expired      bool // some wait of this case ran into its deadline
	alone        bool // the re-run in isolation: full patience whatever happened elsewhere
}

// closedByClient is set by Close on the client end (the harness never closes that end itself).
func (c *c12Conn) Close() error {
	h := c.memConn.r
	h.mu.Lock()
	c.closedByClient = true
	h.mu.Unlock()
	return c.memConn.Close()
}

func newC12Script() *c12Script {
	cEnd, sEnd := memPipe()
	s := &c12Script{sc: sEnd}
	s.cond = sync.NewCond(&s.mu)
	s.cc = &c12Conn{memConn: cEnd, entryAt: -1}
	s.sr = bufio.NewReader(sEnd)
	s.client = imapclient.New(s.cc, &imapclient.Options{
		UnilateralDataHandler: &imapclient.UnilateralDataHandler{
			Expunge: func(seqNum uint32) { s.addUni(fmt.Sprintf("E%d", seqNum), false) },
			Mailbox: func(d *imapclient.UnilateralDataMailbox) {
				if d.NumMessages != nil {
					s.addUni(fmt.Sprintf("X%d", *d.NumMessages), false)
				}
				if d.Flags != nil {
					s.addUni("F"+c12FlagDigits(d.Flags), false)
				}
				if d.PermanentFlags != nil {
					s.addUni("P"+c12FlagDigits(d.PermanentFlags), false)
				}
			},
			Fetch: func(msg *imapclient.FetchMessageData) {
				buf, _ := msg.Collect()
				s.addUni("M"+c12Msg(buf), true)
			},
		},
	})
	return s
}

func c12Msg(buf *imapclient.FetchMessageBuffer) string {
	return fmt.Sprintf("%du%df%s", buf.SeqNum, buf.UID, c12FlagDigits(buf.Flags))
}

func (s *c12Script) addUni(e string, fetch bool) {
	s.mu.Lock()
	s.uni = append(s.uni, e)
	if fetch {
		s.fetchSeen++
	}
	s.cond.Broadcast()
	s.mu.Unlock()
}

// waitCond waits (bounded) until f holds; f is evaluated under s.mu.
func (s *c12Script) waitCond(f func() bool) bool {
	d := s.left()
	deadline := time.Now().Add(d)
	t := time.AfterFunc(d, func() { s.mu.Lock(); s.cond.Broadcast(); s.mu.Unlock() })
	defer t.Stop()
	s.mu.Lock()
	defer s.mu.Unlock()
	for !f() {
		if !time.Now().Before(deadline) {
			s.expired = true
			return false
		}
		s.cond.Wait()
	}
	return true
}

// left is the time left for the waits of the current step.
func (s *c12Script) left() time.Duration {
	d := time.Until(s.stepDeadline)
	if (s.expired || (!s.alone && atomic.LoadInt32(&c12Hangs) > 0)) && d > 500*time.Millisecond {
		// the case already counts as expired (it is re-run alone / reported as a hang): the waits
		// that follow in it need no patience; likewise once a hang has been confirmed in isolation
		// (the verdict is settled, the remaining cases are skipped)
		d = 500 * time.Millisecond
	}
	if d < 50*time.Millisecond {
		d = 50 * time.Millisecond
	}
	return d
}

func (s *c12Script) waitChan(ch chan struct{}) bool {
	select {
	case <-ch:
		return true
	default:
	}
	t := time.NewTimer(s.left())
	defer t.Stop()
	select {
	case <-ch:
		return true
	case <-t.C:
		s.expired = true
		return false
	}
}

func c12Status(err error) (string, int) {
	if err == nil {
		return "ok", 0
	}
	if ie, ok := err.(*imap.Error); ok {
		switch ie.Type {
		case imap.StatusResponseTypeNo:
			return "no", c12CodeID(string(ie.Code))
		case imap.StatusResponseTypeBad:
			return "bad", c12CodeID(string(ie.Code))
		}
	}
	return "cl", 0
}

func (s *c12Script) finish(c *c12Cmd, err error, data string) {
	s.mu.Lock()
	c.status, c.code = c12Status(err)
	c.data = data
	s.mu.Unlock()
	close(c.finished)
	s.mu.Lock()
	s.cond.Broadcast()
	s.mu.Unlock()
}

// start runs the client method for a command token and its observer; for literal commands the
// method itself blocks until the server answers, so everything runs in a goroutine.
func (s *c12Script) start(c *c12Cmd) {
	cl := s.client
	p := strings.SplitN(c.kind, ".", 2)
	arg := ""
	if len(p) > 1 {
		arg = p[1]
	}
	mbox := func() string { n, _ := strconv.Atoi(arg); return c12Mboxes[n] }
	seqSet := func() imap.SeqSet {
		var ns []uint32
		for _, n := range c12Nums(arg) {
			ns = append(ns, uint32(n))
		}
		return imap.SeqSetNum(ns...)
	}
	uidSet := func() imap.UIDSet {
		var ns []imap.UID
		for _, n := range c12Nums(arg) {
			ns = append(ns, imap.UID(n))
		}
		return imap.UIDSetNum(ns...)
	}
	plain := func(cmd *imapclient.Command) func() {
		return func() { s.finish(c, cmd.Wait(), "-") }
	}
	fetch := func(cmd *imapclient.FetchCommand) func() {
		return func() {
			var msgs []string
			for {
				msg := cmd.Next()
				if msg == nil {
					break
				}
				buf, _ := msg.Collect()
				msgs = append(msgs, c12Msg(buf))
				s.mu.Lock()
				s.fetchSeen++
				s.cond.Broadcast()
				s.mu.Unlock()
			}
			err := cmd.Close()
			d := "-"
			if len(msgs) > 0 {
				d = strings.Join(msgs, "_")
			}
			s.finish(c, err, d)
		}
	}
	search := func(cmd *imapclient.SearchCommand) func() {
		return func() {
			data, err := cmd.Wait()
			var ns []int
			switch all := data.All.(type) {
			case imap.SeqSet:
				l, _ := all.Nums()
				for _, n := range l {
					ns = append(ns, int(n))
				}
			case imap.UIDSet:
				l, _ := all.Nums()
				for _, n := range l {
					ns = append(ns, int(n))
				}
			}
			s.finish(c, err, c12Join(ns, "_"))
		}
	}
	crit := &imap.SearchCriteria{Flag: []imap.Flag{imap.FlagSeen}}
	var observe func()
	run := func() {
		defer func() {
			if r := recover(); r != nil {
				observe = func() { s.finish(c, fmt.Errorf("panic"), "panic") }
			}
		}()
		switch p[0] {
		case "noop":
			observe = plain(cl.Noop())
		case "create":
			observe = plain(cl.Create("Work", nil))
		case "login":
			observe = plain(cl.Login("user", "pass"))
		case "loginlit":
			observe = plain(cl.Login("usér", "pass"))
		case "unsel":
			observe = plain(cl.Unselect())
		case "close":
			observe = plain(cl.UnselectAndExpunge())
		case "sel", "exa":
			cmd := cl.Select(mbox(), &imap.SelectOptions{ReadOnly: p[0] == "exa"})
			observe = func() {
				d, err := cmd.Wait()
				s.finish(c, err, fmt.Sprintf("n%df%sp%sv%dx%dl%s", d.NumMessages, c12FlagDigits(d.Flags),
					c12FlagDigits(d.PermanentFlags), d.UIDValidity, d.UIDNext, b01(d.List != nil)))
			}
		case "list":
			cmd := cl.List("", "*", nil)
			observe = func() {
				var ns []int
				for {
					d := cmd.Next()
					if d == nil {
						break
					}
					ns = append(ns, c12MboxID(d.Mailbox))
				}
				s.finish(c, cmd.Close(), c12Join(ns, "_"))
			}
		case "stat":
			cmd := cl.Status(mbox(), &imap.StatusOptions{NumMessages: true})
			observe = func() {
				d, err := cmd.Wait()
				out := "-"
				if d.NumMessages != nil {
					out = fmt.Sprintf("%d_%d", c12MboxID(d.Mailbox), *d.NumMessages)
				}
				s.finish(c, err, out)
			}
		case "srch":
			observe = search(cl.Search(crit, nil))
		case "usrch":
			observe = search(cl.UIDSearch(crit, nil))
		case "esrch":
			observe = search(cl.Search(crit, &imap.SearchOptions{ReturnAll: true}))
		case "uesrch":
			observe = search(cl.UIDSearch(crit, &imap.SearchOptions{ReturnAll: true}))
		case "fetch":
			observe = fetch(cl.Fetch(seqSet(), &imap.FetchOptions{Flags: true}))
		case "ufetch":
			observe = fetch(cl.Fetch(uidSet(), &imap.FetchOptions{Flags: true}))
		case "store":
			observe = fetch(cl.Store(seqSet(), &imap.StoreFlags{Op: imap.StoreFlagsAdd, Flags: []imap.Flag{imap.FlagSeen}}, nil))
		case "ustore":
			observe = fetch(cl.Store(uidSet(), &imap.StoreFlags{Op: imap.StoreFlagsAdd, Flags: []imap.Flag{imap.FlagSeen}}, nil))
		case "sstore", "usstore", "cstore", "ucstore":
			// silent STORE; c = with UNCHANGEDSINCE (a CONDSTORE server answers it with FETCH MODSEQ
			// data, other servers answer .SILENT stores anyway): the data belongs to the command
			var set imap.NumSet = seqSet()
			if p[0][0] == 'u' {
				set = uidSet()
			}
			var opts *imap.StoreOptions
			if strings.HasSuffix(p[0], "cstore") {
				opts = &imap.StoreOptions{UnchangedSince: 5}
			}
			observe = fetch(cl.Store(set, &imap.StoreFlags{Op: imap.StoreFlagsAdd, Silent: true, Flags: []imap.Flag{imap.FlagSeen}}, opts))
		case "expunge":
			cmd := cl.Expunge()
			observe = func() {
				var ns []int
				for {
					n := cmd.Next()
					if n == 0 {
						break
					}
					ns = append(ns, int(n))
				}
				s.finish(c, cmd.Close(), c12Join(ns, "_"))
			}
		case "cap":
			cmd := cl.Capability()
			observe = func() {
				caps, err := cmd.Wait()
				var ns []int
				for i, n := range c12Caps {
					if caps.Has(imap.Cap(n)) {
						ns = append(ns, i)
					}
				}
				s.finish(c, err, c12Join(ns, "_"))
			}
		case "append":
			cmd := cl.Append(mbox(), 5, nil)
			cmd.Write([]byte("hello"))
			cmd.Close()
			observe = func() {
				d, err := cmd.Wait()
				out := "-"
				if d.UID != 0 || d.UIDValidity != 0 {
					out = fmt.Sprintf("%d_%d", d.UIDValidity, d.UID)
				}
				s.finish(c, err, out)
			}
		default:
			panic("c12: unknown command " + c.kind)
		}
	}
	go func() {
		run()
		close(c.returned)
		observe()
	}()
}

// readWire reads one command line (up to CRLF) the client wrote; "" on deadline/EOF.
func (s *c12Script) readWire() string {
	s.sc.SetReadDeadline(time.Now().Add(s.left()))
	line, err := s.sr.ReadString('\n')
	if err != nil {
		s.expired = true
		return ""
	}
	return strings.TrimRight(line, "\r\n")
}

func c12WireTag(line string) string {
	f := strings.SplitN(line, " ", 2)
	if len(f) == 0 || !strings.HasPrefix(f[0], "T") {
		return "?"
	}
	return f[0][1:]
}

func c12LiteralSize(line string) int {
	if !strings.HasSuffix(line, "}") {
		return -1
	}
	i := strings.LastIndex(line, "{")
	if i < 0 {
		return -1
	}
	n, err := strconv.Atoi(strings.TrimSuffix(line[i+1:len(line)-1], "+"))
	if err != nil {
		return -1
	}
	return n
}

func (s *c12Script) send(line string) {
	if s.srvClosed {
		return
	}
	b := []byte(line + "\r\n")
	s.written += len(b)
	s.sc.Write(b)
}

// settle is the barrier after a server line.
func (s *c12Script) settle() {
	if s.dead {
		return
	}
	switch s.cc.awaitIdle(s.written, s.left()) {
	case "closed":
		s.markDead()
	case "timeout":
		s.expired = true
	}
}

// markDead: the client closed the connection; Close() returns once its reader goroutine (and the
// closeWithError it runs) is done; then every observer returns.
func (s *c12Script) markDead() {
	s.dead = true
	done := make(chan struct{})
	go func() { s.client.Close(); close(done) }()
	s.waitChan(done)
	for _, c := range s.cmds {
		if !c.auto {
			s.waitChan(c.finished)
		}
	}
}

func (s *c12Script) checkDead() {
	if s.dead {
		return
	}
	h := s.cc.memConn.r
	h.mu.Lock()
	closed := s.cc.clientClosedLocked()
	h.mu.Unlock()
	if closed {
		s.markDead()
	}
}

func c12CodeText(code string) string {
	switch {
	case code == "-":
		return ""
	case code[0] == 'o':
		id, _ := strconv.Atoi(code[1:])
		return "[" + c12Codes[id] + "] "
	case code[0] == 'c':
		return "[CAPABILITY" + c12CapText(code[1:]) + "] "
	case code[0] == 'a':
		p := strings.Split(code[1:], ".")
		return "[APPENDUID " + p[0] + " " + p[1] + "] "
	}
	panic("c12: bad code " + code)
}

func c12CapText(ids string) string {
	out := ""
	for _, n := range c12Nums(ids) {
		out += " " + c12Caps[n]
	}
	return out
}

// step executes one event and returns the observation.
func (s *c12Script) step(ev string) string {
	s.stepDeadline = time.Now().Add(c12Deadline)
	f := strings.Split(ev, ":")
	wire := "-"
	switch f[0] {
	case "s", "b":
		c := &c12Cmd{tag: len(s.cmds) + 1, kind: f[1], finished: make(chan struct{}), returned: make(chan struct{})}
		s.cmds = append(s.cmds, c)
		s.start(c)
		if s.dead {
			s.waitChan(c.returned)
			s.waitChan(c.finished)
			wire = fmt.Sprintf("w%d", c.tag)
			break
		}
		line := s.readWire()
		wire = "w" + c12WireTag(line)
		if f[0] == "b" {
			s.blocked = c
			s.litSize = c12LiteralSize(line)
			if s.litSize < 0 {
				wire += "!noliteral"
			}
		} else {
			if !s.waitChan(c.returned) {
				wire += "!stuck"
			}
			if c12LiteralSize(line) >= 0 {
				wire += "!literal"
			}
		}
		s.checkDead()
	case "a":
		c := &c12Cmd{tag: len(s.cmds) + 1, kind: "cap", auto: true}
		s.cmds = append(s.cmds, c)
		line := s.readWire()
		wire = "w" + c12WireTag(line)
		if !strings.HasSuffix(line, " CAPABILITY") {
			wire += "!notcap"
		}
	case "+":
		s.send("+ go ahead")
		s.settle()
		if c := s.blocked; c != nil && !s.dead {
			// literal bytes, then the rest of the command line
			s.sc.SetReadDeadline(time.Now().Add(s.left()))
			buf := make([]byte, s.litSize)
			for n := 0; n < len(buf); {
				k, err := s.sr.Read(buf[n:])
				if err != nil {
					s.expired = true
					break
				}
				n += k
			}
			s.readWire()
			s.waitChan(c.returned)
			s.blocked = nil
		}
	case "g":
		text := map[string]string{"ok": "* OK ", "preauth": "* PREAUTH ", "bye": "* BYE "}[f[1]]
		if len(f) > 2 {
			text += "[CAPABILITY IMAP4rev1] "
		}
		s.send(text + "scripted server")
		s.settle()
	case "t":
		tag, _ := strconv.Atoi(f[1])
		s.send(fmt.Sprintf("T%d %s %s%s", tag, strings.ToUpper(f[2]), c12CodeText(f[3]), "done"))
		s.settle()
		if tag >= 1 && tag <= len(s.cmds) {
			c := s.cmds[tag-1]
			if !c.auto && !c.reported {
				s.waitChan(c.finished)
			}
			if s.blocked == c {
				s.waitChan(c.returned)
				s.blocked = nil
				s.checkDead()
			}
		}
	case "y":
		s.send("* BYE shutting down")
		s.sc.Close()
		s.srvClosed = true
		switch s.cc.awaitIdle(-2, s.left()) {
		case "closed":
			s.markDead()
		case "timeout":
			s.expired = true
		}
	default:
		var line string
		switch f[0] {
		case "x":
			line = "* " + f[1] + " EXISTS"
		case "r":
			line = "* " + f[1] + " RECENT"
		case "e":
			line = "* " + f[1] + " EXPUNGE"
		case "f":
			line = "* FLAGS " + c12FlagList(f[1])
		case "p":
			line = "* OK [PERMANENTFLAGS " + c12FlagList(f[1]) + "] limited"
		case "un":
			line = "* OK [UIDNEXT " + f[1] + "] predicted"
		case "uv":
			line = "* OK [UIDVALIDITY " + f[1] + "] valid"
		case "m":
			uid := ""
			if f[2] != "0" {
				uid = "UID " + f[2] + " "
			}
			modseq := ""
			if len(f) > 4 {
				modseq = " MODSEQ (" + f[4] + ")"
			}
			line = "* " + f[1] + " FETCH (" + uid + "FLAGS " + c12FlagList(f[3]) + modseq + ")"
			s.fetchSent++
		case "c":
			line = "* OK [CLOSED] previous mailbox closed"
		case "i":
			line = []string{"* OK still here", "* OK [ALERT] look", "* NO warning", "* BAD what", "* OK [UNSEEN 3] first unseen",
				"* OK [HIGHESTMODSEQ 9] modseq", "* OK [CAPABILITY IMAP4rev1] caps"}[c12Atoi(f[1])]
		case "l":
			line = `* LIST () "/" ` + c12Mboxes[c12Atoi(f[1])]
		case "st":
			line = "* STATUS " + c12Mboxes[c12Atoi(f[1])] + " (MESSAGES " + f[2] + ")"
		case "sr":
			line = "* SEARCH"
			for _, n := range c12Nums(f[1]) {
				line += " " + strconv.Itoa(n)
			}
		case "es":
			line = "* ESEARCH"
			if f[1] != "0" {
				line += ` (TAG "T` + f[1] + `")`
			}
			if f[2] == "1" {
				line += " UID"
			}
			if ns := c12Nums(f[3]); len(ns) > 0 {
				line += " ALL " + c12Join(ns, ",")
			}
		case "cp":
			line = "* CAPABILITY" + c12CapText(f[1])
		default:
			panic("c12: unknown event " + ev)
		}
		s.send(line)
		s.settle()
		if f[0] == "m" && !s.dead {
			want := s.fetchSent
			s.waitCond(func() bool { return s.fetchSeen >= want })
		}
	}
	return s.observe() + "/" + wire
}

func c12Atoi(s string) int { n, _ := strconv.Atoi(s); return n }

func (s *c12Script) observe() string {
	st := map[imap.ConnState]string{imap.ConnStateNone: "n", imap.ConnStateNotAuthenticated: "u",
		imap.ConnStateAuthenticated: "a", imap.ConnStateSelected: "s", imap.ConnStateLogout: "l"}[s.client.State()]
	mb := "-"
	if m := s.client.Mailbox(); m != nil {
		mb = fmt.Sprintf("%d.%d.%s.%s", c12MboxID(m.Name), m.NumMessages, c12FlagDigits(m.Flags), c12FlagDigits(m.PermanentFlags))
	}
	s.mu.Lock()
	defer s.mu.Unlock()
	var done []string
	for _, c := range s.cmds {
		if c.auto || c.reported {
			continue
		}
		select {
		case <-c.finished:
			c.reported = true
			done = append(done, fmt.Sprintf("%d.%s.%d.%s", c.tag, c.status, c.code, c.data))
		default:
		}
	}
	d := "-"
	if len(done) > 0 {
		d = strings.Join(done, ",")
	}
	u := "-"
	if len(s.uni) > s.uniShown {
		u = strings.Join(s.uni[s.uniShown:], ",")
		s.uniShown = len(s.uni)
	}
	return st + "/" + mb + "/" + d + "/" + u
}

func (s *c12Script) close() {
	s.stepDeadline = time.Now().Add(c12Deadline)
	s.sc.Close()
	done := make(chan struct{})
	go func() { s.client.Close(); close(done) }()
	s.waitChan(done)
}

func c12Run(evs []string, alone bool) (caseLine, bool) {
	s := newC12Script()
	s.alone = alone
	defer s.close()
	var obs []string
	for _, ev := range evs {
		obs = append(obs, s.step(ev))
	}
	return caseLine{kind: "tr", fields: []string{strings.Join(evs, ";"), strings.Join(obs, ";")}}, s.expired
}

var c12Skipped = caseLine{kind: "skipped", fields: []string{"after-confirmed-hang"}, counts: []string{"skipped:after-confirmed-hang"}}

// c12RunChecked runs a case next to the others; if some wait expired, the case is run once more
// with nothing else running, and that second observation is the one that counts.
func c12RunChecked(evs []string) caseLine {
	c12Isolation.RLock()
	l, expired := c12Run(evs, false)
	c12Isolation.RUnlock()
	if !expired {
		return l
	}
	if atomic.LoadInt32(&c12Hangs) > 0 {
		// cut short because the verdict is settled: this observation says nothing
		return c12Skipped
	}
	c12Isolation.Lock()
	l, expired = c12Run(evs, true)
	c12Isolation.Unlock()
	if expired {
		atomic.AddInt32(&c12Hangs, 1)
		fmt.Fprintln(os.Stderr, "c12: a wait expired again with the case running alone:", strings.Join(evs, ";"))
	}
	return l
}

func replayC12(e *emitter, kind string, f []string) {
	l := c12RunChecked(strings.Split(f[0], ";"))
	e.emit(l.kind, l.fields...)
}

var c12Corpus = []string{
	// F18: unsolicited FLAGS must update Flags, not PermanentFlags
	"g:preauth:c;s:sel.0;x:3;f:01;p:016;t:1:ok:o3;f:0123;s:noop;t:2:ok:-",
	// F19: a refused synchronising literal must leave the connection usable
	"g:ok:c;b:loginlit;t:1:no:o6;s:noop;t:2:ok:-",
	"g:preauth:c;s:noop;b:append.0;t:2:no:o2;t:1:ok:-;s:noop;t:3:ok:-",
	// F20: a failed SELECT deselects
	"g:preauth:c;s:sel.0;x:3;f:01;t:1:ok:o3;s:sel.1;t:2:no:o5;s:noop;t:3:ok:-",
	"g:preauth:c;s:sel.0;x:3;f:01;t:1:ok:o3;s:sel.1;t:2:bad:-;s:noop;t:3:ok:-",
	// EXISTS after EXPUNGE inside one EXPUNGE command carries the final count
	"g:preauth:c;s:sel.0;x:10;t:1:ok:-;s:expunge;e:3;e:3;x:9;t:2:ok:-;s:noop;t:3:ok:-",
	// tags of different width pending together, answered in reverse order (T9 / T10)
	"g:preauth:c;s:noop;t:1:ok:-;s:noop;t:2:ok:-;s:noop;t:3:ok:-;s:noop;t:4:ok:-;s:noop;t:5:ok:-;s:noop;t:6:ok:-;s:noop;t:7:ok:-;s:noop;t:8:ok:-;s:noop;s:list;s:stat.1;st:1:4;t:11:ok:-;l:2;t:10:ok:-;t:9:ok:-;s:noop;t:12:ok:-",
	// FETCH data answering a silent STORE / UID STORE (with and without UNCHANGEDSINCE) belongs to it
	"g:preauth:c;s:sel.0;x:6;t:1:ok:-;s:sstore.2,3;m:2:0:01;m:5:0:3;m:3:0:0;t:2:ok:-;s:noop;t:3:ok:-",
	"g:preauth:c;s:sel.0;x:6;t:1:ok:-;s:ucstore.102,104;s:noop;m:4:104:01:9;t:3:ok:-;m:2:102:0:9;t:2:ok:-;s:noop;t:4:ok:-",
	// F29: after BYE no mailbox is selected
	"g:preauth:c;s:sel.0;x:3;t:1:ok:-;s:noop;y;s:noop",
}

func genC12(e *emitter, tier string, seed uint64) {
	n := 6000
	switch tier {
	case "thorough":
		n = 150000
	case "widen":
		n = 30000
	}
	for _, c := range c12Corpus {
		l := c12RunChecked(strings.Split(c, ";"))
		e.emit(l.kind, l.fields...)
	}
	base := newRng(seed, "C12")
	seeds := make([]uint64, n)
	for i := range seeds {
		seeds[i] = base.next()
	}
	parCases(e, n, func(i int) []caseLine {
		// after a hang confirmed in isolation the verdict is settled (it is a failing case with a
		// replay); waiting 2 x 30 s for every further one would only make the run endless
		if atomic.LoadInt32(&c12Hangs) >= 1 {
			return []caseLine{c12Skipped}
		}
		r := &rng{s: seeds[i]}
		evs, counts := c12Gen(r)
		l := c12RunChecked(evs)
		if l.kind != "skipped" {
			l.counts = counts
		}
		return []caseLine{l}
	})
}

// ---------------------------------------------------------------------------------------------
// generator: conformant transcripts (RFC 9051 §5.5, §7), plus a few deliberately non-conformant
// tails on which only the model is compared

type c12GCmd struct {
	tag     int
	kind    string // first component of the token
	uid     bool
	set     []int
	mbox    int
	plan    string // ok / no / bad
	given   map[int]bool
	data    int  // data responses sent so far
	closed  bool // SELECT: [CLOSED] sent / not needed
	rev1    bool // SELECT while selected on a server that does not announce [CLOSED]
	blocked bool
}

type c12G struct {
	r       *rng
	evs     []string
	counts  []string
	state   byte
	count   int // messages in the selected mailbox
	pend    []*c12GCmd
	next    int
	blocked *c12GCmd
	alive   bool
	budget  int
}

func (g *c12G) emit(ev string) { g.evs = append(g.evs, ev) }

func (g *c12G) flags() string {
	out := ""
	for d := 0; d < 6; d++ {
		if g.r.chance(2, 5) {
			out += strconv.Itoa(d)
		}
	}
	if out == "" {
		return "-"
	}
	return out
}

func (g *c12G) someFlags() string {
	if f := g.flags(); f != "-" {
		return f
	}
	return strconv.Itoa(g.r.intn(6))
}

func (g *c12G) permFlags() string {
	out := g.flags()
	if g.r.chance(1, 2) {
		if out == "-" {
			out = ""
		}
		out += "6"
	}
	return out
}

func (g *c12G) has(kinds ...string) bool {
	for _, c := range g.pend {
		for _, k := range kinds {
			if c.kind == k {
				return true
			}
		}
	}
	return false
}

func (g *c12G) onlyNeutral() bool {
	for _, c := range g.pend {
		if c.kind != "noop" && c.kind != "cap" {
			return false
		}
	}
	return true
}

func (g *c12G) stateChangerPending() bool { return g.has("login", "loginlit", "unsel", "close", "sel", "exa") }

func (g *c12G) code(st string) string {
	if g.r.chance(3, 5) {
		return "-"
	}
	if st == "ok" {
		return "o" + strconv.Itoa(pick(g.r, []int{1, 3, 4}))
	}
	return "o" + strconv.Itoa(pick(g.r, []int{1, 2, 5, 6, 7, 8}))
}

// submit chooses a command the application may issue now; false if none was issued.
func (g *c12G) submit() bool {
	if g.blocked != nil || g.has("sel", "exa") {
		return false
	}
	var opts []string
	add := func(k ...string) { opts = append(opts, k...) }
	neutralOnly := g.stateChangerPending()
	add("noop", "noop", "cap")
	if !neutralOnly {
		switch g.state {
		case 'u':
			if g.onlyNeutral() {
				add("login", "login", "loginlit", "loginlit")
			}
			add("create") // not permitted here: the server will refuse it
		case 'a':
			add("create", "list", "stat", "stat", "append", "append")
			if len(g.pend) == 0 {
				add("sel", "sel", "sel", "exa")
			}
			add("fetch") // not permitted here: refused
		case 's':
			add("create", "list", "stat", "append", "srch", "usrch", "esrch", "uesrch", "fetch", "fetch", "ufetch",
				"store", "ustore", "sstore", "usstore", "cstore", "ucstore", "expunge", "expunge")
			if len(g.pend) == 0 {
				add("sel", "sel", "exa")
			}
			if g.onlyNeutral() {
				add("unsel", "close")
			}
		}
	}
	for try := 0; try < 6; try++ {
		k := pick(g.r, opts)
		c := &c12GCmd{kind: k, given: map[int]bool{}}
		tok := k
		switch k {
		case "list", "expunge", "cap", "append":
			if g.has(k) {
				continue
			}
			if k == "append" {
				c.mbox = g.r.intn(3)
				tok = fmt.Sprintf("append.%d", c.mbox)
			}
		case "srch", "usrch":
			if g.has("srch", "usrch", "esrch", "uesrch") {
				continue
			}
			c.uid = k == "usrch"
		case "esrch", "uesrch":
			if g.has("srch", "usrch") {
				continue
			}
			c.uid = k == "uesrch"
		case "stat":
			c.mbox = g.r.intn(4)
			dup := false
			for _, p := range g.pend {
				if p.kind == "stat" && p.mbox == c.mbox {
					dup = true
				}
			}
			if dup {
				continue
			}
			tok = fmt.Sprintf("stat.%d", c.mbox)
		case "sel", "exa":
			c.mbox = g.r.intn(4)
			tok = fmt.Sprintf("%s.%d", k, c.mbox)
			c.closed = g.state != 's'
			c.rev1 = g.state == 's' && g.r.chance(1, 4)
		case "fetch", "store", "ufetch", "ustore", "sstore", "usstore", "cstore", "ucstore":
			c.uid = k[0] == 'u'
			base := 0
			if c.uid {
				base = 100
			}
			used := map[int]bool{}
			clash := false
			for _, p := range g.pend {
				if p.set != nil {
					if p.uid != c.uid {
						clash = true
					}
					for _, n := range p.set {
						used[n] = true
					}
				}
			}
			if clash {
				continue
			}
			for n := 1; n <= 6; n++ {
				if !used[base+n] && g.r.chance(2, 5) {
					c.set = append(c.set, base+n)
				}
			}
			if len(c.set) == 0 {
				continue
			}
			tok = k + "." + c12Join(c.set, ",")
		}
		// outcome planned at submission; commands not permitted in this state are refused
		permitted := true
		switch g.state {
		case 'u':
			permitted = k == "noop" || k == "cap" || k == "login" || k == "loginlit"
		case 'a':
			permitted = k != "fetch"
		}
		switch {
		case !permitted:
			c.plan = pick(g.r, []string{"no", "bad"})
		default:
			c.plan = pick(g.r, []string{"ok", "ok", "ok", "ok", "ok", "ok", "no", "no", "bad"})
		}
		g.next++
		c.tag = g.next
		g.pend = append(g.pend, c)
		g.counts = append(g.counts, "cmd:"+k)
		if k == "loginlit" || k == "append" {
			c.blocked = true
			g.blocked = c
			g.emit("b:" + tok)
		} else {
			g.emit("s:" + tok)
		}
		g.budget--
		return true
	}
	return false
}

func (g *c12G) remove(c *c12GCmd) {
	for i, p := range g.pend {
		if p == c {
			g.pend = append(g.pend[:i], g.pend[i+1:]...)
			return
		}
	}
}

// autoCap: the client asks for the capabilities by itself; the script answers at once.
func (g *c12G) autoCap() {
	g.next++
	g.emit("a:cap")
	g.emit("cp:0" + pick(g.r, []string{"", ",1", ",2,4"}))
	g.emit(fmt.Sprintf("t:%d:ok:-", g.next))
}

// reply sends the tagged reply planned for c.
func (g *c12G) reply(c *c12GCmd) {
	st := c.plan
	if c.blocked && st == "ok" {
		// the server accepts the literal first
		g.emit("+")
		c.blocked = false
		g.blocked = nil
		g.counts = append(g.counts, "literal:accepted")
		return
	}
	code := g.code(st)
	switch {
	case st == "ok" && (c.kind == "login" || c.kind == "loginlit") && g.r.chance(1, 2):
		code = "c0,2"
	case st == "ok" && c.kind == "append" && g.r.chance(2, 3):
		code = fmt.Sprintf("a%d.%d", 1+g.r.intn(9), 1+g.r.intn(50))
	}
	if c.blocked {
		g.blocked = nil
		c.blocked = false
		g.counts = append(g.counts, "literal:refused")
	}
	g.emit(fmt.Sprintf("t:%d:%s:%s", c.tag, st, code))
	g.counts = append(g.counts, "reply:"+st)
	g.remove(c)
	switch c.kind {
	case "login", "loginlit":
		if st == "ok" {
			g.state = 'a'
			if code[0] != 'c' {
				g.autoCap()
			}
		}
	case "sel", "exa":
		if st == "ok" {
			g.state = 's'
			g.count = c.data // EXISTS value sent (0 if none)
		} else if st == "no" && g.state == 's' {
			g.state = 'a'
		}
	case "unsel", "close":
		if st == "ok" {
			g.state = 'a'
		}
	}
}

// data sends one response that answers c; false if there is nothing (more) to send for it.
func (g *c12G) data(c *c12GCmd) bool {
	if c.blocked {
		return false
	}
	if c.plan != "ok" && !(c.plan == "no" && g.r.chance(1, 4)) {
		return false
	}
	switch c.kind {
	case "sel", "exa":
		if !c.closed {
			if c.rev1 {
				if c.plan != "ok" {
					return false
				}
				g.counts = append(g.counts, "select:rev1-no-closed")
			} else {
				g.emit("c")
				g.state = 'a'
				c.closed = true
				return true
			}
			c.closed = true
		}
		switch g.r.intn(7) {
		case 0, 1:
			n := g.r.intn(8)
			c.data = n
			g.emit(fmt.Sprintf("x:%d", n))
		case 2:
			g.emit(fmt.Sprintf("r:%d", g.r.intn(3)))
		case 3:
			g.emit("f:" + g.flags())
		case 4:
			g.emit("p:" + g.permFlags())
		case 5:
			g.emit(fmt.Sprintf("%s:%d", pick(g.r, []string{"uv", "un"}), 1+g.r.intn(90)))
		case 6:
			if g.given(c, 0) {
				return false
			}
			g.emit(fmt.Sprintf("l:%d", c.mbox))
		}
	case "list":
		if c.data >= 3 {
			return false
		}
		c.data++
		g.emit(fmt.Sprintf("l:%d", g.r.intn(4)))
	case "stat":
		if c.data >= 1 {
			return false
		}
		c.data++
		g.emit(fmt.Sprintf("st:%d:%d", c.mbox, g.r.intn(30)))
	case "srch", "usrch":
		if c.data >= 2 {
			return false
		}
		c.data++
		var ns []int
		for n := 1; n <= 9; n++ {
			if g.r.chance(1, 3) {
				ns = append(ns, n)
			}
		}
		g.r.shuffle(ns)
		g.emit("sr:" + c12Join(ns, ","))
	case "esrch", "uesrch":
		if c.data >= 1 {
			return false
		}
		c.data++
		var ns []int
		for n := 1; n <= 9; n++ {
			if g.r.chance(1, 3) {
				ns = append(ns, n)
			}
		}
		// RFC 4731: the response to an extended SEARCH always carries the TAG correlator
		g.emit(fmt.Sprintf("es:%d:%s:%s", c.tag, b01(c.uid), c12Join(ns, ",")))
	case "fetch", "store", "ufetch", "ustore", "sstore", "usstore", "cstore", "ucstore":
		var left []int
		for _, n := range c.set {
			if !c.given[n] {
				left = append(left, n)
			}
		}
		if len(left) == 0 {
			return false
		}
		n := pick(g.r, left)
		c.given[n] = true
		seq, uid := n, 0
		if c.uid {
			seq, uid = n-100, n
		} else if g.r.chance(1, 3) {
			uid = 100 + n
		}
		if strings.HasSuffix(c.kind, "cstore") {
			g.emit(fmt.Sprintf("m:%d:%d:%s:%d", seq, uid, g.flags(), 6+g.r.intn(20))) // with the new MODSEQ
		} else {
			g.emit(fmt.Sprintf("m:%d:%d:%s", seq, uid, g.flags()))
		}
	case "expunge":
		if g.state != 's' || g.count == 0 || g.seqCmdPending() || c.data >= 3 {
			return false
		}
		c.data++
		g.emit(fmt.Sprintf("e:%d", 1+g.r.intn(g.count)))
		g.count--
	case "cap":
		if c.data >= 1 {
			return false
		}
		c.data++
		g.emit("cp:0" + pick(g.r, []string{"", ",1", ",2,3", ",1,4,5"}))
	default:
		return false
	}
	g.counts = append(g.counts, "data:"+c.kind)
	return true
}

func (g *c12G) given(c *c12GCmd, k int) bool {
	if c.given[k] {
		return true
	}
	c.given[k] = true
	return false
}

func (g *c12G) countKind(kinds ...string) int {
	n := 0
	for _, c := range g.pend {
		for _, k := range kinds {
			if c.kind == k {
				n++
			}
		}
	}
	return n
}

func (g *c12G) seqCmdPending() bool { return g.has("fetch", "store", "sstore", "cstore", "srch", "esrch") }

// unsolicited sends one unilateral response permitted now; false if none.
func (g *c12G) unsolicited() bool {
	selecting := g.has("sel", "exa")
	if g.state != 's' || selecting {
		if g.r.chance(2, 3) {
			return false
		}
		g.emit(fmt.Sprintf("i:%d", g.r.intn(7)))
		g.counts = append(g.counts, "unsolicited:info")
		return true
	}
	switch k := g.r.intn(12); {
	case k < 2:
		g.count += g.r.intn(3)
		g.emit(fmt.Sprintf("x:%d", g.count))
		g.counts = append(g.counts, "unsolicited:exists")
	case k < 4:
		if len(g.pend) == 0 || g.count == 0 || g.seqCmdPending() {
			return false
		}
		g.emit(fmt.Sprintf("e:%d", 1+g.r.intn(g.count)))
		g.count--
		g.counts = append(g.counts, "unsolicited:expunge")
	case k < 6:
		// (an empty list cannot be told from "unchanged" in UnilateralDataMailbox)
		g.emit("f:" + g.someFlags())
		g.counts = append(g.counts, "unsolicited:flags")
	case k < 7:
		g.emit("p:" + g.someFlags() + pick(g.r, []string{"", "6"}))
		g.counts = append(g.counts, "unsolicited:permanentflags")
	case k < 10:
		// a message no pending FETCH/STORE asked for, or one it has been given already
		seq := 1 + g.r.intn(9)
		uid := 0
		if g.r.chance(1, 2) {
			uid = 100 + seq
		}
		for _, c := range g.pend {
			for _, n := range c.set {
				if !c.given[n] && (n == seq || n == uid) {
					return false
				}
			}
		}
		g.emit(fmt.Sprintf("m:%d:%d:%s", seq, uid, g.flags()))
		g.counts = append(g.counts, "unsolicited:fetch")
	case k < 11:
		g.emit(fmt.Sprintf("i:%d", g.r.intn(7)))
		g.counts = append(g.counts, "unsolicited:info")
	default:
		if g.r.chance(1, 3) {
			g.emit("c")
			g.state = 'a'
			g.counts = append(g.counts, "unsolicited:closed")
			// commands that need a selected mailbox will now be refused
			for _, c := range g.pend {
				switch c.kind {
				case "noop", "cap", "create", "list", "stat", "append":
				default:
					c.plan = "no"
				}
			}
		} else {
			g.emit(fmt.Sprintf("r:%d", g.r.intn(4)))
		}
	}
	return true
}

func (r *rng) shuffle(xs []int) {
	for i := len(xs) - 1; i > 0; i-- {
		j := r.intn(i + 1)
		xs[i], xs[j] = xs[j], xs[i]
	}
}

func c12Gen(r *rng) ([]string, []string) {
	g := &c12G{r: r, state: 'n', alive: true, budget: pick(r, []int{1, 2, 2, 3, 3, 3, 4, 4})}
	switch k := r.intn(40); {
	case k < 26:
		g.emit("g:preauth:c")
		g.state = 'a'
	case k < 35:
		g.emit("g:ok:c")
		g.state = 'u'
	case k < 37:
		g.emit("g:ok")
		g.state = 'u'
		g.autoCap()
	case k < 39:
		g.emit("g:preauth")
		g.state = 'a'
		g.autoCap()
	default:
		g.emit("g:bye")
		g.alive = false
	}
	g.counts = append(g.counts, "greeting:"+g.evs[0])
	// most transcripts start from a selected mailbox: that is where the updates are
	if g.alive && g.state == 'u' && r.chance(3, 4) {
		g.next++
		g.emit("s:login")
		code := pick(r, []string{"-", "c0,2", "c0"})
		g.emit(fmt.Sprintf("t:%d:ok:%s", g.next, code))
		g.state = 'a'
		if code == "-" {
			g.autoCap()
		}
	}
	if g.alive && g.state == 'a' && r.chance(3, 4) {
		g.next++
		g.emit(fmt.Sprintf("s:sel.%d", r.intn(4)))
		g.count = 1 + r.intn(7)
		g.emit(fmt.Sprintf("x:%d", g.count))
		g.emit("f:" + g.flags())
		if r.chance(2, 3) {
			g.emit("p:" + g.permFlags())
		}
		g.emit(fmt.Sprintf("t:%d:ok:o3", g.next))
		g.state = 's'
	}
	// warm-up: earlier commands on the same connection, so that the tags of the pipelined commands
	// are not always the first few (T9/T10, T99/T100 sort differently as strings and as numbers)
	if g.alive {
		warm := r.intn(13)
		if r.chance(1, 20) {
			warm = 95 + r.intn(11)
		}
		for i := 0; i < warm; i++ {
			g.next++
			g.emit("s:noop")
			g.emit(fmt.Sprintf("t:%d:ok:-", g.next))
		}
		g.counts = append(g.counts, fmt.Sprintf("warmup:%d", warm/10*10))
	}
	nonconf := ""
	if r.chance(1, 25) {
		nonconf = pick(r, []string{"dup-reply", "stray-cont", "unknown-tag"})
	}
	steps, depth := 0, 0
	for g.alive && (g.budget > 0 || len(g.pend) > 0) && steps < 60 {
		steps++
		if len(g.pend) > depth {
			depth = len(g.pend)
		}
		if r.chance(1, 300) {
			g.emit("y")
			g.alive = false
			g.counts = append(g.counts, "unsolicited:bye")
			break
		}
		if nonconf != "" && steps > 2 && r.chance(1, 4) {
			switch nonconf {
			case "dup-reply":
				if g.next > len(g.pend) {
					// a tag that has been answered already
					for t := 1; t <= g.next; t++ {
						live := false
						for _, c := range g.pend {
							if c.tag == t {
								live = true
							}
						}
						if !live {
							g.emit(fmt.Sprintf("t:%d:ok:-", t))
							g.alive = false
							break
						}
					}
				}
			case "stray-cont":
				if g.blocked == nil {
					g.emit("+")
					g.alive = false
				}
			case "unknown-tag":
				g.emit(fmt.Sprintf("t:%d:no:-", g.next+3))
				g.alive = false
			}
			if !g.alive {
				g.counts = append(g.counts, "nonconformant:"+nonconf)
				break
			}
		}
		k := r.intn(10)
		switch {
		case k < 5 && g.budget > 0:
			if g.submit() {
				continue
			}
			fallthrough
		case k < 7 && len(g.pend) > 0:
			if len(g.pend) > 0 && g.data(pick(r, g.pend)) {
				continue
			}
			fallthrough
		case k < 9:
			if g.unsolicited() {
				continue
			}
			fallthrough
		default:
			if len(g.pend) > 0 {
				c := pick(r, g.pend)
				if g.blocked != nil {
					c = g.blocked
					if r.chance(1, 3) && len(g.pend) > 1 {
						c = pick(r, g.pend) // other commands may be answered while a literal is outstanding
					}
				}
				g.reply(c)
			} else if g.budget > 0 {
				g.submit()
			}
		}
	}
	// drain what is still pending (step limit)
	for g.alive && len(g.pend) > 0 {
		c := g.pend[0]
		if g.blocked != nil {
			c = g.blocked
		}
		g.reply(c)
	}
	// the connection must still be usable
	g.next++
	g.emit("s:noop")
	if g.alive {
		g.emit(fmt.Sprintf("t:%d:ok:-", g.next))
	}
	g.counts = append(g.counts, fmt.Sprintf("len:%d", len(g.evs)/10*10), fmt.Sprintf("pipelined:%d", depth))
	return g.evs, g.counts
}
