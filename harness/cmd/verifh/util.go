package main

func b01(b bool) string {
	if b {
		return "1"
	}
	return "0"
}

type discardLogger struct{}

func (discardLogger) Printf(string, ...interface{}) {}
