//go:build c10 || allprops

package main

import (
	"bytes"
	"crypto/tls"
	"fmt"
	"strings"

	"github.com/emersion/go-imap/v2"
	"github.com/emersion/go-imap/v2/imapclient"
	"github.com/emersion/go-sasl"
)

// Scenarios of C10: a server transcript (played by the scripted peer) and the caller's program.
// Tags are T1, T2, ... in issue order; every greeting / LOGIN completion carries a CAPABILITY
// code so that the client never issues a CAPABILITY command of its own (tags stay deterministic).

type waiter interface{ Wait() error }

func c10Greeting(b *c10B) {
	b.greet()
	b.phaseRet('G', 0, func(x *c10Ctx) error { return x.c.WaitGreeting() })
}

// c10Simple: one command without streamed data: issue, R(1), lines, tagged, Wait.
func c10Simple(b *c10B, issue func(c *imapclient.Client) func() error, ok bool, tagText string, lines ...string) {
	n := b.cmd("s")
	var wait func() error
	b.phaseRet('i', n, func(x *c10Ctx) error { wait = issue(x.c); return nil })
	b.R(1)
	for _, l := range lines {
		b.line(n, l)
	}
	b.tagged(n, ok, tagText)
	b.phase('W', n, func(x *c10Ctx) error { return wait() })
}

func c10Lit(n int) []byte {
	return bytes.Repeat([]byte("abcdefghijklmnopqrstuvwxyz012345"), n/32+1)[:n]
}

func c10ReadLiteral(r imap.LiteralReader) {
	if r == nil {
		return
	}
	buf := make([]byte, 7)
	for {
		if _, err := r.Read(buf); err != nil {
			return
		}
	}
}

// c10Stream adds the consumption phases of a streaming command according to the mode:
// C collect, N explicit Next loop (reading literals) then Close, X Close only.
func c10Stream(b *c10B, n int, mode string, collect func() error, loop, skip func(), close_ func() error) {
	switch mode {
	case "C":
		b.phase('C', n, func(x *c10Ctx) error { return collect() })
	case "N":
		b.phaseRet('N', n, func(x *c10Ctx) error { loop(); return nil })
		b.phase('X', n, func(x *c10Ctx) error { return close_() })
	case "K": // Next loop that skips the literals (the next Next call discards them)
		b.phaseRet('N', n, func(x *c10Ctx) error { skip(); return nil })
		b.phase('X', n, func(x *c10Ctx) error { return close_() })
	default:
		b.phase('X', n, func(x *c10Ctx) error { return close_() })
	}
}

func c10FetchPhases(b *c10B, n int, mode string, get func() *imapclient.FetchCommand) {
	c10Stream(b, n, mode,
		func() error { _, err := get().Collect(); return err },
		func() {
			cmd := get()
			for {
				msg := cmd.Next()
				if msg == nil {
					return
				}
				for {
					it := msg.Next()
					if it == nil {
						break
					}
					switch it := it.(type) {
					case imapclient.FetchItemDataBodySection:
						c10ReadLiteral(it.Literal)
					case imapclient.FetchItemDataBinarySection:
						c10ReadLiteral(it.Literal)
					}
				}
			}
		},
		func() {
			cmd := get()
			for {
				msg := cmd.Next()
				if msg == nil {
					return
				}
				for msg.Next() != nil {
				}
			}
		},
		func() error { return get().Close() })
}

var c10BodyOpts = &imap.FetchOptions{UID: true, BodySection: []*imap.FetchItemBodySection{{}}}

// c10Fetch: FETCH 1:n BODY[] with one response per literal size given.
func c10Fetch(b *c10B, mode string, sizes ...int) int {
	n := b.cmd("f")
	var cmd *imapclient.FetchCommand
	b.phaseRet('i', n, func(x *c10Ctx) error {
		cmd = x.c.Fetch(imap.SeqSet{imap.SeqRange{Start: 1, Stop: uint32(len(sizes))}}, c10BodyOpts)
		return nil
	})
	b.R(1)
	for i, sz := range sizes {
		b.fetch(n, fmt.Sprintf("* %d FETCH (UID %d BODY[] ", i+1, 100+i), c10Lit(sz), ")")
	}
	b.tagged(n, true, "OK FETCH completed")
	c10FetchPhases(b, n, mode, func() *imapclient.FetchCommand { return cmd })
	return n
}

func c10Login(b *c10B) {
	c10Simple(b, func(c *imapclient.Client) func() error { return c.Login("user", "pass").Wait }, true,
		"OK [CAPABILITY "+c10Caps+"] logged in")
}

func c10Select(b *c10B) {
	c10Simple(b, func(c *imapclient.Client) func() error {
		cmd := c.Select("INBOX", nil)
		return func() error { _, err := cmd.Wait(); return err }
	}, true, "OK [READ-WRITE] SELECT completed",
		"* 3 EXISTS", `* FLAGS (\Seen)`, `* OK [PERMANENTFLAGS (\Seen \*)] ok`, "* OK [UIDVALIDITY 1] ok")
}

func c10Scenarios() []c10Scenario {
	one := []string{"-"}
	cnx := []string{"C", "N", "X"}
	var l []c10Scenario
	add := func(name string, quick bool, modes []string, build func(b *c10B, mode string)) {
		l = append(l, c10Scenario{name: name, quick: quick, modes: modes, build: build})
	}
	simple := func(name string, quick bool, issue func(c *imapclient.Client) func() error, ok bool, tagText string, lines ...string) {
		add(name, quick, one, func(b *c10B, mode string) {
			c10Greeting(b)
			c10Simple(b, issue, ok, tagText, lines...)
		})
	}

	simple("noop", true, func(c *imapclient.Client) func() error { return c.Noop().Wait }, true, "OK NOOP completed", "* 4 EXISTS")
	add("nogreetwait", false, one, func(b *c10B, mode string) { // command issued before the greeting arrives
		var w func() error
		n := b.cmd("s")
		b.phaseRet('i', n, func(x *c10Ctx) error { w = x.c.Noop().Wait; return nil })
		b.R(1)
		b.greet()
		b.tagged(n, true, "OK NOOP completed")
		b.phase('W', n, func(x *c10Ctx) error { return w() })
	})
	add("login", true, one, func(b *c10B, mode string) { c10Greeting(b); c10Login(b) })
	simple("login-no", false, func(c *imapclient.Client) func() error { return c.Login("user", "bad").Wait }, false,
		"NO [AUTHENTICATIONFAILED] invalid credentials")
	add("login-literal", true, one, func(b *c10B, mode string) {
		c10Greeting(b)
		n := b.cmd("g")
		var w func() error
		b.phaseRet('J', n, func(x *c10Ctx) error { w = x.c.Login("usér", "pass").Wait; return nil })
		b.R(1)
		b.cont(n, "+ go ahead")
		b.R(1)
		b.tagged(n, true, "OK [CAPABILITY "+c10Caps+"] logged in")
		b.phase('W', n, func(x *c10Ctx) error { return w() })
	})
	add("auth-plain", true, one, func(b *c10B, mode string) {
		c10Greeting(b)
		n := b.cmd("u")
		b.R(1)
		b.cont(n, "+ ")
		b.R(1)
		b.tagged(n, true, "OK [CAPABILITY "+c10Caps+"] authenticated")
		b.phase('U', n, func(x *c10Ctx) error { return x.c.Authenticate(sasl.NewPlainClient("", "user", "pass")) })
	})
	// the server completes AUTHENTICATE right after its challenge, without waiting for the SASL
	// response: the client may register the continuation request for its answer after the command
	// was completed; only the end of the connection releases that request
	add("auth-eager", true, one, func(b *c10B, mode string) {
		c10Greeting(b)
		n := b.cmd("u")
		b.R(1)
		b.cont(n, "+ ")
		b.tagged(n, true, "OK [CAPABILITY "+c10Caps+"] authenticated")
		b.R(1) // the SASL response is on the wire before the connection is cut any later
		b.line(0, "* OK still here")
		b.phase('U', n, func(x *c10Ctx) error { return x.c.Authenticate(sasl.NewPlainClient("", "user", "pass")) })
	})
	l[len(l)-1].noHealthy = true
	// a command issued after the connection died (the first one's wait has reported the failure)
	add("sequence2", true, one, func(b *c10B, mode string) {
		c10Greeting(b)
		c10Simple(b, func(c *imapclient.Client) func() error { return c.Noop().Wait }, true, "OK NOOP completed")
		c10Simple(b, func(c *imapclient.Client) func() error {
			cmd := c.Status("INBOX", &imap.StatusOptions{NumMessages: true})
			return func() error { _, err := cmd.Wait(); return err }
		}, true, "OK STATUS completed", "* STATUS INBOX (MESSAGES 3)")
	})
	add("auth-plain-no", false, one, func(b *c10B, mode string) {
		c10Greeting(b)
		n := b.cmd("u")
		b.R(1)
		b.cont(n, "+ ")
		b.R(1)
		b.tagged(n, false, "NO [AUTHENTICATIONFAILED] no")
		b.phase('U', n, func(x *c10Ctx) error { return x.c.Authenticate(sasl.NewPlainClient("", "user", "bad")) })
	})
	starttls := func(name string, quick, ok bool, text string) {
		add(name, quick, one, func(b *c10B, mode string) {
			b.noNew = true
			b.greet()
			n := b.cmd("t")
			b.R(1)
			b.tagged(n, ok, text)
			b.phase('S', n, func(x *c10Ctx) error {
				c, err := imapclient.NewStartTLS(x.conn, &imapclient.Options{TLSConfig: &tls.Config{InsecureSkipVerify: true}})
				if c != nil {
					x.setClient(c)
				}
				return err
			})
		})
	}
	starttls("starttls-no", true, false, "NO STARTTLS not available")
	starttls("starttls-bad", false, false, "BAD unknown command")
	// the server accepts STARTTLS and then never speaks TLS: the handshake stalls until the caller closes
	starttls("starttls-ok", true, true, "OK begin TLS")
	add("select", true, one, func(b *c10B, mode string) { c10Greeting(b); c10Select(b) })
	add("list", true, cnx, func(b *c10B, mode string) {
		c10Greeting(b)
		n := b.cmd("l")
		var cmd *imapclient.ListCommand
		b.phaseRet('i', n, func(x *c10Ctx) error { cmd = x.c.List("", "*", nil); return nil })
		b.R(1)
		b.line(n, `* LIST (\HasNoChildren) "/" INBOX`)
		b.line(n, `* LIST () "/" "A/2023"`)
		b.tagged(n, true, "OK LIST completed")
		c10Stream(b, n, mode,
			func() error { _, err := cmd.Collect(); return err },
			func() {
				for cmd.Next() != nil {
				}
			},
			func() {
				for cmd.Next() != nil {
				}
			},
			func() error { return cmd.Close() })
	})
	simple("status", true, func(c *imapclient.Client) func() error {
		cmd := c.Status("INBOX", &imap.StatusOptions{NumMessages: true, UIDNext: true})
		return func() error { _, err := cmd.Wait(); return err }
	}, true, "OK STATUS completed", "* STATUS INBOX (MESSAGES 3 UIDNEXT 9)")
	simple("search", true, func(c *imapclient.Client) func() error {
		cmd := c.Search(&imap.SearchCriteria{}, nil)
		return func() error { _, err := cmd.Wait(); return err }
	}, true, "OK SEARCH completed", "* SEARCH 1 2 5 8")
	simple("esearch", false, func(c *imapclient.Client) func() error {
		cmd := c.UIDSearch(&imap.SearchCriteria{}, &imap.SearchOptions{ReturnAll: true})
		return func() error { _, err := cmd.Wait(); return err }
	}, true, "OK SEARCH completed", `* ESEARCH (TAG "T1") UID ALL 1:3,9`)
	for _, sz := range []int{0, 1, 5, 40, 300, 5000} {
		sz := sz
		quick := sz == 5 || sz == 40
		l = append(l, c10Scenario{name: fmt.Sprintf("fetch-lit%d", sz), quick: quick, modes: cnx, sample: true, allModesQuick: sz == 5,
			build: func(b *c10B, mode string) { c10Greeting(b); c10Fetch(b, mode, sz) }})
	}
	l = append(l, c10Scenario{name: "fetch-two-msgs", quick: false, modes: cnx, sample: true,
		build: func(b *c10B, mode string) { c10Greeting(b); c10Fetch(b, mode, 9, 70) }})
	add("fetch-two-lits", true, cnx, func(b *c10B, mode string) {
		c10Greeting(b)
		n := b.cmd("f")
		var cmd *imapclient.FetchCommand
		b.phaseRet('i', n, func(x *c10Ctx) error {
			cmd = x.c.Fetch(imap.SeqSetNum(1), &imap.FetchOptions{UID: true, BodySection: []*imap.FetchItemBodySection{
				{Specifier: imap.PartSpecifierHeader}, {Specifier: imap.PartSpecifierText}}})
			return nil
		})
		b.R(1)
		b.fetch(n, "* 1 FETCH (UID 7 BODY[HEADER] ", c10Lit(11), " BODY[TEXT] ", c10Lit(6), " FLAGS (\\Seen))")
		b.tagged(n, true, "OK FETCH completed")
		c10FetchPhases(b, n, mode, func() *imapclient.FetchCommand { return cmd })
	})
	add("fetch-flags", false, cnx, func(b *c10B, mode string) { // FETCH without any literal
		c10Greeting(b)
		n := b.cmd("f")
		var cmd *imapclient.FetchCommand
		b.phaseRet('i', n, func(x *c10Ctx) error {
			cmd = x.c.Fetch(imap.SeqSet{imap.SeqRange{Start: 1, Stop: 2}}, &imap.FetchOptions{UID: true, Flags: true})
			return nil
		})
		b.R(1)
		b.fetch(n, `* 1 FETCH (UID 7 FLAGS (\Seen))`)
		b.fetch(n, `* 2 FETCH (UID 8 FLAGS ())`)
		b.tagged(n, true, "OK FETCH completed")
		c10FetchPhases(b, n, mode, func() *imapclient.FetchCommand { return cmd })
	})
	cnkx := []string{"C", "N", "K", "X"}
	// empty sections: a zero-length literal and an empty quoted string still have to be "read" by
	// the consumer (or discarded for it) before the reader goroutine goes on
	add("fetch-empty", true, cnkx, func(b *c10B, mode string) {
		c10Greeting(b)
		n := b.cmd("f")
		var cmd *imapclient.FetchCommand
		b.phaseRet('i', n, func(x *c10Ctx) error {
			cmd = x.c.Fetch(imap.SeqSetNum(1), &imap.FetchOptions{UID: true, BodySection: []*imap.FetchItemBodySection{
				{Specifier: imap.PartSpecifierHeader}, {Specifier: imap.PartSpecifierText}}})
			return nil
		})
		b.R(1)
		b.fetch(n, "* 1 FETCH (UID 7 BODY[HEADER] ", []byte{}, " BODY[TEXT] ", c10Quoted(""), ")")
		b.tagged(n, true, "OK done")
		c10FetchPhases(b, n, mode, func() *imapclient.FetchCommand { return cmd })
	})
	l[len(l)-1].allModesQuick = true
	add("fetch-quoted", false, cnkx, func(b *c10B, mode string) {
		c10Greeting(b)
		n := b.cmd("f")
		var cmd *imapclient.FetchCommand
		b.phaseRet('i', n, func(x *c10Ctx) error {
			cmd = x.c.Fetch(imap.SeqSet{imap.SeqRange{Start: 1, Stop: 2}}, c10BodyOpts)
			return nil
		})
		b.R(1)
		b.fetch(n, "* 1 FETCH (UID 7 BODY[] ", c10Quoted("hello"), ")")
		b.fetch(n, "* 2 FETCH (BODY[] ", c10Quoted(""), " UID 8)")
		b.tagged(n, true, "OK done")
		c10FetchPhases(b, n, mode, func() *imapclient.FetchCommand { return cmd })
	})
	add("fetch-binary-empty", false, cnkx, func(b *c10B, mode string) {
		c10Greeting(b)
		n := b.cmd("f")
		var cmd *imapclient.FetchCommand
		b.phaseRet('i', n, func(x *c10Ctx) error {
			cmd = x.c.Fetch(imap.SeqSetNum(1), &imap.FetchOptions{UID: true,
				BinarySection: []*imap.FetchItemBinarySection{{Part: []int{1}}}})
			return nil
		})
		b.R(1)
		b.fetch(n, "* 1 FETCH (UID 7 BINARY[1] ~", []byte{}, ")")
		b.tagged(n, true, "OK done")
		c10FetchPhases(b, n, mode, func() *imapclient.FetchCommand { return cmd })
	})
	// one FETCH response with more literal-free attributes than the message's item channel holds
	add("fetch-many-atts", true, []string{"C", "X", "N"}, func(b *c10B, mode string) {
		c10Greeting(b)
		n := b.cmd("f")
		var cmd *imapclient.FetchCommand
		b.phaseRet('i', n, func(x *c10Ctx) error {
			cmd = x.c.Fetch(imap.SeqSetNum(1), &imap.FetchOptions{UID: true, Flags: true})
			return nil
		})
		b.R(1)
		b.fetch(n, "* 1 FETCH ("+strings.Repeat("UID 7 ", 20)+strings.Repeat("FLAGS () ", 20)+"UID 7)")
		b.tagged(n, true, "OK done")
		c10FetchPhases(b, n, mode, func() *imapclient.FetchCommand { return cmd })
	})
	l[len(l)-1].quickStride = 4
	// The greeting carries no CAPABILITY code: a background goroutine of the client sends CAPABILITY
	// (T1) by itself. In the abstract shape that command is a stream command ("l") which the phase
	// N1 = Client.Caps() waits for: Caps blocks until the refresh has completed and has no error
	// result. Afterwards the caller makes the calls that consult Caps() internally.
	capsRefresh := func(name string, quick bool, refresh func(b *c10B, n int), after func(b *c10B)) {
		add(name, quick, one, func(b *c10B, mode string) {
			b.greetNoCaps()
			b.phaseRet('G', 0, func(x *c10Ctx) error { return x.c.WaitGreeting() })
			n := b.cmd("l")
			b.phaseRet('i', n, func(x *c10Ctx) error { return nil }) // issued by the client itself
			b.R(1)
			refresh(b, n)
			b.phaseRet('N', n, func(x *c10Ctx) error { x.c.Caps(); return nil })
			after(b)
		})
	}
	refreshNo := func(b *c10B, n int) { b.tagged(n, false, "NO not now") }
	refreshBad := func(b *c10B, n int) { b.tagged(n, false, "BAD what") }
	refreshOK := func(b *c10B, n int) {
		b.line(n, "* CAPABILITY "+c10Caps)
		b.tagged(n, true, "OK done")
	}
	thenSearch := func(b *c10B) {
		c10Simple(b, func(c *imapclient.Client) func() error {
			cmd := c.Search(&imap.SearchCriteria{}, nil)
			return func() error { _, err := cmd.Wait(); return err }
		}, true, "OK SEARCH completed", "* SEARCH 2 4")
	}
	thenAuth := func(b *c10B) {
		n := b.cmd("u")
		b.R(1)
		b.cont(n, "+ ")
		b.R(1)
		b.tagged(n, true, "OK [CAPABILITY "+c10Caps+"] authenticated")
		b.phase('U', n, func(x *c10Ctx) error { return x.c.Authenticate(sasl.NewPlainClient("", "user", "pass")) })
	}
	thenCaps := func(b *c10B) {
		b.phaseRet('G', 0, func(x *c10Ctx) error { x.c.Caps(); return nil })
		c10Simple(b, func(c *imapclient.Client) func() error { return c.Noop().Wait }, true, "OK NOOP completed")
	}
	capsRefresh("caps-refresh-no-search", true, refreshNo, thenSearch)
	capsRefresh("caps-refresh-no-auth", true, refreshNo, thenAuth)
	capsRefresh("caps-refresh-bad-caps", false, refreshBad, thenCaps)
	capsRefresh("caps-refresh-ok-search", false, refreshOK, thenSearch)
	capsRefresh("caps-refresh-ok-auth", false, refreshOK, thenAuth)
	add("store", true, []string{"C", "X"}, func(b *c10B, mode string) {
		c10Greeting(b)
		n := b.cmd("f")
		var cmd *imapclient.FetchCommand
		b.phaseRet('i', n, func(x *c10Ctx) error {
			cmd = x.c.Store(imap.SeqSetNum(2), &imap.StoreFlags{Op: imap.StoreFlagsAdd, Flags: []imap.Flag{imap.FlagSeen}}, nil)
			return nil
		})
		b.R(1)
		b.fetch(n, `* 2 FETCH (FLAGS (\Seen))`)
		b.tagged(n, true, "OK STORE completed")
		c10FetchPhases(b, n, mode, func() *imapclient.FetchCommand { return cmd })
	})
	add("expunge", true, cnx, func(b *c10B, mode string) {
		c10Greeting(b)
		n := b.cmd("e")
		var cmd *imapclient.ExpungeCommand
		b.phaseRet('i', n, func(x *c10Ctx) error { cmd = x.c.Expunge(); return nil })
		b.R(1)
		b.line(n, "* 3 EXPUNGE")
		b.line(n, "* 1 EXPUNGE")
		b.tagged(n, true, "OK EXPUNGE completed")
		c10Stream(b, n, mode,
			func() error { _, err := cmd.Collect(); return err },
			func() {
				for cmd.Next() != 0 {
				}
			},
			func() {
				for cmd.Next() != 0 {
				}
			},
			func() error { return cmd.Close() })
	})
	appendScn := func(name string, quick, ok bool, text string) {
		add(name, quick, one, func(b *c10B, mode string) {
			c10Greeting(b)
			n := b.cmd("a")
			var cmd *imapclient.AppendCommand
			msg := "Subject: x\r\n\r\nhello\r\n"
			b.phaseRet('J', n, func(x *c10Ctx) error { cmd = x.c.Append("INBOX", int64(len(msg)), nil); return nil })
			b.R(1)
			b.cont(n, "+ Ready for literal data")
			b.phase('w', n, func(x *c10Ctx) error {
				_, err := cmd.Write([]byte(msg))
				if cerr := cmd.Close(); err == nil {
					err = cerr
				}
				return err
			})
			b.R(4)
			b.tagged(n, ok, text)
			b.phase('W', n, func(x *c10Ctx) error { _, err := cmd.Wait(); return err })
		})
	}
	appendScn("append", true, true, "OK [APPENDUID 1 42] APPEND completed")
	appendScn("append-no", false, false, "NO [TRYCREATE] no such mailbox")
	add("idle", true, one, func(b *c10B, mode string) {
		c10Greeting(b)
		n := b.cmd("d")
		var cmd *imapclient.IdleCommand
		b.phase('I', n, func(x *c10Ctx) error {
			var err error
			cmd, err = x.c.Idle()
			return err
		})
		b.R(1)
		b.cont(n, "+ idling")
		b.line(0, "* 5 EXISTS")
		b.phaseRet('D', n, func(x *c10Ctx) error {
			if cmd == nil {
				return errC10Skip
			}
			return cmd.Close()
		})
		b.R(1)
		b.line(0, "* 2 EXPUNGE")
		b.tagged(n, true, "OK IDLE terminated")
		b.phase('W', n, func(x *c10Ctx) error {
			if cmd == nil {
				return errC10Skip
			}
			return cmd.Wait()
		})
	})
	simple("copy", true, func(c *imapclient.Client) func() error {
		cmd := c.Copy(imap.SeqSetNum(1, 2), "Archive")
		return func() error { _, err := cmd.Wait(); return err }
	}, true, "OK [COPYUID 1 1:2 5:6] COPY completed")
	simple("move", true, func(c *imapclient.Client) func() error {
		cmd := c.Move(imap.SeqSetNum(1, 2), "Archive")
		return func() error { _, err := cmd.Wait(); return err }
	}, true, "OK MOVE completed", "* OK [COPYUID 1 1:2 5:6] moved", "* 2 EXPUNGE", "* 1 EXPUNGE")
	// MOVE on a server without the MOVE capability: Client.Move pipelines COPY (T1), STORE
	// +FLAGS.SILENT \Deleted (T2) and EXPUNGE (T3); MoveCommand.Wait (phase M1) waits for COPY, then
	// closes the STORE and the EXPUNGE command, and reports the first error.
	moveEmulated := func(name string, quick bool, ok1, ok3 bool, text3 string) {
		add(name, quick, one, func(b *c10B, mode string) {
			b.greetCaps("IMAP4rev1")
			b.phaseRet('G', 0, func(x *c10Ctx) error { return x.c.WaitGreeting() })
			n1, n2, n3 := b.cmd("s"), b.cmd("f"), b.cmd("e")
			var cmd *imapclient.MoveCommand
			b.phaseRet('i', n1, func(x *c10Ctx) error { cmd = x.c.Move(imap.SeqSetNum(1, 2), "Archive"); return nil })
			b.phaseRet('i', n2, func(x *c10Ctx) error { return nil }) // issued by Move itself
			b.phaseRet('i', n3, func(x *c10Ctx) error { return nil })
			b.R(3)
			if ok1 {
				b.tagged(n1, true, "OK [COPYUID 1 1:2 5:6] done")
			} else {
				b.tagged(n1, false, "NO [TRYCREATE] no such mailbox")
			}
			b.tagged(n2, true, "OK STORE done")
			b.line(n3, "* 2 EXPUNGE")
			b.line(n3, "* 1 EXPUNGE")
			b.tagged(n3, ok3, text3)
			b.phase('M', n1, func(x *c10Ctx) error { _, err := cmd.Wait(); return err })
		})
	}
	moveEmulated("move-emulated", true, true, true, "OK EXPUNGE done")
	moveEmulated("move-emulated-expunge-no", true, true, false, "NO cannot expunge")
	moveEmulated("move-emulated-expunge-bad", false, true, false, "BAD what")
	moveEmulated("move-emulated-copy-no", false, false, true, "OK EXPUNGE done")
	add("pipeline2", true, one, func(b *c10B, mode string) {
		c10Greeting(b)
		n1, n2 := b.cmd("s"), b.cmd("s")
		var w1, w2 func() error
		b.phaseRet('i', n1, func(x *c10Ctx) error { w1 = x.c.Noop().Wait; return nil })
		b.phaseRet('i', n2, func(x *c10Ctx) error {
			cmd := x.c.Status("INBOX", &imap.StatusOptions{NumMessages: true})
			w2 = func() error { _, err := cmd.Wait(); return err }
			return nil
		})
		b.R(2)
		b.tagged(n1, true, "OK NOOP completed")
		b.line(n2, "* STATUS INBOX (MESSAGES 3)")
		b.tagged(n2, true, "OK STATUS completed")
		b.phase('W', n1, func(x *c10Ctx) error { return w1() })
		b.phase('W', n2, func(x *c10Ctx) error { return w2() })
	})
	add("pipeline3", true, cnx, func(b *c10B, mode string) {
		c10Greeting(b)
		n1, n2, n3 := b.cmd("s"), b.cmd("f"), b.cmd("s")
		var w1, w3 func() error
		var cmd *imapclient.FetchCommand
		b.phaseRet('i', n1, func(x *c10Ctx) error { w1 = x.c.Noop().Wait; return nil })
		b.phaseRet('i', n2, func(x *c10Ctx) error { cmd = x.c.Fetch(imap.SeqSetNum(1), c10BodyOpts); return nil })
		b.phaseRet('i', n3, func(x *c10Ctx) error { w3 = x.c.Create("New", nil).Wait; return nil })
		b.R(3)
		b.tagged(n1, true, "OK NOOP completed")
		b.fetch(n2, "* 1 FETCH (UID 100 BODY[] ", c10Lit(8), ")")
		b.tagged(n2, true, "OK FETCH completed")
		b.tagged(n3, false, "NO [ALREADYEXISTS] exists")
		b.phase('W', n1, func(x *c10Ctx) error { return w1() })
		c10FetchPhases(b, n2, mode, func() *imapclient.FetchCommand { return cmd })
		b.phase('W', n3, func(x *c10Ctx) error { return w3() })
	})
	add("session", false, []string{"C", "N"}, func(b *c10B, mode string) { // login, select, fetch, logout in sequence
		c10Greeting(b)
		c10Login(b)
		c10Select(b)
		c10Fetch(b, mode, 20)
		n := b.cmd("s")
		var w func() error
		b.phaseRet('i', n, func(x *c10Ctx) error { w = x.c.Logout().Wait; return nil })
		b.R(1)
		b.line(n, "* BYE logging out")
		b.tagged(n, true, "OK LOGOUT completed")
		b.phase('W', n, func(x *c10Ctx) error { return w() })
	})
	// the remaining plain commands (thorough tier)
	simple("capability", false, func(c *imapclient.Client) func() error {
		cmd := c.Capability()
		return func() error { _, err := cmd.Wait(); return err }
	}, true, "OK CAPABILITY completed", "* CAPABILITY "+c10Caps)
	simple("create", false, func(c *imapclient.Client) func() error { return c.Create("New", nil).Wait }, true, "OK CREATE completed")
	simple("delete-no", false, func(c *imapclient.Client) func() error { return c.Delete("Gone").Wait }, false, "NO [NONEXISTENT] no such mailbox")
	simple("rename", false, func(c *imapclient.Client) func() error { return c.Rename("A", "B").Wait }, true, "OK RENAME completed")
	simple("subscribe", false, func(c *imapclient.Client) func() error { return c.Subscribe("A").Wait }, true, "OK SUBSCRIBE completed")
	simple("unsubscribe-bad", false, func(c *imapclient.Client) func() error { return c.Unsubscribe("A").Wait }, false, "BAD no")
	simple("unselect", false, func(c *imapclient.Client) func() error { return c.Unselect().Wait }, true, "OK UNSELECT completed")
	simple("close", false, func(c *imapclient.Client) func() error { return c.UnselectAndExpunge().Wait }, true, "OK CLOSE completed")
	simple("namespace", false, func(c *imapclient.Client) func() error {
		cmd := c.Namespace()
		return func() error { _, err := cmd.Wait(); return err }
	}, true, "OK NAMESPACE completed", `* NAMESPACE (("" "/")) NIL NIL`)
	simple("enable", false, func(c *imapclient.Client) func() error {
		cmd := c.Enable(imap.CapUTF8Accept)
		return func() error { _, err := cmd.Wait(); return err }
	}, true, "OK ENABLE completed", "* ENABLED UTF8=ACCEPT")
	simple("logout", false, func(c *imapclient.Client) func() error { return c.Logout().Wait }, true, "OK LOGOUT completed", "* BYE bye")
	simple("uid-expunge-bare", false, func(c *imapclient.Client) func() error {
		cmd := c.UIDExpunge(imap.UIDSetNum(4))
		return func() error { return cmd.Close() }
	}, true, "OK EXPUNGE completed")
	simple("noop-notext", false, func(c *imapclient.Client) func() error { return c.Noop().Wait }, true, "OK")
	return l
}

// past failures, run first on every tier (scenario, mode, cut offset, fault)
var c10Corpus = []c10CorpusCase{
	// F13: error / close / deadline inside a FETCH body literal (offset 70 = 2 bytes into the literal)
	{"fetch-lit5", "C", 70, "rerr"}, {"fetch-lit5", "C", 70, "sclose"}, {"fetch-lit5", "N", 70, "stimeout"},
	{"fetch-lit5", "X", 70, "werr"},
	// F13b: tagged completion cut after "T1 OK " / between CR and LF
	{"noop", "-", 55, "eof"}, {"noop", "-", 70, "rerr"}, {"starttls-ok", "-", 43, "eof"}, {"starttls-ok", "-", 53, "sclose"},
	// seeded changes: orphaned continuation request; command issued after the reader exited
	{"auth-eager", "-", 95, "eof"}, {"auth-eager", "-", 95, "sclose"}, {"login", "-", 36, "eof"},
}
