//go:build c14instr

package main

// C14, instrumented part. Built only by the pre step of checklib/prop_C14.py with
// `go build -overlay <generated> -tags "verif c14 c14instr"`: the overlay (made by
// /verif/harness/instrument from the tree being checked) replaces every mutex of imapserver and
// imapmemserver by a recording wrapper of package internal/verifsync, which exists only there.
//
//  1. sweep: ONE client at a time runs every command of the alphabet in every connection state on a
//     fresh world (3 mailboxes, a companion idling on M0 and a companion selected on M1), plus
//     multi-step scenarios (LIST after RENAME/DELETE, commands on a deleted mailbox, updates
//     arriving at an idling session). Nesting discovery needs every nesting once, on any goroutine.
//  2. the recorded class graph is emitted (`graph`, `edge` lines; $VERIF_C14_GRAPH gets the JSON the
//     Lean instance is generated from).
//  3. if the graph has a cycle, it is realised: the commands that produced the edges are run on
//     separate sessions, the instrumentation holds each goroutine after its first acquisition until
//     all have theirs, and a cycle in the wait-for graph (a deadlock that no timing can dissolve) is
//     the observation (`realise` line with the goroutine dump).

import (
	"encoding/json"
	"fmt"
	"os"
	"sort"
	"strconv"
	"strings"
	"time"

	"github.com/emersion/go-imap/v2/internal/verifsync"
)

func init() {
	c14SweepHook = c14Sweep
	c14CmdHook = verifsync.SetContext
	c14AttemptHook = c14ReplayAttempt
}

// c14ReplayAttempt re-runs recorded parties with the rendezvous for the recorded class cycle.
func c14ReplayAttempt(parties []string, cycle string) (string, string) {
	idx := map[string]int{}
	for i, n := range verifsync.ClassNames {
		idx[n] = i
	}
	names := strings.Split(cycle, ">")
	var specs [][2]int
	for i := 0; i+1 < len(names); i++ {
		a, ok1 := idx[names[i]]
		b, ok2 := idx[names[i+1]]
		if !ok1 || !ok2 {
			return "not-realised", hx([]byte("the tree no longer has the lock classes of the recorded cycle: " + cycle))
		}
		specs = append(specs, [2]int{a, b})
	}
	if len(specs) == 1 { // self-loop: two parties on the same edge
		specs = append(specs, specs[0])
	}
	if len(specs) != len(parties) {
		return "not-realised", hx([]byte("recorded parties do not match the recorded cycle"))
	}
	for try := 0; try < 3; try++ {
		if cyc, log, dump := c14Attempt(parties, specs); cyc != nil {
			return "deadlock", hx([]byte("wait-for cycle:\n" + strings.Join(cyc, "\n") + "\n\nrendezvous:\n" + strings.Join(log, "\n") + "\n\ngoroutines:\n" + dump))
		}
	}
	return "not-realised", "-"
}

type c14Act struct {
	who int // 0 = the primary session P, 1 = Q1 (idling on M0), 2 = Q2 (selected on M1)
	cmd string
}

type c14Step struct {
	state string
	acts  []c14Act
}

func c14Alphabet() []string {
	cmds := []string{
		"CAPABILITY", "NOOP", "LOGOUT", "LOGIN u p", "LOGIN u wrong", "ENABLE IMAP4rev2", "ENABLE UTF8=ACCEPT",
		"STARTTLS", "AUTHENTICATE PLAIN AHUAcA==", "UNAUTHENTICATE", "NAMESPACE",
		"CREATE T0", "CREATE M0", "DELETE M0", "DELETE M1", "DELETE M2", "DELETE T9",
		"RENAME M0 T0", "RENAME M1 T0", "RENAME M2 T0", "RENAME M1 M0", "RENAME T9 T0",
		"SUBSCRIBE M0", "SUBSCRIBE T9", "UNSUBSCRIBE M1",
		`LIST "" "*"`, `LIST "" "%"`, `LIST "" ""`, `LIST "" "*" RETURN (STATUS (MESSAGES UIDNEXT UIDVALIDITY UNSEEN DELETED SIZE))`,
		`LIST (SUBSCRIBED) "" "*"`, `LIST "" "*" RETURN (SUBSCRIBED CHILDREN)`, `LSUB "" "*"`,
		"STATUS M0 (MESSAGES UIDNEXT UIDVALIDITY UNSEEN DELETED SIZE)", "STATUS M1 (MESSAGES)", "STATUS M2 (UNSEEN)", "STATUS T9 (MESSAGES)",
		c14Append("M0", 7), c14Append("M1", 8), c14Append("M2", 9), c14Append("T9", 9),
		"SELECT M0", "SELECT M1", "SELECT M2", "SELECT T9", "EXAMINE M0", "EXAMINE M1",
		"UNSELECT", "CLOSE", "EXPUNGE", "UID EXPUNGE 1:*",
		"SEARCH ALL", "SEARCH UNDELETED SUBJECT m1", "UID SEARCH 1:* NOT DELETED", "SEARCH RETURN (SAVE) SEEN", "SEARCH RETURN (MIN MAX COUNT) ALL",
		"FETCH 1:* (FLAGS)", "FETCH 1:* (BODY[])", "FETCH 1:* (UID FLAGS BODY.PEEK[HEADER] RFC822.SIZE INTERNALDATE)",
		"UID FETCH 1:* (FLAGS)", "FETCH 1:* (ENVELOPE BODYSTRUCTURE)", "FETCH * (FLAGS)", "FETCH $ (FLAGS)",
		`STORE 1:* +FLAGS (\Flagged)`, `STORE 1:* -FLAGS.SILENT (\Seen)`, `UID STORE 1:* FLAGS (\Deleted)`, `STORE 2 +FLAGS (\Deleted)`,
		"COPY 1:* M0", "COPY 1:* M1", "COPY 1:* M2", "COPY 1:* T9", "UID COPY 1:* M1", "UID COPY 1:* M0",
		"MOVE 1:* M0", "MOVE 1:* M1", "MOVE 1:* M2", "MOVE 2 T9", "UID MOVE 1:* M1", "UID MOVE 1:* M0",
		"IDLE", "BOGUS",
	}
	return cmds
}

func c14Steps() []c14Step {
	var steps []c14Step
	for _, st := range []string{"na", "auth", "sel:M0", "sel:M1", "sel:M2", "exa:M0"} {
		for _, c := range c14Alphabet() {
			steps = append(steps, c14Step{st, []c14Act{{0, c}}})
		}
	}
	P := func(c string) c14Act { return c14Act{0, c} }
	Q1 := func(c string) c14Act { return c14Act{1, c} }
	Q2 := func(c string) c14Act { return c14Act{2, c} }
	list := `LIST "" "*" RETURN (STATUS (MESSAGES UNSEEN))`
	for _, st := range []string{"auth", "sel:M0", "sel:M1", "sel:M2"} {
		steps = append(steps,
			// LIST during/after RENAME and DELETE; the renamed/deleted mailbox is selected by a companion
			c14Step{st, []c14Act{P("RENAME M1 T0"), P(list), Q2("NOOP"), Q2("FETCH 1:* (FLAGS)"), Q2("COPY 1 M0"), Q2("MOVE 1 M2"), P(list), P("RENAME T0 M1"), P(list)}},
			c14Step{st, []c14Act{P("DELETE M1"), P(list), Q2("FETCH 1:* (FLAGS BODY[])"), Q2(`STORE 1:* +FLAGS (\Deleted)`), Q2("EXPUNGE"), Q2("COPY 1:* M0"), P("CREATE M1"), P(c14Append("M1", 3)), Q2("NOOP"), P(list)}},
			c14Step{st, []c14Act{P("DELETE M0"), P(list), P("FETCH 1:* (FLAGS)"), P(c14Append("M0", 4)), P("CREATE M0"), P(c14Append("M0", 5)), Q1("NOOP"), Q1("FETCH 1:* (FLAGS)"), P("COPY 1 M0"), P("MOVE 1 M0")}},
			// updates arriving at an idling session and at a session that polls later
			c14Step{st, []c14Act{P(`STORE 1:* +FLAGS (\Flagged)`), P(c14Append("M0", 6)), Q2("COPY 1:* M0"), Q2("MOVE 1 M0"), Q2(c14Append("M0", 6)), P("IDLE+"), Q2("COPY 1:* M0"), Q2("UID MOVE 1:* M0"), P("DONE"), P("EXPUNGE"), P("MOVE 1:* M1"), Q2("NOOP"), Q2("FETCH 1:* (FLAGS)")}},
			c14Step{st, []c14Act{Q2("SELECT M0"), Q2(`STORE 1:* +FLAGS (\Deleted)`), P("NOOP"), Q2("EXPUNGE"), P("FETCH 1:* (FLAGS)"), P("NOOP"), Q2("CLOSE"), Q1("NOOP"), Q1("CLOSE")}},
		)
	}
	return steps
}

func c14StepText(s c14Step) string {
	var as []string
	for _, a := range s.acts {
		as = append(as, fmt.Sprintf("%s %s", []string{"P", "Q1", "Q2"}[a.who], strings.SplitN(a.cmd, "\r\n", 2)[0]))
	}
	return s.state + " | " + strings.Join(as, " ; ")
}

const c14SweepWD = 30 * time.Second

// c14RunStep returns "" or a description of the command that never completed.
func c14RunStep(idx int, s c14Step) string {
	wd := c14SweepWD
	verifsync.SetContext("setup:world")
	w := newC14World(3, 3)
	q1, _ := w.dial("qa", wd)
	c14Enter(q1, "sel:M0", wd)
	q1.do("IDLE+", wd)
	q1idle := true
	q2, _ := w.dial("qb", wd)
	c14Enter(q2, "sel:M1", wd)
	p, _ := w.dial("p", wd)
	c14Enter(p, s.state, wd)
	label := strconv.Itoa(idx)
	cl := []*c14Client{p, q1, q2}
	for _, a := range s.acts {
		c := cl[a.who]
		c.label = label
		if a.who != 0 {
			c.label = label + "q"
		}
		if a.who == 1 && q1idle {
			q1.do("DONE", wd)
			q1idle = false
		}
		if st := c.do(a.cmd, wd); st == "TIMEOUT" {
			return fmt.Sprintf("step %d (%s): %q never completed", idx, c14StepText(s), strings.SplitN(a.cmd, "\r\n", 2)[0])
		}
	}
	for _, c := range cl {
		c.label = "flush"
	}
	if q1idle {
		q1.do("DONE", wd)
	}
	for _, c := range []*c14Client{q2, q1, p} {
		if c.do("NOOP", wd) == "TIMEOUT" || c.do("LOGOUT", wd) == "TIMEOUT" {
			return fmt.Sprintf("step %d (%s): NOOP/LOGOUT afterwards never completed", idx, c14StepText(s))
		}
		c.conn.Close()
	}
	verifsync.SetContext("teardown")
	w.close()
	// every goroutine of this world has finished its commands: nothing may still be held (the
	// lock-program model assumes every program ends holding nothing). Connection goroutines wind
	// down asynchronously, so poll before concluding.
	for t0 := time.Now(); ; time.Sleep(2 * time.Millisecond) {
		held := verifsync.Held()
		if len(held) == 0 {
			return ""
		}
		if time.Since(t0) > 40*time.Second {
			verifsync.ForgetHeld()
			return fmt.Sprintf("LEAK step %d (%s): still held after every session logged out and the server was closed:\n%s",
				idx, c14StepText(s), strings.Join(held, "\n"))
		}
	}
}

// c14FindCycle returns a cycle of the class graph as a list of classes (a self-loop is [c]), or nil.
func c14FindCycle(n int, edges [][2]int) []int {
	adj := make([][]int, n)
	for _, e := range edges {
		if e[0] == e[1] {
			return []int{e[0]}
		}
		adj[e[0]] = append(adj[e[0]], e[1])
	}
	color := make([]int, n)
	var stack []int
	var found []int
	var dfs func(u int) bool
	dfs = func(u int) bool {
		color[u] = 1
		stack = append(stack, u)
		for _, v := range adj[u] {
			if color[v] == 1 {
				for i, x := range stack {
					if x == v {
						found = append([]int(nil), stack[i:]...)
						return true
					}
				}
			}
			if color[v] == 0 && dfs(v) {
				return true
			}
		}
		stack = stack[:len(stack)-1]
		color[u] = 2
		return false
	}
	for u := 0; u < n; u++ {
		if color[u] == 0 && dfs(u) {
			return found
		}
	}
	return nil
}

type c14GraphJSON struct {
	Classes   []string       `json:"classes"`
	Edges     []c14EdgeJSON  `json:"edges"`
	Anomalies []string       `json:"anomalies"`
	Steps     int            `json:"steps"`
	Acquired  map[string]int `json:"acquisitions"`
	Coverage  map[string]int `json:"coverage"`
	Cycle     []string       `json:"cycle,omitempty"`
	Realised  string         `json:"realised,omitempty"`
}

type c14EdgeJSON struct {
	From, To         int
	FromName, ToName string
	Count            int
	Outer, Inner     string
	Context          string
}

func c14Sweep(e *emitter, seed uint64) {
	steps := c14Steps()
	nbad := 0
	for i, s := range steps {
		if stuck := c14RunStep(i, s); stuck != "" {
			detail := stuck + "\n" + strings.Join(verifsync.WaitCycle(), "\n") + "\n" + strings.Join(verifsync.Blocked(time.Second), "\n") + "\n\n" + c14Dump()
			outcome := "stuck"
			if verifsync.WaitCycle() != nil {
				outcome = "deadlock"
			} else if strings.HasPrefix(stuck, "LEAK") {
				outcome = "leak"
			}
			verifsync.ForgetHeld()
			nbad++
			if nbad > 6 {
				e.count("sweep:skipped-after-7-failing-steps")
				break
			}
			e.emit("sweepstuck", hx([]byte(c14StepText(s))), outcome, hx([]byte(detail)))
			e.count("sweep:stuck")
		}
		e.count("sweep:steps")
	}
	verifsync.SetContext("after-sweep")

	names := verifsync.ClassNames
	rec := verifsync.Edges()
	var pairs [][2]int
	var es []string
	gj := c14GraphJSON{Classes: names, Steps: len(steps), Acquired: map[string]int{}, Coverage: map[string]int{}}
	for _, ed := range rec {
		pairs = append(pairs, [2]int{ed.From, ed.To})
		es = append(es, fmt.Sprintf("%d>%d", ed.From, ed.To))
		ctx := "-"
		if len(ed.Contexts) > 0 {
			ctx = c14CtxText(steps, ed.Contexts[0])
		}
		e.emit("edge", names[ed.From], names[ed.To], strconv.Itoa(ed.Count), ed.OuterSite+" "+ed.OuterFn, ed.InnerSite+" "+ed.InnerFn, hx([]byte(ctx)))
		e.count("edge:" + names[ed.From] + ">" + names[ed.To])
		gj.Edges = append(gj.Edges, c14EdgeJSON{ed.From, ed.To, names[ed.From], names[ed.To], ed.Count,
			ed.OuterSite + " " + ed.OuterFn, ed.InnerSite + " " + ed.InnerFn, ctx})
	}
	for c, n := range verifsync.Acquisitions() {
		gj.Acquired[names[c]] = n
		if n == 0 {
			e.count("never-acquired:" + names[c])
		} else {
			e.count("acquired:" + names[c])
		}
	}
	// coverage: command x locking function
	for ctx, fns := range verifsync.Coverage() {
		cmd := ctx
		if i := strings.Index(ctx, ":"); i >= 0 {
			cmd = ctx[i+1:]
		}
		for fn := range fns {
			k := "cover:" + cmd + ":" + fn
			gj.Coverage[k]++
			e.mu.Lock()
			e.dist[k]++
			e.mu.Unlock()
		}
	}
	an := verifsync.Anomalies()
	gj.Anomalies = an
	for _, a := range an {
		e.emit("anomaly", hx([]byte(a)))
	}
	cycle := c14FindCycle(len(names), pairs)
	edgeList := strings.Join(es, ",")
	if edgeList == "" {
		edgeList = "-"
	}
	e.emit("graph", strconv.Itoa(len(names)), strings.Join(names, ","), edgeList, b01(cycle == nil), strconv.Itoa(len(an)), strconv.Itoa(len(steps)))

	if cycle != nil {
		var cn []string
		for _, c := range cycle {
			cn = append(cn, names[c])
		}
		cn = append(cn, names[cycle[0]])
		gj.Cycle = cn
		parties, outcome, detail := c14Realise(steps, rec, cycle)
		gj.Realised = outcome
		e.emit("realise", strings.Join(cn, ">"), hx([]byte(strings.Join(parties, "\n"))), outcome, detail)
		e.count("realise:" + outcome)
	}
	if p := os.Getenv("VERIF_C14_GRAPH"); p != "" {
		js, _ := json.MarshalIndent(gj, "", " ")
		if err := os.WriteFile(p, js, 0o644); err != nil {
			panic(err)
		}
	}
}

// c14CtxText turns a recorder context ("<step>[q]:<CMD>") into the text of the sweep step.
func c14CtxText(steps []c14Step, ctx string) string {
	i := strings.Index(ctx, ":")
	if i < 0 {
		return ctx
	}
	n, err := strconv.Atoi(strings.TrimSuffix(ctx[:i], "q"))
	if err != nil || n >= len(steps) {
		return ctx
	}
	return ctx + " = " + c14StepText(steps[n])
}

// candidate parties (state|command) for an edge: single-command sweep steps in which it was seen
func c14Candidates(steps []c14Step, ed verifsync.Edge) []string {
	var out []string
	for _, ctx := range ed.Contexts {
		i := strings.Index(ctx, ":")
		if i < 0 {
			continue
		}
		n, err := strconv.Atoi(ctx[:i])
		if err != nil || n >= len(steps) || len(steps[n].acts) != 1 || steps[n].acts[0].who != 0 {
			continue
		}
		out = append(out, steps[n].state+"|"+steps[n].acts[0].cmd)
		if len(out) == 3 {
			break
		}
	}
	return out
}

var c14Perms = [][3]int{{1, 0, 2}, {0, 1, 2}, {2, 1, 0}, {0, 2, 1}, {1, 2, 0}, {2, 0, 1}}

func c14Permute(party string, perm [3]int) string {
	r := strings.NewReplacer("M0", "\x000", "M1", "\x001", "M2", "\x002")
	s := r.Replace(party)
	for i := 0; i < 3; i++ {
		s = strings.ReplaceAll(s, fmt.Sprintf("\x00%d", i), fmt.Sprintf("M%d", perm[i]))
	}
	return s
}

// c14Realise tries to turn the class cycle into a deadlock of real sessions.
func c14Realise(steps []c14Step, rec []verifsync.Edge, cycle []int) (parties []string, outcome, detail string) {
	find := func(a, b int) verifsync.Edge {
		for _, ed := range rec {
			if ed.From == a && ed.To == b {
				return ed
			}
		}
		return verifsync.Edge{}
	}
	var specs [][2]int
	var cands [][]string
	if len(cycle) == 1 {
		specs = [][2]int{{cycle[0], cycle[0]}, {cycle[0], cycle[0]}}
		c := c14Candidates(steps, find(cycle[0], cycle[0]))
		cands = [][]string{c, c}
	} else {
		for i := range cycle {
			a, b := cycle[i], cycle[(i+1)%len(cycle)]
			specs = append(specs, [2]int{a, b})
			cands = append(cands, c14Candidates(steps, find(a, b)))
		}
	}
	for _, c := range cands {
		if len(c) == 0 {
			return nil, "not-realised", hx([]byte("an edge of the cycle was only seen in multi-step scenarios; no single command to replay"))
		}
	}
	deadline := time.Now().Add(25 * time.Second)
	// enumerate: choice of candidate per party x mailbox permutation for parties 1..k-1
	k := len(specs)
	choice := make([]int, k)
	perm := make([]int, k)
	attempts := 0
	for {
		ps := make([]string, k)
		for i := 0; i < k; i++ {
			p := cands[i][choice[i]]
			if i > 0 {
				p = c14Permute(p, c14Perms[perm[i]])
			}
			ps[i] = p
		}
		attempts++
		if cyc, log, dump := c14Attempt(ps, specs); cyc != nil {
			// a wait-for cycle cannot dissolve; run it once more on a fresh world before it counts
			cyc2, _, _ := c14Attempt(ps, specs)
			if cyc2 != nil {
				d := "wait-for cycle (every goroutine below is inside Lock and holds what the next one wants):\n" + strings.Join(cyc, "\n") +
					"\n\nrendezvous:\n" + strings.Join(log, "\n") + "\n\ngoroutines:\n" + dump
				return ps, "deadlock", hx([]byte(d))
			}
		}
		// next combination: permutations vary fastest
		i := k - 1
		for ; i >= 0; i-- {
			if i > 0 && perm[i]+1 < len(c14Perms) {
				perm[i]++
				break
			}
			perm[i] = 0
			if choice[i]+1 < len(cands[i]) {
				choice[i]++
				break
			}
			choice[i] = 0
		}
		if i < 0 || time.Now().After(deadline) {
			break
		}
	}
	return nil, "not-realised", hx([]byte(fmt.Sprintf("%d combinations of commands and mailboxes tried", attempts)))
}

// c14Attempt runs the parties against each other once with the rendezvous armed.
func c14Attempt(parties []string, specs [][2]int) (cycle, log []string, dump string) {
	wd := 8 * time.Second
	verifsync.SetContext("realise:setup")
	w := newC14World(3, 3)
	type pc struct {
		c   *c14Client
		cmd string
	}
	var pcs []pc
	for i, p := range parties {
		sc := strings.SplitN(p, "|", 2)
		c, _ := w.dial(fmt.Sprintf("r%dx", i), wd)
		c.label = "realise"
		c14Enter(c, sc[0], wd)
		pcs = append(pcs, pc{c, sc[1]})
	}
	verifsync.SetHold(specs, 1500*time.Millisecond)
	done := make(chan int, len(pcs))
	for i, x := range pcs {
		go func(i int, x pc) {
			x.c.do(x.cmd, wd)
			done <- i
		}(i, x)
	}
	finished := 0
	t0 := time.Now()
	for finished < len(pcs) && time.Since(t0) < 5*time.Second {
		select {
		case <-done:
			finished++
		case <-time.After(5 * time.Millisecond):
			if cyc := verifsync.WaitCycle(); cyc != nil {
				// confirm it is stable
				time.Sleep(50 * time.Millisecond)
				if cyc2 := verifsync.WaitCycle(); cyc2 != nil {
					cycle = cyc2
				}
			}
		}
		if cycle != nil {
			break
		}
	}
	log = verifsync.ClearHold()
	if cycle != nil {
		dump = c14Dump()
		sort.Strings(cycle)
	}
	go w.close()
	return cycle, log, dump
}
