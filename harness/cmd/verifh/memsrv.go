package main

// Shared helpers for properties that drive the real server with the real in-memory backend over
// raw connections and read its responses with a tokenizer of their own (not imapclient).

import (
	"fmt"
	"strconv"
	"strings"
	"sync"
	"time"

	"github.com/emersion/go-imap/v2"
	"github.com/emersion/go-imap/v2/imapserver"
	"github.com/emersion/go-imap/v2/imapserver/imapmemserver"
)

// msEnv is one real server (imapserver.New + imapmemserver) with logged-in raw connections.
type msEnv struct {
	srv   *imapserver.Server
	ln    *memListener
	mu    sync.Mutex
	logs  []string
	conns []*rawClient
	n     int
}

func (e *msEnv) Printf(format string, args ...interface{}) {
	e.mu.Lock()
	e.logs = append(e.logs, fmt.Sprintf(format, args...))
	e.mu.Unlock()
}

func (e *msEnv) panicked() bool {
	e.mu.Lock()
	defer e.mu.Unlock()
	for _, l := range e.logs {
		if strings.Contains(l, "panic") {
			return true
		}
	}
	return false
}

// msNewEnv starts a server whose single user "u" owns the given mailboxes and opens nconn
// authenticated connections.
func msNewEnv(nconn int, mailboxes []string) *msEnv {
	env := &msEnv{ln: newMemListener()}
	mem := imapmemserver.New()
	u := imapmemserver.NewUser("u", "p")
	for _, m := range mailboxes {
		u.Create(m, nil)
	}
	mem.AddUser(u)
	env.srv = imapserver.New(&imapserver.Options{
		NewSession: func(c *imapserver.Conn) (imapserver.Session, *imapserver.GreetingData, error) {
			return mem.NewSession(), nil, nil
		},
		Caps:         imap.CapSet{imap.CapIMAP4rev1: {}, imap.CapIMAP4rev2: {}},
		InsecureAuth: true,
		Logger:       env,
	})
	go env.srv.Serve(env.ln)
	for i := 0; i < nconn; i++ {
		rc := newRawClient(env.ln.dial())
		rc.readLine()
		rc.cmd("l", "LOGIN u p")
		env.conns = append(env.conns, rc)
	}
	return env
}

func (e *msEnv) close() {
	for _, rc := range e.conns {
		rc.c.Close()
	}
	e.srv.Close()
}

func (e *msEnv) tag() string {
	e.n++
	return fmt.Sprintf("t%d", e.n)
}

// msLine is one response line; literal payloads are lifted out and replaced by \x00<idx>\x00.
type msLine struct {
	text string
	lits []string
}

func msReadLine(rc *rawClient) (msLine, error) {
	var l msLine
	rc.c.SetReadDeadline(time.Now().Add(8 * time.Second)) // healthy replies take well under a millisecond
	for {
		seg, err := rc.br.ReadString('\n')
		if err != nil {
			return l, err
		}
		seg = strings.TrimRight(seg, "\r\n")
		if strings.HasSuffix(seg, "}") {
			if i := strings.LastIndexByte(seg, '{'); i >= 0 {
				if n, err := strconv.Atoi(seg[i+1 : len(seg)-1]); err == nil {
					buf := make([]byte, n)
					for got := 0; got < n; {
						k, err := rc.br.Read(buf[got:])
						if err != nil {
							return l, err
						}
						got += k
					}
					l.text += seg[:i] + fmt.Sprintf("\x00%d\x00", len(l.lits))
					l.lits = append(l.lits, string(buf))
					continue
				}
			}
		}
		l.text += seg
		return l, nil
	}
}

// msExpandSet turns "1:3,7" into [1 2 3 7]; ok is false for anything that is not a static set.
func msExpandSet(s string) (out []uint32, ok bool) {
	for _, it := range strings.Split(s, ",") {
		ab := strings.SplitN(it, ":", 2)
		lo, err := strconv.ParseUint(ab[0], 10, 32)
		if err != nil || lo == 0 {
			return nil, false
		}
		hi := lo
		if len(ab) == 2 {
			hi, err = strconv.ParseUint(ab[1], 10, 32)
			if err != nil || hi == 0 {
				return nil, false
			}
		}
		if hi < lo {
			lo, hi = hi, lo
		}
		if hi-lo > 100000 {
			return nil, false
		}
		for x := lo; x <= hi; x++ {
			out = append(out, uint32(x))
		}
	}
	return out, true
}

func msDots(l []uint32) string {
	s := make([]string, len(l))
	for i, x := range l {
		s[i] = strconv.FormatUint(uint64(x), 10)
	}
	return strings.Join(s, ".")
}

// msFlagLetters maps a parenthesised flag list to the letters d (\Deleted) s (\Seen) f (\Flagged),
// in that order; any other flag shows as '?'.
func msFlagLetters(list string) string {
	var d, s, f, other bool
	for _, fl := range strings.Fields(list) {
		switch strings.ToLower(fl) {
		case `\deleted`:
			d = true
		case `\seen`:
			s = true
		case `\flagged`:
			f = true
		default:
			other = true
		}
	}
	out := ""
	if d {
		out += "d"
	}
	if s {
		out += "s"
	}
	if f {
		out += "f"
	}
	if other {
		out += "?"
	}
	return out
}

// msUnknown renders a line the tokenizer does not understand so that it can sit in a case field.
func msUnknown(s string) string {
	r := strings.NewReplacer("\t", " ", ";", ",", "|", "/", "~", "-", "\x00", "#")
	if len(s) > 60 {
		s = s[:60]
	}
	return "?" + r.Replace(s)
}

// msRespCode extracts "[CODE args]" from the text after the status word.
func msRespCode(rest string) (code string, args []string) {
	if !strings.HasPrefix(rest, "[") {
		return "", nil
	}
	end := strings.IndexByte(rest, ']')
	if end < 0 {
		return "?", nil
	}
	f := strings.Fields(rest[1:end])
	if len(f) == 0 {
		return "?", nil
	}
	return strings.ToUpper(f[0]), f[1:]
}

func msCopyUID(args []string) string {
	if len(args) != 3 {
		return "?copyuid"
	}
	src, ok1 := msExpandSet(args[1])
	dst, ok2 := msExpandSet(args[2])
	if !ok1 || !ok2 {
		return "?copyuid"
	}
	return "C" + msDots(src) + "/" + msDots(dst)
}

// msFetchItems parses "(UID 5 FLAGS (\Seen) BODY[] \x000\x00)" into uid ("-" when absent) and the flag
// letters in parentheses ("-" when absent); ok is false when an item is not understood.
func msFetchItems(s string) (uid, flags string, ok bool) {
	uid, flags = "-", "-"
	s = strings.TrimSpace(s)
	if !strings.HasPrefix(s, "(") || !strings.HasSuffix(s, ")") {
		return uid, flags, false
	}
	s = s[1 : len(s)-1]
	for s = strings.TrimSpace(s); s != ""; s = strings.TrimSpace(s) {
		sp := strings.IndexByte(s, ' ')
		if sp < 0 {
			return uid, flags, false
		}
		name, rest := strings.ToUpper(s[:sp]), s[sp+1:]
		switch {
		case name == "UID":
			end := strings.IndexByte(rest, ' ')
			if end < 0 {
				end = len(rest)
			}
			if _, err := strconv.ParseUint(rest[:end], 10, 32); err != nil {
				return uid, flags, false
			}
			uid, s = rest[:end], rest[end:]
		case name == "FLAGS":
			if !strings.HasPrefix(rest, "(") {
				return uid, flags, false
			}
			end := strings.IndexByte(rest, ')')
			if end < 0 {
				return uid, flags, false
			}
			flags, s = "("+msFlagLetters(rest[1:end])+")", rest[end+1:]
		case strings.HasPrefix(name, "BODY["):
			// a literal placeholder or a quoted string / NIL
			end := strings.IndexByte(rest, ' ')
			if end < 0 {
				end = len(rest)
			}
			if strings.HasPrefix(rest, "\"") {
				q := strings.IndexByte(rest[1:], '"')
				if q < 0 {
					return uid, flags, false
				}
				end = q + 2
			}
			s = rest[end:]
		default:
			return uid, flags, false
		}
	}
	return uid, flags, true
}

// msUntagged tokenises one untagged response line into an event; "" = carries no number and is
// dropped (FLAGS, RECENT, UIDVALIDITY, PERMANENTFLAGS, CLOSED).
func msUntagged(l msLine) string {
	t := l.text
	if !strings.HasPrefix(t, "* ") {
		return msUnknown(t)
	}
	f := strings.SplitN(t[2:], " ", 3)
	if len(f) >= 2 {
		if n, err := strconv.ParseUint(f[0], 10, 32); err == nil {
			switch strings.ToUpper(f[1]) {
			case "EXISTS":
				return fmt.Sprintf("X%d", n)
			case "EXPUNGE":
				return fmt.Sprintf("E%d", n)
			case "RECENT":
				return ""
			case "FETCH":
				if len(f) < 3 {
					return msUnknown(t)
				}
				uid, flags, ok := msFetchItems(f[2])
				if !ok {
					return msUnknown(t)
				}
				return fmt.Sprintf("F%d:%s:%s", n, uid, flags)
			}
			return msUnknown(t)
		}
	}
	switch strings.ToUpper(f[0]) {
	case "FLAGS":
		return ""
	case "OK":
		rest := strings.TrimPrefix(t[2:], f[0]+" ")
		code, args := msRespCode(rest)
		switch code {
		case "UIDVALIDITY", "PERMANENTFLAGS", "CLOSED", "":
			return ""
		case "UIDNEXT":
			if len(args) == 1 {
				if n, err := strconv.ParseUint(args[0], 10, 32); err == nil {
					return fmt.Sprintf("N%d", n)
				}
			}
		case "COPYUID":
			return msCopyUID(args)
		}
		return msUnknown(t)
	case "SEARCH":
		var nums []uint32
		for _, x := range strings.Fields(t[2:])[1:] {
			n, err := strconv.ParseUint(x, 10, 32)
			if err != nil {
				return msUnknown(t)
			}
			nums = append(nums, uint32(n))
		}
		return "S" + msDots(nums)
	case "ESEARCH":
		rest := strings.TrimSpace(t[2+len("ESEARCH"):])
		if strings.HasPrefix(rest, "(") {
			end := strings.IndexByte(rest, ')')
			if end < 0 {
				return msUnknown(t)
			}
			rest = strings.TrimSpace(rest[end+1:])
		}
		w := strings.Fields(rest)
		var all []uint32
		var mn, mx, cnt uint64
		for i := 0; i < len(w); i++ {
			key := strings.ToUpper(w[i])
			if key == "UID" {
				continue
			}
			if i+1 >= len(w) {
				return msUnknown(t)
			}
			i++
			var err error
			switch key {
			case "ALL":
				var ok bool
				if all, ok = msExpandSet(w[i]); !ok {
					return msUnknown(t)
				}
			case "MIN":
				mn, err = strconv.ParseUint(w[i], 10, 32)
			case "MAX":
				mx, err = strconv.ParseUint(w[i], 10, 32)
			case "COUNT":
				cnt, err = strconv.ParseUint(w[i], 10, 32)
			default:
				return msUnknown(t)
			}
			if err != nil {
				return msUnknown(t)
			}
		}
		return fmt.Sprintf("R%s,%d,%d,%d", msDots(all), mn, mx, cnt)
	}
	return msUnknown(t)
}

// msTagged renders the tagged completion: OK / NO / BAD, with :A<uid> (APPENDUID) or :C<src>/<dst> (COPYUID).
func msTagged(text, tag string) string {
	f := strings.SplitN(text, " ", 3)
	if len(f) < 2 {
		return msUnknown(text)
	}
	st := strings.ToUpper(f[1])
	if st != "OK" && st != "NO" && st != "BAD" {
		return msUnknown(text)
	}
	if len(f) == 3 && st == "OK" {
		code, args := msRespCode(f[2])
		switch code {
		case "APPENDUID":
			if len(args) == 2 {
				if _, err := strconv.ParseUint(args[1], 10, 32); err == nil {
					return "OK:A" + args[1]
				}
			}
			return "OK:?appenduid"
		case "COPYUID":
			return "OK:" + msCopyUID(args)
		}
	}
	return st
}

// msCollect reads response lines of rc up to and including the line tagged `tag` and returns
// "STATUS|event|event…"; "PANIC" when the connection died or the server logged a panic.
func (e *msEnv) msCollect(rc *rawClient, tag string) string {
	var items []string
	for {
		l, err := msReadLine(rc)
		if err != nil {
			return "PANIC"
		}
		if strings.HasPrefix(l.text, tag+" ") {
			if e.panicked() {
				return "PANIC"
			}
			return strings.Join(append([]string{msTagged(l.text, tag)}, items...), "|")
		}
		if ev := msUntagged(l); ev != "" {
			items = append(items, ev)
		}
	}
}

// msExec sends one command line and collects its response.
func (e *msEnv) msExec(rc *rawClient, text string) string {
	tag := e.tag()
	rc.send(tag + " " + text + "\r\n")
	return e.msCollect(rc, tag)
}
