package main

import (
	"bufio"
	"fmt"
	"io"
	"os"
	"os/exec"
	"strings"
	"syscall"
	"time"
)

// Crash isolation: code under test that may die (stack overflow, runaway allocation,
// non-termination) runs in a child process of this binary. The child reads one request per
// line and answers with one line. A death or a watchdog expiry is the observation for the
// request being processed; the child is then restarted for the remaining requests.

type workerPool struct {
	name    string
	timeout time.Duration
	memMB   int
	maxBad  int      // after this many deaths/expiries the remaining requests are "skipped" (default 6)
	exe     string   // binary to run instead of this one (e.g. an instrumented or -race build of verifh)
	env     []string // extra environment of the child
}

type workerProc struct {
	cmd *exec.Cmd
	in  io.WriteCloser
	out *bufio.Reader
}

func (p *workerPool) start() (*workerProc, error) {
	exe := os.Args[0]
	if p.exe != "" {
		exe = p.exe
	}
	cmd := exec.Command(exe)
	cmd.Env = append(append(os.Environ(), "VERIFH_WORKER="+p.name, fmt.Sprintf("VERIFH_MEM_MB=%d", p.memMB)), p.env...)
	cmd.Stderr = nil
	in, err := cmd.StdinPipe()
	if err != nil {
		return nil, err
	}
	out, err := cmd.StdoutPipe()
	if err != nil {
		return nil, err
	}
	if err := cmd.Start(); err != nil {
		return nil, err
	}
	return &workerProc{cmd: cmd, in: in, out: bufio.NewReaderSize(out, 1<<20)}, nil
}

func (w *workerProc) kill() {
	w.in.Close()
	w.cmd.Process.Kill()
	w.cmd.Wait()
}

// run sends every request to a worker and returns one answer per request; "crash" or
// "timeout" replace the answer of a request the worker did not survive.
func (p *workerPool) run(reqs []string) []string {
	res := p.runOnce(reqs)
	// a death or expiry is re-run once alone in a fresh child before it counts
	n := 0
	for i, r := range res {
		if (r == "crash" || r == "timeout") && n < 12 {
			n++
			res[i] = p.runOnce([]string{reqs[i]})[0]
		}
	}
	return res
}

func (p *workerPool) runOnce(reqs []string) []string {
	res := make([]string, len(reqs))
	var w *workerProc
	defer func() {
		if w != nil {
			w.kill()
		}
	}()
	bad, maxBad := 0, p.maxBad
	if maxBad == 0 {
		maxBad = 6
	}
	for i, r := range reqs {
		if bad >= maxBad {
			res[i] = "skipped"
			continue
		}
		if w == nil {
			var err error
			if w, err = p.start(); err != nil {
				panic(err)
			}
		}
		type ans struct {
			s   string
			err error
		}
		ch := make(chan ans, 1)
		ww := w
		go func() {
			if _, err := io.WriteString(ww.in, r+"\n"); err != nil {
				ch <- ans{"", err}
				return
			}
			s, err := ww.out.ReadString('\n')
			ch <- ans{strings.TrimRight(s, "\n"), err}
		}()
		select {
		case a := <-ch:
			if a.err != nil {
				res[i] = "crash"
				bad++
				w.kill()
				w = nil
			} else {
				res[i] = a.s
			}
		case <-time.After(p.timeout):
			res[i] = "timeout"
			bad++
			w.kill()
			w = nil
		}
	}
	return res
}

// workerLoop is the child side: answer each stdin line with f(line).
func workerLoop(f func(string) string) {
	if mb := os.Getenv("VERIFH_MEM_MB"); mb != "" && mb != "0" {
		var n uint64
		fmt.Sscan(mb, &n)
		lim := syscall.Rlimit{Cur: n << 20, Max: n << 20}
		syscall.Setrlimit(syscall.RLIMIT_AS, &lim)
	}
	in := bufio.NewReaderSize(os.Stdin, 1<<20)
	out := bufio.NewWriter(os.Stdout)
	for {
		line, err := in.ReadString('\n')
		if line == "" && err != nil {
			return
		}
		out.WriteString(f(strings.TrimRight(line, "\n")) + "\n")
		out.Flush()
		if err != nil {
			return
		}
	}
}
