//go:build c13 || allprops

package main

// C13, OS-scheduled part: un-instrumented workloads against a scripted server over the in-memory
// pipe, run in a `-race` build of this harness (child process, VERIFH_WORKER=c13race). One run is
// one case line. Failures in themselves: a race report whose stacks touch imapclient or
// internal/imapwire, a command / Close that does not return within the watchdog, a panic.

import (
	"bufio"
	"bytes"
	"fmt"
	"io"
	"os"
	"path/filepath"
	"regexp"
	"runtime"
	"sort"
	"strconv"
	"strings"
	"sync"
	"sync/atomic"
	"time"

	"github.com/emersion/go-imap/v2"
	"github.com/emersion/go-imap/v2/imapclient"
)

func init() {
	workers["c13race"] = func() { workerLoop(c13RaceRun) }
}

// an operation counts as never completing when NO operation of the workload has completed for this
// long (progress-based: a busy machine slows everything down but does not stop it)
const c13Watchdog = 30 * time.Second

// c13Server answers every command the workloads send; it dies after `dieAfter` commands
// (how: 0 close, 1 reset = the client's next read fails, 2 never).
func c13Server(srv, cli *memConn, dieAfter int, how int, announceCaps bool, done chan<- struct{}) {
	defer close(done)
	br := bufio.NewReader(srv)
	w := func(s string) { srv.Write([]byte(s)) }
	capsCode := "[CAPABILITY IMAP4rev1 IDLE ENABLE] "
	if !announceCaps {
		// the client has to ask: Caps() and the refresh goroutine of setCaps(nil) come into play
		capsCode = ""
	}
	w("* OK " + capsCode + "ready\r\n")
	n := 0
	exists := -1 // messages in the selected mailbox; -1 = none selected
	for {
		line, err := br.ReadString('\n')
		if err != nil {
			return
		}
		f := strings.Fields(line)
		if len(f) < 2 {
			continue
		}
		tag, name := f[0], strings.ToUpper(f[1])
		n++
		if how != 2 && n > dieAfter {
			if how == 0 {
				srv.Close()
			} else {
				cli.failRead(io.ErrUnexpectedEOF)
			}
			return
		}
		// synchronising literals
		for strings.HasSuffix(line, "}\r\n") && !strings.HasSuffix(line, "+}\r\n") {
			i := strings.LastIndexByte(line, '{')
			size, _ := strconv.Atoi(line[i+1 : len(line)-3])
			w("+ go\r\n")
			if _, err := io.CopyN(io.Discard, br, int64(size)); err != nil {
				return
			}
			if line, err = br.ReadString('\n'); err != nil {
				return
			}
		}
		switch name {
		case "FETCH":
			w("* 1 FETCH (UID 7)\r\n* 2 FETCH (UID 8)\r\n" + tag + " OK done\r\n")
		case "LIST":
			w("* LIST () \"/\" \"INBOX\"\r\n* LIST () \"/\" \"Sent\"\r\n" + tag + " OK done\r\n")
		case "LOGIN":
			w(tag + " OK " + capsCode + "done\r\n")
		case "ENABLE":
			w("* ENABLED UTF8=ACCEPT\r\n" + tag + " OK done\r\n")
		case "SEARCH":
			w("* SEARCH 1 2\r\n" + tag + " OK done\r\n")
		case "CAPABILITY":
			w("* CAPABILITY IMAP4rev1 IDLE ENABLE\r\n" + tag + " OK done\r\n")
		case "SELECT", "EXAMINE":
			exists = 5
			w("* 5 EXISTS\r\n* FLAGS (\\Seen \\Deleted)\r\n* OK [PERMANENTFLAGS (\\Seen \\*)] ok\r\n* OK [UIDVALIDITY 1] ok\r\n" + tag + " OK [READ-WRITE] done\r\n")
		case "NOOP":
			// unilateral updates of the selected mailbox: the client rewrites its summary while callers
			// hold (and read) the snapshot Mailbox() gave them
			up := ""
			if exists >= 0 {
				switch n % 4 {
				case 0:
					if exists > 0 {
						exists--
						up = "* 1 EXPUNGE\r\n"
					}
				case 1:
					exists++
					up = fmt.Sprintf("* %d EXISTS\r\n", exists)
				case 2:
					up = "* FLAGS (\\Seen \\Deleted \\Flagged)\r\n"
				case 3:
					up = "* OK [PERMANENTFLAGS (\\Seen \\Deleted)] ok\r\n"
				}
			}
			w(up + tag + " OK done\r\n")
		case "IDLE":
			w("+ idling\r\n")
			if _, err := br.ReadString('\n'); err != nil { // DONE
				return
			}
			w(tag + " OK done\r\n")
		default:
			w(tag + " OK done\r\n")
		}
	}
}

// what the accessor goroutine reads ends up here (so that the reads are not optimised away)
var c13Sink int

var c13RaceKinds = []string{"noop", "fetch", "list", "login", "login2", "append", "search", "enable", "idle", "noop", "fetch", "select", "noop", "noop"}

// c13RaceOnce runs one workload; returns "" or a failure description.
func c13RaceOnce(seed uint64) string {
	r := &rng{s: seed}
	how := r.intn(3)
	dieAfter := r.intn(30)
	closeByClient := r.chance(1, 3)
	announceCaps := !r.chance(1, 3)
	cli, srv := memPipe()
	srvDone := make(chan struct{})
	go c13Server(srv, cli, dieAfter, how, announceCaps, srvDone)
	cl := imapclient.New(cli, nil)

	const nSub, nOps = 8, 5
	var subWG, wg sync.WaitGroup
	var panicked atomic.Value
	var pending sync.Map // "sub/op:kind" -> struct{}: operations that have not returned
	var progress atomic.Int64
	guard := func(g *sync.WaitGroup, f func()) {
		defer g.Done()
		defer func() {
			if v := recover(); v != nil {
				panicked.Store(fmt.Sprint(v))
			}
		}()
		f()
	}
	for i := 0; i < nSub; i++ {
		rs := r.fork(i)
		i := i
		subWG.Add(1)
		go guard(&subWG, func() {
			for j := 0; j < nOps; j++ {
				k := pick(rs, c13RaceKinds)
				if !announceCaps && i == 0 && j == 0 {
					k = "search" // a SEARCH racing the client's own CAPABILITY refresh
				}
				key := fmt.Sprintf("%d/%d:%s", i, j, k)
				pending.Store(key, struct{}{})
				switch k {
				case "noop":
					cl.Noop().Wait()
				case "select":
					cl.Select("INBOX", nil).Wait()
				case "fetch":
					cl.Fetch(imap.SeqSetNum(1, 2), &imap.FetchOptions{UID: true}).Collect()
				case "list":
					cl.List("", "*", nil).Collect()
				case "login":
					cl.Login(fmt.Sprintf("user%d\nx", i), "pw").Wait()
				case "login2":
					cl.Login(fmt.Sprintf("user%d\nx", i), "pass\nword").Wait()
				case "append":
					p := []byte("Subject: x\r\n\r\nbody")
					cmd := cl.Append("INBOX", int64(len(p)), nil)
					cmd.Write(p)
					cmd.Close()
					cmd.Wait()
				case "search":
					cl.Search(&imap.SearchCriteria{Body: []string{"héllo"}}, nil).Wait()
				case "enable":
					cl.Enable(imap.CapUTF8Accept).Wait()
				case "idle":
					if idle, err := cl.Idle(); err == nil {
						idle.Close()
						idle.Wait()
					}
				}
				pending.Delete(key)
				progress.Add(1)
			}
		})
	}
	// one goroutine hammering the accessors (and Close) until the submitters are through
	stop := make(chan struct{})
	wg.Add(1)
	go guard(&wg, func() {
		rs := r.fork(99)
		closeAt := rs.intn(400)
		var held []*imapclient.SelectedMailbox
		for n := 0; ; n++ {
			select {
			case <-stop:
				return
			default:
			}
			cl.State()
			cl.Caps()
			if mb := cl.Mailbox(); mb != nil {
				// the snapshot is the caller's to read (documented read-only): the client must
				// never write to it again, or this read races with its reader goroutine
				held = append(held, mb)
				if len(held) > 8 {
					held = held[1:]
				}
			}
			for _, mb := range held {
				c13Sink += int(mb.NumMessages) + len(mb.Flags) + len(mb.PermanentFlags) + len(mb.Name)
				for _, f := range mb.Flags {
					c13Sink += len(f)
				}
				for _, f := range mb.PermanentFlags {
					c13Sink += len(f)
				}
			}
			if closeByClient && n == closeAt {
				pending.Store("Close", struct{}{})
				cl.Close()
				pending.Delete("Close")
			}
			runtime.Gosched()
		}
	})
	allDone := make(chan struct{})
	go func() { subWG.Wait(); close(stop); wg.Wait(); close(allDone) }()
	res := ""
	last, lastAt := progress.Load(), time.Now()
	tick := time.NewTicker(20 * time.Millisecond)
	defer tick.Stop()
wait:
	for {
		select {
		case <-allDone:
			break wait
		case <-tick.C:
			if p := progress.Load(); p != last {
				last, lastAt = p, time.Now()
			} else if time.Since(lastAt) > c13Watchdog {
				var left []string
				pending.Range(func(k, _ any) bool { left = append(left, k.(string)); return true })
				sort.Strings(left)
				buf := make([]byte, 1<<20)
				buf = buf[:runtime.Stack(buf, true)]
				if p := os.Getenv("VERIF_C13_DUMP"); p != "" {
					os.WriteFile(p, buf, 0o644)
				}
				res = "command-never-completes " + strings.Join(left, ",") + " " + c13DumpSig(buf)
				break wait
			}
		}
	}
	// final Close must return too
	cd := make(chan struct{})
	go func() { cl.Close(); close(cd) }()
	select {
	case <-cd:
	case <-time.After(c13Watchdog):
		if res == "" {
			res = "command-never-completes Close -"
		}
	}
	srv.Close()
	if v := panicked.Load(); v != nil && res == "" {
		res = "panic " + strings.ReplaceAll(v.(string), " ", "_") + " -"
	}
	return res
}

var c13FrameRe = regexp.MustCompile(`(?m)^\s*(github\.com/emersion/go-imap/v2/(?:imapclient|internal/imapwire)\.(?:\(\*?\w+\)\.)?[\w.\[\]]+)`)

// c13DumpSig names the go-imap functions goroutines are blocked in (the replay of a hang).
func c13DumpSig(dump []byte) string {
	seen := map[string]bool{}
	var out []string
	for _, g := range bytes.Split(dump, []byte("\n\n")) {
		if m := c13FrameRe.FindSubmatch(g); m != nil {
			fn := string(m[1])
			fn = fn[strings.LastIndex(fn, "/")+1:]
			if !seen[fn] {
				seen[fn] = true
				out = append(out, fn)
			}
		}
	}
	sort.Strings(out)
	if len(out) > 8 {
		out = out[:8]
	}
	return strings.Join(out, "+")
}

// c13RaceReports extracts from the race detector's log the reports that involve go-imap client code.
// Signature: the two innermost go-imap functions of each of the two conflicting accesses, the
// two accesses in alphabetical order ("a+b|c+d").
func c13RaceReports(log string) []string {
	var sigs []string
	for _, rep := range strings.Split(log, "==================") {
		if !strings.Contains(rep, "WARNING: DATA RACE") || !c13FrameRe.MatchString(rep) {
			continue
		}
		var halves []string
		for _, sec := range strings.Split(rep, "\n\n") {
			if len(halves) == 2 {
				break
			}
			t := strings.TrimSpace(sec)
			if !(strings.Contains(t, " by goroutine ") || strings.Contains(t, " by main goroutine")) {
				continue
			}
			var fns []string
			for _, m := range c13FrameRe.FindAllStringSubmatch(sec, 2) {
				fns = append(fns, m[1][strings.LastIndex(m[1], "/")+1:])
			}
			halves = append(halves, strings.Join(fns, "+"))
		}
		sort.Strings(halves)
		sigs = append(sigs, strings.Join(halves, "|"))
	}
	return sigs
}

func c13RaceLogSize() (string, int64) {
	prefix := os.Getenv("VERIF_C13_RACELOG")
	if prefix == "" {
		return "", 0
	}
	p := prefix + "." + strconv.Itoa(os.Getpid())
	st, err := os.Stat(p)
	if err != nil {
		return p, 0
	}
	return p, st.Size()
}

// c13RaceRun (child side): request = seed; answer = "clean" or "<class> <what> <signature>".
func c13RaceRun(req string) string {
	seed, _ := strconv.ParseUint(req, 10, 64)
	path, before := c13RaceLogSize()
	res := c13RaceOnce(seed)
	if path != "" {
		if data, err := os.ReadFile(path); err == nil && int64(len(data)) > before {
			if sigs := c13RaceReports(string(data[before:])); len(sigs) > 0 {
				sort.Strings(sigs)
				return "data-race - " + sigs[0]
			}
		}
	}
	if res == "" {
		return "clean"
	}
	return res
}

func c13RaceBatch(exe, tmp string, seeds []uint64) []string {
	logp := filepath.Join(tmp, fmt.Sprintf("racelog-%d", seeds[0]))
	pool := &workerPool{name: "c13race", timeout: 10 * time.Minute, exe: exe, maxBad: 3,
		env: []string{"GORACE=log_path=" + logp + " halt_on_error=0", "VERIF_C13_RACELOG=" + logp}}
	// small batches: a tree that hangs in every run costs a watchdog per run, three are enough
	res := make([]string, len(seeds))
	bad := 0
	for lo := 0; lo < len(seeds); lo += 4 {
		hi := lo + 4
		if hi > len(seeds) {
			hi = len(seeds)
		}
		if bad >= 2 {
			for i := lo; i < hi; i++ {
				res[i] = "skipped"
			}
			continue
		}
		reqs := make([]string, 0, 4)
		for _, s := range seeds[lo:hi] {
			reqs = append(reqs, strconv.FormatUint(s, 10))
		}
		for i, a := range pool.runOnce(reqs) {
			res[lo+i] = a
			if a != "clean" {
				bad++
			}
		}
	}
	return res
}

func c13EmitRace(e *emitter, seed uint64, ans string) {
	f := strings.SplitN(ans, " ", 3)
	for len(f) < 3 {
		f = append(f, "-")
	}
	if f[0] == "timeout" || f[0] == "crash" {
		// the child itself hung or died: the watchdog inside did not even fire
		f = []string{"command-never-completes", "worker-" + f[0], "-"}
	}
	e.count("race:" + f[0])
	e.emit("race", strconv.FormatUint(seed, 10), f[0], f[1], f[2])
}

func c13RunRace(e *emitter, exe, tmp string, n int, r *rng) {
	seeds := make([]uint64, n)
	for i := range seeds {
		seeds[i] = r.next() % 1000000007
	}
	procs := 4
	res := make([]string, n)
	var wg sync.WaitGroup
	chunk := (n + procs - 1) / procs
	for p := 0; p < procs; p++ {
		lo, hi := p*chunk, (p+1)*chunk
		if hi > n {
			hi = n
		}
		if lo >= hi {
			break
		}
		wg.Add(1)
		go func() {
			defer wg.Done()
			copy(res[lo:hi], c13RaceBatch(exe, tmp, seeds[lo:hi]))
		}()
	}
	wg.Wait()
	for i, s := range seeds {
		if res[i] == "skipped" {
			e.count("race:skipped-after-failures")
			continue
		}
		c13EmitRace(e, s, res[i])
	}
}

// c13ReplayRace repeats one workload; the OS scheduler decides, so it is tried several times.
func c13ReplayRace(e *emitter, exe, tmp, workload string) {
	seed, _ := strconv.ParseUint(workload, 10, 64)
	seeds := make([]uint64, 40)
	for i := range seeds {
		seeds[i] = seed
	}
	ans := "clean"
	for _, a := range c13RaceBatch(exe, tmp, seeds) {
		if a != "clean" && a != "skipped" {
			ans = a
			break
		}
	}
	c13EmitRace(e, seed, ans)
}
