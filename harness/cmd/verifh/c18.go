//go:build c18 || allprops

package main

import (
	"bytes"
	"encoding/hex"
	"errors"
	"fmt"
	"io"
	"regexp"
	"strconv"
	"strings"
	"time"

	"github.com/emersion/go-imap/v2"
	"github.com/emersion/go-imap/v2/imapclient"
)

// C18 — the client only uses syntax the server advertised and respects literal synchronisation.
//
// One case = one fresh imapclient.Client on an in-memory connection whose other end is a scripted
// server. The server greets with `* PREAUTH [CAPABILITY <set>]`, optionally answers an
// `ENABLE UTF8=ACCEPT` exchange, then the client issues ONE probe command. The server records every
// byte the client writes and, each time a line ends in a synchronising literal header `{n}`, acts
// as scripted: `+` at once, `+` after a pause, tagged NO, tagged BAD; the number of client bytes it
// had received when it acted is recorded with the action. A closing NOOP (next tag) delimits the
// probe's bytes exactly: whatever the client wrote between the probe's first byte and the NOOP
// line belongs to the probe, whenever it was written.
//
// Case line `cmd`: caps, enabled, probe kind, arguments, script | wire bytes, actions, status,
// command result. Byte strings are run-length hex (c18rle). Case line `has`: a capability set, a
// capability, the answer of CapSet.Has.

func init() {
	props["C18"] = genC18
	replayers["C18"] = replayC18
}

const c18Deadline = 30 * time.Second
const c18Late = 2 * time.Millisecond

// ---- run-length hex -------------------------------------------------------------------------

// c18rle renders b as '.'-separated tokens `<hex>` or `<hex>*<n>` (the unit repeated n times).
func c18rle(b []byte) string {
	if len(b) == 0 {
		return "-"
	}
	var toks []string
	var lit []byte
	flush := func() {
		if len(lit) > 0 {
			toks = append(toks, hex.EncodeToString(lit))
			lit = nil
		}
	}
	for i := 0; i < len(b); {
		bestP, bestR := 0, 0
		for p := 1; p <= 8 && i+2*p <= len(b); p++ {
			r := 1
			for i+(r+1)*p <= len(b) && bytes.Equal(b[i:i+p], b[i+r*p:i+(r+1)*p]) {
				r++
			}
			if r >= 4 && r*p >= 16 && r*p > bestR*bestP {
				bestP, bestR = p, r
			}
		}
		if bestP > 0 {
			flush()
			toks = append(toks, hex.EncodeToString(b[i:i+bestP])+"*"+strconv.Itoa(bestR))
			i += bestP * bestR
		} else {
			lit = append(lit, b[i])
			i++
		}
	}
	flush()
	return strings.Join(toks, ".")
}

func c18unrle(s string) []byte {
	if s == "-" {
		return nil
	}
	var out []byte
	for _, t := range strings.Split(s, ".") {
		unit, n := t, 1
		if i := strings.IndexByte(t, '*'); i >= 0 {
			unit = t[:i]
			n, _ = strconv.Atoi(t[i+1:])
		}
		u, err := hex.DecodeString(unit)
		if err != nil {
			panic(err)
		}
		for k := 0; k < n; k++ {
			out = append(out, u...)
		}
	}
	return out
}

// ---- scripted server ------------------------------------------------------------------------

type c18Act struct {
	off  int
	kind byte // 'p' continuation request, 'n' tagged NO, 'b' tagged BAD
}

type c18Server struct {
	conn *memConn
	caps string
	buf  []byte
	eof  bool
	end  string // why fill failed: "eof" (the client closed) or "timeout"
	used int    // bytes of buf consumed by the last serve that returned "done"
	// one-shot modifiers of the next tagged OK (session events)
	code       bool   // carry `[CAPABILITY <caps>]`
	plainLogin bool   // LOGIN answered without the capability code
	extra      string // untagged lines sent in front of it
	enabled    string // the `* ENABLED …` line answering the next ENABLE (default: UTF8=ACCEPT)
}

// advance drops what the last serve consumed
func (s *c18Server) advance() {
	if s.used <= len(s.buf) {
		s.buf = append([]byte(nil), s.buf[s.used:]...)
	} else {
		s.buf = nil
	}
	s.used = 0
}

// fill blocks for more client bytes; false at end of stream or deadline
func (s *c18Server) fill() bool {
	if s.eof {
		return false
	}
	tmp := make([]byte, 8192)
	n, err := s.conn.Read(tmp)
	s.buf = append(s.buf, tmp[:n]...)
	if err != nil {
		s.eof = true
		s.end = "timeout"
		if err == io.EOF {
			s.end = "eof"
		}
		return n > 0
	}
	return true
}

// soak takes whatever the client has written so far, without waiting
func (s *c18Server) soak() {
	d, _ := s.conn.drain()
	s.buf = append(s.buf, d...)
}

var c18LitRe = regexp.MustCompile(`\{([0-9]+)(\+?)\}$`)

func c18Tag(line []byte) string {
	if i := bytes.IndexByte(line, ' '); i > 0 {
		return string(line[:i])
	}
	return string(line)
}

func c18Word(line []byte, k int) string {
	f := strings.Fields(string(line))
	if k < len(f) {
		return strings.ToUpper(f[k])
	}
	return ""
}

// serve reads client bytes until the line `<stopTag> NOOP` (answered OK) and returns everything
// before that line. Commands tagged `replyTag` are answered (once) with a tagged OK, preceded by
// the untagged data ENABLE / CAPABILITY need; each synchronising literal header is answered as
// the script says (the last letter repeats).
func (s *c18Server) serve(replyTag, stopTag, script string) (wire []byte, acts []c18Act, status string) {
	pos, lit := 0, 0
	cmdStart := true
	cmdTag, cmdLine := "", []byte(nil)
	replied := false
	for {
		idx := bytes.Index(s.buf[pos:], []byte("\r\n"))
		if idx < 0 {
			if !s.fill() {
				return s.buf, acts, s.end
			}
			continue
		}
		line := s.buf[pos : pos+idx]
		lineEnd := pos + idx + 2
		if cmdStart {
			// the closing NOOP; stray bytes in front of it on the same line (left over in the
			// client's buffer) still belong to the probe
			if stopTag != "" && bytes.HasSuffix(line, []byte(stopTag+" NOOP")) {
				s.conn.Write([]byte(stopTag + " OK done\r\n"))
				s.used = lineEnd
				return s.buf[:lineEnd-2-len(stopTag+" NOOP")], acts, "done"
			}
			cmdTag, cmdLine = c18Tag(line), line
			cmdStart = false
		}
		if m := c18LitRe.FindSubmatch(line); m != nil {
			n, _ := strconv.Atoi(string(m[1]))
			if len(m[2]) == 0 { // synchronising: act
				a := byte('p')
				if len(script) > 0 {
					if lit < len(script) {
						a = script[lit]
					} else {
						a = script[len(script)-1]
					}
				}
				lit++
				if a == 'P' {
					time.Sleep(c18Late)
					a = 'p'
				}
				s.soak()
				acts = append(acts, c18Act{len(s.buf), a})
				switch a {
				case 'p':
					s.conn.Write([]byte("+ go ahead\r\n"))
				case 'n':
					s.conn.Write([]byte(cmdTag + " NO refused\r\n"))
				case 'b':
					s.conn.Write([]byte(cmdTag + " BAD refused\r\n"))
				}
				if a != 'p' {
					pos = lineEnd
					cmdStart = true
					if cmdTag == replyTag {
						replied = true
					}
					continue
				}
			}
			for len(s.buf) < lineEnd+n {
				if !s.fill() {
					return s.buf, acts, s.end
				}
			}
			pos = lineEnd + n
			continue
		}
		// the command is complete
		if cmdTag == replyTag && !replied {
			replied = true
			word := c18Word(cmdLine, 1)
			pre, fin := s.extra, cmdTag+" OK done\r\n"
			switch {
			case word == "ENABLE":
				if s.enabled != "" {
					pre += s.enabled
				} else {
					pre += "* ENABLED UTF8=ACCEPT\r\n"
				}
				s.enabled = ""
			case word == "CAPABILITY":
				pre += "* CAPABILITY " + s.caps + "\r\n"
			case word == "LOGIN" && !s.plainLogin, s.code:
				fin = cmdTag + " OK [CAPABILITY " + s.caps + "] done\r\n"
			}
			s.extra, s.code, s.plainLogin = "", false, false
			s.conn.Write([]byte(pre + fin))
			if stopTag == "" {
				s.used = lineEnd
				return s.buf[:lineEnd], acts, "done"
			}
		}
		pos = lineEnd
		cmdStart = true
	}
}

// ---- probes ---------------------------------------------------------------------------------

type c18Probe struct {
	kind  string
	nargs int
	extra []string // capabilities added to the advertised set for this probe
	run   func(c *imapclient.Client, a []string) error
}

func c18Crit(kind string, a []string) *imap.SearchCriteria {
	switch kind {
	case "body":
		return &imap.SearchCriteria{Body: []string{a[0]}}
	case "text":
		return &imap.SearchCriteria{Text: []string{a[0]}}
	case "header":
		return &imap.SearchCriteria{Header: []imap.SearchCriteriaHeaderField{{Key: a[0], Value: a[1]}}}
	case "subject":
		return &imap.SearchCriteria{Header: []imap.SearchCriteriaHeaderField{{Key: "Subject", Value: a[0]}}}
	case "keyword":
		return &imap.SearchCriteria{Flag: []imap.Flag{imap.Flag(a[0])}}
	case "unkeyword":
		return &imap.SearchCriteria{NotFlag: []imap.Flag{imap.Flag(a[0])}}
	case "modseq":
		return &imap.SearchCriteria{ModSeq: &imap.SearchCriteriaModSeq{ModSeq: 5, MetadataName: a[0], MetadataType: imap.SearchCriteriaMetadataAll}}
	case "notbody":
		return &imap.SearchCriteria{Not: []imap.SearchCriteria{{Body: []string{a[0]}}}}
	case "orbody":
		return &imap.SearchCriteria{Or: [][2]imap.SearchCriteria{{{Body: []string{a[0]}}, {Text: []string{a[1]}}}}}
	}
	panic("c18: unknown criteria kind " + kind)
}

func c18SearchProbe(kind string, nargs int) c18Probe {
	return c18Probe{kind: "search-" + kind, nargs: nargs, run: func(c *imapclient.Client, a []string) error {
		_, err := c.Search(c18Crit(kind, a), nil).Wait()
		return err
	}}
}

var c18Probes = []c18Probe{
	{kind: "login", nargs: 2, run: func(c *imapclient.Client, a []string) error { return c.Login(a[0], a[1]).Wait() }},
	{kind: "select", nargs: 1, run: func(c *imapclient.Client, a []string) error { _, err := c.Select(a[0], nil).Wait(); return err }},
	{kind: "examine", nargs: 1, run: func(c *imapclient.Client, a []string) error {
		_, err := c.Select(a[0], &imap.SelectOptions{ReadOnly: true}).Wait()
		return err
	}},
	{kind: "create", nargs: 1, run: func(c *imapclient.Client, a []string) error { return c.Create(a[0], nil).Wait() }},
	{kind: "delete", nargs: 1, run: func(c *imapclient.Client, a []string) error { return c.Delete(a[0]).Wait() }},
	{kind: "rename", nargs: 2, run: func(c *imapclient.Client, a []string) error { return c.Rename(a[0], a[1]).Wait() }},
	{kind: "subscribe", nargs: 1, run: func(c *imapclient.Client, a []string) error { return c.Subscribe(a[0]).Wait() }},
	{kind: "unsubscribe", nargs: 1, run: func(c *imapclient.Client, a []string) error { return c.Unsubscribe(a[0]).Wait() }},
	{kind: "list", nargs: 2, run: func(c *imapclient.Client, a []string) error { _, err := c.List(a[0], a[1], nil).Collect(); return err }},
	{kind: "status", nargs: 1, run: func(c *imapclient.Client, a []string) error {
		_, err := c.Status(a[0], &imap.StatusOptions{NumMessages: true}).Wait()
		return err
	}},
	{kind: "copy", nargs: 1, run: func(c *imapclient.Client, a []string) error {
		_, err := c.Copy(imap.SeqSetNum(1), a[0]).Wait()
		return err
	}},
	{kind: "move", nargs: 1, extra: []string{"MOVE"}, run: func(c *imapclient.Client, a []string) error {
		_, err := c.Move(imap.SeqSetNum(1), a[0]).Wait()
		return err
	}},
	{kind: "append", nargs: 2, run: func(c *imapclient.Client, a []string) error {
		cmd := c.Append(a[0], int64(len(a[1])), nil)
		cmd.Write([]byte(a[1]))
		cmd.Close()
		_, err := cmd.Wait()
		return err
	}},
	{kind: "getmetadata", nargs: 2, run: func(c *imapclient.Client, a []string) error {
		_, err := c.GetMetadata(a[0], []string{a[1]}, nil).Wait()
		return err
	}},
	{kind: "setmetadata", nargs: 3, run: func(c *imapclient.Client, a []string) error {
		v := []byte(a[2])
		return c.SetMetadata(a[0], map[string]*[]byte{a[1]: &v}).Wait()
	}},
	{kind: "getquota", nargs: 1, run: func(c *imapclient.Client, a []string) error { _, err := c.GetQuota(a[0]).Wait(); return err }},
	{kind: "getquotaroot", nargs: 1, run: func(c *imapclient.Client, a []string) error {
		_, err := c.GetQuotaRoot(a[0]).Wait()
		return err
	}},
	{kind: "setquota", nargs: 1, run: func(c *imapclient.Client, a []string) error {
		return c.SetQuota(a[0], map[imap.QuotaResourceType]int64{imap.QuotaResourceStorage: 5}).Wait()
	}},
	{kind: "fetchhdr", nargs: 1, run: func(c *imapclient.Client, a []string) error {
		_, err := c.Fetch(imap.SeqSetNum(1), &imap.FetchOptions{BodySection: []*imap.FetchItemBodySection{
			{Specifier: imap.PartSpecifierHeader, HeaderFields: []string{a[0]}}}}).Collect()
		return err
	}},
	c18SearchProbe("body", 1), c18SearchProbe("text", 1), c18SearchProbe("header", 2), c18SearchProbe("subject", 1),
	c18SearchProbe("keyword", 1), c18SearchProbe("unkeyword", 1), c18SearchProbe("modseq", 1),
	c18SearchProbe("notbody", 1), c18SearchProbe("orbody", 2),
	{kind: "uidsearch-body", nargs: 1, run: func(c *imapclient.Client, a []string) error {
		_, err := c.UIDSearch(c18Crit("body", a), nil).Wait()
		return err
	}},
	{kind: "store", nargs: 1, run: func(c *imapclient.Client, a []string) error {
		return c.Store(imap.SeqSetNum(1), &imap.StoreFlags{Op: imap.StoreFlagsAdd, Flags: []imap.Flag{imap.Flag(a[0])}}, nil).Close()
	}},
	{kind: "sort", nargs: 1, run: func(c *imapclient.Client, a []string) error {
		_, err := c.Sort(&imapclient.SortOptions{SearchCriteria: c18Crit("body", a),
			SortCriteria: []imapclient.SortCriterion{{Key: imapclient.SortKeyDate}}}).Wait()
		return err
	}},
	{kind: "thread", nargs: 1, run: func(c *imapclient.Client, a []string) error {
		_, err := c.Thread(&imapclient.ThreadOptions{Algorithm: imap.ThreadReferences, SearchCriteria: c18Crit("body", a)}).Wait()
		return err
	}},
}

func c18ProbeByKind(kind string) *c18Probe {
	for i := range c18Probes {
		if c18Probes[i].kind == kind {
			return &c18Probes[i]
		}
	}
	return nil
}

func c18Result(err error) string {
	if err == nil {
		return "ok"
	}
	var ie *imap.Error
	if errors.As(err, &ie) {
		switch ie.Type {
		case imap.StatusResponseTypeNo:
			return "no"
		case imap.StatusResponseTypeBad:
			return "bad"
		}
	}
	return "err"
}

// c18Run executes one case against the real client and returns the case line.
func c18Run(caps string, enabled bool, kind string, args []string, script string) caseLine {
	return c18RunSeq(caps, enabled, nil, kind, args, script)
}

// c18RunSeq: as c18Run, after a first command `pre` (with its own script and closing NOOP) on the
// same connection; the case line (kind `seq`) then carries the first command as context and the
// observation of the second.
func c18RunSeq(caps string, enabled bool, pre *c18Job, kind string, args []string, script string) caseLine {
	probe := c18ProbeByKind(kind)
	cli, srv := memPipe()
	srv.SetReadDeadline(time.Now().Add(c18Deadline))
	capText := strings.ReplaceAll(caps, ",", " ")
	s := &c18Server{conn: srv, caps: capText}
	srv.Write([]byte("* PREAUTH [CAPABILITY " + capText + "] ready\r\n"))
	c := imapclient.New(cli, nil)
	defer func() {
		srv.Close()
		cli.Close()
	}()
	rleArgs := func(args []string) string {
		rl := make([]string, len(args))
		for i, a := range args {
			rl[i] = c18rle([]byte(a))
		}
		return strings.Join(rl, "|")
	}
	lineKind := "cmd"
	fields := []string{caps, b01(enabled)}
	if pre != nil {
		lineKind = "seq"
		fields = append(fields, pre.kind, rleArgs(pre.args), pre.script)
	}
	fields = append(fields, kind, rleArgs(args), script)
	fail := func(status string) caseLine {
		return caseLine{kind: lineKind, fields: append(fields, "-", "-", status, "err")}
	}
	if err := c.WaitGreeting(); err != nil {
		return fail("nogreeting")
	}
	tag := 1
	if enabled {
		done := make(chan error, 1)
		go func() { _, err := c.Enable(imap.CapUTF8Accept).Wait(); done <- err }()
		if _, _, st := s.serve("T1", "", ""); st != "done" {
			return fail("noenable")
		}
		select {
		case err := <-done:
			if err != nil {
				return fail("noenable")
			}
		case <-time.After(c18Deadline):
			return fail("noenable")
		}
		s.advance()
		tag = 2
	}
	if pre != nil {
		pdone := make(chan struct{})
		go func() {
			c18ProbeByKind(pre.kind).run(c, pre.args)
			c.Noop().Wait()
			close(pdone)
		}()
		if _, _, st := s.serve(fmt.Sprintf("T%d", tag), fmt.Sprintf("T%d", tag+1), pre.script); st != "done" {
			return fail("noprelude")
		}
		select {
		case <-pdone:
		case <-time.After(c18Deadline):
			return fail("noprelude")
		}
		s.advance()
		tag += 2
	}
	res := make(chan string, 1)
	go func() {
		r := c18Result(probe.run(c, args))
		c.Noop().Wait()
		res <- r
	}()
	wire, acts, status := s.serve(fmt.Sprintf("T%d", tag), fmt.Sprintf("T%d", tag+1), script)
	wire = append([]byte(nil), wire...)
	if status != "done" {
		// release a client that may be blocked
		srv.Close()
		cli.Close()
	}
	result := "hang"
	select {
	case result = <-res:
	case <-time.After(c18Deadline):
	}
	as := make([]string, len(acts))
	for i, a := range acts {
		as[i] = fmt.Sprintf("%d:%c", a.off, a.kind)
	}
	actStr := "-"
	if len(as) > 0 {
		actStr = strings.Join(as, ",")
	}
	return caseLine{kind: lineKind, fields: append(fields, c18rle(wire), actStr, status, result)}
}

// c18RunSess: a session prefix (events that set or change what the server advertised / enabled),
// then one probe command. Events, ';'-separated: `g:<caps>` greeting; `e` ENABLE UTF8=ACCEPT
// exchange; `E:<names>` a further ENABLE (METADATA) answered `* ENABLED <names>` ("-" = none);
// `u:<caps>` UNAUTHENTICATE answered OK [CAPABILITY caps]; `U:<caps>` answered plain OK,
// the client's own CAPABILITY command answered with caps; `c:<caps>` an untagged CAPABILITY (during a
// NOOP); `l:<caps>` / `L:<caps>` LOGIN answered with / without the capability code (then the
// client's CAPABILITY command); `h:<caps>` an APPEND holds the encoder (literal open), the probe is
// issued from a second goroutine and queues behind it, the server announces caps, the client
// processes that, only then the APPEND is finished.
func c18RunSess(events string, kind string, args []string, script string) caseLine {
	probe := c18ProbeByKind(kind)
	evs := strings.Split(events, ";")
	cli, srv := memPipe()
	srv.SetReadDeadline(time.Now().Add(c18Deadline))
	s := &c18Server{conn: srv}
	rl := make([]string, len(args))
	for i, a := range args {
		rl[i] = c18rle([]byte(a))
	}
	tag := 0
	fields := func() []string {
		return []string{events, strconv.Itoa(tag + 1), kind, strings.Join(rl, "|"), script}
	}
	fail := func(status string) caseLine {
		return caseLine{kind: "sess", fields: append(fields(), "-", "-", status, "err")}
	}
	capText := func(ev string) string { return strings.ReplaceAll(ev[2:], ",", " ") }
	if len(evs) == 0 || !strings.HasPrefix(evs[0], "g:") {
		return fail("badevents")
	}
	s.caps = capText(evs[0])
	srv.Write([]byte("* PREAUTH [CAPABILITY " + s.caps + "] ready\r\n"))
	c := imapclient.New(cli, nil)
	defer func() {
		srv.Close()
		cli.Close()
	}()
	if err := c.WaitGreeting(); err != nil {
		return fail("nogreeting")
	}
	// one command of the prefix: issue it, serve it, wait until the client has digested the answer
	exchange := func(issue func(), n int) bool {
		done := make(chan struct{})
		go func() { issue(); close(done) }()
		for i := 0; i < n; i++ {
			tag++
			if _, _, st := s.serve(fmt.Sprintf("T%d", tag), "", ""); st != "done" {
				return false
			}
			s.advance()
		}
		select {
		case <-done:
		case <-time.After(c18Deadline):
			return false
		}
		return srv.awaitPeerIdle(c18Deadline) == "idle"
	}
	var release chan struct{}
	var holderDone chan struct{}
	for _, ev := range evs[1:] {
		ok := true
		switch {
		case ev == "e":
			ok = exchange(func() { c.Enable(imap.CapUTF8Accept).Wait() }, 1)
		case strings.HasPrefix(ev, "E:"):
			// a further ENABLE (METADATA), answered with the given list of NEWLY enabled names
			s.enabled = "* ENABLED\r\n"
			if ev[2:] != "-" {
				s.enabled = "* ENABLED " + capText(ev) + "\r\n"
			}
			ok = exchange(func() { c.Enable(imap.CapMetadata).Wait() }, 1)
		case strings.HasPrefix(ev, "u:"):
			s.caps, s.code = capText(ev), true
			ok = exchange(func() { c.Unauthenticate().Wait() }, 1)
		case strings.HasPrefix(ev, "U:"):
			s.caps = capText(ev)
			ok = exchange(func() { c.Unauthenticate().Wait(); c.Caps() }, 2)
		case strings.HasPrefix(ev, "c:"):
			s.caps = capText(ev)
			s.extra = "* CAPABILITY " + s.caps + "\r\n"
			ok = exchange(func() { c.Noop().Wait() }, 1)
		case strings.HasPrefix(ev, "l:"):
			s.caps = capText(ev)
			ok = exchange(func() { c.Login("u", "p").Wait() }, 1)
		case strings.HasPrefix(ev, "L:"):
			s.caps, s.plainLogin = capText(ev), true
			ok = exchange(func() { c.Login("u", "p").Wait(); c.Caps() }, 2)
		case strings.HasPrefix(ev, "h:"):
			// must be the last event; handled below
			release, holderDone = make(chan struct{}), make(chan struct{})
			opened := make(chan struct{})
			go func() {
				cmd := c.Append("x", 3, nil) // non-synchronising under the current set: returns with the encoder held
				close(opened)
				<-release
				cmd.Write([]byte("xyz"))
				cmd.Close()
				cmd.Wait()
				close(holderDone)
			}()
			select {
			case <-opened:
			case <-time.After(c18Deadline):
				return fail("noholder")
			}
			tag++
		default:
			return fail("badevents")
		}
		if !ok {
			return fail("noprefix")
		}
	}
	holderTag := tag
	res := make(chan string, 1)
	go func() {
		r := c18Result(probe.run(c, args))
		c.Noop().Wait()
		res <- r
	}()
	if release != nil {
		// the probe is now queued behind the open APPEND; let it get there, then change the
		// capabilities, wait until the client has processed them, then finish the APPEND
		time.Sleep(3 * time.Millisecond)
		last := evs[len(evs)-1]
		s.caps = capText(last)
		srv.Write([]byte("* CAPABILITY " + s.caps + "\r\n"))
		if srv.awaitPeerIdle(c18Deadline) != "idle" {
			return fail("noprefix")
		}
		close(release)
		if _, _, st := s.serve(fmt.Sprintf("T%d", holderTag), "", ""); st != "done" {
			return fail("noholder")
		}
		s.advance()
	}
	wire, acts, status := s.serve(fmt.Sprintf("T%d", tag+1), fmt.Sprintf("T%d", tag+2), script)
	wire = append([]byte(nil), wire...)
	if status != "done" {
		srv.Close()
		cli.Close()
	}
	result := "hang"
	select {
	case result = <-res:
	case <-time.After(c18Deadline):
	}
	if holderDone != nil {
		select {
		case <-holderDone:
		case <-time.After(c18Deadline):
		}
	}
	as := make([]string, len(acts))
	for i, a := range acts {
		as[i] = fmt.Sprintf("%d:%c", a.off, a.kind)
	}
	actStr := "-"
	if len(as) > 0 {
		actStr = strings.Join(as, ",")
	}
	return caseLine{kind: "sess", fields: append(fields(), c18rle(wire), actStr, status, result)}
}

func replayC18(e *emitter, kind string, f []string) {
	switch kind {
	case "cmd":
		if len(f) < 5 {
			return
		}
		var args []string
		for _, a := range strings.Split(f[3], "|") {
			args = append(args, string(c18unrle(a)))
		}
		l := c18Run(f[0], f[1] == "1", f[2], args, f[4])
		e.emit(l.kind, l.fields...)
	case "sess":
		if len(f) < 5 {
			return
		}
		var args []string
		for _, a := range strings.Split(f[3], "|") {
			args = append(args, string(c18unrle(a)))
		}
		l := c18RunSess(f[0], f[2], args, f[4])
		e.emit(l.kind, l.fields...)
	case "seq":
		if len(f) < 8 {
			return
		}
		un := func(s string) []string {
			var args []string
			for _, a := range strings.Split(s, "|") {
				args = append(args, string(c18unrle(a)))
			}
			return args
		}
		l := c18RunSeq(f[0], f[1] == "1", &c18Job{kind: f[2], args: un(f[3]), script: f[4]}, f[5], un(f[6]), f[7])
		e.emit(l.kind, l.fields...)
	case "has":
		if len(f) < 2 {
			return
		}
		e.emit("has", f[0], f[1], b01(c18Has(f[0], f[1])))
	}
}

func c18Has(caps, q string) bool {
	set := imap.CapSet{}
	if caps != "-" {
		for _, c := range strings.Split(caps, ",") {
			set[imap.Cap(c)] = struct{}{}
		}
	}
	return set.Has(imap.Cap(q))
}

// ---- generation -----------------------------------------------------------------------------

var c18CapSets = [][]string{
	{"IMAP4rev1"},
	{"IMAP4rev1", "LITERAL-"},
	{"IMAP4rev1", "LITERAL+"},
	{"IMAP4rev2"},
	{"IMAP4rev1", "IMAP4rev2"},
	{"IMAP4rev1", "LITERAL+", "LITERAL-"},
	{"IMAP4rev1", "ENABLE", "UTF8=ACCEPT"}, // advertised, and enabled only in the `enabled` variant
}

// the capabilities of the Has table: every name CapSet.Has treats specially, the thirteen folded
// into IMAP4rev2, and one that is none of these
var c18HasCaps = []string{"IMAP4rev1", "IMAP4rev2", "NAMESPACE", "UNSELECT", "UIDPLUS", "ESEARCH", "SEARCHRES", "ENABLE",
	"IDLE", "SASL-IR", "LIST-EXTENDED", "LIST-STATUS", "MOVE", "LITERAL-", "STATUS=SIZE", "LITERAL+", "CONDSTORE", "QRESYNC",
	"UTF8=ACCEPT", "UTF8=ONLY", "SORT"}

// the members that drive an implication, plus two inert ones: every subset is enumerated
var c18HasDrivers = []string{"IMAP4rev2", "LITERAL+", "LITERAL-", "QRESYNC", "CONDSTORE", "UTF8=ONLY", "UTF8=ACCEPT", "IMAP4rev1", "MOVE"}

func c18Rep(pat string, n int) string {
	var sb strings.Builder
	for sb.Len() < n {
		sb.WriteString(pat)
	}
	return sb.String()[:n]
}

// c18Str builds the string of a class with exactly n bytes (n >= the class minimum)
func c18Str(class string, n int) string {
	switch class {
	case "atom":
		return c18Rep("a", n)
	case "sp":
		return c18Rep(" a", n)
	case "esc":
		return c18Rep("\"\\", n)
	case "utf8":
		if n%2 == 1 {
			return "a" + c18Rep("\xc3\xa9", n-1)
		}
		return c18Rep("\xc3\xa9", n)
	case "bad8":
		return c18Rep("\xff", n)
	case "nul":
		return c18Rep("a", n-1) + "\x00"
	case "cr":
		return c18Rep("a", n-1) + "\r"
	case "lf":
		return c18Rep("a", n-1) + "\n"
	case "crlf":
		return c18Rep("a", n-3) + "\r\nb"
	case "empty":
		return ""
	}
	panic("c18: class " + class)
}

type c18Arg struct {
	class string
	n     int
}

func c18Grid(lens []int) []c18Arg {
	var g []c18Arg
	for _, cl := range []string{"atom", "sp", "esc", "utf8", "bad8", "nul", "cr", "lf", "crlf"} {
		for _, n := range lens {
			if cl == "utf8" && n < 2 {
				n = 2
			}
			if cl == "crlf" && n < 3 {
				n = 3
			}
			g = append(g, c18Arg{cl, n})
		}
	}
	return append(g, c18Arg{"empty", 0})
}

// mailbox names whose modified UTF-7 form sits at the quoted-string limit: `a…a` + three é
// (10 bytes once encoded)
func c18MboxExtra() []string {
	var l []string
	for _, n := range []int{4095, 4096, 4097} {
		l = append(l, c18Rep("a", n-10)+"\xc3\xa9\xc3\xa9\xc3\xa9")
	}
	return append(l, "inbox", "INBOX", "Inbox/x", "a&b")
}

var c18Flags = []string{"kw", "$Forwarded", `\Seen`, `\Deleted`, "k\xc3\xa9", c18Rep("k", 200), "a b", "a\rb", "a\nb", "a\x00b", "", `\`, "a(b", "a\"b"}

type c18Job struct {
	caps    string
	enabled bool
	kind    string
	args    []string
	script  string
}

// scripts to run for a case whose arguments lead to `nsync` synchronising literals (as counted
// by a first run with every literal accepted at once)
func c18Scripts(nsync int) []string {
	switch {
	case nsync == 0:
		return nil
	case nsync == 1:
		return []string{"P", "n", "b"}
	default:
		return []string{"P", "n", "b", "pn", "pb", "Pn"}
	}
}

func genC18(e *emitter, tier string, seed uint64) {
	r := newRng(seed, "C18")
	// 1. CapSet.Has over every subset of the driving capabilities
	for m := 0; m < 1<<len(c18HasDrivers); m++ {
		var set []string
		for i, c := range c18HasDrivers {
			if m&(1<<i) != 0 {
				set = append(set, c)
			}
		}
		cs := "-"
		if len(set) > 0 {
			cs = strings.Join(set, ",")
		}
		for _, q := range c18HasCaps {
			e.emit("has", cs, q, b01(c18Has(cs, q)))
		}
		e.count("has:sets")
	}

	// 2. commands. `full` = every string class at every length; `mini` = every class at its
	// shortest length plus four long strings around the threshold. The quick tier runs the full grid
	// through one argument of every encoder entry point (String: LOGIN, SEARCH BODY, SETMETADATA,
	// SEARCH MODSEQ entry name; Mailbox: SELECT, APPEND) and the mini grid through every other
	// string argument of every command; the thorough tier runs the full grid everywhere.
	full := c18Grid([]int{1, 4095, 4096, 4097})
	mini := append(c18Grid([]int{1}), c18Arg{"atom", 4096}, c18Arg{"atom", 4097}, c18Arg{"nul", 4096}, c18Arg{"utf8", 4097})
	if tier != "quick" {
		mini = full
	}
	fullKinds := map[string]bool{"login": true, "select": true, "search-body": true, "search-modseq": true, "append": true, "setmetadata": true}
	mboxKinds := map[string]bool{"select": true, "examine": true, "create": true, "delete": true, "rename": true, "subscribe": true,
		"unsubscribe": true, "list": true, "status": true, "copy": true, "move": true, "append": true, "getquotaroot": true}
	var jobs []c18Job
	for _, base := range c18CapSets {
		for _, enabled := range []bool{false, true} {
			for pi := range c18Probes {
				p := &c18Probes[pi]
				set := append([]string(nil), base...)
				if enabled {
					if len(base) == 3 && base[2] == "UTF8=ACCEPT" {
						continue // the same as {IMAP4rev1} with the ENABLE exchange
					}
					set = append(set, "ENABLE", "UTF8=ACCEPT")
				}
				set = append(set, p.extra...)
				caps := strings.Join(set, ",")
				add := func(args []string) {
					jobs = append(jobs, c18Job{caps, enabled, p.kind, args, "p"})
				}
				def := func() []string {
					a := make([]string, p.nargs)
					for i := range a {
						a[i] = "x"
					}
					if p.kind == "append" {
						a[1] = "xyz"
					}
					return a
				}
				for pos := 0; pos < p.nargs; pos++ {
					isMbox := mboxKinds[p.kind] || ((p.kind == "getmetadata" || p.kind == "setmetadata") && pos == 0)
					switch {
					case p.kind == "append" && pos == 1:
						for _, n := range []int{0, 1, 4095, 4096, 4097} {
							a := def()
							a[1] = c18Rep("m", n)
							add(a)
						}
					case p.kind == "store" || p.kind == "search-keyword" || p.kind == "search-unkeyword":
						for _, f := range c18Flags {
							a := def()
							a[pos] = f
							add(a)
						}
					default:
						grid := mini
						if fullKinds[p.kind] && !(p.kind == "setmetadata" && pos == 0) {
							grid = full
						}
						for _, g := range grid {
							if isMbox && tier == "quick" && g.class == "utf8" && g.n > 100 {
								// long non-ASCII mailbox names: see c18MboxExtra (a long run of
								// non-ASCII code points is quadratic in the UTF-7 model)
								continue
							}
							a := def()
							a[pos] = c18Str(g.class, g.n)
							add(a)
						}
						if pos == 0 && (p.kind == "select" || p.kind == "list" || p.kind == "append") {
							for _, m := range c18MboxExtra() {
								a := def()
								a[pos] = m
								add(a)
							}
						}
					}
				}
				// two and three literal-bearing arguments at once
				if p.nargs >= 2 && p.kind != "append" {
					for _, cl := range []string{"nul", "bad8", "atom"} {
						a := def()
						for i := range a {
							a[i] = c18Str(cl, 4097-i)
						}
						add(a)
					}
					a := def()
					for i := range a {
						a[i] = c18Str("lf", 3+i)
					}
					add(a)
				}
				if p.kind == "append" {
					for _, n := range []int{0, 4096, 4097} {
						a := def()
						a[0] = c18Str("lf", 5)
						a[1] = c18Rep("m", n)
						add(a)
					}
				}
			}
		}
	}
	if tier != "quick" {
		// random argument contents
		n := 20000
		if tier == "widen" {
			n = 4000
		}
		alphabet := []byte("a \"\\\r\n\x00\xc3\xa9\xff{}()%*&-")
		for i := 0; i < n; i++ {
			p := &c18Probes[r.intn(len(c18Probes))]
			if p.kind == "store" || strings.HasSuffix(p.kind, "keyword") {
				continue
			}
			set := append([]string(nil), c18CapSets[r.intn(len(c18CapSets))]...)
			enabled := r.chance(1, 2) && !(len(set) == 3 && set[2] == "UTF8=ACCEPT")
			if enabled {
				set = append(set, "ENABLE", "UTF8=ACCEPT")
			}
			set = append(set, p.extra...)
			a := make([]string, p.nargs)
			for k := range a {
				ln := r.intn(12)
				if r.chance(1, 6) {
					ln = 4090 + r.intn(12)
				}
				b := make([]byte, ln)
				fillc := alphabet[r.intn(len(alphabet))]
				for j := range b {
					if ln > 100 && !r.chance(1, 400) {
						b[j] = fillc
					} else {
						b[j] = alphabet[r.intn(len(alphabet))]
					}
				}
				a[k] = string(b)
			}
			jobs = append(jobs, c18Job{strings.Join(set, ","), enabled, p.kind, a, "p"})
		}
	}

	// 3. a refused command followed by a command with a synchronising literal: the continuation
	// request must still reach the command it answers
	type seqJob struct {
		caps    string
		enabled bool
		pre     c18Job
		next    c18Job
	}
	var seqs []seqJob
	for _, base := range [][]string{{"IMAP4rev1"}, {"IMAP4rev1", "LITERAL-"}} {
		for _, enabled := range []bool{false, true} {
			set := append([]string(nil), base...)
			if enabled {
				set = append(set, "ENABLE", "UTF8=ACCEPT")
			}
			caps := strings.Join(set, ",")
			long := c18Rep("a", 4097)
			pres := []c18Job{
				{kind: "login", args: []string{long, long}},
				{kind: "login", args: []string{long, "x"}},
				{kind: "rename", args: []string{long, long}},
				{kind: "append", args: []string{long, c18Rep("m", 4097)}},
				{kind: "setmetadata", args: []string{long, long, long}},
				{kind: "search-orbody", args: []string{long, long}},
			}
			nexts := []c18Job{
				{kind: "login", args: []string{long, "x"}, script: "p"},
				{kind: "append", args: []string{"x", c18Rep("m", 4097)}, script: "p"},
				{kind: "search-body", args: []string{long}, script: "P"},
			}
			for _, pre := range pres {
				for _, sc := range []string{"n", "b", "pn"} {
					pre.script = sc
					for _, nx := range nexts {
						seqs = append(seqs, seqJob{caps, enabled, pre, nx})
					}
				}
			}
		}
	}
	// 4. sessions: the negotiated state changes between the greeting and the probe
	type sessJob struct {
		events string
		kind   string
		args   []string
	}
	var sess []sessJob
	sets := map[string]string{"1": "IMAP4rev1", "m": "IMAP4rev1,LITERAL-", "p": "IMAP4rev1,LITERAL+", "2": "IMAP4rev2",
		"12": "IMAP4rev1,IMAP4rev2"}
	u8 := ",ENABLE,UTF8=ACCEPT"
	sessProbes := []sessJob{
		{kind: "login", args: []string{"jos\xc3\xa9", "secret"}},
		{kind: "login", args: []string{"a\x00b", "x"}},
		{kind: "login", args: []string{c18Rep("a", 4097), "x"}},
		{kind: "getquota", args: []string{"a\nb"}},
		{kind: "select", args: []string{c18Rep("a", 4097)}},
		{kind: "search-body", args: []string{"caf\xc3\xa9"}},
		{kind: "append", args: []string{"x", "xyz"}},
		{kind: "append", args: []string{"x", c18Rep("m", 4097)}},
	}
	addSess := func(events string, probes []sessJob) {
		for _, p := range probes {
			sess = append(sess, sessJob{events, p.kind, p.args})
		}
	}
	// ENABLE does not survive UNAUTHENTICATE (answered with and without a capability code), unless
	// it is issued again
	for _, b := range []string{"1", "m", "p"} {
		base := sets[b] + u8
		for _, un := range []string{"u:", "U:"} {
			addSess("g:"+base+";e;"+un+base, sessProbes)
			addSess("g:"+base+";e;"+un+base+";e", sessProbes[:1])
			addSess("g:"+base+";e;"+un+sets["1"], sessProbes[:2])
			addSess("g:"+base+";"+un+base, sessProbes[:1])
		}
		addSess("g:"+base+";e;c:"+base, sessProbes[:1]) // a capability list alone resets nothing
	}
	// `* ENABLED` lists the NEWLY enabled extensions: a second ENABLE adds to the set, whatever it lists
	for _, b := range []string{"1", "m", "p"} {
		base := sets[b] + u8 + ",METADATA"
		for _, second := range []string{"E:METADATA", "E:-", "E:UTF8=ACCEPT,METADATA"} {
			addSess("g:"+base+";e;"+second, []sessJob{sessProbes[0], sessProbes[1], sessProbes[5], sessProbes[3]})
			addSess("g:"+base+";"+second+";e", []sessJob{sessProbes[0], sessProbes[5]})
			addSess("g:"+base+";e;"+second+";u:"+base, []sessJob{sessProbes[0], sessProbes[5]})
		}
		addSess("g:"+base+";E:METADATA", []sessJob{sessProbes[0], sessProbes[5]})
	}
	// a later capability list replaces the earlier one: untagged CAPABILITY, LOGIN with and without
	// the code, and a list that arrives while the probe waits for the encoder
	for _, from := range []string{"1", "m", "p", "2", "12"} {
		for _, to := range []string{"1", "m", "p", "2"} {
			if from == to {
				continue
			}
			for _, how := range []string{"c:", "l:", "L:"} {
				addSess("g:"+sets[from]+";"+how+sets[to], sessProbes[:5])
				if how == "c:" {
					addSess("g:"+sets[from]+";"+how+sets[to], sessProbes[5:])
				}
			}
			if from != "1" {
				addSess("g:"+sets[from]+";h:"+sets[to], sessProbes[:5])
				addSess("g:"+sets[from]+";h:"+sets[to], sessProbes[6:])
			}
		}
	}
	for _, b := range []string{"m", "p"} {
		addSess("g:"+sets[b]+u8+";e;h:"+sets["1"], sessProbes[:2])
	}
	defer parCases(e, len(sess), func(i int) []caseLine {
		q := sess[i]
		first := c18RunSess(q.events, q.kind, q.args, "p")
		nsync := 0
		if first.fields[6] != "-" {
			nsync = len(strings.Split(first.fields[6], ","))
		}
		ev := strings.Split(q.events, ";")
		first.counts = []string{"sess:" + ev[len(ev)-1][:1] + ">" + q.kind}
		out := []caseLine{first}
		for _, sc := range c18Scripts(nsync) {
			l := c18RunSess(q.events, q.kind, q.args, sc)
			l.counts = []string{"script:" + sc}
			out = append(out, l)
		}
		return out
	})

	defer parCases(e, len(seqs), func(i int) []caseLine {
		q := seqs[i]
		l := c18RunSeq(q.caps, q.enabled, &q.pre, q.next.kind, q.next.args, q.next.script)
		l.counts = []string{"seq:" + q.pre.kind + "/" + q.pre.script + ">" + q.next.kind}
		return []caseLine{l}
	})

	parCases(e, len(jobs), func(i int) []caseLine {
		j := jobs[i]
		first := c18Run(j.caps, j.enabled, j.kind, j.args, "p")
		out := []caseLine{first}
		nsync := 0
		if first.fields[6] != "-" {
			nsync = len(strings.Split(first.fields[6], ","))
		}
		first.counts = []string{"kind:" + j.kind, "caps:" + j.caps, fmt.Sprintf("sync-literals:%d", nsync)}
		out[0] = first
		for _, sc := range c18Scripts(nsync) {
			l := c18Run(j.caps, j.enabled, j.kind, j.args, sc)
			l.counts = []string{"script:" + sc}
			out = append(out, l)
		}
		return out
	})
}
