//go:build c05 || allprops

package main

import (
	"bufio"
	"crypto/tls"
	"fmt"
	"net"
	"sort"
	"strconv"
	"strings"
	"sync"
	"time"

	"github.com/emersion/go-imap/v2"
)

// C05 — server state machine. Every (configuration, connection state, command kind, backend
// outcome) is driven through a fresh real imapserver connection (in-memory pipe, optionally
// wrapped in TLS) with a recording session; recorded: the session calls with the connection state
// observed inside each call, the tagged response class, BYE, continuation requests, the capability
// list of a LOGIN/AUTHENTICATE completion, and after every step a non-intrusive probe of the state
// (CAPABILITY, FETCH 1 FLAGS, ENABLE). One case = one history from a fresh connection; a table row
// is the shortest history into the row's state followed by the row's command.

func init() {
	props["C05"] = genC05
	replayers["C05"] = replayC05
}

type c05Cfg struct {
	tls, ins, pre, full, stls bool
	caps                      int // 0: Options.Caps nil (IMAP4rev1); 1: rev1+rev2+extensions; 2: rev2 only
}

func (c c05Cfg) String() string {
	return "t" + b01(c.tls) + "i" + b01(c.ins) + "p" + b01(c.pre) + "f" + b01(c.full) + "s" + b01(c.stls) + "c" + strconv.Itoa(c.caps)
}

func c05ParseCfg(s string) c05Cfg {
	// t0i0p0f0s0c0
	b := func(i int) bool { return s[i] == '1' }
	return c05Cfg{tls: b(1), ins: b(3), pre: b(5), full: b(7), stls: b(9), caps: int(s[11] - '0')}
}

func c05Caps(mode int) imap.CapSet {
	set := func(cs ...imap.Cap) imap.CapSet {
		m := imap.CapSet{}
		for _, c := range cs {
			m[c] = struct{}{}
		}
		return m
	}
	switch mode {
	case 1:
		return set(imap.CapIMAP4rev1, imap.CapIMAP4rev2, imap.CapNamespace, imap.CapUIDPlus, imap.CapESearch, imap.CapSearchRes,
			imap.CapListExtended, imap.CapListStatus, imap.CapMove, imap.CapStatusSize, imap.CapBinary,
			imap.CapCreateSpecialUse, imap.CapLiteralPlus, imap.CapUnauthenticate)
	case 2:
		return set(imap.CapIMAP4rev2, imap.CapCreateSpecialUse, imap.CapLiteralPlus, imap.CapUnauthenticate)
	}
	return nil
}

func c05AllCfgs() []c05Cfg {
	var out []c05Cfg
	for m := 0; m < 16; m++ {
		for _, fc := range [][2]int{{0, 0}, {1, 0}, {1, 1}, {1, 2}} {
			out = append(out, c05Cfg{tls: m&1 != 0, ins: m&2 != 0, pre: m&4 != 0, stls: m&8 != 0, full: fc[0] == 1, caps: fc[1]})
		}
	}
	return out
}

// command kinds: every name of the readCommand switch (UID forms separately), the unknown command
// in both forms, and three further shapes of AUTHENTICATE.
type c05Kind struct {
	name      string
	good      string // a well-formed instance
	follow    string // line sent after a continuation request ("" = none)
	bad       string // an instance the parser rejects
	principal string // session method that fails for outcome berr
	aux       string // session method that fails for outcome aux
}

const c05Plain = "AHUAcA==" // base64("\x00u\x00p")

var c05Kinds = []c05Kind{
	{"noop", "NOOP", "", "NOOP x", "", ""},
	{"check", "CHECK", "", "CHECK x", "", ""},
	{"logout", "LOGOUT", "", "LOGOUT x", "", ""},
	{"capability", "CAPABILITY", "", "CAPABILITY x", "", ""},
	{"starttls", "STARTTLS", "", "STARTTLS x", "", ""},
	{"authenticate", "AUTHENTICATE PLAIN " + c05Plain, "", "AUTHENTICATE", "Login", ""},
	{"authcont", "AUTHENTICATE PLAIN", c05Plain, "AUTHENTICATE", "Login", ""},
	{"authcancel", "AUTHENTICATE PLAIN", "*", "AUTHENTICATE", "", ""},
	{"authmech", "AUTHENTICATE XOAUTH2", "", "AUTHENTICATE", "", ""},
	{"unauthenticate", "UNAUTHENTICATE", "", "UNAUTHENTICATE x", "Unauthenticate", ""},
	{"login", "LOGIN u p", "", "LOGIN u", "Login", ""},
	{"enable", "ENABLE CONDSTORE", "", "ENABLE (", "", ""},
	{"create", "CREATE mb", "", "CREATE", "Create", ""},
	{"delete", "DELETE mb", "", "DELETE", "Delete", ""},
	{"rename", "RENAME mb mb2", "", "RENAME mb", "Rename", ""},
	{"subscribe", "SUBSCRIBE mb", "", "SUBSCRIBE", "Subscribe", ""},
	{"unsubscribe", "UNSUBSCRIBE mb", "", "UNSUBSCRIBE", "Unsubscribe", ""},
	{"status", "STATUS mb (UIDNEXT)", "", "STATUS mb", "Status", ""},
	{"list", `LIST "" "*"`, "", "LIST", "List", ""},
	{"lsub", `LSUB "" "*"`, "", `LSUB ""`, "List", ""},
	{"namespace", "NAMESPACE", "", "NAMESPACE x", "Namespace", ""},
	{"idle", "IDLE", "DONE", "IDLE x", "Idle", ""},
	{"select", "SELECT INBOX", "", "SELECT", "Select", "Unselect"},
	{"examine", "EXAMINE INBOX", "", "EXAMINE", "Select", "Unselect"},
	{"close", "CLOSE", "", "CLOSE x", "Unselect", "Expunge"},
	{"unselect", "UNSELECT", "", "UNSELECT x", "Unselect", ""},
	{"append", "APPEND INBOX {3+}\r\nabc", "", "APPEND INBOX", "Append", ""},
	{"fetch", "FETCH 1 FLAGS", "", "FETCH 1", "Fetch", ""},
	{"uidfetch", "UID FETCH 1 FLAGS", "", "UID FETCH 1", "Fetch", ""},
	{"expunge", "EXPUNGE", "", "EXPUNGE x", "Expunge", ""},
	{"uidexpunge", "UID EXPUNGE 1", "", "UID EXPUNGE", "Expunge", ""},
	{"store", `STORE 1 +FLAGS (\Seen)`, "", "STORE 1 FLAGS", "Store", ""},
	{"uidstore", `UID STORE 1 +FLAGS (\Seen)`, "", "UID STORE 1 FLAGS", "Store", ""},
	{"copy", "COPY 1 mb", "", "COPY 1", "Copy", ""},
	{"uidcopy", "UID COPY 1 mb", "", "UID COPY 1", "Copy", ""},
	{"move", "MOVE 1 mb", "", "MOVE 1", "Move", ""},
	{"uidmove", "UID MOVE 1 mb", "", "UID MOVE 1", "Move", ""},
	{"search", "SEARCH ALL", "", "SEARCH", "Search", ""},
	{"uidsearch", "UID SEARCH ALL", "", "UID SEARCH", "Search", ""},
	{"unknown", "XYZZY", "", "XYZZY", "", ""},
	{"uidunknown", "UID XYZZY", "", "UID XYZZY", "", ""},
}

var c05KindByName = func() map[string]*c05Kind {
	m := map[string]*c05Kind{}
	for i := range c05Kinds {
		m[c05Kinds[i].name] = &c05Kinds[i]
	}
	return m
}()

// outcomes: parse (malformed instance), ok, berr (principal session method fails), aux (the
// auxiliary method called before the principal one fails), poll (Session.Poll fails)
var c05Outcomes = []string{"parse", "ok", "berr", "aux", "poll"}

type c05Step struct{ kind, oc string }

func c05HistString(h []c05Step) string {
	var p []string
	for _, s := range h {
		p = append(p, s.kind+":"+s.oc)
	}
	if len(p) == 0 {
		return "-"
	}
	return strings.Join(p, ";")
}

func c05ParseHist(s string) []c05Step {
	if s == "-" || s == "" {
		return nil
	}
	var h []c05Step
	for _, t := range strings.Split(s, ";") {
		kv := strings.SplitN(t, ":", 2)
		h = append(h, c05Step{kv[0], kv[1]})
	}
	return h
}

var c05StubErr = &imap.Error{Type: imap.StatusResponseTypeNo, Text: "stub refuses"}

func c05StateLetter(s imap.ConnState) string {
	switch s {
	case imap.ConnStateNotAuthenticated:
		return "n"
	case imap.ConnStateAuthenticated:
		return "a"
	case imap.ConnStateSelected:
		return "s"
	case imap.ConnStateLogout:
		return "l"
	}
	return "0"
}

func c05Calls(cs []recCall) string {
	if len(cs) == 0 {
		return "-"
	}
	var p []string
	for _, c := range cs {
		m := ""
		if c.failed {
			m = "!" // the stub refused this call
		}
		p = append(p, c.name+"@"+c05StateLetter(c.st)+m)
	}
	return strings.Join(p, "+")
}

// c05Conn is the client side of one connection, able to switch to TLS.
type c05Conn struct {
	raw  *memConn
	conn net.Conn
	br   *bufio.Reader
	sess *recSession
	dead bool
	n    int
	// closedCh is closed when the session's Close has been called (serve() has returned)
	closedCh chan struct{}
}

func (x *c05Conn) deadline() { x.raw.SetReadDeadline(time.Now().Add(60 * time.Second)) }

func (x *c05Conn) upgrade() error {
	tc := tls.Client(x.conn, memTLSClientConfig())
	x.deadline()
	if err := tc.Handshake(); err != nil {
		return err
	}
	x.conn = tc
	x.br = bufio.NewReader(tc)
	return nil
}

func (x *c05Conn) readLine() (string, error) {
	line, err := x.br.ReadString('\n')
	return strings.TrimRight(line, "\r\n"), err
}

type c05Resp struct {
	status string // OK NO BAD EOF TIMEOUT
	bye    bool
	cont   int
	caps   string // capability list of the tagged response's code, or of an untagged CAPABILITY line
	ucaps  string
}

func c05SortCaps(f []string) string {
	if len(f) == 0 {
		return "-"
	}
	f = append([]string(nil), f...)
	sort.Strings(f)
	return strings.Join(f, ",")
}

// roundTrip sends one command and reads up to its tagged completion (or EOF).
func (x *c05Conn) roundTrip(text, follow string) c05Resp {
	if x.dead {
		return c05Resp{status: "EOF", caps: "-", ucaps: "-"}
	}
	x.n++
	tag := fmt.Sprintf("c%d", x.n)
	x.deadline()
	x.conn.Write([]byte(tag + " " + text + "\r\n"))
	return x.await(tag, follow)
}

// roundTrips sends several commands in one write and reads their completions in order.
func (x *c05Conn) roundTrips(texts []string) []c05Resp {
	out := make([]c05Resp, len(texts))
	if x.dead {
		for i := range out {
			out[i] = c05Resp{status: "EOF", caps: "-", ucaps: "-"}
		}
		return out
	}
	var sb strings.Builder
	tags := make([]string, len(texts))
	for i, t := range texts {
		x.n++
		tags[i] = fmt.Sprintf("c%d", x.n)
		sb.WriteString(tags[i] + " " + t + "\r\n")
	}
	x.deadline()
	x.conn.Write([]byte(sb.String()))
	for i := range texts {
		if x.dead {
			out[i] = c05Resp{status: "EOF", caps: "-", ucaps: "-"}
			continue
		}
		out[i] = x.await(tags[i], "")
	}
	return out
}

func (x *c05Conn) await(tag, follow string) c05Resp {
	r := c05Resp{caps: "-", ucaps: "-"}
	for {
		l, err := x.readLine()
		if err != nil {
			x.dead = true
			r.status = "EOF"
			if ne, ok := err.(net.Error); ok && ne.Timeout() {
				r.status = "TIMEOUT"
			}
			return r
		}
		switch {
		case strings.HasPrefix(l, "+"):
			r.cont++
			if follow != "" {
				x.conn.Write([]byte(follow + "\r\n"))
			}
		case strings.HasPrefix(l, "* BYE"):
			r.bye = true
		case strings.HasPrefix(l, "* CAPABILITY"):
			r.ucaps = c05SortCaps(strings.Fields(l)[2:])
		case strings.HasPrefix(l, tag+" "):
			f := strings.Fields(l)
			r.status = f[1]
			if i := strings.Index(l, "[CAPABILITY "); i >= 0 {
				if j := strings.Index(l[i:], "]"); j >= 0 {
					r.caps = c05SortCaps(strings.Fields(l[i+len("[CAPABILITY ") : i+j]))
				}
			}
			return r
		}
	}
}

// logFrom returns the calls recorded from index n on.
func (x *c05Conn) logFrom(n int) []recCall {
	s := x.sess
	s.mu.Lock()
	defer s.mu.Unlock()
	if n >= len(s.calls) {
		return nil
	}
	return append([]recCall(nil), s.calls[n:]...)
}

func (x *c05Conn) logLen() int {
	x.sess.mu.Lock()
	defer x.sess.mu.Unlock()
	return len(x.sess.calls)
}

func (x *c05Conn) arm(k *c05Kind, oc string) {
	s := x.sess
	s.mu.Lock()
	s.fail = map[string]error{}
	switch oc {
	case "berr":
		if k.principal != "" {
			s.fail[k.principal] = c05StubErr
		}
	case "aux":
		if k.aux != "" {
			s.fail[k.aux] = c05StubErr
		}
	case "poll":
		s.fail["Poll"] = c05StubErr
	}
	s.mu.Unlock()
}

func (x *c05Conn) disarm() {
	x.sess.mu.Lock()
	x.sess.fail = map[string]error{}
	x.sess.mu.Unlock()
}

// step executes one history step and returns its observation:
// calls|resp|bye|cont|respCaps|tls|probeCaps|probeFetch|probeEnable|probeCalls
func (x *c05Conn) step(st c05Step, tlsNow *bool) string {
	k := c05KindByName[st.kind]
	n0 := x.logLen()
	x.arm(k, st.oc)
	text, follow := k.good, k.follow
	if st.oc == "parse" {
		text, follow = k.bad, ""
	}
	r := x.roundTrip(text, follow)
	x.disarm()
	if st.kind == "starttls" && r.status == "OK" && !x.dead {
		if err := x.upgrade(); err != nil {
			x.dead = true
			r.status = "TLSFAIL"
		} else {
			*tlsNow = true
		}
	}
	calls := x.logFrom(n0)
	n1 := n0 + len(calls)
	// probe: the state-dependent capability list, a selected-state command, an authenticated-state
	// command (sent in one write; none of them changes the state)
	ps := x.roundTrips([]string{"CAPABILITY", "FETCH 1 FLAGS", "ENABLE"})
	pc, pf, pe := ps[0], ps[1], ps[2]
	if x.dead {
		// a BYE may follow the tagged completion (unknown command before authentication)
		if pc.bye || pf.bye || pe.bye {
			r.bye = true
		}
	}
	pcalls := x.logFrom(n1)
	// the session's Close is asynchronous to the wire: it is accounted for at the end of the case
	var pcs []recCall
	for _, c := range pcalls {
		if c.name != "Close" {
			pcs = append(pcs, c)
		}
	}
	var cs []recCall
	for _, c := range calls {
		if c.name != "Close" {
			cs = append(cs, c)
		}
	}
	return strings.Join([]string{c05Calls(cs), r.status, b01(r.bye), strconv.Itoa(r.cont), r.caps, b01(*tlsNow),
		pc.ucaps, pf.status, pe.status, c05Calls(pcs)}, "|")
}

func c05NoClose(cs []recCall) []recCall {
	var out []recCall
	for _, c := range cs {
		if c.name != "Close" {
			out = append(out, c)
		}
	}
	return out
}

// group executes several steps whose commands are sent in ONE write (pipelined), so that the later
// ones are already in the server's read buffer when the first is handled. Only the first step's
// failure is armed. The calls cannot be attributed to the single commands without racing the
// server, so all of them are reported with the last step; steps before the last are not probed
// ("~"). If the connection ended, the server may still be working through buffered commands: the
// calls are collected only after the session's Close.
func (x *c05Conn) group(g []c05Step, tlsNow *bool) []string {
	n0 := x.logLen()
	x.arm(c05KindByName[g[0].kind], g[0].oc)
	texts := make([]string, len(g))
	for i, st := range g {
		k := c05KindByName[st.kind]
		texts[i] = k.good
		if st.oc == "parse" {
			texts[i] = k.bad
		}
	}
	rs := x.roundTrips(texts)
	x.disarm()
	n1 := x.logLen()
	ps := x.roundTrips([]string{"CAPABILITY", "FETCH 1 FLAGS", "ENABLE"})
	pc, pf, pe := ps[0], ps[1], ps[2]
	bye := pc.bye || pf.bye || pe.bye
	for _, r := range rs {
		bye = bye || r.bye
	}
	var calls, pcalls []recCall
	if x.dead {
		select {
		case <-x.closedCh:
		case <-time.After(60 * time.Second):
		}
		calls = c05NoClose(x.logFrom(n0))
	} else {
		calls = c05NoClose(x.logFrom(n0))
		if len(calls) > n1-n0 {
			calls, pcalls = calls[:n1-n0], calls[n1-n0:]
		}
	}
	out := make([]string, len(g))
	for i, r := range rs {
		if i < len(g)-1 {
			out[i] = strings.Join([]string{"-", r.status, b01(bye && i == 0), strconv.Itoa(r.cont), r.caps, b01(*tlsNow), "~", "~", "~", "~"}, "|")
		} else {
			out[i] = strings.Join([]string{c05Calls(calls), r.status, b01(bye && i == 0), strconv.Itoa(r.cont), r.caps, b01(*tlsNow),
				pc.ucaps, pf.status, pe.status, c05Calls(pcalls)}, "|")
		}
	}
	return out
}

type c05Server struct {
	ts  *testServer
	cfg c05Cfg
	mu  chan struct{} // serialises dial..greeting so that lastSession() is this connection's session
}

// sessions whose Close the harness is waiting for
var c05Waiters sync.Map

func c05SignalClose(s *recSession) {
	if ch, ok := c05Waiters.LoadAndDelete(s); ok {
		close(ch.(chan struct{}))
	}
}

func c05NewServer(cfg c05Cfg) *c05Server {
	ts := newStubServer(stubCfg{caps: c05Caps(cfg.caps), insecure: cfg.ins, preauth: cfg.pre, full: cfg.full,
		implicitTLS: cfg.tls, startTLS: cfg.stls,
		onCall: func(s *recSession, name string) {
			if name == "Close" {
				c05SignalClose(s)
			}
		}})
	s := &c05Server{ts: ts, cfg: cfg, mu: make(chan struct{}, 1)}
	return s
}

// run executes a history on a fresh connection; returns greeting observation, per-step
// observations and the end-of-connection observation.
func (s *c05Server) run(h []c05Step, pipeFrom int) (greet string, obs []string, tail string) {
	s.mu <- struct{}{}
	raw := s.ts.ln.dial()
	x := &c05Conn{raw: raw, conn: raw, br: bufio.NewReader(raw)}
	x.deadline()
	tlsNow := false
	greet = "EOF|-"
	if s.cfg.tls {
		if err := x.upgrade(); err != nil {
			x.dead = true
		} else {
			tlsNow = true
		}
	}
	if !x.dead {
		l, err := x.readLine()
		if err != nil {
			x.dead = true
		} else {
			f := strings.Fields(l)
			typ, caps := "?", "-"
			if len(f) >= 2 {
				typ = f[1]
			}
			if i := strings.Index(l, "[CAPABILITY "); i >= 0 {
				if j := strings.Index(l[i:], "]"); j >= 0 {
					caps = c05SortCaps(strings.Fields(l[i+len("[CAPABILITY ") : i+j]))
				}
			}
			greet = typ + "|" + caps
		}
	}
	x.sess = s.ts.lastSession()
	<-s.mu
	if x.sess == nil || x.dead {
		raw.Close()
		return greet, nil, "nosession"
	}
	closed := make(chan struct{})
	x.closedCh = closed
	c05Waiters.Store(x.sess, closed)
	x.sess.mu.Lock()
	early := x.sess.closes > 0 // only if the server already gave up on the connection
	x.sess.mu.Unlock()
	if early {
		c05SignalClose(x.sess)
	}
	for i, st := range h {
		if pipeFrom >= 0 && i == pipeFrom {
			obs = append(obs, x.group(h[i:], &tlsNow)...)
			break
		}
		obs = append(obs, x.step(st, &tlsNow))
	}
	// end of connection: the session must be closed exactly once (audited again at the end of the run)
	nBefore := x.logLen()
	x.conn.Close()
	raw.Close()
	select {
	case <-closed:
	case <-time.After(60 * time.Second):
	}
	log := x.logFrom(0)
	closes, closeSt, extra := 0, "-", 0
	for i, c := range log {
		if c.name == "Close" {
			closes++
			closeSt = c05StateLetter(c.st)
		} else if i >= nBefore {
			extra++
		}
	}
	tail = fmt.Sprintf("closes=%d@%s extra=%d", closes, closeSt, extra)
	return greet, obs, tail
}

// path returns the shortest history from a fresh connection of cfg into (state, tls), if any.
func c05Path(cfg c05Cfg, st byte, wantTLS bool) ([]c05Step, bool) {
	var h []c05Step
	tlsNow := cfg.tls
	cur := byte('n')
	if cfg.pre {
		cur = 'a'
	}
	if wantTLS != tlsNow {
		if !wantTLS || !cfg.stls {
			return nil, false
		}
		// STARTTLS needs the not-authenticated state
		if cur == 'a' {
			if !cfg.full {
				return nil, false
			}
			h = append(h, c05Step{"unauthenticate", "ok"})
			cur = 'n'
		}
		h = append(h, c05Step{"starttls", "ok"})
		tlsNow = true
	}
	switch st {
	case 'n':
		if cur == 'a' {
			if !cfg.full {
				return nil, false
			}
			h = append(h, c05Step{"unauthenticate", "ok"})
		}
		return h, true
	case 'a', 's':
		if cur == 'n' {
			if !(tlsNow || cfg.ins) {
				return nil, false
			}
			h = append(h, c05Step{"login", "ok"})
		}
		if st == 's' {
			h = append(h, c05Step{"select", "ok"})
		}
		return h, true
	}
	return nil, false
}

// kinds run under the two extra capability sets: those that show or change the capability list
var c05CapsKinds = map[string]bool{"noop": true, "capability": true, "login": true, "authenticate": true, "starttls": true,
	"unauthenticate": true, "select": true, "unselect": true, "logout": true, "unknown": true}

// c05Distinct: does (kind, outcome) give the server an input different from (kind, ok)? An
// outcome that arms no failure (no auxiliary / principal method, malformed = well-formed) is the
// very same run; the model's table is proved to coincide there (Props/C05: step_same_input).
func c05Distinct(k c05Kind, oc string) bool {
	switch oc {
	case "parse":
		return k.bad != k.good
	case "berr":
		return k.principal != ""
	case "aux":
		return k.aux != ""
	}
	return true
}

type c05Case struct {
	cfg    c05Cfg
	kind   string // row | hist | pipe (the steps from nsetup on are sent in one write)
	target string // "s1" = selected, TLS on (rows only)
	nsetup int
	hist   []c05Step
}

func c05Table() (cases []c05Case, skipped int) {
	for _, cfg := range c05AllCfgs() {
		// the greeting alone
		cases = append(cases, c05Case{cfg: cfg, kind: "row", target: "-", hist: nil})
		for _, st := range []byte{'n', 'a', 's'} {
			for _, wantTLS := range []bool{false, true} {
				path, ok := c05Path(cfg, st, wantTLS)
				if !ok {
					skipped++
					continue
				}
				// commands that end the connection (LOGOUT; an unknown command before authentication),
				// followed in the SAME write by two marker commands: nothing after the end is processed
				if !(cfg.full && cfg.caps != 1) {
					for _, term := range []string{"logout", "unknown", "uidunknown"} {
						h := append(append([]c05Step(nil), path...), c05Step{term, "ok"}, c05Step{"login", "ok"}, c05Step{"noop", "ok"})
						cases = append(cases, c05Case{cfg: cfg, kind: "pipe", target: string(st) + b01(wantTLS), nsetup: len(path), hist: h})
					}
				}
				for _, k := range c05Kinds {
					for _, oc := range c05Outcomes {
						if !c05Distinct(k, oc) {
							continue
						}
						// the capability set only changes the capability lists: the two extra sets are
						// run with succeeding backends only
						if cfg.full && cfg.caps != 1 && (oc != "ok" || !c05CapsKinds[k.name]) {
							continue
						}
						h := append(append([]c05Step(nil), path...), c05Step{k.name, oc})
						cases = append(cases, c05Case{cfg: cfg, kind: "row", target: string(st) + b01(wantTLS), nsetup: len(path), hist: h})
					}
				}
			}
		}
	}
	return cases, skipped
}

var c05Progress = []c05Step{{"login", "ok"}, {"select", "ok"}, {"starttls", "ok"}, {"authenticate", "ok"}, {"examine", "ok"},
	{"unselect", "ok"}, {"close", "ok"}, {"unauthenticate", "ok"}, {"select", "berr"}, {"select", "aux"}, {"authcont", "ok"}}

func c05RandHist(r *rng, cfgs []c05Cfg) c05Case {
	cfg := pick(r, cfgs)
	n := 1 + r.intn(30)
	var h []c05Step
	for i := 0; i < n; i++ {
		if r.chance(35, 100) {
			h = append(h, pick(r, c05Progress))
			continue
		}
		k := pick(r, c05Kinds).name
		if (k == "logout" || k == "unknown" || k == "uidunknown") && r.chance(2, 3) {
			k = "noop"
		}
		oc := "ok"
		switch x := r.intn(100); {
		case x < 55:
		case x < 72:
			oc = "berr"
		case x < 84:
			oc = "parse"
		case x < 93:
			oc = "aux"
		default:
			oc = "poll"
		}
		h = append(h, c05Step{k, oc})
	}
	return c05Case{cfg: cfg, kind: "hist", target: "-", hist: h}
}

func c05Exec(servers map[c05Cfg]*c05Server, c c05Case) caseLine {
	pipeFrom := -1
	if c.kind == "pipe" {
		pipeFrom = c.nsetup
	}
	greet, obs, tail := servers[c.cfg].run(c.hist, pipeFrom)
	o := "-"
	if len(obs) > 0 {
		o = strings.Join(obs, ";")
	}
	return caseLine{kind: c.kind, fields: []string{c.cfg.String(), c.target, strconv.Itoa(c.nsetup), c05HistString(c.hist), greet, o, tail}}
}

func genC05(e *emitter, tier string, seed uint64) {
	cfgs := c05AllCfgs()
	servers := map[c05Cfg]*c05Server{}
	for _, cfg := range cfgs {
		servers[cfg] = c05NewServer(cfg)
	}
	defer func() {
		for _, s := range servers {
			s.ts.close()
		}
	}()
	table, skipped := c05Table()
	for i := 0; i < skipped; i++ {
		e.count("skipped:unreachable-state")
	}
	nHist := 300
	switch tier {
	case "thorough":
		nHist = 100000
	case "widen":
		nHist = 6000
	}
	base := newRng(seed, "C05")
	// interleave the configurations so that parallel workers do not queue on one server
	perCfg := map[c05Cfg][]c05Case{}
	for _, c := range table {
		perCfg[c.cfg] = append(perCfg[c.cfg], c)
	}
	var cases []c05Case
	for i := 0; ; i++ {
		any := false
		for _, cfg := range cfgs {
			if l := perCfg[cfg]; i < len(l) {
				cases = append(cases, l[i])
				any = true
			}
		}
		if !any {
			break
		}
	}
	for i := 0; i < nHist; i++ {
		cases = append(cases, c05RandHist(base.fork(i), cfgs))
	}
	parCases(e, len(cases), func(i int) []caseLine {
		c := cases[i]
		l := c05Exec(servers, c)
		if c.kind == "pipe" {
			l.counts = []string{"pipe:state:" + c.target}
		} else if c.kind == "row" {
			if len(c.hist) > 0 {
				last := c.hist[len(c.hist)-1]
				l.counts = []string{"row:state:" + c.target, "row:outcome:" + last.oc}
			} else {
				l.counts = []string{"row:greeting"}
			}
		} else {
			l.counts = []string{fmt.Sprintf("hist:len:%02d", len(c.hist)/5*5)}
		}
		return []caseLine{l}
	})
	// audit: every session of the run was closed exactly once
	total, bad := 0, 0
	for _, cfg := range cfgs {
		ts := servers[cfg].ts
		ts.mu.Lock()
		for _, s := range ts.sess {
			total++
			s.mu.Lock()
			if s.closes != 1 {
				bad++
			}
			s.mu.Unlock()
		}
		ts.mu.Unlock()
	}
	e.emit("audit", strconv.Itoa(total), strconv.Itoa(bad))
}

func replayC05(e *emitter, kind string, f []string) {
	cfg := c05ParseCfg(f[0])
	s := c05NewServer(cfg)
	defer s.ts.close()
	ns, _ := strconv.Atoi(f[2])
	l := c05Exec(map[c05Cfg]*c05Server{cfg: s}, c05Case{cfg: cfg, kind: kind, target: f[1], nsetup: ns, hist: c05ParseHist(f[3])})
	e.emit(l.kind, l.fields...)
}
