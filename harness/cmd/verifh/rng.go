package main

// splitmix64: every random choice of a run derives from VERIF_SEED through this.
type rng struct{ s uint64 }

func newRng(seed uint64, stream string) *rng {
	h := seed*0x9E3779B97F4A7C15 + 0x632BE59BD9B4E019
	for i := 0; i < len(stream); i++ {
		h = (h ^ uint64(stream[i])) * 0x100000001B3
	}
	r := &rng{s: h}
	r.next()
	return r
}

func (r *rng) next() uint64 {
	r.s += 0x9E3779B97F4A7C15
	z := r.s
	z = (z ^ (z >> 30)) * 0xBF58476D1CE4E5B9
	z = (z ^ (z >> 27)) * 0x94D049BB133111EB
	return z ^ (z >> 31)
}

func (r *rng) intn(n int) int {
	if n <= 0 {
		return 0
	}
	return int(r.next() % uint64(n))
}

func (r *rng) chance(num, den int) bool { return r.intn(den) < num }

func (r *rng) fork(i int) *rng {
	return &rng{s: r.next() ^ (uint64(i) * 0xD6E8FEB86659FD93)}
}

func pick[T any](r *rng, xs []T) T { return xs[r.intn(len(xs))] }
