//go:build c13instr

package main

// C13, deterministic part: model schedules are enforced on the real client by turn-taking at the
// points that instrument13 inserted (this file is only compiled into the overlay build).
//
// A goroutine arriving at a point whose label belongs to the model's label universe parks until
// the schedule's next entry names (its thread id, that label). Exactly one goroutine runs at any
// time; the server end of the in-memory pipe is driven by the coordinator itself.

import (
	"bytes"
	"errors"
	"fmt"
	"net"
	"runtime"
	"sort"
	"strconv"
	"strings"
	"sync"
	"time"

	"github.com/emersion/go-imap/v2"
	"github.com/emersion/go-imap/v2/imapclient"
	"github.com/emersion/go-imap/v2/internal/verifrt"
)

func init() {
	workers["c13det"] = func() {
		verifrt.SetHook(detPoint)
		workerLoop(detHandle)
	}
}

const (
	detAuto = iota // setup: everything passes, the reader parks only when no data is waiting
	detSched
	detFree
)

type detSlot struct {
	label string
	ch    chan struct{}
}

type detRun struct {
	mu       sync.Mutex
	mode     int
	tids     map[uint64]int
	parked   map[int]*detSlot
	exited   map[int]bool
	park     map[string]bool
	seen     map[string]bool
	strange  []string
	notify   chan struct{}
	cur      int
	curCmd   map[int]int
	wire     []string
	events   []string
	tagCmd   map[string]int
	cli, srv *memConn
	crashed  bool
}

var detRuns sync.Map // goroutine id -> *detRun

func goid() uint64 {
	var b [64]byte
	n := runtime.Stack(b[:], false)
	f := bytes.Fields(b[:n])
	if len(f) < 2 {
		return 0
	}
	id, _ := strconv.ParseUint(string(f[1]), 10, 64)
	return id
}

// creator returns the function that created the calling goroutine and the creating goroutine's id.
func creator() (string, uint64) {
	buf := make([]byte, 64<<10)
	n := runtime.Stack(buf, false)
	s := string(buf[:n])
	i := strings.LastIndex(s, "created by ")
	if i < 0 {
		return "", 0
	}
	line := s[i+len("created by "):]
	if j := strings.IndexByte(line, '\n'); j >= 0 {
		line = line[:j]
	}
	fn, rest, ok := strings.Cut(line, " in goroutine ")
	if !ok {
		return fn, 0
	}
	id, _ := strconv.ParseUint(strings.TrimSpace(rest), 10, 64)
	return fn, id
}

func (r *detRun) signal() {
	select {
	case r.notify <- struct{}{}:
	default:
	}
}

// lookup finds the run and thread id of the calling goroutine, adopting goroutines spawned by the
// client itself (the reader, the IDLE supervisor) through their creator.
func detLookup() (*detRun, int) {
	gid := goid()
	if v, ok := detRuns.Load(gid); ok {
		r := v.(*detRun)
		r.mu.Lock()
		tid := r.tids[gid]
		r.mu.Unlock()
		return r, tid
	}
	fn, parent := creator()
	v, ok := detRuns.Load(parent)
	if !ok {
		return nil, 0
	}
	r := v.(*detRun)
	r.mu.Lock()
	ptid := r.tids[parent]
	tid := -1
	switch {
	case strings.HasSuffix(fn, "imapclient.New"):
		tid = 0
	case strings.HasSuffix(fn, "imapclient.(*Client).Idle"):
		tid = ptid + 6
	case strings.HasPrefix(fn, "main."):
		// helper goroutines of this harness (final Close, joins): never scheduled
	default:
		r.strange = append(r.strange, "goroutine-created-by:"+fn)
	}
	r.tids[gid] = tid
	r.mu.Unlock()
	detRuns.Store(gid, r)
	return r, tid
}

func detPoint(label string) {
	r, tid := detLookup()
	if r == nil {
		return
	}
	r.point(tid, label)
}

func (r *detRun) dataWaiting() bool {
	h := r.cli.r
	h.mu.Lock()
	defer h.mu.Unlock()
	return len(h.buf) > 0 || h.closed || h.rerr != nil
}

func (r *detRun) point(tid int, label string) {
	r.mu.Lock()
	r.seen[label] = true
	stop := false
	switch r.mode {
	case detAuto:
		stop = label == "conn:read" && !r.dataWaiting()
	case detSched:
		stop = r.park[label] && tid >= 0
	}
	if !stop {
		r.mu.Unlock()
		return
	}
	s := &detSlot{label: label, ch: make(chan struct{})}
	r.parked[tid] = s
	r.signal()
	r.mu.Unlock()
	<-s.ch
}

func (r *detRun) register(tid int) {
	gid := goid()
	r.mu.Lock()
	r.tids[gid] = tid
	r.mu.Unlock()
	detRuns.Store(gid, r)
}

func (r *detRun) exit(tid int) {
	r.mu.Lock()
	r.exited[tid] = true
	r.signal()
	r.mu.Unlock()
}

// waitSettled waits until thread tid is parked or has exited.
func (r *detRun) waitSettled(tid int, d time.Duration) (*detSlot, bool) {
	deadline := time.Now().Add(d)
	for {
		r.mu.Lock()
		s, ex := r.parked[tid], r.exited[tid]
		r.mu.Unlock()
		if s != nil || ex {
			return s, true
		}
		left := time.Until(deadline)
		if left <= 0 {
			return nil, false
		}
		select {
		case <-r.notify:
		case <-time.After(left):
		}
	}
}

func (r *detRun) release(tid int) {
	r.mu.Lock()
	s := r.parked[tid]
	delete(r.parked, tid)
	r.cur = tid
	r.mu.Unlock()
	if s != nil {
		close(s.ch)
	}
}

func (r *detRun) freeAll() {
	r.mu.Lock()
	r.mode = detFree
	ps := r.parked
	r.parked = map[int]*detSlot{}
	r.mu.Unlock()
	for _, s := range ps {
		close(s.ch)
	}
}

// detConn is the client's end of the pipe: every Read is a scheduling point of the reader.
type detConn struct {
	*memConn
	r      *detRun
	sticky error
}

func (c *detConn) Read(p []byte) (int, error) {
	if c.sticky != nil {
		return 0, c.sticky
	}
	if tr, tid := detLookup(); tr == c.r {
		c.r.point(tid, "conn:read")
	}
	n, err := c.memConn.Read(p)
	if err != nil {
		c.sticky = err
	}
	return n, err
}

// onWrite classifies one flush of the client (called with the pipe's lock held).
func (r *detRun) onWrite(p []byte) {
	r.mu.Lock()
	defer r.mu.Unlock()
	tid := r.cur
	if tid >= 10 {
		tid -= 6 // the IDLE supervisor writes DONE on behalf of its submitter
	}
	c := r.curCmd[tid]
	s := string(p)
	var tok string
	switch {
	case s == "DONE\r\n":
		tok = fmt.Sprintf("%d:DONE", c)
	case len(s) > 1 && s[0] == 'T' && s[1] >= '0' && s[1] <= '9':
		f := strings.Fields(s)
		tok = fmt.Sprintf("%d:%s:%s", c, f[0], f[1])
		r.tagCmd[f[0]] = c
		if strings.HasSuffix(s, "}\r\n") || f[1] == "IDLE" {
			tok += ":lit"
			r.events = append(r.events, fmt.Sprintf("h%d", c))
		}
	case strings.HasSuffix(s, "}\r\n"):
		// the payload of one literal followed by the header of the command's next literal
		tok = fmt.Sprintf("%d:lit2", c)
		r.events = append(r.events, fmt.Sprintf("r%d", c), fmt.Sprintf("h%d", c))
	default:
		tok = fmt.Sprintf("%d:tail", c)
		r.events = append(r.events, fmt.Sprintf("r%d", c))
	}
	r.wire = append(r.wire, tok)
}

func c13Class(err error) string {
	if err == nil {
		return "ok"
	}
	var ie *imap.Error
	if errors.As(err, &ie) {
		return "no"
	}
	return "err"
}

type detEntry struct {
	tid   int
	label string
	gone  bool // removed from the schedule (see the WaitGreeting select below)
}

func detHandle(req string) string {
	parts := strings.Split(req, ";")
	if len(parts) < 3 {
		return "bad-request"
	}
	subs, closes, observer, _ := c13ParseScenario(parts[0])
	var entries []detEntry
	for _, e := range strings.Split(parts[1], ",") {
		t, l, _ := strings.Cut(e, ":")
		tid, _ := strconv.Atoi(t)
		entries = append(entries, detEntry{tid: tid, label: l})
	}
	r := &detRun{
		tids: map[uint64]int{}, parked: map[int]*detSlot{}, exited: map[int]bool{}, park: map[string]bool{},
		seen: map[string]bool{}, notify: make(chan struct{}, 1), curCmd: map[int]int{}, tagCmd: map[string]int{},
	}
	for _, l := range strings.Split(parts[2], ",") {
		r.park[l] = true
	}
	cli, srv := memPipe()
	r.cli, r.srv = cli, srv
	cli.onWrite = r.onWrite
	r.register(99)
	defer func() {
		r.mu.Lock()
		for gid := range r.tids {
			detRuns.Delete(gid)
		}
		r.mu.Unlock()
	}()

	// setup: greeting first, then the client; the reader ends up parked in Read
	srv.Write([]byte("* OK [CAPABILITY IMAP4rev1 IDLE] ready\r\n"))
	cl := imapclient.New(&detConn{memConn: cli, r: r}, nil)
	if err := cl.WaitGreeting(); err != nil {
		return "setup-failed:" + strings.ReplaceAll(err.Error(), " ", "_")
	}
	if s, ok := r.waitSettled(0, 5*time.Second); !ok || s == nil || s.label != "conn:read" {
		return "setup-failed:reader-not-waiting"
	}
	r.mu.Lock()
	r.mode = detSched
	r.mu.Unlock()

	// harness threads
	ncmd := 0
	for _, ks := range subs {
		ncmd += len(ks)
	}
	results := make([]string, ncmd)
	for i := range results {
		results[i] = "hang"
	}
	var resMu sync.Mutex
	setRes := func(c int, v string) { resMu.Lock(); results[c] = v; resMu.Unlock() }
	var closeRes, obsRes []string
	nClosesStarted := 0
	var wg sync.WaitGroup
	var spawned []int
	spawn := func(tid int, f func()) {
		spawned = append(spawned, tid)
		wg.Add(1)
		go func() {
			defer wg.Done()
			r.register(tid)
			defer r.exit(tid)
			defer func() {
				if v := recover(); v != nil {
					r.mu.Lock()
					r.crashed = true
					r.strange = append(r.strange, "panic:"+strings.ReplaceAll(fmt.Sprint(v), " ", "_"))
					r.mu.Unlock()
				}
			}()
			f()
		}()
	}
	base := 0
	for i, ks := range subs {
		i, ks, b := i, ks, base
		base += len(ks)
		spawn(4+i, func() {
			for j, k := range ks {
				c := b + j
				r.mu.Lock()
				r.curCmd[4+i] = c
				r.mu.Unlock()
				switch k {
				case 'N':
					setRes(c, c13Class(cl.Noop().Wait()))
				case 'F':
					setRes(c, c13Class(cl.Fetch(imap.SeqSetNum(1), &imap.FetchOptions{UID: true}).Close()))
				case 'L':
					setRes(c, c13Class(cl.Login(fmt.Sprintf("u%d\nx", c), "pw").Wait()))
				case 'M':
					setRes(c, c13Class(cl.Login(fmt.Sprintf("u%d\nx", c), "p\nw").Wait()))
				case 'A':
					payload := []byte(fmt.Sprintf("Subject: m%d\r\n\r\nhello", c))
					cmd := cl.Append("INBOX", int64(len(payload)), nil)
					cmd.Write(payload)
					cmd.Close()
					_, err := cmd.Wait()
					setRes(c, c13Class(err))
				case 'S':
					_, err := cl.Search(&imap.SearchCriteria{}, nil).Wait()
					setRes(c, c13Class(err))
				case 'E':
					_, err := cl.Enable(imap.CapUTF8Accept).Wait()
					setRes(c, c13Class(err))
				case 'I':
					idle, err := cl.Idle()
					if err != nil {
						setRes(c, "skip")
						continue
					}
					r.mu.Lock()
					r.events = append(r.events, fmt.Sprintf("r%d", c))
					r.mu.Unlock()
					idle.Close()
					setRes(c, c13Class(idle.Wait()))
				}
			}
		})
	}
	if closes > 0 {
		spawn(2, func() {
			for n := 0; n < closes; n++ {
				resMu.Lock()
				nClosesStarted++
				resMu.Unlock()
				err := cl.Close()
				v := "2"
				if err == nil {
					v = "0"
				} else if errors.Is(err, net.ErrClosed) {
					v = "1"
				}
				resMu.Lock()
				closeRes = append(closeRes, v)
				resMu.Unlock()
			}
		})
	}
	if len(observer) > 0 {
		spawn(3, func() {
			for _, o := range observer {
				var v string
				switch o {
				case '0':
					switch cl.State() {
					case imap.ConnStateNotAuthenticated:
						v = "1"
					case imap.ConnStateAuthenticated:
						v = "2"
					case imap.ConnStateLogout:
						v = "3"
					default:
						v = "9"
					}
				case '1':
					v = "20"
					if cl.Mailbox() != nil {
						v = "21"
					}
				default:
					v = "10"
					if cl.Caps() != nil {
						v = "11"
					}
				}
				resMu.Lock()
				obsRes = append(obsRes, v)
				resMu.Unlock()
			}
		})
	}

	// the schedule
	outcome := ""
	// generous: a healthy goroutine reaches its next point in microseconds; the machine may be busy
	const patience = 30 * time.Second
	for idx := range entries {
		e := entries[idx]
		if e.label == "-" || e.gone {
			continue
		}
		if strings.HasPrefix(e.label, "srv=") {
			switch a := e.label[4:]; a {
			case "close":
				srv.Close()
			case "rerr":
				cli.failRead(errors.New("verif: injected read error"))
			case "drop":
			default:
				b := unhx(a)
				r.mu.Lock()
				if string(b) == "+ go\r\n" {
					r.events = append(r.events, "p")
				} else if f := strings.Fields(string(b)); len(f) > 0 && f[0] != "*" {
					if c, ok := r.tagCmd[f[0]]; ok {
						r.events = append(r.events, fmt.Sprintf("a%d", c))
					}
				}
				r.mu.Unlock()
				srv.Write(b)
			}
			continue
		}
		s, ok := r.waitSettled(e.tid, patience)
		if !ok || s == nil {
			outcome = fmt.Sprintf("infeasible@%d:%d:%s:not-there", idx, e.tid, e.label)
			break
		}
		if s.label != e.label {
			outcome = fmt.Sprintf("infeasible@%d:%d:%s:at:%s", idx, e.tid, e.label, s.label)
			break
		}
		r.release(e.tid)
		if e.label == "Client.read:close#1" || e.label == "IdleCommand.run:close#1" {
			continue // the goroutine ends here without telling anybody
		}
		now, ok := r.waitSettled(e.tid, patience)
		if !ok {
			outcome = fmt.Sprintf("stuck@%d:%d:%s", idx, e.tid, e.label)
			break
		}
		if e.label == "Client.WaitGreeting:select#1" {
			// Once the reader has ended, both channels of this select are closed and Go picks a
			// branch at random; on the decCh branch Caps() returns without its mutex section.
			// The choice belongs to the schedule: entry 100+tid, and the section is dropped.
			for j := idx + 1; j < len(entries); j++ {
				if entries[j].tid != e.tid || entries[j].label == "-" {
					continue
				}
				if entries[j].label == "Client.Caps:mutex.Lock#1" && (now == nil || now.label != entries[j].label) {
					entries[idx].tid += 100
					entries[j].gone = true
				}
				break
			}
		}
	}
	if outcome == "" {
		// everything the model knows about has happened: every harness thread must be gone
		var left []string
		for _, tid := range spawned {
			s, ok := r.waitSettled(tid, patience)
			if !ok {
				left = append(left, fmt.Sprintf("%d:running", tid))
			} else if s != nil {
				left = append(left, fmt.Sprintf("%d:%s", tid, s.label))
			}
		}
		r.mu.Lock()
		for tid, s := range r.parked {
			if tid == 0 || tid >= 10 {
				left = append(left, fmt.Sprintf("%d:%s", tid, s.label))
			}
		}
		r.mu.Unlock()
		sort.Strings(left)
		if len(left) == 0 {
			outcome = "done"
		} else {
			outcome = "infeasible@end:" + strings.Join(left, "+")
		}
	}
	// let everything run; whatever does not finish now never will
	r.freeAll()
	fin := make(chan struct{})
	go func() { wg.Wait(); close(fin) }()
	if outcome != "done" {
		// give the real code the chance to finish by itself, then take the connection away
		select {
		case <-fin:
		case <-time.After(2 * time.Second):
			srv.Close()
		}
	}
	// what has not returned by now (nothing is holding it back any more) never will
	select {
	case <-fin:
	case <-time.After(10 * time.Second):
	}
	resMu.Lock()
	defer resMu.Unlock()
	for len(closeRes) < nClosesStarted {
		closeRes = append(closeRes, "9")
	}
	srv.Close()
	go cl.Close()

	r.mu.Lock()
	defer r.mu.Unlock()
	var resStr []string
	for c, v := range results {
		resStr = append(resStr, fmt.Sprintf("%d=%s", c, v))
	}
	var unm []string
	for l := range r.seen {
		if !r.park[l] {
			unm = append(unm, l)
		}
	}
	unm = append(unm, r.strange...)
	sort.Strings(unm)
	dash := func(s string) string {
		if s == "" {
			return "-"
		}
		return s
	}
	var tids []string
	for _, e := range entries {
		if !e.gone {
			tids = append(tids, strconv.Itoa(e.tid))
		}
	}
	return strings.Join([]string{
		strings.Join(tids, ","), outcome, dash(strings.Join(r.wire, ".")), dash(strings.Join(resStr, ",")), dash(strings.Join(closeRes, ",")),
		dash(strings.Join(obsRes, ",")), b01(r.crashed), dash(strings.Join(unm, ",")), dash(strings.Join(r.events, ".")),
	}, " ")
}
