//go:build c04 || allprops

package main

import (
	"fmt"
	"strconv"
	"strings"
)

// C04 — server command framing: literal payloads are never parsed as commands.
//
// Every case is one connection to a real imapserver.Server (recording stub session) on which a
// generated command sequence is played by a faithful client (srvframe.go). The case line carries
// the script, the octets actually delivered, the transcript (what was received after which
// write), how the connection ended and the stub's call log.

func init() {
	props["C04"] = genC04
	replayers["C04"] = replayC04
}

// c04Run plays cmds on a fresh connection of env and returns the case fields.
func c04Run(env *sfEnv, lit string, preauth, pipeline bool, cmds []sfCmd) []string {
	o := sfRun(env, cmds, pipeline)
	return []string{lit, b01(preauth), b01(pipeline), sfEncode(cmds), hx(o.delivered), o.trace, o.end,
		o.calls, strconv.Itoa(o.closes), strconv.Itoa(o.panics)}
}

// past failures and the design read-through's replays, always run first
func c04Corpus() [][]sfCmd {
	rep := func(s string, n int) string { return strings.Repeat(s, n) }
	return [][]sfCmd{
		sfParse([]byte("a LOGIN {5000+}\r\n" + rep("A", 100) + "\r\nz LOGIN u p\r\n" + rep("B", 5000-115) + "b NOOP\r\n")),
		sfParse([]byte("a LOGIN {5000}\r\n")),
		sfParse([]byte("p LOGIN u p\r\nd NOOP {12+}\r\ne DELETE x\r\nf NOOP\r\n")),
		sfParse([]byte("p LOGIN u p\r\nd NOOP {12}\r\ne DELETE x\r\nf NOOP\r\n")),
		sfParse([]byte("a AUTHENTICATE PLAIN\r\n" + rep("A", 4096) + "b DELETE smuggled\r\nc NOOP\r\n")),
		sfParse([]byte("p LOGIN u p\r\na IDLE\r\n" + rep("A", 4096) + "b DELETE smuggled\r\nc NOOP\r\n")),
		sfParse([]byte("p LOGIN u p\r\na APPEND m {104857601+}\r\nb DELETE x\r\n")),
		sfParse([]byte("p LOGIN u p\r\na APPEND m {5000+}\r\nb DELETE x\r\n")),
		sfParse([]byte("p LOGIN u p\r\na APPEND m {3}\r\nabcXYZ\r\nb NOOP\r\n")),
		sfParse([]byte("a AUTHENTICATE PLAIN {14+}\r\nz LOGIN u p\r\nb NOOP\r\n")),
		sfParse([]byte("p LOGIN u p\r\na RENAME {5}\r\nab&cdb NOOP\r\nc NOOP\r\n")),
		sfParse([]byte("p LOGIN u p\r\na DELETE {5}\r\nab&cd\r\nc NOOP\r\n")),
	}
}

func genC04(e *emitter, tier string, seed uint64) {
	n := 3000
	switch tier {
	case "thorough":
		n = 100000
	case "widen":
		n = 15000
	}
	lits := []string{"minus", "plus", "none"}
	envs := map[string]chan *sfEnv{}
	for _, l := range []string{"minus", "plus", "none", "minus/af", "plus/af"} {
		for _, pa := range []bool{false, true} {
			ch := make(chan *sfEnv, 4)
			for i := 0; i < 4; i++ {
				ch <- newSfEnv(l, pa)
			}
			envs[l+b01(pa)] = ch
		}
	}
	run := func(lit string, preauth, pipeline bool, cmds []sfCmd) []string {
		ch := envs[lit+b01(preauth)]
		env := <-ch
		f := c04Run(env, lit, preauth, pipeline, cmds)
		ch <- env
		return f
	}
	for i, cmds := range c04Corpus() {
		e.emit("stream", run(lits[i%3], false, true, cmds)...)
	}
	// the backend refuses the APPEND without reading the message: the handler has to drain it
	for _, st := range []string{
		"p LOGIN u p\r\na APPEND nosuch {26}\r\n\r\nz LOGIN u p\r\nx DELETE y\r\n\r\nb NOOP\r\n",
		"p LOGIN u p\r\na APPEND nosuch {26+}\r\n\r\nz LOGIN u p\r\nx DELETE y\r\n\r\nb NOOP\r\n",
	} {
		e.emit("stream", run("minus/af", false, true, sfParse([]byte(st)))...)
		e.emit("stream", run("plus/af", false, false, sfParse([]byte(st)))...)
	}
	base := newRng(seed, "C04")
	seeds := make([]uint64, n)
	for i := range seeds {
		seeds[i] = base.next()
	}
	parCases(e, n, func(i int) []caseLine {
		g := &sfGen{r: &rng{s: seeds[i]}}
		lit := lits[g.r.intn(3)]
		if lit != "none" && g.r.chance(1, 6) {
			lit += "/af" // the backend refuses every APPEND without reading the message
		}
		preauth := g.r.chance(1, 4)
		if preauth {
			g.state = 1
		}
		pipeline := g.r.chance(1, 2)
		kind := "stream"
		var cmds []sfCmd
		if g.r.chance(1, 25) {
			kind = "wild"
			cmds = g.wildStream()
			g.count("skipped:outside-oracle-domain")
		} else {
			cmds = g.stream()
		}
		g.count("lit:" + lit)
		g.count("pipeline:" + b01(pipeline))
		g.count(fmt.Sprintf("cmds:%d", len(cmds)))
		return []caseLine{{kind: kind, fields: run(lit, preauth, pipeline, cmds), counts: g.cnt}}
	})
}

func replayC04(e *emitter, kind string, f []string) {
	// lit preauth pipeline script …
	env := newSfEnv(f[0], f[1] == "1")
	defer env.close()
	var cmds []sfCmd
	if kind == "raw" {
		cmds = sfParse(unhx(f[3]))
		kind = "stream"
	} else {
		cmds = sfDecode(f[3])
	}
	e.emit(kind, c04Run(env, f[0], f[1] == "1", f[2] == "1", cmds)...)
}
