//go:build c04 || allprops

package main

import (
	"encoding/base64"
	"fmt"
	"strconv"
	"strings"
)

// C04 — server command framing: literal payloads are never parsed as commands.
//
// Every case is one connection to a real imapserver.Server (recording stub session) on which a
// generated command sequence is played by a faithful client (srvframe.go). The case line carries
// the script, the octets actually delivered, the transcript (what was received after which
// write), how the connection ended and the stub's call log.

func init() {
	props["C04"] = genC04
	replayers["C04"] = replayC04
}

// ---- script encoding (so that a case replays from its own line) ------------------------------

// cmd = tag ":" seg { "," seg } ; seg = kind short "." hex(text) "." hex(payload) ; cmds joined by "/"
func sfEncode(cmds []sfCmd) string {
	var cs []string
	for _, c := range cmds {
		var ss []string
		for _, s := range c.segs {
			k := s.kind
			if k == 0 {
				k = 'e'
			}
			ss = append(ss, fmt.Sprintf("%c%s.%s.%s", k, b01(s.short), hx(s.text), hx(s.payload)))
		}
		cs = append(cs, hx([]byte(c.tag))+":"+strings.Join(ss, ","))
	}
	if len(cs) == 0 {
		return "-"
	}
	return strings.Join(cs, "/")
}

func sfDecode(s string) []sfCmd {
	if s == "-" {
		return nil
	}
	var cmds []sfCmd
	for _, c := range strings.Split(s, "/") {
		p := strings.SplitN(c, ":", 2)
		cmd := sfCmd{tag: string(unhx(p[0]))}
		for _, sg := range strings.Split(p[1], ",") {
			f := strings.Split(sg[2:], ".")
			k := sg[0]
			if k == 'e' {
				k = 0
			}
			cmd.segs = append(cmd.segs, sfSeg{kind: k, short: sg[1] == '1', text: unhx(f[0]), payload: unhx(f[1])})
		}
		cmds = append(cmds, cmd)
	}
	return cmds
}

// c04Run plays cmds on a fresh connection of env and returns the case fields.
func c04Run(env *sfEnv, lit string, preauth, pipeline bool, cmds []sfCmd) []string {
	sc := env.dial()
	sc.play(cmds, pipeline)
	end := sc.finish()
	env.awaitDrained()
	calls, closes, _ := sfCalls(sc.sess)
	panics := sfPanicLogs(env.takeLogs())
	trace := "-"
	if len(sc.trace) > 0 {
		trace = strings.Join(sc.trace, ";")
	}
	return []string{lit, b01(preauth), b01(pipeline), sfEncode(cmds), hx(sc.all), trace, end,
		calls, strconv.Itoa(closes), strconv.Itoa(panics)}
}

// ---- generator ---------------------------------------------------------------------------------

var c04Sizes = []int64{0, 1, 4095, 4096, 4097, 5000, 100 << 20, 100<<20 + 1}

type c04Gen struct {
	r     *rng
	k     int // marker counter: every value and every tag of a case is unique
	cnt   []string
	big   int // payloads over 1 KiB so far in this case
	wild  bool
	state int // 0 not authenticated, 1 authenticated, 2 selected (what a conforming server would be in)
}

func (g *c04Gen) count(s string) { g.cnt = append(g.cnt, s) }

func (g *c04Gen) mark(prefix string) string {
	g.k++
	return fmt.Sprintf("%s%d", prefix, g.k)
}

// payload builds n octets of literal content: command-like text carrying fresh markers, then
// CRLF-rich noise. clean: printable, no CR/LF (acceptable as a mailbox name).
func (g *c04Gen) payload(n int, clean bool) []byte {
	if n == 0 {
		return nil
	}
	var b []byte
	if clean {
		b = []byte(g.mark("zm"))
		for len(b) < n {
			b = append(b, "abcdefghij-klmnop.qrstuv_wxyz"[len(b)%29])
		}
		return b[:n]
	}
	k := g.mark("")
	cmdlike := []string{
		"\r\nz" + k + " LOGIN zu" + k + " zp" + k + "\r\n",
		"x" + k + " DELETE zb" + k + "\r\n",
		"w" + k + " SELECT zs" + k + "\r\nv" + k + " NOOP\r\n",
	}
	noise := []string{"\r\n", "\n", "{3+}\r\n", "{2}\r\n", "\" ", ") (", "\\", "a b\r\n", "+ ok\r\n", "DONE\r\n", "* \r\n"}
	switch g.r.intn(3) {
	case 0:
		b = append(b, cmdlike[0]...)
	case 1:
		b = append(b, cmdlike[1]...)
		b = append(b, cmdlike[0]...)
	default:
		b = append(b, cmdlike[2]...)
	}
	for len(b) < n {
		if g.r.chance(1, 6) {
			b = append(b, pick(g.r, cmdlike)...)
		} else {
			b = append(b, pick(g.r, noise)...)
		}
	}
	b = b[:n]
	return b
}

// one string argument, rendered in one of the four forms; returns the text to put on the command
// line and, for literals, the seg break. val is the value for atom/quoted forms.
type c04Piece struct {
	text    string // command text up to and including a literal header + CRLF, or the atom/quoted
	kind    byte   // 0 none, 'n', 's'
	payload []byte
	short   bool
}

func (g *c04Gen) arg(val string, mailbox bool) c04Piece {
	form := g.r.intn(10)
	switch {
	case form < 2:
		g.count("arg:atom")
		return c04Piece{text: val}
	case form < 4:
		g.count("arg:quoted")
		return c04Piece{text: "\"" + val + "\""}
	}
	nonSync := form >= 7
	// size: small ones often, each boundary regularly, at most two large payloads per case
	var size int64
	switch s := g.r.intn(12); {
	case s < 3:
		size = int64(2 + g.r.intn(60))
	case s < 4:
		size = int64(60 + g.r.intn(400))
	default:
		size = c04Sizes[g.r.intn(len(c04Sizes))]
	}
	if size > 1024 && size <= 8192 {
		if g.big >= 2 {
			size = int64(1 + g.r.intn(40))
		} else {
			g.big++
		}
	}
	p := c04Piece{kind: 's'}
	hdr := fmt.Sprintf("{%d}", size)
	if nonSync {
		p.kind = 'n'
		hdr = fmt.Sprintf("{%d+}", size)
	}
	p.text = hdr + "\r\n"
	if size > 8192 {
		p.short = true
		if g.r.chance(1, 2) {
			p.payload = g.payload(200, false) // the beginning of a payload that never completes
		}
	} else {
		p.payload = g.payload(int(size), mailbox && g.r.chance(1, 2))
	}
	g.count(fmt.Sprintf("arg:lit%c:%d", p.kind, size))
	return p
}

// build assembles a command from fixed words and pieces.
type c04Builder struct {
	cmd sfCmd
	cur []byte
}

func (b *c04Builder) word(s string) { b.cur = append(b.cur, s...) }
func (b *c04Builder) piece(p c04Piece) {
	b.cur = append(b.cur, p.text...)
	if p.kind != 0 {
		b.cmd.segs = append(b.cmd.segs, sfSeg{text: b.cur, kind: p.kind, payload: p.payload, short: p.short})
		b.cur = nil
	}
}
func (b *c04Builder) end() sfCmd {
	b.cur = append(b.cur, "\r\n"...)
	b.cmd.segs = append(b.cmd.segs, sfSeg{text: b.cur})
	return b.cmd
}

func plainB64(u, p string) string {
	return base64.StdEncoding.EncodeToString([]byte("\x00" + u + "\x00" + p))
}

func (g *c04Gen) command() sfCmd {
	tag := g.mark("t")
	b := &c04Builder{cmd: sfCmd{tag: tag}}
	b.word(tag + " ")
	mb := func() c04Piece {
		v := g.mark("mb")
		if g.r.chance(1, 8) {
			v = pick(g.r, []string{"INBOX", "inbox", "InBox"})
		}
		return g.arg(v, true)
	}
	// a spurious trailing argument on a command that takes none / after the last one
	extra := func() {
		if g.r.chance(1, 5) {
			b.word(" ")
			b.piece(g.arg(g.mark("e"), false))
			g.count("extra-arg")
		}
	}
	pickName := func(names ...string) string {
		n := pick(g.r, names)
		if g.r.chance(1, 6) {
			n = strings.ToLower(n)
		}
		g.count("cmd:" + strings.ToUpper(n))
		return n
	}
	switch c := g.r.intn(100); {
	case c < 14:
		b.word(pickName("LOGIN") + " ")
		b.piece(g.arg(g.mark("u"), false))
		b.word(" ")
		b.piece(g.arg(g.mark("p"), false))
		extra()
		if g.state == 0 {
			g.state = 1
		}
	case c < 22:
		b.word(pickName("SELECT", "EXAMINE") + " ")
		b.piece(mb())
		extra()
		if g.state >= 1 {
			g.state = 2
		}
	case c < 36:
		b.word(pickName("CREATE", "DELETE", "SUBSCRIBE", "UNSUBSCRIBE") + " ")
		b.piece(mb())
		extra()
	case c < 42:
		b.word(pickName("RENAME") + " ")
		b.piece(mb())
		b.word(" ")
		b.piece(mb())
		extra()
	case c < 56:
		b.word(pickName("APPEND") + " ")
		b.piece(mb())
		b.word(" ")
		if g.r.chance(1, 3) {
			b.word(pick(g.r, []string{"(\\Seen)", "(\\Seen \\Deleted)", "()", "(custom)"}) + " ")
		}
		// the message is always a literal
		var p c04Piece
		for p.kind == 0 {
			p = g.arg("x", false)
		}
		b.piece(p)
		if g.r.chance(1, 12) {
			b.word(" trailing")
			g.count("append-trailing")
		}
	case c < 66:
		b.word(pickName("NOOP", "CAPABILITY", "CHECK", "CLOSE", "UNSELECT", "EXPUNGE", "NAMESPACE", "STARTTLS", "FOO", "UID FOO"))
		extra()
	case c < 69:
		b.word(pickName("ENABLE") + " " + pick(g.r, []string{"IMAP4rev2", "UTF8=ACCEPT", "X-A X-B"}))
		extra()
	case c < 71:
		b.word(pickName("LOGOUT", "UNAUTHENTICATE"))
	case c < 80:
		b.word(pickName("AUTHENTICATE") + " " + pick(g.r, []string{"PLAIN", "plain", "PLAIN", "LOGIN"}))
		u, p := g.mark("au"), g.mark("ap")
		var line string
		switch v := g.r.intn(10); {
		case v < 3:
			line = plainB64(u, p)
		case v < 4:
			line = "*"
		case v < 5:
			line = "b" + g.mark("") + " DELETE " + g.mark("sm")
		case v < 7:
			n := pick(g.r, []int{4000, 4093, 4094, 4095, 4096, 4097, 8191, 8192, 9000})
			line = strings.Repeat("A", n) + "q" + g.mark("") + " DELETE " + g.mark("sm")
			g.count(fmt.Sprintf("sasl-long:%d", n))
		case v < 8:
			line = ""
		default:
			line = plainB64("", "")
		}
		if g.r.chance(1, 4) {
			// initial response on the command line
			if g.r.chance(1, 3) {
				b.word(" ")
				b.piece(g.arg(plainB64(u, p), false))
				g.count("sasl-ir-as-string")
			} else {
				b.word(" " + pick(g.r, []string{plainB64(u, p), "=", "!!", line}))
			}
			return b.end()
		}
		b.cur = append(b.cur, "\r\n"...)
		b.cmd.segs = append(b.cmd.segs, sfSeg{text: b.cur, kind: 'a', payload: []byte(line + "\r\n")}, sfSeg{})
		if g.state == 0 {
			g.state = 1
		}
		return b.cmd
	case c < 88:
		b.word(pickName("IDLE"))
		var line string
		switch v := g.r.intn(8); {
		case v < 4:
			line = "DONE"
		case v < 5:
			line = "done"
		case v < 6:
			line = "b" + g.mark("") + " DELETE " + g.mark("sm")
		default:
			n := pick(g.r, []int{4093, 4094, 4095, 4096, 4097, 9000})
			line = strings.Repeat("D", n) + "q" + g.mark("") + " DELETE " + g.mark("sm")
			g.count(fmt.Sprintf("idle-long:%d", n))
		}
		b.cur = append(b.cur, "\r\n"...)
		b.cmd.segs = append(b.cmd.segs, sfSeg{text: b.cur, kind: 'i', payload: []byte(line + "\r\n")}, sfSeg{})
		return b.cmd
	case c < 93:
		b.word(pickName("SEARCH", "UID SEARCH") + " " + pick(g.r, []string{"ALL", "NOT SEEN", "OR SEEN (DELETED NOT NEW)", "(ALL) UNSEEN", "NOT NOT NOT ALL", "((ALL))", "OR ALL", "NOT"}))
		extra()
	default:
		// commands outside the model's signature table, with string arguments in every form
		switch g.r.intn(6) {
		case 0:
			b.word(pickName("LIST") + " ")
			b.piece(g.arg(g.mark("ref"), true))
			b.word(" ")
			b.piece(g.arg(g.mark("pat"), true))
		case 1:
			b.word(pickName("STATUS") + " ")
			b.piece(mb())
			b.word(" (MESSAGES UNSEEN)")
		case 2:
			b.word(pickName("SEARCH") + " SUBJECT ")
			b.piece(g.arg(g.mark("subj"), false))
			b.word(" TEXT ")
			b.piece(g.arg(g.mark("txt"), false))
		case 3:
			b.word(pickName("COPY", "MOVE", "UID COPY") + " 1:3 ")
			b.piece(mb())
		case 4:
			b.word(pickName("FETCH") + " 1 (BODY[HEADER.FIELDS (")
			b.piece(g.arg(g.mark("hf"), false))
			b.word(")])")
		default:
			b.word(pickName("STORE") + " 1 +FLAGS (\\Seen)")
			extra()
		}
	}
	return b.end()
}

func (g *c04Gen) stream() []sfCmd {
	var cmds []sfCmd
	// reach a state first, most of the time
	mk := func(text string) sfCmd {
		tag := g.mark("t")
		return sfCmd{tag: tag, segs: []sfSeg{{text: []byte(tag + " " + text + "\r\n")}}}
	}
	switch g.r.intn(4) {
	case 1:
		cmds = append(cmds, mk("LOGIN "+g.mark("u")+" "+g.mark("p")))
		g.state = 1
	case 2, 3:
		cmds = append(cmds, mk("LOGIN "+g.mark("u")+" "+g.mark("p")), mk("SELECT "+g.mark("mb")))
		g.state = 2
	}
	n := 1 + g.r.intn(6)
	for i := 0; i < n; i++ {
		cmds = append(cmds, g.command())
	}
	return cmds
}

// streams outside the oracle's domain: the RFC lexer and the library's liberal lexer may
// legitimately frame them differently. Model comparison, output well-formedness and "no panic"
// still apply.
func (g *c04Gen) wildStream() []sfCmd {
	raw := func(s string) sfCmd {
		tag := g.mark("t")
		return sfCmd{tag: tag, segs: []sfSeg{{text: []byte(tag + " " + s)}}}
	}
	var cmds []sfCmd
	if g.r.chance(1, 2) {
		cmds = append(cmds, raw("LOGIN a b\r\n"))
	}
	for i, n := 0, 1+g.r.intn(3); i < n; i++ {
		switch g.r.intn(6) {
		case 0:
			cmds = append(cmds, raw("LOGIN \"x\r\ny\" p\r\n"))
			g.count("wild:quoted-crlf")
		case 1:
			cmds = append(cmds, raw("NOOP\n"))
			g.count("wild:lone-lf")
		case 2:
			cmds = append(cmds, raw("LOGIN {3} \r\nabc p\r\n"))
			g.count("wild:sp-before-crlf")
		case 3:
			cmds = append(cmds, raw("DELETE \"abc {3}\r\nxyz\r\n"))
			g.count("wild:open-quote")
		case 4:
			cmds = append(cmds, raw("NOOP\rX\r\n"))
			g.count("wild:lone-cr")
		default:
			cmds = append(cmds, raw("NOOP\r\n"))
		}
	}
	return cmds
}

// past failures and the design read-through's replays, always run first
func c04Corpus() [][]sfCmd {
	rep := func(s string, n int) string { return strings.Repeat(s, n) }
	return [][]sfCmd{
		sfParse([]byte("a LOGIN {5000+}\r\n" + rep("A", 100) + "\r\nz LOGIN u p\r\n" + rep("B", 5000-115) + "b NOOP\r\n")),
		sfParse([]byte("a LOGIN {5000}\r\n")),
		sfParse([]byte("p LOGIN u p\r\nd NOOP {12+}\r\ne DELETE x\r\nf NOOP\r\n")),
		sfParse([]byte("p LOGIN u p\r\nd NOOP {12}\r\ne DELETE x\r\nf NOOP\r\n")),
		sfParse([]byte("a AUTHENTICATE PLAIN\r\n" + rep("A", 4096) + "b DELETE smuggled\r\nc NOOP\r\n")),
		sfParse([]byte("p LOGIN u p\r\na IDLE\r\n" + rep("A", 4096) + "b DELETE smuggled\r\nc NOOP\r\n")),
		sfParse([]byte("p LOGIN u p\r\na APPEND m {104857601+}\r\nb DELETE x\r\n")),
		sfParse([]byte("p LOGIN u p\r\na APPEND m {5000+}\r\nb DELETE x\r\n")),
		sfParse([]byte("p LOGIN u p\r\na APPEND m {3}\r\nabcXYZ\r\nb NOOP\r\n")),
		sfParse([]byte("a AUTHENTICATE PLAIN {14+}\r\nz LOGIN u p\r\nb NOOP\r\n")),
		sfParse([]byte("p LOGIN u p\r\na RENAME {5}\r\nab&cdb NOOP\r\nc NOOP\r\n")),
		sfParse([]byte("p LOGIN u p\r\na DELETE {5}\r\nab&cd\r\nc NOOP\r\n")),
	}
}

func genC04(e *emitter, tier string, seed uint64) {
	n := 3000
	switch tier {
	case "thorough":
		n = 100000
	case "widen":
		n = 20000
	}
	lits := []string{"minus", "plus", "none"}
	envs := map[string]chan *sfEnv{}
	for _, l := range lits {
		for _, pa := range []bool{false, true} {
			ch := make(chan *sfEnv, 4)
			for i := 0; i < 4; i++ {
				ch <- newSfEnv(l, pa)
			}
			envs[l+b01(pa)] = ch
		}
	}
	run := func(lit string, preauth, pipeline bool, cmds []sfCmd) []string {
		ch := envs[lit+b01(preauth)]
		env := <-ch
		f := c04Run(env, lit, preauth, pipeline, cmds)
		ch <- env
		return f
	}
	for i, cmds := range c04Corpus() {
		e.emit("stream", run(lits[i%3], false, true, cmds)...)
	}
	base := newRng(seed, "C04")
	seeds := make([]uint64, n)
	for i := range seeds {
		seeds[i] = base.next()
	}
	parCases(e, n, func(i int) []caseLine {
		g := &c04Gen{r: &rng{s: seeds[i]}}
		lit := lits[g.r.intn(3)]
		preauth := g.r.chance(1, 4)
		if preauth {
			g.state = 1
		}
		pipeline := g.r.chance(1, 2)
		kind := "stream"
		var cmds []sfCmd
		if g.r.chance(1, 25) {
			kind = "wild"
			cmds = g.wildStream()
			g.count("skipped:outside-oracle-domain")
		} else {
			cmds = g.stream()
		}
		g.count("lit:" + lit)
		g.count("pipeline:" + b01(pipeline))
		g.count(fmt.Sprintf("cmds:%d", len(cmds)))
		return []caseLine{{kind: kind, fields: run(lit, preauth, pipeline, cmds), counts: g.cnt}}
	})
}

func replayC04(e *emitter, kind string, f []string) {
	// lit preauth pipeline script …
	env := newSfEnv(f[0], f[1] == "1")
	defer env.close()
	var cmds []sfCmd
	if kind == "raw" {
		cmds = sfParse(unhx(f[3]))
		kind = "stream"
	} else {
		cmds = sfDecode(f[3])
	}
	e.emit(kind, c04Run(env, f[0], f[1] == "1", f[2] == "1", cmds)...)
}
