//go:build (c14 || allprops) && !race

package main

const c14RaceBuild = false

func c14RaceReports() string { return "" }

func c14RaceLogPath() string { return "" }
