// Command verifh runs the real go-imap code on generated cases and prints, one case per
// line (tab-separated), the input together with what the implementation observably did.
// The Lean driver reads the same lines, runs the model and the property oracle on them.
package main

import (
	"bufio"
	"encoding/hex"
	"flag"
	"fmt"
	"os"
	"sort"
	"strings"
	"sync"
)

type genFunc func(e *emitter, tier string, seed uint64)

var props = map[string]genFunc{}

// emitter serialises case lines; ids are assigned in emission order per property.
type emitter struct {
	mu   sync.Mutex
	w    *bufio.Writer
	prop string
	n    int
	dist map[string]int
}

func (e *emitter) emit(kind string, fields ...string) {
	e.mu.Lock()
	defer e.mu.Unlock()
	e.n++
	for _, f := range fields {
		if strings.ContainsAny(f, "\t\n\r") {
			panic("verifh: field contains separator: " + f)
		}
	}
	fmt.Fprintf(e.w, "%s\t%d\t%s\t%s\n", e.prop, e.n, kind, strings.Join(fields, "\t"))
}

// count records one generator choice for the distribution histogram written to evidence.
func (e *emitter) count(key string) {
	e.mu.Lock()
	e.dist[key]++
	e.mu.Unlock()
}

func hx(b []byte) string {
	if len(b) == 0 {
		return "-"
	}
	return hex.EncodeToString(b)
}

func unhx(s string) []byte {
	if s == "-" {
		return nil
	}
	b, err := hex.DecodeString(s)
	if err != nil {
		panic(err)
	}
	return b
}

func main() {
	prop := flag.String("prop", "", "property id")
	tier := flag.String("tier", "quick", "quick|thorough")
	seed := flag.Uint64("seed", 1, "seed")
	out := flag.String("out", "", "output file (default stdout)")
	distOut := flag.String("dist", "", "write generator distribution here")
	replay := flag.String("replay", "", "re-run the single case line in this file")
	flag.Parse()

	if os.Getenv("VERIFH_WORKER") != "" {
		workerMain()
		return
	}

	g, ok := props[*prop]
	if !ok {
		fmt.Fprintln(os.Stderr, "unknown property", *prop)
		os.Exit(2)
	}
	var w *bufio.Writer
	if *out == "" {
		w = bufio.NewWriterSize(os.Stdout, 1<<20)
	} else {
		f, err := os.Create(*out)
		if err != nil {
			panic(err)
		}
		defer f.Close()
		w = bufio.NewWriterSize(f, 1<<20)
	}
	e := &emitter{w: w, prop: *prop, dist: map[string]int{}}
	if *replay != "" {
		replayCase(e, *prop, *replay)
	} else {
		g(e, *tier, *seed)
	}
	w.Flush()
	if *distOut != "" {
		keys := make([]string, 0, len(e.dist))
		for k := range e.dist {
			keys = append(keys, k)
		}
		sort.Strings(keys)
		var sb strings.Builder
		for _, k := range keys {
			fmt.Fprintf(&sb, "%s\t%d\n", k, e.dist[k])
		}
		os.WriteFile(*distOut, []byte(sb.String()), 0o644)
	}
}

// replayers re-execute one recorded case line (fields after the kind) against the current tree.
var replayers = map[string]func(e *emitter, kind string, fields []string){}

func replayCase(e *emitter, prop, path string) {
	data, err := os.ReadFile(path)
	if err != nil {
		panic(err)
	}
	for _, line := range strings.Split(strings.TrimRight(string(data), "\n"), "\n") {
		f := strings.Split(line, "\t")
		if len(f) < 3 || f[0] != prop {
			continue
		}
		r, ok := replayers[prop]
		if !ok {
			fmt.Fprintln(os.Stderr, "no replayer for", prop)
			os.Exit(2)
		}
		r(e, f[2], f[3:])
	}
}

// workers (crash isolation) are registered by the properties that need them.
var workers = map[string]func(){}

func workerMain() {
	w, ok := workers[os.Getenv("VERIFH_WORKER")]
	if !ok {
		os.Exit(3)
	}
	w()
}
