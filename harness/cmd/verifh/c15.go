//go:build c15 || allprops

package main

import (
	"fmt"
	"strconv"
	"strings"
	"time"

	"github.com/emersion/go-imap/v2"
	"github.com/emersion/go-imap/v2/internal/imapnum"
)

// C15 — number sets. Drives internal/imapnum.Set and the public imap.SeqSet / imap.UIDSet.

func init() {
	props["C15"] = genC15
	workers["c15nums"] = func() { workerLoop(c15NumsWorker) }
	replayers["C15"] = replayC15
}

const maxU32 = 4294967295

var c15Endpoints = []uint32{0, 0, 1, 2, 3, 4, 5, 6, 7, 8, 9, 10, 11, 12, 2147483648, maxU32 - 3, maxU32 - 2, maxU32 - 1, maxU32}

type c15Op struct {
	kind byte // n r s
	a, b uint32
	set  imapnum.Set
}

func (o c15Op) String() string {
	switch o.kind {
	case 'n':
		return fmt.Sprintf("n%d", o.a)
	case 'r':
		return fmt.Sprintf("r%d:%d", o.a, o.b)
	}
	var parts []string
	for _, r := range o.set {
		parts = append(parts, fmt.Sprintf("%d:%d", r.Start, r.Stop))
	}
	return "s" + strings.Join(parts, ",")
}

func c15ParseOps(s string) []c15Op {
	var ops []c15Op
	for _, t := range strings.Split(s, ";") {
		var o c15Op
		o.kind = t[0]
		switch o.kind {
		case 'n':
			v, _ := strconv.ParseUint(t[1:], 10, 32)
			o.a = uint32(v)
		case 'r':
			ab := strings.Split(t[1:], ":")
			x, _ := strconv.ParseUint(ab[0], 10, 32)
			y, _ := strconv.ParseUint(ab[1], 10, 32)
			o.a, o.b = uint32(x), uint32(y)
		case 's':
			if len(t) > 1 {
				for _, p := range strings.Split(t[1:], ",") {
					ab := strings.Split(p, ":")
					x, _ := strconv.ParseUint(ab[0], 10, 32)
					y, _ := strconv.ParseUint(ab[1], 10, 32)
					o.set = append(o.set, imapnum.Range{Start: uint32(x), Stop: uint32(y)})
				}
			}
		}
		ops = append(ops, o)
	}
	return ops
}

func c15Ranges(rs []imapnum.Range) string {
	parts := make([]string, len(rs))
	for i, r := range rs {
		parts[i] = fmt.Sprintf("%d-%d", r.Start, r.Stop)
	}
	return strings.Join(parts, ",")
}

// c15Set abstracts over the three flavours.
type c15Set interface {
	addNum(q uint32)
	addRange(a, b uint32)
	addSet(t imapnum.Set)
	ranges() []imapnum.Range
	str() string
	dynamic() bool
	contains(q uint32) bool
	roundTrips() bool
	argsIntact() bool
}

// c15Arg remembers a set that was passed to AddSet: it must not change afterwards (the receiver
// must not share storage with its argument).
type c15Arg struct {
	want string
	cur  func() string
}

type c15Args struct{ args []c15Arg }

func (a *c15Args) argsIntact() bool {
	for _, x := range a.args {
		if x.cur() != x.want {
			return false
		}
	}
	return true
}

type c15Raw struct {
	s imapnum.Set
	c15Args
}

func (x *c15Raw) addNum(q uint32)         { x.s.AddNum(q) }
func (x *c15Raw) addRange(a, b uint32)    { x.s.AddRange(a, b) }
func (x *c15Raw) addSet(t imapnum.Set) {
	o := append(imapnum.Set(nil), t...)
	x.s.AddSet(o)
	x.args = append(x.args, c15Arg{want: c15Ranges(t), cur: func() string { return c15Ranges(o) }})
}
func (x *c15Raw) ranges() []imapnum.Range { return x.s }
func (x *c15Raw) str() string             { return x.s.String() }
func (x *c15Raw) dynamic() bool           { return x.s.Dynamic() }
func (x *c15Raw) contains(q uint32) bool  { return x.s.Contains(q) }
func (x *c15Raw) roundTrips() bool {
	if len(x.s) == 0 {
		return true
	}
	p, err := imapnum.ParseSet(x.s.String())
	return err == nil && c15Ranges(p) == c15Ranges(x.s)
}

type c15Seq struct {
	s imap.SeqSet
	c15Args
}

func (x *c15Seq) addNum(q uint32)      { x.s.AddNum(q) }
func (x *c15Seq) addRange(a, b uint32) { x.s.AddRange(a, b) }
func (x *c15Seq) addSet(t imapnum.Set) {
	var o imap.SeqSet
	for _, r := range t {
		o = append(o, imap.SeqRange{Start: r.Start, Stop: r.Stop})
	}
	x.s.AddSet(o)
	x.args = append(x.args, c15Arg{want: c15Ranges(t), cur: func() string { return fmtRangesOf(o.String()) }})
}
func (x *c15Seq) ranges() []imapnum.Range {
	out := make([]imapnum.Range, len(x.s))
	for i, r := range x.s {
		out[i] = imapnum.Range{Start: r.Start, Stop: r.Stop}
	}
	return out
}
func (x *c15Seq) str() string            { return x.s.String() }
func (x *c15Seq) dynamic() bool          { return x.s.Dynamic() }
func (x *c15Seq) contains(q uint32) bool { return x.s.Contains(q) }
func (x *c15Seq) roundTrips() bool {
	if len(x.s) == 0 {
		return true
	}
	p, err := imapnum.ParseSet(x.s.String())
	return err == nil && c15Ranges(p) == c15Ranges(x.ranges())
}

type c15UID struct {
	s imap.UIDSet
	c15Args
}

func (x *c15UID) addNum(q uint32)      { x.s.AddNum(imap.UID(q)) }
func (x *c15UID) addRange(a, b uint32) { x.s.AddRange(imap.UID(a), imap.UID(b)) }
func (x *c15UID) addSet(t imapnum.Set) {
	var o imap.UIDSet
	for _, r := range t {
		o = append(o, imap.UIDRange{Start: imap.UID(r.Start), Stop: imap.UID(r.Stop)})
	}
	x.s.AddSet(o)
	x.args = append(x.args, c15Arg{want: c15Ranges(t), cur: func() string { return fmtRangesOf(o.String()) }})
}
func (x *c15UID) ranges() []imapnum.Range {
	out := make([]imapnum.Range, len(x.s))
	for i, r := range x.s {
		out[i] = imapnum.Range{Start: uint32(r.Start), Stop: uint32(r.Stop)}
	}
	return out
}
func (x *c15UID) str() string            { return x.s.String() }
func (x *c15UID) dynamic() bool          { return x.s.Dynamic() }
func (x *c15UID) contains(q uint32) bool { return x.s.Contains(imap.UID(q)) }
func (x *c15UID) roundTrips() bool {
	if len(x.s) == 0 {
		return true
	}
	p, err := imapnum.ParseSet(x.s.String())
	return err == nil && c15Ranges(p) == c15Ranges(x.ranges())
}

func c15New(flavour string) c15Set {
	switch flavour {
	case "seq":
		return &c15Seq{}
	case "uid":
		return &c15UID{}
	}
	return &c15Raw{}
}

func c15Probes(ops []c15Op) []uint32 {
	seen := map[uint32]bool{}
	var out []uint32
	add := func(v uint32) {
		for _, d := range []int64{-1, 0, 1} {
			x := int64(v) + d
			if x >= 1 && x <= maxU32 && !seen[uint32(x)] {
				seen[uint32(x)] = true
				out = append(out, uint32(x))
			}
		}
	}
	for _, o := range ops {
		switch o.kind {
		case 'n':
			add(o.a)
		case 'r':
			add(o.a)
			add(o.b)
		case 's':
			for _, r := range o.set {
				add(r.Start)
				add(r.Stop)
			}
		}
	}
	add(1)
	add(maxU32)
	return out
}

func c15RunOps(e *emitter, flavour string, ops []c15Op) (final []imapnum.Range) {
	probes := c15Probes(ops)
	s := c15New(flavour)
	var obs, opStrs, pStrs []string
	for _, p := range probes {
		pStrs = append(pStrs, strconv.FormatUint(uint64(p), 10))
	}
	for _, o := range ops {
		switch o.kind {
		case 'n':
			s.addNum(o.a)
		case 'r':
			s.addRange(o.a, o.b)
		case 's':
			s.addSet(o.set)
		}
		var bits strings.Builder
		for _, p := range probes {
			bits.WriteString(b01(s.contains(p)))
		}
		obs = append(obs, fmt.Sprintf("%s|%s|%s|%s|%s|%s", c15Ranges(s.ranges()), s.str(), b01(s.dynamic()), bits.String(), b01(s.roundTrips()), b01(s.argsIntact())))
		opStrs = append(opStrs, o.String())
	}
	e.emit("ops", flavour, strings.Join(pStrs, ","), strings.Join(opStrs, ";"), strings.Join(obs, ";"))
	return append([]imapnum.Range(nil), s.ranges()...)
}

func c15RandSet(r *rng) imapnum.Set {
	var s imapnum.Set
	n := r.intn(4)
	for i := 0; i < n; i++ {
		if r.chance(1, 2) {
			s.AddNum(pick(r, c15Endpoints))
		} else {
			s.AddRange(pick(r, c15Endpoints), pick(r, c15Endpoints))
		}
	}
	return s
}

func c15RandOp(r *rng) c15Op {
	switch r.intn(7) {
	case 0, 1, 2:
		return c15Op{kind: 'n', a: pick(r, c15Endpoints)}
	case 3, 4, 5:
		return c15Op{kind: 'r', a: pick(r, c15Endpoints), b: pick(r, c15Endpoints)}
	}
	return c15Op{kind: 's', set: c15RandSet(r)}
}

// nums cases run in a worker: a non-terminating enumeration is an expected failure mode.
func c15NumsWorker(req string) string {
	var s imapnum.Set
	if req != "" {
		for _, p := range strings.Split(req, ",") {
			ab := strings.Split(p, "-")
			x, _ := strconv.ParseUint(ab[0], 10, 32)
			y, _ := strconv.ParseUint(ab[1], 10, 32)
			s = append(s, imapnum.Range{Start: uint32(x), Stop: uint32(y)})
		}
	}
	// through the public wrapper: that is what callers use
	var pub imap.SeqSet
	for _, r := range s {
		pub = append(pub, imap.SeqRange{Start: r.Start, Stop: r.Stop})
	}
	nums, ok := pub.Nums()
	if !ok {
		return "no"
	}
	parts := make([]string, len(nums))
	for i, n := range nums {
		parts[i] = strconv.FormatUint(uint64(n), 10)
	}
	return "ok:" + strings.Join(parts, ",")
}

func c15Card(rs []imapnum.Range) (uint64, bool) {
	var c uint64
	for _, r := range rs {
		if r.Start == 0 || r.Stop == 0 {
			continue // dynamic: Nums reports !ok when it gets there
		}
		if r.Stop < r.Start {
			return 0, false // not a canonical set: judged by the ops oracle, never enumerated
		}
		c += uint64(r.Stop) - uint64(r.Start) + 1
	}
	return c, c <= 20000
}

func genC15(e *emitter, tier string, seed uint64) {
	nSeq, nTxt := 30000, 30000
	if tier == "thorough" {
		nSeq, nTxt = 1500000, 1500000
	}
	// corpus first: shapes that failed in the past
	corpus := [][]c15Op{
		c15ParseOps("r4294967290:4294967295"),
		c15ParseOps("n4294967295"),
		c15ParseOps("n1;n4294967295;n4294967294"),
		c15ParseOps("n4294967295;r4294967290:0"),
		c15ParseOps("n0;n5;r3:0"),
		c15ParseOps("r10:20;r1:2;r30:0;r3:9;r21:29"),
		c15ParseOps("n1;n4;n2"), c15ParseOps("n1;n5;n3"), c15ParseOps("r5:0;n0"),
	}
	var numsReqs []string
	seenNums := map[string]bool{}
	addNums := func(rs []imapnum.Range) {
		if _, small := c15Card(rs); small {
			k := c15Ranges(rs)
			if !seenNums[k] && len(seenNums) < 4000 {
				seenNums[k] = true
				numsReqs = append(numsReqs, k)
			}
		}
	}
	for _, ops := range corpus {
		for _, fl := range []string{"raw", "seq", "uid"} {
			addNums(c15RunOps(e, fl, ops))
		}
	}
	// tests (labelled as such in evidence): all op sequences of length <= 3 over a small alphabet
	small := []uint32{0, 1, 2, 3, 5, maxU32 - 1, maxU32}
	var alpha []c15Op
	for _, a := range small {
		alpha = append(alpha, c15Op{kind: 'n', a: a})
		for _, b := range small {
			alpha = append(alpha, c15Op{kind: 'r', a: a, b: b})
		}
	}
	if tier == "thorough" {
		for _, a := range alpha {
			for _, b := range alpha {
				for _, c := range alpha {
					c15RunOps(e, "raw", []c15Op{a, b, c})
					e.count("ops:exhaustive3")
				}
			}
		}
	} else {
		for _, a := range alpha {
			for _, b := range alpha {
				addNums(c15RunOps(e, "raw", []c15Op{a, b}))
				e.count("ops:exhaustive2")
			}
		}
	}
	r := newRng(seed, "C15")
	flavours := []string{"raw", "seq", "uid"}
	for i := 0; i < nSeq; i++ {
		n := 1 + r.intn(12)
		ops := make([]c15Op, n)
		for j := range ops {
			ops[j] = c15RandOp(r)
			e.count("op:" + string(ops[j].kind))
		}
		fl := flavours[i%3]
		e.count("flavour:" + fl)
		e.count(fmt.Sprintf("len:%d", n))
		addNums(c15RunOps(e, fl, ops))
	}
	// enumeration
	pool := &workerPool{name: "c15nums", timeout: 5 * time.Second, memMB: 2048}
	ans := pool.run(numsReqs)
	for i, k := range numsReqs {
		if ans[i] == "skipped" {
			e.count("nums:skipped-after-repeated-crashes")
			continue
		}
		e.emit("nums", k, ans[i])
		e.count("nums")
	}
	// parser
	c15GenTexts(e, r, nTxt)
}

var c15TextCorpus = []string{"", "*", "1", "0", "01", "1:*", "*:1", "*:*", "1:2:3", "1,", ",1", "1,,2", "4294967295", "4294967296",
	"4294967295:4294967294", "1:4294967295", "5,*", "+1", "-1", "1 ", " 1", "1:", ":1", "1_0", "0x1", "١", "1:0", "0:1", "00", "3:1,2",
	"99999999999999999999", "1,2,3,4:6,7:*", "4294967290:*,4294967295"}

func c15Text(e *emitter, t string) {
	var probes []uint32
	seen := map[uint32]bool{}
	add := func(v uint64) {
		for _, d := range []int64{-1, 0, 1} {
			x := int64(v) + d
			if x >= 1 && x <= maxU32 && !seen[uint32(x)] {
				seen[uint32(x)] = true
				probes = append(probes, uint32(x))
			}
		}
	}
	cur := uint64(0)
	in := false
	for i := 0; i <= len(t); i++ {
		if i < len(t) && t[i] >= '0' && t[i] <= '9' && cur < 1<<40 {
			cur = cur*10 + uint64(t[i]-'0')
			in = true
		} else if in {
			if cur <= maxU32 {
				add(cur)
			}
			cur, in = 0, false
		}
	}
	add(1)
	add(maxU32)
	var pStrs []string
	for _, p := range probes {
		pStrs = append(pStrs, strconv.FormatUint(uint64(p), 10))
	}
	// through the exported parser the wire decoder uses
	s, err := imapnum.ParseSet(t)
	impl := "err"
	if err == nil {
		var bits strings.Builder
		for _, p := range probes {
			bits.WriteString(b01(s.Contains(p)))
		}
		impl = fmt.Sprintf("ok|%s|%s|%s", c15Ranges(s), bits.String(), b01(s.Dynamic()))
	}
	e.emit("parse", hx([]byte(t)), strings.Join(pStrs, ","), impl)
}

func c15GenTexts(e *emitter, r *rng, n int) {
	for _, t := range c15TextCorpus {
		c15Text(e, t)
	}
	num := func() string {
		switch r.intn(10) {
		case 0:
			return "*"
		case 1:
			return strconv.FormatUint(uint64(pick(r, c15Endpoints[2:])), 10)
		case 2:
			return strconv.FormatUint(uint64(maxU32)+uint64(r.intn(3)), 10)
		}
		return strconv.Itoa(1 + r.intn(15))
	}
	junk := []string{"0", ":", ",", " ", "+", "-", "*", "a", "00", "\x00", "\xff", "9999999999", "٣", "_", "$"}
	for i := 0; i < n; i++ {
		k := 1 + r.intn(5)
		var items []string
		for j := 0; j < k; j++ {
			if r.chance(1, 2) {
				items = append(items, num())
			} else {
				items = append(items, num()+":"+num())
			}
		}
		t := strings.Join(items, ",")
		if r.chance(1, 3) { // malformed stream
			nm := 1 + r.intn(2)
			for m := 0; m < nm; m++ {
				pos := r.intn(len(t) + 1)
				switch r.intn(3) {
				case 0:
					t = t[:pos] + pick(r, junk) + t[pos:]
				case 1:
					if pos < len(t) {
						t = t[:pos] + t[pos+1:]
					}
				case 2:
					if pos < len(t) {
						t = t[:pos] + pick(r, junk) + t[pos+1:]
					}
				}
			}
			e.count("text:mutated")
		} else {
			e.count("text:valid")
		}
		c15Text(e, t)
	}
}

func replayC15(e *emitter, kind string, f []string) {
	switch kind {
	case "ops":
		c15RunOps(e, f[0], c15ParseOps(f[2]))
	case "nums":
		pool := &workerPool{name: "c15nums", timeout: 5 * time.Second, memMB: 2048}
		e.emit("nums", f[0], pool.run([]string{f[0]})[0])
	case "parse":
		c15Text(e, string(unhx(f[0])))
	}
}
