//go:build (c14 || allprops) && race

package main

import (
	"fmt"
	"os"
	"strings"
)

// Built with -race (thorough tier, by the pre step of checklib/prop_C14.py, which sets
// GORACE="halt_on_error=0 log_path=<dir>/race"): the race runtime appends its reports to
// <log_path>.<pid>; after every run the new reports are read back.
const c14RaceBuild = true

var c14RaceOff int64

// c14RaceReports returns the first new report whose stacks touch the server packages ("" if none).
// A report that only involves harness code is returned prefixed with "HARNESS" so that it is not lost.
func c14RaceLogPath() string {
	lp := ""
	for _, kv := range strings.Fields(os.Getenv("GORACE")) {
		if strings.HasPrefix(kv, "log_path=") {
			lp = kv[len("log_path="):]
		}
	}
	return lp
}

func c14RaceReports() string {
	lp := c14RaceLogPath()
	if lp == "" {
		return ""
	}
	data, err := os.ReadFile(fmt.Sprintf("%s.%d", lp, os.Getpid()))
	if err != nil || int64(len(data)) <= c14RaceOff {
		return ""
	}
	fresh := string(data[c14RaceOff:])
	c14RaceOff = int64(len(data))
	harnessOnly := ""
	for _, blk := range strings.Split(fresh, "==================") {
		if !strings.Contains(blk, "DATA RACE") {
			continue
		}
		if len(blk) > 3500 {
			blk = blk[:3500]
		}
		if strings.Contains(blk, "/imapserver/") || strings.Contains(blk, "go-imap/v2/imapserver") {
			return strings.TrimSpace(blk)
		}
		if harnessOnly == "" {
			harnessOnly = "HARNESS " + strings.TrimSpace(blk)
		}
	}
	return harnessOnly
}
