//go:build c19 || allprops

package main

import (
	"fmt"
	"strings"
	"time"

	"github.com/emersion/go-imap/v2"
	"github.com/emersion/go-imap/v2/imapserver/imapmemserver"
	"github.com/emersion/go-imap/v2/internal/imapwire"
)

// C19 — And is intersection; a multi-key SEARCH is the conjunction of its keys.

func init() {
	props["C19"] = genC19
	replayers["C19"] = replayC19
}

const c19D0 = 1577836800 // 2020-01-01T00:00:00Z

var (
	c19Sets   = []string{"1", "2:4", "1,3,5", "6:*", "*", "1:8", "3", "2,4:6", "8:*"}
	c19Flags  = []string{`\Seen`, `\Deleted`, `\Recent`, `\Flagged`, `$kw`, `\SEEN`, `\deleted`, `$KW`}
	c19Hdrs   = [][2]string{{"Subject", "hi"}, {"subject", ""}, {"From", "alice"}, {"X-Spam", ""}, {"To", "bob"}, {"SUBJECT", "LOREM"}, {"From", "example.org"}}
	c19Texts  = []string{"hello", "world", "lorem", "HELLO", "zzz", "", "alice", "o w"}
	c19Sizes  = []int64{0, 0, 1, 5, 12, 100, -3}
	c19Zones  = []*time.Location{time.UTC, time.FixedZone("p", 11*3600), time.FixedZone("m", -9*3600)}
	c19SeqSet = func(s string) imap.SeqSet { v, _ := imapwire.ParseSeqSet(s); return v }
)

func c19UIDSet(s string) imap.UIDSet {
	v := c19SeqSet(s)
	var u imap.UIDSet
	for _, r := range v {
		u = append(u, imap.UIDRange{Start: imap.UID(r.Start), Stop: imap.UID(r.Stop)})
	}
	return u
}

func c19Date(r *rng) time.Time {
	return time.Unix(c19D0+int64(r.intn(5))*86400, 0).UTC()
}

func c19RandCriteria(r *rng, depth int) imap.SearchCriteria {
	var c imap.SearchCriteria
	n := r.intn(4)
	for i := 0; i < n; i++ {
		switch r.intn(16) {
		case 0:
			c.SeqNum = append(c.SeqNum, c19SeqSet(pick(r, c19Sets)))
		case 1:
			c.UID = append(c.UID, c19UIDSet(pick(r, c19Sets)))
		case 2:
			c.Since = c19Date(r)
		case 3:
			c.Before = c19Date(r)
		case 4:
			c.SentSince = c19Date(r)
		case 5:
			c.SentBefore = c19Date(r)
		case 6:
			h := pick(r, c19Hdrs)
			c.Header = append(c.Header, imap.SearchCriteriaHeaderField{Key: h[0], Value: h[1]})
		case 7:
			c.Body = append(c.Body, pick(r, c19Texts))
		case 8:
			c.Text = append(c.Text, pick(r, c19Texts))
		case 9:
			c.Flag = append(c.Flag, imap.Flag(pick(r, c19Flags)))
		case 10:
			c.NotFlag = append(c.NotFlag, imap.Flag(pick(r, c19Flags)))
		case 11, 12:
			c.Larger = pick(r, c19Sizes)
		case 13, 14:
			c.Smaller = pick(r, c19Sizes)
		case 15:
			if depth > 0 {
				if r.chance(1, 2) {
					c.Not = append(c.Not, c19RandCriteria(r, depth-1))
				} else {
					c.Or = append(c.Or, [2]imap.SearchCriteria{c19RandCriteria(r, depth-1), c19RandCriteria(r, depth-1)})
				}
			}
		}
	}
	return c
}

func c19Copy(c imap.SearchCriteria) imap.SearchCriteria {
	o := c
	o.SeqNum = append([]imap.SeqSet(nil), c.SeqNum...)
	o.UID = append([]imap.UIDSet(nil), c.UID...)
	o.Header = append([]imap.SearchCriteriaHeaderField(nil), c.Header...)
	o.Body = append([]string(nil), c.Body...)
	o.Text = append([]string(nil), c.Text...)
	o.Flag = append([]imap.Flag(nil), c.Flag...)
	o.NotFlag = append([]imap.Flag(nil), c.NotFlag...)
	o.Not = nil
	for _, n := range c.Not {
		o.Not = append(o.Not, c19Copy(n))
	}
	o.Or = nil
	for _, n := range c.Or {
		o.Or = append(o.Or, [2]imap.SearchCriteria{c19Copy(n[0]), c19Copy(n[1])})
	}
	return o
}

func c19And(e *emitter, a, b imap.SearchCriteria) {
	as, bs := fmtCriteria(&a), fmtCriteria(&b)
	x, y := c19Copy(a), c19Copy(b)
	x.And(&y)
	e.emit("and", as, bs, fmtCriteria(&x))
}

type c19Msg struct {
	seq, uid uint32
	t        time.Time
	flags    []string
	hdrs     [][2]string
	date     string // raw Date header value ("" = none)
	sent     time.Time
	sentErr  bool
	body     string
}

func c19Trunc(t time.Time) int64 {
	if t.IsZero() {
		return 0
	}
	return fmtTime(time.Date(t.Year(), t.Month(), t.Day(), 0, 0, 0, 0, time.UTC))
}

func c19RandMsg(r *rng) c19Msg {
	var m c19Msg
	m.seq = uint32(r.intn(9)) // 0 = unknown sequence number
	m.uid = uint32(1 + r.intn(10))
	m.t = time.Unix(c19D0+int64(r.intn(5))*86400+int64(r.intn(86400)), 0).In(pick(r, c19Zones))
	for _, f := range []string{`\Seen`, `\Deleted`, `\Recent`, `\Flagged`, `$kw`} {
		if r.chance(1, 3) {
			m.flags = append(m.flags, f)
		}
	}
	if r.chance(2, 3) {
		m.hdrs = append(m.hdrs, [2]string{"Subject", pick(r, []string{"hi there", "Re: lorem", "Hi"})})
	}
	if r.chance(2, 3) {
		m.hdrs = append(m.hdrs, [2]string{"From", "Alice <alice@example.org>"})
	}
	if r.chance(1, 4) {
		m.hdrs = append(m.hdrs, [2]string{"X-Spam", ""})
	}
	if r.chance(1, 4) {
		m.hdrs = append(m.hdrs, [2]string{"To", "bob@example.org"})
	}
	switch r.intn(5) {
	case 0: // no Date header
	case 1:
		m.date = "not a date"
		m.sentErr = true
	default:
		m.sent = time.Unix(c19D0+int64(r.intn(5))*86400+int64(r.intn(86400)), 0).In(pick(r, c19Zones))
		m.date = m.sent.Format("Mon, 02 Jan 2006 15:04:05 -0700")
	}
	m.body = pick(r, []string{"Hello World", "lorem ipsum", "hello", "", "x"})
	return m
}

func (m c19Msg) buf() []byte {
	var sb strings.Builder
	for _, h := range m.hdrs {
		sb.WriteString(h[0] + ": " + h[1] + "\r\n")
	}
	if m.date != "" {
		sb.WriteString("Date: " + m.date + "\r\n")
	}
	sb.WriteString("\r\n")
	sb.WriteString(m.body)
	return []byte(sb.String())
}

// c19Atoms splits a criteria into its atomic constraints (one item each), in the order of the
// text rendering: the conjunction of the atoms' results must equal the result for the whole.
func c19Atoms(c imap.SearchCriteria) []imap.SearchCriteria {
	var out []imap.SearchCriteria
	for _, s := range c.SeqNum {
		out = append(out, imap.SearchCriteria{SeqNum: []imap.SeqSet{s}})
	}
	for _, s := range c.UID {
		out = append(out, imap.SearchCriteria{UID: []imap.UIDSet{s}})
	}
	if !c.Since.IsZero() {
		out = append(out, imap.SearchCriteria{Since: c.Since})
	}
	if !c.Before.IsZero() {
		out = append(out, imap.SearchCriteria{Before: c.Before})
	}
	if !c.SentSince.IsZero() {
		out = append(out, imap.SearchCriteria{SentSince: c.SentSince})
	}
	if !c.SentBefore.IsZero() {
		out = append(out, imap.SearchCriteria{SentBefore: c.SentBefore})
	}
	for _, h := range c.Header {
		out = append(out, imap.SearchCriteria{Header: []imap.SearchCriteriaHeaderField{h}})
	}
	for _, x := range c.Body {
		out = append(out, imap.SearchCriteria{Body: []string{x}})
	}
	for _, x := range c.Text {
		out = append(out, imap.SearchCriteria{Text: []string{x}})
	}
	for _, x := range c.Flag {
		out = append(out, imap.SearchCriteria{Flag: []imap.Flag{x}})
	}
	for _, x := range c.NotFlag {
		out = append(out, imap.SearchCriteria{NotFlag: []imap.Flag{x}})
	}
	if c.Larger != 0 {
		out = append(out, imap.SearchCriteria{Larger: c.Larger})
	}
	if c.Smaller != 0 {
		out = append(out, imap.SearchCriteria{Smaller: c.Smaller})
	}
	for _, n := range c.Not {
		out = append(out, imap.SearchCriteria{Not: []imap.SearchCriteria{c19Copy(n)}})
	}
	for _, o := range c.Or {
		out = append(out, imap.SearchCriteria{Or: [][2]imap.SearchCriteria{{c19Copy(o[0]), c19Copy(o[1])}}})
	}
	return out
}

func c19MsgCase(e *emitter, c imap.SearchCriteria, m c19Msg) {
	buf := m.buf()
	var flags []imap.Flag
	var fl []string
	for _, f := range m.flags {
		flags = append(flags, imap.Flag(f))
		fl = append(fl, hx([]byte(strings.ToLower(f))))
	}
	cc := c19Copy(c)
	got := imapmemserver.VerifMessageSearch(imap.UID(m.uid), buf, m.t, flags, m.seq, &cc)
	var parts strings.Builder
	for _, a := range c19Atoms(c) {
		a := a
		parts.WriteString(b01(imapmemserver.VerifMessageSearch(imap.UID(m.uid), buf, m.t, flags, m.seq, &a)))
	}
	var hs []string
	for _, h := range m.hdrs {
		hs = append(hs, hx([]byte(strings.ToLower(h[0])))+":"+hx([]byte(strings.ToLower(h[1]))))
	}
	if m.date != "" {
		hs = append(hs, hx([]byte("date"))+":"+hx([]byte(strings.ToLower(m.date))))
	}
	e.emit("msg", fmtCriteria(&c), fmt.Sprint(m.seq), fmt.Sprint(m.uid), fmt.Sprint(c19Trunc(m.t)), fmt.Sprint(c19Trunc(m.sent)), b01(m.sentErr),
		strings.Join(fl, ","), fmt.Sprint(len(buf)), hx([]byte(strings.ToLower(string(buf)))), hx([]byte(strings.ToLower(m.body))), strings.Join(hs, ","), "p"+parts.String(), b01(got))
}

// --- search keys on the wire ---

type c19Key struct {
	tok  string   // token in the Lean key grammar
	wire string   // wire text
	sub  []c19Key // for n / o / group
}

func c19AString(r *rng, s string) string {
	if s != "" && !strings.ContainsAny(s, " \"\\(){%*]") && r.chance(1, 2) {
		return s
	}
	return `"` + strings.ReplaceAll(strings.ReplaceAll(s, `\`, `\\`), `"`, `\"`) + `"`
}

func c19RandKey(r *rng, depth int) c19Key {
	date := func() (int64, string) {
		t := c19Date(r)
		return fmtTime(t), t.Format("2-Jan-2006")
	}
	sysFlags := []string{"ANSWERED", "DELETED", "DRAFT", "FLAGGED", "RECENT", "SEEN"}
	title := func(s string) string { return `\` + s[:1] + strings.ToLower(s[1:]) }
	caseMix := func(s string) string {
		if r.chance(1, 3) {
			return strings.ToLower(s)
		}
		return s
	}
	switch k := r.intn(24); k {
	case 0:
		return c19Key{tok: "A", wire: caseMix("ALL")}
	case 1:
		s := pick(r, c19Sets)
		return c19Key{tok: "q" + fmtRangesOf(c19SeqSet(s).String()), wire: s}
	case 2:
		s := pick(r, c19Sets)
		return c19Key{tok: "u" + fmtRangesOf(c19SeqSet(s).String()), wire: caseMix("UID") + " " + s}
	case 3:
		f := pick(r, sysFlags)
		return c19Key{tok: "f" + hx([]byte(title(f))), wire: caseMix(f)}
	case 4:
		f := pick(r, sysFlags[:4])
		if f == "DRAFT" {
			f = "SEEN"
		}
		return c19Key{tok: "F" + hx([]byte(title(f))), wire: caseMix("UN" + f)}
	case 5:
		return c19Key{tok: "N", wire: caseMix("NEW")}
	case 6:
		return c19Key{tok: "O", wire: caseMix("OLD")}
	case 7:
		return c19Key{tok: "f" + hx([]byte("$kw")), wire: "KEYWORD $kw"}
	case 8:
		return c19Key{tok: "F" + hx([]byte("$kw")), wire: "UNKEYWORD $kw"}
	case 9:
		h := pick(r, []string{"BCC", "CC", "FROM", "SUBJECT", "TO"})
		v := pick(r, []string{"hi", "alice", "lorem", "", "bob"})
		return c19Key{tok: "h" + hx([]byte(h[:1]+strings.ToLower(h[1:]))) + ":" + hx([]byte(v)), wire: caseMix(h) + " " + c19AString(r, v)}
	case 10:
		h := pick(r, c19Hdrs)
		return c19Key{tok: "h" + hx([]byte(h[0])) + ":" + hx([]byte(h[1])), wire: "HEADER " + c19AString(r, h[0]) + " " + c19AString(r, h[1])}
	case 11, 12, 13, 14, 15, 16:
		v, w := date()
		names := []string{"SINCE", "BEFORE", "ON", "SENTSINCE", "SENTBEFORE", "SENTON"}
		toks := []string{"s", "b", "d", "S", "B", "D"}
		return c19Key{tok: fmt.Sprintf("%s%d", toks[k-11], v), wire: caseMix(names[k-11]) + " " + w}
	case 17:
		s := pick(r, c19Texts)
		return c19Key{tok: "y" + hx([]byte(s)), wire: "BODY " + c19AString(r, s)}
	case 18:
		s := pick(r, c19Texts)
		return c19Key{tok: "t" + hx([]byte(s)), wire: "TEXT " + c19AString(r, s)}
	case 19:
		n := pick(r, []int64{0, 1, 5, 12, 100})
		return c19Key{tok: fmt.Sprintf("l%d", n), wire: fmt.Sprintf("LARGER %d", n)}
	case 20:
		n := pick(r, []int64{0, 1, 5, 12, 100})
		return c19Key{tok: fmt.Sprintf("m%d", n), wire: fmt.Sprintf("SMALLER %d", n)}
	}
	if depth <= 0 {
		return c19Key{tok: "A", wire: "ALL"}
	}
	switch r.intn(3) {
	case 0:
		s := c19RandKey(r, depth-1)
		return c19Key{tok: "n " + s.tok, wire: "NOT " + s.wire}
	case 1:
		a, b := c19RandKey(r, depth-1), c19RandKey(r, depth-1)
		return c19Key{tok: "o " + a.tok + " " + b.tok, wire: "OR " + a.wire + " " + b.wire}
	}
	n := 1 + r.intn(3)
	var toks, wires []string
	for i := 0; i < n; i++ {
		s := c19RandKey(r, depth-1)
		toks = append(toks, s.tok)
		wires = append(wires, s.wire)
	}
	return c19Key{tok: "( " + strings.Join(toks, " ") + " )", wire: "(" + strings.Join(wires, " ") + ")"}
}

type c19Srv struct {
	ts *testServer
	rc *rawClient
	n  int
}

func c19NewSrv() *c19Srv {
	ts := newStubServer(stubCfg{insecure: true})
	rc := newRawClient(ts.ln.dial())
	rc.readLine()
	rc.cmd("l", "LOGIN u p")
	rc.cmd("s", "SELECT INBOX")
	return &c19Srv{ts: ts, rc: rc}
}

func (s *c19Srv) search(keysWire string) string {
	s.n++
	sess := s.ts.lastSession()
	sess.mu.Lock()
	sess.search = nil
	sess.mu.Unlock()
	st, _ := s.rc.cmd(fmt.Sprintf("t%d", s.n), "SEARCH "+keysWire)
	sess.mu.Lock()
	c := sess.search
	sess.mu.Unlock()
	if st != "OK" || c == nil {
		return "err:" + st
	}
	return fmtCriteria(c)
}

func c19Keys(e *emitter, srv *c19Srv, keys []c19Key) {
	var toks, wires []string
	for _, k := range keys {
		toks = append(toks, k.tok)
		wires = append(wires, k.wire)
	}
	e.emit("keys", strings.Join(toks, " "), srv.search(strings.Join(wires, " ")))
}

func genC19(e *emitter, tier string, seed uint64) {
	nAnd, nMsg, nKeys := 20000, 20000, 3000
	switch tier {
	case "thorough":
		nAnd, nMsg, nKeys = 1000000, 600000, 150000
	case "widen":
		nAnd, nMsg, nKeys = 200000, 100000, 30000
	}
	r := newRng(seed, "C19")
	// corpus: past failures first
	c19And(e, imap.SearchCriteria{Smaller: 100}, imap.SearchCriteria{Larger: 5})
	c19And(e, imap.SearchCriteria{Smaller: 5}, imap.SearchCriteria{Larger: 1})
	c19And(e, imap.SearchCriteria{Larger: 5}, imap.SearchCriteria{Smaller: 100})
	for i := 0; i < nAnd; i++ {
		a, b := c19RandCriteria(r, 2), c19RandCriteria(r, 2)
		c19And(e, a, b)
		e.count("and")
	}
	for i := 0; i < nMsg; i++ {
		c19MsgCase(e, c19RandCriteria(r, 2), c19RandMsg(r))
		e.count("msg")
	}
	// the same kind of constraint at two levels of one tree (top level and inside NOT / OR):
	// shared per-message state between the levels of the matcher shows only here
	for i := 0; i < nMsg/4; i++ {
		mk := func() imap.SearchCriteria {
			var c imap.SearchCriteria
			switch i % 4 {
			case 0:
				c.Body = []string{pick(r, c19Texts)}
			case 1:
				c.Text = []string{pick(r, c19Texts)}
			case 2:
				h := pick(r, c19Hdrs)
				c.Header = []imap.SearchCriteriaHeaderField{{Key: h[0], Value: h[1]}}
			default:
				c.SentSince = c19Date(r)
			}
			return c
		}
		c := mk()
		switch r.intn(3) {
		case 0:
			c.Not = append(c.Not, mk())
		case 1:
			c.Or = append(c.Or, [2]imap.SearchCriteria{mk(), mk()})
		default:
			c.Not = append(c.Not, imap.SearchCriteria{Or: [][2]imap.SearchCriteria{{mk(), mk()}}})
		}
		c19MsgCase(e, c, c19RandMsg(r))
		e.count("msg:two-levels")
	}
	srv := c19NewSrv()
	defer srv.ts.close()
	wk := func(w string, tok string) c19Key { return c19Key{tok: tok, wire: w} }
	c19Keys(e, srv, []c19Key{wk("SMALLER 5", "m5"), wk("LARGER 1", "l1")})
	c19Keys(e, srv, []c19Key{wk("LARGER 1", "l1"), wk("SMALLER 5", "m5")})
	c19Keys(e, srv, []c19Key{wk("UNDELETED", "F"+hx([]byte(`\Deleted`))), wk("NEW", "N")})
	for i := 0; i < nKeys; i++ {
		n := 1 + r.intn(4)
		if r.chance(1, 6) {
			n = 5 + r.intn(4)
		}
		keys := make([]c19Key, n)
		for j := range keys {
			keys[j] = c19RandKey(r, 2)
		}
		c19Keys(e, srv, keys)
		e.count(fmt.Sprintf("keys:n=%d", n))
		// permutations of the same keys
		for p := 0; p < 2 && n > 1; p++ {
			perm := append([]c19Key(nil), keys...)
			for j := len(perm) - 1; j > 0; j-- {
				k := r.intn(j + 1)
				perm[j], perm[k] = perm[k], perm[j]
			}
			c19Keys(e, srv, perm)
			e.count("keys:permutation")
		}
	}
}

func replayC19(e *emitter, kind string, f []string) {
	fmt.Fprintln(e.w, "# C19 replays re-generate from the seed; run ./check C19 to reproduce; recorded case:", kind, strings.Join(f, " "))
}
