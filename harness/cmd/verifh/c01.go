//go:build c01 || allprops

package main

import (
	"bufio"
	"bytes"
	"errors"
	"fmt"
	"io"
	"strconv"
	"strings"
	"sync"
	"time"
	"unicode/utf8"

	"github.com/emersion/go-imap/v2"
	"github.com/emersion/go-imap/v2/internal"
	"github.com/emersion/go-imap/v2/internal/imapwire"
)

// C01 — wire encoder/decoder round trip. Every case drives the real imapwire.Encoder of one
// side (over a bufio.Writer into a recording sink that grants continuation requests once the
// literal header has been flushed) and the real imapwire.Decoder of the peer side over the bytes
// produced. A case line is: kind, the inputs, then what the implementation did:
//   enc   = hex of the bytes written | E (encoder reported an error) | H (blocked) | P (panic)
//   waits = offsets at which the encoder had flushed and was waiting for a continuation request
//   dec   = ok|value|returned-error-class|dec.Err()-class|unread-bytes|literal-hook-calls

func init() {
	props["C01"] = genC01
	replayers["C01"] = replayC01
}

// ---- configuration ----

type c01Cfg struct {
	side    imapwire.ConnSide
	q, m, p bool
}

func c01ParseCfg(s string) c01Cfg {
	c := c01Cfg{side: imapwire.ConnSideClient}
	if s[0] == 's' {
		c.side = imapwire.ConnSideServer
	}
	c.q, c.m, c.p = s[1] == '1', s[2] == '1', s[3] == '1'
	return c
}

func (c c01Cfg) String() string {
	s := "c"
	if c.side == imapwire.ConnSideServer {
		s = "s"
	}
	return s + b01(c.q) + b01(c.m) + b01(c.p)
}

func (c c01Cfg) peer() imapwire.ConnSide {
	if c.side == imapwire.ConnSideClient {
		return imapwire.ConnSideServer
	}
	return imapwire.ConnSideClient
}

var c01AllCfgs = func() []c01Cfg {
	var out []c01Cfg
	for _, side := range []imapwire.ConnSide{imapwire.ConnSideClient, imapwire.ConnSideServer} {
		for i := 0; i < 8; i++ {
			out = append(out, c01Cfg{side, i&4 != 0, i&2 != 0, i&1 != 0})
		}
	}
	return out
}()

// ---- encoder side ----

// c01Sink is what the encoder's bufio.Writer flushes into. A continuation request created by the
// encoder is granted at the first flush that follows its creation (the literal header).
type c01Sink struct {
	buf     []byte
	pending *imapwire.ContinuationRequest
	waits   []int
}

func (s *c01Sink) Write(p []byte) (int, error) {
	s.buf = append(s.buf, p...)
	if s.pending != nil {
		c := s.pending
		s.pending = nil
		s.waits = append(s.waits, len(s.buf))
		c.Done("")
	}
	return len(p), nil
}

var c01WriterPool = sync.Pool{New: func() interface{} { return bufio.NewWriterSize(io.Discard, 1<<17) }}

// c01Encode runs body on a fresh real encoder, then the raw trailer and CRLF (which flushes and
// reports the encoder's deferred error).
func c01Encode(cfg c01Cfg, body func(enc *imapwire.Encoder), trailer []byte) (encS, waitS string, wire []byte) {
	sink := &c01Sink{}
	bw := c01WriterPool.Get().(*bufio.Writer)
	bw.Reset(sink)
	enc := imapwire.NewEncoder(bw, cfg.side)
	enc.QuotedUTF8, enc.LiteralMinus, enc.LiteralPlus = cfg.q, cfg.m, cfg.p
	enc.NewContinuationRequest = func() *imapwire.ContinuationRequest {
		c := imapwire.NewContinuationRequest()
		sink.pending = c
		return c
	}
	done := make(chan string, 1)
	go func() {
		defer func() {
			if r := recover(); r != nil {
				done <- "P"
			}
		}()
		body(enc)
		if len(trailer) > 0 {
			enc.Text(string(trailer))
		}
		if err := enc.CRLF(); err != nil {
			done <- "E"
			return
		}
		done <- "ok"
	}()
	var st string
	select {
	case st = <-done:
	case <-time.After(20 * time.Second):
		return "H", "-", nil
	}
	bw.Reset(io.Discard)
	c01WriterPool.Put(bw)
	if st != "ok" {
		return st, "-", nil
	}
	ws := "-"
	if len(sink.waits) > 0 {
		parts := make([]string, len(sink.waits))
		for i, w := range sink.waits {
			parts[i] = strconv.Itoa(w)
		}
		ws = strings.Join(parts, ",")
	}
	return hx(sink.buf), ws, sink.buf
}

// ---- decoder side ----

func c01ErrClass(err error) string {
	if err == nil {
		return "-"
	}
	var ee *imapwire.DecoderExpectError
	if errors.As(err, &ee) {
		return "expect"
	}
	if errors.Is(err, io.ErrUnexpectedEOF) {
		return "eof"
	}
	return "other"
}

type c01Val struct {
	kind  byte // 's', 'n', 'l'
	s     string
	n     int64
	items []*c01Val
}

func (v *c01Val) render(sb *strings.Builder) {
	switch v.kind {
	case 's':
		sb.WriteString("s" + hx([]byte(v.s)))
	case 'n':
		sb.WriteString("n" + strconv.FormatInt(v.n, 10))
	default:
		sb.WriteString("(")
		for _, it := range v.items {
			sb.WriteString(" ")
			it.render(sb)
		}
		sb.WriteString(" )")
	}
}

func (v *c01Val) String() string {
	var sb strings.Builder
	v.render(&sb)
	return sb.String()
}

func c01ParseVal(toks []string) (*c01Val, []string) {
	t := toks[0]
	switch {
	case t == "(":
		v := &c01Val{kind: 'l'}
		rest := toks[1:]
		for rest[0] != ")" {
			var it *c01Val
			it, rest = c01ParseVal(rest)
			v.items = append(v.items, it)
		}
		return v, rest[1:]
	case t[0] == 's':
		return &c01Val{kind: 's', s: string(unhx(t[1:]))}, toks[1:]
	default:
		n, _ := strconv.ParseInt(t[1:], 10, 64)
		return &c01Val{kind: 'n', n: n}, toks[1:]
	}
}

func c01Chain(depth int, leaf string) *c01Val {
	var v *c01Val
	switch leaf {
	case "e":
		v = &c01Val{kind: 'l'}
		depth--
	case "n":
		v = &c01Val{kind: 'n', n: 7}
	default:
		v = &c01Val{kind: 's', s: "x"}
	}
	for i := 0; i < depth; i++ {
		v = &c01Val{kind: 'l', items: []*c01Val{v}}
	}
	return v
}

func c01EncVal(enc *imapwire.Encoder, v *c01Val, style string) {
	switch v.kind {
	case 's':
		enc.String(v.s)
	case 'n':
		enc.Number64(v.n)
	default:
		if style == "L" {
			enc.List(len(v.items), func(i int) { c01EncVal(enc, v.items[i], style) })
		} else {
			le := enc.BeginList()
			for _, it := range v.items {
				le.Item()
				c01EncVal(enc, it, style)
			}
			le.End()
		}
	}
}

func c01OrExpect(err error) error {
	if err == nil {
		return &imapwire.DecoderExpectError{Message: "value"}
	}
	return err
}

// c01ReadValue reads a generic value with the decoder's primitives, in the order of
// Decoder.DiscardValue: String, else List (recursively), else ExpectNumber64.
func c01ReadValue(dec *imapwire.Decoder) (*c01Val, error) {
	var s string
	if dec.String(&s) {
		return &c01Val{kind: 's', s: s}, nil
	}
	v := &c01Val{kind: 'l'}
	isList, err := dec.List(func() error {
		it, err := c01ReadValue(dec)
		if err != nil {
			return err
		}
		v.items = append(v.items, it)
		return nil
	})
	if err != nil {
		return nil, c01OrExpect(err)
	} else if isList {
		return v, nil
	}
	var n int64
	if !dec.ExpectNumber64(&n) {
		return nil, c01OrExpect(dec.Err())
	}
	return &c01Val{kind: 'n', n: n}, nil
}

func c01HexList(xs []string) string {
	if len(xs) == 0 {
		return "none"
	}
	out := make([]string, len(xs))
	for i, x := range xs {
		out[i] = hx([]byte(x))
	}
	return strings.Join(out, ",")
}

func c01NumSetStr(ns imap.NumSet) string {
	if ns == nil {
		return "nil"
	}
	if imap.IsSearchRes(ns) {
		return "$"
	}
	var parts []string
	switch s := ns.(type) {
	case imap.SeqSet:
		for _, r := range s {
			parts = append(parts, fmt.Sprintf("%d-%d", r.Start, r.Stop))
		}
	case imap.UIDSet:
		for _, r := range s {
			parts = append(parts, fmt.Sprintf("%d-%d", r.Start, r.Stop))
		}
	}
	if len(parts) == 0 {
		return "empty"
	}
	return strings.Join(parts, ",")
}

// c01Decode runs one reader of the real decoder over wire and renders what it did.
func c01Decode(side imapwire.ConnSide, wire []byte, reader string) (res string) {
	rd := bytes.NewReader(wire)
	br := bufio.NewReader(rd)
	dec := imapwire.NewDecoder(br, side)
	var lits []string
	dec.CheckBufferedLiteralFunc = func(size int64, nonSync bool) error {
		lits = append(lits, fmt.Sprintf("%d:%s", size, b01(nonSync)))
		return nil
	}
	defer func() {
		if r := recover(); r != nil {
			res = "panic"
		}
	}()
	var ok bool
	var val string
	var rerr error
	switch reader {
	case "astring":
		var s string
		ok = dec.ExpectAString(&s)
		val = hx([]byte(s))
	case "string":
		var s string
		ok = dec.ExpectString(&s)
		val = hx([]byte(s))
	case "mailbox":
		var s string
		ok = dec.ExpectMailbox(&s)
		val = hx([]byte(s))
	case "flag":
		f, err := internal.ExpectFlag(dec)
		ok, rerr, val = err == nil, err, hx([]byte(f))
	case "attr":
		f, err := internal.ExpectMailboxAttr(dec)
		ok, rerr, val = err == nil, err, hx([]byte(f))
	case "flags":
		fs, err := internal.ExpectFlagList(dec)
		var xs []string
		for _, f := range fs {
			xs = append(xs, string(f))
		}
		ok, rerr, val = err == nil, err, c01HexList(xs)
	case "attrs":
		fs, err := internal.ExpectMailboxAttrList(dec)
		var xs []string
		for _, f := range fs {
			xs = append(xs, string(f))
		}
		ok, rerr, val = err == nil, err, c01HexList(xs)
	case "n32":
		var v uint32
		ok = dec.ExpectNumber(&v)
		val = strconv.FormatUint(uint64(v), 10)
	case "n64":
		var v int64
		ok = dec.ExpectNumber64(&v)
		val = strconv.FormatInt(v, 10)
	case "ms":
		var v uint64
		ok = dec.ExpectModSeq(&v)
		val = strconv.FormatUint(v, 10)
	case "seq":
		var ns imap.NumSet
		ok = dec.ExpectNumSet(imapwire.NumKindSeq, &ns)
		val = c01NumSetStr(ns)
	case "uid":
		var us imap.UIDSet
		ok = dec.ExpectUIDSet(&us)
		val = c01NumSetStr(us)
	case "value":
		v, err := c01ReadValue(dec)
		ok, rerr = err == nil, err
		if v != nil {
			val = v.String()
		}
	case "discard":
		ok = dec.DiscardValue()
		val = "-"
	default:
		panic("c01: unknown reader " + reader)
	}
	if !ok {
		val = "-"
	}
	left := br.Buffered() + rd.Len()
	ls := "-"
	if len(lits) > 0 {
		ls = strings.Join(lits, ",")
	}
	return fmt.Sprintf("%s|%s|%s|%s|%d|%s", b01(ok), val, c01ErrClass(rerr), c01ErrClass(dec.Err()), left, ls)
}

// ---- one case ----

func c01ParseRanges(s string) [][2]uint32 {
	var out [][2]uint32
	if s == "" || s == "empty" || s == "emptycap" || s == "nil" || s == "$" {
		return nil
	}
	for _, it := range strings.Split(s, ",") {
		ab := strings.Split(it, "-")
		a, _ := strconv.ParseUint(ab[0], 10, 32)
		b, _ := strconv.ParseUint(ab[1], 10, 32)
		out = append(out, [2]uint32{uint32(a), uint32(b)})
	}
	return out
}

func c01MakeNumSet(kind, s string) imap.NumSet {
	rs := c01ParseRanges(s)
	if kind == "seq" {
		if s == "nil" {
			return imap.SeqSet(nil)
		}
		if s == "emptycap" { // empty with spare capacity: a reset scratch set
			return make(imap.SeqSet, 0, 4)
		}
		out := imap.SeqSet{}
		for _, r := range rs {
			out = append(out, imap.SeqRange{Start: r[0], Stop: r[1]})
		}
		return out
	}
	if s == "$" {
		return imap.SearchRes()
	}
	if s == "nil" {
		return imap.UIDSet(nil)
	}
	if s == "emptycap" {
		return make(imap.UIDSet, 0, 4)
	}
	out := imap.UIDSet{}
	for _, r := range rs {
		out = append(out, imap.UIDRange{Start: imap.UID(r[0]), Stop: imap.UID(r[1])})
	}
	return out
}

// number of input fields per kind (what a replay re-executes)
var c01NIn = map[string]int{"str": 4, "mbox": 3, "flag": 4, "flags": 4, "num": 4, "nset": 4, "val": 4, "chain": 5, "raw": 3}

// c01Run executes one case on the real code: inputs -> observation fields.
func c01Run(kind string, in []string) []string {
	if kind == "raw" {
		side := imapwire.ConnSideClient
		if in[0] == "s" {
			side = imapwire.ConnSideServer
		}
		return []string{c01Decode(side, unhx(in[2]), in[1])}
	}
	cfg := c01ParseCfg(in[0])
	trailer := unhx(in[len(in)-1])
	var body func(enc *imapwire.Encoder)
	readers := []string{}
	var pre []string
	switch kind {
	case "str":
		s := string(unhx(in[2]))
		body = func(enc *imapwire.Encoder) { enc.String(s) }
		readers = []string{map[string]string{"a": "astring", "s": "string"}[in[1]]}
	case "mbox":
		s := string(unhx(in[1]))
		pre = []string{b01(utf8.ValidString(s))}
		body = func(enc *imapwire.Encoder) { enc.Mailbox(s) }
		readers = []string{"mailbox"}
	case "flag":
		s := string(unhx(in[2]))
		if in[1] == "f" {
			body = func(enc *imapwire.Encoder) { enc.Flag(imap.Flag(s)) }
			readers = []string{"flag"}
		} else {
			body = func(enc *imapwire.Encoder) { enc.MailboxAttr(imap.MailboxAttr(s)) }
			readers = []string{"attr"}
		}
	case "flags":
		var fs []string
		if in[2] != "none" {
			for _, h := range strings.Split(in[2], ",") {
				fs = append(fs, string(unhx(h)))
			}
		}
		if in[1] == "f" {
			body = func(enc *imapwire.Encoder) {
				enc.List(len(fs), func(i int) { enc.Flag(imap.Flag(fs[i])) })
			}
			readers = []string{"flags"}
		} else {
			body = func(enc *imapwire.Encoder) {
				enc.List(len(fs), func(i int) { enc.MailboxAttr(imap.MailboxAttr(fs[i])) })
			}
			readers = []string{"attrs"}
		}
	case "num":
		switch in[1] {
		case "n32":
			v, _ := strconv.ParseUint(in[2], 10, 32)
			body = func(enc *imapwire.Encoder) { enc.Number(uint32(v)) }
		case "n64":
			v, _ := strconv.ParseInt(in[2], 10, 64)
			body = func(enc *imapwire.Encoder) { enc.Number64(v) }
		default:
			v, _ := strconv.ParseUint(in[2], 10, 64)
			body = func(enc *imapwire.Encoder) { enc.ModSeq(v) }
		}
		readers = []string{in[1]}
	case "nset":
		ns := c01MakeNumSet(in[1], in[2])
		body = func(enc *imapwire.Encoder) { enc.NumSet(ns) }
		readers = []string{in[1]}
	case "val":
		v, _ := c01ParseVal(strings.Split(in[2], " "))
		style := in[1]
		body = func(enc *imapwire.Encoder) { c01EncVal(enc, v, style) }
		readers = []string{"value", "discard"}
	case "chain":
		d, _ := strconv.Atoi(in[2])
		v := c01Chain(d, in[3])
		style := in[1]
		body = func(enc *imapwire.Encoder) { c01EncVal(enc, v, style) }
		readers = []string{"value", "discard"}
	default:
		panic("c01: unknown kind " + kind)
	}
	encS, waitS, wire := c01Encode(cfg, body, trailer)
	out := append(pre, encS, waitS)
	for _, rd := range readers {
		if wire == nil {
			out = append(out, "-")
		} else {
			out = append(out, c01Decode(cfg.peer(), wire, rd))
		}
	}
	return out
}

func c01Case(kind string, in ...string) caseLine {
	return caseLine{kind: kind, fields: append(append([]string(nil), in...), c01Run(kind, in)...)}
}

func replayC01(e *emitter, kind string, f []string) {
	n, ok := c01NIn[kind]
	if !ok || len(f) < n {
		fmt.Fprintln(e.w, "# C01: cannot replay", kind)
		return
	}
	l := c01Case(kind, f[:n]...)
	e.emit(l.kind, l.fields...)
}

// ---- generators ----

var c01Specials = []byte{0, '\r', '\n', '"', '\\', 0x7f, 0x80, 0xff, 0xc3, 0xa9, '{', '}', ' ', '(', ')', '%', '*', ']', '&', '-', '+'}

func c01RandBytes(r *rng, n int) []byte {
	b := make([]byte, n)
	mode := r.intn(4)
	for i := range b {
		switch {
		case mode == 0: // printable ASCII only
			b[i] = byte(32 + r.intn(95))
		case mode == 1 && r.chance(1, 4), mode >= 2 && r.chance(1, 2):
			b[i] = pick(r, c01Specials)
		case mode == 3 && r.chance(1, 3):
			b[i] = byte(r.intn(256))
		default:
			b[i] = byte('a' + r.intn(26))
		}
	}
	return b
}

var c01Runes = []rune{'a', 'b', 'Z', '0', ' ', '/', '.', '&', '-', '"', '\\', '~', 0, '\r', '\n', 0x7f, 0xe9, 0x131, 0x130, 0x212a, 0x3b1, 0x65e5, 0xffff, 0xfffd, 0x1f600, 0x10ffff, '{', '%', '*', '+', ','}

func c01RandUTF8(r *rng, n int) string {
	var sb strings.Builder
	for i := 0; i < n; i++ {
		if r.chance(1, 2) {
			sb.WriteByte(byte('a' + r.intn(26)))
		} else {
			sb.WriteRune(pick(r, c01Runes))
		}
	}
	return sb.String()
}

var c01StrTrailers = []string{"", " x", ")", ") y", "abc", "\"", "{5}", "\\", " "}
var c01SepTrailers = []string{"", " x", ")", ") y"}

func c01CaseMix(r *rng, s string) string {
	b := []byte(s)
	switch r.intn(4) {
	case 0:
		return strings.ToUpper(s)
	case 1:
		return strings.ToLower(s)
	case 2:
		for i := range b {
			if r.chance(1, 2) {
				if 'a' <= b[i] && b[i] <= 'z' {
					b[i] -= 32
				} else if 'A' <= b[i] && b[i] <= 'Z' {
					b[i] += 32
				}
			}
		}
		return string(b)
	}
	return s
}

var c01KnownFlags = []string{`\Seen`, `\Answered`, `\Flagged`, `\Deleted`, `\Draft`, `$Forwarded`, `$MDNSent`, `$Junk`, `$NotJunk`, `$Phishing`, `$Important`, `\Recent`}
var c01KnownAttrs = []string{`\NonExistent`, `\Noinferiors`, `\Noselect`, `\HasChildren`, `\HasNoChildren`, `\Marked`, `\Unmarked`, `\Subscribed`, `\Remote`, `\All`, `\Archive`, `\Drafts`, `\Flagged`, `\Junk`, `\Sent`, `\Trash`, `\Important`}
var c01OddFlags = []string{`\`, `\*`, `\\x`, `a\b`, ``, `*`, `\*x`, `\ `, `a b`, `a(b`, `a)b`, `a{b`, `a%b`, `a*b`, `a"b`, `a]b`, "a\x00b", "a\x7fb", "a\x1fb",
	"\xe9", "caf\xc3\xa9", "$Jun\xe2\x84\xaa", "\\\xe9", "a\x80", "a\x9f", "a\xa0", "NIL", "nil", `\NIL`, "$", "a}b", "a+b", "a&b", "a[b", "a~", `\\`, `x\`, "a\rb", "a\nb", `\Seen\`, `seen`, `Junk`, `\$Junk`}

func c01RandFlag(r *rng, attr bool) string {
	switch r.intn(8) {
	case 0, 1:
		return c01CaseMix(r, pick(r, c01KnownFlags))
	case 2, 3:
		return c01CaseMix(r, pick(r, c01KnownAttrs))
	case 4:
		return pick(r, c01OddFlags)
	case 5: // random 7-bit string, often an atom
		n := 1 + r.intn(6)
		b := make([]byte, n)
		for i := range b {
			if r.chance(1, 8) {
				b[i] = byte(r.intn(128))
			} else {
				b[i] = byte(33 + r.intn(94))
			}
		}
		return string(b)
	case 6: // "\" atom
		n := 1 + r.intn(6)
		b := make([]byte, n)
		for i := range b {
			b[i] = "abcXYZ019$-_.:/!#'"[r.intn(18)]
		}
		return `\` + string(b)
	}
	n := 1 + r.intn(8)
	b := make([]byte, n)
	for i := range b {
		b[i] = "abcdefXYZ019$-_.:/!#'"[r.intn(21)]
	}
	return string(b)
}

// c01Lookalike replaces one letter of s by a Unicode character that looks like it or folds to it.
func c01Lookalike(r *rng, s string) string {
	var idx []int
	for i := 0; i < len(s); i++ {
		if c := s[i] | 0x20; 'a' <= c && c <= 'z' {
			idx = append(idx, i)
		}
	}
	if len(idx) == 0 {
		return s + "\u017f"
	}
	// prefer a letter that has a fold-alike
	i := pick(r, idx)
	for try := 0; try < 4; try++ {
		if c := s[i] | 0x20; c == 's' || c == 'k' || c == 'i' {
			break
		}
		i = pick(r, idx)
	}
	var rep rune
	switch c := s[i] | 0x20; {
	case c == 's' && r.chance(3, 4):
		rep = pick(r, []rune{0x17f, 0x17f, 0x1e9e, 0xdf})
	case c == 'k' && r.chance(3, 4):
		rep = 0x212a
	case c == 'i' && r.chance(3, 4):
		rep = pick(r, []rune{0x130, 0x131})
	default:
		if s[i] >= 'a' {
			rep = 0xff41 + rune(s[i]-'a') // fullwidth small
		} else {
			rep = 0xff21 + rune(s[i]-'A')
		}
	}
	return s[:i] + string(rep) + s[i+1:]
}

func c01RandTree(r *rng, depth int) *c01Val {
	k := r.intn(10)
	if depth <= 0 && k >= 6 {
		k = r.intn(6)
	}
	switch {
	case k < 3:
		n := pick(r, []int{0, 1, 2, 3, 5, 8})
		return &c01Val{kind: 's', s: string(c01RandBytes(r, n))}
	case k < 6:
		v := pick(r, []int64{0, 1, 7, 42, 4294967295, 4294967296, 9223372036854775807})
		if r.chance(1, 40) {
			v = pick(r, []int64{-1, -5, -9223372036854775808})
		}
		return &c01Val{kind: 'n', n: v}
	}
	v := &c01Val{kind: 'l'}
	n := pick(r, []int{0, 1, 1, 2, 2, 3, 4})
	for i := 0; i < n; i++ {
		v.items = append(v.items, c01RandTree(r, depth-1))
	}
	return v
}

func c01RandRanges(r *rng) string {
	bound := []uint32{0, 1, 2, 3, 5, 9, 10, 100, 2147483648, 4294967294, 4294967295}
	num := func() uint32 {
		if r.chance(1, 3) {
			return pick(r, bound)
		}
		return uint32(1 + r.intn(30))
	}
	if r.chance(1, 5) { // raw, possibly non-canonical ranges
		n := 1 + r.intn(3)
		var parts []string
		for i := 0; i < n; i++ {
			parts = append(parts, fmt.Sprintf("%d-%d", num(), num()))
		}
		return strings.Join(parts, ",")
	}
	var s imap.SeqSet
	n := 1 + r.intn(5)
	for i := 0; i < n; i++ {
		if r.chance(1, 2) {
			s.AddNum(num())
		} else {
			s.AddRange(num(), num())
		}
	}
	return c01NumSetStr(s)
}

var c01Readers = []string{"astring", "string", "mailbox", "flag", "attr", "flags", "attrs", "n32", "n64", "ms", "seq", "uid", "value", "discard"}
var c01WireAlphabet = []byte(`(){} "\*%]+$,:0123456789abNILinbox&-` + "\r\n\x00\x7f\xe9")

func genC01(e *emitter, tier string, seed uint64) {
	scale, big := 5, 2
	switch tier {
	case "thorough":
		scale, big = 200, 40
	case "widen":
		scale, big = 30, 8
	}
	base := newRng(seed, "C01")
	var jobs []func(r *rng) []caseLine
	add := func(n int, f func(r *rng) []caseLine) {
		for i := 0; i < n; i++ {
			jobs = append(jobs, f)
		}
	}
	one := func(l caseLine, counts ...string) []caseLine {
		l.counts = counts
		return []caseLine{l}
	}
	fixed := func(kind string, in ...string) {
		jobs = append(jobs, func(*rng) []caseLine { return one(c01Case(kind, in...), "corpus") })
	}

	// corpus: the defects found on the unchanged tree, and the literal thresholds
	for _, cfg := range []string{"c000", "s000"} {
		fixed("flag", cfg, "f", hx([]byte(`\`)), "-")
		fixed("flag", cfg, "a", hx([]byte(`\`)), "-")
		fixed("flags", cfg, "f", hx([]byte(`\Seen`))+","+hx([]byte(`\`)), "-")
		fixed("num", cfg, "n64", "-5", "-")
		fixed("num", cfg, "n64", "-9223372036854775808", "-")
		fixed("val", cfg, "L", "( n1 n-5 )", "-")
	}

	// decoder-side canonicalisations on input the go-imap encoder itself never produces
	for _, w := range []string{"inbox\r\n", "\"iNbOx\"\r\n", "{5}\r\nInbox\r\n", "{5+}\r\ninboX\r\n", "INBOX)", "\"in\\box\" "} {
		fixed("raw", "s", "mailbox", hx([]byte(w)))
		fixed("raw", "c", "mailbox", hx([]byte(w)))
	}
	for _, w := range []string{"\\seen ", "$JUNK)", "\\FLAGGED\r\n", "$mdnsent x", "\\* ", "\\noselect)", "\\HASNOCHILDREN ", "\\junk\r\n"} {
		fixed("raw", "s", "flag", hx([]byte(w)))
		fixed("raw", "c", "attr", hx([]byte(w)))
		fixed("raw", "c", "flags", hx([]byte("("+w+")\r\n")))
	}

	// strings: every length 0..20 and the thresholds, all 16 configurations
	lens := []int{0, 1, 2, 3, 4, 5, 6, 7, 8, 9, 10, 11, 12, 13, 14, 15, 16, 17, 18, 19, 20}
	for _, cfg := range c01AllCfgs {
		cfg := cfg
		for _, n := range lens {
			n := n
			add(6*scale, func(r *rng) []caseLine {
				s := c01RandBytes(r, n)
				if r.chance(1, 4) {
					s = []byte(c01RandUTF8(r, (n+1)/2))
				}
				rd := pick(r, []string{"a", "s"})
				return one(c01Case("str", cfg.String(), rd, hx(s), hx([]byte(pick(r, c01StrTrailers)))), "str:short", "cfg:"+cfg.String())
			})
		}
		for _, n := range []int{4095, 4096, 4097, 8192} {
			n := n
			add(big, func(r *rng) []caseLine {
				s := bytes.Repeat([]byte{byte('a' + r.intn(26))}, n)
				switch r.intn(4) {
				case 0: // plain: the length alone decides
				case 1:
					s[r.intn(n)] = pick(r, c01Specials)
				case 2:
					for i := 0; i < 5; i++ {
						s[r.intn(n)] = pick(r, []byte{'"', '\\'})
					}
				case 3:
					copy(s[r.intn(n-1):], "\xc3\xa9")
				}
				rd := pick(r, []string{"a", "s"})
				return one(c01Case("str", cfg.String(), rd, hx(s), hx([]byte(pick(r, c01StrTrailers)))), fmt.Sprintf("str:len=%d", n), "cfg:"+cfg.String())
			})
		}
	}

	// mailbox names
	inboxes := []string{"INBOX", "inbox", "Inbox", "iNbOx", "INBOX ", "INBOXX", "INBO", "ınbox", "İNBOX", "INBOX/sub", "inbox.", "&", "&-", "", "a&b", "R&D", "&AOk-", "\"q\"", `b\s`, "café", "日本語", "\U0001f600", "a\x00b", "tab\there", "a\r\nb", "~peter/mail/台北/日本語"}
	add(500*scale, func(r *rng) []caseLine {
		cfg := pick(r, c01AllCfgs)
		var s string
		cnt := "mbox:random"
		switch r.intn(10) {
		case 0, 1, 2:
			s = pick(r, inboxes)
			cnt = "mbox:table"
		case 3:
			s = c01CaseMix(r, "INBOX")
			cnt = "mbox:inbox-case"
		case 4:
			s = string(c01RandBytes(r, r.intn(8))) // often invalid UTF-8
			cnt = "mbox:bytes"
		case 5:
			// beyond the 128-byte chunks of transform.String: '&' and non-ASCII near the chunk boundaries
			var sb strings.Builder
			for sb.Len() < 100+r.intn(300) {
				switch r.intn(3) {
				case 0:
					sb.WriteString(strings.Repeat("a", 1+r.intn(130)))
				case 1:
					sb.WriteString(c01RandUTF8(r, 1+r.intn(5)))
				default:
					sb.WriteString("&")
				}
			}
			s = sb.String()
			cnt = "mbox:multi-chunk"
		default:
			s = c01RandUTF8(r, r.intn(12))
		}
		if !utf8.ValidString(s) {
			cnt = "skipped:mbox-invalid-utf8"
		}
		return one(c01Case("mbox", cfg.String(), hx([]byte(s)), hx([]byte(pick(r, c01SepTrailers)))), cnt)
	})
	for _, cfg := range c01AllCfgs {
		cfg := cfg
		for _, n := range []int{4095, 4096, 4097} { // around the quoted/literal threshold after encoding
			n := n
			add(1, func(r *rng) []caseLine {
				s := strings.Repeat("m", n)
				if r.chance(1, 2) {
					s = strings.Repeat("m", n-6) + "é" // encodes to n-6+6 bytes ("&AOk-")
				}
				return one(c01Case("mbox", cfg.String(), hx([]byte(s)), "-"), "mbox:long")
			})
		}
	}

	// flags and mailbox attributes, single and as lists
	add(700*scale, func(r *rng) []caseLine {
		cfg := pick(r, c01AllCfgs)
		which := pick(r, []string{"f", "a"})
		f := c01RandFlag(r, which == "a")
		cnt := "flag:" + which
		if !utf8.ValidString(f) || strings.IndexFunc(f, func(c rune) bool { return c >= 0x80 }) >= 0 {
			cnt = "skipped:flag-8bit"
		}
		return one(c01Case("flag", cfg.String(), which, hx([]byte(f)), hx([]byte(pick(r, c01SepTrailers)))), cnt)
	})
	for _, which := range []string{"f", "a"} {
		which := which
		for _, f := range append(append(append([]string{}, c01KnownFlags...), c01KnownAttrs...), c01OddFlags...) {
			f := f
			add(1, func(r *rng) []caseLine {
				cfg := pick(r, c01AllCfgs)
				return one(c01Case("flag", cfg.String(), which, hx([]byte(f)), hx([]byte(pick(r, c01SepTrailers)))), "flag:table")
			})
			add(1, func(r *rng) []caseLine {
				cfg := pick(r, c01AllCfgs)
				return one(c01Case("flag", cfg.String(), which, hx([]byte(c01CaseMix(r, f))), hx([]byte(pick(r, c01SepTrailers)))), "flag:table-casemix")
			})
		}
	}
	add(400*scale, func(r *rng) []caseLine {
		cfg := pick(r, c01AllCfgs)
		which := pick(r, []string{"f", "a"})
		n := r.intn(5)
		var hs []string
		for i := 0; i < n; i++ {
			var f string
			if r.chance(1, 12) {
				f = pick(r, c01OddFlags)
			} else if which == "a" {
				f = c01CaseMix(r, pick(r, c01KnownAttrs))
			} else if r.chance(1, 8) {
				f = `\*`
			} else {
				f = c01RandFlag(r, false)
				if r.chance(3, 4) {
					f = c01CaseMix(r, pick(r, c01KnownFlags))
				}
			}
			hs = append(hs, hx([]byte(f)))
		}
		l := "none"
		if n > 0 {
			l = strings.Join(hs, ",")
		}
		return one(c01Case("flags", cfg.String(), which, l, hx([]byte(pick(r, c01SepTrailers)))), fmt.Sprintf("flags:n=%d", n))
	})

	// numbers
	n32s := []uint64{0, 1, 9, 10, 2147483648, 4294967295}
	n64s := []int64{0, 1, 2147483648, 4294967295, 4294967296, 9223372036854775807, -1, -5, -9223372036854775808}
	mss := []uint64{0, 1, 4294967296, 9223372036854775807, 9223372036854775808, 18446744073709551615}
	add(300*scale, func(r *rng) []caseLine {
		cfg := pick(r, c01AllCfgs)
		tr := hx([]byte(pick(r, c01SepTrailers)))
		switch r.intn(3) {
		case 0:
			v := pick(r, n32s)
			if r.chance(1, 2) {
				v = r.next() >> uint(32+r.intn(32))
			}
			return one(c01Case("num", cfg.String(), "n32", strconv.FormatUint(v, 10), tr), "num:n32")
		case 1:
			v := pick(r, n64s)
			if r.chance(1, 2) {
				v = int64(r.next()) >> uint(r.intn(64))
			}
			return one(c01Case("num", cfg.String(), "n64", strconv.FormatInt(v, 10), tr), "num:n64")
		}
		v := pick(r, mss)
		if r.chance(1, 2) {
			v = r.next() >> uint(r.intn(64))
		}
		return one(c01Case("num", cfg.String(), "ms", strconv.FormatUint(v, 10), tr), "num:ms")
	})

	// number sets
	add(500*scale, func(r *rng) []caseLine {
		cfg := pick(r, c01AllCfgs)
		kind := pick(r, []string{"seq", "uid"})
		tr := hx([]byte(pick(r, c01SepTrailers)))
		switch r.intn(12) {
		case 0:
			return one(c01Case("nset", cfg.String(), kind, pick(r, []string{"empty", "nil", "emptycap"}), tr), "nset:empty")
		case 1:
			return one(c01Case("nset", cfg.String(), "uid", "$", tr), "nset:searchres")
		}
		return one(c01Case("nset", cfg.String(), kind, c01RandRanges(r), tr), "nset:ranges")
	})

	// nested lists
	add(500*scale, func(r *rng) []caseLine {
		cfg := pick(r, c01AllCfgs)
		v := c01RandTree(r, 1+r.intn(6))
		return one(c01Case("val", cfg.String(), pick(r, []string{"L", "B"}), v.String(), hx([]byte(pick(r, c01SepTrailers)))), "val:tree")
	})
	for _, d := range []int{1, 2, 998, 999, 1000, 1001} {
		for _, leaf := range []string{"e", "n", "s"} {
			for _, cfgS := range []string{"c000", "s000", "c011"} {
				for _, style := range []string{"L", "B"} {
					d, leaf, cfgS, style := d, leaf, cfgS, style
					add(1, func(r *rng) []caseLine {
						return one(c01Case("chain", cfgS, style, strconv.Itoa(d), leaf, "-"), fmt.Sprintf("chain:%d", d))
					})
				}
			}
		}
	}

	// 8-bit flags and attributes: a well-known name with one letter replaced by a Unicode look-alike
	// or fold-alike (long s, Kelvin sign, dotted/dotless i, fullwidth letters), and random 8-bit
	// keywords. The model does not cover them; the oracle demands that they come back identical up
	// to ASCII case.
	add(160*scale, func(r *rng) []caseLine {
		cfg := pick(r, c01AllCfgs)
		which := pick(r, []string{"f", "a"})
		var f string
		cnt := "flag8:lookalike"
		if r.chance(3, 4) {
			base := pick(r, c01KnownFlags)
			if which == "a" || r.chance(1, 4) {
				base = pick(r, c01KnownAttrs)
			}
			if r.chance(1, 3) {
				base = c01CaseMix(r, base)
			}
			f = c01Lookalike(r, base)
		} else {
			cnt = "flag8:random"
			n := 1 + r.intn(5)
			var sb strings.Builder
			if r.chance(1, 2) {
				sb.WriteString(pick(r, []string{`\`, "$", ""}))
			}
			for i := 0; i < n; i++ {
				switch r.intn(3) {
				case 0:
					sb.WriteByte(byte('a' + r.intn(26)))
				case 1:
					sb.WriteByte(byte(0xa0 + r.intn(0x60)))
				default:
					sb.WriteRune(pick(r, []rune{0x17f, 0x212a, 0x130, 0x131, 0xe9, 0xc9, 0xff33, 0xff53, 0x3b1, 0x391, 0x1e9e, 0xdf}))
				}
			}
			f = sb.String()
		}
		if r.chance(1, 4) {
			hs := []string{hx([]byte(f)), hx([]byte(c01Lookalike(r, pick(r, c01KnownFlags))))}
			return one(c01Case("flags", cfg.String(), which, strings.Join(hs, ","), hx([]byte(pick(r, c01SepTrailers)))), cnt+"-list")
		}
		return one(c01Case("flag", cfg.String(), which, hx([]byte(f)), hx([]byte(pick(r, c01SepTrailers)))), cnt)
	})

	// decoder-side mailbox names the go-imap encoder never produces: atom / quoted / literal forms of
	// names with control characters, DEL, 8-bit bytes, well- and ill-formed '&' sequences
	add(300*scale, func(r *rng) []caseLine {
		side := pick(r, []string{"c", "s"})
		var name []byte
		switch r.intn(6) {
		case 0:
			name = []byte(pick(r, []string{"a\x01b", "\x7f", "tab\there", "x\x1f", "a\x7fb", "bell\x07", "\x1b[0m", "a\x08", "plain", "INBOX", "inbox", "iNbOx", "&", "&-", "a&b", "&AOk-", "&AOk", "&AGE-", "&-&-", "&AOkA6Q-", "&AOk-&AOk-", "caf\xc3\xa9", "\xff", "a b", "~", "a/b.c", "&2D3eAA-", "&2D0-", "&AAA-"}))
		case 1, 2: // printable with a few control characters
			n := 1 + r.intn(8)
			name = make([]byte, n)
			for i := range name {
				if r.chance(1, 4) {
					name[i] = pick(r, []byte{1, 2, 7, 8, 9, 11, 12, 14, 27, 31, 127})
				} else {
					name[i] = byte('a' + r.intn(26))
				}
			}
		case 3: // around '&'
			n := 1 + r.intn(8)
			name = make([]byte, n)
			for i := range name {
				name[i] = pick(r, []byte("&-AOkQ,+/ab0="))
			}
		case 4:
			name = []byte(c01RandUTF8(r, 1+r.intn(5)))
		default:
			name = c01RandBytes(r, 1+r.intn(6))
		}
		var w []byte
		form := "quoted"
		switch r.intn(4) {
		case 0:
			form = "atom"
			w = append(w, name...)
		case 1:
			form = "literal"
			w = append(w, fmt.Sprintf("{%d}\r\n", len(name))...)
			w = append(w, name...)
		case 2:
			if side == "s" {
				form = "literal+"
				w = append(w, fmt.Sprintf("{%d+}\r\n", len(name))...)
				w = append(w, name...)
				break
			}
			fallthrough
		default:
			w = append(w, '"')
			for _, ch := range name {
				if ch == '"' || ch == '\\' {
					w = append(w, '\\')
				}
				w = append(w, ch)
			}
			w = append(w, '"')
		}
		w = append(w, pick(r, []string{"\r\n", " x\r\n", ")\r\n"})...)
		return one(c01Case("raw", side, "mailbox", hx(w)), "rawmbox:"+form)
	})

	// decoder-only cases (tie of the decoder model off the encoder's image): mutated encoder output
	// and short strings over the wire alphabet, every reader, both sides
	add(1500*scale, func(r *rng) []caseLine {
		side := pick(r, []string{"c", "s"})
		reader := pick(r, c01Readers)
		var w []byte
		if r.chance(1, 2) {
			n := r.intn(10)
			w = make([]byte, n)
			for i := range w {
				w[i] = pick(r, c01WireAlphabet)
			}
		} else {
			cfg := pick(r, c01AllCfgs)
			var body func(enc *imapwire.Encoder)
			switch r.intn(5) {
			case 0:
				s := string(c01RandBytes(r, r.intn(8)))
				body = func(enc *imapwire.Encoder) { enc.String(s) }
			case 1:
				v := c01RandTree(r, 3)
				body = func(enc *imapwire.Encoder) { c01EncVal(enc, v, "L") }
			case 2:
				f := c01RandFlag(r, false)
				body = func(enc *imapwire.Encoder) { enc.List(2, func(int) { enc.Flag(imap.Flag(f)) }) }
			case 3:
				ns := c01MakeNumSet("seq", c01RandRanges(r))
				body = func(enc *imapwire.Encoder) { enc.NumSet(ns) }
			default:
				s := c01RandUTF8(r, r.intn(6))
				body = func(enc *imapwire.Encoder) { enc.Mailbox(s) }
			}
			_, _, w = c01Encode(cfg, body, []byte(pick(r, c01SepTrailers)))
			if len(w) > 0 {
				switch r.intn(4) {
				case 0:
					w = w[:r.intn(len(w))]
				case 1:
					w[r.intn(len(w))] = pick(r, c01WireAlphabet)
				case 2:
					i := r.intn(len(w))
					w = append(w[:i:i], w[i+1:]...)
				}
			}
		}
		return one(c01Case("raw", side, reader, hx(w)), "raw:"+reader)
	})

	seeds := make([]uint64, len(jobs))
	for i := range seeds {
		seeds[i] = base.next()
	}
	parCases(e, len(jobs), func(i int) []caseLine {
		return jobs[i](&rng{s: seeds[i]})
	})
}
