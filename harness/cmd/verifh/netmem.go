package main

import (
	"io"
	"net"
	"os"
	"sync"
	"time"
)

// In-memory buffered duplex connections and a listener handing them to Server.Serve.
// Buffered: both ends may write first without blocking (net.Pipe would deadlock the harness).

type memHalf struct {
	mu       sync.Mutex
	cond     *sync.Cond
	buf      []byte
	closed   bool  // writer closed: reader gets EOF after draining
	rerr     error // injected read error (delivered after draining)
	deadline time.Time
	limit    int // if >0: reader blocks/EOFs after this many total bytes (fault injection)
	waiting  int // readers currently blocked in Read on an empty buffer (see awaitPeerIdle)
	expired  bool // virtual clock: the armed read deadline has been declared expired (C10)
}

func newHalf() *memHalf {
	h := &memHalf{}
	h.cond = sync.NewCond(&h.mu)
	return h
}

type memConn struct {
	r, w      *memHalf
	name      string
	closeOnce sync.Once
	onWrite   func(p []byte) // observer of bytes written by this end
	werr      error          // injected write error
	wmu       sync.Mutex
}

type memAddr string

func (a memAddr) Network() string { return "mem" }
func (a memAddr) String() string  { return string(a) }

// errMemWriteClosed is what Write returns once either end has closed the pipe. Like the error of a
// TCP or TLS connection (and unlike net.Pipe's io.ErrClosedPipe) it wraps net.ErrClosed.
var errMemWriteClosed error = &net.OpError{Op: "write", Net: "mem", Err: net.ErrClosed}

func memPipe() (*memConn, *memConn) {
	a, b := newHalf(), newHalf()
	return &memConn{r: a, w: b, name: "client"}, &memConn{r: b, w: a, name: "server"}
}

func (c *memConn) Read(p []byte) (int, error) {
	h := c.r
	h.mu.Lock()
	defer h.mu.Unlock()
	for len(h.buf) == 0 {
		if h.rerr != nil {
			return 0, h.rerr
		}
		if h.closed {
			return 0, io.EOF
		}
		if h.expired {
			return 0, os.ErrDeadlineExceeded
		}
		if !h.deadline.IsZero() {
			d := time.Until(h.deadline)
			if d <= 0 {
				return 0, os.ErrDeadlineExceeded
			}
			t := time.AfterFunc(d, func() { h.mu.Lock(); h.cond.Broadcast(); h.mu.Unlock() })
			h.waiting++
			h.cond.Broadcast()
			h.cond.Wait()
			h.waiting--
			t.Stop()
			continue
		}
		h.waiting++
		h.cond.Broadcast()
		h.cond.Wait()
		h.waiting--
	}
	n := copy(p, h.buf)
	h.buf = h.buf[n:]
	return n, nil
}

func (c *memConn) Write(p []byte) (int, error) {
	c.wmu.Lock()
	werr := c.werr
	c.wmu.Unlock()
	if werr != nil {
		return 0, werr
	}
	h := c.w
	h.mu.Lock()
	defer h.mu.Unlock()
	if h.closed {
		return 0, errMemWriteClosed
	}
	if c.onWrite != nil {
		c.onWrite(p)
	}
	h.buf = append(h.buf, p...)
	h.cond.Broadcast()
	return len(p), nil
}

// Close closes both directions: the peer reads EOF after draining, local reads fail.
func (c *memConn) Close() error {
	c.closeOnce.Do(func() {
		c.w.mu.Lock()
		c.w.closed = true
		c.w.cond.Broadcast()
		c.w.mu.Unlock()
		c.r.mu.Lock()
		c.r.closed = true
		c.r.buf = nil
		c.r.cond.Broadcast()
		c.r.mu.Unlock()
	})
	return nil
}

// failRead makes the next Read on this end (after buffered data is drained) return err.
func (c *memConn) failRead(err error) {
	c.r.mu.Lock()
	c.r.rerr = err
	c.r.cond.Broadcast()
	c.r.mu.Unlock()
}

func (c *memConn) failWrite(err error) {
	c.wmu.Lock()
	c.werr = err
	c.wmu.Unlock()
}

// readQuiescent reports whether everything delivered to this end has been consumed and a reader
// is blocked waiting for more (virtual-time fault injection waits for this instead of sleeping).
func (c *memConn) readQuiescent() bool {
	c.r.mu.Lock()
	defer c.r.mu.Unlock()
	return len(c.r.buf) == 0 && c.r.waiting > 0
}

// fireReadDeadline makes the read deadline armed on this end expire now (virtual clock). It
// returns false, and does nothing, when no deadline is armed. A later SetReadDeadline re-arms.
func (c *memConn) fireReadDeadline() bool {
	c.r.mu.Lock()
	defer c.r.mu.Unlock()
	if c.r.deadline.IsZero() {
		return false
	}
	c.r.expired = true
	c.r.cond.Broadcast()
	return true
}

func (c *memConn) LocalAddr() net.Addr  { return memAddr(c.name) }
func (c *memConn) RemoteAddr() net.Addr { return memAddr("peer-of-" + c.name) }
func (c *memConn) SetDeadline(t time.Time) error {
	c.SetReadDeadline(t)
	return nil
}
func (c *memConn) SetReadDeadline(t time.Time) error {
	c.r.mu.Lock()
	c.r.deadline = t
	c.r.expired = false
	c.r.cond.Broadcast()
	c.r.mu.Unlock()
	return nil
}
func (c *memConn) SetWriteDeadline(t time.Time) error { return nil }

// memListener feeds connections to Server.Serve.
type memListener struct {
	ch     chan net.Conn
	closed chan struct{}
	once   sync.Once
}

func newMemListener() *memListener {
	return &memListener{ch: make(chan net.Conn, 64), closed: make(chan struct{})}
}

func (l *memListener) Accept() (net.Conn, error) {
	select {
	case c := <-l.ch:
		return c, nil
	case <-l.closed:
		return nil, net.ErrClosed
	}
}
func (l *memListener) Close() error   { l.once.Do(func() { close(l.closed) }); return nil }
func (l *memListener) Addr() net.Addr { return memAddr("listener") }

// dial creates a connection pair and hands the server end to the listener.
func (l *memListener) dial() *memConn {
	c, s := memPipe()
	l.ch <- s
	return c
}

// awaitPeerIdle blocks until the peer of this end has consumed everything written so far and is
// blocked in Read waiting for more ("idle"), or either end was closed ("closed"), or the
// deadline passed ("timeout"). It is a quiescence signal that needs no sleeping: a server whose
// command goroutine is blocked reading an empty pipe has written every response it is going to
// write for the input it has.
func (c *memConn) awaitPeerIdle(d time.Duration) string {
	h := c.w
	deadline := time.Now().Add(d)
	t := time.AfterFunc(d, func() { h.mu.Lock(); h.cond.Broadcast(); h.mu.Unlock() })
	defer t.Stop()
	h.mu.Lock()
	defer h.mu.Unlock()
	for {
		if h.closed {
			return "closed"
		}
		if h.waiting > 0 && len(h.buf) == 0 {
			return "idle"
		}
		if !time.Now().Before(deadline) {
			return "timeout"
		}
		h.cond.Wait()
	}
}

// drain returns (and removes) the bytes the peer has written so far, without blocking; eof tells
// whether the peer closed its side and nothing more will come.
func (c *memConn) drain() (data []byte, eof bool) {
	h := c.r
	h.mu.Lock()
	defer h.mu.Unlock()
	data = h.buf
	h.buf = nil
	return data, h.closed
}
