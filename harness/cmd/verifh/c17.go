//go:build c17 || allprops

package main

import (
	"bytes"
	"crypto/ecdsa"
	"crypto/elliptic"
	"crypto/rand"
	"crypto/tls"
	"crypto/x509"
	"crypto/x509/pkix"
	"encoding/base64"
	"errors"
	"fmt"
	"io"
	"math/big"
	"net"
	"os"
	"runtime/pprof"
	"sort"
	"strconv"
	"strings"
	"sync"
	"time"

	"github.com/emersion/go-imap/v2/imapclient"
	"github.com/emersion/go-imap/v2/imapserver"
)

// C17 — STARTTLS boundary. Server side: a real imapserver.Server with a TLS configuration over a
// segment-exact in-memory connection and a recording session; a raw client sends the STARTTLS line
// followed by an injected plaintext suffix in a prescribed segmentation, then performs (or not) a
// real TLS handshake. Client side: the real imapclient.NewStartTLS against a scripted peer that
// appends plaintext responses to its tagged OK and then performs (or not) a real TLS handshake.
// No observation depends on a sleep: every phase ends on EOF, on a handshake result or on a tagged
// reply; a 90 s watchdog only reports "timeout" (never expected).

func init() {
	props["C17"] = genC17
	replayers["C17"] = replayC17
}

// ---------------------------------------------------------------------------------------------
// segment-exact duplex connection: every Write is one segment, a Read never returns bytes of two
// segments (so the contents of a bufio.Reader at any moment are determined by the segmentation)

type c17Shared struct {
	mu   sync.Mutex
	cond *sync.Cond
}

type c17Half struct {
	segs     [][]byte
	wclosed  bool // the writing end closed (reader: EOF after draining)
	rclosed  bool // the reading end closed (reads fail, writes fail)
	deadline time.Time
	waiting  int // readers blocked on an empty queue
}

type c17Conn struct {
	p    *c17Shared
	r, w *c17Half
	name string
}

func c17Pipe() (*c17Conn, *c17Conn) {
	p := &c17Shared{}
	p.cond = sync.NewCond(&p.mu)
	a, b := &c17Half{}, &c17Half{}
	return &c17Conn{p: p, r: a, w: b, name: "c17-a"}, &c17Conn{p: p, r: b, w: a, name: "c17-b"}
}

func (c *c17Conn) Read(p []byte) (int, error) {
	h := c.r
	c.p.mu.Lock()
	defer c.p.mu.Unlock()
	for len(h.segs) == 0 {
		if h.rclosed {
			return 0, net.ErrClosed
		}
		if h.wclosed {
			return 0, io.EOF
		}
		var t *time.Timer
		if !h.deadline.IsZero() {
			d := time.Until(h.deadline)
			if d <= 0 {
				return 0, os.ErrDeadlineExceeded
			}
			t = time.AfterFunc(d, func() { c.p.mu.Lock(); c.p.cond.Broadcast(); c.p.mu.Unlock() })
		}
		h.waiting++
		c.p.cond.Broadcast()
		c.p.cond.Wait()
		h.waiting--
		if t != nil {
			t.Stop()
		}
	}
	if len(p) == 0 {
		return 0, nil
	}
	n := copy(p, h.segs[0])
	if n == len(h.segs[0]) {
		h.segs = h.segs[1:]
	} else {
		h.segs[0] = h.segs[0][n:]
	}
	return n, nil
}

func (c *c17Conn) Write(p []byte) (int, error) {
	h := c.w
	c.p.mu.Lock()
	defer c.p.mu.Unlock()
	if h.wclosed || h.rclosed {
		return 0, errors.New("c17conn: write on closed connection")
	}
	if len(p) > 0 {
		h.segs = append(h.segs, append([]byte(nil), p...))
		c.p.cond.Broadcast()
	}
	return len(p), nil
}

// CloseWrite ends this end's output; the peer reads EOF after draining, our reads keep working.
func (c *c17Conn) CloseWrite() error {
	c.p.mu.Lock()
	c.w.wclosed = true
	c.p.cond.Broadcast()
	c.p.mu.Unlock()
	return nil
}

func (c *c17Conn) Close() error {
	c.p.mu.Lock()
	c.w.wclosed = true
	c.r.rclosed = true
	c.r.segs = nil
	c.p.cond.Broadcast()
	c.p.mu.Unlock()
	return nil
}

func (c *c17Conn) LocalAddr() net.Addr  { return memAddr(c.name) }
func (c *c17Conn) RemoteAddr() net.Addr { return memAddr("peer-of-" + c.name) }
func (c *c17Conn) SetDeadline(t time.Time) error {
	return c.SetReadDeadline(t)
}
func (c *c17Conn) SetReadDeadline(t time.Time) error {
	c.p.mu.Lock()
	c.r.deadline = t
	c.p.cond.Broadcast()
	c.p.mu.Unlock()
	return nil
}
func (c *c17Conn) SetWriteDeadline(t time.Time) error { return nil }

// onStall calls f once when both ends are blocked reading an empty queue (nothing can ever arrive:
// e.g. an injected record header made one TLS end wait for more bytes than the other will send).
// It is a quiescence signal, not a timer. The returned function stops the watcher.
func (c *c17Conn) onStall(f func()) (stop func()) {
	stopped := false
	done := make(chan struct{})
	go func() {
		defer close(done)
		c.p.mu.Lock()
		defer c.p.mu.Unlock()
		for !stopped {
			a, b := c.r, c.w
			open := !a.wclosed && !a.rclosed && !b.wclosed && !b.rclosed
			if open && len(a.segs) == 0 && a.waiting > 0 && len(b.segs) == 0 && b.waiting > 0 {
				c.p.mu.Unlock()
				f()
				c.p.mu.Lock()
				return
			}
			c.p.cond.Wait()
		}
	}()
	return func() {
		c.p.mu.Lock()
		stopped = true
		c.p.cond.Broadcast()
		c.p.mu.Unlock()
		<-done
	}
}

// c17Reader reads lines from a connection and can hand over to a raw byte stream without losing
// what it buffered (the harness must do itself what it checks the library does).
type c17Reader struct {
	c   net.Conn
	buf []byte
	err error
}

func (r *c17Reader) fill() bool {
	if r.err != nil {
		return false
	}
	p := make([]byte, 8192)
	n, err := r.c.Read(p)
	r.buf = append(r.buf, p[:n]...)
	if err != nil {
		r.err = err
	}
	return n > 0
}

// readLine returns the next line without its LF/CRLF; ok=false at end of stream.
func (r *c17Reader) readLine() (string, bool) {
	for {
		if i := bytes.IndexByte(r.buf, '\n'); i >= 0 {
			l := string(r.buf[:i])
			r.buf = r.buf[i+1:]
			return strings.TrimSuffix(l, "\r"), true
		}
		if !r.fill() {
			if r.err != nil {
				return "", false
			}
		}
	}
}

// rawConn continues on the same connection byte-wise; everything read is appended to *capture.
type c17RawConn struct {
	net.Conn
	pending []byte
	capture *[]byte
	mu      *sync.Mutex
}

func (r *c17Reader) raw(capture *[]byte) *c17RawConn {
	rc := &c17RawConn{Conn: r.c, pending: r.buf, capture: capture, mu: &sync.Mutex{}}
	r.buf = nil
	return rc
}

func (rc *c17RawConn) Read(p []byte) (int, error) {
	var n int
	var err error
	if len(rc.pending) > 0 {
		n = copy(p, rc.pending)
		rc.pending = rc.pending[n:]
	} else {
		n, err = rc.Conn.Read(p)
	}
	rc.mu.Lock()
	*rc.capture = append(*rc.capture, p[:n]...)
	rc.mu.Unlock()
	return n, err
}

func (rc *c17RawConn) drainToEOF() {
	p := make([]byte, 4096)
	for {
		if _, err := rc.Read(p); err != nil {
			return
		}
	}
}

// ---------------------------------------------------------------------------------------------
// TLS material generated at start-up (no files)

var (
	c17TLSOnce sync.Once
	c17SrvTLS  *tls.Config
)

func c17ServerTLS() *tls.Config {
	c17TLSOnce.Do(func() {
		key, err := ecdsa.GenerateKey(elliptic.P256(), rand.Reader)
		if err != nil {
			panic(err)
		}
		tmpl := &x509.Certificate{
			SerialNumber: big.NewInt(17),
			Subject:      pkix.Name{CommonName: "c17.invalid"},
			NotBefore:    time.Now().Add(-time.Hour),
			NotAfter:     time.Now().Add(240 * time.Hour),
			KeyUsage:     x509.KeyUsageDigitalSignature,
			ExtKeyUsage:  []x509.ExtKeyUsage{x509.ExtKeyUsageServerAuth},
			DNSNames:     []string{"c17.invalid"},
		}
		der, err := x509.CreateCertificate(rand.Reader, tmpl, tmpl, &key.PublicKey, key)
		if err != nil {
			panic(err)
		}
		c17SrvTLS = &tls.Config{Certificates: []tls.Certificate{{Certificate: [][]byte{der}, PrivateKey: key}}}
	})
	return c17SrvTLS
}

func c17ClientTLS() *tls.Config {
	return &tls.Config{InsecureSkipVerify: true, ServerName: "c17.invalid"}
}

// ---------------------------------------------------------------------------------------------
// shared rendering

func c17Caps(words []string) string {
	if len(words) == 0 {
		return "-"
	}
	w := append([]string(nil), words...)
	sort.Strings(w)
	return strings.Join(w, ",")
}

// c17Item renders one server response line: R<taghex>:<status>[:caps] | C:caps | B | ?hex
func c17Item(l string) string {
	f := strings.Fields(l)
	capsOf := func(f []string) (string, bool) {
		// f starts after the status word: "[CAPABILITY" a b "c]" text...
		if len(f) == 0 || f[0] != "[CAPABILITY" {
			return "", false
		}
		var caps []string
		for _, w := range f[1:] {
			if strings.HasSuffix(w, "]") {
				caps = append(caps, strings.TrimSuffix(w, "]"))
				return c17Caps(caps), true
			}
			caps = append(caps, w)
		}
		return "", false
	}
	switch {
	case len(f) >= 2 && f[0] == "*" && f[1] == "CAPABILITY":
		return "C:" + c17Caps(f[2:])
	case len(f) >= 2 && f[0] == "*" && f[1] == "BYE":
		return "B"
	case len(f) >= 2 && f[0] != "*" && f[0] != "+" && (f[1] == "OK" || f[1] == "NO" || f[1] == "BAD"):
		s := "R" + hx([]byte(f[0])) + ":" + f[1]
		if c, ok := capsOf(f[2:]); ok {
			s += ":" + c
		}
		return s
	}
	return "?" + hx([]byte(l))
}

func c17Join(items []string, sep string) string {
	if len(items) == 0 {
		return "-"
	}
	return strings.Join(items, sep)
}

func c17Cuts(cuts []int) string {
	var s []string
	for _, c := range cuts {
		s = append(s, strconv.Itoa(c))
	}
	return c17Join(s, ".")
}

func c17ParseCuts(s string) []int {
	if s == "-" || s == "" {
		return nil
	}
	var out []int
	for _, p := range strings.Split(s, ".") {
		n, _ := strconv.Atoi(p)
		out = append(out, n)
	}
	return out
}

// c17Segments cuts data into the given segment lengths (a remainder becomes a last segment).
func c17Segments(data []byte, cuts []int) [][]byte {
	var segs [][]byte
	for _, n := range cuts {
		if n <= 0 {
			continue
		}
		if n > len(data) {
			n = len(data)
		}
		segs = append(segs, data[:n])
		data = data[n:]
	}
	if len(data) > 0 {
		segs = append(segs, data)
	}
	return segs
}

func c17Watchdog(d time.Duration, f func()) bool {
	done := make(chan struct{})
	go func() { defer close(done); f() }()
	select {
	case <-done:
		return true
	case <-time.After(d):
		if os.Getenv("C17_DEBUG") != "" {
			pprof.Lookup("goroutine").WriteTo(os.Stderr, 2)
		}
		return false
	}
}

// ---------------------------------------------------------------------------------------------
// server side

type c17Srv struct {
	insecure, tls, preauth bool
	pre, line, suffix      []byte
	cuts                   []int
	late                   bool
	hs                     bool
	post                   []byte
	sasl                   string
}

func (c c17Srv) inputs() []string {
	return []string{b01(c.insecure) + b01(c.tls) + b01(c.preauth), hx(c.pre), hx(c.line), hx(c.suffix), c17Cuts(c.cuts),
		map[bool]string{false: "e", true: "l"}[c.late], b01(c.hs), hx(c.post), c.sasl}
}

func c17ParseSrv(f []string) c17Srv {
	return c17Srv{insecure: f[0][0] == '1', tls: f[0][1] == '1', preauth: f[0][2] == '1', pre: unhx(f[1]), line: unhx(f[2]),
		suffix: unhx(f[3]), cuts: c17ParseCuts(f[4]), late: f[5] == "l", hs: f[6] == "1", post: unhx(f[7]), sasl: f[8]}
}

func c17RunSrv(c c17Srv) caseLine {
	var (
		mu       sync.Mutex
		tlsFlags []bool
		sess     *recSession
	)
	var tlsCfg *tls.Config
	if c.tls {
		tlsCfg = c17ServerTLS()
	}
	opts := &imapserver.Options{
		NewSession: func(conn *imapserver.Conn) (imapserver.Session, *imapserver.GreetingData, error) {
			s := newRecSession()
			s.conn = conn
			s.onCall = func(s *recSession, name string) {
				_, isTLS := conn.NetConn().(*tls.Conn)
				mu.Lock()
				tlsFlags = append(tlsFlags, isTLS)
				mu.Unlock()
			}
			mu.Lock()
			sess = s
			mu.Unlock()
			return s, &imapserver.GreetingData{PreAuth: c.preauth}, nil
		},
		InsecureAuth: c.insecure,
		TLSConfig:    tlsCfg,
		Logger:       discardLogger{},
	}
	srv := imapserver.New(opts)
	scrambleOptions(opts)
	ln := newMemListener()
	go srv.Serve(ln)
	defer srv.Close()

	cEnd, sEnd := c17Pipe()
	ln.ch <- sEnd

	var (
		greet           = "none"
		trans, ptrans   []string
		after           []byte
		hsres           = "none"
		accepted        bool
		tag             = string(bytes.SplitN(c.line, []byte(" "), 2)[0])
		capMu           sync.Mutex
		afterCapture    []byte
		stream          = append(append(append([]byte(nil), c.pre...), c.line...), c.suffix...)
		boundary        = len(c.pre) + len(c.line)
		rd              = &c17Reader{c: cEnd}
		sawReply, ended bool
	)
	// reads response lines up to the tagged reply of the STARTTLS line (or the end of the stream)
	readToReply := func() {
		for !sawReply && !ended {
			l, ok := rd.readLine()
			if !ok {
				ended = true
				return
			}
			it := c17Item(l)
			trans = append(trans, it)
			if strings.HasPrefix(it, "R"+hx([]byte(tag))+":") {
				sawReply = true
				accepted = strings.HasPrefix(it, "R"+hx([]byte(tag))+":OK")
			}
		}
	}
	finished := c17Watchdog(90*time.Second, func() {
		if l, ok := rd.readLine(); ok {
			f := strings.Fields(l)
			if len(f) >= 2 && f[0] == "*" {
				caps := "-"
				if i := strings.Index(l, "[CAPABILITY "); i >= 0 {
					if j := strings.IndexByte(l[i:], ']'); j >= 0 {
						caps = c17Caps(strings.Fields(l[i+len("[CAPABILITY ") : i+j]))
					}
				}
				greet = f[1] + ":" + caps
			}
		}
		sent := 0
		for _, seg := range c17Segments(stream, c.cuts) {
			if c.late && sent == boundary {
				readToReply()
			}
			cEnd.Write(seg)
			sent += len(seg)
		}
		readToReply()
		if !accepted {
			cEnd.CloseWrite()
			for {
				l, ok := rd.readLine()
				if !ok {
					break
				}
				trans = append(trans, c17Item(l))
			}
			return
		}
		raw := rd.raw(&afterCapture)
		raw.mu = &capMu
		if c.hs {
			tc := tls.Client(raw, c17ClientTLS())
			stop := cEnd.onStall(func() { cEnd.CloseWrite() })
			err := tc.Handshake()
			stop()
			if err != nil {
				hsres = "fail"
				cEnd.CloseWrite()
				raw.drainToEOF()
			} else {
				hsres = "ok"
				tc.Write(c.post)
				tr := &c17Reader{c: tc}
				for {
					l, ok := tr.readLine()
					if !ok {
						break
					}
					ptrans = append(ptrans, c17Item(l))
				}
				cEnd.CloseWrite()
				raw.drainToEOF()
			}
		} else {
			cEnd.CloseWrite()
			raw.drainToEOF()
		}
	})
	end := "eof"
	if !finished {
		end = "timeout"
		cEnd.Close()
	}
	capMu.Lock()
	after = append([]byte(nil), afterCapture...)
	capMu.Unlock()
	cEnd.Close()

	// the session's Close is called before the server closes the connection, so after EOF the log is complete
	var calls []string
	mu.Lock()
	s := sess
	flags := append([]bool(nil), tlsFlags...)
	mu.Unlock()
	if s != nil && finished {
		for i, rc := range s.log() {
			t := "?"
			if i < len(flags) {
				t = b01(flags[i])
			}
			switch rc.name {
			case "Close":
			case "Login":
				a := strings.Split(rc.args, " ")
				calls = append(calls, "L:"+a[0]+":"+a[1]+":"+t)
			case "Delete":
				calls = append(calls, "D:"+rc.args+":"+t)
			case "Poll":
				calls = append(calls, "P:"+t)
			default:
				calls = append(calls, "O:"+rc.name)
			}
		}
	}
	fields := append(c.inputs(), greet, c17Join(trans, ";"), hx(after), hsres, c17Join(ptrans, ";"), c17Join(calls, ";"), end)
	return caseLine{kind: "srv", fields: fields}
}

// ---------------------------------------------------------------------------------------------
// client side

const (
	c17TLSCaps   = "* CAPABILITY IMAP4rev1 XTLS\r\n"
	c17TLSExists = "* 7 EXISTS\r\n"
)

type c17Cli struct {
	greet  string // ok | preauth | bye | none
	early  bool   // the greeting is written on accept, before the STARTTLS command was read (else with the tagged reply)
	dial   bool   // imapclient.DialStartTLS over a loopback TCP connection (else NewStartTLS over the in-memory pipe)
	pre    []byte
	reply  string // OK | NO | BAD
	suffix []byte
	cuts   []int // segmentation of what is written after the STARTTLS command was read
	hs     bool
}

func (c c17Cli) greetField() string {
	if c.early {
		return c.greet + ".e"
	}
	return c.greet
}

func (c c17Cli) kind() string {
	if c.dial {
		return "dial"
	}
	return "cli"
}

func (c c17Cli) inputs() []string {
	return []string{c.greetField(), hx(c.pre), c.reply, hx(c.suffix), c17Cuts(c.cuts), b01(c.hs), hx([]byte(c17TLSCaps + c17TLSExists))}
}

func c17ParseCli(kind string, f []string) c17Cli {
	g := strings.TrimSuffix(f[0], ".e")
	return c17Cli{greet: g, early: g != f[0], dial: kind == "dial", pre: unhx(f[1]), reply: f[2], suffix: unhx(f[3]),
		cuts: c17ParseCuts(f[4]), hs: f[5] == "1"}
}

func c17GreetLine(g string) string {
	switch g {
	case "ok":
		return "* OK hello\r\n"
	case "preauth":
		return "* PREAUTH hello\r\n"
	case "bye":
		return "* BYE hello\r\n"
	}
	return ""
}

// c17PeerConn is what the scripted peer needs: the pipe end or an accepted TCP connection.
type c17PeerConn interface {
	net.Conn
	CloseWrite() error
}

// loopback listeners for DialStartTLS (it dials TCP itself); a case borrows one for its duration
var (
	c17LnOnce  sync.Once
	c17LnPool  chan net.Listener
	c17LnBound int
)

func c17Listeners() chan net.Listener {
	c17LnOnce.Do(func() {
		c17LnPool = make(chan net.Listener, 16)
		for i := 0; i < 16; i++ {
			ln, err := net.Listen("tcp", "127.0.0.1:0")
			if err != nil {
				break
			}
			c17LnPool <- ln
			c17LnBound++
		}
	})
	return c17LnPool
}

func c17CloseListeners() {
	if c17LnPool == nil {
		return
	}
	for {
		select {
		case ln := <-c17LnPool:
			ln.Close()
		default:
			return
		}
	}
}

func c17RunCli(c c17Cli) caseLine {
	var (
		mu        sync.Mutex
		delivered []string
		tag       string
		plainCmds []string
		cafter    []byte
		capMu     sync.Mutex
		tlsCmds   = map[string]bool{}
		peerDone  = make(chan struct{})
		hsDone    = make(chan bool, 1) // the peer's handshake attempt is over (true: completed)
	)
	rec := func(s string) {
		mu.Lock()
		delivered = append(delivered, s)
		mu.Unlock()
	}
	handler := &imapclient.UnilateralDataHandler{
		Expunge: func(n uint32) { rec(fmt.Sprintf("X%d", n)) },
		Mailbox: func(d *imapclient.UnilateralDataMailbox) {
			if d.NumMessages != nil {
				rec(fmt.Sprintf("E%d", *d.NumMessages))
			} else {
				rec("M")
			}
		},
		Fetch: func(m *imapclient.FetchMessageData) { rec(fmt.Sprintf("F%d", m.SeqNum)) },
	}
	options := &imapclient.Options{TLSConfig: c17ClientTLS(), UnilateralDataHandler: handler}

	// peer: the scripted server end
	peer := func(pc c17PeerConn, onStall func(func()) func()) {
		defer close(peerDone)
		defer pc.Close()
		signalled := false
		signal := func(ok bool) {
			if !signalled {
				signalled = true
				hsDone <- ok
			}
		}
		defer signal(false)
		if c.early {
			pc.Write([]byte(c17GreetLine(c.greet)))
		}
		rd := &c17Reader{c: pc}
		var f []string
		for {
			// plaintext commands other than STARTTLS (the client's automatic CAPABILITY after an early
			// greeting) are recorded and left unanswered
			l, ok := rd.readLine()
			if !ok {
				return
			}
			f = strings.Fields(l)
			if len(f) < 2 {
				return
			}
			mu.Lock()
			plainCmds = append(plainCmds, strings.Join(f[1:], " "))
			mu.Unlock()
			if f[1] == "STARTTLS" {
				break
			}
		}
		mu.Lock()
		tag = f[0]
		mu.Unlock()
		g := c17GreetLine(c.greet)
		if c.early {
			g = ""
		}
		stream := []byte(g + string(c.pre) + f[0] + " " + c.reply + " begin\r\n" + string(c.suffix))
		for _, seg := range c17Segments(stream, c.cuts) {
			pc.Write(seg)
		}
		raw := rd.raw(&cafter)
		raw.mu = &capMu
		// from here on a state in which both ends wait for input can only be a TLS-level dead end
		// (or a client that has nothing more to say): end the conversation instead of waiting
		stop := func() {}
		if onStall != nil {
			stop = onStall(func() { pc.CloseWrite() })
		}
		defer func() { stop() }()
		if c.hs && c.reply == "OK" {
			ts := tls.Server(raw, c17ServerTLS())
			if err := ts.Handshake(); err != nil {
				signal(false)
				pc.CloseWrite()
				raw.drainToEOF()
				return
			}
			stop()
			stop = func() {}
			signal(true)
			tr := &c17Reader{c: ts}
			for {
				l, ok := tr.readLine()
				if !ok {
					return
				}
				f := strings.Fields(l)
				if len(f) < 2 {
					return
				}
				mu.Lock()
				tlsCmds[f[1]] = true
				mu.Unlock()
				switch f[1] {
				case "CAPABILITY":
					ts.Write([]byte(c17TLSCaps + f[0] + " OK done\r\n"))
				case "NOOP":
					ts.Write([]byte(c17TLSExists + f[0] + " OK done\r\n"))
				default:
					ts.Write([]byte(f[0] + " BAD unexpected\r\n"))
				}
			}
		}
		// no handshake: whatever the client still writes is captured until it closes, stalls (pipe) or has
		// sent one complete TLS record (its ClientHello, after which it can only wait for an answer)
		p := make([]byte, 4096)
		for {
			capMu.Lock()
			got := cafter
			capMu.Unlock()
			if len(got) >= 5 && got[0] >= 20 && got[0] <= 23 && len(got) >= 5+int(got[3])<<8+int(got[4]) {
				return
			}
			if _, err := raw.Read(p); err != nil {
				return
			}
		}
	}

	var construct func() (*imapclient.Client, error)
	var abort func()
	if c.dial {
		pool := c17Listeners()
		if c17LnBound == 0 {
			return caseLine{kind: "skip"}
		}
		ln := <-pool
		lnBad := false
		defer func() {
			if lnBad {
				ln.Close() // a connection may still be pending on it: never hand it to another case
				if nl, err := net.Listen("tcp", "127.0.0.1:0"); err == nil {
					pool <- nl
				}
			} else {
				pool <- ln
			}
		}()
		var acc net.Conn
		var accMu sync.Mutex
		go func() {
			conn, err := ln.Accept()
			if err != nil {
				close(peerDone)
				hsDone <- false
				return
			}
			conn.SetDeadline(time.Now().Add(80 * time.Second))
			accMu.Lock()
			acc = conn
			accMu.Unlock()
			peer(conn.(*net.TCPConn), nil)
		}()
		addr := ln.Addr().String()
		construct = func() (*imapclient.Client, error) { return imapclient.DialStartTLS(addr, options) }
		abort = func() {
			lnBad = true
			accMu.Lock()
			if acc != nil {
				acc.Close()
			}
			accMu.Unlock()
		}
	} else {
		cEnd, pEnd := c17Pipe()
		go peer(pEnd, pEnd.onStall)
		construct = func() (*imapclient.Client, error) { return imapclient.NewStartTLS(cEnd, options) }
		abort = func() { cEnd.Close(); pEnd.Close() }
	}

	result, capsS, noop, end := "error", "-", "-", "ok"
	finished := c17Watchdog(90*time.Second, func() {
		client, err := construct()
		if err != nil {
			<-peerDone
			return
		}
		result = "client"
		if <-hsDone {
			// both handshakes completed: the connection is usable
			if caps := client.Caps(); caps == nil {
				capsS = "nil"
			} else {
				var w []string
				for k := range caps {
					w = append(w, string(k))
				}
				capsS = c17Caps(w)
			}
			if err := client.Noop().Wait(); err != nil {
				noop = "err"
			} else {
				noop = "ok"
			}
		}
		// Close waits for the reader goroutine, i.e. for everything the client is going to deliver.
		// (A reader stuck on a half-registered command, the repaired C13 defect, would be reported as
		// hang13 and the case judged on what was observed.)
		if !c17Watchdog(30*time.Second, func() { client.Close() }) {
			end = "hang13"
			abort()
		}
		<-peerDone
	})
	if !finished {
		end = "timeout"
		abort()
	}
	mu.Lock()
	defer mu.Unlock()
	capMu.Lock()
	defer capMu.Unlock()
	ca := cafter
	if len(ca) > 64 {
		ca = ca[:64]
	}
	var tc []string
	for k := range tlsCmds {
		tc = append(tc, k)
	}
	sort.Strings(tc)
	tg := tag
	if tg == "" {
		tg = "?"
	}
	fields := append(c.inputs(), hx([]byte(tg)), result, c17Join(delivered, ";"), capsS, noop, c17Join(plainCmds, ","), hx(ca), c17Join(tc, ","), end)
	l := caseLine{kind: c.kind(), fields: fields}
	if end == "hang13" {
		l.counts = append(l.counts, "skipped:c13-close-hang")
	}
	return l
}

// ---------------------------------------------------------------------------------------------
// generators

// every segmentation of n bytes as a bit mask over the n-1 inner cut points
func c17MaskCuts(n int, mask int) []int {
	var cuts []int
	run := 1
	for i := 0; i < n-1; i++ {
		if mask&(1<<i) != 0 {
			cuts = append(cuts, run)
			run = 1
		} else {
			run++
		}
	}
	if n > 0 {
		cuts = append(cuts, run)
	}
	return cuts
}

// c17Glue places the suffix segmentation after a head of headLen bytes sent as one segment;
// joined: the first suffix piece travels in the head's segment.
func c17Glue(headLen int, sfx []int, joined bool) []int {
	if len(sfx) == 0 {
		return []int{headLen}
	}
	if joined {
		return append([]int{headLen + sfx[0]}, sfx[1:]...)
	}
	return append([]int{headLen}, sfx...)
}

func c17RandCuts(r *rng, n int) []int {
	var cuts []int
	for n > 0 {
		k := 1 + r.intn(n)
		if r.chance(1, 2) && n > 3 {
			k = 1 + r.intn(3)
		}
		cuts = append(cuts, k)
		n -= k
	}
	return cuts
}

// c17CutsWithBoundary: random cuts of total bytes that contain a cut at position b.
func c17CutsWithBoundary(r *rng, b, total int) []int {
	return append(c17RandCuts(r, b), c17RandCuts(r, total-b)...)
}

func c17SASL(user, pass string) (tok string, table string) {
	tok = base64.StdEncoding.EncodeToString([]byte("\x00" + user + "\x00" + pass))
	return tok, hx([]byte(tok)) + "=" + hx([]byte(user)) + ":" + hx([]byte(pass))
}

var c17ShortSuffixes = []string{
	"b LOGIN u p\n",     // 12 bytes, complete for the decoder (lone LF is accepted)
	"d DELETE x\r\n",    // 12
	"c NOOP\r\n",        // 8
	"b LOGIN u p",       // 11, never completed
	"e LOGOUT\r\n",      // 10
	"\r\n", "x", "\n\n", // degenerate
	"\x15\x03\x03\x00\x02\x02\x28", // a well-formed TLS alert record
	"\x16\x03\x01",                 // the start of a handshake record header
}

var c17LongSuffixes = []string{
	"b LOGIN u p\r\n",
	"b LOGIN u p\r\nc NOOP\r\nd DELETE x\r\n",
	"b LOGIN inj1 inj2\r\nd DELETE injbox\r\n",
	"c NOOP\r\nc2 CAPABILITY\r\n",
	"d DELETE x\r\ne LOGOUT\r\n",
	"f FOO\r\n",
}

// c17WellFormed: a complete command line of the small command language the model executes in plaintext
func c17WellFormed(b []byte) bool {
	return len(b) > 3 && b[len(b)-1] == '\n' && b[0] >= 'a' && b[0] <= 'z' && b[0] != 'x' && bytes.IndexByte(b, ' ') > 0
}

func c17Garbage(r *rng) []byte {
	n := 1 + r.intn(40)
	b := make([]byte, n)
	for i := range b {
		switch r.intn(4) {
		case 0:
			b[i] = byte(r.intn(256))
		case 1:
			b[i] = "\r\n {}\"\\*+"[r.intn(9)]
		default:
			b[i] = byte('a' + r.intn(26))
		}
	}
	return b
}

func c17SrvLines() []string {
	return []string{"a STARTTLS\r\n", "a STARTTLS\r\n", "a STARTTLS\r\n", "a starttls\r\n", "a1 StartTLS\n", "a STARTTLS x\r\n"}
}

func c17RandSrv(r *rng) (c17Srv, []string) {
	c := c17Srv{insecure: r.chance(1, 2), tls: r.chance(3, 4), preauth: r.chance(1, 5)}
	var counts []string
	tokL, tabL := c17SASL("legitau", "legitpw")
	tokI, tabI := c17SASL("injau", "injpw")
	c.sasl = tabL + "," + tabI
	switch r.intn(6) {
	case 0:
		c.pre = []byte("p1 CAPABILITY\r\n")
	case 1:
		c.pre = []byte("p1 LOGIN legitu legitp\r\n")
	case 2:
		c.pre = []byte("p1 CAPABILITY\r\np2 NOOP\r\np3 AUTHENTICATE PLAIN " + tokL + "\r\np4 CAPABILITY\r\n")
	case 3:
		c.pre = []byte("p1 DELETE legitbox\r\np2 noop\r\n")
	}
	c.line = []byte(pick(r, c17SrvLines()))
	plainOnly := !c.tls || c.preauth || strings.Contains(string(c.line), " x") ||
		(c.insecure && (bytes.Contains(c.pre, []byte("LOGIN")) || bytes.Contains(c.pre, []byte("AUTHENTICATE"))))
	switch k := r.intn(10); {
	case k < 2:
		c.suffix = nil
		counts = append(counts, "suffix:empty")
	case k < 4:
		c.suffix = []byte(pick(r, c17ShortSuffixes))
		if plainOnly && !c17WellFormed(c.suffix) {
			c.suffix = []byte("c NOOP\r\n")
		}
		counts = append(counts, "suffix:short")
	case k < 8 || plainOnly:
		c.suffix = []byte(pick(r, c17LongSuffixes))
		if r.chance(1, 4) {
			c.suffix = []byte("g AUTHENTICATE PLAIN " + tokI + "\r\nd DELETE x\r\n")
		}
		counts = append(counts, "suffix:commands")
	default:
		c.suffix = c17Garbage(r)
		counts = append(counts, "suffix:garbage")
	}
	total := len(c.pre) + len(c.line) + len(c.suffix)
	b := len(c.pre) + len(c.line)
	c.late = r.chance(1, 3)
	switch {
	case c.late:
		c.cuts = c17CutsWithBoundary(r, b, total)
	case r.chance(1, 3):
		c.cuts = []int{total}
	default:
		c.cuts = c17RandCuts(r, total)
	}
	c.hs = r.chance(1, 2)
	switch r.intn(4) {
	case 0:
		c.post = []byte("q CAPABILITY\r\nr LOGIN legitu2 legitp2\r\ns DELETE legitbox2\r\nt STARTTLS\r\nz LOGOUT\r\n")
	case 1:
		c.post = []byte("q CAPABILITY\r\nr AUTHENTICATE PLAIN " + tokL + "\r\nq2 CAPABILITY\r\nz LOGOUT\r\n")
	case 2:
		c.post = []byte("s DELETE legitbox2\r\nq CAPABILITY\r\nz LOGOUT\r\n")
	default:
		c.post = []byte("q CAPABILITY\r\nz LOGOUT\r\n")
	}
	counts = append(counts, "srv-cfg:"+c.inputs()[0], "timing:"+c.inputs()[5], "hs:"+b01(c.hs))
	return c, counts
}

var c17CliShortSuffixes = []string{
	"* 5 EXISTS\r\n", // 12 bytes
	"* 5 EXISTS\n",
	"* 5 EXIST",
	"\r\n", "x",
	"\x15\x03\x03\x00\x02\x02\x28",
}

var c17CliLongSuffixes = []string{
	"x OK smuggled\r\n",
	"T2 OK smuggled\r\n",
	"* CAPABILITY IMAP4rev1 AUTH=PLAIN XINJ\r\n",
	"* 5 EXISTS\r\n* 55 EXISTS\r\nT2 OK smuggled\r\n",
	"* CAPABILITY IMAP4rev1 XINJ\r\nT2 OK done\r\nT3 OK done\r\n",
	"* 5 EXPUNGE\r\n",
	"+ go ahead\r\n",
}

func c17RandCli(r *rng) (c17Cli, []string) {
	c := c17Cli{greet: pick(r, []string{"ok", "ok", "ok", "ok", "preauth", "preauth", "bye", "none"}), reply: "OK"}
	switch r.intn(4) {
	case 0:
		c.pre = []byte("* 3 EXISTS\r\n")
	case 1:
		c.pre = []byte("* CAPABILITY IMAP4rev1 XPRE STARTTLS\r\n* 3 EXISTS\r\n")
	}
	if c.greet == "none" || c.greet == "bye" {
		c.pre = nil
	}
	var counts []string
	if r.chance(1, 8) {
		c.reply = pick(r, []string{"NO", "BAD"})
	}
	if c.reply == "OK" {
		switch k := r.intn(10); {
		case k < 2:
		case k < 4:
			c.suffix = []byte(pick(r, c17CliShortSuffixes))
		case k < 8:
			c.suffix = []byte(pick(r, c17CliLongSuffixes))
		default:
			c.suffix = c17Garbage(r)
		}
	}
	c.hs = r.chance(1, 2)
	c.early = c.greet != "none" && r.chance(1, 3)
	c.dial = r.chance(2, 5)
	if c.dial && len(c.suffix) > 0 && c.suffix[0] >= 20 && c.suffix[0] <= 23 && !bytes.Equal(c.suffix, []byte("\x15\x03\x03\x00\x02\x02\x28")) {
		// over TCP there is no stall detection: keep away from injected record headers that make the
		// client's TLS layer wait for more bytes than will ever come
		c.suffix[0] = 'g'
	}
	total := len(c.pre) + len("T1 "+c.reply+" begin\r\n") + len(c.suffix)
	if !c.early {
		total += len(c17GreetLine(c.greet))
	}
	if r.chance(1, 3) {
		c.cuts = []int{total}
	} else {
		c.cuts = c17RandCuts(r, total)
	}
	counts = append(counts, "cli-greet:"+c.greetField(), "cli-reply:"+c.reply, "hs:"+b01(c.hs), "ctor:"+c.kind())
	if len(c.suffix) == 0 {
		counts = append(counts, "suffix:empty")
	} else {
		counts = append(counts, "suffix:cli")
	}
	return c, counts
}

type c17Job struct {
	srv    *c17Srv
	cli    *c17Cli
	counts []string
}

func genC17(e *emitter, tier string, seed uint64) {
	var jobs []c17Job
	addS := func(c c17Srv, counts ...string) { cc := c; jobs = append(jobs, c17Job{srv: &cc, counts: counts}) }
	addC := func(c c17Cli, counts ...string) { cc := c; jobs = append(jobs, c17Job{cli: &cc, counts: counts}) }
	post := []byte("q CAPABILITY\r\nr LOGIN legitu2 legitp2\r\ns DELETE legitbox2\r\nz LOGOUT\r\n")

	// corpus: the canonical injection in one segment, for every configuration and greeting
	for cfg := 0; cfg < 8; cfg++ {
		for _, hs := range []bool{false, true} {
			addS(c17Srv{insecure: cfg&4 != 0, tls: cfg&2 != 0, preauth: cfg&1 != 0, line: []byte("a STARTTLS\r\n"),
				suffix: []byte("b LOGIN u p\r\nd DELETE x\r\n"), cuts: []int{38}, hs: hs, post: post, sasl: "-"}, "corpus")
			addS(c17Srv{insecure: cfg&4 != 0, tls: cfg&2 != 0, preauth: cfg&1 != 0, pre: []byte("p1 CAPABILITY\r\np2 LOGIN legitu legitp\r\n"),
				line: []byte("a STARTTLS\r\n"), cuts: []int{39 + 12}, hs: hs, post: post, sasl: "-"}, "corpus")
		}
	}
	for _, dial := range []bool{false, true} {
		for _, g := range []string{"ok", "preauth", "bye", "none"} {
			for _, early := range []bool{false, true} {
				if early && g == "none" {
					continue
				}
				for _, hs := range []bool{false, true} {
					for _, sfx := range []string{"", "* 5 EXISTS\r\n", "* CAPABILITY IMAP4rev1 AUTH=PLAIN XINJ\r\nT2 OK smuggled\r\n"} {
						n := len("T1 OK begin\r\n") + len(sfx)
						if !early {
							n += len(c17GreetLine(g))
						}
						addC(c17Cli{greet: g, early: early, dial: dial, reply: "OK", suffix: []byte(sfx), cuts: []int{n}, hs: hs}, "corpus")
					}
				}
			}
		}
	}

	// exhaustive segmentations of the short suffixes
	nShortS, nShortC := len(c17ShortSuffixes), len(c17CliShortSuffixes)
	nRandS, nRandC := 2500, 1500
	switch tier {
	case "thorough":
		nRandS, nRandC = 60000, 30000
	case "widen":
		nRandS, nRandC = 15000, 8000
		nShortS, nShortC = 3, 1
	}
	// quick/widen: every segmentation × every placement/timing mode, the (handshake, InsecureAuth) combination
	// rotating with the segmentation; thorough: the full product
	full := tier == "thorough"
	line := []byte("a STARTTLS\r\n")
	for _, sfx := range c17ShortSuffixes[:nShortS] {
		n := len(sfx)
		for mask := 0; mask < 1<<(n-1); mask++ {
			sc := c17MaskCuts(n, mask)
			for mode := 0; mode < 3; mode++ { // joined-early, split-early, split-late
				for combo := 0; combo < 4; combo++ {
					if !full && combo != (mask^(mask>>3)^(mask>>7)^mode)&3 {
						continue
					}
					addS(c17Srv{insecure: combo&1 != 0, tls: true, line: line, suffix: []byte(sfx), cuts: c17Glue(len(line), sc, mode == 0),
						late: mode == 2, hs: combo&2 != 0, post: post, sasl: "-"}, "exhaustive-split:srv", fmt.Sprintf("suffix-len:%d", n))
				}
			}
		}
	}
	head := len(c17GreetLine("ok")) + len("T1 OK begin\r\n")
	for _, sfx := range c17CliShortSuffixes[:nShortC] {
		n := len(sfx)
		for mask := 0; mask < 1<<(n-1); mask++ {
			sc := c17MaskCuts(n, mask)
			for ji, joined := range []bool{true, false} {
				for hi, hs := range []bool{false, true} {
					if !full && hi != (mask^(mask>>2)^(mask>>5)^ji)&1 {
						continue
					}
					addC(c17Cli{greet: "ok", reply: "OK", suffix: []byte(sfx), cuts: c17Glue(head, sc, joined), hs: hs},
						"exhaustive-split:cli", fmt.Sprintf("suffix-len:%d", n))
				}
			}
		}
	}

	// random: configurations × greetings × suffixes up to 40 bytes × random segmentations of the whole stream
	base := newRng(seed, "C17")
	for i := 0; i < nRandS; i++ {
		c, counts := c17RandSrv(base.fork(i))
		addS(c, append(counts, "random:srv")...)
	}
	for i := 0; i < nRandC; i++ {
		c, counts := c17RandCli(base.fork(1 << 20 + i))
		addC(c, append(counts, "random:cli")...)
	}

	var (
		skipMu  sync.Mutex
		skipped int
	)
	parCases(e, len(jobs), func(i int) []caseLine {
		j := jobs[i]
		var l caseLine
		if j.srv != nil {
			l = c17RunSrv(*j.srv)
		} else {
			l = c17RunCli(*j.cli)
		}
		if l.kind == "skip" {
			skipMu.Lock()
			skipped++
			skipMu.Unlock()
			return nil
		}
		l.counts = append(l.counts, j.counts...)
		return []caseLine{l}
	})
	for i := 0; i < skipped; i++ {
		e.count("skipped:no-loopback-listener")
	}
	c17CloseListeners()
}

func replayC17(e *emitter, kind string, f []string) {
	var l caseLine
	switch kind {
	case "srv":
		l = c17RunSrv(c17ParseSrv(f))
	case "cli", "dial":
		l = c17RunCli(c17ParseCli(kind, f))
		c17CloseListeners()
	default:
		return
	}
	e.emit(l.kind, l.fields...)
}

