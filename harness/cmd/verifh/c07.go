//go:build c07 || allprops

package main

import (
	"fmt"
	"strconv"
	"strings"

	"github.com/emersion/go-imap/v2"
	"github.com/emersion/go-imap/v2/imapserver"
)

// C07 — sequence-number translation. Real MailboxTracker/SessionTracker driven through their
// public API; Poll output is captured on the wire of a real server connection whose session
// delegates Poll to the tracker (NOOP => allowExpunge, FETCH => not).

func init() {
	props["C07"] = genC07
	replayers["C07"] = replayC07
}

type c07Conn struct {
	rc   *rawClient
	sess *trackerSession
	n    int
}

// trackerSession is a recording session whose Poll goes to a SessionTracker.
type trackerSession struct {
	*recSession
	tr *imapserver.SessionTracker
}

func (s *trackerSession) Poll(w *imapserver.UpdateWriter, allowExpunge bool) error {
	s.mu.Lock()
	tr := s.tr
	s.mu.Unlock()
	if tr == nil {
		return nil
	}
	return tr.Poll(w, allowExpunge)
}

type c07Env struct {
	srv   *imapserver.Server
	ln    *memListener
	conns []*c07Conn
	newS  chan *trackerSession
}

func c07NewEnv(nconn int) *c07Env {
	env := &c07Env{ln: newMemListener(), newS: make(chan *trackerSession, 16)}
	env.srv = imapserver.New(&imapserver.Options{
		NewSession: func(c *imapserver.Conn) (imapserver.Session, *imapserver.GreetingData, error) {
			s := &trackerSession{recSession: newRecSession()}
			env.newS <- s
			return s, nil, nil
		},
		InsecureAuth: true,
		Logger:       discardLogger{},
	})
	go env.srv.Serve(env.ln)
	for i := 0; i < nconn; i++ {
		rc := newRawClient(env.ln.dial())
		s := <-env.newS
		rc.readLine()
		rc.cmd("l", "LOGIN u p")
		rc.cmd("s", "SELECT INBOX")
		env.conns = append(env.conns, &c07Conn{rc: rc, sess: s})
	}
	return env
}

// poll issues NOOP (allowExpunge) or FETCH (not) and parses the untagged updates.
func (c *c07Conn) poll(allow bool) string {
	c.n++
	tag := fmt.Sprintf("p%d", c.n)
	text := "NOOP"
	if !allow {
		text = "FETCH 1 FLAGS"
	}
	st, lines := c.rc.cmd(tag, text)
	if st != "OK" {
		return "err:" + st
	}
	var out []string
	for _, l := range lines[:len(lines)-1] {
		f := strings.Fields(l)
		switch {
		case len(f) >= 3 && f[0] == "*" && f[2] == "EXPUNGE":
			out = append(out, "E"+f[1])
		case len(f) >= 3 && f[0] == "*" && f[2] == "EXISTS":
			out = append(out, "X"+f[1])
		case len(f) >= 2 && f[0] == "*" && f[1] == "FLAGS":
			out = append(out, "F")
		case len(f) >= 3 && f[0] == "*" && f[2] == "FETCH":
			out = append(out, "M"+f[1])
		default:
			out = append(out, "?"+l)
		}
	}
	return strings.Join(out, ",")
}

type c07Op struct {
	kind byte
	a    int
	src  int // -1 none
	flag bool
}

func (o c07Op) String() string {
	switch o.kind {
	case 'N', 'C', 'n', 'e':
		return fmt.Sprintf("%c%d", o.kind, o.a)
	case 'm':
		return "m"
	case 'f':
		if o.src < 0 {
			return fmt.Sprintf("f%d:-", o.a)
		}
		return fmt.Sprintf("f%d:%d", o.a, o.src)
	case 'p':
		return fmt.Sprintf("p%d:%s", o.a, b01(o.flag))
	}
	return "?"
}

func c07ParseOps(s string) []c07Op {
	var ops []c07Op
	for _, t := range strings.Split(s, ";") {
		o := c07Op{kind: t[0], src: -1}
		switch o.kind {
		case 'N', 'C', 'n', 'e':
			o.a, _ = strconv.Atoi(t[1:])
		case 'f':
			p := strings.Split(t[1:], ":")
			o.a, _ = strconv.Atoi(p[0])
			if p[1] != "-" {
				o.src, _ = strconv.Atoi(p[1])
			}
		case 'p':
			p := strings.Split(t[1:], ":")
			o.a, _ = strconv.Atoi(p[0])
			o.flag = p[1] == "1"
		}
		ops = append(ops, o)
	}
	return ops
}

// c07Run executes a history; q is the largest number queried.
func c07Run(env *c07Env, n0 int, q int, ops []c07Op) caseLine {
	mt := imapserver.NewMailboxTracker(uint32(n0))
	live := map[int]*imapserver.SessionTracker{}
	var order []int
	defer func() {
		for id, st := range live {
			env.conns[id-1].sess.mu.Lock()
			env.conns[id-1].sess.tr = nil
			env.conns[id-1].sess.mu.Unlock()
			st.Close()
		}
	}()
	var obs, opStrs []string
	for _, o := range ops {
		emitted := ""
		func() {
			defer func() {
				if r := recover(); r != nil {
					emitted = "panic"
				}
			}()
			switch o.kind {
			case 'N':
				st := mt.NewSession()
				live[o.a] = st
				order = append(order, o.a)
				c := env.conns[o.a-1]
				c.sess.mu.Lock()
				c.sess.tr = st
				c.sess.mu.Unlock()
			case 'C':
				st := live[o.a]
				c := env.conns[o.a-1]
				c.sess.mu.Lock()
				c.sess.tr = nil
				c.sess.mu.Unlock()
				st.Close()
				delete(live, o.a)
				for i, id := range order {
					if id == o.a {
						order = append(order[:i], order[i+1:]...)
						break
					}
				}
			case 'n':
				mt.QueueNumMessages(uint32(o.a))
			case 'e':
				mt.QueueExpunge(uint32(o.a))
			case 'm':
				mt.QueueMailboxFlags([]imap.Flag{imap.FlagSeen})
			case 'f':
				var src *imapserver.SessionTracker
				if o.src >= 0 {
					src = live[o.src]
				}
				mt.QueueMessageFlags(uint32(o.a), imap.UID(100+o.a), []imap.Flag{imap.FlagSeen}, src)
			case 'p':
				if _, ok := live[o.a]; ok {
					emitted = env.conns[o.a-1].poll(o.flag)
				}
			}
		}()
		var tabs []string
		if emitted != "panic" {
			for _, id := range order {
				st := live[id]
				var d, en []string
				for x := 0; x <= q; x++ {
					d = append(d, strconv.Itoa(int(st.DecodeSeqNum(uint32(x)))))
					en = append(en, strconv.Itoa(int(st.EncodeSeqNum(uint32(x)))))
				}
				tabs = append(tabs, fmt.Sprintf("%d:d%s:e%s", id, strings.Join(d, "."), strings.Join(en, ".")))
			}
		}
		obs = append(obs, emitted+"|"+strings.Join(tabs, "/"))
		opStrs = append(opStrs, o.String())
		if emitted == "panic" {
			break
		}
	}
	return caseLine{kind: "hist", fields: []string{strconv.Itoa(n0), strconv.Itoa(q), strings.Join(opStrs[:len(obs)], ";"), strings.Join(obs, ";")}}
}

func c07RandHist(r *rng) (n0 int, q int, ops []c07Op) {
	n0 = r.intn(6)
	n := n0
	maxN := n0
	live := map[int]bool{}
	free := []int{1, 2, 3, 4}
	// at least one session early
	length := 3 + r.intn(38)
	for len(ops) < length {
		var liveIDs []int
		for id := 1; id <= 4; id++ {
			if live[id] {
				liveIDs = append(liveIDs, id)
			}
		}
		if len(liveIDs) == 0 && len(free) == 0 {
			break
		}
		k := r.intn(20)
		switch {
		case k < 2 || len(liveIDs) == 0:
			if len(free) > 0 && len(liveIDs) < 4 {
				id := free[0]
				free = free[1:]
				live[id] = true
				ops = append(ops, c07Op{kind: 'N', a: id, src: -1})
			}
		case k == 2:
			if len(liveIDs) > 1 || r.chance(1, 4) {
				id := pick(r, liveIDs)
				live[id] = false
				ops = append(ops, c07Op{kind: 'C', a: id, src: -1})
				// ids are not reused within a history
			}
		case k < 7:
			add := pick(r, []int{1, 1, 1, 2, 3, 7, 0})
			if add == 0 && n == 0 {
				add = 1
			}
			n += add
			if n > maxN {
				maxN = n
			}
			ops = append(ops, c07Op{kind: 'n', a: n, src: -1})
		case k < 12:
			if n > 0 {
				s := 1 + r.intn(n)
				n--
				ops = append(ops, c07Op{kind: 'e', a: s, src: -1})
			}
		case k == 12:
			ops = append(ops, c07Op{kind: 'm', src: -1})
		case k < 15:
			if n > 0 {
				src := -1
				if r.chance(1, 2) {
					src = pick(r, liveIDs)
				}
				ops = append(ops, c07Op{kind: 'f', a: 1 + r.intn(n), src: src})
			}
		default:
			ops = append(ops, c07Op{kind: 'p', a: pick(r, liveIDs), flag: r.chance(1, 2), src: -1})
		}
	}
	return n0, maxN + 2, ops
}

var c07Corpus = []struct {
	n0  int
	ops string
}{
	{2, "N1;n5;p1:0"},
	{42, "N1;n42"},
	{2, "N1;n3;e1;p1:0;p1:1"},
	{3, "N1;N2;e2;f1:1;p2:0;n4;p2:1;p1:1"},
	{0, "N1;n7;e3;e3;p1:0;e1;p1:1"},
	{4, "N1;e4;e3;n5;e1;p1:0"},
}

func genC07(e *emitter, tier string, seed uint64) {
	nHist := 5000
	switch tier {
	case "thorough":
		nHist = 300000
	case "widen":
		nHist = 60000
	}
	envs := make(chan *c07Env, 16)
	for i := 0; i < 16; i++ {
		envs <- c07NewEnv(4)
	}
	for _, c := range c07Corpus {
		env := <-envs
		l := c07Run(env, c.n0, c.n0+9, c07ParseOps(c.ops))
		envs <- env
		e.emit(l.kind, l.fields...)
	}
	base := newRng(seed, "C07")
	seeds := make([]uint64, nHist)
	for i := range seeds {
		seeds[i] = base.next()
	}
	parCases(e, nHist, func(i int) []caseLine {
		r := &rng{s: seeds[i]}
		n0, q, ops := c07RandHist(r)
		env := <-envs
		l := c07Run(env, n0, q, ops)
		envs <- env
		l.counts = []string{fmt.Sprintf("len:%d", len(ops)/10*10)}
		for _, o := range ops {
			l.counts = append(l.counts, "op:"+string(o.kind))
		}
		return []caseLine{l}
	})
}

func replayC07(e *emitter, kind string, f []string) {
	env := c07NewEnv(4)
	n0, _ := strconv.Atoi(f[0])
	q, _ := strconv.Atoi(f[1])
	l := c07Run(env, n0, q, c07ParseOps(f[2]))
	e.emit(l.kind, l.fields...)
}
