package main

import (
	"runtime"
	"sync"
)

// caseLine is a case produced by a parallel worker; emission order is by index, so output is
// deterministic whatever the scheduling.
type caseLine struct {
	kind   string
	fields []string
	counts []string
}

func parCases(e *emitter, n int, f func(i int) []caseLine) {
	workers := runtime.NumCPU()
	if workers > 16 {
		workers = 16
	}
	res := make([][]caseLine, n)
	var wg sync.WaitGroup
	ch := make(chan int, 256)
	for w := 0; w < workers; w++ {
		wg.Add(1)
		go func() {
			defer wg.Done()
			for i := range ch {
				res[i] = f(i)
			}
		}()
	}
	for i := 0; i < n; i++ {
		ch <- i
	}
	close(ch)
	wg.Wait()
	for _, ls := range res {
		for _, l := range ls {
			e.emit(l.kind, l.fields...)
			for _, c := range l.counts {
				e.count(c)
			}
		}
	}
}
