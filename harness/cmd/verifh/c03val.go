//go:build c03 || allprops

package main

import (
	"fmt"
	"sort"
	"strconv"
	"strings"
	"time"

	"github.com/emersion/go-imap/v2"
	"github.com/emersion/go-imap/v2/imapclient"
)

// A val is the structured text form in which C03 case lines carry response data (both what the
// scripted backend supplied and what the client delivered). Grammar, tokens separated by one space:
//
//	V ::= N<dec> | M<dec> (negative) | S<hex> ("S-" empty) | A<name> | _ (absent/nil) | ( V* )
type val struct {
	k    byte // 'N' 'M' 'S' 'A' '_' 'L'
	n    uint64
	s    string
	kids []*val
}

func vN(n uint64) *val { return &val{k: 'N', n: n} }
func vI(i int64) *val {
	if i < 0 {
		return &val{k: 'M', n: uint64(-(i + 1)) + 1}
	}
	return &val{k: 'N', n: uint64(i)}
}
func vB(b bool) *val {
	if b {
		return vN(1)
	}
	return vN(0)
}
func vS(s string) *val         { return &val{k: 'S', s: s} }
func vA(s string) *val         { return &val{k: 'A', s: s} }
func vNil() *val               { return &val{k: '_'} }
func vL(kids ...*val) *val     { return &val{k: 'L', kids: kids} }
func (v *val) isNil() bool     { return v == nil || v.k == '_' }
func (v *val) at(i int) *val   { return v.kids[i] }
func (v *val) str() string     { return v.s }
func (v *val) u32() uint32     { return uint32(v.n) }
func (v *val) boolean() bool   { return v.n != 0 }
func (v *val) add(k *val) *val { v.kids = append(v.kids, k); return v }
func (v *val) i64() int64 {
	if v.k == 'M' {
		return -int64(v.n-1) - 1
	}
	return int64(v.n)
}

func (v *val) write(sb *strings.Builder) {
	switch v.k {
	case 'N', 'M':
		sb.WriteByte(v.k)
		sb.WriteString(strconv.FormatUint(v.n, 10))
	case 'S':
		sb.WriteByte('S')
		sb.WriteString(hx([]byte(v.s)))
	case 'A':
		sb.WriteByte('A')
		sb.WriteString(v.s)
	case '_':
		sb.WriteByte('_')
	case 'L':
		sb.WriteByte('(')
		for _, k := range v.kids {
			sb.WriteByte(' ')
			k.write(sb)
		}
		sb.WriteString(" )")
	}
}

func (v *val) String() string {
	var sb strings.Builder
	v.write(&sb)
	return sb.String()
}

func parseVal(s string) *val {
	toks := strings.Split(s, " ")
	pos := 0
	var rec func() *val
	rec = func() *val {
		t := toks[pos]
		pos++
		switch t[0] {
		case '(':
			v := vL()
			for toks[pos] != ")" {
				v.kids = append(v.kids, rec())
			}
			pos++
			return v
		case 'N', 'M':
			n, err := strconv.ParseUint(t[1:], 10, 64)
			if err != nil {
				panic(err)
			}
			return &val{k: t[0], n: n}
		case 'S':
			return vS(string(unhx(t[1:])))
		case 'A':
			return vA(t[1:])
		case '_':
			return vNil()
		}
		panic("bad val token " + t)
	}
	return rec()
}

// ---- Go values -> val ---------------------------------------------------------------------------

func vStrs(l []string) *val {
	v := vL()
	for _, s := range l {
		v.add(vS(s))
	}
	return v
}

func vOptStrs(l []string) *val {
	if l == nil {
		return vNil()
	}
	return vStrs(l)
}

func vFlags(l []imap.Flag) *val {
	v := vL()
	for _, s := range l {
		v.add(vS(string(s)))
	}
	return v
}

func vInts(l []int) *val {
	v := vL()
	for _, n := range l {
		v.add(vI(int64(n)))
	}
	return v
}

// vTime: _ for the zero time, else ( unix off nanos year month day hour min sec weekday [zone-name] )
func vTime(t time.Time) *val {
	if t.IsZero() {
		return vNil()
	}
	name, off := t.Zone()
	v := vL(vI(t.Unix()), vI(int64(off)), vN(uint64(t.Nanosecond())), vI(int64(t.Year())), vN(uint64(t.Month())), vN(uint64(t.Day())),
		vN(uint64(t.Hour())), vN(uint64(t.Minute())), vN(uint64(t.Second())), vN(uint64(t.Weekday())))
	if name != "" {
		v.add(vS(name)) // the zone's name (abbreviation): a backend may hand over times in named locations
	}
	return v
}

func vAddrs(l []imap.Address) *val {
	if l == nil {
		return vNil()
	}
	v := vL()
	for _, a := range l {
		v.add(vL(vS(a.Name), vS(a.Mailbox), vS(a.Host)))
	}
	return v
}

func vEnvelope(e *imap.Envelope) *val {
	if e == nil {
		return vNil()
	}
	return vL(vTime(e.Date), vS(e.Subject), vAddrs(e.From), vAddrs(e.Sender), vAddrs(e.ReplyTo), vAddrs(e.To), vAddrs(e.Cc), vAddrs(e.Bcc),
		vOptStrs(e.InReplyTo), vS(e.MessageID))
}

func vParams(m map[string]string) *val {
	if m == nil {
		return vNil()
	}
	keys := make([]string, 0, len(m))
	for k := range m {
		keys = append(keys, k)
	}
	sort.Strings(keys)
	v := vL()
	for _, k := range keys {
		v.add(vL(vS(k), vS(m[k])))
	}
	return v
}

func vDisp(d *imap.BodyStructureDisposition) *val {
	if d == nil {
		return vNil()
	}
	return vL(vS(d.Value), vParams(d.Params))
}

func vBody(bs imap.BodyStructure) *val {
	switch b := bs.(type) {
	case *imap.BodyStructureSinglePart:
		if b == nil {
			return vNil()
		}
		msg, text, ext := vNil(), vNil(), vNil()
		if b.MessageRFC822 != nil {
			msg = vL(vEnvelope(b.MessageRFC822.Envelope), vBody(b.MessageRFC822.BodyStructure), vI(b.MessageRFC822.NumLines))
		}
		if b.Text != nil {
			text = vL(vI(b.Text.NumLines))
		}
		if b.Extended != nil {
			ext = vL(vDisp(b.Extended.Disposition), vOptStrs(b.Extended.Language), vS(b.Extended.Location))
		}
		return vL(vA("P"), vS(b.Type), vS(b.Subtype), vParams(b.Params), vS(b.ID), vS(b.Description), vS(b.Encoding), vN(uint64(b.Size)), msg, text, ext)
	case *imap.BodyStructureMultiPart:
		if b == nil {
			return vNil()
		}
		ch := vL()
		for _, c := range b.Children {
			ch.add(vBody(c))
		}
		ext := vNil()
		if b.Extended != nil {
			ext = vL(vParams(b.Extended.Params), vDisp(b.Extended.Disposition), vOptStrs(b.Extended.Language), vS(b.Extended.Location))
		}
		return vL(vA("M"), ch, vS(b.Subtype), ext)
	}
	return vNil()
}

func vPartial(p *imap.SectionPartial) *val {
	if p == nil {
		return vNil()
	}
	return vL(vI(p.Offset), vI(p.Size))
}

func vSection(s *imap.FetchItemBodySection) *val {
	return vL(vS(string(s.Specifier)), vInts(s.Part), vStrs(s.HeaderFields), vStrs(s.HeaderFieldsNot), vPartial(s.Partial), vB(s.Peek))
}

func vBinSection(s *imap.FetchItemBinarySection) *val {
	return vL(vInts(s.Part), vPartial(s.Partial), vB(s.Peek))
}

func vP32(p *uint32) *val {
	if p == nil {
		return vNil()
	}
	return vN(uint64(*p))
}

func vP64(p *int64) *val {
	if p == nil {
		return vNil()
	}
	return vI(*p)
}

func vStatus(d *imap.StatusData) *val {
	if d == nil {
		return vNil()
	}
	return vL(vS(d.Mailbox), vP32(d.NumMessages), vN(uint64(d.UIDNext)), vN(uint64(d.UIDValidity)), vP32(d.NumUnseen), vP32(d.NumDeleted), vP64(d.Size),
		vP32(d.AppendLimit), vP64(d.DeletedStorage))
}

func vStatusOpts(o *imap.StatusOptions) *val {
	if o == nil {
		return vNil()
	}
	return vL(vB(o.NumMessages), vB(o.UIDNext), vB(o.UIDValidity), vB(o.NumUnseen), vB(o.NumDeleted), vB(o.Size), vB(o.AppendLimit), vB(o.DeletedStorage))
}

func vListData(d *imap.ListData) *val {
	if d == nil {
		return vNil()
	}
	attrs := vL()
	for _, a := range d.Attrs {
		attrs.add(vS(string(a)))
	}
	ci := vNil()
	if d.ChildInfo != nil {
		ci = vB(d.ChildInfo.Subscribed)
	}
	return vL(attrs, vI(int64(d.Delim)), vS(d.Mailbox), ci, vS(d.OldName), vStatus(d.Status))
}

func vSelect(d *imap.SelectData) *val {
	return vL(vFlags(d.Flags), vFlags(d.PermanentFlags), vN(uint64(d.NumMessages)), vN(uint64(d.UIDNext)), vN(uint64(d.UIDValidity)), vListData(d.List))
}

func vRanges(s string) *val {
	v := vL()
	if s == "" {
		return v
	}
	for _, it := range strings.Split(s, ",") {
		ab := strings.Split(it, ":")
		conv := func(x string) *val {
			if x == "*" {
				return vN(0)
			}
			n, _ := strconv.ParseUint(x, 10, 64)
			return vN(n)
		}
		if len(ab) == 1 {
			v.add(vL(conv(ab[0]), conv(ab[0])))
		} else {
			v.add(vL(conv(ab[0]), conv(ab[1])))
		}
	}
	return v
}

func vNumSet(ns imap.NumSet) *val {
	switch s := ns.(type) {
	case imap.SeqSet:
		return vL(vA("seq"), vRanges(s.String()))
	case imap.UIDSet:
		return vL(vA("uid"), vRanges(s.String()))
	}
	return vNil()
}

func vSearch(d *imap.SearchData) *val {
	return vL(vNumSet(d.All), vB(d.UID), vN(uint64(d.Min)), vN(uint64(d.Max)), vN(uint64(d.Count)))
}

func vSearchOpts(o *imap.SearchOptions) *val {
	if o == nil {
		return vNil()
	}
	return vL(vB(o.ReturnMin), vB(o.ReturnMax), vB(o.ReturnAll), vB(o.ReturnCount))
}

func vAppend(d *imap.AppendData) *val {
	if d == nil {
		return vNil()
	}
	return vL(vN(uint64(d.UIDValidity)), vN(uint64(d.UID)))
}

func vCopy(d *imap.CopyData) *val {
	if d == nil {
		return vNil()
	}
	return vL(vN(uint64(d.UIDValidity)), vRanges(d.SourceUIDs.String()), vRanges(d.DestUIDs.String()))
}

func vNsList(l []imap.NamespaceDescriptor) *val {
	if l == nil {
		return vNil()
	}
	v := vL()
	for _, d := range l {
		v.add(vL(vS(d.Prefix), vI(int64(d.Delim))))
	}
	return v
}

func vNamespace(d *imap.NamespaceData) *val {
	return vL(vNsList(d.Personal), vNsList(d.Other), vNsList(d.Shared))
}

func vU32s(l []uint32) *val {
	v := vL()
	for _, n := range l {
		v.add(vN(uint64(n)))
	}
	return v
}

// ---- val -> Go values (the single path by which scripts are built, so a replayed line runs
// exactly what the recorded one ran) ---------------------------------------------------------------

func gStrs(v *val) []string {
	if v.isNil() {
		return nil
	}
	l := []string{}
	for _, k := range v.kids {
		l = append(l, k.s)
	}
	return l
}

func gFlags(v *val) []imap.Flag {
	var l []imap.Flag
	for _, k := range v.kids {
		l = append(l, imap.Flag(k.s))
	}
	return l
}

func gInts(v *val) []int {
	var l []int
	for _, k := range v.kids {
		l = append(l, int(k.i64()))
	}
	return l
}

func gTime(v *val) time.Time {
	if v.isNil() {
		return time.Time{}
	}
	off := int(v.at(1).i64())
	name := ""
	if len(v.kids) > 10 {
		name = v.at(10).s
	}
	if name == "UTC" && off == 0 {
		return time.Unix(v.at(0).i64(), int64(v.at(2).n)).UTC()
	}
	return time.Unix(v.at(0).i64(), int64(v.at(2).n)).In(time.FixedZone(name, off))
}

func gAddrs(v *val) []imap.Address {
	if v.isNil() {
		return nil
	}
	l := []imap.Address{}
	for _, k := range v.kids {
		l = append(l, imap.Address{Name: k.at(0).s, Mailbox: k.at(1).s, Host: k.at(2).s})
	}
	return l
}

func gEnvelope(v *val) *imap.Envelope {
	if v.isNil() {
		return nil
	}
	return &imap.Envelope{Date: gTime(v.at(0)), Subject: v.at(1).s, From: gAddrs(v.at(2)), Sender: gAddrs(v.at(3)), ReplyTo: gAddrs(v.at(4)),
		To: gAddrs(v.at(5)), Cc: gAddrs(v.at(6)), Bcc: gAddrs(v.at(7)), InReplyTo: gStrs(v.at(8)), MessageID: v.at(9).s}
}

func gParams(v *val) map[string]string {
	if v.isNil() {
		return nil
	}
	m := map[string]string{}
	for _, k := range v.kids {
		m[k.at(0).s] = k.at(1).s
	}
	return m
}

func gDisp(v *val) *imap.BodyStructureDisposition {
	if v.isNil() {
		return nil
	}
	return &imap.BodyStructureDisposition{Value: v.at(0).s, Params: gParams(v.at(1))}
}

func gBody(v *val) imap.BodyStructure {
	if v.isNil() {
		return nil
	}
	if v.at(0).s == "P" {
		b := &imap.BodyStructureSinglePart{Type: v.at(1).s, Subtype: v.at(2).s, Params: gParams(v.at(3)), ID: v.at(4).s, Description: v.at(5).s,
			Encoding: v.at(6).s, Size: v.at(7).u32()}
		if m := v.at(8); !m.isNil() {
			b.MessageRFC822 = &imap.BodyStructureMessageRFC822{Envelope: gEnvelope(m.at(0)), BodyStructure: gBody(m.at(1)), NumLines: m.at(2).i64()}
		}
		if t := v.at(9); !t.isNil() {
			b.Text = &imap.BodyStructureText{NumLines: t.at(0).i64()}
		}
		if x := v.at(10); !x.isNil() {
			b.Extended = &imap.BodyStructureSinglePartExt{Disposition: gDisp(x.at(0)), Language: gStrs(x.at(1)), Location: x.at(2).s}
		}
		return b
	}
	b := &imap.BodyStructureMultiPart{Subtype: v.at(2).s}
	for _, c := range v.at(1).kids {
		b.Children = append(b.Children, gBody(c))
	}
	if x := v.at(3); !x.isNil() {
		b.Extended = &imap.BodyStructureMultiPartExt{Params: gParams(x.at(0)), Disposition: gDisp(x.at(1)), Language: gStrs(x.at(2)), Location: x.at(3).s}
	}
	return b
}

func gPartial(v *val) *imap.SectionPartial {
	if v.isNil() {
		return nil
	}
	return &imap.SectionPartial{Offset: v.at(0).i64(), Size: v.at(1).i64()}
}

func gSection(v *val) *imap.FetchItemBodySection {
	s := &imap.FetchItemBodySection{Specifier: imap.PartSpecifier(v.at(0).s), Part: gInts(v.at(1)), Partial: gPartial(v.at(4)), Peek: v.at(5).boolean()}
	if len(v.at(2).kids) > 0 {
		s.HeaderFields = gStrs(v.at(2))
	}
	if len(v.at(3).kids) > 0 {
		s.HeaderFieldsNot = gStrs(v.at(3))
	}
	return s
}

func gBinSection(v *val) *imap.FetchItemBinarySection {
	return &imap.FetchItemBinarySection{Part: gInts(v.at(0)), Partial: gPartial(v.at(1)), Peek: v.at(2).boolean()}
}

func gP32(v *val) *uint32 {
	if v.isNil() {
		return nil
	}
	n := v.u32()
	return &n
}

func gP64(v *val) *int64 {
	if v.isNil() {
		return nil
	}
	n := v.i64()
	return &n
}

func gStatus(v *val) *imap.StatusData {
	if v.isNil() {
		return nil
	}
	return &imap.StatusData{Mailbox: v.at(0).s, NumMessages: gP32(v.at(1)), UIDNext: imap.UID(v.at(2).u32()), UIDValidity: v.at(3).u32(),
		NumUnseen: gP32(v.at(4)), NumDeleted: gP32(v.at(5)), Size: gP64(v.at(6)), AppendLimit: gP32(v.at(7)), DeletedStorage: gP64(v.at(8))}
}

func gStatusOpts(v *val) *imap.StatusOptions {
	if v.isNil() {
		return nil
	}
	return &imap.StatusOptions{NumMessages: v.at(0).boolean(), UIDNext: v.at(1).boolean(), UIDValidity: v.at(2).boolean(), NumUnseen: v.at(3).boolean(),
		NumDeleted: v.at(4).boolean(), Size: v.at(5).boolean(), AppendLimit: v.at(6).boolean(), DeletedStorage: v.at(7).boolean()}
}

func gListData(v *val) *imap.ListData {
	if v.isNil() {
		return nil
	}
	d := &imap.ListData{Delim: rune(v.at(1).i64()), Mailbox: v.at(2).s, OldName: v.at(4).s, Status: gStatus(v.at(5))}
	for _, a := range v.at(0).kids {
		d.Attrs = append(d.Attrs, imap.MailboxAttr(a.s))
	}
	if ci := v.at(3); !ci.isNil() {
		d.ChildInfo = &imap.ListDataChildInfo{Subscribed: ci.boolean()}
	}
	return d
}

func gSelect(v *val) *imap.SelectData {
	return &imap.SelectData{Flags: gFlags(v.at(0)), PermanentFlags: gFlags(v.at(1)), NumMessages: v.at(2).u32(), UIDNext: imap.UID(v.at(3).u32()),
		UIDValidity: v.at(4).u32(), List: gListData(v.at(5))}
}

// gRanges builds a set exactly as listed (no normalisation: a backend may hand over any slice)
func gSeqSet(v *val) imap.SeqSet {
	s := imap.SeqSet{}
	for _, r := range v.kids {
		s = append(s, imap.SeqRange{Start: r.at(0).u32(), Stop: r.at(1).u32()})
	}
	return s
}

func gUIDSet(v *val) imap.UIDSet {
	s := imap.UIDSet{}
	for _, r := range v.kids {
		s = append(s, imap.UIDRange{Start: imap.UID(r.at(0).u32()), Stop: imap.UID(r.at(1).u32())})
	}
	return s
}

func gNumSet(v *val) imap.NumSet {
	if v.isNil() {
		return nil
	}
	if v.at(0).s == "uid" {
		return gUIDSet(v.at(1))
	}
	return gSeqSet(v.at(1))
}

func gSearch(v *val) *imap.SearchData {
	return &imap.SearchData{All: gNumSet(v.at(0)), UID: v.at(1).boolean(), Min: v.at(2).u32(), Max: v.at(3).u32(), Count: v.at(4).u32()}
}

func gSearchOpts(v *val) *imap.SearchOptions {
	if v.isNil() {
		return nil
	}
	return &imap.SearchOptions{ReturnMin: v.at(0).boolean(), ReturnMax: v.at(1).boolean(), ReturnAll: v.at(2).boolean(), ReturnCount: v.at(3).boolean()}
}

func gAppend(v *val) *imap.AppendData {
	if v.isNil() {
		return nil
	}
	return &imap.AppendData{UIDValidity: v.at(0).u32(), UID: imap.UID(v.at(1).u32())}
}

func gCopy(v *val) *imap.CopyData {
	if v.isNil() {
		return nil
	}
	return &imap.CopyData{UIDValidity: v.at(0).u32(), SourceUIDs: gUIDSet(v.at(1)), DestUIDs: gUIDSet(v.at(2))}
}

func gNsList(v *val) []imap.NamespaceDescriptor {
	if v.isNil() {
		return nil
	}
	l := []imap.NamespaceDescriptor{}
	for _, k := range v.kids {
		l = append(l, imap.NamespaceDescriptor{Prefix: k.at(0).s, Delim: rune(k.at(1).i64())})
	}
	return l
}

func gNamespace(v *val) *imap.NamespaceData {
	return &imap.NamespaceData{Personal: gNsList(v.at(0)), Other: gNsList(v.at(1)), Shared: gNsList(v.at(2))}
}

func gU32s(v *val) []uint32 {
	var l []uint32
	for _, k := range v.kids {
		l = append(l, k.u32())
	}
	return l
}

// gFetchItem: ( Akind payload... )
func gFetchItem(v *val) respItem {
	it := respItem{kind: v.at(0).s}
	switch it.kind {
	case "uid":
		it.uid = imap.UID(v.at(1).u32())
	case "flags":
		it.fl = gFlags(v.at(1))
	case "date":
		it.t = gTime(v.at(1))
	case "size":
		it.n64 = v.at(1).i64()
	case "env":
		it.env = gEnvelope(v.at(1))
	case "bs":
		it.bs = gBody(v.at(2))
	case "sec":
		it.sec = gSection(v.at(1))
		it.data = []byte(v.at(2).s)
	case "bin":
		it.bin = gBinSection(v.at(1))
		it.data = []byte(v.at(2).s)
	case "binsize":
		it.part = gInts(v.at(1))
		it.n32 = v.at(2).u32()
	default:
		panic("c03: unknown fetch item " + it.kind)
	}
	return it
}

// vFetchItem renders an item the client delivered.
func vFetchItem(item imapclient.FetchItemData, lit []byte) *val {
	switch it := item.(type) {
	case imapclient.FetchItemDataUID:
		return vL(vA("uid"), vN(uint64(it.UID)))
	case imapclient.FetchItemDataFlags:
		return vL(vA("flags"), vFlags(it.Flags))
	case imapclient.FetchItemDataInternalDate:
		return vL(vA("date"), vTime(it.Time))
	case imapclient.FetchItemDataRFC822Size:
		return vL(vA("size"), vI(it.Size))
	case imapclient.FetchItemDataEnvelope:
		return vL(vA("env"), vEnvelope(it.Envelope))
	case imapclient.FetchItemDataBodyStructure:
		return vL(vA("bs"), vB(it.IsExtended), vBody(it.BodyStructure))
	case imapclient.FetchItemDataBodySection:
		return vL(vA("sec"), vSection(it.Section), vS(string(lit)))
	case imapclient.FetchItemDataBinarySection:
		return vL(vA("bin"), vBinSection(it.Section), vS(string(lit)))
	case imapclient.FetchItemDataBinarySectionSize:
		return vL(vA("binsize"), vInts(it.Part), vN(uint64(it.Size)))
	case imapclient.FetchItemDataModSeq:
		return vL(vA("modseq"), vN(it.ModSeq))
	}
	return vL(vA(fmt.Sprintf("unknown-%T", item)))
}
