package main

import (
	"crypto/ecdsa"
	"crypto/elliptic"
	"crypto/rand"
	"crypto/tls"
	"crypto/x509"
	"crypto/x509/pkix"
	"math/big"
	"net"
	"sync"
	"time"
)

// TLS over the in-memory pipes: a self-signed certificate generated at start-up (no files), a
// listener wrapper that hands Server.Serve *tls.Conn connections (which is what Conn.canAuth and
// Conn.canStartTLS inspect), and the matching client configuration.

var (
	memTLSOnce   sync.Once
	memTLSServer *tls.Config
	memTLSClient *tls.Config
)

func memTLSServerConfig() *tls.Config {
	memTLSOnce.Do(func() {
		key, err := ecdsa.GenerateKey(elliptic.P256(), rand.Reader)
		if err != nil {
			panic(err)
		}
		tmpl := &x509.Certificate{
			SerialNumber: big.NewInt(1),
			Subject:      pkix.Name{CommonName: "verif.invalid"},
			NotBefore:    time.Now().Add(-time.Hour),
			NotAfter:     time.Now().Add(240 * time.Hour),
			KeyUsage:     x509.KeyUsageDigitalSignature,
			ExtKeyUsage:  []x509.ExtKeyUsage{x509.ExtKeyUsageServerAuth},
			DNSNames:     []string{"verif.invalid"},
		}
		der, err := x509.CreateCertificate(rand.Reader, tmpl, tmpl, &key.PublicKey, key)
		if err != nil {
			panic(err)
		}
		// TLS 1.2 with session tickets: after the first connection the handshakes are abbreviated
		// (no public-key operations), which keeps thousands of fresh TLS connections per run cheap
		memTLSServer = &tls.Config{Certificates: []tls.Certificate{{Certificate: [][]byte{der}, PrivateKey: key}},
			MaxVersion: tls.VersionTLS12}
		memTLSClient = &tls.Config{InsecureSkipVerify: true, ServerName: "verif.invalid",
			ClientSessionCache: tls.NewLRUClientSessionCache(16), MaxVersion: tls.VersionTLS12}
	})
	return memTLSServer
}

func memTLSClientConfig() *tls.Config {
	memTLSServerConfig()
	return memTLSClient
}

// tlsMemListener wraps every accepted in-memory connection into a server-side *tls.Conn.
type tlsMemListener struct {
	net.Listener
	cfg *tls.Config
}

func (l tlsMemListener) Accept() (net.Conn, error) {
	c, err := l.Listener.Accept()
	if err != nil {
		return nil, err
	}
	return tls.Server(c, l.cfg), nil
}
