//go:build c13 || allprops

package main

// C13 — the client is safe for concurrent use.
//
// (a) deterministic: schedules produced by the Lean model (driver kind "gen"/"complete") are
//     enforced on the real client by turn-taking at instrumented points. The instrumentation is a
//     `go build -overlay` produced by ./instrument13 from the working tree at check time; the
//     instrumented harness (tags "c13 c13instr", c13_det.go) runs as a child process.
// (b) OS-scheduled: un-instrumented workloads in a `-race` build of this harness (c13_race.go).
//
// This process only orchestrates: no code under test runs here.

import (
	"bufio"
	"fmt"
	"os"
	"os/exec"
	"path/filepath"
	"regexp"
	"runtime"
	"strings"
	"sync"
	"time"
)

func init() {
	props["C13"] = genC13
	replayers["C13"] = replayC13
}

// c13ParseScenario splits "NF/L|1|021|Ro.P.X".
func c13ParseScenario(s string) (subs []string, closes int, observer string, server string) {
	p := strings.Split(s, "|")
	if len(p) != 4 {
		return nil, 0, "", ""
	}
	subs = strings.Split(p[0], "/")
	fmt.Sscan(p[1], &closes)
	observer = p[2]
	if observer == "-" {
		observer = ""
	}
	return subs, closes, observer, p[3]
}

type c13Env struct {
	harness string // /verif/harness
	modfile string
	repo    string
	tmp     string
	driver  string
}

func c13Setup() (*c13Env, error) {
	_, file, _, ok := runtime.Caller(0)
	if !ok {
		return nil, fmt.Errorf("cannot locate the harness sources")
	}
	env := &c13Env{harness: filepath.Dir(filepath.Dir(filepath.Dir(file)))}
	if _, err := os.Stat(filepath.Join(env.harness, "instrument13", "main.go")); err != nil {
		return nil, fmt.Errorf("harness sources not found at %s", env.harness)
	}
	env.modfile = filepath.Join(env.harness, "go.mod")
	if exe, err := os.Executable(); err == nil {
		if m := filepath.Join(filepath.Dir(exe), "go.mod"); fileExists(m) {
			env.modfile = m // ./check writes the module file for $VERIF_REPO next to the binary
		}
	}
	data, err := os.ReadFile(env.modfile)
	if err != nil {
		return nil, err
	}
	m := regexp.MustCompile(`(?m)^replace github\.com/emersion/go-imap/v2 => (\S+)`).FindSubmatch(data)
	if m == nil {
		return nil, fmt.Errorf("no replace directive in %s", env.modfile)
	}
	env.repo = string(m[1])
	env.driver = os.Getenv("VERIF_DRIVER")
	if env.driver == "" {
		env.driver = filepath.Join(filepath.Dir(env.harness), "lean", ".lake", "build", "bin", "driver")
	}
	if env.tmp, err = os.MkdirTemp("", "verif-c13-"); err != nil {
		return nil, err
	}
	return env, nil
}

func fileExists(p string) bool { _, err := os.Stat(p); return err == nil }

func (env *c13Env) goCmd(args ...string) (string, error) {
	cmd := exec.Command("go", args...)
	cmd.Dir = env.harness
	cmd.Env = append(os.Environ(), "GOFLAGS=-mod=mod", "GOPROXY=off", "GOSUMDB=off", "GOTOOLCHAIN=local")
	if len(args) > 1 && args[1] == "-race" {
		cmd.Env = append(cmd.Env, "CGO_ENABLED=1")
	}
	out, err := cmd.CombinedOutput()
	return string(out), err
}

// buildInstrumented rewrites the client of the working tree and builds the harness against it.
func (env *c13Env) buildInstrumented() (string, string, error) {
	ov := filepath.Join(env.tmp, "ov")
	os.MkdirAll(ov, 0o755)
	rt := filepath.Join(env.harness, "instrument13", "verifrt", "rt.go")
	if out, err := env.goCmd("run", "-modfile", env.modfile, "./instrument13", "-repo", env.repo, "-out", ov, "-rt", rt); err != nil {
		return "", "instrument:" + out, err
	}
	exe := filepath.Join(env.tmp, "verifh-instr")
	if out, err := env.goCmd("build", "-overlay", filepath.Join(ov, "overlay.json"), "-modfile", env.modfile,
		"-tags", "verif c13 c13instr", "-o", exe, "./cmd/verifh"); err != nil {
		return "", "build:" + out, err
	}
	return exe, "", nil
}

func (env *c13Env) buildRace() (string, string, error) {
	exe := filepath.Join(env.tmp, "verifh-race")
	if out, err := env.goCmd("build", "-race", "-modfile", env.modfile, "-tags", "verif c13", "-o", exe, "./cmd/verifh"); err != nil {
		return "", out, err
	}
	return exe, "", nil
}

// askDriver sends request lines (fields after the id) to the Lean driver, returns the 4th field of each answer.
func (env *c13Env) askDriver(reqs []string) ([]string, error) {
	var in strings.Builder
	for i, r := range reqs {
		fmt.Fprintf(&in, "C13\t%d\t%s\n", i+1, r)
	}
	var out []byte
	var err error
	for try := 0; try < 20; try++ { // the binary is briefly absent while another check relinks it
		cmd := exec.Command(env.driver)
		cmd.Stdin = strings.NewReader(in.String())
		if out, err = cmd.Output(); err == nil {
			break
		}
		time.Sleep(500 * time.Millisecond)
	}
	if err != nil {
		return nil, fmt.Errorf("driver %s: %v", env.driver, err)
	}
	var res []string
	sc := bufio.NewScanner(strings.NewReader(string(out)))
	sc.Buffer(make([]byte, 1<<20), 1<<26)
	for sc.Scan() {
		f := strings.Split(sc.Text(), "\t")
		if len(f) < 4 || f[2] != "ok" {
			return nil, fmt.Errorf("driver answered %q", sc.Text())
		}
		res = append(res, f[3])
	}
	if len(res) != len(reqs) {
		return nil, fmt.Errorf("driver answered %d of %d requests", len(res), len(reqs))
	}
	return res, nil
}

func oneLine(s string) string {
	s = strings.NewReplacer("\t", " ", "\n", " | ", "\r", "").Replace(s)
	if len(s) > 1500 {
		s = s[:1500]
	}
	return s
}

// Past failures and the Legacy counterexample schedules of Props/C13.lean, as (scenario, prefix of
// thread ids); the repaired model completes them to quiescence and the real code must follow.
var c13Corpus = [][2]string{
	// F21: the connection dies / Close is called between registering a command and initialising it
	{"N|0|-|X", "4,4,1,0,0,0"},
	{"N|1|-|-", "4,4,2,0,0,0"},
	{"NF/L|0|-|Z", "4,4,1,0,0,0,0"},
	{"F/N|2|-|-", "4,4,4,4,5,5,2,0,0,0,0"},
	// a synchronising literal and IDLE competing for the encoder and the continuation queue
	{"L/I|0|-|P", "4,4,4,4,4,1,0,0,0,0"},
	{"I/L|0|-|P", "4,4,4,4,4,1,0,0,0,0"},
	{"A/I|1|-|P", "4,4,4,4,4,4,2,0,0,0"},
	// a literal refused with NO, then the second literal of the same command, then the next command
	{"M/L|0|-|No.P", "4,4,4,4,4,1,0,0,0,0,0,0,0,0,4,4,4,4,4,4,4,5,5,5,5,5,1,0,0,0,0,0"},
	{"M|1|-|P.P", "4,4,4,4,4,1,0,0,0,0,0,4,4,4,1,0,0,0,0,0"},
	{"M/N|0|-|P.X", "4,4,4,4,4,1,0,0,0,0,0,4,4,4,1"},
	// IDLE completed by closeWithError before it registers its continuation request
	{"I|0|-|X", "4,4,4,1,0,0,0,0,0,0,0"},
	{"I/N|1|-|-", "4,4,4,2,0,0,0,0,0,0,0"},
	{"LI/N|1|-|No", "4,4,4,4,4,1,0,0,0,0,0,0,0,4,4,4,4,4,4,4"},
	// ENABLE answered while SEARCH is being submitted
	{"E/S|0|0|Ro.E", "4,4,4,4,5,5,1,1,0,0,0,5"},
}

// Schedules of the unrepaired models (variant, scenario, prefix): driven against the tree as they
// are. On the repaired tree they are infeasible or harmless; on a tree where the repair has been
// undone they reproduce the defect and the oracle fails.
var c13Probes = [][3]string{
	{"f21", "N|0|-|X", "4,4,1,0,0,0"},
	{"f21", "N|1|-|-", "4,4,2,0,0,0"},
	{"f21", "NF/L|0|-|Z", "4,4,1,0,0,0"},
	{"f26idle", "L/I|0|-|P", "5,4,4,4,4,4,1,0,0,0"},
	{"f26idle", "A/I|0|-|P", "5,4,4,4,4,4,4,1,0,0,0"},
	{"f26idle", "I/L|0|-|P", "4,5,5,5,5,5,1,0,0,0"},
	{"f26reorderOnly", "I|0|-|X", "4,4,4,1,0,0,0,0,0,0,0,4,4,4"},
	// 0d4c77c: first literal refused, the request of the second literal takes the next command's "+"
	{"lateContReq", "M/L|0|-|No.P", "4,4,4,4,4,1,0,0,0,0,0,0,0,0,4,4,4,4,4,4,4,5,5,5,5,5,1,0,0,0,0,0"},
}

type c13Sched struct {
	scenario, tids, entries, park, status string
	probe                                 string // variant name when the schedule comes from a Legacy model
}

func c13ParseGen(s string) (c13Sched, bool) {
	p := strings.Split(s, ";")
	if len(p) != 5 {
		return c13Sched{}, false
	}
	return c13Sched{scenario: p[0], tids: p[1], entries: p[2], park: p[3], status: p[4]}, true
}

// runDet executes the schedules in child processes of the instrumented binary.
func c13RunDet(exe string, scheds []c13Sched, procs int) []string {
	reqs := make([]string, len(scheds))
	for i, s := range scheds {
		reqs[i] = s.scenario + ";" + s.entries + ";" + s.park
	}
	res := make([]string, len(reqs))
	var wg sync.WaitGroup
	chunk := (len(reqs) + procs - 1) / procs
	for p := 0; p < procs; p++ {
		lo, hi := p*chunk, (p+1)*chunk
		if hi > len(reqs) {
			hi = len(reqs)
		}
		if lo >= hi {
			break
		}
		wg.Add(1)
		go func() {
			defer wg.Done()
			pool := &workerPool{name: "c13det", timeout: 5 * time.Minute, exe: exe, maxBad: 3}
			// small batches: a tree on which schedules get stuck costs the scheduler's patience
			// for each of them; a few are enough to report it
			bad := 0
			for b := lo; b < hi; b += 8 {
				e := b + 8
				if e > hi {
					e = hi
				}
				if bad >= 2 {
					for i := b; i < e; i++ {
						res[i] = "skipped"
					}
					continue
				}
				for i, a := range pool.runOnce(reqs[b:e]) {
					res[b+i] = a
					if !strings.Contains(a, " done ") && scheds[b+i].probe == "" {
						bad++
					}
				}
			}
		}()
	}
	wg.Wait()
	// anything but a clean run is repeated once, alone, before it counts
	var rw sync.WaitGroup
	retries := 0
	for i, r := range res {
		if !strings.Contains(r, " done ") && r != "skipped" && scheds[i].probe == "" && retries < 3 {
			retries++
			i := i
			rw.Add(1)
			go func() {
				defer rw.Done()
				pool := &workerPool{name: "c13det", timeout: 5 * time.Minute, exe: exe}
				res[i] = pool.runOnce(reqs[i : i+1])[0]
			}()
		}
	}
	rw.Wait()
	return res
}

func c13EmitDet(e *emitter, s c13Sched, ans string) {
	f := strings.Split(ans, " ")
	tids := s.tids
	if len(f) == 9 {
		tids, f = f[0], f[1:] // the schedule as executed (the child resolves the WaitGreeting select)
	}
	if len(f) != 8 {
		// the child died (an unrecovered panic inside the client kills it) or hung
		run := "crash"
		if ans == "timeout" || ans == "skipped" {
			run = ans
		}
		f = []string{run, "-", "-", "-", "-", b01(ans == "crash"), oneLine(ans), "-"}
		if len(f[6]) > 60 {
			f[6] = "-"
		}
	}
	e.count("run:" + strings.SplitN(f[0], "@", 2)[0])
	if s.probe != "" {
		e.emit("probe", append([]string{s.probe, s.scenario, tids}, f...)...)
		return
	}
	e.emit("det", append([]string{s.scenario, tids}, f...)...)
}

func genC13(e *emitter, tier string, seed uint64) {
	nSched, nRace, procs := 400, 24, 6
	switch tier {
	case "thorough":
		nSched, nRace = 60000, 1500
	case "widen":
		nSched, nRace = 8000, 120
	}
	if v := os.Getenv("VERIF_C13_SCHEDS"); v != "" { // development aid
		fmt.Sscan(v, &nSched)
	}
	if v := os.Getenv("VERIF_C13_RACES"); v != "" {
		fmt.Sscan(v, &nRace)
	}
	env, err := c13Setup()
	if err != nil {
		e.emit("build", "setup", oneLine(err.Error()))
		return
	}
	defer os.RemoveAll(env.tmp)

	// the two special builds run concurrently with schedule generation
	var instrExe, instrMsg, raceExe, raceMsg string
	var instrErr, raceErr error
	var bw sync.WaitGroup
	bw.Add(2)
	go func() { defer bw.Done(); instrExe, instrMsg, instrErr = env.buildInstrumented() }()
	go func() { defer bw.Done(); raceExe, raceMsg, raceErr = env.buildRace() }()

	r := newRng(seed, "C13")
	var reqs []string
	for _, c := range c13Probes {
		reqs = append(reqs, "probegen\t"+c[0]+"\t"+c[1]+"\t"+c[2])
	}
	for _, c := range c13Corpus {
		reqs = append(reqs, "complete\t"+c[0]+"\t"+c[1])
	}
	for i := 0; i < nSched; i++ {
		reqs = append(reqs, fmt.Sprintf("gen\t%d", r.next()%1000000007))
	}
	t0 := time.Now()
	gens, derr := env.askDriver(reqs)
	fmt.Fprintf(os.Stderr, "[C13] %d schedules generated in %.1fs\n", len(reqs), time.Since(t0).Seconds())
	bw.Wait()
	fmt.Fprintf(os.Stderr, "[C13] instrumented and race builds ready after %.1fs\n", time.Since(t0).Seconds())
	if derr != nil {
		e.emit("build", "driver", oneLine(derr.Error()))
		return
	}
	if instrErr != nil {
		// a tree that cannot be instrumented (or no longer builds instrumented) cannot be tied to the model
		e.emit("build", "instrument", oneLine(instrMsg))
	} else {
		e.emit("build", "instrument", "ok")
		var scheds []c13Sched
		for i, g := range gens {
			s, ok := c13ParseGen(g)
			if ok && i < len(c13Probes) {
				s.probe = c13Probes[i][0]
				scheds = append(scheds, s)
				continue
			}
			if !ok || s.status != "quiescent" {
				e.emit("build", "generator", oneLine("schedule does not reach quiescence: "+g))
				continue
			}
			scheds = append(scheds, s)
		}
		t1 := time.Now()
		res := c13RunDet(instrExe, scheds, procs)
		fmt.Fprintf(os.Stderr, "[C13] %d schedules enforced in %.1fs\n", len(scheds), time.Since(t1).Seconds())
		for i, s := range scheds {
			if res[i] == "skipped" {
				e.count("run:skipped-after-failures")
				continue
			}
			if s.probe != "" {
				e.count("probe:" + s.probe)
				c13EmitDet(e, s, res[i])
				continue
			}
			subs, closes, obs, _ := c13ParseScenario(s.scenario)
			e.count(fmt.Sprintf("subs:%d", len(subs)))
			e.count(fmt.Sprintf("closes:%d", closes))
			e.count(fmt.Sprintf("observer:%d", len(obs)))
			for _, k := range strings.Join(subs, "") {
				e.count("kind:" + string(k))
			}
			c13EmitDet(e, s, res[i])
		}
	}
	if raceErr != nil {
		e.emit("build", "race", oneLine(raceMsg))
		return
	}
	e.emit("build", "race", "ok")
	t2 := time.Now()
	c13RunRace(e, raceExe, env.tmp, nRace, r)
	fmt.Fprintf(os.Stderr, "[C13] %d race workloads in %.1fs\n", nRace, time.Since(t2).Seconds())
}

func replayC13(e *emitter, kind string, f []string) {
	env, err := c13Setup()
	if err != nil {
		e.emit("build", "setup", oneLine(err.Error()))
		return
	}
	defer os.RemoveAll(env.tmp)
	switch kind {
	case "det":
		// the outcome of a WaitGreeting select after the reader has ended (entry 100+thread) is
		// the runtime's choice: replay the schedule up to there and let the model complete it
		pre := strings.Split(f[1], ",")
		for i, t := range pre {
			if len(t) >= 3 {
				pre = pre[:i]
				break
			}
		}
		prefix := strings.Join(pre, ",")
		if prefix == "" {
			prefix = "-"
		}
		gens, derr := env.askDriver([]string{"complete\t" + f[0] + "\t" + prefix})
		if derr != nil {
			e.emit("build", "driver", oneLine(derr.Error()))
			return
		}
		exe, msg, err := env.buildInstrumented()
		if err != nil {
			e.emit("build", "instrument", oneLine(msg))
			return
		}
		s, _ := c13ParseGen(gens[0])
		c13EmitDet(e, s, c13RunDet(exe, []c13Sched{s}, 1)[0])
	case "race":
		exe, msg, err := env.buildRace()
		if err != nil {
			e.emit("build", "race", oneLine(msg))
			return
		}
		c13ReplayRace(e, exe, env.tmp, f[0])
	case "probe":
		gens, derr := env.askDriver([]string{"probegen\t" + f[0] + "\t" + f[1] + "\t" + f[2]})
		if derr != nil {
			e.emit("build", "driver", oneLine(derr.Error()))
			return
		}
		exe, msg, err := env.buildInstrumented()
		if err != nil {
			e.emit("build", "instrument", oneLine(msg))
			return
		}
		s, _ := c13ParseGen(gens[0])
		s.probe = f[0]
		c13EmitDet(e, s, c13RunDet(exe, []c13Sched{s}, 1)[0])
	default:
		e.emit(kind, f...)
	}
}
