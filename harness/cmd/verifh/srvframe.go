package main

import (
	"bytes"
	"fmt"
	"runtime"
	"strconv"
	"strings"
	"sync"
	"time"

	"github.com/emersion/go-imap/v2"
	"github.com/emersion/go-imap/v2/imapserver"
)

// Shared by C04 (server command framing) and C06 (server survives arbitrary input): a real
// imapserver.Server over in-memory connections with a recording session, and a client that
// plays a structured byte stream the way a faithful IMAP client does — it sends the octets of a
// synchronising literal, a SASL response or DONE only after it has seen the continuation
// request, and abandons the rest of a command that was answered with a tagged reply instead.
// Waiting is done on a quiescence signal of the in-memory pipe (memConn.awaitPeerIdle), never
// on a sleep.

// sfSession is the recording session with a well-behaved STATUS (every requested item is
// present) so that no backend contract violation of the stub itself is observed.
type sfSession struct {
	recSessionFull
	env *sfEnv
}

func (s sfSession) Status(mailbox string, options *imap.StatusOptions) (*imap.StatusData, error) {
	if err := s.rec("Status", hx([]byte(mailbox))+" "+fmtStatusOptions(options)); err != nil {
		return nil, err
	}
	n, z := uint32(1), int64(0)
	return &imap.StatusData{Mailbox: "M", NumMessages: &n, UIDNext: 2, UIDValidity: 1, NumUnseen: &n,
		NumDeleted: &n, Size: &z, DeletedStorage: &z}, nil
}

type sfEnv struct {
	srv  *imapserver.Server
	ln   *memListener
	mu   sync.Mutex
	sess []*recSession
	logs []string
	newS chan *recSession
}

type sfLog struct{ env *sfEnv }

func (l sfLog) Printf(format string, args ...interface{}) {
	l.env.mu.Lock()
	l.env.logs = append(l.env.logs, fmt.Sprintf(format, args...))
	l.env.mu.Unlock()
}

// lit: "minus" (IMAP4rev1, which advertises LITERAL-), "plus" (IMAP4rev1 + LITERAL+),
// "none" (IMAP4rev2 only: neither capability is listed).
func sfCaps(lit string) imap.CapSet {
	switch lit {
	case "plus":
		return imap.CapSet{imap.CapIMAP4rev1: {}, imap.CapLiteralPlus: {}}
	case "none":
		return imap.CapSet{imap.CapIMAP4rev2: {}}
	}
	return imap.CapSet{imap.CapIMAP4rev1: {}}
}

func newSfEnv(lit string, preauth bool) *sfEnv {
	env := &sfEnv{ln: newMemListener(), newS: make(chan *recSession, 64)}
	env.srv = imapserver.New(&imapserver.Options{
		NewSession: func(c *imapserver.Conn) (imapserver.Session, *imapserver.GreetingData, error) {
			s := newRecSession()
			s.conn = c
			env.mu.Lock()
			env.sess = append(env.sess, s)
			env.mu.Unlock()
			env.newS <- s
			return sfSession{recSessionFull{s}, env}, &imapserver.GreetingData{PreAuth: preauth}, nil
		},
		Caps:         sfCaps(lit),
		InsecureAuth: true,
		Logger:       sfLog{env},
	})
	go env.srv.Serve(env.ln)
	return env
}

func (env *sfEnv) close() { env.srv.Close() }

func (env *sfEnv) takeLogs() []string {
	env.mu.Lock()
	defer env.mu.Unlock()
	l := env.logs
	env.logs = nil
	return l
}

// sfConn is one raw client connection with its transcript.
type sfConn struct {
	env   *sfEnv
	c     *memConn
	sess  *recSession
	sent  int
	trace []string // "s<n>" = client wrote n bytes, "r<hex>" = bytes received after them
	state string   // last quiescence result: idle | closed | timeout
	all   []byte   // everything delivered
}

const sfWait = 20 * time.Second

func (env *sfEnv) dial() *sfConn {
	c := env.ln.dial()
	var s *recSession
	select {
	case s = <-env.newS:
	case <-time.After(sfWait):
	}
	sc := &sfConn{env: env, c: c, sess: s}
	sc.settle() // greeting
	return sc
}

// settle waits until the server has consumed everything and collects what it wrote.
func (sc *sfConn) settle() []byte {
	sc.state = sc.c.awaitPeerIdle(sfWait)
	data, _ := sc.c.drain()
	if len(data) > 0 {
		sc.trace = append(sc.trace, "r"+hx(data))
	}
	return data
}

func (sc *sfConn) write(b []byte) {
	if len(b) == 0 {
		return
	}
	sc.c.Write(b)
	sc.sent += len(b)
	sc.all = append(sc.all, b...)
	sc.trace = append(sc.trace, "s"+strconv.Itoa(len(b)))
}

// finish closes the client side and waits (polling to a deadline) until the server has let go of
// the connection; returns the end marker: "c" server had closed first, "w" server was waiting
// for input when the client left, "t" the server was neither (watchdog).
func (sc *sfConn) finish() string {
	end := "w"
	switch sc.state {
	case "closed":
		end = "c"
	case "timeout":
		end = "t"
	}
	sc.c.Close()
	return end
}

// awaitDrained polls until the server tracks no connection any more.
func (env *sfEnv) awaitDrained() bool {
	deadline := time.Now().Add(sfWait)
	for d := 50 * time.Microsecond; ; d *= 2 {
		if env.srv.VerifNumConns() == 0 {
			return true
		}
		if time.Now().After(deadline) {
			return false
		}
		if d > 20*time.Millisecond {
			d = 20 * time.Millisecond
		}
		time.Sleep(d)
	}
}

// awaitGoroutines polls until the goroutine count is back to base (or the deadline passes) and
// returns the excess.
func awaitGoroutines(base int) int {
	deadline := time.Now().Add(sfWait)
	for d := 50 * time.Microsecond; ; d *= 2 {
		n := runtime.NumGoroutine()
		if n <= base || time.Now().After(deadline) {
			return n - base
		}
		if d > 20*time.Millisecond {
			d = 20 * time.Millisecond
		}
		time.Sleep(d)
	}
}

// ---- structured streams -------------------------------------------------------------------

// sfSeg is a piece of a client command: text (ending in CRLF), then what follows it.
//
//	0    nothing: the command ends with this text
//	'n'  the text ends in {n+}: payload follows unconditionally
//	's'  the text ends in {n}: payload follows once the server has sent '+'
//	'a'  AUTHENTICATE exchange: payload is one SASL line (with CRLF), sent once '+' was seen
//	'i'  IDLE: payload is the DONE line, sent once '+' was seen
//
// short: the announced size is larger than the payload we are willing to send (100 MiB): the
// stream ends after whatever is sent of it.
type sfSeg struct {
	text    []byte
	kind    byte
	payload []byte
	short   bool
}

type sfCmd struct {
	tag  string
	segs []sfSeg
}

func (c sfCmd) bytes() []byte {
	var b []byte
	for _, s := range c.segs {
		b = append(b, s.text...)
		b = append(b, s.payload...)
	}
	return b
}

// sfHasCont tells whether the batch of server output contains a continuation request line, and
// whether it contains a tagged reply for tag.
func sfBatch(data []byte, tag string) (cont, tagged bool) {
	for _, l := range bytes.Split(data, []byte("\n")) {
		if len(l) > 0 && l[0] == '+' {
			cont = true
		}
		if tag != "" && bytes.HasPrefix(l, []byte(tag+" ")) {
			tagged = true
		}
	}
	return
}

// play sends the commands. pipeline: commands without a synchronisation point are written
// together with what follows them (one Write per synchronisation point); otherwise the client
// waits for the server after every command. The stream ends early when the server closed, when
// a synchronisation point got neither '+' nor a tagged reply (a real client would wait for
// ever), or after a short literal.
func (sc *sfConn) play(cmds []sfCmd, pipeline bool) {
	var pend []byte
	flush := func() []byte {
		sc.write(pend)
		pend = nil
		return sc.settle()
	}
	for _, cmd := range cmds {
	segs:
		for _, sg := range cmd.segs {
			pend = append(pend, sg.text...)
			switch sg.kind {
			case 0:
				break segs
			case 'n':
				pend = append(pend, sg.payload...)
				if sg.short {
					flush()
					return
				}
			default:
				out := flush()
				if sc.state != "idle" {
					return
				}
				cont, tagged := sfBatch(out, cmd.tag)
				switch {
				case cont:
					pend = append(pend, sg.payload...)
					if sg.short {
						flush()
						return
					}
				case tagged:
					break segs // the command was answered: abandon the rest of it
				default:
					return
				}
			}
		}
		if !pipeline {
			flush()
			if sc.state != "idle" {
				return
			}
		}
	}
	flush()
}

// sfParse frames a raw client byte stream the way RFC 9051 section 4.3 / RFC 7888 say a client's
// output is structured, so that arbitrary (mutated, garbage) streams can be played faithfully
// too: lines end in CRLF; a line ending in {n} / {n+} is followed by n octets of literal; an
// AUTHENTICATE line without initial response and an IDLE line are followed by one more line that
// is sent only after '+'.
func sfParse(b []byte) []sfCmd {
	var cmds []sfCmd
	for len(b) > 0 {
		var cmd sfCmd
		first := true
		for {
			i := bytes.Index(b, []byte("\r\n"))
			if i < 0 {
				cmd.segs = append(cmd.segs, sfSeg{text: b})
				b = nil
				break
			}
			line := b[:i]
			text := b[:i+2]
			b = b[i+2:]
			if first {
				j := 0
				for j < len(line) && line[j] != ' ' {
					j++
				}
				cmd.tag = string(line[:j])
			}
			if n, nonSync, ok := sfLitHeader(line); ok {
				k := byte('s')
				if nonSync {
					k = 'n'
				}
				sg := sfSeg{text: text, kind: k}
				if n > int64(len(b)) {
					sg.payload, sg.short = b, true
					b = nil
					cmd.segs = append(cmd.segs, sg)
					break
				}
				sg.payload = b[:n]
				b = b[n:]
				cmd.segs = append(cmd.segs, sg)
				first = false
				continue
			}
			f := strings.Fields(strings.ToUpper(string(line)))
			if first && len(f) >= 2 && (f[1] == "IDLE" && len(f) == 2 || f[1] == "AUTHENTICATE" && len(f) == 3) {
				k := byte('i')
				if f[1] == "AUTHENTICATE" {
					k = 'a'
				}
				sg := sfSeg{text: text, kind: k}
				if j := bytes.Index(b, []byte("\r\n")); j >= 0 {
					sg.payload = b[:j+2]
					b = b[j+2:]
				} else {
					sg.payload = b
					b = nil
				}
				cmd.segs = append(cmd.segs, sg, sfSeg{})
				break
			}
			cmd.segs = append(cmd.segs, sfSeg{text: text})
			break
		}
		cmds = append(cmds, cmd)
	}
	return cmds
}

// sfLitHeader recognises a trailing literal header {n} or {n+}.
func sfLitHeader(line []byte) (n int64, nonSync, ok bool) {
	if len(line) < 3 || line[len(line)-1] != '}' {
		return
	}
	j := len(line) - 1
	if line[j-1] == '+' {
		nonSync = true
		j--
	}
	k := j
	for k > 0 && line[k-1] >= '0' && line[k-1] <= '9' {
		k--
	}
	if k == j || k == 0 || line[k-1] != '{' {
		return 0, false, false
	}
	v, err := strconv.ParseInt(string(line[k:j]), 10, 64)
	if err != nil {
		return 0, false, false
	}
	return v, nonSync, true
}

// calls renders the stub's call log: Name:args;... without Poll and Close (Close is counted).
func sfCalls(s *recSession) (calls string, closes int, maxArg int) {
	if s == nil {
		return "-", 0, 0
	}
	var out []string
	for _, c := range s.log() {
		switch c.name {
		case "Close":
			closes++
			continue
		case "Poll":
			continue
		case "Idle":
			// called from a goroutine of its own, which handleIdle does not wait for when the
			// client ends IDLE with anything but DONE: its place in the log is not determined
			continue
		}
		args := strings.ReplaceAll(c.args, " ", ",")
		switch c.name {
		case "Append": // mailbox and message only
			if f := strings.Split(c.args, " "); len(f) == 4 {
				args = f[0] + "," + f[3]
			}
		case "Search":
			args = ""
		}
		out = append(out, c.name+":"+args)
		if c.name != "Append" {
			for _, a := range strings.FieldsFunc(c.args, func(r rune) bool { return r == ' ' || r == ',' || r == '[' || r == ']' }) {
				if isHex(a) && len(a)/2 > maxArg {
					maxArg = len(a) / 2
				}
			}
		}
	}
	if len(out) == 0 {
		return "-", closes, maxArg
	}
	return strings.Join(out, ";"), closes, maxArg
}

func isHex(s string) bool {
	if len(s) == 0 || len(s)%2 != 0 {
		return false
	}
	for i := 0; i < len(s); i++ {
		c := s[i]
		if !(c >= '0' && c <= '9' || c >= 'a' && c <= 'f') {
			return false
		}
	}
	return true
}

func sfPanicLogs(logs []string) int {
	n := 0
	for _, l := range logs {
		if strings.Contains(l, "panic") {
			n++
		}
	}
	return n
}
