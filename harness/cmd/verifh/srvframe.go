package main

import (
	"bytes"
	"encoding/base64"
	"fmt"
	"runtime"
	"strconv"
	"strings"
	"sync"
	"sync/atomic"
	"time"

	"github.com/emersion/go-imap/v2"
	"github.com/emersion/go-imap/v2/imapserver"
)

// Shared by C04 (server command framing) and C06 (server survives arbitrary input): a real
// imapserver.Server over in-memory connections with a recording session, and a client that
// plays a structured byte stream the way a faithful IMAP client does — it sends the octets of a
// synchronising literal, a SASL response or DONE only after it has seen the continuation
// request, and abandons the rest of a command that was answered with a tagged reply instead.
// Waiting is done on a quiescence signal of the in-memory pipe (memConn.awaitPeerIdle), never
// on a sleep.

// sfSession is the recording session with a well-behaved STATUS (every requested item is
// present) so that no backend contract violation of the stub itself is observed.
type sfSession struct {
	recSessionFull
	env  *sfEnv
	idle *atomic.Int32 // Session.Idle calls of this connection that have not returned
}

// Append: with env.failAppend the backend refuses the message before reading any of it (the way
// a real backend answers NO [TRYCREATE] for a mailbox that does not exist).
func (s sfSession) Append(mailbox string, r imap.LiteralReader, options *imap.AppendOptions) (*imap.AppendData, error) {
	if s.env.failAppend {
		s.rec("Append", hx([]byte(mailbox))+" [] 0 -")
		return nil, &imap.Error{Type: imap.StatusResponseTypeNo, Code: imap.ResponseCodeTryCreate, Text: "No such mailbox"}
	}
	return s.recSessionFull.Append(mailbox, r, options)
}

// Fetch answers every requested body section for message 1 with a five-octet body, so that the
// section specification (with the header field names the client sent) is echoed in the response.
func (s sfSession) Fetch(w *imapserver.FetchWriter, numSet imap.NumSet, options *imap.FetchOptions) error {
	if err := s.rec("Fetch", fmtNumSet(numSet)+" "+fmtFetchOptions(options)); err != nil {
		return err
	}
	if options == nil || len(options.BodySection) == 0 {
		return nil
	}
	rw := w.CreateMessage(1)
	for _, bs := range options.BodySection {
		wc := rw.WriteBodySection(bs, 5)
		wc.Write([]byte("hello"))
		wc.Close()
	}
	return rw.Close()
}

// Idle counts the calls that have not returned yet: after the connection is gone there must be none.
func (s sfSession) Idle(w *imapserver.UpdateWriter, stop <-chan struct{}) error {
	s.idle.Add(1)
	defer s.idle.Add(-1)
	return s.recSessionFull.Idle(w, stop)
}

func (s sfSession) Status(mailbox string, options *imap.StatusOptions) (*imap.StatusData, error) {
	if err := s.rec("Status", hx([]byte(mailbox))+" "+fmtStatusOptions(options)); err != nil {
		return nil, err
	}
	n, z := uint32(1), int64(0)
	return &imap.StatusData{Mailbox: mailbox, NumMessages: &n, UIDNext: 2, UIDValidity: 1, NumUnseen: &n,
		NumDeleted: &n, Size: &z, DeletedStorage: &z}, nil
}

type sfEnv struct {
	srv        *imapserver.Server
	ln         *memListener
	mu         sync.Mutex
	sess       []*recSession
	logs       []string
	newS       chan *recSession
	failAppend bool
	idleBy     map[*recSession]*atomic.Int32
}

type sfLog struct{ env *sfEnv }

func (l sfLog) Printf(format string, args ...interface{}) {
	l.env.mu.Lock()
	l.env.logs = append(l.env.logs, fmt.Sprintf(format, args...))
	l.env.mu.Unlock()
}

// lit: "minus" (IMAP4rev1, which advertises LITERAL-), "plus" (IMAP4rev1 + LITERAL+),
// "none" (IMAP4rev2 only: neither capability is listed).
func sfCaps(lit string) imap.CapSet {
	switch lit {
	case "plus":
		return imap.CapSet{imap.CapIMAP4rev1: {}, imap.CapLiteralPlus: {}}
	case "none":
		return imap.CapSet{imap.CapIMAP4rev2: {}}
	}
	return imap.CapSet{imap.CapIMAP4rev1: {}}
}

// lit may carry the suffix "/af": the backend's Append fails without reading the message.
func newSfEnv(lit string, preauth bool) *sfEnv {
	env := &sfEnv{ln: newMemListener(), newS: make(chan *recSession, 64), idleBy: map[*recSession]*atomic.Int32{}}
	if strings.HasSuffix(lit, "/af") {
		env.failAppend = true
		lit = strings.TrimSuffix(lit, "/af")
	}
	env.srv = imapserver.New(&imapserver.Options{
		NewSession: func(c *imapserver.Conn) (imapserver.Session, *imapserver.GreetingData, error) {
			s := newRecSession()
			s.conn = c
			idle := new(atomic.Int32)
			env.mu.Lock()
			env.sess = append(env.sess, s)
			env.idleBy[s] = idle
			env.mu.Unlock()
			env.newS <- s
			return sfSession{recSessionFull{s}, env, idle}, &imapserver.GreetingData{PreAuth: preauth}, nil
		},
		Caps:         sfCaps(lit),
		InsecureAuth: true,
		Logger:       sfLog{env},
	})
	go env.srv.Serve(env.ln)
	return env
}

func (env *sfEnv) close() { env.srv.Close() }

func (env *sfEnv) takeLogs() []string {
	env.mu.Lock()
	defer env.mu.Unlock()
	l := env.logs
	env.logs = nil
	return l
}

// sfConn is one raw client connection with its transcript.
type sfConn struct {
	env   *sfEnv
	c     *memConn
	sess  *recSession
	sent  int
	trace []string // "s<n>" = client wrote n bytes, "r<hex>" = bytes received after them
	state string   // last quiescence result: idle | closed | timeout
	all   []byte   // everything delivered
	// budget >= 0: the client disconnects after this many more octets (cut point); spent is set
	// once the budget has cut a write short
	budget int
	spent  bool
}

const sfWait = 30 * time.Second

// sfTimeouts counts watchdog expiries; each is already a reportable observation, so after a few
// of them the remaining cases stop waiting the full time (a broken server would otherwise turn a
// one-minute run into hours).
var sfTimeouts atomic.Int32

func sfPatience() time.Duration {
	if sfTimeouts.Load() >= 3 {
		return 3 * time.Second
	}
	return sfWait
}

func (env *sfEnv) dial() *sfConn {
	c := env.ln.dial()
	var s *recSession
	select {
	case s = <-env.newS:
	case <-time.After(sfPatience()):
		sfTimeouts.Add(1)
	}
	sc := &sfConn{env: env, c: c, sess: s, budget: -1}
	sc.settle() // greeting
	return sc
}

// dialGone hands the server a connection whose client end is already closed: the greeting cannot
// be written. Whatever the server does with the session it created, it must close it.
func (env *sfEnv) dialGone() *sfConn {
	c, srvEnd := memPipe()
	c.Close()
	env.ln.ch <- srvEnd
	var s *recSession
	select {
	case s = <-env.newS:
	case <-time.After(sfPatience()):
		sfTimeouts.Add(1)
	}
	return &sfConn{env: env, c: c, sess: s, budget: -1, state: "closed"}
}

// settle waits until the server has consumed everything and collects what it wrote.
func (sc *sfConn) settle() []byte {
	sc.state = sc.c.awaitPeerIdle(sfPatience())
	if sc.state == "timeout" {
		sfTimeouts.Add(1)
	}
	data, _ := sc.c.drain()
	if len(data) > 0 {
		sc.trace = append(sc.trace, "r"+hx(data))
	}
	return data
}

func (sc *sfConn) write(b []byte) {
	if sc.spent {
		return
	}
	if sc.budget >= 0 {
		if len(b) >= sc.budget {
			b = b[:sc.budget]
			sc.spent = true
		}
		sc.budget -= len(b)
	}
	if len(b) == 0 {
		return
	}
	sc.c.Write(b)
	sc.sent += len(b)
	sc.all = append(sc.all, b...)
	sc.trace = append(sc.trace, "s"+strconv.Itoa(len(b)))
}

// finish closes the client side and waits (polling to a deadline) until the server has let go of
// the connection; returns the end marker: "c" server had closed first, "w" server was waiting
// for input when the client left, "t" the server was neither (watchdog).
func (sc *sfConn) finish() string {
	end := "w"
	switch sc.state {
	case "closed":
		end = "c"
	case "timeout":
		end = "t"
	}
	sc.c.Close()
	return end
}

// awaitDrained polls until the server tracks no connection any more.
func (env *sfEnv) awaitDrained() bool {
	deadline := time.Now().Add(sfPatience())
	for d := 50 * time.Microsecond; ; d *= 2 {
		if env.srv.VerifNumConns() == 0 {
			return true
		}
		if time.Now().After(deadline) {
			sfTimeouts.Add(1)
			return false
		}
		if d > 20*time.Millisecond {
			d = 20 * time.Millisecond
		}
		time.Sleep(d)
	}
}

// awaitIdleReturned polls until no Session.Idle call of this server is running any more.
func (env *sfEnv) awaitIdleReturned(sess *recSession) int {
	env.mu.Lock()
	ctr := env.idleBy[sess]
	delete(env.idleBy, sess)
	env.mu.Unlock()
	if ctr == nil {
		return 0
	}
	deadline := time.Now().Add(sfPatience())
	for d := 50 * time.Microsecond; ; d *= 2 {
		n := int(ctr.Load())
		if n == 0 {
			return 0
		}
		if time.Now().After(deadline) {
			sfTimeouts.Add(1)
			return n
		}
		if d > 20*time.Millisecond {
			d = 20 * time.Millisecond
		}
		time.Sleep(d)
	}
}

// awaitGoroutines polls until the goroutine count is back to base (or the deadline passes) and
// returns the excess.
func awaitGoroutines(base int) int {
	deadline := time.Now().Add(sfWait)
	for d := 50 * time.Microsecond; ; d *= 2 {
		n := runtime.NumGoroutine()
		if n <= base || time.Now().After(deadline) {
			return n - base
		}
		if d > 20*time.Millisecond {
			d = 20 * time.Millisecond
		}
		time.Sleep(d)
	}
}

// ---- structured streams -------------------------------------------------------------------

// sfSeg is a piece of a client command: text (ending in CRLF), then what follows it.
//
//	0    nothing: the command ends with this text
//	'n'  the text ends in {n+}: payload follows unconditionally
//	's'  the text ends in {n}: payload follows once the server has sent '+'
//	'a'  AUTHENTICATE exchange: payload is one SASL line (with CRLF), sent once '+' was seen
//	'i'  IDLE: payload is the DONE line, sent once '+' was seen
//
// short: the announced size is larger than the payload we are willing to send (100 MiB): the
// stream ends after whatever is sent of it.
type sfSeg struct {
	text    []byte
	kind    byte
	payload []byte
	short   bool
}

type sfCmd struct {
	tag  string
	segs []sfSeg
}

func (c sfCmd) bytes() []byte {
	var b []byte
	for _, s := range c.segs {
		b = append(b, s.text...)
		b = append(b, s.payload...)
	}
	return b
}

// sfHasCont tells whether the batch of server output contains a continuation request line, and
// whether it contains a tagged reply for tag.
func sfBatch(data []byte, tag string) (cont, tagged bool) {
	for _, l := range bytes.Split(data, []byte("\n")) {
		if len(l) > 0 && l[0] == '+' {
			cont = true
		}
		if tag != "" && bytes.HasPrefix(l, []byte(tag+" ")) {
			tagged = true
		}
	}
	return
}

// play sends the commands. pipeline: commands without a synchronisation point are written
// together with what follows them (one Write per synchronisation point); otherwise the client
// waits for the server after every command. The stream ends early when the server closed, when
// a synchronisation point got neither '+' nor a tagged reply (a real client would wait for
// ever), or after a short literal.
func (sc *sfConn) play(cmds []sfCmd, pipeline bool) {
	var pend []byte
	flush := func() []byte {
		sc.write(pend)
		pend = nil
		return sc.settle()
	}
	for _, cmd := range cmds {
	segs:
		for _, sg := range cmd.segs {
			pend = append(pend, sg.text...)
			switch sg.kind {
			case 0:
				break segs
			case 'n':
				pend = append(pend, sg.payload...)
				if sg.short {
					flush()
					return
				}
			default:
				out := flush()
				if sc.state != "idle" || sc.spent {
					return
				}
				cont, tagged := sfBatch(out, cmd.tag)
				switch {
				case cont:
					pend = append(pend, sg.payload...)
					if sg.short {
						flush()
						return
					}
				case tagged:
					break segs // the command was answered: abandon the rest of it
				default:
					return
				}
			}
		}
		if !pipeline {
			flush()
			if sc.state != "idle" || sc.spent {
				return
			}
		}
	}
	flush()
}

// sfParse frames a raw client byte stream the way RFC 9051 section 4.3 / RFC 7888 say a client's
// output is structured, so that arbitrary (mutated, garbage) streams can be played faithfully
// too: lines end in CRLF; a line ending in {n} / {n+} is followed by n octets of literal; an
// AUTHENTICATE line without initial response and an IDLE line are followed by one more line that
// is sent only after '+'.
func sfParse(b []byte) []sfCmd {
	var cmds []sfCmd
	for len(b) > 0 {
		var cmd sfCmd
		first := true
		for {
			i := bytes.Index(b, []byte("\r\n"))
			if i < 0 {
				cmd.segs = append(cmd.segs, sfSeg{text: b})
				b = nil
				break
			}
			line := b[:i]
			text := b[:i+2]
			b = b[i+2:]
			if first {
				j := 0
				for j < len(line) && line[j] != ' ' {
					j++
				}
				cmd.tag = string(line[:j])
			}
			if n, nonSync, ok := sfLitHeader(line); ok {
				k := byte('s')
				if nonSync {
					k = 'n'
				}
				sg := sfSeg{text: text, kind: k}
				if n > int64(len(b)) {
					sg.payload, sg.short = b, true
					b = nil
					cmd.segs = append(cmd.segs, sg)
					break
				}
				sg.payload = b[:n]
				b = b[n:]
				cmd.segs = append(cmd.segs, sg)
				first = false
				continue
			}
			f := strings.Fields(strings.ToUpper(string(line)))
			if first && len(f) >= 2 && (f[1] == "IDLE" && len(f) == 2 || f[1] == "AUTHENTICATE" && len(f) == 3) {
				k := byte('i')
				if f[1] == "AUTHENTICATE" {
					k = 'a'
				}
				sg := sfSeg{text: text, kind: k}
				if j := bytes.Index(b, []byte("\r\n")); j >= 0 {
					sg.payload = b[:j+2]
					b = b[j+2:]
				} else {
					sg.payload = b
					b = nil
				}
				cmd.segs = append(cmd.segs, sg, sfSeg{})
				break
			}
			cmd.segs = append(cmd.segs, sfSeg{text: text})
			break
		}
		cmds = append(cmds, cmd)
	}
	return cmds
}

// sfLitHeader recognises a trailing literal header {n} or {n+}.
func sfLitHeader(line []byte) (n int64, nonSync, ok bool) {
	if len(line) < 3 || line[len(line)-1] != '}' {
		return
	}
	j := len(line) - 1
	if line[j-1] == '+' {
		nonSync = true
		j--
	}
	k := j
	for k > 0 && line[k-1] >= '0' && line[k-1] <= '9' {
		k--
	}
	if k == j || k == 0 || line[k-1] != '{' {
		return 0, false, false
	}
	v, err := strconv.ParseInt(string(line[k:j]), 10, 64)
	if err != nil {
		return 0, false, false
	}
	return v, nonSync, true
}

// sfObs is what one connection showed.
type sfObs struct {
	delivered []byte
	trace     string // s<n>;r<hex>;...
	end       string // c | w | t
	calls     string
	closes    int
	panics    int
	maxArg    int
	drained   bool // the server let go of the connection after the client closed
	idleLeft  int  // Session.Idle calls still running after that (polled to the deadline)
}

func (sc *sfConn) observe() sfObs {
	end := sc.finish()
	drained := sc.env.awaitDrained()
	idleLeft := sc.env.awaitIdleReturned(sc.sess)
	calls, closes, maxArg := sfCalls(sc.sess)
	o := sfObs{delivered: sc.all, trace: "-", end: end, calls: calls, closes: closes, maxArg: maxArg, drained: drained,
		idleLeft: idleLeft, panics: sfPanicLogs(sc.env.takeLogs())}
	if len(sc.trace) > 0 {
		o.trace = strings.Join(sc.trace, ";")
	}
	return o
}

// sfRun plays cmds faithfully on a fresh connection of env (which must not be shared while the
// case runs: the server's log is attributed to it).
func sfRun(env *sfEnv, cmds []sfCmd, pipeline bool) sfObs {
	sc := env.dial()
	sc.play(cmds, pipeline)
	return sc.observe()
}

// sfRunCut plays cmds faithfully, but the client disconnects after k octets.
func sfRunCut(env *sfEnv, cmds []sfCmd, pipeline bool, k int) sfObs {
	sc := env.dial()
	sc.budget = k
	sc.play(cmds, pipeline)
	return sc.observe()
}

// sfRunRaw writes the octets in one piece, waits for the server to settle, and closes.
func sfRunRaw(env *sfEnv, data []byte) sfObs {
	sc := env.dial()
	sc.write(data)
	sc.settle()
	return sc.observe()
}

// calls renders the stub's call log: Name:args;... without Poll and Close (Close is counted).
func sfCalls(s *recSession) (calls string, closes int, maxArg int) {
	if s == nil {
		return "-", 0, 0
	}
	var out []string
	for _, c := range s.log() {
		switch c.name {
		case "Close":
			closes++
			continue
		case "Poll":
			continue
		case "Idle":
			// called from a goroutine of its own, which handleIdle does not wait for when the
			// client ends IDLE with anything but DONE: its place in the log is not determined
			continue
		}
		args := strings.ReplaceAll(c.args, " ", ",")
		switch c.name {
		case "Append": // mailbox and message only
			if f := strings.Split(c.args, " "); len(f) == 4 {
				args = f[0] + "," + f[3]
			}
		case "Search":
			args = ""
		}
		out = append(out, c.name+":"+args)
		if c.name != "Append" {
			for _, a := range strings.FieldsFunc(c.args, func(r rune) bool { return r == ' ' || r == ',' || r == '[' || r == ']' }) {
				if isHex(a) && len(a)/2 > maxArg {
					maxArg = len(a) / 2
				}
			}
		}
	}
	if len(out) == 0 {
		return "-", closes, maxArg
	}
	return strings.Join(out, ";"), closes, maxArg
}

func isHex(s string) bool {
	if len(s) == 0 || len(s)%2 != 0 {
		return false
	}
	for i := 0; i < len(s); i++ {
		c := s[i]
		if !(c >= '0' && c <= '9' || c >= 'a' && c <= 'f') {
			return false
		}
	}
	return true
}

func sfPanicLogs(logs []string) int {
	n := 0
	for _, l := range logs {
		if strings.Contains(l, "panic") {
			n++
		}
	}
	return n
}

// ---- script encoding (so that a case replays from its own line) ------------------------------

// cmd = tag ":" seg { "," seg } ; seg = kind short "." hex(text) "." hex(payload) ; cmds joined by "/"
func sfEncode(cmds []sfCmd) string {
	var cs []string
	for _, c := range cmds {
		var ss []string
		for _, s := range c.segs {
			k := s.kind
			if k == 0 {
				k = 'e'
			}
			ss = append(ss, fmt.Sprintf("%c%s.%s.%s", k, b01(s.short), hx(s.text), hx(s.payload)))
		}
		cs = append(cs, hx([]byte(c.tag))+":"+strings.Join(ss, ","))
	}
	if len(cs) == 0 {
		return "-"
	}
	return strings.Join(cs, "/")
}

func sfDecode(s string) []sfCmd {
	if s == "-" {
		return nil
	}
	var cmds []sfCmd
	for _, c := range strings.Split(s, "/") {
		p := strings.SplitN(c, ":", 2)
		cmd := sfCmd{tag: string(unhx(p[0]))}
		for _, sg := range strings.Split(p[1], ",") {
			f := strings.Split(sg[3:], ".")
			k := sg[0]
			if k == 'e' {
				k = 0
			}
			cmd.segs = append(cmd.segs, sfSeg{kind: k, short: sg[1] == '1', text: unhx(f[0]), payload: unhx(f[1])})
		}
		cmds = append(cmds, cmd)
	}
	return cmds
}

// ---- generator ---------------------------------------------------------------------------------

var sfSizes = []int64{0, 1, 4095, 4096, 4097, 5000, 100 << 20, 100<<20 + 1}

// 2^31, 2^32-1, 2^32, 5*10^9, 2^63-1, 2^63 and a 25-digit number
var sfHugeSizes = []string{"2147483648", "4294967295", "4294967296", "5000000000", "9223372036854775807",
	"9223372036854775808", "1000000000000000000000000"}

type sfGen struct {
	r     *rng
	k     int // marker counter: every value and every tag of a case is unique
	cnt   []string
	big   int // payloads over 1 KiB so far in this case
	wild  bool
	state int // 0 not authenticated, 1 authenticated, 2 selected (what a conforming server would be in)
}

func (g *sfGen) count(s string) { g.cnt = append(g.cnt, s) }

func (g *sfGen) mark(prefix string) string {
	g.k++
	return fmt.Sprintf("%s%d", prefix, g.k)
}

// payload builds n octets of literal content: command-like text carrying fresh markers, then
// CRLF-rich noise. clean: printable, no CR/LF (acceptable as a mailbox name).
func (g *sfGen) payload(n int, clean bool) []byte {
	if n == 0 {
		return nil
	}
	var b []byte
	if clean {
		b = []byte(g.mark("zm"))
		for len(b) < n {
			b = append(b, "abcdefghij-klmnop.qrstuv_wxyz"[len(b)%29])
		}
		return b[:n]
	}
	k := g.mark("")
	cmdlike := []string{
		"\r\nz" + k + " LOGIN zu" + k + " zp" + k + "\r\n",
		"x" + k + " DELETE zb" + k + "\r\n",
		"w" + k + " SELECT zs" + k + "\r\nv" + k + " NOOP\r\n",
	}
	noise := []string{"\r\n", "\n", "{3+}\r\n", "{2}\r\n", "\" ", ") (", "\\", "a b\r\n", "+ ok\r\n", "DONE\r\n", "* \r\n"}
	switch g.r.intn(3) {
	case 0:
		b = append(b, cmdlike[0]...)
	case 1:
		b = append(b, cmdlike[1]...)
		b = append(b, cmdlike[0]...)
	default:
		b = append(b, cmdlike[2]...)
	}
	for len(b) < n {
		if g.r.chance(1, 6) {
			b = append(b, pick(g.r, cmdlike)...)
		} else {
			b = append(b, pick(g.r, noise)...)
		}
	}
	b = b[:n]
	return b
}

// one string argument, rendered in one of the four forms; returns the text to put on the command
// line and, for literals, the seg break. val is the value for atom/quoted forms.
type sfPiece struct {
	text    string // command text up to and including a literal header + CRLF, or the atom/quoted
	kind    byte   // 0 none, 'n', 's'
	payload []byte
	short   bool
}

func (g *sfGen) arg(val string, mailbox bool) sfPiece {
	form := g.r.intn(10)
	switch {
	case form < 2:
		g.count("arg:atom")
		return sfPiece{text: val}
	case form < 4:
		g.count("arg:quoted")
		return sfPiece{text: "\"" + val + "\""}
	}
	nonSync := form >= 7
	// size: small ones often, each boundary regularly, at most two large payloads per case
	var size int64
	huge := "" // announced sizes around 2^31, 2^32, 2^63 and beyond: never sent in full
	switch s := g.r.intn(14); {
	case s < 3:
		size = int64(2 + g.r.intn(60))
	case s < 4:
		size = int64(60 + g.r.intn(400))
	case s < 6:
		huge = pick(g.r, sfHugeSizes)
		size = 1 << 62
	default:
		size = sfSizes[g.r.intn(len(sfSizes))]
	}
	if size > 1024 && size <= 8192 {
		if g.big >= 2 {
			size = int64(1 + g.r.intn(40))
		} else {
			g.big++
		}
	}
	p := sfPiece{kind: 's'}
	digits := strconv.FormatInt(size, 10)
	if huge != "" {
		digits = huge
	}
	hdr := "{" + digits + "}"
	if nonSync {
		p.kind = 'n'
		hdr = "{" + digits + "+}"
	}
	p.text = hdr + "\r\n"
	if size > 8192 {
		p.short = true
		if g.r.chance(1, 2) {
			p.payload = g.payload(200, false) // the beginning of a payload that never completes
		}
	} else {
		p.payload = g.payload(int(size), mailbox && g.r.chance(1, 2))
	}
	g.count(fmt.Sprintf("arg:lit%c:%s", p.kind, digits))
	return p
}

// build assembles a command from fixed words and pieces.
type sfBuilder struct {
	cmd sfCmd
	cur []byte
}

func (b *sfBuilder) word(s string) { b.cur = append(b.cur, s...) }
func (b *sfBuilder) piece(p sfPiece) {
	b.cur = append(b.cur, p.text...)
	if p.kind != 0 {
		b.cmd.segs = append(b.cmd.segs, sfSeg{text: b.cur, kind: p.kind, payload: p.payload, short: p.short})
		b.cur = nil
	}
}
func (b *sfBuilder) end() sfCmd {
	b.cur = append(b.cur, "\r\n"...)
	b.cmd.segs = append(b.cmd.segs, sfSeg{text: b.cur})
	return b.cmd
}

func plainB64(u, p string) string {
	return base64.StdEncoding.EncodeToString([]byte("\x00" + u + "\x00" + p))
}

func (g *sfGen) command() sfCmd {
	tag := g.mark("t")
	b := &sfBuilder{cmd: sfCmd{tag: tag}}
	b.word(tag + " ")
	mb := func() sfPiece {
		v := g.mark("mb")
		if g.r.chance(1, 8) {
			v = pick(g.r, []string{"INBOX", "inbox", "InBox"})
		}
		return g.arg(v, true)
	}
	// a spurious trailing argument on a command that takes none / after the last one
	extra := func() {
		if g.r.chance(1, 5) {
			b.word(" ")
			b.piece(g.arg(g.mark("e"), false))
			g.count("extra-arg")
		}
	}
	pickName := func(names ...string) string {
		n := pick(g.r, names)
		if g.r.chance(1, 6) {
			n = strings.ToLower(n)
		}
		g.count("cmd:" + strings.ToUpper(n))
		return n
	}
	switch c := g.r.intn(100); {
	case c < 14:
		b.word(pickName("LOGIN") + " ")
		b.piece(g.arg(g.mark("u"), false))
		b.word(" ")
		b.piece(g.arg(g.mark("p"), false))
		extra()
		if g.state == 0 {
			g.state = 1
		}
	case c < 22:
		b.word(pickName("SELECT", "EXAMINE") + " ")
		b.piece(mb())
		extra()
		if g.state >= 1 {
			g.state = 2
		}
	case c < 36:
		b.word(pickName("CREATE", "DELETE", "SUBSCRIBE", "UNSUBSCRIBE") + " ")
		b.piece(mb())
		extra()
	case c < 42:
		b.word(pickName("RENAME") + " ")
		b.piece(mb())
		b.word(" ")
		b.piece(mb())
		extra()
	case c < 56:
		b.word(pickName("APPEND") + " ")
		b.piece(mb())
		b.word(" ")
		if g.r.chance(1, 3) {
			b.word(pick(g.r, []string{"(\\Seen)", "(\\Seen \\Deleted)", "()", "(custom)"}) + " ")
		}
		// the message is always a literal
		var p sfPiece
		for p.kind == 0 {
			p = g.arg("x", false)
		}
		b.piece(p)
		if g.r.chance(1, 12) {
			b.word(" trailing")
			g.count("append-trailing")
		}
	case c < 66:
		b.word(pickName("NOOP", "CAPABILITY", "CHECK", "CLOSE", "UNSELECT", "EXPUNGE", "NAMESPACE", "STARTTLS", "FOO", "UID FOO"))
		extra()
	case c < 69:
		b.word(pickName("ENABLE") + " " + pick(g.r, []string{"IMAP4rev2", "UTF8=ACCEPT", "X-A X-B"}))
		extra()
	case c < 71:
		b.word(pickName("LOGOUT", "UNAUTHENTICATE"))
	case c < 80:
		b.word(pickName("AUTHENTICATE") + " " + pick(g.r, []string{"PLAIN", "plain", "PLAIN", "LOGIN"}))
		u, p := g.mark("au"), g.mark("ap")
		var line string
		switch v := g.r.intn(10); {
		case v < 3:
			line = plainB64(u, p)
		case v < 4:
			line = "*"
		case v < 5:
			line = "b" + g.mark("") + " DELETE " + g.mark("sm")
		case v < 7:
			n := pick(g.r, []int{4000, 4093, 4094, 4095, 4096, 4097, 8191, 8192, 9000})
			line = strings.Repeat("A", n) + "q" + g.mark("") + " DELETE " + g.mark("sm")
			g.count(fmt.Sprintf("sasl-long:%d", n))
		case v < 8:
			line = ""
		default:
			line = plainB64("", "")
		}
		if g.r.chance(1, 4) {
			// initial response on the command line
			if g.r.chance(1, 3) {
				b.word(" ")
				b.piece(g.arg(plainB64(u, p), false))
				g.count("sasl-ir-as-string")
			} else {
				ir := pick(g.r, []string{plainB64(u, p), "=", "!!", line})
				if ir == "" { // "AUTHENTICATE PLAIN " + CRLF has no initial response: the server would ask
					ir = "="
				}
				b.word(" " + ir)
			}
			return b.end()
		}
		b.cur = append(b.cur, "\r\n"...)
		b.cmd.segs = append(b.cmd.segs, sfSeg{text: b.cur, kind: 'a', payload: []byte(line + "\r\n")}, sfSeg{})
		if g.state == 0 {
			g.state = 1
		}
		return b.cmd
	case c < 88:
		b.word(pickName("IDLE"))
		var line string
		switch v := g.r.intn(8); {
		case v < 4:
			line = "DONE"
		case v < 5:
			line = "done"
		case v < 6:
			line = "b" + g.mark("") + " DELETE " + g.mark("sm")
		default:
			n := pick(g.r, []int{4093, 4094, 4095, 4096, 4097, 9000})
			line = strings.Repeat("D", n) + "q" + g.mark("") + " DELETE " + g.mark("sm")
			g.count(fmt.Sprintf("idle-long:%d", n))
		}
		b.cur = append(b.cur, "\r\n"...)
		b.cmd.segs = append(b.cmd.segs, sfSeg{text: b.cur, kind: 'i', payload: []byte(line + "\r\n")}, sfSeg{})
		return b.cmd
	case c < 93:
		b.word(pickName("SEARCH", "UID SEARCH") + " " + pick(g.r, []string{"ALL", "NOT SEEN", "OR SEEN (DELETED NOT NEW)", "(ALL) UNSEEN", "NOT NOT NOT ALL", "((ALL))", "OR ALL", "NOT"}))
		extra()
	default:
		// commands outside the model's signature table, with string arguments in every form
		switch g.r.intn(6) {
		case 0:
			b.word(pickName("LIST") + " ")
			b.piece(g.arg(g.mark("ref"), true))
			b.word(" ")
			b.piece(g.arg(g.mark("pat"), true))
		case 1:
			b.word(pickName("STATUS") + " ")
			b.piece(mb())
			b.word(" (MESSAGES UNSEEN)")
		case 2:
			b.word(pickName("SEARCH") + " SUBJECT ")
			b.piece(g.arg(g.mark("subj"), false))
			b.word(" TEXT ")
			b.piece(g.arg(g.mark("txt"), false))
		case 3:
			b.word(pickName("COPY", "MOVE", "UID COPY") + " 1:3 ")
			b.piece(mb())
		case 4:
			b.word(pickName("FETCH") + " 1 (BODY[HEADER.FIELDS (")
			b.piece(g.arg(g.mark("hf"), false))
			b.word(")])")
		default:
			b.word(pickName("STORE") + " 1 +FLAGS (\\Seen)")
			extra()
		}
	}
	return b.end()
}

// echoStream: after ENABLE the server may write client-supplied strings as quoted strings; a FETCH
// of BODY[HEADER.FIELDS (...)] echoes the header field names the client sent as literals.
func (g *sfGen) echoStream() []sfCmd {
	mk := func(text string) sfCmd {
		tag := g.mark("t")
		return sfCmd{tag: tag, segs: []sfSeg{{text: []byte(tag + " " + text + "\r\n")}}}
	}
	cmds := []sfCmd{mk("LOGIN " + g.mark("u") + " " + g.mark("p"))}
	if g.r.chance(3, 4) {
		cmds = append(cmds, mk("ENABLE "+pick(g.r, []string{"UTF8=ACCEPT", "IMAP4rev2", "IMAP4rev2 UTF8=ACCEPT"})))
		g.count("echo:enabled")
	}
	cmds = append(cmds, mk("SELECT "+g.mark("mb")))
	for i, n := 0, 1+g.r.intn(2); i < n; i++ {
		tag := g.mark("t")
		b := &sfBuilder{cmd: sfCmd{tag: tag}}
		b.word(tag + " " + pick(g.r, []string{"FETCH", "UID FETCH"}) + " 1 " + pick(g.r, []string{"BODY", "BODY.PEEK"}) +
			"[" + pick(g.r, []string{"HEADER.FIELDS", "HEADER.FIELDS.NOT"}) + " (")
		for j, m := 0, 1+g.r.intn(2); j < m; j++ {
			if j > 0 {
				b.word(" ")
			}
			size := pick(g.r, []int{9, 20, 33, 60})
			var payload []byte
			switch g.r.intn(3) {
			case 0:
				payload = []byte("Subject\r\n* BYE forged " + g.mark("f"))
			case 1:
				payload = append([]byte("X-"+g.mark("h")+"\x00"), g.payload(size, false)...)
			default:
				payload = g.payload(size, false)
			}
			hdr := fmt.Sprintf("{%d}", len(payload))
			k := byte('s')
			if g.r.chance(1, 2) {
				hdr, k = fmt.Sprintf("{%d+}", len(payload)), 'n'
			}
			b.piece(sfPiece{text: hdr + "\r\n", kind: k, payload: payload})
		}
		b.word(")]")
		cmds = append(cmds, b.end())
		g.count("echo:fetch-header-fields")
	}
	cmds = append(cmds, mk("STATUS "+g.mark("mb")+" (MESSAGES)"), mk("NOOP"))
	return cmds
}

func (g *sfGen) stream() []sfCmd {
	if g.r.chance(1, 12) {
		return g.echoStream()
	}
	var cmds []sfCmd
	// reach a state first, most of the time
	mk := func(text string) sfCmd {
		tag := g.mark("t")
		return sfCmd{tag: tag, segs: []sfSeg{{text: []byte(tag + " " + text + "\r\n")}}}
	}
	switch g.r.intn(4) {
	case 1:
		cmds = append(cmds, mk("LOGIN "+g.mark("u")+" "+g.mark("p")))
		g.state = 1
	case 2, 3:
		cmds = append(cmds, mk("LOGIN "+g.mark("u")+" "+g.mark("p")), mk("SELECT "+g.mark("mb")))
		g.state = 2
	}
	n := 1 + g.r.intn(6)
	for i := 0; i < n; i++ {
		cmds = append(cmds, g.command())
	}
	return cmds
}

// streams outside the oracle's domain: the RFC lexer and the library's liberal lexer may
// legitimately frame them differently. Model comparison, output well-formedness and "no panic"
// still apply.
func (g *sfGen) wildStream() []sfCmd {
	raw := func(s string) sfCmd {
		tag := g.mark("t")
		return sfCmd{tag: tag, segs: []sfSeg{{text: []byte(tag + " " + s)}}}
	}
	var cmds []sfCmd
	if g.r.chance(1, 2) {
		cmds = append(cmds, raw("LOGIN a b\r\n"))
	}
	for i, n := 0, 1+g.r.intn(3); i < n; i++ {
		switch g.r.intn(6) {
		case 0:
			cmds = append(cmds, raw("LOGIN \"x\r\ny\" p\r\n"))
			g.count("wild:quoted-crlf")
		case 1:
			cmds = append(cmds, raw("NOOP\n"))
			g.count("wild:lone-lf")
		case 2:
			cmds = append(cmds, raw("LOGIN {3} \r\nabc p\r\n"))
			g.count("wild:sp-before-crlf")
		case 3:
			cmds = append(cmds, raw("DELETE \"abc {3}\r\nxyz\r\n"))
			g.count("wild:open-quote")
		case 4:
			cmds = append(cmds, raw("NOOP\rX\r\n"))
			g.count("wild:lone-cr")
		default:
			cmds = append(cmds, raw("NOOP\r\n"))
		}
	}
	return cmds
}
