//go:build c14 || allprops

package main

// C14 — concurrent sessions on shared mailboxes never deadlock or race.
//
// This file (built without instrumentation) runs 2..8 sessions concurrently against the real
// imapserver + imapmemserver under the OS scheduler with a per-command watchdog; every run is one
// case line (mode, seed, sessions, mailboxes, commands per session, outcome, detail). The same code
// built with -race is run by the `pre` step of checklib/prop_C14.py in the thorough tier.
// The lock-nesting sweep and the realisation of lock-order cycles live in c14instr.go (build tag
// c14instr, built with `go build -overlay` by the `pre` step); their case lines are handed to this
// generator through the directory named by $VERIF_C14_PRE and re-emitted here, so that every
// observation goes through the Lean driver and the framework's decision rule.

import (
	"bufio"
	"bytes"
	"fmt"
	"os"
	"path/filepath"
	"runtime"
	"sort"
	"strconv"
	"strings"
	"sync"
	"time"

	"github.com/emersion/go-imap/v2"
	"github.com/emersion/go-imap/v2/imapserver"
	"github.com/emersion/go-imap/v2/imapserver/imapmemserver"
)

func init() {
	props["C14"] = genC14
	replayers["C14"] = replayC14
}

// c14SweepHook is set by c14instr.go (instrumented build only).
var c14SweepHook func(e *emitter, seed uint64)

// c14AttemptHook, when set (instrumented build), replays the parties of a realised cycle with the
// rendezvous armed; cycle is the class cycle "A>B>A".
var c14AttemptHook func(parties []string, cycle string) (outcome, detail string)

// c14CmdHook, when set (instrumented build), is told the label of every command a client sends.
var c14CmdHook func(label string)

// ---------------------------------------------------------------------------------------------
// world: a real server over in-memory connections with the in-memory backend

type c14World struct {
	srv  *imapserver.Server
	ln   *memListener
	mem  *imapmemserver.Server
	user *imapmemserver.User
	mu   sync.Mutex
	logs []string
}

func (w *c14World) Printf(format string, args ...interface{}) {
	w.mu.Lock()
	if len(w.logs) < 50 {
		w.logs = append(w.logs, fmt.Sprintf(format, args...))
	}
	w.mu.Unlock()
}

func (w *c14World) panics() string {
	w.mu.Lock()
	defer w.mu.Unlock()
	for _, l := range w.logs {
		if strings.Contains(l, "panic") {
			return l
		}
	}
	return ""
}

type c14Lit struct{ *bytes.Reader }

func (l c14Lit) Size() int64 { return l.Reader.Size() }

func c14Msg(i int) []byte {
	return []byte(fmt.Sprintf("From: a@example.org\r\nSubject: m%d\r\n\r\nbody of message %d\r\n", i, i))
}

// newC14World creates mailboxes M0..M{nmbox-1}, each with nmsgs messages (the first \Seen, the
// second \Deleted).
func newC14World(nmbox, nmsgs int) *c14World {
	w := &c14World{ln: newMemListener(), mem: imapmemserver.New()}
	w.user = imapmemserver.NewUser("u", "p")
	for i := 0; i < nmbox; i++ {
		name := fmt.Sprintf("M%d", i)
		if err := w.user.Create(name, nil); err != nil {
			panic(err)
		}
		for j := 0; j < nmsgs; j++ {
			var fl []imap.Flag
			switch j {
			case 0:
				fl = []imap.Flag{imap.FlagSeen}
			case 1:
				fl = []imap.Flag{imap.FlagDeleted}
			}
			if _, err := w.user.Append(name, c14Lit{bytes.NewReader(c14Msg(j))}, &imap.AppendOptions{Flags: fl}); err != nil {
				panic(err)
			}
		}
	}
	w.mem.AddUser(w.user)
	w.srv = imapserver.New(&imapserver.Options{
		NewSession: func(conn *imapserver.Conn) (imapserver.Session, *imapserver.GreetingData, error) {
			return w.mem.NewSession(), nil, nil
		},
		Caps:         imap.CapSet{imap.CapIMAP4rev1: {}, imap.CapIMAP4rev2: {}},
		InsecureAuth: true,
		Logger:       w,
	})
	go w.srv.Serve(w.ln)
	return w
}

// close shuts the server down without ever blocking the harness (a deadlocked server may not close).
func (w *c14World) close() {
	done := make(chan struct{})
	go func() { w.srv.Close(); close(done) }()
	select {
	case <-done:
	case <-time.After(2 * time.Second):
	}
}

// ---------------------------------------------------------------------------------------------
// client

type c14Client struct {
	conn  *memConn
	br    *bufio.Reader
	n     int
	name  string
	label string // prefix of the instrumentation context ("setup", a sweep step id, ...)

	wantCont bool // readUntil also stops at a continuation request
	glued    int  // tagged replies found in the middle of a line (see readUntil)
}

func (w *c14World) dial(name string, wd time.Duration) (*c14Client, bool) {
	c := &c14Client{conn: w.ln.dial(), name: name, label: "setup"}
	c.br = bufio.NewReader(c.conn)
	_, st := c.readUntil("* ", wd)
	return c, st != "TIMEOUT" && st != "EOF"
}

// readUntil reads lines until one starts with prefix; status is the word after the prefix
// (OK/NO/BAD/...), "EOF" or "TIMEOUT".
func (c *c14Client) readUntil(prefix string, wd time.Duration) ([]string, string) {
	c.conn.SetReadDeadline(time.Now().Add(wd))
	var lines []string
	for {
		l, err := c.br.ReadString('\n')
		l = strings.TrimRight(l, "\r\n")
		if err != nil {
			if os.IsTimeout(err) {
				return lines, "TIMEOUT"
			}
			return lines, "EOF"
		}
		lines = append(lines, l)
		if strings.HasPrefix(l, prefix) {
			f := strings.Fields(l[len(prefix):])
			if len(f) == 0 {
				return lines, "?"
			}
			return lines, f[0]
		}
		if i := strings.Index(l, " "+prefix); i >= 0 && strings.HasPrefix(l, "* ") {
			// not C14's business, but it must not be mistaken for a hang: when COPYUID cannot be
			// encoded (COPY/MOVE that matched no message) the server abandons the line it was writing
			// and the tagged reply follows on the same line
			c.glued++
			f := strings.Fields(l[i+1+len(prefix):])
			if len(f) == 0 {
				return lines, "?"
			}
			return lines, f[0]
		}
		if c.wantCont && strings.HasPrefix(l, "+") {
			return lines, "+"
		}
	}
}

func c14CmdName(text string) string {
	f := strings.Fields(text)
	if len(f) == 0 {
		return "?"
	}
	n := strings.ToUpper(f[0])
	if n == "UID" && len(f) > 1 {
		n += "-" + strings.ToUpper(f[1])
	}
	return n
}

// do sends one command and waits for its completion. IDLE is ended by DONE after a short pause.
// `IDLE+` starts idling and returns at the continuation request; `DONE` then ends it.
func (c *c14Client) do(text string, wd time.Duration) string {
	if c14CmdHook != nil {
		c14CmdHook(c.label + ":" + c14CmdName(text))
	}
	if text == "DONE" {
		c.conn.Write([]byte("DONE\r\n"))
		_, st := c.readUntil(fmt.Sprintf("%s%d ", c.name, c.n), wd)
		return st
	}
	c.n++
	tag := fmt.Sprintf("%s%d", c.name, c.n)
	if text == "IDLE" || text == "IDLE+" {
		c.conn.Write([]byte(tag + " IDLE\r\n"))
		c.wantCont = true
		_, st := c.readUntil(tag+" ", wd)
		c.wantCont = false
		if st != "+" || text == "IDLE+" {
			return st
		}
		time.Sleep(200 * time.Microsecond)
		c.conn.Write([]byte("DONE\r\n"))
		_, st = c.readUntil(tag+" ", wd)
		return st
	}
	c.conn.Write([]byte(tag + " " + text + "\r\n"))
	_, st := c.readUntil(tag+" ", wd)
	return st
}

func c14Append(mbox string, i int) string {
	m := c14Msg(i)
	return fmt.Sprintf("APPEND %s (\\Seen) {%d+}\r\n%s", mbox, len(m), m)
}

// c14Keyword is a fresh mixed-case client keyword: per session and per iteration a spelling nobody
// has used before (backends that intern or cache flag spellings are only exercised by new ones).
func c14Keyword(sess, i int) string {
	if i%4 == 3 {
		return fmt.Sprintf("$Label%dx%d", sess, i)
	}
	return fmt.Sprintf("Project-S%d-N%d", sess, i)
}

func c14AppendKw(mbox string, i int, kw string) string {
	m := c14Msg(i)
	return fmt.Sprintf("APPEND %s (\\Seen %s) {%d+}\r\n%s", mbox, kw, len(m), m)
}

// c14Dump returns the stacks of the goroutines that are inside the server packages.
func c14Dump() string {
	buf := make([]byte, 1<<20)
	buf = buf[:runtime.Stack(buf, true)]
	var out []string
	total := 0
	for _, g := range strings.Split(string(buf), "\n\n") {
		if !strings.Contains(g, "go-imap/v2/imapserver") && !strings.Contains(g, "/imapserver/") {
			continue
		}
		ls := strings.Split(g, "\n")
		if len(ls) > 17 {
			ls = ls[:17]
		}
		s := strings.Join(ls, "\n")
		if total+len(s) > 7000 {
			break
		}
		total += len(s)
		out = append(out, s)
	}
	return strings.Join(out, "\n\n")
}

// ---------------------------------------------------------------------------------------------
// histories

type c14Sess struct {
	id       int
	nmbox    int
	selected int // -1: none
	r        *rng
	k        int
}

func (s *c14Sess) mb() string { return fmt.Sprintf("M%d", s.r.intn(s.nmbox)) }

func (s *c14Sess) other() string {
	if s.selected < 0 {
		return s.mb()
	}
	return fmt.Sprintf("M%d", (s.selected+1+s.r.intn(s.nmbox-1))%s.nmbox)
}

// next draws the next command of a random history.
func (s *c14Sess) next() string {
	s.k++
	r := s.r
	scratch := fmt.Sprintf("T%d", s.id)
	last := fmt.Sprintf("M%d", s.nmbox-1)
	common := func() string {
		switch r.intn(16) {
		case 0, 1:
			return `LIST "" "*"`
		case 2:
			return `LIST "" "*" RETURN (STATUS (MESSAGES UNSEEN))`
		case 3, 4:
			return "STATUS " + s.mb() + " (MESSAGES UIDNEXT UNSEEN)"
		case 5, 6, 7:
			return c14AppendKw(s.mb(), s.k, c14Keyword(s.id, s.k))
		case 8:
			return "CREATE " + scratch
		case 9:
			return "DELETE " + scratch
		case 10:
			if r.chance(1, 2) {
				return "RENAME " + last + " X" + last
			}
			return "RENAME X" + last + " " + last
		case 11:
			if r.chance(1, 2) {
				return "SUBSCRIBE " + s.mb()
			}
			return "UNSUBSCRIBE " + s.mb()
		case 12:
			return "NOOP"
		case 13:
			return "IDLE"
		case 14:
			if r.chance(1, 3) {
				if r.chance(1, 2) {
					return "DELETE " + last
				}
				return "CREATE " + last
			}
			return "NOOP"
		default:
			return `LIST "" "M%" RETURN (SUBSCRIBED)`
		}
	}
	if s.selected < 0 {
		if r.chance(3, 5) {
			s.selected = r.intn(s.nmbox)
			verb := "SELECT"
			if r.chance(1, 6) {
				verb = "EXAMINE"
			}
			return fmt.Sprintf("%s M%d", verb, s.selected)
		}
		return common()
	}
	switch r.intn(40) {
	case 0, 1, 2, 3:
		return "FETCH 1:* (FLAGS UID)"
	case 4, 5:
		return "FETCH 1:2 (BODY[])"
	case 6:
		return "UID FETCH 1:* (FLAGS BODY.PEEK[HEADER])"
	case 7, 8:
		return `STORE 1:2 +FLAGS (\Deleted)`
	case 9:
		return "STORE 1:2 +FLAGS (" + c14Keyword(s.id, s.k) + ")"
	case 10:
		return `STORE 1 -FLAGS.SILENT (\Deleted)`
	case 11:
		if r.chance(1, 2) {
			return "UID STORE 1:* +FLAGS.SILENT (" + c14Keyword(s.id, s.k) + ")"
		}
		return `UID STORE 1:* +FLAGS (\Flagged)`
	case 12:
		return "SEARCH UNDELETED"
	case 13:
		return "SEARCH KEYWORD " + c14Keyword(s.id, s.k)
	case 14:
		if r.chance(1, 2) {
			return "UID SEARCH UNKEYWORD " + c14Keyword(s.id, s.k)
		}
		return "UID SEARCH ALL"
	case 15, 16:
		return "EXPUNGE"
	case 17, 18, 19, 20, 21:
		return "COPY 1 " + s.other()
	case 22:
		return "UID COPY 1:3 " + s.other()
	case 23, 24, 25, 26:
		return "MOVE 1 " + s.other()
	case 27:
		return "UID MOVE 1:2 " + s.other()
	case 28:
		s.selected = -1
		if r.chance(1, 2) {
			return "CLOSE"
		}
		return "UNSELECT"
	case 29, 30:
		s.selected = r.intn(s.nmbox)
		return fmt.Sprintf("SELECT M%d", s.selected)
	case 31:
		return "IDLE"
	default:
		return common()
	}
}

// c14History is the deterministic command list of one session.
func c14History(mode string, seed uint64, sess, nsess, nmbox, n int) []string {
	var h []string
	switch mode {
	case "rand", "race-rand":
		s := &c14Sess{id: sess, nmbox: nmbox, selected: -1, r: newRng(seed, fmt.Sprintf("C14/%s/%d", mode, sess))}
		for i := 0; i < n; i++ {
			h = append(h, s.next())
		}
		h = append(h, "LOGOUT")
	default:
		// opposite-direction pairs: session i works from mailbox i%nmbox towards the next mailbox, the
		// neighbouring session in the other direction. mode = opp-<verb>[-<verb of odd sessions>]
		verbs := strings.Split(strings.TrimPrefix(strings.TrimPrefix(mode, "race-"), "opp-"), "-")
		verb := verbs[0]
		if sess%2 == 1 && len(verbs) > 1 {
			verb = verbs[1]
		}
		src := (sess / 2 * 2) % nmbox
		dst := (src + 1) % nmbox
		if sess%2 == 1 {
			src, dst = dst, src
		}
		h = append(h, fmt.Sprintf("SELECT M%d", src))
		for i := 0; i < n; i++ {
			// fresh keywords travel with the copied/moved messages and are looked up by other sessions
			switch i % 5 {
			case 1:
				h = append(h, "STORE 1 +FLAGS.SILENT ("+c14Keyword(sess, i)+")")
			case 3:
				h = append(h, "SEARCH KEYWORD "+c14Keyword(sess, i))
			}
			switch verb {
			case "copy":
				h = append(h, fmt.Sprintf("COPY 1 M%d", dst))
			case "uidcopy":
				// bounded: copying 1:* in both directions would double the mailboxes every round
				h = append(h, fmt.Sprintf("UID COPY 1:3 M%d", dst))
				if i%8 == 7 {
					h = append(h, `STORE 4:* +FLAGS.SILENT (\Deleted)`, "EXPUNGE")
				}
			case "move":
				h = append(h, fmt.Sprintf("MOVE 1 M%d", dst))
				if i%2 == 1 {
					h = append(h, c14AppendKw(fmt.Sprintf("M%d", src), i, c14Keyword(sess, i)))
				}
			case "uidmove":
				h = append(h, fmt.Sprintf("UID MOVE 1:9 M%d", dst))
				h = append(h, c14AppendKw(fmt.Sprintf("M%d", src), i, c14Keyword(sess, i)))
			case "fetch":
				h = append(h, "FETCH 1:* (FLAGS BODY[])", fmt.Sprintf("COPY 1 M%d", dst), "EXPUNGE")
			default:
				panic("c14: unknown verb " + verb)
			}
		}
		h = append(h, "LOGOUT")
	}
	return h
}

type c14Result struct {
	counts  []int
	outcome string // ok | stuck | panic | race | slow
	detail  string
	glued   int // tagged replies that arrived glued to an abandoned untagged line (see readUntil)
}

// c14Run executes one concurrent run under the OS scheduler. wd is the per-command watchdog; a
// command that is still incomplete after wd is given a second period of the same length before it
// counts as never completing.
func c14Run(mode string, seed uint64, nsess, nmbox, n int, wd time.Duration) c14Result {
	w := newC14World(nmbox, 3)
	defer w.close()
	res := c14Result{counts: make([]int, nsess), outcome: "ok", detail: "-"}
	hist := make([][]string, nsess)
	for i := range hist {
		hist[i] = c14History(mode, seed, i, nsess, nmbox, n)
		res.counts[i] = len(hist[i])
	}
	var (
		mu    sync.Mutex
		stuck []string
		slow  int
		abort = make(chan struct{})
		once  sync.Once
		start = make(chan struct{})
		wg    sync.WaitGroup
	)
	for i := 0; i < nsess; i++ {
		wg.Add(1)
		go func(i int) {
			defer wg.Done()
			c, ok := w.dial(fmt.Sprintf("s%dx", i), 2*wd)
			if !ok {
				mu.Lock()
				stuck = append(stuck, fmt.Sprintf("session %d: no greeting", i))
				mu.Unlock()
				once.Do(func() { close(abort) })
				return
			}
			defer c.conn.Close()
			defer func() { mu.Lock(); res.glued += c.glued; mu.Unlock() }()
			<-start
			cmds := append([]string{"LOGIN u p"}, hist[i]...)
			for _, cmd := range cmds {
				select {
				case <-abort:
					return
				default:
				}
				st := c.do(cmd, wd)
				if st == "TIMEOUT" {
					// grace period: read on for the completion of the same command
					_, st = c.readUntil(fmt.Sprintf("%s%d ", c.name, c.n), wd)
					if st != "TIMEOUT" {
						mu.Lock()
						slow++
						mu.Unlock()
					}
				}
				if st == "TIMEOUT" {
					mu.Lock()
					stuck = append(stuck, fmt.Sprintf("session %d: %q did not complete within %v", i, strings.SplitN(cmd, "\r\n", 2)[0], 2*wd))
					mu.Unlock()
					once.Do(func() { close(abort) })
					return
				}
				if st == "EOF" {
					return // connection closed by the server (LOGOUT, or a panic which is reported from the log)
				}
			}
		}(i)
	}
	close(start)
	all := make(chan struct{})
	go func() { wg.Wait(); close(all) }()
	select {
	case <-all:
	case <-abort:
		// give the other sessions a moment to report where they are stuck, then take the dump
		select {
		case <-all:
		case <-time.After(wd / 4):
		}
	}
	mu.Lock()
	defer mu.Unlock()
	switch {
	case len(stuck) > 0:
		sort.Strings(stuck)
		res.outcome = "stuck"
		res.detail = hx([]byte(strings.Join(stuck, "\n") + "\n\n" + c14Dump()))
	case w.panics() != "":
		res.outcome = "panic"
		p := w.panics()
		if len(p) > 3000 {
			p = p[:3000]
		}
		res.detail = hx([]byte(p))
	case slow > 0:
		res.outcome = "slow"
	}
	return res
}

func c14Counts(c []int) string {
	s := make([]string, len(c))
	for i, n := range c {
		s[i] = strconv.Itoa(n)
	}
	return strings.Join(s, ",")
}

type c14Plan struct {
	mode               string
	seed               uint64
	nsess, nmbox, ncmd int
}

func c14Plans(tier string, seed uint64) []c14Plan {
	r := newRng(seed, "C14/plans/"+tier)
	var ps []c14Plan
	scale, prefix := 1, ""
	switch tier {
	case "thorough":
		scale = 5
	case "widen":
		scale = 4
	case "race":
		prefix = "race-"
	}
	opp := []string{"opp-copy", "opp-move", "opp-copy-move", "opp-uidcopy", "opp-uidmove", "opp-fetch"}
	for k := 0; k < scale; k++ {
		for _, m := range opp {
			ns := 2
			if k > 0 {
				ns = 2 + 2*r.intn(4)
			}
			ps = append(ps, c14Plan{prefix + m, r.next() % 1000000, ns, 2 + r.intn(2), 150})
		}
	}
	for k := 0; k < 10*scale; k++ {
		ps = append(ps, c14Plan{prefix + "rand", r.next() % 1000000, 2 + r.intn(7), 2 + r.intn(2), 60 + r.intn(60)})
	}
	return ps
}

func (p c14Plan) run(e *emitter, wd time.Duration) string {
	// in a child process: a racing server usually dies with an unrecoverable runtime error
	res := c14RunIsolated(p.mode, p.seed, p.nsess, p.nmbox, p.ncmd, wd)
	e.emit("run", p.mode, strconv.FormatUint(p.seed, 10), strconv.Itoa(p.nsess), strconv.Itoa(p.nmbox),
		strconv.Itoa(p.ncmd), c14Counts(res.counts), res.outcome, res.detail)
	e.count("run:" + p.mode)
	e.count(fmt.Sprintf("sessions:%d", p.nsess))
	e.count("outcome:" + res.outcome)
	for i := 0; i < res.glued; i++ {
		e.count("wire:tagged-reply-glued-to-abandoned-COPYUID-line")
	}
	if res.outcome == "slow" {
		return "ok"
	}
	return res.outcome
}

const c14Watchdog = 30 * time.Second

func genC14(e *emitter, tier string, seed uint64) {
	if tier == "sweep" {
		if c14SweepHook == nil {
			panic("c14: tier sweep needs the instrumented build (tag c14instr, -overlay)")
		}
		c14SweepHook(e, seed)
		return
	}
	// observations made by the pre step (instrumented sweep, realised cycles, -race runs)
	if dir := os.Getenv("VERIF_C14_PRE"); dir != "" && tier != "race" {
		files, _ := filepath.Glob(filepath.Join(dir, "*.tsv"))
		sort.Strings(files)
		for _, f := range files {
			data, err := os.ReadFile(f)
			if err != nil {
				panic(err)
			}
			for _, line := range strings.Split(strings.TrimRight(string(data), "\n"), "\n") {
				fs := strings.Split(line, "\t")
				if len(fs) >= 3 && fs[0] == "C14" {
					e.emit(fs[2], fs[3:]...)
				}
			}
		}
		dists, _ := filepath.Glob(filepath.Join(dir, "*.dist"))
		for _, f := range dists {
			data, _ := os.ReadFile(f)
			for _, line := range strings.Split(strings.TrimRight(string(data), "\n"), "\n") {
				kv := strings.Split(line, "\t")
				if len(kv) == 2 {
					n, _ := strconv.Atoi(kv[1])
					e.mu.Lock()
					e.dist[kv[0]] += n
					e.mu.Unlock()
				}
			}
		}
	} else if tier != "race" {
		e.count("pre:absent")
	}
	bad := 0
	for _, p := range c14Plans(tier, seed) {
		if bad >= 2 {
			// every never-completing command costs two watchdog periods; two witnesses are enough
			e.count("skipped:after-two-failing-runs")
			continue
		}
		if p.run(e, c14Watchdog) != "ok" {
			bad++
		}
	}
}

// replayC14 re-runs a recorded case. `run` lines are re-executed with the same seed (the OS
// scheduler is not replayable, so a failing run is attempted up to 5 times); `realise` lines are
// replayed without instrumentation by running the recorded commands against each other in a loop.
func replayC14(e *emitter, kind string, f []string) {
	switch kind {
	case "run":
		if len(f) < 8 {
			panic("c14 replay: short run line")
		}
		seed, _ := strconv.ParseUint(f[1], 10, 64)
		ns, _ := strconv.Atoi(f[2])
		nm, _ := strconv.Atoi(f[3])
		nc, _ := strconv.Atoi(f[4])
		mode := strings.TrimPrefix(f[0], "race-")
		var res c14Result
		for try := 0; try < 5; try++ {
			res = c14RunIsolated(mode, seed, ns, nm, nc, c14Watchdog/2)
			if res.outcome != "ok" && res.outcome != "slow" {
				break
			}
		}
		e.emit("run", f[0], f[1], f[2], f[3], f[4], c14Counts(res.counts), res.outcome, res.detail)
	case "realise":
		if len(f) < 4 {
			panic("c14 replay: short realise line")
		}
		parties := strings.Split(string(unhx(f[1])), "\n")
		var outcome, detail string
		if c14AttemptHook != nil {
			outcome, detail = c14AttemptHook(parties, f[0])
		} else {
			outcome, detail = c14ReplayParties(parties)
		}
		e.emit("realise", f[0], f[1], outcome, detail)
	default:
		// graph/edge/sweep lines describe the instrumented sweep; they are re-validated as they are
		e.emit(kind, f...)
	}
}

// c14Party is "state|command": state is na, auth, sel:<mailbox> or exa:<mailbox>.
func c14Enter(c *c14Client, state string, wd time.Duration) {
	if state == "na" {
		return
	}
	c.do("LOGIN u p", wd)
	switch {
	case strings.HasPrefix(state, "sel:"):
		c.do("SELECT "+state[4:], wd)
	case strings.HasPrefix(state, "exa:"):
		c.do("EXAMINE "+state[4:], wd)
	}
}

// c14ReplayParties runs the recorded commands against each other, repeatedly, on fresh worlds.
func c14ReplayParties(parties []string) (string, string) {
	wd := c14Watchdog / 2
	deadline := time.Now().Add(25 * time.Second)
	for round := 0; time.Now().Before(deadline) && round < 20000; round++ {
		w := newC14World(3, 3)
		var wg sync.WaitGroup
		var mu sync.Mutex
		var stuck []string
		start := make(chan struct{})
		for i, p := range parties {
			sc := strings.SplitN(p, "|", 2)
			if len(sc) != 2 {
				panic("c14 replay: bad party " + p)
			}
			c, _ := w.dial(fmt.Sprintf("p%dx", i), wd)
			c14Enter(c, sc[0], wd)
			wg.Add(1)
			go func(i int, c *c14Client, cmd string) {
				defer wg.Done()
				<-start
				for k := 0; k < 1+round%3; k++ {
					if st := c.do(cmd, wd); st == "TIMEOUT" {
						mu.Lock()
						stuck = append(stuck, fmt.Sprintf("party %d: %q never completed", i, cmd))
						mu.Unlock()
						return
					} else if st == "EOF" {
						return
					}
				}
			}(i, c, sc[1])
		}
		close(start)
		wg.Wait()
		if len(stuck) > 0 {
			sort.Strings(stuck)
			d := hx([]byte(strings.Join(stuck, "\n") + "\n\n" + c14Dump()))
			w.close()
			return "deadlock", d
		}
		w.close()
	}
	return "not-realised", "-"
}
