//go:build c20 || allprops

package main

import (
	"regexp"
	"strconv"
	"strings"

	"github.com/emersion/go-imap/v2/imapserver"
	"github.com/emersion/go-imap/v2/imapserver/imapmemserver"
)

// C20 — LIST wildcard matching: imapserver.MatchList.

func init() {
	props["C20"] = genC20
	replayers["C20"] = replayC20
}

func c20Names(alpha []byte, maxLen int) []string {
	level := []string{""}
	all := []string{""}
	for n := 1; n <= maxLen; n++ {
		var next []string
		for _, a := range alpha {
			for _, s := range level {
				next = append(next, string(a)+s)
			}
		}
		// order: first byte most significant, i.e. alpha-major over the previous level
		level = next
		all = append(all, next...)
	}
	return all
}

func c20Bitmap(names []string, delim rune, ref, pat string) string {
	var sb strings.Builder
	for _, n := range names {
		sb.WriteString(b01(imapserver.MatchList(n, delim, ref, pat)))
	}
	return sb.String()
}

func c20DelimStr(delim rune) string {
	if delim == 0 {
		return ""
	}
	return string(delim)
}

// c20Regexp is the independent cross-check suggested by the property text: an anchored regular
// expression built from the pattern. It supports the harness only (it is compared with the
// implementation and a mismatch is reported as a harness note), the verdict comes from Lean.
func c20Regexp(delim rune, pat string) *regexp.Regexp {
	var sb strings.Builder
	sb.WriteString(`(?s)^`)
	for i := 0; i < len(pat); i++ {
		switch pat[i] {
		case '*':
			sb.WriteString(`.*`)
		case '%':
			if delim == 0 {
				sb.WriteString(`.*`)
			} else {
				sb.WriteString(`[^` + regexp.QuoteMeta(string(delim)) + `]*`)
			}
		default:
			sb.WriteString(regexp.QuoteMeta(string(pat[i])))
		}
	}
	sb.WriteString(`$`)
	return regexp.MustCompile(sb.String())
}

func genC20(e *emitter, tier string, seed uint64) {
	nameLen, patLen, nRand := 5, 4, 20000
	if tier == "thorough" {
		nameLen, patLen, nRand = 6, 5, 400000
	}
	if tier == "widen" {
		nameLen, patLen, nRand = 6, 4, 200000
	}
	alpha := []byte("ab/")
	names := c20Names(alpha, nameLen)
	pats := c20Names([]byte("ab/*%"), patLen)
	refs := []string{"", "a", "a/", "b/a"}
	regexMismatch := 0
	for _, delim := range []rune{'/', 0} {
		for _, ref := range refs {
			for _, pat := range pats {
				bm := c20Bitmap(names, delim, ref, pat)
				e.emit("bm", strconv.Itoa(int(delim)), hx([]byte(c20DelimStr(delim))), hx([]byte(ref)), hx([]byte(pat)), hx(alpha), strconv.Itoa(nameLen), bm)
				if strings.ContainsAny(pat, "*%") {
					e.count("bm:wildcard")
				} else {
					e.count("bm:literal")
				}
				if ref == "" && !strings.HasPrefix(pat, "/") {
					re := c20Regexp(delim, pat)
					for i, n := range names {
						if re.MatchString(n) != (bm[i] == '1') {
							regexMismatch++
						}
					}
				}
			}
		}
	}
	e.dist["regexp-crosscheck-mismatches"] = regexMismatch
	// the same question through LIST on the real server with the in-memory backend
	srv := c20NewSrv()
	defer srv.srv.Close()
	listPatLen := 3
	if tier == "thorough" {
		listPatLen = 4
	}
	for _, ref := range []string{"", "a", "a/", "b", "b/a", "x", "a/b"} {
		for _, pat := range c20Names([]byte("ab/*%"), listPatLen) {
			c20ListCase(e, srv, ref, pat)
			e.count("list")
		}
	}
	// random longer cases, UTF-8 names, other delimiters
	r := newRng(seed, "C20")
	atoms := []string{"a", "b", "c", "INBOX", "é", "日本", "/", ".", "*", "%", "**", "%%", "*%", " ", "\\", "x/y", "\xff", "·", "→", "÷", "ⅆ"}
	delims := []rune{'/', '.', 0, '/', '.', 'é', 0x2F, 'a', 0xB7, 0x2192, 0x1F600, 0xE9}
	build := func(n int, wild bool) string {
		var sb strings.Builder
		for i := 0; i < n; i++ {
			a := pick(r, atoms)
			if !wild && (strings.ContainsAny(a, "*%")) {
				a = "w"
			}
			sb.WriteString(a)
		}
		return sb.String()
	}
	for i := 0; i < nRand; i++ {
		delim := pick(r, delims)
		name := build(r.intn(10), false)
		var pat string
		if r.chance(1, 2) {
			// derive the pattern from the name so that matches are frequent
			pat = name
			for k := r.intn(3); k >= 0 && len(pat) > 0; k-- {
				a, b := r.intn(len(pat)+1), r.intn(len(pat)+1)
				if a > b {
					a, b = b, a
				}
				pat = pat[:a] + pick(r, []string{"*", "%"}) + pat[b:]
			}
			e.count("one:derived")
		} else {
			pat = build(r.intn(6), true)
			e.count("one:random")
		}
		ref := ""
		switch r.intn(4) {
		case 0:
			if len(name) > 0 {
				ref = name[:r.intn(len(name)+1)]
			}
		case 1:
			ref = build(r.intn(3), false)
		}
		if ref != "" && r.chance(1, 2) && strings.HasPrefix(pat, ref) {
			pat = pat[len(ref):]
		}
		if delim >= 0x80 && r.chance(3, 4) {
			// a multi-byte delimiter: let it occur where the ASCII one did
			ds := string(delim)
			name, pat, ref = strings.ReplaceAll(name, "/", ds), strings.ReplaceAll(pat, "/", ds), strings.ReplaceAll(ref, "/", ds)
			e.count("one:multibyte-delim")
		}
		c20One(e, delim, ref, pat, name)
	}
	// small scope over CHARACTERS for multi-byte delimiters: the second name letter shares a byte
	// with the delimiter's encoding (÷ = C3 B7 / · = C2 B7, ↓ = E2 86 93 / → = E2 86 92)
	for _, sc := range []struct {
		delim rune
		other string
	}{{0xB7, "÷"}, {0x2192, "↓"}} {
		ds := string(sc.delim)
		ns := c20Words([]string{"a", ds, sc.other}, 4)
		ps := c20Words([]string{"a", ds, "*", "%"}, 3)
		for _, ref := range []string{"", "a", "a" + ds} {
			for _, pat := range ps {
				if ref != "" && len(pat) > 2*len(ds) {
					continue
				}
				for _, n := range ns {
					c20One(e, sc.delim, ref, pat, n)
					e.count("one:multibyte-small-scope")
				}
			}
		}
	}
}

// every word of at most maxLen letters over the given letters (each letter a string)
func c20Words(letters []string, maxLen int) []string {
	out := []string{""}
	level := []string{""}
	for i := 0; i < maxLen; i++ {
		var next []string
		for _, w := range level {
			for _, l := range letters {
				next = append(next, w+l)
			}
		}
		out = append(out, next...)
		level = next
	}
	return out
}

// --- LIST through the real server and the in-memory backend ---

var c20Mailboxes = []string{"a", "ab", "a/a", "a/b", "a/b/a", "a/ab", "b", "b/a", "ba/b"}

type c20Srv struct {
	srv *imapserver.Server
	ln  *memListener
	rc  *rawClient
	n   int
}

func c20NewSrv() *c20Srv {
	mem := imapmemserver.New()
	u := imapmemserver.NewUser("u", "p")
	for _, m := range c20Mailboxes {
		if err := u.Create(m, nil); err != nil {
			panic(err)
		}
	}
	mem.AddUser(u)
	ln := newMemListener()
	srv := imapserver.New(&imapserver.Options{
		NewSession: func(*imapserver.Conn) (imapserver.Session, *imapserver.GreetingData, error) {
			return mem.NewSession(), nil, nil
		},
		InsecureAuth: true,
		Logger:       discardLogger{},
	})
	go srv.Serve(ln)
	rc := newRawClient(ln.dial())
	rc.readLine()
	rc.cmd("l", "LOGIN u p")
	// some mailboxes are subscribed, most are not: LIST (without the SUBSCRIBED selection option)
	// lists both kinds
	rc.cmd("s1", "SUBSCRIBE a")
	rc.cmd("s2", "SUBSCRIBE a/b")
	return &c20Srv{srv: srv, ln: ln, rc: rc}
}

func c20Quote(s string) string { return `"` + s + `"` }

// list issues LIST ref pattern and returns a bitmap over c20Mailboxes of the names reported.
func (s *c20Srv) list(ref, pat string) string {
	s.n++
	// return options ask for more data about the mailboxes listed; they never select: which one is
	// used depends on the arguments only, so that a replay asks the same question
	h := len(ref)*7 + len(pat)
	for i := 0; i < len(pat); i++ {
		h += int(pat[i])
	}
	ret := []string{"", " RETURN (SUBSCRIBED)", " RETURN (CHILDREN)", " RETURN (STATUS (MESSAGES))", " RETURN (SUBSCRIBED CHILDREN)"}[h%5]
	if pat == "" {
		ret = ""
	}
	st, lines := s.rc.cmd("t"+strconv.Itoa(s.n), "LIST "+c20Quote(ref)+" "+c20Quote(pat)+ret)
	if st != "OK" {
		return "err:" + st
	}
	got := map[string]bool{}
	for _, l := range lines[:len(lines)-1] {
		if !strings.HasPrefix(l, "* LIST ") {
			continue
		}
		// * LIST (attrs) "/" name
		i := strings.Index(l, `"/" `)
		if i < 0 {
			return "err:unparsable"
		}
		got[strings.Trim(l[i+4:], `"`)] = true
	}
	if pat == "" {
		delete(got, "") // LIST with an empty pattern returns the hierarchy delimiter and an empty name
	}
	var sb strings.Builder
	for _, m := range c20Mailboxes {
		sb.WriteString(b01(got[m]))
		delete(got, m)
	}
	if len(got) > 0 {
		return "err:unknown-mailbox-listed"
	}
	return sb.String()
}

func c20ListCase(e *emitter, s *c20Srv, ref, pat string) {
	var names []string
	for _, m := range c20Mailboxes {
		names = append(names, hx([]byte(m)))
	}
	e.emit("list", "47", hx([]byte("/")), hx([]byte(ref)), hx([]byte(pat)), strings.Join(names, ","), s.list(ref, pat))
}

func c20One(e *emitter, delim rune, ref, pat, name string) {
	got := imapserver.MatchList(name, delim, ref, pat)
	e.emit("one", strconv.Itoa(int(delim)), hx([]byte(c20DelimStr(delim))), hx([]byte(ref)), hx([]byte(pat)), hx([]byte(name)), b01(got))
}

func replayC20(e *emitter, kind string, f []string) {
	d, _ := strconv.Atoi(f[0])
	switch kind {
	case "bm":
		ml, _ := strconv.Atoi(f[5])
		names := c20Names(unhx(f[4]), ml)
		e.emit("bm", f[0], f[1], f[2], f[3], f[4], f[5], c20Bitmap(names, rune(d), string(unhx(f[2])), string(unhx(f[3]))))
	case "one":
		c20One(e, rune(d), string(unhx(f[2])), string(unhx(f[3])), string(unhx(f[4])))
	case "list":
		srv := c20NewSrv()
		defer srv.srv.Close()
		c20ListCase(e, srv, string(unhx(f[2])), string(unhx(f[3])))
	}
}
