//go:build c14 || allprops

package main

// Crash isolation for the C14 concurrent runs: every run executes in a child process of this
// binary. A data race on a Go map usually ends the whole server process with
// "fatal error: concurrent map read and map write" (not recoverable, no goroutine survives): the
// child's death with that message IS the observation of the run (outcome `race`), not a failure of
// the harness. The same holds for a race report printed by a -race build and for the runtime's own
// "all goroutines are asleep - deadlock!".

import (
	"bytes"
	"fmt"
	"os"
	"os/exec"
	"strconv"
	"strings"
	"time"
)

func init() { workers["c14run"] = c14ChildMain }

// c14ChildMain runs one plan (from $VERIFH_C14_PLAN) and prints "counts\toutcome\tdetail\tglued".
func c14ChildMain() {
	f := strings.Split(os.Getenv("VERIFH_C14_PLAN"), "|")
	if len(f) != 6 {
		fmt.Fprintln(os.Stderr, "c14 child: bad plan")
		os.Exit(3)
	}
	seed, _ := strconv.ParseUint(f[1], 10, 64)
	ns, _ := strconv.Atoi(f[2])
	nm, _ := strconv.Atoi(f[3])
	nc, _ := strconv.Atoi(f[4])
	wdms, _ := strconv.Atoi(f[5])
	res := c14Run(f[0], seed, ns, nm, nc, time.Duration(wdms)*time.Millisecond)
	if c14RaceBuild && res.outcome != "stuck" {
		if rep := c14RaceReports(); rep != "" {
			res.outcome, res.detail = "race", hx([]byte(rep))
		}
	}
	fmt.Printf("%s\t%s\t%s\t%d\n", c14Counts(res.counts), res.outcome, res.detail, res.glued)
	os.Exit(0)
}

// c14Excerpt cuts the part of a crashed child's stderr that names the fatal event and the first stacks.
func c14Excerpt(stderr string, marks ...string) string {
	for _, m := range marks {
		if i := strings.Index(stderr, m); i >= 0 {
			s := stderr[i:]
			if len(s) > 3500 {
				s = s[:3500]
			}
			return s
		}
	}
	if len(stderr) > 3500 {
		return stderr[len(stderr)-3500:]
	}
	return stderr
}

// c14RunIsolated runs one plan in a child process and classifies a death of the child.
func c14RunIsolated(mode string, seed uint64, nsess, nmbox, n int, wd time.Duration) c14Result {
	planned := make([]int, nsess)
	for i := range planned {
		planned[i] = len(c14History(mode, seed, i, nsess, nmbox, n))
	}
	cmd := exec.Command(os.Args[0])
	cmd.Env = append(os.Environ(), "VERIFH_WORKER=c14run",
		fmt.Sprintf("VERIFH_C14_PLAN=%s|%d|%d|%d|%d|%d", mode, seed, nsess, nmbox, n, wd.Milliseconds()))
	var stdout, stderr bytes.Buffer
	cmd.Stdout, cmd.Stderr = &stdout, &stderr
	if err := cmd.Start(); err != nil {
		panic(err)
	}
	done := make(chan error, 1)
	go func() { done <- cmd.Wait() }()
	limit := 8*wd + 2*time.Minute
	select {
	case <-done:
	case <-time.After(limit):
		cmd.Process.Kill()
		<-done
		return c14Result{counts: planned, outcome: "stuck",
			detail: hx([]byte(fmt.Sprintf("the whole run did not finish within %v; the process was killed\n%s", limit, c14Excerpt(stderr.String()))))}
	}
	if f := strings.Split(strings.TrimRight(stdout.String(), "\n"), "\t"); len(f) == 4 && cmd.ProcessState.ExitCode() == 0 {
		res := c14Result{outcome: f[1], detail: f[2]}
		for _, c := range strings.Split(f[0], ",") {
			k, _ := strconv.Atoi(c)
			res.counts = append(res.counts, k)
		}
		res.glued, _ = strconv.Atoi(f[3])
		return res
	}
	// the process died
	se := stderr.String()
	if c14RaceBuild {
		if lp := c14RaceLogPath(); lp != "" {
			if data, err := os.ReadFile(fmt.Sprintf("%s.%d", lp, cmd.Process.Pid)); err == nil {
				se = string(data) + "\n" + se
			}
		}
	}
	res := c14Result{counts: planned}
	inServer := strings.Contains(se, "/imapserver/") || strings.Contains(se, "go-imap/v2/imapserver")
	switch {
	case strings.Contains(se, "fatal error: concurrent map") || strings.Contains(se, "DATA RACE"):
		ex := c14Excerpt(se, "fatal error: concurrent map", "WARNING: DATA RACE")
		if !inServer {
			ex = "HARNESS " + ex
		}
		res.outcome, res.detail = "race", hx([]byte("the server process died / reported:\n"+ex))
		if !inServer {
			res.detail = hx([]byte(ex))
		}
	case strings.Contains(se, "all goroutines are asleep"):
		res.outcome, res.detail = "stuck", hx([]byte(c14Excerpt(se, "fatal error:")))
	case inServer:
		res.outcome, res.detail = "panic", hx([]byte("the server process died:\n"+c14Excerpt(se, "fatal error:", "panic:")))
	default:
		// a death that does not involve the server packages is a defect of the harness: report it as
		// a disagreement (the driver answers agree=0), never as a verdict on the property
		res.outcome, res.detail = "race", hx([]byte("HARNESS process died: "+c14Excerpt(se, "fatal error:", "panic:")))
	}
	return res
}
