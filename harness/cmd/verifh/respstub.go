package main

import (
	"sync"
	"time"

	"github.com/emersion/go-imap/v2"
	"github.com/emersion/go-imap/v2/imapserver"
)

// respSession is a scripted backend: an imapserver.Session whose data-returning methods hand a
// prepared script to the REAL server writers (FetchWriter, ListWriter, ExpungeWriter, MoveWriter,
// returned StatusData/SelectData/SearchData/AppendData/CopyData/NamespaceData). Everything that
// is not scripted is answered by the embedded recording session.

type respItem struct {
	kind string // uid flags date size env bs sec bin binsize
	uid  imap.UID
	fl   []imap.Flag
	t    time.Time
	n64  int64
	n32  uint32
	env  *imap.Envelope
	bs   imap.BodyStructure
	sec  *imap.FetchItemBodySection
	bin  *imap.FetchItemBinarySection
	part []int
	data []byte
}

type respMsg struct {
	seq   uint32
	items []respItem
}

type respScript struct {
	fetch    []respMsg
	list     []*imap.ListData
	status   *imap.StatusData
	sel      *imap.SelectData
	search   *imap.SearchData
	appendD  *imap.AppendData
	copyD    *imap.CopyData
	ns       *imap.NamespaceData
	expunge  []uint32
	moveCopy *imap.CopyData
	moveExp  []uint32
	chunk    int // literal payloads are written in pieces of this size (0 = one Write)
}

type respSession struct {
	*recSession
	smu    sync.Mutex
	script *respScript
	queue  []*respScript // one script per scripted backend call, in the order the commands were sent
	gate   chan struct{} // the first scripted call waits for it (all commands of a pipelined case are on the wire)
	gated  bool
}

func newRespSession() *respSession { return &respSession{recSession: newRecSession()} }

func (s *respSession) setScript(sc *respScript) {
	s.smu.Lock()
	s.script = sc
	s.smu.Unlock()
}

// pushScripts installs the scripts of the next case's commands.
func (s *respSession) pushScripts(q []*respScript, gate chan struct{}) {
	s.smu.Lock()
	s.queue = q
	s.gate = gate
	s.gated = false
	s.smu.Unlock()
}

func (s *respSession) sc() *respScript {
	s.smu.Lock()
	var gate chan struct{}
	if !s.gated && s.gate != nil {
		gate = s.gate
		s.gated = true
	}
	var sc *respScript
	if len(s.queue) > 0 {
		sc = s.queue[0]
		s.queue = s.queue[1:]
	} else {
		sc = s.script
	}
	s.smu.Unlock()
	if gate != nil {
		<-gate
	}
	if sc == nil {
		return &respScript{}
	}
	return sc
}

func (s *respSession) Fetch(w *imapserver.FetchWriter, numSet imap.NumSet, options *imap.FetchOptions) error {
	sc := s.sc()
	for _, m := range sc.fetch {
		rw := w.CreateMessage(m.seq)
		for _, it := range m.items {
			switch it.kind {
			case "uid":
				rw.WriteUID(it.uid)
			case "flags":
				rw.WriteFlags(it.fl)
			case "date":
				rw.WriteInternalDate(it.t)
			case "size":
				rw.WriteRFC822Size(it.n64)
			case "env":
				rw.WriteEnvelope(it.env)
			case "bs":
				rw.WriteBodyStructure(it.bs)
			case "sec":
				wc := rw.WriteBodySection(it.sec, int64(len(it.data)))
				respWriteChunks(wc.Write, it.data, sc.chunk)
				if err := wc.Close(); err != nil {
					rw.Close() // "FetchResponseWriter.Close must be called": it releases the connection's encoder
					return err
				}
			case "bin":
				wc := rw.WriteBinarySection(it.bin, int64(len(it.data)))
				respWriteChunks(wc.Write, it.data, sc.chunk)
				if err := wc.Close(); err != nil {
					rw.Close() // "FetchResponseWriter.Close must be called": it releases the connection's encoder
					return err
				}
			case "binsize":
				rw.WriteBinarySectionSize(&imap.FetchItemBinarySection{Part: it.part}, it.n32)
			}
		}
		if err := rw.Close(); err != nil {
			return err
		}
	}
	return nil
}

func respWriteChunks(write func([]byte) (int, error), data []byte, chunk int) {
	if chunk <= 0 || len(data) == 0 {
		write(data)
		return
	}
	for len(data) > 0 {
		n := chunk
		if n > len(data) {
			n = len(data)
		}
		if _, err := write(data[:n]); err != nil {
			return
		}
		data = data[n:]
	}
}

func (s *respSession) List(w *imapserver.ListWriter, ref string, patterns []string, options *imap.ListOptions) error {
	for _, d := range s.sc().list {
		if err := w.WriteList(d); err != nil {
			return err
		}
	}
	return nil
}

func (s *respSession) Status(mailbox string, options *imap.StatusOptions) (*imap.StatusData, error) {
	if d := s.sc().status; d != nil {
		return d, nil
	}
	return s.recSession.Status(mailbox, options)
}

func (s *respSession) Select(mailbox string, options *imap.SelectOptions) (*imap.SelectData, error) {
	if d := s.sc().sel; d != nil {
		return d, nil
	}
	return s.recSession.Select(mailbox, options)
}

func (s *respSession) Search(kind imapserver.NumKind, criteria *imap.SearchCriteria, options *imap.SearchOptions) (*imap.SearchData, error) {
	if d := s.sc().search; d != nil {
		return d, nil
	}
	return s.recSession.Search(kind, criteria, options)
}

func (s *respSession) Append(mailbox string, r imap.LiteralReader, options *imap.AppendOptions) (*imap.AppendData, error) {
	if _, err := s.recSession.Append(mailbox, r, options); err != nil {
		return nil, err
	}
	return s.sc().appendD, nil
}

func (s *respSession) Copy(numSet imap.NumSet, dest string) (*imap.CopyData, error) {
	return s.sc().copyD, nil
}

func (s *respSession) Expunge(w *imapserver.ExpungeWriter, uids *imap.UIDSet) error {
	for _, n := range s.sc().expunge {
		if err := w.WriteExpunge(n); err != nil {
			return err
		}
	}
	return nil
}

func (s *respSession) Move(w *imapserver.MoveWriter, numSet imap.NumSet, dest string) error {
	sc := s.sc()
	if err := w.WriteCopyData(sc.moveCopy); err != nil {
		return err
	}
	for _, n := range sc.moveExp {
		if err := w.WriteExpunge(n); err != nil {
			return err
		}
	}
	return nil
}

func (s *respSession) Namespace() (*imap.NamespaceData, error) {
	if d := s.sc().ns; d != nil {
		return d, nil
	}
	return &imap.NamespaceData{}, nil
}
