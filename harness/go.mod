module github.com/emersion/go-imap/v2/verifharness

go 1.18

require github.com/emersion/go-imap/v2 v2.0.0

replace github.com/emersion/go-imap/v2 => /repo
