// Command facts extracts a few structural facts from the go-imap source tree with go/ast and
// writes them as a Lean module (GoImap.Gen.SourceFacts). It is regenerated from the tree under
// check on every run; Lean theorems (Props/SourceFacts.lean) state what the models assume about
// these facts, so an edit that changes one of them breaks a proof obligation.
//
//	facts <repo> <out.lean>
//
// Standard library only. Anything it does not understand is an error, never skipped.
package main

import (
	"fmt"
	"go/ast"
	"go/parser"
	"go/token"
	"os"
	"path/filepath"
	"sort"
	"strconv"
	"strings"
)

func die(format string, a ...interface{}) {
	fmt.Fprintf(os.Stderr, "facts: "+format+"\n", a...)
	os.Exit(1)
}

// evalInt evaluates integer constant expressions made of literals, * + - and parentheses.
func evalInt(e ast.Expr) (int64, bool) {
	switch v := e.(type) {
	case *ast.BasicLit:
		if v.Kind != token.INT {
			return 0, false
		}
		n, err := strconv.ParseInt(v.Value, 0, 64)
		return n, err == nil
	case *ast.ParenExpr:
		return evalInt(v.X)
	case *ast.BinaryExpr:
		a, ok1 := evalInt(v.X)
		b, ok2 := evalInt(v.Y)
		if !ok1 || !ok2 {
			return 0, false
		}
		switch v.Op {
		case token.MUL:
			return a * b, true
		case token.ADD:
			return a + b, true
		case token.SUB:
			return a - b, true
		case token.SHL:
			return a << uint(b), true
		}
	}
	return 0, false
}

type threshold struct {
	file, fn, lhs, op string
	val           int64
}

type sessCall struct {
	file, fn, method, guard string // guard = state argument of the last checkState call before the session call, "" if none
	guardIsCanAuth         bool
}

func exprString(e ast.Expr) string {
	switch v := e.(type) {
	case *ast.Ident:
		return v.Name
	case *ast.SelectorExpr:
		return exprString(v.X) + "." + v.Sel.Name
	case *ast.CallExpr:
		return exprString(v.Fun) + "()"
	case *ast.ParenExpr:
		return exprString(v.X)
	}
	return "?"
}

func main() {
	if len(os.Args) != 3 {
		die("usage: facts <repo> <out.lean>")
	}
	repo, out := os.Args[1], os.Args[2]
	fset := token.NewFileSet()
	consts := map[string]int64{}
	var thresholds []threshold
	var calls []sessCall
	wantConsts := map[string]string{ // name -> directory
		"maxListDepth":      "internal/imapwire",
		"appendLimit":       "imapserver",
		"maxSearchKeyDepth": "imapserver",
	}
	dirs := []string{"internal/imapwire", "imapserver", "imapclient"}
	for _, dir := range dirs {
		files, err := filepath.Glob(filepath.Join(repo, dir, "*.go"))
		if err != nil {
			die("%v", err)
		}
		sort.Strings(files)
		for _, path := range files {
			base := filepath.Base(path)
			if strings.HasSuffix(base, "_test.go") || strings.HasPrefix(base, "verif_") {
				continue
			}
			f, err := parser.ParseFile(fset, path, nil, 0)
			if err != nil {
				die("parse %s: %v", path, err)
			}
			rel := dir + "/" + base
			for _, d := range f.Decls {
				switch d := d.(type) {
				case *ast.GenDecl:
					if d.Tok != token.CONST {
						continue
					}
					for _, s := range d.Specs {
						vs := s.(*ast.ValueSpec)
						for i, n := range vs.Names {
							if wantConsts[n.Name] == dir && i < len(vs.Values) {
								v, ok := evalInt(vs.Values[i])
								if !ok {
									die("%s: cannot evaluate constant %s", rel, n.Name)
								}
								consts[n.Name] = v
							}
						}
					}
				case *ast.FuncDecl:
					if d.Body == nil {
						continue
					}
					fn := d.Name.Name
					if d.Recv != nil && len(d.Recv.List) == 1 {
						fn = strings.TrimPrefix(exprString(starOf(d.Recv.List[0].Type)), "*") + "." + fn
					}
					// literal thresholds: comparisons `x > N` / `x >= N` with N an integer literal >= 1000
					ast.Inspect(d.Body, func(n ast.Node) bool {
						be, ok := n.(*ast.BinaryExpr)
						if !ok || (be.Op != token.GTR && be.Op != token.GEQ && be.Op != token.LSS && be.Op != token.LEQ) {
							return true
						}
						if v, ok := evalInt(be.Y); ok && v >= 1000 {
							thresholds = append(thresholds, threshold{rel, fn, exprString(be.X), be.Op.String(), v})
						}
						return true
					})
					// session calls and their guards, in source order (imapserver only)
					if dir != "imapserver" {
						continue
					}
					guard, canAuth := "", false
					ast.Inspect(d.Body, func(n ast.Node) bool {
						ce, ok := n.(*ast.CallExpr)
						if !ok {
							return true
						}
						sel, ok := ce.Fun.(*ast.SelectorExpr)
						if !ok {
							return true
						}
						recv := exprString(sel.X)
						switch {
						case sel.Sel.Name == "checkState" && len(ce.Args) == 1:
							guard = strings.TrimPrefix(exprString(ce.Args[0]), "imap.ConnState")
						case sel.Sel.Name == "canAuth":
							canAuth = true
						case recv == "c.session" || recv == "session" || recv == "conn.session":
							calls = append(calls, sessCall{rel, fn, sel.Sel.Name, guard, canAuth})
						}
						return true
					})
				}
			}
		}
	}
	for n := range wantConsts {
		if _, ok := consts[n]; !ok {
			die("constant %s not found", n)
		}
	}
	sort.Slice(thresholds, func(i, j int) bool {
		a, b := thresholds[i], thresholds[j]
		return a.file+a.fn+a.lhs < b.file+b.fn+b.lhs
	})
	sort.SliceStable(calls, func(i, j int) bool { return calls[i].file+calls[i].fn < calls[j].file+calls[j].fn })
	var sb strings.Builder
	sb.WriteString("/- GENERATED by harness/facts from the go-imap tree under check; do not edit. -/\nnamespace GoImap.Gen.SourceFacts\n\n")
	names := make([]string, 0, len(consts))
	for n := range consts {
		names = append(names, n)
	}
	sort.Strings(names)
	for _, n := range names {
		fmt.Fprintf(&sb, "def %s : Nat := %d\n", n, consts[n])
	}
	sb.WriteString("\n/-- integer thresholds (>= 1000) compared against in the code: (file, function, left operand, operator, value) -/\n")
	sb.WriteString("def thresholds : List (String × String × String × String × Nat) := [\n")
	for i, t := range thresholds {
		sep := ","
		if i == len(thresholds)-1 {
			sep = ""
		}
		fmt.Fprintf(&sb, "  (%q, %q, %q, %q, %d)%s\n", t.file, t.fn, t.lhs, t.op, t.val, sep)
	}
	sb.WriteString("]\n\n/-- every call of a Session method in imapserver: (file, function, method, state required by the\n    last checkState call that precedes it in the function (\"\" = none), canAuth consulted before it) -/\n")
	sb.WriteString("def sessionCalls : List (String × String × String × String × Bool) := [\n")
	for i, c := range calls {
		sep := ","
		if i == len(calls)-1 {
			sep = ""
		}
		fmt.Fprintf(&sb, "  (%q, %q, %q, %q, %v)%s\n", c.file, c.fn, c.method, c.guard, c.guardIsCanAuth, sep)
	}
	sb.WriteString("]\n\nend GoImap.Gen.SourceFacts\n")
	if err := os.WriteFile(out, []byte(sb.String()), 0o644); err != nil {
		die("%v", err)
	}
}

func starOf(e ast.Expr) ast.Expr {
	if s, ok := e.(*ast.StarExpr); ok {
		return s.X
	}
	return e
}
