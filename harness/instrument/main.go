// Command instrument prepares a `go build -overlay` that records every mutex acquisition of the
// go-imap server packages (property C14). Standard library only.
//
//	instrument -repo /repo -out <tmpdir>
//
// It parses every non-test .go file of imapserver and imapserver/imapmemserver in the tree being
// checked, gives every mutex field (`<field> sync.Mutex` / `sync.RWMutex` in a named struct) its own
// lock CLASS `<package>.<Struct>.<field>`, and writes
//
//	<out>/overlay.json      overlay mapping each original file to a rewritten copy, plus a package
//	                        <repo>/internal/verifsync that exists only in the overlay
//	<out>/classes.tsv       class index, class name, declaration site
//	<out>/report.tsv        what was seen (files, Lock/Unlock call sites, other sync uses)
//
// The rewrite is purely textual at AST-derived offsets, so line numbers do not move: the type
// expression `sync.Mutex` of class k becomes `verifsync.M<k>` (a distinct type per class whose
// Lock/Unlock report to the recorder and then operate the real mutex), the `"sync"` import gains
// the verifsync import on the same line, and `var _ sync.Mutex` is appended so that the sync import
// stays used. Call sites are NOT rewritten (the methods keep their names), so the class of an
// acquisition is known from the static type of the field, not from a heuristic.
//
// Anything the rewriter does not understand is an error (exit 1 naming the construct and position):
// a mutex that is not a named field of a named struct (local variable, embedded, pointer, map value,
// parameter), sync.Cond/Locker, TryLock, a Lock/Unlock method value, a Lock/Unlock call whose
// receiver is not a selector ending in a known mutex field, a dot or blank import of sync.
package main

import (
	"encoding/json"
	"flag"
	"fmt"
	"go/ast"
	"go/parser"
	"go/token"
	"os"
	"path/filepath"
	"sort"
	"strings"
)

var pkgDirs = []string{"imapserver", "imapserver/imapmemserver"}

// sync identifiers that are not locks and may be used freely
var harmlessSync = map[string]bool{"WaitGroup": true, "Once": true, "OnceFunc": true, "OnceValue": true,
	"OnceValues": true, "Map": true, "Pool": true}

var lockMethods = map[string]bool{"Lock": true, "Unlock": true, "RLock": true, "RUnlock": true,
	"TryLock": true, "TryRLock": true, "RLocker": true}

type class struct {
	name string // imapmemserver.Mailbox.mutex
	rw   bool
	decl string // file:line
}

type edit struct {
	off, end int
	text     string
}

type fileInfo struct {
	path     string // absolute original path
	rel      string
	src      []byte
	f        *ast.File
	syncName string // local name of the sync import ("" if not imported)
	edits    []edit
}

var (
	fset    = token.NewFileSet()
	errs    []string
	classes []class
	report  []string
)

func fail(pos token.Pos, format string, args ...interface{}) {
	errs = append(errs, fmt.Sprintf("%s: %s", fset.Position(pos), fmt.Sprintf(format, args...)))
}

func main() {
	repo := flag.String("repo", "/repo", "tree to instrument")
	out := flag.String("out", "", "output directory (must exist)")
	flag.Parse()
	if *out == "" {
		fmt.Fprintln(os.Stderr, "instrument: -out is required")
		os.Exit(2)
	}
	modPath := readModulePath(filepath.Join(*repo, "go.mod"))
	vsImport := modPath + "/internal/verifsync"

	var files []*fileInfo
	for _, d := range pkgDirs {
		ents, err := os.ReadDir(filepath.Join(*repo, d))
		if err != nil {
			die("cannot read %s: %v", d, err)
		}
		for _, e := range ents {
			n := e.Name()
			if e.IsDir() || !strings.HasSuffix(n, ".go") || strings.HasSuffix(n, "_test.go") {
				continue
			}
			p := filepath.Join(*repo, d, n)
			src, err := os.ReadFile(p)
			if err != nil {
				die("%v", err)
			}
			f, err := parser.ParseFile(fset, p, src, parser.ParseComments)
			if err != nil {
				die("parse error (the tree does not compile?): %v", err)
			}
			files = append(files, &fileInfo{path: p, rel: filepath.Join(d, n), src: src, f: f})
		}
	}
	if len(files) == 0 {
		die("no source files found under %s", *repo)
	}

	// pass 1: imports and mutex declarations
	for _, fi := range files {
		findSyncImport(fi)
		if fi.syncName != "" {
			scanSyncUses(fi)
		}
	}
	fieldNames := map[string]bool{}
	for _, c := range classes {
		fieldNames[c.name[strings.LastIndex(c.name, ".")+1:]] = true
	}
	// pass 2: every Lock/Unlock-like selector must be understood
	nCalls := 0
	for _, fi := range files {
		nCalls += scanLockCalls(fi, fieldNames)
	}
	if len(classes) == 0 {
		errs = append(errs, "no mutex field found at all in "+strings.Join(pkgDirs, ", ")+
			" (locking moved to a construct this instrumentation does not know)")
	}
	if len(errs) > 0 {
		sort.Strings(errs)
		fmt.Fprintln(os.Stderr, "instrument: constructs not understood (the lock graph cannot be recorded):")
		for _, e := range errs {
			fmt.Fprintln(os.Stderr, "  "+e)
		}
		os.Exit(1)
	}

	// write rewritten files + overlay
	overlay := map[string]string{}
	for i, fi := range files {
		if len(fi.edits) == 0 {
			continue
		}
		dst := filepath.Join(*out, fmt.Sprintf("f%02d_%s", i, filepath.Base(fi.path)))
		if err := os.WriteFile(dst, applyEdits(fi, vsImport), 0o644); err != nil {
			die("%v", err)
		}
		overlay[fi.path] = dst
	}
	vs := filepath.Join(*out, "verifsync.go")
	if err := os.WriteFile(vs, []byte(genVerifsync()), 0o644); err != nil {
		die("%v", err)
	}
	overlay[filepath.Join(*repo, "internal", "verifsync", "verifsync.go")] = vs
	js, _ := json.MarshalIndent(map[string]interface{}{"Replace": overlay}, "", " ")
	if err := os.WriteFile(filepath.Join(*out, "overlay.json"), js, 0o644); err != nil {
		die("%v", err)
	}
	var sb strings.Builder
	for i, c := range classes {
		fmt.Fprintf(&sb, "%d\t%s\t%s\n", i, c.name, c.decl)
	}
	os.WriteFile(filepath.Join(*out, "classes.tsv"), []byte(sb.String()), 0o644)
	report = append(report, fmt.Sprintf("files\t%d", len(files)), fmt.Sprintf("classes\t%d", len(classes)),
		fmt.Sprintf("lock-call-sites\t%d", nCalls))
	sort.Strings(report)
	os.WriteFile(filepath.Join(*out, "report.tsv"), []byte(strings.Join(report, "\n")+"\n"), 0o644)
}

func die(format string, args ...interface{}) {
	fmt.Fprintf(os.Stderr, "instrument: "+format+"\n", args...)
	os.Exit(1)
}

func readModulePath(gomod string) string {
	b, err := os.ReadFile(gomod)
	if err != nil {
		die("%v", err)
	}
	for _, l := range strings.Split(string(b), "\n") {
		l = strings.TrimSpace(l)
		if strings.HasPrefix(l, "module ") {
			return strings.TrimSpace(strings.TrimPrefix(l, "module "))
		}
	}
	die("no module line in %s", gomod)
	return ""
}

func findSyncImport(fi *fileInfo) {
	for _, im := range fi.f.Imports {
		if im.Path.Value != `"sync"` {
			if im.Path.Value == `"sync/atomic"` {
				report = append(report, "note\t"+fi.rel+" imports sync/atomic (not a lock; not instrumented)")
			}
			continue
		}
		if im.Name != nil {
			if im.Name.Name == "." || im.Name.Name == "_" {
				fail(im.Pos(), "dot/blank import of sync")
				return
			}
			fi.syncName = im.Name.Name
		} else {
			fi.syncName = "sync"
		}
	}
}

// scanSyncUses walks the file with a parent stack and classifies every `sync.X`.
func scanSyncUses(fi *fileInfo) {
	var stack []ast.Node
	ast.Inspect(fi.f, func(n ast.Node) bool {
		if n == nil {
			stack = stack[:len(stack)-1]
			return true
		}
		stack = append(stack, n)
		se, ok := n.(*ast.SelectorExpr)
		if !ok {
			return true
		}
		id, ok := se.X.(*ast.Ident)
		if !ok || id.Name != fi.syncName || id.Obj != nil { // Obj != nil: a local object shadows the package
			return true
		}
		switch name := se.Sel.Name; {
		case name == "Mutex" || name == "RWMutex":
			declareMutex(fi, se, stack, name == "RWMutex")
		case harmlessSync[name]:
			report = append(report, fmt.Sprintf("other-sync\t%s.%s at %s:%d", fi.syncName, name, fi.rel, fset.Position(se.Pos()).Line))
		default:
			fail(se.Pos(), "unsupported use of sync.%s (only Mutex/RWMutex fields, WaitGroup, Once, Map, Pool are understood)", name)
		}
		return true
	})
}

// declareMutex accepts exactly: TypeSpec{Name, StructType{FieldList{Field{Names (>=1), Type: sync.Mutex}}}}
// at file level (GenDecl directly under the File).
func declareMutex(fi *fileInfo, se *ast.SelectorExpr, stack []ast.Node, rw bool) {
	n := len(stack)
	bad := func() {
		fail(se.Pos(), "sync.%s is not the type of a named field of a named top-level struct (local variables, embedded "+
			"fields, pointers, containers, parameters are not understood)", se.Sel.Name)
	}
	if n < 7 {
		bad()
		return
	}
	field, ok1 := stack[n-2].(*ast.Field)
	_, ok2 := stack[n-3].(*ast.FieldList)
	st, ok3 := stack[n-4].(*ast.StructType)
	ts, ok4 := stack[n-5].(*ast.TypeSpec)
	_, ok5 := stack[n-6].(*ast.GenDecl)
	_, ok6 := stack[n-7].(*ast.File)
	if !(ok1 && ok2 && ok3 && ok4 && ok5 && ok6) || field.Type != ast.Expr(se) || ts.Type != ast.Expr(st) ||
		len(field.Names) == 0 || ts.TypeParams != nil {
		bad()
		return
	}
	if len(field.Names) != 1 {
		fail(se.Pos(), "several mutex fields share one declaration (%d names); write one field per line", len(field.Names))
		return
	}
	idx := len(classes)
	classes = append(classes, class{
		name: fi.f.Name.Name + "." + ts.Name.Name + "." + field.Names[0].Name,
		rw:   rw,
		decl: fmt.Sprintf("%s:%d", fi.rel, fset.Position(se.Pos()).Line),
	})
	typ := "M"
	if rw {
		typ = "R"
	}
	fi.edits = append(fi.edits, edit{fset.Position(se.Pos()).Offset, fset.Position(se.End()).Offset,
		fmt.Sprintf("verifsync.%s%d", typ, idx)})
}

func scanLockCalls(fi *fileInfo, fieldNames map[string]bool) int {
	calls := 0
	var stack []ast.Node
	ast.Inspect(fi.f, func(n ast.Node) bool {
		if n == nil {
			stack = stack[:len(stack)-1]
			return true
		}
		stack = append(stack, n)
		se, ok := n.(*ast.SelectorExpr)
		if !ok || !lockMethods[se.Sel.Name] {
			return true
		}
		parent := stack[len(stack)-2]
		call, isCall := parent.(*ast.CallExpr)
		if !isCall || call.Fun != ast.Expr(se) {
			fail(se.Pos(), "%s used as a method value (not called directly)", se.Sel.Name)
			return true
		}
		if se.Sel.Name == "TryLock" || se.Sel.Name == "TryRLock" || se.Sel.Name == "RLocker" {
			fail(se.Pos(), "%s is not understood by the lock-program model", se.Sel.Name)
			return true
		}
		recv, ok := se.X.(*ast.SelectorExpr)
		if !ok || !fieldNames[recv.Sel.Name] {
			fail(se.Pos(), "%s() called on %s, which is not a selector ending in a known mutex field %v", se.Sel.Name,
				exprText(fi, se.X), keys(fieldNames))
			return true
		}
		if len(stack) >= 3 {
			if _, isGo := stack[len(stack)-3].(*ast.GoStmt); isGo {
				fail(se.Pos(), "`go x.%s()` is not understood", se.Sel.Name)
			}
		}
		calls++
		return true
	})
	return calls
}

func exprText(fi *fileInfo, e ast.Expr) string {
	return string(fi.src[fset.Position(e.Pos()).Offset:fset.Position(e.End()).Offset])
}

func keys(m map[string]bool) []string {
	var ks []string
	for k := range m {
		ks = append(ks, k)
	}
	sort.Strings(ks)
	return ks
}

func applyEdits(fi *fileInfo, vsImport string) []byte {
	edits := append([]edit(nil), fi.edits...)
	// add the verifsync import on the same line as the sync import
	for _, d := range fi.f.Decls {
		gd, ok := d.(*ast.GenDecl)
		if !ok || gd.Tok != token.IMPORT {
			continue
		}
		for _, sp := range gd.Specs {
			im := sp.(*ast.ImportSpec)
			if im.Path.Value != `"sync"` {
				continue
			}
			end := fset.Position(im.End()).Offset
			text := fmt.Sprintf(`; verifsync "%s"`, vsImport)
			if !gd.Lparen.IsValid() { // `import "sync"` without parentheses
				text = fmt.Sprintf(`; import verifsync "%s"`, vsImport)
			}
			edits = append(edits, edit{end, end, text})
		}
	}
	sort.Slice(edits, func(i, j int) bool { return edits[i].off > edits[j].off })
	src := append([]byte(nil), fi.src...)
	for _, e := range edits {
		src = append(src[:e.off], append([]byte(e.text), src[e.end:]...)...)
	}
	// keep the sync import used whatever remains of it
	src = append(src, []byte("\nvar _ "+fi.syncName+".Mutex\n")...)
	return src
}

func genVerifsync() string {
	var sb strings.Builder
	sb.WriteString(verifsyncRuntime)
	sb.WriteString("\n// ClassNames is indexed by class.\nvar ClassNames = []string{\n")
	for _, c := range classes {
		fmt.Fprintf(&sb, "\t%q,\n", c.name)
	}
	sb.WriteString("}\n")
	for i, c := range classes {
		if c.rw {
			fmt.Fprintf(&sb, "\n// R%d is %s (sync.RWMutex).\ntype R%d struct{ b base }\n", i, c.name, i)
			fmt.Fprintf(&sb, "func (m *R%d) Lock()    { acquire(&m.b, %d, false) }\n", i, i)
			fmt.Fprintf(&sb, "func (m *R%d) Unlock()  { release(&m.b, %d, false) }\n", i, i)
			fmt.Fprintf(&sb, "func (m *R%d) RLock()   { acquire(&m.b, %d, true) }\n", i, i)
			fmt.Fprintf(&sb, "func (m *R%d) RUnlock() { release(&m.b, %d, true) }\n", i, i)
		} else {
			fmt.Fprintf(&sb, "\n// M%d is %s (sync.Mutex).\ntype M%d struct{ b base }\n", i, c.name, i)
			fmt.Fprintf(&sb, "func (m *M%d) Lock()   { acquire(&m.b, %d, false) }\n", i, i)
			fmt.Fprintf(&sb, "func (m *M%d) Unlock() { release(&m.b, %d, false) }\n", i, i)
		}
	}
	return sb.String()
}
