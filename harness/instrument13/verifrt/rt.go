// Package verifrt is the runtime behind the scheduling points that instrument13 inserts into the
// go-imap client for property C13. It exists in go-imap only through `go build -overlay`
// (mapped to <repo>/internal/verifrt/rt.go); nothing in the repository refers to it.
package verifrt

import "sync/atomic"

var hook atomic.Value // func(label string)

// SetHook installs the function called at every point (nil-safe: no hook = pass through).
func SetHook(f func(label string)) { hook.Store(f) }

// Point is called by the instrumented code immediately before (Lock, channel operations, go) or
// after (Unlock) a synchronisation operation.
func Point(label string) {
	if f, ok := hook.Load().(func(string)); ok && f != nil {
		f(label)
	}
}

// CloseChan replaces `defer close(ch)`: the channel expression is still evaluated at the defer
// statement, the point is passed when the deferred call runs.
func CloseChan[T any](label string, ch chan T) {
	Point(label)
	close(ch)
}
