// Command instrument13 produces a `go build -overlay` description that inserts scheduling points
// into the go-imap client (property C13). Standard library only.
//
//	go run ./instrument13 -repo /repo -out <tmpdir>
//
// writes <tmpdir>/overlay.json, the rewritten copies of the instrumented files, and
// <tmpdir>/labels.txt (every label, one per line). The tree under -repo is never written to.
//
// A point is a call `verifrt.Point("<Func>:<kind>#<n>")` where <Func> is `Recv.Method` or the
// function name, <kind> names the operation and <n> counts operations of that kind inside the
// function in source order. Points are inserted
//
//	before   X.mutex.Lock()  X.encMutex.Lock()        kind mutex.Lock / encMutex.Lock
//	after    X.mutex.Unlock()  X.encMutex.Unlock()    kind mutex.Unlock / encMutex.Unlock   (statement form only)
//	before   ch <- v                                  kind send
//	before   the statement containing  <-ch           kind recv
//	before   select { ... }                           kind select
//	before   close(ch)   (defer close(ch) becomes defer verifrt.CloseChan(label, ch))   kind close
//	before   go f(...)                                kind go
//
// Anything the rewriter does not understand (another Lock receiver, RLock, a receive in a loop
// header or an else-if condition, a deferred Lock, ...) makes it exit non-zero with the position:
// a tree that cannot be instrumented cannot be tied to the model, and silence would hide that.
package main

import (
	"bytes"
	"encoding/json"
	"flag"
	"fmt"
	"go/ast"
	"go/parser"
	"go/printer"
	"go/token"
	"os"
	"path/filepath"
	"sort"
	"strconv"
	"strings"
)

const rtImport = "github.com/emersion/go-imap/v2/internal/verifrt"

// files instrumented: every non-test file of package imapclient, plus the continuation-request
// type of internal/imapwire (paths relative to the repository root)
func targetFiles(repo string) ([]string, error) {
	m, err := filepath.Glob(filepath.Join(repo, "imapclient", "*.go"))
	if err != nil {
		return nil, err
	}
	var out []string
	for _, p := range m {
		if strings.HasSuffix(p, "_test.go") || strings.HasPrefix(filepath.Base(p), "verif_") {
			continue
		}
		out = append(out, "imapclient/"+filepath.Base(p))
	}
	if len(out) < 10 {
		return nil, fmt.Errorf("only %d files found under %s/imapclient", len(out), repo)
	}
	sort.Strings(out)
	return append(out, "internal/imapwire/imapwire.go"), nil
}

type rewriter struct {
	fset   *token.FileSet
	fn     string
	counts map[string]int
	labels []string
	n      int
	errs   []string
}

func (rw *rewriter) fail(pos token.Pos, msg string) {
	rw.errs = append(rw.errs, fmt.Sprintf("%s: %s", rw.fset.Position(pos), msg))
}

func (rw *rewriter) label(kind string) string {
	rw.counts[kind]++
	l := fmt.Sprintf("%s:%s#%d", rw.fn, kind, rw.counts[kind])
	rw.labels = append(rw.labels, l)
	rw.n++
	return l
}

func pointStmt(label string) ast.Stmt {
	return &ast.ExprStmt{X: &ast.CallExpr{
		Fun:  &ast.SelectorExpr{X: ast.NewIdent("verifrt"), Sel: ast.NewIdent("Point")},
		Args: []ast.Expr{&ast.BasicLit{Kind: token.STRING, Value: strconv.Quote(label)}},
	}}
}

// lockCall recognises X.<mutexField>.<Method>() and returns the field and the method.
func lockCall(e ast.Expr) (field, method string, pos token.Pos, ok bool) {
	call, isCall := e.(*ast.CallExpr)
	if !isCall || len(call.Args) != 0 {
		return
	}
	sel, isSel := call.Fun.(*ast.SelectorExpr)
	if !isSel {
		return
	}
	switch sel.Sel.Name {
	case "Lock", "Unlock", "RLock", "RUnlock", "TryLock":
	default:
		return
	}
	method = sel.Sel.Name
	pos = call.Pos()
	switch x := sel.X.(type) {
	case *ast.SelectorExpr:
		field = x.Sel.Name
	case *ast.Ident:
		field = x.Name
	default:
		field = "?"
	}
	return field, method, pos, true
}

func isCloseCall(e ast.Expr) (*ast.CallExpr, bool) {
	call, ok := e.(*ast.CallExpr)
	if !ok || len(call.Args) != 1 {
		return nil, false
	}
	id, ok := call.Fun.(*ast.Ident)
	if !ok || id.Name != "close" {
		return nil, false
	}
	return call, true
}

// countRecv counts receive expressions in n without descending into function literals; literals
// found on the way are rewritten in place.
func (rw *rewriter) scanExpr(n ast.Node) (recvs int) {
	if n == nil {
		return 0
	}
	ast.Inspect(n, func(m ast.Node) bool {
		switch x := m.(type) {
		case *ast.FuncLit:
			x.Body.List = rw.list(x.Body.List)
			return false
		case *ast.UnaryExpr:
			if x.Op == token.ARROW {
				recvs++
			}
		}
		return true
	})
	return recvs
}

func (rw *rewriter) forbidRecv(n ast.Node, where string) {
	if n == nil {
		return
	}
	if rw.scanExpr(n) > 0 {
		rw.fail(n.Pos(), "channel receive in "+where+": not understood")
	}
}

func (rw *rewriter) block(b *ast.BlockStmt) {
	if b != nil {
		b.List = rw.list(b.List)
	}
}

func (rw *rewriter) list(in []ast.Stmt) []ast.Stmt {
	var out []ast.Stmt
	for _, s := range in {
		before, after := rw.stmt(s, false)
		out = append(out, before...)
		out = append(out, s)
		out = append(out, after...)
	}
	return out
}

// stmt rewrites s in place and returns the points to insert before / after it.
func (rw *rewriter) stmt(s ast.Stmt, elseIf bool) (before, after []ast.Stmt) {
	recvPoints := func(n int) {
		for i := 0; i < n; i++ {
			before = append(before, pointStmt(rw.label("recv")))
		}
	}
	switch x := s.(type) {
	case nil:
	case *ast.ExprStmt:
		if field, method, pos, ok := lockCall(x.X); ok {
			if field != "mutex" && field != "encMutex" {
				rw.fail(pos, fmt.Sprintf("%s() on unknown lock %q", method, field))
				return
			}
			switch method {
			case "Lock":
				before = append(before, pointStmt(rw.label(field+".Lock")))
			case "Unlock":
				after = append(after, pointStmt(rw.label(field+".Unlock")))
			default:
				rw.fail(pos, method+"() is not understood")
			}
			return
		}
		if call, ok := isCloseCall(x.X); ok {
			rw.forbidRecv(call.Args[0], "close argument")
			before = append(before, pointStmt(rw.label("close")))
			return
		}
		recvPoints(rw.scanExpr(x.X))
	case *ast.SendStmt:
		recvPoints(rw.scanExpr(x.Chan) + rw.scanExpr(x.Value))
		before = append(before, pointStmt(rw.label("send")))
	case *ast.AssignStmt:
		n := 0
		for _, e := range x.Lhs {
			n += rw.scanExpr(e)
		}
		for _, e := range x.Rhs {
			n += rw.scanExpr(e)
		}
		recvPoints(n)
	case *ast.ReturnStmt:
		n := 0
		for _, e := range x.Results {
			n += rw.scanExpr(e)
		}
		recvPoints(n)
	case *ast.IncDecStmt:
		recvPoints(rw.scanExpr(x.X))
	case *ast.DeclStmt:
		recvPoints(rw.scanExpr(x.Decl))
	case *ast.GoStmt:
		if _, method, pos, ok := lockCall(x.Call); ok {
			rw.fail(pos, "go "+method+"() is not understood")
		}
		before = append(before, pointStmt(rw.label("go")))
		// arguments are evaluated by the spawning goroutine
		if lit, ok := x.Call.Fun.(*ast.FuncLit); ok {
			for _, a := range x.Call.Args {
				recvPoints(rw.scanExpr(a))
			}
			rw.block(lit.Body)
		} else {
			recvPoints(rw.scanExpr(x.Call))
		}
	case *ast.DeferStmt:
		if field, method, pos, ok := lockCall(x.Call); ok {
			if method != "Unlock" || (field != "mutex" && field != "encMutex") {
				rw.fail(pos, "defer "+field+"."+method+"() is not understood")
			}
			return // a deferred unlock ends the step when the function returns
		}
		if call, ok := isCloseCall(x.Call); ok {
			rw.forbidRecv(call.Args[0], "close argument")
			l := rw.label("close")
			x.Call = &ast.CallExpr{
				Fun: &ast.SelectorExpr{X: ast.NewIdent("verifrt"), Sel: ast.NewIdent("CloseChan")},
				Args: []ast.Expr{&ast.BasicLit{Kind: token.STRING, Value: strconv.Quote(l)},
					call.Args[0]},
			}
			return
		}
		if lit, ok := x.Call.Fun.(*ast.FuncLit); ok {
			for _, a := range x.Call.Args {
				rw.forbidRecv(a, "argument of a deferred call")
			}
			rw.block(lit.Body)
			return
		}
		rw.forbidRecv(x.Call, "deferred call")
	case *ast.BlockStmt:
		rw.block(x)
	case *ast.IfStmt:
		if x.Init != nil {
			b, a := rw.stmt(x.Init, false)
			if len(b)+len(a) > 0 {
				if elseIf {
					rw.fail(x.Pos(), "synchronisation in the init statement of an else-if: not understood")
				}
				if len(a) > 0 {
					rw.fail(x.Pos(), "unlock in an if init statement: not understood")
				}
				before = append(before, b...)
			}
		}
		if n := rw.scanExpr(x.Cond); n > 0 {
			if elseIf {
				rw.fail(x.Cond.Pos(), "channel receive in an else-if condition: not understood")
			}
			recvPoints(n)
		}
		rw.block(x.Body)
		switch e := x.Else.(type) {
		case *ast.BlockStmt:
			rw.block(e)
		case *ast.IfStmt:
			rw.stmt(e, true)
		}
	case *ast.ForStmt:
		if x.Init != nil {
			b, a := rw.stmt(x.Init, false)
			if len(a) > 0 {
				rw.fail(x.Pos(), "unlock in a for init statement: not understood")
			}
			before = append(before, b...)
		}
		rw.forbidRecv(x.Cond, "for condition")
		if x.Post != nil {
			b, a := rw.stmt(x.Post, false)
			if len(b)+len(a) > 0 {
				rw.fail(x.Post.Pos(), "synchronisation in a for post statement: not understood")
			}
		}
		rw.block(x.Body)
	case *ast.RangeStmt:
		rw.forbidRecv(x.X, "range expression")
		rw.block(x.Body)
	case *ast.SwitchStmt:
		if x.Init != nil {
			b, a := rw.stmt(x.Init, false)
			if len(a) > 0 {
				rw.fail(x.Pos(), "unlock in a switch init statement: not understood")
			}
			before = append(before, b...)
		}
		recvPoints(rw.scanExpr(x.Tag))
		rw.clauses(x.Body)
	case *ast.TypeSwitchStmt:
		if x.Init != nil {
			b, a := rw.stmt(x.Init, false)
			if len(a) > 0 {
				rw.fail(x.Pos(), "unlock in a switch init statement: not understood")
			}
			before = append(before, b...)
		}
		b, a := rw.stmt(x.Assign, false)
		if len(a) > 0 {
			rw.fail(x.Pos(), "unlock in a type switch guard: not understood")
		}
		before = append(before, b...)
		rw.clauses(x.Body)
	case *ast.SelectStmt:
		before = append(before, pointStmt(rw.label("select")))
		for _, c := range x.Body.List {
			cc := c.(*ast.CommClause)
			// the communication itself is covered by the select point; literals inside are rewritten
			if cc.Comm != nil {
				ast.Inspect(cc.Comm, func(m ast.Node) bool {
					if lit, ok := m.(*ast.FuncLit); ok {
						rw.block(lit.Body)
						return false
					}
					return true
				})
			}
			cc.Body = rw.list(cc.Body)
		}
	case *ast.LabeledStmt:
		b, a := rw.stmt(x.Stmt, false)
		if len(b)+len(a) > 0 {
			rw.fail(x.Pos(), "synchronisation directly under a label: not understood")
		}
	case *ast.BranchStmt, *ast.EmptyStmt:
	default:
		rw.fail(s.Pos(), fmt.Sprintf("statement of type %T: not understood", s))
	}
	return
}

func (rw *rewriter) clauses(b *ast.BlockStmt) {
	for _, c := range b.List {
		cc := c.(*ast.CaseClause)
		for _, e := range cc.List {
			rw.forbidRecv(e, "case expression")
		}
		cc.Body = rw.list(cc.Body)
	}
}

func funcName(d *ast.FuncDecl) string {
	if d.Recv == nil || len(d.Recv.List) == 0 {
		return d.Name.Name
	}
	t := d.Recv.List[0].Type
	for {
		switch x := t.(type) {
		case *ast.StarExpr:
			t = x.X
			continue
		case *ast.IndexExpr:
			t = x.X
			continue
		case *ast.IndexListExpr:
			t = x.X
			continue
		case *ast.Ident:
			return x.Name + "." + d.Name.Name
		}
		return "?." + d.Name.Name
	}
}

func addImport(f *ast.File) {
	spec := &ast.ImportSpec{Name: ast.NewIdent("verifrt"), Path: &ast.BasicLit{Kind: token.STRING, Value: strconv.Quote(rtImport)}}
	decl := &ast.GenDecl{Tok: token.IMPORT, Specs: []ast.Spec{spec}}
	idx := 0
	for i, d := range f.Decls {
		if g, ok := d.(*ast.GenDecl); ok && g.Tok == token.IMPORT {
			idx = i + 1
		}
	}
	f.Decls = append(f.Decls[:idx], append([]ast.Decl{decl}, f.Decls[idx:]...)...)
}

func main() {
	repo := flag.String("repo", "/repo", "go-imap working tree")
	out := flag.String("out", "", "output directory (must exist)")
	rt := flag.String("rt", "", "path of the verifrt runtime source (rt.go)")
	flag.Parse()
	if *out == "" || *rt == "" {
		fmt.Fprintln(os.Stderr, "usage: instrument13 -repo R -out D -rt <rt.go>")
		os.Exit(2)
	}
	overlay := map[string]string{}
	var labels, errs []string
	targets, err := targetFiles(*repo)
	if err != nil {
		fmt.Fprintln(os.Stderr, "instrument13:", err)
		os.Exit(1)
	}
	for _, rel := range targets {
		src := filepath.Join(*repo, rel)
		fset := token.NewFileSet()
		// comments are dropped: the rewritten copy is only ever compiled
		f, err := parser.ParseFile(fset, src, nil, parser.SkipObjectResolution)
		if err != nil {
			errs = append(errs, fmt.Sprintf("%s: %v", src, err))
			continue
		}
		for _, imp := range f.Imports {
			if imp.Name != nil && imp.Name.Name == "verifrt" {
				errs = append(errs, src+": already imports a package named verifrt")
			}
		}
		total := 0
		for _, d := range f.Decls {
			fd, ok := d.(*ast.FuncDecl)
			if !ok || fd.Body == nil {
				// package-level variables initialised by function literals with synchronisation
				if g, ok := d.(*ast.GenDecl); ok && g.Tok == token.VAR {
					rw := &rewriter{fset: fset, fn: "var", counts: map[string]int{}}
					if rw.scanExpr(g) > 0 || rw.n > 0 {
						errs = append(errs, fmt.Sprintf("%s: synchronisation in a package-level initialiser: not understood", fset.Position(g.Pos())))
					}
				}
				continue
			}
			rw := &rewriter{fset: fset, fn: funcName(fd), counts: map[string]int{}}
			fd.Body.List = rw.list(fd.Body.List)
			labels = append(labels, rw.labels...)
			errs = append(errs, rw.errs...)
			total += rw.n
		}
		if total == 0 {
			continue
		}
		addImport(f)
		var buf bytes.Buffer
		if err := printer.Fprint(&buf, token.NewFileSet(), f); err != nil {
			errs = append(errs, fmt.Sprintf("%s: %v", src, err))
			continue
		}
		dst := filepath.Join(*out, strings.ReplaceAll(rel, "/", "__"))
		if err := os.WriteFile(dst, buf.Bytes(), 0o644); err != nil {
			errs = append(errs, err.Error())
		}
		overlay[src] = dst
	}
	seen := map[string]bool{}
	for _, l := range labels {
		if seen[l] {
			errs = append(errs, "duplicate label "+l+" (two functions of the same name?)")
		}
		seen[l] = true
	}
	if len(errs) > 0 {
		fmt.Fprintln(os.Stderr, "instrument13: the tree cannot be instrumented:")
		for _, e := range errs {
			fmt.Fprintln(os.Stderr, "  "+e)
		}
		os.Exit(1)
	}
	overlay[filepath.Join(*repo, "internal", "verifrt", "rt.go")] = *rt
	js, _ := json.MarshalIndent(map[string]interface{}{"Replace": overlay}, "", " ")
	if err := os.WriteFile(filepath.Join(*out, "overlay.json"), js, 0o644); err != nil {
		fmt.Fprintln(os.Stderr, err)
		os.Exit(1)
	}
	sort.Strings(labels)
	os.WriteFile(filepath.Join(*out, "labels.txt"), []byte(strings.Join(labels, "\n")+"\n"), 0o644)
}
