"""Configuration of property C03 for ./check."""


def _c03_nontrivial(cf):
    # a well-formed-stream case in which the backend supplied some data: cf = [prop, id, family, cfg, stream, req, supplied, ...]
    return cf[4] != "illformed" and cf[6] not in ("( )", "_")


CONFIG = dict(
    correspondence="GoImap.Resp (Model/RespWire.lean, Model/RespGrammar.lean): printFetch/printList/printStatus/printSelect/printSearch/printMove/printNamespace/printExpunges and the APPENDUID/COPYUID completion lines vs the bytes the real imapserver writers put on an in-memory connection (byte for byte); readResponse + deliver* (routing to the waiting command) applied to those bytes vs what the real imapclient's Wait/Collect/Next delivered. ENVELOPE and BODY/BODYSTRUCTURE are mirrored too (Model/RespBody.lean; mime.QEncoding.Encode / WordDecoder.DecodeHeader enter as per-case tables computed by the real mime package); CAPABILITY is oracle only. The mirror claims the writer API's documented domain: outside it a difference is reported in the model column but not counted",
    rule="a scripted backend (respSession) hands generated data to the real server writers; the real client issues the matching command (FETCH/UID FETCH in streaming and Collect mode, LIST with and without RETURN (STATUS), STATUS, SELECT/EXAMINE, SEARCH/UID SEARCH with every RETURN subset, APPEND, COPY, MOVE, NAMESPACE, EXPUNGE/UID EXPUNGE, CAPABILITY) with nothing / UTF8=ACCEPT / IMAP4rev2 enabled. Values: every item subset and order; strings from an adversarial alphabet (CR, LF, quote, backslash, NUL, 8-bit and invalid UTF-8, NIL look-alikes, 4095..4097-byte strings) in every string field; body-structure trees of depth <= 5; literals of 0,1,..,4095,4096,4097,65537 bytes written in pieces; a separate stream with RFC 2047 encoded-word look-alikes and one with values outside the writer API's documented domain (judged only for 'no crash'). Non-trivial = not ill-formed and some data supplied; distinct = different case line",
    nontrivial=_c03_nontrivial,
    trusted=["mime.QEncoding / mime.WordDecoder, net/mail.ParseDate and go-message's Message-ID parsing are below the modelled interface (ENVELOPE is judged by the oracle on what the client delivered)",
             "Go's time package supplies the broken-down fields of every time value; the driver checks them against the instant on every case that mirrors INTERNALDATE"],
    assumptions=["only values in the writer API's documented domain are judged (Spec/RespGrammar.lean wf*): valid flag/attribute atoms, RFC 5322 message ids, 4-digit years and whole-minute zones, MessageRFC822/Text present exactly for message/rfc822 and text/*, extension data supplied when BODYSTRUCTURE is requested, >= 1 child per multipart, requested STATUS items supplied, static non-empty COPYUID sets, 7-bit parameter names and encodings, mailbox names in valid UTF-8",
                 "the request side is kept trivial (the property is about responses): mailbox names in requests stay below 1000 bytes"],
    leanchecker=True,
    timeout={"quick": 600, "thorough": 7200, "widen": 1800},
    level_text="proof (partial): theorems about the mirrored wire primitives (quoted-string round trip for every byte string) and the two repaired defects; the mirror of the server writers and client readers is tied byte-for-byte to the real server and to the real client's deliveries on every run, and the oracle `delivered = canon supplied` (documented canonicalisations only) judges every response family on what the real client returned",
    level_note="Trusted: Lean kernel; harness/driver; mime/net-mail/go-message/time below the modelled interface. resp_fidelity per family is listed with its status at the top of lean/GoImap/Props/C03.lean; ENVELOPE and BODYSTRUCTURE are mirrored and tied byte-for-byte but no theorem is proved about them yet.",
)
