"""Configuration of property C20 for ./check."""


def _c20_nontrivial(cf):
    import binascii
    pat = cf[6]
    return pat != "-" and (b"*" in binascii.unhexlify(pat) or b"%" in binascii.unhexlify(pat))


CONFIG = dict(
    correspondence="GoImap.ListMatch.matchListTop (Model/ListMatch.lean) vs imapserver.MatchList on the same (name, delimiter, reference, pattern)",
    rule="exhaustive small scope: every name over {a,b,/} up to length 5 (thorough 6) x every pattern over {a,b,/,*,%} up to length 4 (thorough 5) x delimiter {'/', none} x references {'', a, a/, b/a}, one case line per (delimiter, reference, pattern) carrying a bitmap over all names; plus random longer names/patterns incl. UTF-8 and other delimiters. Non-trivial = the pattern contains a wildcard; distinct = different case line",
    nontrivial=_c20_nontrivial,
    exhaustive=True,
    trusted=["strings.IndexAny/HasPrefix/TrimPrefix are modelled by byte-level recursion (agreement exercised exhaustively in the small scope)"],
    assumptions=["the oracle (theorems and Spec) covers an absent or single-byte ASCII delimiter; other delimiter runes are compared with the model only"],
    leanchecker=True,
    level_text="proof: matchList_iff shows the mirrored recursive matcher accepts exactly the names the inductive wildcard semantics (Spec.Matches) accepts, for all patterns, names and delimiters; the mirror is tied to imapserver.MatchList exhaustively in a small scope and randomly beyond on every run, and an independent position-set matcher written from the RFC is evaluated on the implementation's answers",
    level_note="Trusted: Lean kernel; harness/driver; the byte-level normal form of the chunked Go loop (validated exhaustively for names<=5/patterns<=4 over a 3/5-letter alphabet).",
)
