"""Configuration of property C20 for ./check."""


def _c20_nontrivial(cf):
    import binascii
    pat = cf[6]
    return pat != "-" and (b"*" in binascii.unhexlify(pat) or b"%" in binascii.unhexlify(pat))


CONFIG = dict(
    correspondence="GoImap.ListMatch.matchListTopS (Model/ListMatch.lean, the mirror of the repaired matcher; delimiter STRING of any length) vs imapserver.MatchList on the same (name, delimiter, reference, pattern)",
    rule="exhaustive small scope: every name over {a,b,/} up to length 5 (thorough 6) x every pattern over {a,b,/,*,%} up to length 4 (thorough 5) x delimiter {'/', none} x references {'', a, a/, b/a}, one case line per (delimiter, reference, pattern) carrying a bitmap over all names; plus random longer names/patterns incl. UTF-8 and other delimiters ('.', 'a', U+00B7, U+00E9, U+2192, U+1F600, the delimiter placed where '/' was), plus every name of at most 4 CHARACTERS over {a, delimiter, a character sharing bytes with it} x every pattern of at most 3 over {a, delimiter, *, %} for the delimiters U+00B7 and U+2192. Non-trivial = the pattern contains a wildcard; distinct = different case line",
    nontrivial=_c20_nontrivial,
    exhaustive=True,
    trusted=["strings.IndexAny/HasPrefix/TrimPrefix are modelled by byte-level recursion (agreement exercised exhaustively in the small scope)"],
    assumptions=["multi-byte delimiters: matchListS_iff is a byte-level statement ('%' = a sequence inside which no delimiter string starts); that this is the character-level semantics for valid UTF-8 (self-synchronisation) is not proved: the rune-level oracle Spec.runeOracle (the proved single-symbol semantics applied to code points) judges every valid-UTF-8 case of every run; names/patterns that are not valid UTF-8 are compared with the model only when the delimiter is not ASCII"],
    leanchecker=True,
    level_text="proof: matchList_iff shows the mirrored recursive matcher accepts exactly the names the inductive wildcard semantics (Spec.Matches) accepts, for all patterns, names and delimiters (matchList_iff for a one-byte or absent delimiter, matchListS_iff for delimiter strings of any length after the repair of F45, with Legacy counterexamples for the shipped byte-to-rune comparison); the mirror is tied to imapserver.MatchList exhaustively in a small scope and randomly beyond on every run, and an independent position-set matcher written from the RFC is evaluated on the implementation's answers",
    level_note="Trusted: Lean kernel; harness/driver; the byte-level normal form of the chunked Go loop (validated exhaustively for names<=5/patterns<=4 over a 3/5-letter alphabet).",
)
