"""Configuration of property C09 for ./check."""


def _c09_nontrivial(cf):
    # the history changed or read message-level state: some response carries a FETCH, an EXPUNGE,
    # a COPYUID, or a non-empty SEARCH result
    obs = cf[5]
    return ("|F" in obs) or ("|E" in obs) or ("COPYUID" in obs) or ("|C" in obs) or ("|S" in obs and "|S-" not in obs)


CONFIG = dict(
    correspondence="GoImap.Mailbox (Model/Mailbox.lean: users' mailboxes, messages, per-session update queues, one step "
                   "function per command family) vs the real server (imapserver.New with imapmemserver sessions, capabilities "
                   "IMAP4rev1+IMAP4rev2 as in cmd/imapmemserver) over in-memory connections: after EVERY command of a "
                   "generated history the tagged status + response code and all untagged data (EXISTS/EXPUNGE/FETCH items incl. "
                   "section bytes/SEARCH+ESEARCH/LIST/STATUS/COPYUID/APPENDUID/SELECT data), parsed by the harness's own "
                   "tokenizer and canonicalised (flag lists, FETCH items, STATUS items and LIST lines sorted), must equal the "
                   "model's response",
    rule="random histories of 6..30 commands on 1-2 connections (never the same mailbox open on both) over CREATE/DELETE/RENAME/"
         "SUBSCRIBE/UNSUBSCRIBE/LIST(+SUBSCRIBED, patterns, RETURN STATUS)/STATUS/APPEND/SELECT/EXAMINE/CLOSE/UNSELECT/NOOP/"
         "STORE(set/add/remove, silent, UID)/COPY/MOVE/EXPUNGE/UID EXPUNGE/SEARCH(all key kinds, NOT/OR/groups, RETURN options, "
         "UID)/FETCH(FLAGS, UID, RFC822.SIZE, INTERNALDATE, FAST/ALL/FULL, RFC822*, BODY[..] sections with partials up to 2^63-1, and - judged for "
         "crashes and complete response lines only - BODY/BODYSTRUCTURE/ENVELOPE in every order and numbered sections of multipart/"
         "message bodies) with "
         "2-8 mailbox names, delete+recreate, rename, verification fetches after APPEND/COPY/MOVE, plus a corpus of past "
         "failures; non-trivial = some response carries FETCH/EXPUNGE/COPYUID/SEARCH data; distinct = different case line",
    nontrivial=_c09_nontrivial,
    trusted=["the harness's response tokenizer and the token->wire renderer (c09.go)",
             "number sets of commands are canonicalised by imapwire.ParseSeqSet before being handed to the model (C15's domain)"],
    assumptions=["messages are well-formed single-part ASCII messages built from (header list, body); multipart sections, "
                 "ENVELOPE, BODYSTRUCTURE, BINARY, SEARCHRES and LSUB are outside the model",
                 "at most one connection has a given mailbox selected at a time (multi-session views are C08's)",
                 "mailbox names are ASCII without '&' (modified UTF-7 is C16's)"],
    leanchecker=True,
    model_is_reference=True,
    shrink={"hist": (4, ";")},
    timeout={"quick": 600, "thorough": 7200, "widen": 1800},
    level_text="proof for the semantic laws on the reference model M10 (UID monotonicity and non-reuse, UIDVALIDITY freshness, "
               "APPENDUID/COPYUID naming the new messages, STORE/EXPUNGE/MOVE exactness, SEARCH = matchesC, LIST = MatchList, no "
               "partial range panics) for all histories; equality of the implementation with the model is the correspondence "
               "(that is what the property asks for), re-established on every run, and an RFC-side ghost oracle judges the "
               "implementation's own responses; partial: multipart sections, envelopes and body structures are outside",
    level_note="Trusted: Lean kernel; harness/driver/tokenizer. The theorem list and what is validated by the oracle only is at the "
               "top of lean/GoImap/Props/C09.lean.",
)
