"""Configuration of property C02 for ./check."""


def _c02_nontrivial(cf):
    # a delivered command carrying at least one argument beyond the command name
    # cf = [prop, id, kind, cfg, caller-side call, outcome, stub log, wire]
    return cf[5] == "ok" and " " in cf[4] and cf[4] not in ("Expunge nil",)


CONFIG = dict(
    correspondence="GoImap.CmdGrammar (Model/CmdGrammar.lean): printCmd (mirror of the imapclient command writers) vs the bytes the real imapclient.Client writes (captured on the in-memory connection; items that come out of a Go map are compared as a multiset), and parseCmds (mirror of the imapserver command readers) applied to the model's own output vs the calls the recording stub session behind the real imapserver receives, plus the outcome (ok / NO / BAD / refused by the client)",
    rule="per run: the corpus of past failures on every configuration; every subset of the boolean option sets (STATUS 2^8 items + sampled HIGHESTMODSEQ, LIST 2^7 options x 3 RETURN STATUS shapes, FETCH 96 scalar-item sets x {seq,uid}, SEARCH RETURN 2^5 x {seq,uid}, STORE 3 ops x silent) on a seed-rotated selection of 4 of the 13 (server capabilities x ENABLE mode) configurations (all of them in the thorough tier); 9000 random commands (thorough 400000) over LOGIN, SELECT/EXAMINE, CREATE (USE), DELETE, RENAME, SUBSCRIBE, UNSUBSCRIBE, LIST, STATUS, APPEND (flags, time zones, payload 0/1/2/17/4096/4097 bytes), COPY, MOVE (also emulated by COPY+STORE+EXPUNGE), STORE, EXPUNGE, UID EXPUNGE, FETCH (body sections over part paths x specifier x header lists x partial x peek, binary sections and sizes), SEARCH (criteria trees of depth <= 3 over every field, date pairs around the ON rule) with adversarial strings (empty, quote, backslash, CR, LF, NUL, 8-bit UTF-8, invalid UTF-8, &, %, *, braces, parentheses, 4096/4097 bytes), mailbox names incl. non-ASCII, INBOX case variants and modified-UTF-7 look-alikes, number sets built through the API and written as literals (unsorted, overlapping, reversed, *, $, empty). Non-trivial = the command was delivered and carries arguments; distinct = different case line",
    nontrivial=_c02_nontrivial,
    trusted=["the recording stub session and its renderers (harness stub.go); time.Format/time.Parse for the two IMAP date layouts and the quoted/literal encoding of strings (property C01) are below the item level of the model — the driver re-derives both byte for byte when it compares the wire",
             "Go's strings.ToUpper/ToLower/EqualFold are modelled on ASCII"],
    assumptions=["mailbox names are valid UTF-8 (Go replaces invalid bytes by U+FFFD before encoding; such names are counted and skipped)",
                 "strings handed to the server fit its 4096-byte limit for buffered literals (what happens to a longer one is command framing, C04; a refused synchronising literal leaves both sides waiting, so such cases are generated only where the client sends non-synchronising literals, and are excluded from oracle and model)",
                 "commands are issued in a connection state that permits them (state checks are C05)",
                 "CONDSTORE, SORT, THREAD, QUOTA, METADATA, NAMESPACE, ID are outside the property (not implemented by the server)"],
    leanchecker=True,
    source_facts=True,
    timeout={"quick": 600, "thorough": 3000, "widen": 1200},
    level_text="proof: cmd_fidelity (writer mirror then reader mirror = sem of the caller's arguments) is proved for every command family — LOGIN, SELECT/EXAMINE, CREATE, DELETE, RENAME, SUBSCRIBE, UNSUBSCRIBE, STORE, COPY, MOVE (also emulated), EXPUNGE, UID EXPUNGE, STATUS (any item order), LIST, SEARCH (every criteria tree), FETCH (all items and sections), APPEND — at item level (strings, the APPEND literal and the two date formats are opaque items: C01 / time package); the writer and reader mirrors are tied to the real client and server on every run (wire bytes and stub-session log) and the oracle `stub log = sem(caller arguments)` is evaluated on every delivered command",
    level_note="Trusted: Lean kernel; harness/driver; string and date encodings below the item level (C01, time package; re-derived byte for byte by the tie). Proved for every order of the map-ordered items (Delivers: STATUS, LIST RETURN (STATUS), SEARCH RETURN, FETCH scalars), for canonical number sets against sem and for literal non-canonical sets against the delivered set characterised by denotation (C15); the server's limits (strings of 4096 bytes, 1000 nested lists) are hypotheses tied to the source facts; strings above the limit, non-UTF-8 mailbox names and CONDSTORE items are covered by the tie/oracle only or are outside the property (see the header of lean/GoImap/Props/C02.lean).",
)
