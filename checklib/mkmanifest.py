#!/usr/bin/env python3
"""Regenerate /verif/MANIFEST.json from checklib/props.py (keeps it valid and current)."""
import json, os, sys
sys.path.insert(0, os.path.dirname(os.path.abspath(__file__)))
import props as P

ROOT = os.path.dirname(os.path.dirname(os.path.abspath(__file__)))
ids = [json.loads(l)["id"] for l in open(os.path.join(ROOT, "properties.jsonl"))]
checks, na = [], []
for pid in ids:
    c = P.PROPS.get(pid)
    if c is None or c.get("unclaimed"):
        na.append(dict(property_id=pid, reason=P.NOT_CLAIMED.get(pid, "model and correspondence for this property are not built yet; see DESIGN.md section 5 for the plan")))
        continue
    checks.append(dict(
        property_id=pid,
        quick_cmd="./check %s --tier quick" % pid,
        thorough_cmd="./check %s --tier thorough" % pid,
        evidence_file="/verif/evidence/%s.json" % pid,
        replay_cmd_template="./check %s --replay {path}" % pid,
        engine="lean-goimap + verifharness",
        level_claimed=dict(category="proof", text=c["level_text"], design_ref=c.get("design_ref", "DESIGN.md section 5")),
        level_note=c["level_note"],
        technique=c.get("technique", "Lean 4 theorems about an executable model + differential correspondence of that model with the Go code + Lean-evaluated oracle on the implementation's outputs"),
    ))
m = dict(
    version=1,
    setup_cmd="cd /verif && ./check --setup",
    hooks=dict(
        guard="verif",
        enable="go build -tags verif (the harness is always built with the tag; hook files in /repo are //go:build verif)",
        baseline_off_cmd="cd /repo && go test -vet=off -count=1 ./...",
        source_commits=P.HOOK_COMMITS,
        add_only=True,
    ),
    engines=[
        dict(name="lean-goimap", path="/verif/lean", serves_properties=[c["property_id"] for c in checks],
             kind_free_text="Lean 4.33 library: executable models (Model/), RFC-side specs and oracles (Spec/), property theorems (Props/), axiom audits (Audit/), compiled line-protocol driver (Main.lean)"),
        dict(name="verifharness", path="/verif/harness", serves_properties=[c["property_id"] for c in checks],
             kind_free_text="Go module with replace => /repo: generators, observers and crash-isolating workers that run the real go-imap code and emit one case per line for the driver"),
    ],
    checks=checks,
    not_applicable=na,
    notes="Every check: (1) rebuilds and audits the Lean theorems of the property, (2) rebuilds the harness from /repo's working tree, runs the real code and the Lean model on the same generated cases and diffs them, (3) evaluates the property's oracle (Spec/) on the implementation's outputs. Exit 1 with VIOLATION on an oracle failure (replay = the failing case), or on a correspondence/proof break without one (suffix no-failing-input-found). known_findings.json lists recorded defects (status known) and repaired ones (status fixed, suppressing nothing).",
)
json.dump(m, open(os.path.join(ROOT, "MANIFEST.json"), "w"), indent=1)
print("MANIFEST.json: %d checks, %d not claimed" % (len(checks), len(na)))
