"""Per-property configuration for ./check (what is compared, how non-trivial cases are counted)."""

TRUSTED_BASE = [
    "Lean 4.33.0 kernel (thorough tier: re-checked by leanchecker)",
    "axioms allowed in property theorems: propext, Classical.choice, Quot.sound (audited by #print axioms on every run); no sorry/admit/native_decide/bv_decide/axiom declarations (grep on every run)",
    "the correspondence harness (/verif/harness) and the line-protocol driver (/verif/lean/Main.lean): generators, observers, canonicalisers",
    "the Lean compiler/runtime executing the model definitions inside the driver",
    "Go standard library and go-message/go-sasl below the modelled interfaces (bufio, strconv, strings, base64, utf8/utf16, x/text/transform, time, mime, crypto/tls, net, the Go scheduler and memory model)",
]


def _c15_nontrivial(cf):
    kind = cf[2]
    if kind == "ops":
        obs = cf[6]
        return ("-0" in obs) or (obs.count(",") + 1 < cf[5].count(";") + 1) or ":" in obs
    if kind == "nums":
        return cf[3] != ""
    if kind == "parse":
        return cf[5] != "err"
    return False


HOOK_COMMITS = []

# reasons for properties that are not claimed (yet)
NOT_CLAIMED = {}

def _c20_nontrivial(cf):
    import binascii
    pat = cf[6]
    return pat != "-" and (b"*" in binascii.unhexlify(pat) or b"%" in binascii.unhexlify(pat))


def _c16_nontrivial(cf):
    # a shift sequence was produced or consumed: '&' (0x26) followed by something other than '-'
    import re
    return re.search(r"26(?!2d)", cf[3]) is not None or (cf[2] in ("enc", "enct") and re.search(r"26(?!2d)", "\t".join(cf[4:])) is not None)


def _c19_nontrivial(cf):
    # both operands constrain something / several keys or a nested key
    if cf[2] == "and":
        return cf[3] != "()" and cf[4] != "()"
    if cf[2] == "keys":
        return " " in cf[3]
    return cf[3] != "()"


def _c07_nontrivial(cf):
    # some session had a non-empty queue when queried: an update was queued while a session was live
    ops = cf[5].split(";")
    live = False
    for o in ops:
        if o[0] == "N":
            live = True
        elif live and o[0] in "nemf":
            return True
    return False


PROPS = {
    "C07": dict(
        correspondence="GoImap.Tracker (Model/Tracker.lean) vs imapserver.MailboxTracker/SessionTracker: updates emitted by every Poll (captured on the wire of a real server connection: NOOP = expunges allowed, FETCH = not) and DecodeSeqNum/EncodeSeqNum of every number 0..max+2 for every live session after every step",
        rule="random histories (length 3..40, 1..4 sessions created and closed anywhere, QueueNumMessages(+k), k in {0,1,2,3,7}, QueueExpunge, QueueMailboxFlags, QueueMessageFlags with/without source, Poll with/without permission to expunge) plus a corpus of past failures; non-trivial = an update was queued while a session was live; distinct = different case line",
        nontrivial=_c07_nontrivial,
        trusted=["the wire rendering of updates (UpdateWriter) is parsed by the harness"],
        assumptions=["operations are valid calls (expunge/flags numbers within the mailbox, counts never decrease): the Go code panics otherwise, outside the property's domain"],
        leanchecker=True,
        level_text="proof: theorems about the mirrored tracker (poll emits an expunge-free prefix or everything, in order; decode/encode identify the same ghost message identity or 0) for all histories; the mirror is tied to imapserver's tracker on every run and a ghost-identity specification judges every poll and every translation of the implementation",
        level_note="Trusted: Lean kernel; harness/driver. decode_spec/encode_spec/inv_reachable are listed at the top of lean/GoImap/Props/C07.lean with their status.",
    ),
    "C19": dict(
        correspondence="GoImap.Search (Model/Search.lean): Crit.and vs imap.SearchCriteria.And (resulting struct, field by field); matchesC vs imapmemserver message.search (via the verif hook); foldKeys vs the criteria the real server parser hands to a recording session for raw SEARCH lines",
        rule="random criteria pairs over every field (sets, four date bounds, headers, body/text, flags, size bounds incl. unset/negative, NOT/OR depth<=2); random criteria x random messages; raw SEARCH commands of 1..8 keys (every key kind, nesting depth<=2, case variants, atom/quoted strings) each also in two random permutations. Non-trivial = both operands non-empty (and) / more than one key or a nested key (keys) / non-empty criteria (msg); distinct = different case line",
        nontrivial=_c19_nontrivial,
        trusted=["time.Time truncation to the calendar day, go-message header parsing and bytes.ToLower are below the modelled interface (the harness hands the model the truncated dates and lower-cased ASCII text)"],
        assumptions=["message sizes are non-negative", "strings are ASCII (bytes.ToLower on non-ASCII is not modelled)", "SearchCriteria.ModSeq is outside the model (no matcher in the repository gives it meaning; And ignores it)"],
        leanchecker=True,
        level_text="proof: matches_and shows Crit.and is intersection for all criteria pairs (every field, arbitrary NOT/OR sub-trees) and all messages; legacy_and_counterexample keeps the machine-checked witness that the shipped And was not. The model is tied to SearchCriteria.And, to the in-memory backend's matcher and to the server's search-key parser on every run; the oracle evaluates And and key lists on a 96-message universe against the per-key RFC semantics",
        level_note="Trusted: Lean kernel; harness/driver; time/go-message/bytes library code below the modelled interface. fold_keys (parser = conjunction of keys) is validated by the oracle, not yet proved.",
    ),
    "C16": dict(
        correspondence="GoImap.Utf7 (Model/Utf7.lean) encode/decode vs utf7.Encoding one-shot String API; decTransform/encTransform vs explicit Transformer.Transform calls (nDst, nSrc, error class, bytes written, carried ascii flag through the next call)",
        rule="encoder: every string over a 10-symbol code-point alphabet (ASCII, &, -, comma, ~, U+0001, U+007F, 2/3/4-byte code points) up to length 4 (thorough 5), random longer ones over boundary code points; decoder: every string over {& - A B / + , = a CR 0x80} up to length 4 (thorough 6), a corpus of malformed forms, encoder outputs and their mutations; streaming: random (reveal 0..4, dst capacity 1..8) schedules and every split point of the corpus. Non-trivial = a shift sequence is produced or consumed; distinct = different case line",
        nontrivial=_c16_nontrivial,
        trusted=["unicode/utf8 (DecodeRune/EncodeRune) and encoding/base64 are modelled by own functions (utf8enc/utf8dec/b64enc/b64dec); x/text/transform's String loop is trusted to follow the Transformer contract"],
        assumptions=["encoder input is valid UTF-8 (invalid input is only checked for 'no panic, printable output')"],
        leanchecker=True,
        level_text="proof: Lean theorems about the mirrored encoder/decoder state machines (round trip, output form, rejection of the malformed forms, chunking independence) for all strings; the mirrors are tied to internal/utf7 on every run through the one-shot API and through explicit Transform calls with adversarial buffer sizes, and an independent bit-stream decoder written from RFC 3501/2152 judges every implementation answer",
        level_note="Trusted: Lean kernel; harness/driver; utf8/base64/transform library code below the modelled interface. Theorems still missing are listed at the top of lean/GoImap/Props/C16.lean; those clauses are validated by the oracle only.",
    ),
    "C20": dict(
        correspondence="GoImap.ListMatch.matchListTop (Model/ListMatch.lean) vs imapserver.MatchList on the same (name, delimiter, reference, pattern)",
        rule="exhaustive small scope: every name over {a,b,/} up to length 5 (thorough 6) x every pattern over {a,b,/,*,%} up to length 4 (thorough 5) x delimiter {'/', none} x references {'', a, a/, b/a}, one case line per (delimiter, reference, pattern) carrying a bitmap over all names; plus random longer names/patterns incl. UTF-8 and other delimiters. Non-trivial = the pattern contains a wildcard; distinct = different case line",
        nontrivial=_c20_nontrivial,
        exhaustive=True,
        trusted=["strings.IndexAny/HasPrefix/TrimPrefix are modelled by byte-level recursion (agreement exercised exhaustively in the small scope)"],
        assumptions=["the oracle (theorems and Spec) covers an absent or single-byte ASCII delimiter; other delimiter runes are compared with the model only"],
        leanchecker=True,
        level_text="proof: matchList_iff shows the mirrored recursive matcher accepts exactly the names the inductive wildcard semantics (Spec.Matches) accepts, for all patterns, names and delimiters; the mirror is tied to imapserver.MatchList exhaustively in a small scope and randomly beyond on every run, and an independent position-set matcher written from the RFC is evaluated on the implementation's answers",
        level_note="Trusted: Lean kernel; harness/driver; the byte-level normal form of the chunked Go loop (validated exhaustively for names<=5/patterns<=4 over a 3/5-letter alphabet).",
    ),
    "C15": dict(
        correspondence="GoImap.NumSet (Model/NumSet.lean) vs internal/imapnum.Set and imap.SeqSet/UIDSet: ranges, String, Dynamic, Contains on probes, Nums, ParseSet after every operation",
        rule="op sequences (length<=12, endpoints from small numbers, 2^31, 2^32-4..2^32-1 and '*'; all sequences of length<=2 (quick) / <=3 (thorough) over a 7-value alphabet), enumeration of every resulting set of cardinality<=20000, grammar-generated and mutated sequence-set texts; a case is non-trivial when a merge, a proper range or a dynamic element is involved (ops), the set is non-empty (nums) or the text parses (parse); distinct = different case line after dropping the id",
        nontrivial=_c15_nontrivial,
        trusted=["strconv.ParseUint/AppendUint base 10 are modelled by own digit functions (agreement exercised by the tie)"],
        assumptions=["AddSet arguments are sets built through the API (canonical)"],
        leanchecker=True,
        level_text="proof: Lean theorems about the mirrored number-set model (canonical form, membership = union, parse/print, enumeration) hold for all operation sequences; the model is tied to internal/imapnum and the public SeqSet/UIDSet wrappers by a differential check on every run",
        level_note="Trusted: Lean kernel; the differential harness and driver; strconv digit functions modelled. Theorems not yet proved are listed in DESIGN.md and validated by the oracle only.",
    ),
}
