"""Per-property configuration for ./check (what is compared, how non-trivial cases are counted)."""

TRUSTED_BASE = [
    "Lean 4.33.0 kernel (thorough tier: re-checked by leanchecker)",
    "axioms allowed in property theorems: propext, Classical.choice, Quot.sound (audited by #print axioms on every run); no sorry/admit/native_decide/bv_decide/axiom declarations (grep on every run)",
    "the correspondence harness (/verif/harness) and the line-protocol driver (/verif/lean/Main.lean): generators, observers, canonicalisers",
    "the Lean compiler/runtime executing the model definitions inside the driver",
    "Go standard library and go-message/go-sasl below the modelled interfaces (bufio, strconv, strings, base64, utf8/utf16, x/text/transform, time, mime, crypto/tls, net, the Go scheduler and memory model)",
]


HOOK_COMMITS = ["fb8017e", "a6848c7"]

# reasons for properties that are not claimed (yet)
NOT_CLAIMED = {}

import glob as _glob, importlib as _importlib, os as _os

PROPS = {}
for _f in sorted(_glob.glob(_os.path.join(_os.path.dirname(_os.path.abspath(__file__)), "prop_C*.py"))):
    _name = _os.path.basename(_f)[:-3]
    try:
        _m = _importlib.import_module(_name)
        PROPS[_name[5:]] = _m.CONFIG
    except Exception as _e:  # a broken in-progress module must not take the other properties down
        import sys as _sys
        print("warning: could not load %s: %s" % (_name, _e), file=_sys.stderr)
