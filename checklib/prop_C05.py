"""Configuration of property C05 for ./check."""


def _c05_nontrivial(cf):
    # a table row (one per distinct input) or a random history; the audit line does not count
    return cf[2] in ("row", "hist", "pipe") and cf[6] != "-"


CONFIG = dict(
    correspondence="GoImap.ServerSM (Model/ServerSM.lean): step/run vs a real imapserver.Server connection (in-memory pipe, "
                   "optionally inside TLS, recording session): per command the session calls with the connection state seen "
                   "inside each call, the tagged status class, BYE, continuation requests, the capability list of a "
                   "LOGIN/AUTHENTICATE completion, TLS status, and a probe of the state after the command (CAPABILITY list, "
                   "FETCH, ENABLE); greeting type and capabilities; the session's Close at the end",
    rule="EXHAUSTIVE table: {implicit TLS, plaintext} x {InsecureAuth} x {PREAUTH} x {session with/without Move/Namespace/"
         "Unauthenticate} x {STARTTLS configured} x every reachable (state, TLS active) x 41 command kinds (every name of the "
         "readCommand switch, UID forms separately, unknown, UID unknown, 3 extra AUTHENTICATE shapes) x {malformed, ok, "
         "principal session method fails, auxiliary method fails, Poll fails}; each distinct server input once (outcomes that arm "
         "no failure coincide with ok: Props/C05 step_same_input); two further capability sets with succeeding backends for the ten kinds that show or change the capability list. Plus, for every state, "
         "LOGOUT / unknown / UID unknown followed IN THE SAME WRITE by two marker commands (LOGIN, NOOP): after a command that ends "
         "the connection nothing that was already buffered may be processed. Each row "
         "is a fresh connection driven into the state by the shortest history. Plus random histories of length <= 30 (quick 300, "
         "thorough 100000). Non-trivial = row or history with at least one command; distinct = different case line",
    nontrivial=_c05_nontrivial,
    exhaustive=True,
    trusted=["crypto/tls over the in-memory pipe (TLS 1.2 with session resumption, self-signed certificate generated at start-up)",
             "the state probe (CAPABILITY, FETCH 1 FLAGS, ENABLE) is assumed not to change the connection state; the model predicts "
             "its answers and calls as well, so a probe that did would show up as a disagreement"],
    assumptions=["one representative well-formed and one malformed instance per command kind (argument parsing is C02/C04)",
                 "SASL mechanisms other than PLAIN and sessions implementing SessionSASL are outside the model",
                 "backend failures are imap.Error values of type NO",
                 "lines that are not even 'tag SP command' (connection is dropped) belong to C04/C06"],
    leanchecker=True,
    source_facts=True,
    timeout=dict(quick=600, thorough=7200, widen=1200),
    level_text="proof: for all configurations and all histories over the command alphabet x backend outcomes, every session call "
               "of the mirrored state machine is made in a state in which RFC 9051 permits it (gate), credentials reach the "
               "backend only on TLS or with InsecureAuth (creds_need_tls), the observable state trace is the one the RFC diagram "
               "prescribes (transitions, transitions_fun; failed SELECT deselects, LOGOUT is final, unknown command before "
               "authentication closes), and AUTH=PLAIN/LOGINDISABLED/STARTTLS are advertised exactly when they apply "
               "(caps_advert). The mirror's finite step table is tied to the real server EXHAUSTIVELY on every run, and the "
               "RFC-side oracle (Permitted, rfcStep, capability rules, BYE/close, nothing processed after termination incl. pipelined "
               "commands, no selected-state call reaching a backend whose own Select/Unselect bookkeeping says no mailbox, Close "
               "exactly once) judges every recorded call and state of the implementation",
    level_note="Trusted: Lean kernel; harness/driver; crypto/tls. One-step facts are proved by kernel evaluation of the whole "
               "table (decide +kernel, one theorem per command kind) and lifted by induction over histories. Response classes "
               "(NO vs BAD) are compared with the model but are not part of the oracle.",
)
