"""Configuration of property C01 for ./check."""


def _c01_nontrivial(cf):
    # the encoder accepted the value and the peer decoded something; decoder-only cases do not count
    kind = cf[2]
    if kind == "raw":
        return False
    n_in = {"str": 4, "mbox": 3, "flag": 4, "flags": 4, "num": 4, "nset": 4, "val": 4, "chain": 5}[kind]
    obs = cf[3 + n_in:]
    if kind == "mbox":
        obs = obs[1:]
    return obs[0] not in ("E", "H", "P") and len(obs[0]) > 6


CONFIG = dict(
    correspondence="GoImap.Wire (Model/Wire.lean) vs the real imapwire.Encoder (String, Mailbox, Flag, MailboxAttr, Number, Number64, ModSeq, NumSet, List/BeginList) and the real imapwire.Decoder of the peer side (ExpectAString, ExpectString, ExpectMailbox, internal.ExpectFlag/ExpectMailboxAttr and their list readers, ExpectNumber/Number64/ModSeq, ExpectNumSet/ExpectUIDSet, List, DiscardValue): bytes written, offsets at which the encoder waited for a continuation request, encoder refusal, decoder result, returned error class, dec.Err() class, unread byte count, literal-hook calls; plus decoder-only cases over mutated encoder output and over hand-framed mailbox names (atom/quoted/literal; control characters, DEL, 8-bit, '&' forms) judged against Utf7Spec.specDecode",
    rule="byte strings (weighted alphabet: NUL CR LF quote backslash DEL 8-bit invalid UTF-8 braces) of every length 0..20 and 4095/4096/4097/8192 under all 16 side x mode configurations with both string readers and 9 kinds of following bytes; valid-UTF-8 mailbox names incl. INBOX case variants, '&', astral runes, names around the 4096 threshold; flags and mailbox attributes from the canonical tables in every case mix, random atoms, a table of malformed ones, 8-bit keywords and well-known names with a Unicode look-alike/fold-alike letter, singly and as lists; numbers at 0, 1, 2^31, 2^32-1, 2^63-1, -1, -2^63 and random; canonical and raw number sets, empty sets, SEARCHRES; value trees of depth <= 6 and chains of depth 1,2,998..1001; non-trivial = the encoder accepted the value and wrote more than its CRLF; distinct = different case line",
    nontrivial=_c01_nontrivial,
    trusted=["bufio.Reader/Writer, strconv, strings.EqualFold/ToLower on ASCII, unicode.IsControl and the utf8 validity test are below the modelled interface (tied on every run)",
             "the generic value reader used for nested lists is harness code assembled from Decoder.String / Decoder.List / Decoder.ExpectNumber64 in the order of Decoder.DiscardValue (which is observed as well)"],
    assumptions=["mailbox names are valid UTF-8 (others are counted as skipped)",
                 "refused <=> not representable is judged for 7-bit flags and attributes only (the library also lets bytes >= 0xA0 through; such flags must still round-trip unchanged)",
                 "a continuation request is available and granted (refusal of a synchronising literal is C18's subject)",
                 "number sets handed to the encoder are in canonical form (raw struct literals outside it are compared with the model but not judged)"],
    leanchecker=True,
    source_facts=True,
    level_text="proof: round-trip theorems about the mirrored encoder/decoder for every byte string, number, flag, mailbox name, number set and value tree under every mode combination, with refusal theorems judged against RFC 9051 syntax; the mirror is tied to imapwire's Encoder and the peer's Decoder on every run, and an RFC-side oracle (strict string reader, flag grammar, literal-mode rules, the two documented canonicalisations) judges what the implementation wrote and what the peer read",
    level_note="Trusted: Lean kernel; harness/driver; bufio/strconv/strings below the modelled interface. The header of lean/GoImap/Props/C01.lean lists which theorems are proved and which clauses are validated by the oracle only.",
)
