"""Configuration of property C13 for ./check."""


def _c13_nontrivial(cf):
    # cf = [prop, id, kind, fields...]
    if cf[2] == "race":
        return True
    if cf[2] != "det":
        return False
    subs = cf[3].split("|")[0].split("/")
    closes = cf[3].split("|")[1]
    # a schedule in which at least two threads interleave with the reader: two submitters, or a
    # submitter and a closer, and the run went through
    return cf[5] == "done" and (len(subs) >= 2 or closes != "0")


CONFIG = dict(
    correspondence="GoImap.ClientConc (Model/ClientConc.lean, one step per c.mutex/c.encMutex critical section or channel operation) vs imapclient.Client: schedules produced by the model are ENFORCED on the real client by turn-taking at points that harness/instrument13 inserts (go build -overlay, regenerated from the working tree on every run) before every c.mutex/encMutex Lock, after every Unlock, before every channel send/receive/close/select and go statement of package imapclient and imapwire.ContinuationRequest; the peer is the server end of an in-memory pipe driven by the schedule. Compared: every label at which every goroutine parks, the flushes on the wire (command, tag, kind), the result class of every command, the result of every Close, the values returned by State/Mailbox/Caps, panics. A schedule the real code cannot follow (a goroutine not at the predicted point within 2 s) is a correspondence break naming the label.",
    rule="deterministic: random walks of the model (1-3 submitters x 1-2 commands of kinds NOOP, streaming FETCH, LOGIN and APPEND with synchronising literals, SEARCH, ENABLE, IDLE; closer calling Close 0-2 times; observer calling State/Mailbox/Caps; server answering OK/NO/+/ENABLED, closing or failing the next read at a random step, biased towards the moments a submission is under way), completed to quiescence, plus the corpus of past failures and the schedules of the Legacy models driven as probes; OS-scheduled: 8 submitters x 5 commands of all kinds (plain, streaming FETCH/LIST, literal-bearing LOGIN/APPEND/SEARCH, ENABLE, IDLE) against a scripted server that closes or resets at a random command, one goroutine hammering State/Caps/Mailbox/Close, in a -race build; non-trivial = a completed schedule with at least two threads besides the reader, or any -race workload; distinct = different case line",
    nontrivial=_c13_nontrivial,
    trusted=[
        "harness/instrument13 (go/ast rewriter; fails loudly on constructs it does not understand) and the turn-taking scheduler in harness/cmd/verifh/c13_det.go",
        "the Go race detector for the OS-scheduled runs; the Go memory model itself is not modelled",
    ],
    assumptions=[
        "data-race freedom is a property of the Go memory model: Lean proves the lockset discipline of the model's field-access table, the -race workloads support that the table is complete (partial)",
        "streamed data items (FETCH/LIST items filling their channels) are outside the model; only the completion of streaming commands is",
        "Caps() after the reader has ended picks one of two ready select branches at random; the schedule records which (entry 100+thread)",
        "sequential-code conventions stated in the model's exec (a command id is registered once; the instructions between encMutex.Lock and Unlock run in the lock's owner; a literal header / IDLE line is flushed right after its continuation request was registered; flush() treats an *imap.Error as the command's own): if one were wrong the model would stall where the code moves and the enforced schedule would be reported as infeasible",
    ],
    leanchecker=True,
    timeout={"quick": 900, "thorough": 7200, "widen": 1800},
    level_text="proof on the model for all schedules: tags unique; every registered command completed at most once, never lost, and exactly once in every terminal state (pendingCmds empty there); the model never panics; the reader always reaches close(decCh) and Close returns (measure + progress); literal headers reach the wire and continuation requests are granted in registration order, and requests of two commands never coexist in the queue; lockset discipline; partial: data-race freedom itself belongs to the Go memory model and is supported by -race runs; the model is tied to the real client by enforcing its schedules on the instrumented code on every run",
    level_note="Trusted: Lean kernel; harness, instrumentation and driver. Which theorems are proved and which clauses are validated by the oracle only is listed at the top of lean/GoImap/Props/C13.lean.",
)
