"""Configuration of property C04 for ./check."""
import re


def _c04_nontrivial(cf):
    # the stream contains a literal, an AUTHENTICATE exchange or an IDLE (a synchronisation point or a payload)
    return re.search(r"[:,][nsai][01]\.", cf[6]) is not None


CONFIG = dict(
    correspondence="GoImap.Framing.serve (Model/Framing.lean) vs a real imapserver.Server with the recording stub session over an in-memory connection: the sequence of tagged replies (tag + OK/NO/BAD), every continuation request with the client offset at which it was received, BYE, how the connection ended, and the stub's call log (method + arguments, hex); commands outside the model's signature table are compared up to the point where the model stops",
    rule="command sequences (1..8 commands, every connection state, servers advertising LITERAL-, LITERAL+ or neither, pipelined or command-by-command) in which every string argument is independently an atom, a quoted string, {n} or {n+} with n in {0,1,4095,4096,4097,5000,100 MiB,100 MiB+1} or a small random size; payloads are command-like text (z LOGIN u p, x DELETE b, ...) with markers unique to the case, and CRLF-rich noise; AUTHENTICATE PLAIN exchanges (valid, cancelled, malformed, over-long lines), IDLE with DONE / other / over-long lines, spurious trailing literals, APPEND with trailing text; a faithful client sends synchronising payloads, SASL responses and DONE only after '+', and abandons a command answered with a tagged reply. A sixth of the LITERAL-/LITERAL+ servers run a backend whose Append fails before reading the message (the handler must drain the literal itself). Plus the replays of the findings ledger. Non-trivial = the stream contains a literal, an AUTHENTICATE exchange or IDLE; distinct = different case line",
    nontrivial=_c04_nontrivial,
    trusted=["the in-memory connection's quiescence signal (the server's reader is blocked on an empty pipe) is what delimits 'the server's answer to what was sent so far'",
             "the stub session's rendering of its arguments"],
    assumptions=["oracle domain: command lines without bare CR/LF, whose quoted strings end on the line, that do not end in SP, with literal sizes below 2^63 (elsewhere the RFC lexer and the library's deliberately liberal lexer may frame differently; such streams are generated, compared with the model and checked for panics and whole response lines only)",
                 "the backend (stub) succeeds in every call, except Append on the servers marked /af, which fails without reading the message"],
    leanchecker=True,
    source_facts=True,
    level_text="proof: theorems about the mirrored server (one tagged reply per RFC-framed command, no announced payload octet consumed as command text, '+' only for an accepted synchronising literal / AUTHENTICATE / IDLE) for all byte streams of the stated domain; the mirror is tied to the real server on every run and the RFC framing (Spec/Framing.lean, written from RFC 9051 section 4.3 and RFC 7888) judges every transcript of the implementation",
    level_note="Trusted: Lean kernel; harness/driver. Partial: concurrent writers (IDLE goroutine vs command goroutine) are not in the byte model. The list of proved / oracle-only clauses is at the top of lean/GoImap/Props/C04.lean.",
)
