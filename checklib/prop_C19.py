"""Configuration of property C19 for ./check."""


def _c19_nontrivial(cf):
    # both operands constrain something / several keys or a nested key
    if cf[2] == "and":
        return cf[3] != "()" and cf[4] != "()"
    if cf[2] == "keys":
        return " " in cf[3]
    return cf[3] != "()"


CONFIG = dict(
    correspondence="GoImap.Search (Model/Search.lean): Crit.and vs imap.SearchCriteria.And (resulting struct, field by field); matchesC vs imapmemserver message.search (via the verif hook); foldKeys vs the criteria the real server parser hands to a recording session for raw SEARCH lines",
    rule="random criteria pairs over every field (sets, four date bounds, headers, body/text, flags, size bounds incl. unset/negative, NOT/OR depth<=2); random criteria x random messages; raw SEARCH commands of 1..8 keys (every key kind, nesting depth<=2, case variants, atom/quoted strings) each also in two random permutations. Non-trivial = both operands non-empty (and) / more than one key or a nested key (keys) / non-empty criteria (msg); distinct = different case line",
    nontrivial=_c19_nontrivial,
    trusted=["time.Time truncation to the calendar day, go-message header parsing and bytes.ToLower are below the modelled interface (the harness hands the model the truncated dates and lower-cased ASCII text)"],
    assumptions=["message sizes are non-negative", "strings are ASCII (bytes.ToLower on non-ASCII is not modelled)", "SearchCriteria.ModSeq is outside the model (no matcher in the repository gives it meaning; And ignores it)"],
    leanchecker=True,
    level_text="proof: matches_and shows Crit.and is intersection for all criteria pairs (every field, arbitrary NOT/OR sub-trees) and all messages; legacy_and_counterexample keeps the machine-checked witness that the shipped And was not. The model is tied to SearchCriteria.And, to the in-memory backend's matcher and to the server's search-key parser on every run; the oracle evaluates And and key lists on a 96-message universe against the per-key RFC semantics",
    level_note="Trusted: Lean kernel; harness/driver; time/go-message/bytes library code below the modelled interface. fold_keys (parser = conjunction of keys) is validated by the oracle, not yet proved.",
)
