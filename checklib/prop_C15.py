"""Configuration of property C15 for ./check."""


def _c15_nontrivial(cf):
    kind = cf[2]
    if kind == "ops":
        obs = cf[6]
        return ("-0" in obs) or (obs.count(",") + 1 < cf[5].count(";") + 1) or ":" in obs
    if kind == "nums":
        return cf[3] != ""
    if kind == "parse":
        return cf[5] != "err"
    return False


CONFIG = dict(
    correspondence="GoImap.NumSet (Model/NumSet.lean) vs internal/imapnum.Set and imap.SeqSet/UIDSet: ranges, String, Dynamic, Contains on probes, Nums, ParseSet after every operation",
    rule="op sequences (length<=12, endpoints from small numbers, 2^31, 2^32-4..2^32-1 and '*'; all sequences of length<=2 (quick) / <=3 (thorough) over a 7-value alphabet), enumeration of every resulting set of cardinality<=20000, grammar-generated and mutated sequence-set texts; a case is non-trivial when a merge, a proper range or a dynamic element is involved (ops), the set is non-empty (nums) or the text parses (parse); distinct = different case line after dropping the id",
    nontrivial=_c15_nontrivial,
    trusted=["strconv.ParseUint/AppendUint base 10 are modelled by own digit functions (agreement exercised by the tie)"],
    assumptions=["AddSet arguments are sets built through the API (canonical)"],
    leanchecker=True,
    shrink={"ops": (5, ";")},
    level_text="proof: Lean theorems about the mirrored number-set model (canonical form, membership = union, parse/print, enumeration) hold for all operation sequences; the model is tied to internal/imapnum and the public SeqSet/UIDSet wrappers by a differential check on every run",
    level_note="Trusted: Lean kernel; the differential harness and driver; strconv digit functions modelled. Theorems not yet proved are listed in DESIGN.md and validated by the oracle only.",
)
