"""Configuration of property C07 for ./check."""


def _c07_nontrivial(cf):
    # some session had a non-empty queue when queried: an update was queued while a session was live
    ops = cf[5].split(";")
    live = False
    for o in ops:
        if o[0] == "N":
            live = True
        elif live and o[0] in "nemf":
            return True
    return False


CONFIG = dict(
    correspondence="GoImap.Tracker (Model/Tracker.lean) vs imapserver.MailboxTracker/SessionTracker: updates emitted by every Poll (captured on the wire of a real server connection: NOOP = expunges allowed, FETCH = not) and DecodeSeqNum/EncodeSeqNum of every number 0..max+2 for every live session after every step",
    rule="random histories (length 3..40, 1..4 sessions created and closed anywhere, QueueNumMessages(+k), k in {0,1,2,3,7}, QueueExpunge, QueueMailboxFlags, QueueMessageFlags with/without source, Poll with/without permission to expunge) plus a corpus of past failures; non-trivial = an update was queued while a session was live; distinct = different case line",
    nontrivial=_c07_nontrivial,
    trusted=["the wire rendering of updates (UpdateWriter) is parsed by the harness"],
    assumptions=["operations are valid calls (expunge/flags numbers within the mailbox, counts never decrease): the Go code panics otherwise, outside the property's domain"],
    leanchecker=True,
    shrink={"hist": (5, ";")},
    level_text="proof: theorems about the mirrored tracker (poll emits an expunge-free prefix or everything, in order; decode/encode identify the same ghost message identity or 0) for all histories; the mirror is tied to imapserver's tracker on every run and a ghost-identity specification judges every poll and every translation of the implementation",
    level_note="Trusted: Lean kernel; harness/driver. decode_spec/encode_spec/inv_reachable are listed at the top of lean/GoImap/Props/C07.lean with their status.",
)
