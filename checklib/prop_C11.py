"""Configuration of property C11 for ./check."""


def _c11_nontrivial(cf):
    # the stream did something other than being accepted silently with nothing handed over
    if cf[2] == "cost":
        return False
    return not cf[5].startswith("ok|none|-|-|")


_SHRINK = (4, "+")

CONFIG = dict(
    correspondence="GoImap.ClientParse (Model/ClientParse.lean) vs the real imapclient.Client fed by a scripted server: how the command ended for the caller (ok/no/bad/error), how the reader ended (clean/error/panic), the data handed back by Wait()/Collect() and the unilateral data, for streams made of the modelled responses (status responses and their codes incl. COPYUID/APPENDUID, CAPABILITY, ENABLED, EXISTS/RECENT/EXPUNGE, SEARCH, ESEARCH, SORT, THREAD, FETCH with UID/RFC822.SIZE/MODSEQ/FLAGS/ENVELOPE/BODY/BODYSTRUCTURE); other responses are run against the implementation and judged by the oracle only",
    rule="every case runs in a crash-isolating child (16 MiB stack cap, address-space limit, watchdog): corpus of past failures; grammar-generated streams for 29 commands (noise + own responses + tagged completion); token- and byte-level mutations of them within and across lines; one number replaced by a boundary value (0, 2^31, 2^32-1, 2^32, 2^63-1, 2^63, 2^64, negative, *, …); nesting of 1..1500 and 300000 parentheses at 13 places where a list is read; 15 malformed literals at 10 places where a string is read; raw garbage including the greeting; 11 response shapes at two sizes for time/allocation. Every accessor of every returned value is called under recover. Non-trivial = not silently accepted with nothing handed over; distinct = different case line",
    nontrivial=_c11_nontrivial,
    trusted=["the scripted server, the accessor walk and the canonical rendering of the returned data in harness/cmd/verifh/c11.go",
             "time and allocation are measured (runtime.MemStats, wall clock); the theorems are about the model's ghost cost counter"],
    assumptions=["ASCII case folding: streams in which a case-insensitively compared keyword contains bytes >= 0x80 are judged by the oracle only",
                 "library code below the reader (mime word decoding, net/mail dates, go-message message ids, utf7) is exercised by the fuzzing, not modelled"],
    leanchecker=True,
    source_facts=True,
    shrink={k: _SHRINK for k in ("corpus", "gen", "mut", "num", "lit", "raw")},
    timeout={"quick": 900, "thorough": 7200, "widen": 3600},
    level_text="proof; partial: for every input the mirrored response reader ends in a real outcome (fuel_suffices), never reaches the decoder's panic site (parse_no_panic), never nests beyond the decoder's limit and hands over no tree deeper than it (depth_bounded, delivered_depth_bounded), hands over only non-zero 32-bit message numbers and only canonical sets without '*' (delivered_nonzero, delivered_sets_static), every reader answers 0 / '*' / one level too many / an out-of-range number / a malformed literal with an error (invalid_is_error), the enumerating accessors do not panic on what is handed over (accessors_no_panic), and the ghost cost of the whole client is at most 61 byte reads per input byte + 41 (cost_linear); the enumerating accessor returns exactly card(s) numbers and a 52-byte response with card = 2^32-1 exists (F25, machine-checked); Legacy counterexamples for every repaired defect by kernel evaluation. The mirror is tied to the real client on every run and a Lean oracle judges every stream: no panic in reader or accessors, no fatal event, termination, nothing invalid handed over (incl. negative 64-bit numbers), coarse CPU-time/allocation growth",
    level_note="Trusted: Lean kernel; harness/driver; library code below the reader. Time and memory are measured (CPU time of a child process at sizes n and 2n, runtime.MemStats), not proved; the cost theorem is about the model's count of byte reads. Readers outside the model (LIST, STATUS, QUOTA, METADATA, NAMESPACE, body section literals) are judged by the oracle only. Two findings are recorded as known, not repaired: the enumerating accessors are super-linear in the input by design (F25), and number sets kept as sorted slices make descending input quadratic (F27).",
)
