"""Configuration of property C06 for ./check."""


def _c06_nontrivial(cf):
    # a connection that was cut inside something (not at a command boundary), a mutated or garbage
    # stream, or a depth probe
    if cf[2] in ("depth", "mut", "junk"):
        return True
    if cf[2] == "cut":
        return cf[8] == "w"
    return cf[2] == "gen"


CONFIG = dict(
    correspondence="GoImap.Framing.serve (Model/Framing.lean) on the octets the client delivered before it disconnected vs a real imapserver.Server with the recording stub session: tagged replies (tag + OK/NO/BAD), continuation requests, BYE, how the connection ended and the stub's call log including what the server still calls after the client has gone; for the depth probes the reply class of SEARCH with ( / NOT / OR / NOT ( nested 999, 1000, 1001 and 100000 deep (child process, 16 MiB stack limit)",
    rule="40 valid multi-command transcripts (literals of every form, AUTHENTICATE PLAIN exchange, IDLE/DONE, APPEND, pipelined and command-by-command, every command family) each cut at every octet offset with the client closing there (a stride of 97 inside payloads over 600 octets); grammar-generated command sequences (the C04 generator); the same with 1-4 octet-level mutations (flip, delete, insert token, drop/duplicate a span, truncate); raw garbage (uniform octets, printable soup, IMAP token soup); 16 depth probes; one leak line per run (goroutines and tracked connections after every connection was closed, polled to a deadline). Non-trivial = cut away from a command boundary, mutated, garbage, generated or a depth probe; distinct = different case line",
    nontrivial=_c06_nontrivial,
    trusted=["the in-memory connection's quiescence signal and Close semantics (the server reads EOF after draining)",
             "runtime.NumGoroutine and Server.VerifNumConns (verif hook) as the witnesses of 'nothing left behind'",
             "debug.SetMaxStack(16 MiB) in the probe child: unbounded recursion dies quickly; the child's death is the observation"],
    assumptions=["the backend (stub) succeeds in every call and returns every STATUS item it is asked for",
                 "goroutine liveness, real panics and stack growth are runtime facts: the theorems are about the model, the observations cover the runtime on the explored inputs"],
    leanchecker=True,
    source_facts=True,
    timeout=dict(quick=600, thorough=7200, widen=1800),
    level_text="proof: theorems about the mirrored server (every run ends with the connection closed and the session closed exactly once whatever the cut point, a literal is buffered only if it is at most 4096 octets, an APPEND over the limit is refused before any payload octet is consumed, the recursion depth of every recursive parser is bounded) for all byte streams; the mirror is tied to the real server on every run (every corpus transcript cut at every offset, generated, mutated and garbage streams, depth probes in a crash-isolating child) and the oracle judges panic reports, Close() counts, tracked connections, Session.Idle calls still running after the connection is gone (per connection, polled to a 30 s deadline), goroutine count, argument sizes and APPEND refusals (an over-limit literal must be refused before its payload arrives) of the implementation",
    level_note="Trusted: Lean kernel; harness/driver. Partial: goroutine liveness, real panics and stack usage are observed, not proved. The list of proved / oracle-only clauses is at the top of lean/GoImap/Props/C06.lean.",
)
