"""Configuration of property C18 for ./check."""
import re


def _has8(rle):
    for tok in re.split(r"[.|]", rle):
        h = tok.split("*")[0]
        if any(h[i] in "89abcdef" for i in range(0, len(h), 2)):
            return True
    return False


def _c18_nontrivial(cf):
    # a literal (either kind) or an 8-bit string was emitted / asked for
    if cf[2] in ("seq", "sess"):
        return True
    if cf[2] != "cmd":
        return False
    return cf[9] != "-" or "2b7d0d0a" in cf[8] or _has8(cf[6])


CONFIG = dict(
    correspondence="GoImap.ClientSyntax (Model/ClientSyntax.lean, on top of the wire encoder model Model/Wire.lean) vs imapclient.Client "
                   "talking to a scripted server over an in-memory connection: for one command per fresh client, the exact bytes the client "
                   "wrote (delimited by a closing NOOP), the number of client bytes on the connection each time the server answered a "
                   "synchronising literal header (continuation request, tagged NO, tagged BAD), whether the client closed the connection, "
                   "and the command's result class (also for a second command on the same connection after a refused one); plus CapSet.Has on every subset of the capabilities that drive an implication",
    rule="EXHAUSTIVE over the decision inputs: capability sets {IMAP4rev1; +LITERAL-; +LITERAL+; IMAP4rev2; IMAP4rev1+IMAP4rev2; "
         "+LITERAL+ and LITERAL-} x UTF8=ACCEPT enabled or not (real ENABLE exchange) x string class {atom-like, with spaces, quote/backslash, "
         "valid UTF-8, invalid 8-bit, NUL, CR, LF, CR LF inside, empty} x length {1, 4095, 4096, 4097} through one argument of every encoder "
         "entry point (Encoder.String: LOGIN, SEARCH BODY, SETMETADATA, SEARCH MODSEQ entry name; Encoder.Mailbox: SELECT, APPEND incl. names "
         "whose UTF-7 form is 4095/4096/4097 bytes, INBOX spellings; APPEND literal sizes 0, 1, 4095, 4096, 4097; Encoder.Flag: STORE / SEARCH "
         "KEYWORD with valid, 8-bit and invalid keywords), and every class at its shortest length plus four long strings through every other "
         "string argument of LOGIN, SELECT, EXAMINE, CREATE, DELETE, RENAME, SUBSCRIBE, UNSUBSCRIBE, LIST, STATUS, COPY, MOVE, APPEND, "
         "GETMETADATA, SETMETADATA, GETQUOTA, GETQUOTAROOT, SETQUOTA, FETCH header fields, SEARCH (BODY, TEXT, HEADER, SUBJECT, KEYWORD, "
         "UNKEYWORD, MODSEQ, NOT, OR), UID SEARCH, STORE, SORT, THREAD (thorough: the full grid everywhere and 20000 random argument "
         "vectors); commands with two or three literal-bearing arguments. Every case whose command contains k synchronising literals is run "
         "with the server answering: + at once; + after a pause; tagged NO; tagged BAD; and for k >= 2 also + then NO / BAD at the second. "
         "Sessions (about 1100 cases): the probe is written after the negotiated state changed — ENABLE then UNAUTHENTICATE answered with or without a "
         "capability code (and ENABLE again), a second ENABLE answered with another, an empty or an overlapping `* ENABLED` list (the set accumulates), a later capability list replacing the greeting's (untagged CAPABILITY, LOGIN with/without the code) for "
         "every ordered pair of the base sets, and a capability list that arrives while the probe waits behind an APPEND holding the encoder; the "
         "oracle judges the probe against the server's state per RFC 9051 / 5161 / 8437 at the moment its bytes are written. "
         "Sequences: a command with 2-3 literal-bearing arguments whose first or second literal is refused, followed on the same connection by a "
         "command with a synchronising literal that the server accepts (216 combinations). CapSet.Has: all 512 subsets of 9 capabilities x 21 queried names. Non-trivial = a literal or an 8-bit argument was involved; "
         "distinct = different case line",
    nontrivial=_c18_nontrivial,
    exhaustive=True,
    trusted=["the scripted server's own recognition of a line ending in {n} / {n+} (it decides when the server acts; what the client wrote is judged by the Lean scanner, not by it)",
             "the closing NOOP as delimiter of the probe's bytes; the 2 ms pause of the 'late +' script as the window in which a premature payload would be seen"],
    assumptions=["mailbox names that are not valid UTF-8 are outside the model (642 quick-tier cases: compared with the oracle only)",
                 "atoms (tag, command names, flags/keywords, fixed option words) are not judged beyond tokenisation: the property speaks about quoted strings and literals",
                 "NUL inside a literal payload is not judged (the property text does not mention it)",
                 "invalid keywords make the client close the connection before anything is flushed; the model says so under the assumption that fewer than 4096 bytes were pending (bufio)",
                 "STARTTLS and AUTHENTICATE as state-changing events are not driven here (C17 / C05 cover the capability reset there); commands are issued one after the other (no pipelining of the probe with other literal-bearing commands; concurrent use is C13)"],
    leanchecker=True,
    source_facts=True,
    level_text="proof: END TO END (conforms) — for every capability set, enabled set, modelled command, argument strings and every pattern "
               "of server answers (+ / tagged NO / tagged BAD to each synchronising literal), the bytes the mirrored client writes and the "
               "moments it writes them are accepted by an independent byte scanner written from the RFC grammar: one well-formed command (or "
               "one that stops at a refused literal), {n+} only where RFC 7888 allows it, quoted strings without NUL/CR/LF and 8-bit only with "
               "IMAP4rev2 or UTF8=ACCEPT, the payload of {n} only after the continuation request and nothing after a refusal "
               "(payload_after_cont, nothing_after_refusal), the command always gets its + and leaves no continuation request behind (no_hang, "
               "no_stale_request); plus the per-string decision theorems (nonsync_legal, append_nonsync_legal, quoted_legal), CapSet.Has = RFC "
               "implication table (caps_has) and the SEARCH CHARSET rule (charset_rule). The mirror is tied to imapclient EXHAUSTIVELY over the "
               "decision table on every run, and the same scanner judges the bytes the real client wrote, including their order relative to "
               "the server's continuation requests and refusals",
    level_note="Trusted: Lean kernel; harness/driver; the scripted server's timing window. Proved/validated-only split: top of lean/GoImap/Props/C18.lean (validated by the oracle only: the two SEARCH CHARSET clauses on scanned tokens, commands the encoder aborts on an invalid flag, mailbox names that are not valid UTF-8).",
)
