"""Configuration of property C10 for ./check."""


def _c10_nontrivial(cf):
    # kind, scenario, mode, kinds, items, phases, k, fault, obs: a real cut (not the healthy run)
    return len(cf) > 9 and cf[9] != "none"


CONFIG = dict(
    correspondence="GoImap.ClientFault (Model/ClientFault.lean: reader / caller / closer / failing-writer transition system over the abstract transcript) vs the real imapclient.Client on an in-memory connection with a scripted peer: class (ok/err/ret/-) of every blocking call of the caller's program, Close returned, reader goroutine exited, read deadline armed at the cut, class of a command issued after a write fault",
    rule="corpus of client transcripts (quick 23 scenarios / thorough 47: NOOP, LOGIN incl. literal argument, AUTHENTICATE PLAIN, STARTTLS refused and accepted, SELECT, LIST, STATUS, SEARCH/ESEARCH, FETCH with literals of 0..5000 bytes / two literals / two messages / none, STORE, EXPUNGE, APPEND, IDLE, COPY, MOVE, 2 and 3 pipelined commands, a whole session, the plain commands) x every byte offset of the server stream (quick: greeting offsets in four scenarios, literal bodies > 48 bytes sampled) x {clean EOF, read error, write error at the client's next write, stall + Client.Close, stall + the client's own read deadline (virtual clock)} x the consumption modes of streaming commands (Collect / Next-loop with literal Read / Close); non-trivial = a real cut (not the healthy run); distinct = different case line",
    nontrivial=_c10_nontrivial,
    trusted=["the in-memory connection (netmem.go: buffered pipe, injected read/write errors, virtual read deadline, quiescence signal) stands for the kernel socket", "goroutine accounting by runtime.Stack filtered for imapclient.(*Client).read, one case at a time per worker process", "watchdog 4 s per wait (healthy case: ~2 ms); an expiry is re-run alone in a fresh process before it counts"],
    assumptions=["the caller honours the documented contract: streaming commands are consumed to the end or closed, one consumer at a time", "the server transcript is well-formed up to the cut (malformed input is C11's domain)", "Go scheduler fairness"],
    leanchecker=True,
    timeout={"quick": 900, "thorough": 3600, "widen": 1800},
    level_text="proof on the model: theorems about the client's blocking structure as a transition system (see the header of lean/GoImap/Props/C10.lean for the list and status); the model is tied to the real client on every run at every byte offset of every transcript, and the property's own predicate (every call returned, Close returned, reader exited, incomplete => error) judges what the implementation did",
    level_note="Partial (runtime): kernel sockets, TLS and the Go scheduler are below the modelled interface. Trusted: Lean kernel; harness/driver.",
)
