"""Configuration of property C10 for ./check."""


def _c10_nontrivial(cf):
    # kind, scenario, mode, kinds, items, phases, k, fault, obs: a real cut (not the healthy run)
    return len(cf) > 9 and cf[9] != "none"


CONFIG = dict(
    correspondence="GoImap.ClientFault (Model/ClientFault.lean: reader / caller / closer / failing-writer transition system over the abstract transcript) vs the real imapclient.Client on an in-memory connection with a scripted peer: class (ok/err/ret/-) of every blocking call of the caller's program, Close returned, reader goroutine exited, read deadline armed at the cut, class of a command issued after a write fault",
    rule="corpus of client transcripts (quick 25 scenarios / thorough 49: NOOP, LOGIN incl. literal argument, AUTHENTICATE PLAIN (also completed by the server before the SASL answer was requested), STARTTLS refused and accepted, SELECT, LIST, STATUS, SEARCH/ESEARCH, FETCH with literals of 0..5000 bytes / two literals / two messages / none, STORE, EXPUNGE, APPEND, IDLE, COPY, MOVE, 2 and 3 pipelined commands, a command issued after the connection died, a whole session, the plain commands) x every byte offset of the server stream (quick: greeting offsets in four scenarios, literal bodies > 48 bytes sampled) x {clean EOF, read error, write error at the client's next write, stall + Client.Close, stall + the client's own read deadline (virtual clock)} x the consumption modes of streaming commands (Collect / Next-loop with literal Read / Close); non-trivial = a real cut (not the healthy run); distinct = different case line",
    nontrivial=_c10_nontrivial,
    trusted=["the in-memory connection (netmem.go: buffered pipe, injected read/write errors, virtual read deadline, quiescence signal) stands for the kernel socket", "goroutine accounting by runtime.Stack filtered for imapclient.(*Client).read, one case at a time per worker process", "watchdog 30 s per wait, poll-to-deadline (healthy case: ~2 ms); an expiry is re-run alone in a fresh process before it counts; stalls meant to end by a timeout use the connection's own virtual read deadline"],
    assumptions=["the caller honours the documented contract: streaming commands are consumed to the end or closed, one consumer at a time", "the server transcript is well-formed up to the cut (malformed input is C11's domain)", "Go scheduler fairness"],
    leanchecker=True,
    timeout={"quick": 900, "thorough": 3600, "widen": 1800},
    level_text="proof on the model: the client's blocking structure as a transition system; proved for all transcripts, cut points, faults and interleavings: every step decreases a measure, an invariant holds in all reachable states, after the fault no state short of the terminal one is stuck (given the caller's contract as an explicit hypothesis), hence every run drains (fault_drains), and a command's result is success only if its tagged completion was fully received (incomplete_is_error); machine-checked counterexamples for the two repaired defects; the model is tied to the real client on every run at every byte offset of every transcript, and the property's own predicate (every call returned, Close returned, reader exited, incomplete => error) judges what the implementation did",
    level_note="Partial (runtime): kernel sockets, TLS and the Go scheduler's fairness are below the modelled interface; the caller contract (streaming commands consumed, encoder released) is a hypothesis of fault_drains. Trusted: Lean kernel; harness/driver. Status list at the top of lean/GoImap/Props/C10.lean.",
)
