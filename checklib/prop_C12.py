"""Configuration of property C12 for ./check."""


def _c12_nontrivial(cf):
    # at least two commands were pending at the same time, or unilateral data arrived while a
    # command was pending: count transcripts with >= 2 client submissions before the closing NOOP
    evs = cf[3].split(";")
    subs = [e for e in evs if e[:2] in ("s:", "b:")]
    return len(subs) >= 3


CONFIG = dict(
    correspondence="GoImap.ClientSM (Model/ClientSM.lean) vs imapclient.Client driven by a scripted server over an in-memory connection: after every step of the transcript (command submission, continuation request, tagged reply, untagged response, BYE+close) Client.State(), Client.Mailbox() (name, NumMessages, Flags, PermanentFlags), the commands whose Wait/Collect returned in that step with status class, response code and the data they delivered, the calls of the unilateral data handler, and the tag seen on the wire",
    rule="random transcripts: greeting OK/PREAUTH/BYE with/without [CAPABILITY]; 0-12 (sometimes 95-105) warm-up commands so that tags cross digit-width boundaries; 1-4 pipelined commands from NOOP, CREATE, LOGIN (quoted and with a synchronising literal), SELECT/EXAMINE, UNSELECT/CLOSE, LIST, STATUS, SEARCH/UID SEARCH (plain and RETURN (ALL)), FETCH/UID FETCH/STORE/UID STORE (also .SILENT, with and without UNCHANGEDSINCE, answered with FETCH data for the stored messages), EXPUNGE, CAPABILITY, APPEND; answers in every order, every OK/NO/BAD assignment with and without response codes, literals accepted (+) or refused (tagged NO/BAD); command data interleaved with unsolicited EXISTS/EXPUNGE/FLAGS/PERMANENTFLAGS/FETCH/RECENT/[CLOSED]/BYE/untagged OK-NO-BAD; re-SELECT with and without [CLOSED]; a closing NOOP that must complete OK while the connection lives; ~4% deliberately non-conformant tails (duplicate reply, unknown tag, stray +) on which only the model is compared; plus a corpus of the repaired defects. Non-trivial = at least two commands besides the closing NOOP; distinct = different case line",
    nontrivial=_c12_nontrivial,
    trusted=["the scripted server's rendering of responses and the client's response parser (C03/C11) carry the structured events to the code under test",
             "the barrier: the client's reader goroutine is blocked in Read with every written byte consumed (or the client closed the connection), plus the return of the answered command's Wait"],
    assumptions=["transcripts are judged by the oracle up to the first step that is not conformant (Spec.okEv): tagged replies name pending tags; data arrives while exactly one command it can answer is pending; SELECT is not pipelined; mailbox data is sent only while a mailbox is selected or, for a SELECT, after the previous mailbox was closed ([CLOSED]); EXPUNGE obeys RFC 9051 7.5.1; ESEARCH carries its TAG correlator",
                 "mailbox names, flags, capabilities and response codes are drawn from small alphabets; FETCH data is (UID,) FLAGS only",
                 "an empty unsolicited FLAGS list is not generated (UnilateralDataMailbox cannot represent it)"],
    leanchecker=True,
    level_text="proof: for every conformant transcript the mirrored client computes exactly the RFC-level reference interpretation (connection state, mailbox summary, per-command status/code/data, unilateral data), every submitted tag is completed exactly once, and a NO/BAD (including the refusal of a literal) leaves the other commands and the connection untouched; the mirror is tied to imapclient on every run after every single step of generated transcripts, and the reference interpretation judges the implementation's observations directly",
    level_note="Trusted: Lean kernel; harness/driver; the response parser below the structured events. refines/mirror/routing/complete_once/reply_status/isolation/usable/selected_has_mailbox are proved for transcripts of any length (lean/GoImap/Props/C12.lean lists them); that imapclient behaves like the mirror is established by the per-step correspondence, not by proof.",
)
