"""Configuration of property C16 for ./check."""


def _c16_nontrivial(cf):
    # a shift sequence was produced or consumed: '&' (0x26) followed by something other than '-'
    import re
    return re.search(r"26(?!2d)", cf[3]) is not None or (cf[2] in ("enc", "enct") and re.search(r"26(?!2d)", "\t".join(cf[4:])) is not None)


CONFIG = dict(
    correspondence="GoImap.Utf7 (Model/Utf7.lean) encode/decode vs utf7.Encoding one-shot String API; decTransform/encTransform vs explicit Transformer.Transform calls (nDst, nSrc, error class, bytes written, carried ascii flag through the next call)",
    rule="encoder: every string over a 10-symbol code-point alphabet (ASCII, &, -, comma, ~, U+0001, U+007F, 2/3/4-byte code points) up to length 4 (thorough 5), random longer ones over boundary code points; decoder: every string over {& - A B / + , = a CR 0x80} up to length 4 (thorough 6), a corpus of malformed forms, encoder outputs and their mutations; streaming: random (reveal 0..4, dst capacity 1..8) schedules and every split point of the corpus. Non-trivial = a shift sequence is produced or consumed; distinct = different case line",
    nontrivial=_c16_nontrivial,
    trusted=["unicode/utf8 (DecodeRune/EncodeRune) and encoding/base64 are modelled by own functions (utf8enc/utf8dec/b64enc/b64dec); x/text/transform's String loop is trusted to follow the Transformer contract"],
    assumptions=["encoder input is valid UTF-8 (invalid input is only checked for 'no panic, printable output')"],
    leanchecker=True,
    level_text="proof: Lean theorems about the mirrored encoder/decoder state machines (round trip, output form, rejection of the malformed forms, chunking independence) for all strings; the mirrors are tied to internal/utf7 on every run through the one-shot API and through explicit Transform calls with adversarial buffer sizes, and an independent bit-stream decoder written from RFC 3501/2152 judges every implementation answer",
    level_note="Trusted: Lean kernel; harness/driver; utf8/base64/transform library code below the modelled interface. Theorems still missing are listed at the top of lean/GoImap/Props/C16.lean; those clauses are validated by the oracle only.",
)
