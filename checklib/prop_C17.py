"""Configuration of property C17 for ./check."""


def _c17_nontrivial(cf):
    # plaintext was actually placed after an accepted STARTTLS exchange line
    if cf[2] == "srv":
        return cf[3][1] == "1" and cf[3][2] == "0" and cf[6] != "-"
    if cf[2] in ("cli", "dial"):
        return cf[5] == "OK" and cf[6] != "-"
    return False


CONFIG = dict(
    correspondence="GoImap.StartTLS (Model/StartTLS.lean: two-mode byte router with an explicit reader buffer, server command handlers, client response handlers, NewStartTLS decision) vs (a) a real imapserver.Server with a TLS configuration behind a segment-exact in-memory connection and a recording session: greeting, every plaintext reply, raw bytes after the tagged OK, handshake outcome, replies inside TLS, session calls with the TLS flag of the connection at the time of the call; (b) the real imapclient.NewStartTLS (in-memory pipe) and imapclient.DialStartTLS (loopback TCP listener inside the harness) against a scripted peer: result, data handed to the unilateral data handler, Caps(), a command after the upgrade, commands seen by the peer in plaintext and inside TLS, first bytes written after the STARTTLS command",
    rule="corpus (canonical injection for every InsecureAuth x TLSConfig x greeting) + every segmentation (all 2^(n-1) splits) of every suffix of <= 12 bytes, placed in the segment of the STARTTLS line / in a later segment sent early / sent after the tagged OK was read, followed or not by a real TLS handshake + random configurations, pre-commands, STARTTLS line variants, suffixes <= 40 bytes (commands, SASL, garbage, TLS-like records) and random segmentations of the whole stream; client side, both constructors (NewStartTLS, DialStartTLS): greetings OK/PREAUTH/BYE/none sent before the STARTTLS command was read or together with its tagged reply, replies OK/NO/BAD, injected responses, every segmentation of the short ones. Non-trivial = plaintext follows an accepted STARTTLS line; distinct = different case line",
    nontrivial=_c17_nontrivial,
    trusted=["crypto/tls (that a handshake rejects an input that starts with injected bytes is observed on every case, not modelled)", "the harness's SASL PLAIN token table (base64 of NUL user NUL pass) handed to the model"],
    assumptions=["the plaintext command language executed by the model is the small one the generators use (CAPABILITY, NOOP, LOGIN, AUTHENTICATE PLAIN with initial response, DELETE, STARTTLS, LOGOUT, unknown command); arbitrary bytes are only ever injected after an accepted STARTTLS line, where they must reach nothing but TLS", "segments are at most 4096 bytes (one bufio fill)"],
    leanchecker=True,
    timeout={"quick": 600, "thorough": 3600, "widen": 1200},
    level_text="proof: for every segmentation of pre ++ STARTTLS-line ++ suffix the modelled reader hands exactly pre ++ line to the IMAP parser and every byte of the suffix to the TLS layer, no event originates in the suffix (server and client side); the capability/credential decision table; NewStartTLS and DialStartTLS refuse PREAUTH. The model is tied to the real server and client on every run; the oracle (session calls accounted for by legitimate traffic, only TLS records after the OK, no credentials offered/accepted without TLS, nothing injected delivered, PREAUTH refused) judges the implementation's observations",
    level_note="partial: crypto/tls is trusted (handshake rejection of plaintext is observed, not proved). Theorem status is listed at the top of lean/GoImap/Props/C17.lean.",
)
