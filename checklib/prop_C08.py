"""Configuration of property C08 for ./check."""


def _c08_nontrivial(cf):
    # some connection received an update caused by another connection, or a number translated under
    # a stale view: the history has at least two connections and some EXPUNGE or EXISTS growth event
    # outside a SELECT response
    if cf[3] == "1":
        return False
    for ob in cf[5].split(";"):
        evs = ob.replace("~", "|").split("|")
        if any(e.startswith("E") for e in evs):
            return True
        if any(e.startswith("X") for e in evs) and not any(e.startswith("N") for e in evs):
            return True
    return False


CONFIG = dict(
    correspondence="GoImap.Views (Model/Views.lean: per mailbox the message list and a GoImap.Tracker state, one tracker "
                   "session per selected connection, every number sent = EncodeSeqNum of a server position, poll policy "
                   "per command) vs the real server (imapserver.New + imapmemserver, INBOX and B) driven over 1-4 raw "
                   "in-memory connections one command at a time: after EVERY command the issuing connection's tagged "
                   "status (+APPENDUID/COPYUID) and every untagged event it received (EXISTS, EXPUNGE, FETCH number+UID+"
                   "flags, SEARCH/ESEARCH numbers, COPYUID, UIDNEXT; an idling connection's events at DONE), parsed by "
                   "the harness's own tokenizer, must equal the model's; at check points also the mailbox's actual "
                   "message list read through a fresh selection",
    rule="random histories of 8..35 commands on 1-4 connections sharing INBOX/B over APPEND, SELECT, CLOSE, UNSELECT, "
         "STORE(+/-/set, .SILENT), EXPUNGE, UID EXPUNGE, COPY, MOVE, FETCH(FLAGS / BODY[] marking \\Seen), SEARCH(seq set, "
         "UID set, flags, RETURN), NOOP, IDLE..DONE (UID and non-UID forms; numbers, ranges, '*', beyond the count; command names, UID and RETURN "
         "spelled in upper, lower or mixed case as a function of the op token), "
         "with check points (NOOP, UID FETCH 1:*, fresh view) in the middle and on every selected connection at the end, "
         "plus a corpus; non-trivial = at least two connections and an EXPUNGE or an EXISTS outside SELECT was received; "
         "distinct = different case line",
    nontrivial=_c08_nontrivial,
    trusted=["the harness's response tokenizer (memsrv.go)",
             "number sets are generated in the canonical text of imapwire.ParseSeqSet (C15's domain)"],
    assumptions=["commands are issued one at a time (concurrent commands are C14's)",
                 "'*' under a stale view is resolved as the backend does, against the server's count; such cases are "
                 "counted in the evidence (star:server-count-differs-from-announced) and not judged (DESIGN section 7, Q1)",
                 "message contents, dates, LIST/STATUS/CREATE/DELETE/RENAME are outside (C09)"],
    leanchecker=True,
    shrink={"hist": (4, ";")},
    level_text="proof: for ALL histories over the mirrored multi-connection backend (GoImap.Views over GoImap.Tracker, any "
               "number of mailboxes and connections) the oracle never fails and the model never panics (oracle_accepts, "
               "no_panic); every sequence number sent lies within the view announced at that moment (in_range), no EXPUNGE "
               "while answering a non-UID FETCH/STORE/SEARCH (no_expunge_in), the count shrinks only by EXPUNGE, by one "
               "(shrink_only_by_expunge), labels never repeat (each_removed_once), after NOOP the announced view has the "
               "mailbox's length and every label is the UID at that position (noop_sync) - all corollaries of a global "
               "invariant built on C07's Inv/encode_spec/poll theorems; the mirror is tied to the real server and backend "
               "on every run and the same four clauses are evaluated on the implementation's own event streams by a ghost "
               "announced view rebuilt from the wire only; partial: '*' under a stale view follows the code",
    level_note="Trusted: Lean kernel; harness/driver/tokenizer. The theorem list with its status (proved / validated by the "
               "oracle only) is at the top of lean/GoImap/Props/C08.lean.",
)
