#!/usr/bin/env python3
"""Regenerate DESIGN.md sections 12.2 (findings), 12.3 (seeded changes) and 12.4 (status) from
known_findings.json, seeded/*/{meta,result}.json and evidence/*.json. Everything from the line
'### 12.2' to the end of the file is replaced."""
import json, os, subprocess, glob
root = os.path.dirname(os.path.dirname(os.path.abspath(__file__)))
d = open(os.path.join(root, "DESIGN.md")).read()
cut = d.index("### 12.2")
head = d[:cut]
k = json.load(open(os.path.join(root, "known_findings.json")))
out = []
out.append("### 12.2 Defects found by the checks on the unchanged tree, and what was done\n")
out.append("Every entry was reported by the property's oracle as a VIOLATION with a replay, confirmed against the real\n"
           "code, then either repaired by ONE minimal `fix:` commit in `/repo` (status `fixed` in `known_findings.json`,\n"
           "which suppresses nothing: the check reports the violation again if it returns) or, where the repair would not\n"
           "be small and safe, recorded as `known` (printed as `KNOWN-FINDING:` on every run, identified by a signature so\n"
           "that a different violation of the same property is still reported). The old behaviour of repaired code is kept\n"
           "in the models as `Legacy.*` definitions with machine-checked `…_counterexample` theorems.\n")
fixed = [e for e in k if e["status"] == "fixed"]
known = [e for e in k if e["status"] == "known"]
out.append("**Recorded, not repaired (%d):**\n" % len(known))
out.append("| id | property | finding | why not repaired |\n|---|---|---|---|")
for e in known:
    out.append("| %s | %s | %s | %s |" % (e["id"], e["property"], e["what"].replace("|", "/").replace("\n", " ")[:420], e.get("why_not_fixed", "see text: API/representation change or no small safe patch")))
out.append("\n**Repaired (%d `fix:` commits on `/repo` main; the baseline suite passes unedited after each):**\n" % len({e.get("commit") for e in fixed}))
out.append("| id | property | commit | what failed |\n|---|---|---|---|")
for e in fixed:
    w = e["what"].replace("|", "/").replace("\n", " ")
    w = w.split(e.get("commit", "\0"), 1)[-1].strip() if e.get("commit") and e["commit"] in w else w
    out.append("| %s | %s | `%s` | %s |" % (e["id"], e["property"], e.get("commit", ""), w[:330]))
out.append("\nNot accepted as a repair: a patch that re-encoded header text looking like an RFC 2047 encoded word\n"
           "(F22) — the in-memory backend passes raw header values and relies on the client decoding them once, so the\n"
           "patch would have double-encoded every genuinely encoded subject; F22 stays a known finding.\n")
out.append("### 12.3 Seeded breaking changes (written by sub-agents that saw only the property text)\n")
out.append("Each seed compiles, passes the unedited suite, and comes with a demonstration that fails with it\n"
           "(`seeded/<name>/{patch.diff,demo_test.go,meta.json}`); `tools/seedtest seeded/<name>` applies it in a scratch\n"
           "worktree of `/repo` and runs the registered quick check(s) (`result.json`). Seeds written against the tree\n"
           "before the repairs were re-created by hand on the repaired tree where they no longer applied. Where a seed\n"
           "was first missed or only seen as a correspondence break, the check was strengthened (noted in the row).\n")
out.append(subprocess.run(["python3", os.path.join(root, "tools", "seedreport.py")], capture_output=True, text=True).stdout)
notes_path = os.path.join(root, "seeded", "STRENGTHENED.md")
if os.path.exists(notes_path):
    out.append(open(notes_path).read())
out.append("\n### 12.4 Status of every property (from the last committed evidence)\n")
out.append(subprocess.run(["python3", os.path.join(root, "tools", "status_table.py")], capture_output=True, text=True).stdout)
# 12.5 per-property as-built summary from the check configuration and the audited theorem list
import sys
sys.path.insert(0, os.path.join(root, "checklib"))
import props as P
out.append("\n### 12.5 As built, per property (generated from `checklib/prop_Cxx.py` and the audited theorem lists)\n")
out.append("For each property: what is claimed, what is compared on every run, what is assumed, and the names of the\n"
           "Lean theorems that were elaborated and axiom-audited on the last run (`lean/GoImap/Props/Cxx.lean`; each file's\n"
           "header lists what is proved, what is partial and what is judged by the oracle only).\n")
for pid in sorted(P.PROPS):
    c = P.PROPS[pid]
    out.append("**%s.** %s" % (pid, c["level_text"]))
    out.append("\n*Tie:* %s" % c["correspondence"])
    out.append("\n*Cases:* %s" % c["rule"])
    if c.get("assumptions"):
        out.append("\n*Assumed / outside the model:* " + "; ".join(c["assumptions"]))
    out.append("\n*Trusted in addition to §2:* " + ("; ".join(c.get("trusted", [])) or "nothing further") + ". " + c["level_note"])
    try:
        ev = json.load(open(os.path.join(root, "evidence", pid + ".json")))
        names = [t["name"].split(".")[-1] for t in ev["coverage"].get("theorems", [])]
        out.append("\n*Theorems (%d):* %s\n" % (len(names), ", ".join("`%s`" % n for n in names)))
    except OSError:
        out.append("")
open(os.path.join(root, "DESIGN.md"), "w").write(head + "\n".join(out) + "\n")
print("DESIGN.md sections 12.2-12.4 regenerated")
