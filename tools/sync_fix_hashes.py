#!/usr/bin/env python3
"""Rewrite the commit hashes in known_findings.json (and HOOK_COMMITS hints) to the hashes the
same commits have on /repo's main branch after cherry-picking from agent worktrees (matched by subject)."""
import json, subprocess, re, sys

def sh(*a):
    return subprocess.run(a, capture_output=True, text=True).stdout.strip()

main = {}
for line in sh("git", "-C", "/repo", "log", "--format=%h\t%s", "main").split("\n"):
    h, s = line.split("\t", 1)
    main.setdefault(s, h)
p = "/verif/known_findings.json"
k = json.load(open(p))
changed = 0
for e in k:
    c = e.get("commit")
    if e.get("status") != "fixed" or not c:
        continue
    subj = sh("git", "-C", "/repo", "show", "-s", "--format=%s", c)
    if not subj:
        print("unknown commit", c, e["id"]); continue
    h = main.get(subj)
    if h is None:
        print("NOT ON MAIN:", e["id"], c, subj); continue
    if h != c[:len(h)] and not h.startswith(c):
        e["what"] = e["what"].replace(c, h)
        e["commit"] = h
        changed += 1
json.dump(k, open(p, "w"), indent=1)
print("updated", changed, "entries")
