#!/usr/bin/env python3
"""Print a markdown table of all seeded changes and what the checks reported (from seeded/*/{meta,result}.json)."""
import json, glob, os
rows = []
for d in sorted(glob.glob(os.path.join(os.path.dirname(os.path.dirname(os.path.abspath(__file__))), "seeded", "*"))):
    try:
        m = json.load(open(os.path.join(d, "meta.json")))
    except OSError:
        continue
    r = {}
    if os.path.exists(os.path.join(d, "result.json")):
        r = json.load(open(os.path.join(d, "result.json")))
    status = "not run"
    by = ""
    if r:
        if not r.get("applies") and not r.get("applied_3way"):
            status = "does not apply to the repaired tree"
        elif r.get("detected"):
            status = "detected"
            for pid, c in r.get("checks", {}).items():
                if c.get("exit") == 1:
                    rp = c.get("replay", {})
                    by = "%s: %s%s" % (pid, rp.get("oracle") or rp.get("kind", ""), " (no-failing-input-found)" if "no-failing-input-found" in c.get("verdict", "") else "")
                    break
        else:
            status = "MISSED"
    note = m.get("integrator_note", "")
    rows.append("| %s | %s | %s | %s%s |" % (os.path.basename(d), (m.get("summary", "") or "").replace("|", "/").replace("\n", " ")[:200],
                                              (m.get("needs_to_manifest", "") or "").replace("|", "/").replace("\n", " ")[:160], status + (" — " + by if by else ""), (" — " + note) if note else ""))
print("| seed | change | needs | result |\n|---|---|---|---|")
print("\n".join(rows))
