#!/bin/bash
# usage: tools/import_round2.sh C20 [C07 ...]  — import /tmp/mut2-cxx-out/change{1,2} as seeded/Cxx-seed{3,4} and test them
cd "$(dirname "$0")/.."
for P in "$@"; do
  p=$(echo $P | tr 'A-Z' 'a-z')
  for i in 1 2; do
    src=/tmp/mut2-$p-out/change$i
    [ -f $src/patch.diff ] || { echo "$P change$i missing"; continue; }
    d=seeded/$P-seed$((i+2)); mkdir -p $d; cp $src/* $d/
    timeout 3000 tools/seedtest $d 2>&1 | python3 -c "
import json,sys
try:
    r=json.load(sys.stdin)
except Exception as e:
    print('$d: no result', e); sys.exit(0)
print(r['seed'], 'applies',r.get('applies'),r.get('applied_3way'),'suite',r.get('suite_passes_with_change'),'demo',r.get('demo_fails_with_change'),'DETECTED' if r.get('detected') else 'MISSED')
for k,v in r.get('checks',{}).items(): print('   ',k,v['verdict'][:140], v.get('replay',{}).get('oracle',''), v.get('replay',{}).get('case_line','')[:140])"
  done
done
