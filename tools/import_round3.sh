#!/bin/bash
# usage: tools/import_round3.sh a01 [a02 ...] — import /tmp/mut3-<a>-out/change{1,2} as seeded/R3-<a>-{1,2}; run all checks until one detects
cd "$(dirname "$0")/.."
for a in "$@"; do
  for i in 1 2; do
    src=/tmp/mut3-$a-out/change$i
    [ -f $src/patch.diff ] || { echo "$a change$i missing"; continue; }
    d=seeded/R3-$a-$i; mkdir -p $d; cp $src/* $d/
    timeout 7200 tools/seedtest $d --all 2>&1 | python3 -c "
import json,sys
try:
    r=json.load(sys.stdin)
except Exception as e:
    print('$d: no result', e); sys.exit(0)
print(r['seed'], 'applies',r.get('applies'),'suite',r.get('suite_passes_with_change'),'demo',r.get('demo_fails_with_change'),'DETECTED' if r.get('detected') else 'MISSED', 'ran:', ','.join(r.get('checks',{}).keys()))
for k,v in r.get('checks',{}).items():
    if v['exit']==1: print('   ',k,v['verdict'][:140], v.get('replay',{}).get('oracle',''), v.get('replay',{}).get('case_line','')[:120])"
  done
done
