#!/usr/bin/env python3
"""Print a markdown status table from evidence/*.json (one row per property)."""
import json, glob, os
root = os.path.dirname(os.path.dirname(os.path.abspath(__file__)))
print("| property | theorems (discharged/obligations) | cases | distinct non-trivial | exhaustive | wall s | known findings hit |\n|---|---|---|---|---|---|---|")
for f in sorted(glob.glob(os.path.join(root, "evidence", "C*.json"))):
    e = json.load(open(f)); c = e["coverage"]
    print("| %s | %d/%d | %d | %d | %s | %s | %s |" % (e["property_id"], c.get("discharged", 0), c.get("obligations", 0), c.get("evaluations", 0),
          c.get("distinct_nontrivial", 0), "yes" if c.get("exhaustive") else "", e.get("wall_s"), ", ".join(c.get("known_findings_hit", []))))
