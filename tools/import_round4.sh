#!/bin/bash
# usage: tools/import_round4.sh C20 [C07 ...]  — import /tmp/mut4-cxx-out/change{1,2} as seeded/Cxx-seed{5,6}; the named
# property's check runs first, then every other check until one reports it (--all)
cd "$(dirname "$0")/.."
for P in "$@"; do
  p=$(echo $P | tr 'A-Z' 'a-z')
  for i in 1 2; do
    src=/tmp/mut4-$p-out/change$i
    [ -f $src/patch.diff ] || { echo "$P change$i missing"; continue; }
    d=seeded/$P-seed$((i+4)); mkdir -p $d; cp $src/patch.diff $src/demo_test.go $src/meta.json $d/
    timeout 7200 tools/seedtest $d --all 2>&1 | python3 -c "
import json,sys
try:
    r=json.load(sys.stdin)
except Exception as e:
    print('$d: no result', e); sys.exit(0)
print(r['seed'], 'applies',r.get('applies'),r.get('applied_3way'),'suite',r.get('suite_passes_with_change'),'demo',r.get('demo_fails_with_change'),'DETECTED' if r.get('detected') else 'MISSED', 'ran:', ','.join(r.get('checks',{}).keys()))
for k,v in r.get('checks',{}).items():
    if v['exit']==1: print('   ',k,v['verdict'][:140], v.get('replay',{}).get('oracle',''), v.get('replay',{}).get('case_line','')[:140])"
  done
done
