/-
  C02 helper lemmas: the round trip of the simple-argument commands, STORE, COPY and MOVE.
-/
import GoImap.Lemmas.CmdGrammarArgs
namespace GoImap.CmdLemmas
open GoImap.CmdGrammar GoImap.CmdSpec

theorem stops_crlf0 : Stops isAtomChar crlf := by simp [crlf, Stops]; decide

theorem notEol_wMailbox (m : List Nat) (rest : Wire) : NotEol (wMailbox m ++ rest) := by
  unfold wMailbox
  split_ifs
  · exact notEol_atom inboxStr rest (by decide) inbox_chars
  · simp [NotEol]

theorem pOneMailbox_w (mk : List Nat → Cmd) (m : List Nat) (hm : MailboxOK m) :
    pOneMailbox mk (sp ++ (wMailbox m ++ crlf)) = .ok (mk (canonMailbox m), []) := by
  unfold pOneMailbox
  simp only [bind, Except.bind, pSP_sp _ (notEol_wMailbox m crlf), pMailbox_wMailbox m crlf hm stops_crlf0, pCRLF_crlf_nil]
  rfl

/-! ### dispatch on the command name -/

theorem dispatch_select (cfg : Cfg) (w : Wire) : dispatch cfg false (str "SELECT") w =
    (do let (c, r) ← pOneMailbox (fun m => .select m false) w; pure ((if cfg.presel then [.unselect, c] else [c]), r)) := by
  unfold dispatch; simp (decide := true)
theorem dispatch_examine (cfg : Cfg) (w : Wire) : dispatch cfg false (str "EXAMINE") w =
    (do let (c, r) ← pOneMailbox (fun m => .select m true) w; pure ((if cfg.presel then [.unselect, c] else [c]), r)) := by
  unfold dispatch; simp (decide := true)
theorem dispatch_create (cfg : Cfg) (w : Wire) : dispatch cfg false (str "CREATE") w = one pCreate w := by
  unfold dispatch; simp (decide := true)
theorem dispatch_subscribe (cfg : Cfg) (w : Wire) : dispatch cfg false (str "SUBSCRIBE") w = one (pOneMailbox .subscribe) w := by
  unfold dispatch; simp (decide := true)
theorem dispatch_unsubscribe (cfg : Cfg) (w : Wire) : dispatch cfg false (str "UNSUBSCRIBE") w = one (pOneMailbox .unsubscribe) w := by
  unfold dispatch; simp (decide := true)
theorem dispatch_rename (cfg : Cfg) (w : Wire) : dispatch cfg false (str "RENAME") w = one pRename w := by
  unfold dispatch; simp (decide := true)
theorem dispatch_status (cfg : Cfg) (w : Wire) : dispatch cfg false (str "STATUS") w = one pStatus w := by
  unfold dispatch; simp (decide := true)
theorem dispatch_list (cfg : Cfg) (w : Wire) : dispatch cfg false (str "LIST") w = one pListCmd w := by
  unfold dispatch; simp (decide := true)
theorem dispatch_append (cfg : Cfg) (w : Wire) : dispatch cfg false (str "APPEND") w = one pAppend w := by
  unfold dispatch; simp (decide := true)
theorem dispatch_copy (cfg : Cfg) (uid : Bool) (w : Wire) : dispatch cfg uid (str "COPY") w = one (pCopy uid false) w := by
  unfold dispatch; cases uid <;> simp (decide := true)
theorem dispatch_move (cfg : Cfg) (uid : Bool) (w : Wire) : dispatch cfg uid (str "MOVE") w = one (pCopy uid true) w := by
  unfold dispatch; cases uid <;> simp (decide := true)
theorem dispatch_store (cfg : Cfg) (uid : Bool) (w : Wire) : dispatch cfg uid (str "STORE") w = one (pStore uid) w := by
  unfold dispatch; cases uid <;> simp (decide := true)
theorem dispatch_fetch (cfg : Cfg) (uid : Bool) (w : Wire) : dispatch cfg uid (str "FETCH") w = one (pFetch uid) w := by
  unfold dispatch; cases uid <;> simp (decide := true)
theorem dispatch_search (cfg : Cfg) (uid : Bool) (w : Wire) : dispatch cfg uid (str "SEARCH") w = one (pSearch uid) w := by
  unfold dispatch; cases uid <;> simp (decide := true)
theorem dispatch_expunge (cfg : Cfg) (w : Wire) : dispatch cfg false (str "EXPUNGE") w = one pExpunge w := by
  unfold dispatch; simp (decide := true)
theorem dispatch_uidexpunge (cfg : Cfg) (w : Wire) : dispatch cfg true (str "EXPUNGE") w = one pUidExpunge w := by
  unfold dispatch; simp (decide := true)

/-! ### commands with one mailbox argument -/

theorem oneMailbox_fidelity (cfg : Cfg) (tag : Nat) (name : String) (mk : List Nat → Cmd) (c : Cmd) (m : List Nat)
    (hm : MailboxOK m) (hn : IsName (str name)) (hnu : str name ≠ str "UID")
    (hw : wBody {} cfg c = .ok [[.fixed (kw name ++ sp ++ wMailbox m)]])
    (hd : ∀ w, dispatch cfg false (str name) w = one (pOneMailbox mk) w) :
    roundTrip {} cfg tag c = .calls [mk (canonMailbox m)] := by
  apply roundTrip_single cfg tag c _ _ hw
  simp only [kw, List.append_assoc]
  rw [parse_plain cfg tag (str name) _ hn hnu (stops_sp_atom _), hd]
  simp only [one, bind, Except.bind, pOneMailbox_w _ m hm]
  rfl

theorem delete_fidelity (cfg : Cfg) (tag : Nat) (m : List Nat) (hm : MailboxOK m) :
    roundTrip {} cfg tag (.delete m) = .calls (sem cfg (.delete m)) :=
  oneMailbox_fidelity cfg tag "DELETE" .delete _ m hm (isName_kw "DELETE") (by decide) rfl (dispatch_delete cfg)

theorem subscribe_fidelity (cfg : Cfg) (tag : Nat) (m : List Nat) (hm : MailboxOK m) :
    roundTrip {} cfg tag (.subscribe m) = .calls (sem cfg (.subscribe m)) :=
  oneMailbox_fidelity cfg tag "SUBSCRIBE" .subscribe _ m hm (isName_kw "SUBSCRIBE") (by decide) rfl (dispatch_subscribe cfg)

theorem unsubscribe_fidelity (cfg : Cfg) (tag : Nat) (m : List Nat) (hm : MailboxOK m) :
    roundTrip {} cfg tag (.unsubscribe m) = .calls (sem cfg (.unsubscribe m)) :=
  oneMailbox_fidelity cfg tag "UNSUBSCRIBE" .unsubscribe _ m hm (isName_kw "UNSUBSCRIBE") (by decide) rfl (dispatch_unsubscribe cfg)

theorem select_fidelity (cfg : Cfg) (tag : Nat) (m : List Nat) (ro : Bool) (hm : MailboxOK m) :
    roundTrip {} cfg tag (.select m ro) = .calls (sem cfg (.select m ro)) := by
  cases ro with
  | false =>
    apply roundTrip_single cfg tag _ (kw "SELECT" ++ sp ++ wMailbox m)
    · rfl
    · simp only [kw, List.append_assoc]
      rw [parse_plain cfg tag (str "SELECT") _ (isName_kw "SELECT") (by decide) (stops_sp_atom _), dispatch_select]
      simp only [bind, Except.bind, pOneMailbox_w _ m hm, pure, Except.pure]
      cases hps : cfg.presel <;> simp [sem, semRaw, canon, hps]
  | true =>
    apply roundTrip_single cfg tag _ (kw "EXAMINE" ++ sp ++ wMailbox m)
    · rfl
    · simp only [kw, List.append_assoc]
      rw [parse_plain cfg tag (str "EXAMINE") _ (isName_kw "EXAMINE") (by decide) (stops_sp_atom _), dispatch_examine]
      simp only [bind, Except.bind, pOneMailbox_w _ m hm, pure, Except.pure]
      cases hps : cfg.presel <;> simp [sem, semRaw, canon, hps]

theorem stops_sp_after_mailbox (r : Wire) : Stops isAtomChar (sp ++ r) := stops_sp_atom r

theorem rename_fidelity (cfg : Cfg) (tag : Nat) (m n : List Nat) (hm : MailboxOK m) (hn : MailboxOK n) :
    roundTrip {} cfg tag (.rename m n) = .calls (sem cfg (.rename m n)) := by
  apply roundTrip_single cfg tag _ (kw "RENAME" ++ sp ++ wMailbox m ++ sp ++ wMailbox n)
  · rfl
  · simp only [kw, List.append_assoc]
    rw [parse_plain cfg tag (str "RENAME") _ (isName_kw "RENAME") (by decide) (stops_sp_atom _), dispatch_rename]
    simp only [one, pRename, bind, Except.bind, pSP_sp _ (notEol_wMailbox _ _),
      pMailbox_wMailbox m _ hm (stops_sp_atom _), pMailbox_wMailbox n crlf hn stops_crlf0, pCRLF_crlf_nil]
    rfl

end GoImap.CmdLemmas
