/-
  `insert` on a canonical set: the result denotes the union and is canonical (C15, items 3/4).
-/
import GoImap.Lemmas.NumSetInsertSplit
import GoImap.Lemmas.NumSetMergeFwd
import GoImap.Lemmas.NumSetCanonAppend
namespace GoImap.NumSet

theorem insert_any (s : Set) (v : Range) (h : Canon s) (hv : v.WF) (q : Nat) (hq : q < W) :
    (insert s v).any (fun r => r.contains q) =
      (s.any (fun r => r.contains q) || v.contains q) := by
  obtain ⟨pre, post, rfl, _, _, sh⟩ := insert_split s 0 h v
  have hwf := CanonFrom.wf h
  cases sh with
  | plain hp hc e =>
    rw [e]
    simp only [List.any_append, List.any_cons]
    simp only [Bool.or_comm, Bool.or_left_comm]
  | mprev pre' p e0 hm e =>
    subst e0
    have hpw : p.WF := hwf p (by simp)
    have hpost : ∀ r ∈ post, r.WF := fun r hr => hwf r (by simp [hr])
    rw [e, List.any_append, mergeFwd_any q hq post _ (Range.merge_wf p v hpw hv hm) hpost,
      Range.merge_contains p v hpw hv hm q hq]
    simp only [List.any_append, List.any_cons, List.any_nil, Bool.or_false]
    simp only [Bool.or_assoc, Bool.or_comm, Bool.or_left_comm]
  | mcur c rest e0 hp hm e =>
    subst e0
    have hcw : c.WF := hwf c (by simp)
    have hrest : ∀ r ∈ rest, r.WF := fun r hr => hwf r (by simp [hr])
    rw [e, List.any_append, mergeFwd_any q hq rest _ (Range.merge_wf c v hcw hv hm) hrest,
      Range.merge_contains c v hcw hv hm q hq]
    simp only [List.any_append, List.any_cons]
    simp only [Bool.or_assoc, Bool.or_comm, Bool.or_left_comm]

/-- the gap before `v` when the predecessor (if any) does not merge -/
theorem pre_gap (pre : Set) (v : Range) (hv : v.WF) (hwf : ∀ r ∈ pre, r.WF)
    (hless : ∀ r ∈ pre, r.less v.start = true)
    (hp : ∀ pre' p, pre = pre' ++ [p] → (p.merge v).2 = false) :
    v.start = 0 ∨ hiOf 0 pre < v.start := by
  rcases List.eq_nil_or_concat pre with rfl | ⟨pre', p, rfl⟩
  · simp only [hiOf]; omega
  · rw [List.concat_eq_append] at *
    rw [hiOf_snoc]
    exact Range.merge_fail_less p v (hwf p (by simp)) hv (hless p (by simp)) (hp pre' p rfl)

theorem insert_canon (s : Set) (v : Range) (h : Canon s) (hv : v.WF) : Canon (insert s v) := by
  obtain ⟨pre, post, rfl, hless, hnl, sh⟩ := insert_split s 0 h v
  have hwf := CanonFrom.wf h
  have hall : ∀ r ∈ pre, r.stop ≠ 0 := by
    intro r hr
    exact (Range.less_start_ne r (hwf r (by simp [hr])) _ (hless r hr)).2.1
  obtain ⟨Hpre, _, Hpost⟩ := (canonFrom_append pre post 0).1 h
  cases sh with
  | plain hp hc e =>
    rw [e]
    refine (canonFrom_append pre (v :: post) 0).2 ⟨Hpre, fun _ => hall, hv, ?_, ?_, ?_⟩
    · exact pre_gap pre v hv (fun r hr => hwf r (by simp [hr])) hless hp
    · intro hne
      cases post with
      | nil => exact absurd rfl hne
      | cons c rest =>
        exact (Range.merge_fail_notless c v (hwf c (by simp)) hv (hnl c rest rfl)
          (hc c rest rfl)).1
    · cases post with
      | nil => trivial
      | cons c rest =>
        have := Range.merge_fail_notless c v (hwf c (by simp)) hv (hnl c rest rfl)
          (hc c rest rfl)
        exact CanonFrom.relo Hpost this.2.2
  | mprev pre' p e0 hm e =>
    subst e0
    have hpw : p.WF := hwf p (by simp)
    have hpl := hless p (by simp)
    have hps := Range.less_start_ne p hpw _ hpl
    have hv0 := Range.merge_less_ok p v hpw hv hpl hm
    have hms : (p.merge v).1.start = p.start :=
      Range.merge_start_left p v hps.1 (by omega)
    have h' : CanonFrom 0 (pre' ++ p :: post) := by
      have : pre' ++ p :: post = pre' ++ [p] ++ post := by simp
      rw [this]; exact h
    obtain ⟨Hpre', _, Hp⟩ := (canonFrom_append pre' (p :: post) 0).1 h'
    rw [e]
    refine (canonFrom_append pre' _ 0).2 ⟨Hpre', fun _ r hr => hall r (by simp [hr]), ?_⟩
    apply mergeFwd_canon post _ _ (Range.merge_wf p v hpw hv hm) (by rw [hms]; exact Hp.2.1)
      Hp.tail.canon
    · intro r hr
      rw [hms]
      have := Hp.tail.starts r hr
      omega
    · intro hz; rw [hms] at hz; exact absurd hz hps.1
  | mcur c rest e0 hp hm e =>
    subst e0
    have hcw : c.WF := hwf c (by simp)
    have hcl := hnl c rest rfl
    have hcl' : ¬ (c.less v.start = true) := by rw [hcl]; exact Bool.false_ne_true
    rw [Range.less_iff] at hcl'
    have hvlo := pre_gap pre v hv (fun r hr => hwf r (by simp [hr])) hless hp
    -- if something follows `c`, then `c` is static and the merged range starts at the minimum
    have hmin : rest ≠ [] → (c.merge v).1.start ≠ 0 ∧ (c.merge v).1.start ≤ c.stop := by
      intro hne
      have hcs := Hpost.2.2.1 hne
      have hc0 : c.start ≠ 0 := by intro h0; exact hcs (hcw.2.2.1 h0)
      have hcle := hcw.2.2.2 hcs
      have hv0 : v.start ≠ 0 := by omega
      rw [Range.merge_start_min c v hc0 hv0 hm]
      omega
    rw [e]
    refine (canonFrom_append pre _ 0).2 ⟨Hpre, fun _ => hall, ?_⟩
    apply mergeFwd_canon rest _ _ (Range.merge_wf c v hcw hv hm) ?_ Hpost.tail.canon
    · intro r hr
      have := hmin (List.ne_nil_of_mem hr)
      have := Hpost.tail.starts r hr
      omega
    · intro hz
      by_cases hne : rest = []
      · exact hne
      · exact absurd hz (hmin hne).1
    · rcases Range.merge_start_or c v with hs | hs
      · rw [hs]; exact Hpost.2.1
      · rw [hs]; exact hvlo

end GoImap.NumSet
