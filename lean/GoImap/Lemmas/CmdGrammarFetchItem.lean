/-
  C02 helper lemmas: a whole FETCH body section `BODY[.PEEK][…]<…>`, binary sections, and the item list.
-/
import GoImap.Lemmas.CmdGrammarFetchSec
namespace GoImap.CmdLemmas
open GoImap.CmdGrammar GoImap.CmdSpec

theorem specStr_head (b : BodySec) (h : b.spec ≠ .none) :
    ∃ c t, specStr b = c :: t ∧ isDigit c = false ∧ c ≠ 93 ∧ c ≠ 46 := by
  unfold specStr
  cases hs : b.spec <;> simp only
  · exact absurd hs h
  · split_ifs <;> exact ⟨72, _, rfl, by decide, by decide, by decide⟩
  · exact ⟨77, _, rfl, by decide, by decide, by decide⟩
  · exact ⟨84, _, rfl, by decide, by decide, by decide⟩

theorem secInner_none (b : BodySec) (hok : SecOK b) (h : b.spec = .none) : secInner b = [] := by
  have := fields_nil_of_spec b hok (by simp [h])
  simp [secInner, specStr, hdrList, h, this.1, this.2, atom]

theorem partWire_length (p : List Int) : p.length ≤ (partWire p).length := by
  induction p with
  | nil => simp [partWire]
  | cons n p ih =>
    rw [partWire_cons]
    cases p with
    | nil =>
      have := digits_ne_nil n.toNat
      cases hd : digits n.toNat with
      | nil => exact absurd hd this
      | cons c t => simp [dotted, atom]
    | cons m q =>
      rw [partWire_cons] at ih
      simp only [dotted, List.length_append, List.length_cons, atom, List.length_map] at ih ⊢
      omega

theorem partWire_head (p : List Int) (hne : p ≠ []) : ∃ c r, partWire p = .b c :: r ∧ isDigit c = true := by
  cases p with
  | nil => exact absurd rfl hne
  | cons n p =>
    rw [partWire_cons]
    cases hd : digits n.toNat with
    | nil => exact absurd hd (digits_ne_nil _)
    | cons c t =>
      have := digits_digit n.toNat c (by simp [hd])
      exact ⟨c, atom t ++ dotted p, by simp [atom], this⟩

/-- between `[` and the end of `]`: what writeFetchItemBodySection writes -/
def secBracket (b : BodySec) : Wire :=
  partWire b.part ++ (if b.part ≠ [] && b.spec ≠ .none then [.b 46] else []) ++ secInner b ++ [.b 93]

/-- readSection on a written section -/
theorem pSection_w (b : BodySec) (rest : Wire) (hok : SecOK b) :
    pSection b.peek (secBracket b ++ rest) = .ok ({ b with slice := none }, rest) := by
  unfold secBracket
  by_cases hp : b.part = []
  · by_cases hs : b.spec = .none
    · -- `[]`
      have hnil := fields_nil_of_spec b hok (by simp [hs])
      obtain ⟨spec, part, fields, fieldsNot, slice, peek⟩ := b
      simp only at hp hs hnil
      obtain ⟨h1, h2⟩ := hnil
      subst hp hs h1 h2
      simp [pSection, partWire, secInner, specStr, hdrList, atom, special]
    · -- `[SPEC…]`
      obtain ⟨c, t, hst, hc, hc93, _⟩ := specStr_head b hs
      have hw : partWire b.part ++ (if b.part ≠ [] && b.spec ≠ .none then [Item.b 46] else []) ++ secInner b ++ [Item.b 93] ++ rest
          = secInner b ++ (Item.b 93 :: rest) := by simp [hp, partWire]
      rw [hw]
      have hshape : ∃ r, secInner b ++ (Item.b 93 :: rest) = Item.b c :: r := by
        unfold secInner; rw [hst]; simp only [atom, List.map_cons, List.cons_append, List.append_assoc]; exact ⟨_, rfl⟩
      obtain ⟨r, hr⟩ := hshape
      have h93 : special 93 (secInner b ++ (Item.b 93 :: rest)) = none := by
        rw [hr]; simp [special, hc93]
      have hpart : pSectionPart (secInner b ++ (Item.b 93 :: rest)).length [] (secInner b ++ (Item.b 93 :: rest)) =
          ([], false, secInner b ++ (Item.b 93 :: rest)) := by
        rw [hr]
        simp [pSectionPart, span, hc]
      have hspec := pSectionSpec_w b false rest hok hs (Or.inr hp)
      rw [hp] at hspec
      simp only [pSection, h93, hpart, bind, Except.bind, hspec, pSpecial, special_b]
      simp [hp, pure, Except.pure]
  · obtain ⟨c0, r0, hhead, hd0⟩ := partWire_head b.part hp
    by_cases hs : b.spec = .none
    · -- `[1.2]`
      have hin := secInner_none b hok hs
      have hw : partWire b.part ++ (if b.part ≠ [] && b.spec ≠ .none then [Item.b 46] else []) ++ secInner b ++ [Item.b 93] ++ rest
          = partWire b.part ++ (Item.b 93 :: rest) := by simp [hs, hin]
      rw [hw]
      have h93 : special 93 (partWire b.part ++ (Item.b 93 :: rest)) = none := by
        rw [hhead]
        have : c0 ≠ 93 := by intro he; subst he; revert hd0; decide
        simp [special, this]
      have hlen : b.part.length + 1 ≤ (partWire b.part ++ (Item.b 93 :: rest)).length := by
        have := partWire_length b.part
        simp only [List.length_append, List.length_cons]; omega
      have hpart := pSectionPart_wire b.part _ (Item.b 93 :: rest) hok.part hp hlen (AfterPart.close rest)
      have hnodot : pSectionSpec b.peek b.part false (Item.b 93 :: rest) = .ok ({ part := b.part, peek := b.peek }, Item.b 93 :: rest) := by
        simp [pSectionSpec, hp]
      simp only [pSection, h93, hpart, afterRes, bind, Except.bind, hnodot, pSpecial, special_b]
      have hnil := fields_nil_of_spec b hok (by simp [hs])
      obtain ⟨spec, part, fields, fieldsNot, slice, peek⟩ := b
      simp only at hs hnil
      obtain ⟨h1, h2⟩ := hnil
      subst hs h1 h2
      rfl
    · -- `[1.2.SPEC…]`
      obtain ⟨c, t, hst, hc, _, _⟩ := specStr_head b hs
      have hw : partWire b.part ++ (if b.part ≠ [] && b.spec ≠ .none then [Item.b 46] else []) ++ secInner b ++ [Item.b 93] ++ rest
          = partWire b.part ++ (Item.b 46 :: (secInner b ++ (Item.b 93 :: rest))) := by simp [hp, hs]
      rw [hw]
      obtain ⟨r, hr⟩ : ∃ r, secInner b ++ (Item.b 93 :: rest) = Item.b c :: r := by
        unfold secInner; rw [hst]; simp only [atom, List.map_cons, List.cons_append, List.append_assoc]; exact ⟨_, rfl⟩
      have h93 : special 93 (partWire b.part ++ (Item.b 46 :: (secInner b ++ (Item.b 93 :: rest)))) = none := by
        rw [hhead]
        have : c0 ≠ 93 := by intro he; subst he; revert hd0; decide
        simp [special, this]
      have hlen : b.part.length + 1 ≤ (partWire b.part ++ (Item.b 46 :: (secInner b ++ (Item.b 93 :: rest)))).length := by
        have := partWire_length b.part
        simp only [List.length_append, List.length_cons]; omega
      have hafter : AfterPart (Item.b 46 :: (secInner b ++ (Item.b 93 :: rest))) := by
        rw [hr]; exact AfterPart.spec c r hc
      have hpart := pSectionPart_wire b.part _ _ hok.part hp hlen hafter
      have hspec := pSectionSpec_w b true rest hok hs (Or.inl rfl)
      simp only [pSection, h93, hpart, afterRes, List.drop_succ_cons, List.drop_zero, bind, Except.bind, hspec, pSpecial, special_b]
      rfl

/-! ### partial -/

def sliceWire : Option Partial → Wire
  | none => []
  | some p => [.b 60] ++ atom (digits p.offset.toNat) ++ [.b 46] ++ atom (digits p.size.toNat) ++ [.b 62]

theorem wPartial_ok (sl : Option Partial) (h : SliceOK sl) : wPartial sl = .ok (sliceWire sl) := by
  cases sl with
  | none => rfl
  | some p =>
    have : ¬ (p.offset < 0 ∨ p.size < 0) := by have := h.1; have := h.2.2.1; omega
    simp [wPartial, sliceWire, this]

/-- what follows a fetch item: a space or the closing parenthesis -/
theorem pPartial_w (sl : Option Partial) (tail : Wire) (h : SliceOK sl) (ht : Sep tail) :
    pPartial (sliceWire sl ++ tail) = .ok (sl, tail) := by
  cases sl with
  | none =>
    cases tail with
    | nil => exact absurd ht (by simp [Sep])
    | cons i r =>
      cases i <;> simp [Sep] at ht
      rcases ht with rfl | rfl <;> simp [pPartial, sliceWire, special]
  | some p =>
    obtain ⟨h1, h2, h3, h4⟩ := h
    have e1 : ((p.offset.toNat : Nat) : Int) = p.offset := Int.toNat_of_nonneg h1
    have e2 : ((p.size.toNat : Nat) : Int) = p.size := Int.toNat_of_nonneg h3
    have n1 := pNumber_digits lim63 p.offset.toNat ([Item.b 46] ++ (atom (digits p.size.toNat) ++ ([Item.b 62] ++ tail)))
      (by unfold lim63; omega) (by simp [Stops]; decide)
    have n2 := pNumber_digits lim63 p.size.toNat ([Item.b 62] ++ tail) (by unfold lim63; omega) (by simp [Stops]; decide)
    simp only [pPartial, sliceWire, List.append_assoc, List.singleton_append, List.cons_append, List.nil_append, special_b] at n1 n2 ⊢
    simp only [n1, bind, Except.bind, pSpecial, special_b, n2, e1, e2]
    rfl

end GoImap.CmdLemmas
