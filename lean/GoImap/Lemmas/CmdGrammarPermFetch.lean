/-
  C02 helper lemmas: FETCH with its map-ordered scalar items written in any order.
-/
import GoImap.Lemmas.CmdGrammarPermList
namespace GoImap.CmdLemmas
open GoImap.CmdGrammar GoImap.CmdSpec

/-- folding setters that commute on a class of items gives the same result for any order of such items -/
theorem foldl_perm_comm_on {α β : Type} (f : β → α → β) (P : α → Prop)
    (hc : ∀ a b x, P a → P b → f (f x a) b = f (f x b) a)
    {l₁ l₂ : List α} (h : l₁.Perm l₂) : (∀ a ∈ l₂, P a) → ∀ x, l₁.foldl f x = l₂.foldl f x := by
  induction h with
  | nil => intro _ x; rfl
  | cons a _ ih => intro hp x; simp only [List.foldl_cons]; exact ih (fun b hb => hp b (by simp [hb])) _
  | swap a b t => intro hp x; simp only [List.foldl_cons]; rw [hc _ _ _ (hp b (by simp)) (hp a (by simp))]
  | trans h1 h2 ih1 ih2 =>
    intro hp x
    rw [ih1 (fun a ha => hp a (h2.mem_iff.mp ha)), ih2 hp]

def FItem.isScalar : FItem → Prop
  | .sec _ => False
  | .bin _ => False
  | .binsize _ => False
  | _ => True

theorem scalar_comm (a b : FItem) (x : FetchOpts) (ha : a.isScalar) (hb : b.isScalar) :
    FItem.set (FItem.set x a) b = FItem.set (FItem.set x b) a := by
  obtain ⟨bs, e, f, g, h, i, j, k, l, m⟩ := x
  cases a <;> cases b <;> simp only [FItem.isScalar] at ha hb <;> first
    | rfl
    | (cases bs with
       | none => simp [FItem.set, setBodyStructure]
       | some v => cases v <;> simp [FItem.set, setBodyStructure])

/-- the map-ordered items of writeFetchItems -/
def scalarItems (o : FetchOpts) : List FItem :=
  (match o.bodyStructure with | none => [] | some false => [.body] | some true => [.bodystructure]) ++
  (if o.envelope then [.envelope] else []) ++ (if o.flags then [.flags] else []) ++
  (if o.internalDate then [.internaldate] else []) ++ (if o.size then [.size] else [])

def firstItems (uid : Bool) (o : FetchOpts) : List FItem := if o.uid || uid then [.uid] else []
def tailItems (o : FetchOpts) : List FItem := o.sections.map .sec ++ o.binary.map .bin ++ o.binarySize.map .binsize

theorem fItems_split (uid : Bool) (o : FetchOpts) : fItems uid o = firstItems uid o ++ scalarItems o ++ tailItems o := by
  simp only [fItems, firstItems, scalarItems, tailItems, List.append_assoc]
  cases o.bodyStructure with
  | none => rfl
  | some v => cases v <;> rfl

theorem scalarItems_scalar (o : FetchOpts) : ∀ a ∈ scalarItems o, a.isScalar := by
  intro a ha
  obtain ⟨bs, e, f, g, h, i, j, k, l, m⟩ := o
  simp only [scalarItems, List.mem_append] at ha
  rcases ha with (((ha | ha) | ha) | ha) | ha
  · cases bs with
    | none => simp at ha
    | some v => cases v <;> simp at ha <;> subst ha <;> trivial
  all_goals (split_ifs at ha <;> simp at ha; subst ha; trivial)

theorem scalar_ok (a : FItem) (h : a.isScalar) : a.ok := by
  cases a <;> simp only [FItem.isScalar] at h <;> trivial

theorem fetchScalars_eq (o : FetchOpts) (hm : o.modSeq = false) : fetchScalars o = (scalarItems o).map FItem.wire := by
  obtain ⟨bs, a, b, c, d, e, f, g, i, j⟩ := o
  simp only at hm
  subst hm
  cases bs with
  | none => cases a <;> cases b <;> cases c <;> cases d <;> rfl
  | some x => cases x <;> cases a <;> cases b <;> cases c <;> cases d <;> rfl

/-- every way of writing the item list: the scalar items in some order `l` -/
theorem lin_fetchItems (uid : Bool) (o : FetchOpts) (h : FetchOK o) (segs : List Seg) (hs : wFetchItems uid o = .ok segs)
    (w : Wire) (hl : Lin segs w) :
    ∃ l, l.Perm (scalarItems o) ∧ w = wList ((firstItems uid o ++ l ++ tailItems o).map FItem.wire) := by
  simp only [wFetchItems, mapM_secs o.sections h.secs, mapM_bins o.binary h.bins, mapM_sizes o.binarySize h.sizes, bind,
    Except.bind, pure, Except.pure, Except.ok.injEq] at hs
  subst hs
  obtain ⟨w1, rfl, h1⟩ := lin_fixed_cons hl
  obtain ⟨perm, w2, hperm, rfl, h2⟩ := lin_any_cons h1
  obtain ⟨w3, rfl, h3⟩ := lin_fixed_cons h2
  have := lin_nil h3
  subst this
  rw [fetchScalars_eq o h.noModSeq] at hperm
  obtain ⟨l, hl', rfl⟩ := perm_map_inv FItem.wire hperm (scalarItems o) rfl
  refine ⟨l, hl', ?_⟩
  have hfirst : (if (o.uid || uid) = true then [kw "UID"] else []) = (firstItems uid o).map FItem.wire := by
    unfold firstItems; split_ifs <;> rfl
  have htail : o.sections.map secWire ++ o.binary.map binWire ++ o.binarySize.map binSizeWire = (tailItems o).map FItem.wire := by
    simp [tailItems, List.map_append, List.map_map, Function.comp_def, FItem.wire]
  have hnil : (fetchScalars o = []) = (l.map FItem.wire = []) := by
    rw [fetchScalars_eq o h.noModSeq]
    have := perm_nil_iff hl'
    simp only [List.map_eq_nil_iff]
    exact this.symm
  have hdec : decide (fetchScalars o ≠ []) = decide (l.map FItem.wire ≠ []) := by
    simp only [ne_eq, hnil]
  rw [hfirst, htail, hdec]
  simp only [List.map_append]
  generalize (firstItems uid o).map FItem.wire = A
  generalize l.map FItem.wire = B
  generalize (tailItems o).map FItem.wire = C
  have hAB : decide (A ++ B ≠ []) = (decide (A ≠ []) || decide (B ≠ [])) := by
    cases A <;> cases B <;> simp
  unfold wList
  rw [joinSp_append (A ++ B) C, joinSp_append A B, hAB]
  simp [List.append_assoc]

theorem foldl_items_order (uid : Bool) (o : FetchOpts) (l : List FItem) (hl : l.Perm (scalarItems o)) (hm : o.modSeq = false) :
    (firstItems uid o ++ l ++ tailItems o).foldl FItem.set {} = { o with uid := o.uid || uid } := by
  have := foldl_fItems uid o hm
  rw [fItems_split] at this
  simp only [List.foldl_append] at this ⊢
  rw [foldl_perm_comm_on FItem.set FItem.isScalar scalar_comm hl (scalarItems_scalar o)]
  exact this

/-- FETCH written with its scalar items in the order `l` -/
theorem parse_fetch_wire (cfg : Cfg) (tag : Nat) (uid : Bool) (s : NSet) (o : FetchOpts) (l : List FItem)
    (hs : SetOK s) (hnf : SetNF s) (ho : FetchOK o) (hl : l.Perm (scalarItems o)) :
    parseOne cfg (tagW tag ++ (uidName uid "FETCH" ++ (sp ++ (atom s.text ++ (sp ++
      (wList ((firstItems uid o ++ l ++ tailItems o).map FItem.wire) ++ crlf)))))) = .ok (sem cfg (.fetch uid s o), []) := by
  rw [parse_uidName cfg tag uid "FETCH" _ (isName_kw "FETCH") (by decide) (stops_sp_atom _), dispatch_fetch]
  have hok : ∀ a ∈ firstItems uid o ++ l ++ tailItems o, a.ok := by
    intro a ha
    have hall := fItems_ok uid o ho
    rw [fItems_split] at hall
    simp only [List.mem_append] at ha hall
    rcases ha with (ha | ha) | ha
    · exact hall a (Or.inl (Or.inl ha))
    · exact scalar_ok a (scalarItems_scalar o a (hl.mem_iff.mp ha))
    · exact hall a (Or.inr ha)
  have hlist := pListOpt_wList fetchItemSpec (firstItems uid o ++ l ++ tailItems o) hok {} crlf
  rw [foldl_items_order uid o l hl ho.noModSeq] at hlist
  simp only [one, pFetch, bind, Except.bind, pSP_sp _ (notEol_text s _ hs), pNumSet_text s _ hs (stops_sp_numset _),
    pSP_sp _ (notEol_wList _ _), hlist, pCRLF_crlf_nil]
  cases uid <;> simp [sem, semRaw, canon, canonNSet_nf s hnf, pure, Except.pure]

/-- FETCH / UID FETCH: delivered whatever order the scalar items are written in -/
theorem fetch_delivers (cfg : Cfg) (tag : Nat) (uid : Bool) (s : NSet) (o : FetchOpts)
    (hs : SetOK s) (hnf : SetNF s) (ho : FetchOK o) :
    Delivers {} cfg tag (.fetch uid s o) (sem cfg (.fetch uid s o)) := by
  cases hwf : wFetchItems uid o with
  | error e =>
    have := linearise_fetchItems uid o ho
    rw [hwf] at this
    simp [Except.map] at this
  | ok segs =>
    have hw : wBody {} cfg (.fetch uid s o) = .ok [Seg.fixed (uidName uid "FETCH" ++ sp ++ atom s.text ++ sp) :: segs] := by
      simp [wBody, wNumSet_ok s hs, hwf, bind, Except.bind, pure, Except.pure]
    apply delivers_single cfg tag _ _ _ hw
    intro w hlin
    obtain ⟨w1, rfl, h1⟩ := lin_fixed_cons hlin
    obtain ⟨l, hl, rfl⟩ := lin_fetchItems uid o ho segs hwf w1 h1
    have := parse_fetch_wire cfg tag uid s o l hs hnf ho hl
    simp only [List.append_assoc] at this ⊢
    exact this

end GoImap.CmdLemmas
