/-
  C02 helper lemmas: reading a whole criteria tree back.
-/
import GoImap.Lemmas.CmdGrammarSearchCrit
namespace GoImap.CmdLemmas
open GoImap.CmdGrammar GoImap.CmdSpec

/-- a non-empty parenthesised list of good keys is read as the composition of their effects (the list
    may be opened: `ld + 1 < maxListDepth`) -/
theorem readsAs_group (F ld kd : Nat) (items : List KI) (hne : items ≠ []) (hg : ∀ a ∈ items, Good F (ld + 1) kd a)
    (hld : ld + 1 < maxListDepth) :
    ReadsAs (F + 1) ld kd (wList (items.map (·.1))) (items.foldl (fun c a => a.2 c) Crit.empty) := by
  intro tail
  cases items with
  | nil => exact absurd rfl hne
  | cons a as =>
    have hspan : span isSearchAtomChar (wList ((a :: as).map (·.1)) ++ tail) = ([], wList ((a :: as).map (·.1)) ++ tail) := by
      simp [wList, span]
      decide
    have hnc : special 41 (joinSp ((a :: as).map (·.1)) ++ (.b 41 :: tail)) = none := by
      cases as with
      | nil => simpa [joinSp] using (hg a (by simp)).notClose _
      | cons b as => simpa [joinSp, List.append_assoc] using (hg a (by simp)).notClose _
    have hlen : as.length + 1 ≤ (joinSp ((a :: as).map (·.1)) ++ (.b 41 :: tail)).length := by
      have := joinSp_length_ge (fun x : KI => x.1) (Good F (ld + 1) kd) (fun x hx => hx.nonEmpty) (a :: as) hg
      simp only [List.length_append, List.length_cons] at this ⊢
      omega
    have hloop := listLoop_join (keyItemSpec F (ld + 1) kd) as a Crit.empty _ tail hg hlen
    have hd : ¬ (ld + 1 ≥ maxListDepth) := by omega
    unfold pSearchKey
    rw [hspan]
    simp only [ne_eq, not_true_eq_false, if_false]
    simp only [wList, List.append_assoc, List.singleton_append, List.cons_append, List.nil_append, special_b, hnc, hd, if_false]
    exact hloop

theorem orAll_ne_nil (items : List KI) : orAll items ≠ [] := by
  unfold orAll
  cases items <;> simp

theorem good_orAll (F ld kd : Nat) (items : List KI) (hg : ∀ a ∈ items, Good (F + 1) ld kd a) :
    ∀ a ∈ orAll items, Good (F + 1) ld kd a := by
  unfold orAll
  cases items with
  | nil =>
    intro a ha
    simp only [List.isEmpty_nil, if_true, List.mem_singleton] at ha
    subst ha
    exact good_all F ld kd
  | cons b bs => simpa using hg

theorem paren_wList (l : List Wire) : Paren (wList l) := ⟨joinSp l ++ [.b 41], by simp [wList]⟩

theorem paren_critWire (c : Crit) : Paren (critWire c) := by
  cases c with
  | mk f nots ors => unfold critWire; exact paren_wList _

/-- the effects of the keys of a criteria value compose to its canonical form -/
def Composes (c : Crit) : Prop := (critItems c).foldl (fun acc a => a.2 acc) Crit.empty = delivCrit c

mutual
  /-- a criteria tree written by the client is read back in canonical form, given a recursion budget of
      twice its depth, and room for its nesting below the decoder's list-depth limit and the NOT/OR limit -/
  theorem readsAs_crit : ∀ (c : Crit) (F ld kd : Nat), CritOK c → (∀ c', CritOK c' → Composes c') → 2 * depth c ≤ F →
      ld + depth c < maxListDepth → kd + depth c ≤ maxSearchKeyDepth →
      ReadsAs F ld kd (critWire c) (delivCrit c)
    | .mk f nots ors, F, ld, kd, hok0, hcomp, hF, hld, hkd => by
      have hok := hok0
      unfold CritOK at hok
      obtain ⟨hf, hn, ho⟩ := hok
      unfold depth at hF hld hkd
      obtain ⟨F2, rfl⟩ : ∃ F2, F = F2 + 2 := ⟨F - 2, by omega⟩
      have hgood : ∀ a ∈ flatItems f ++ notItems nots ++ orItems ors, Good (F2 + 1) (ld + 1) kd a := by
        intro a ha
        simp only [List.mem_append] at ha
        rcases ha with (ha | ha) | ha
        · exact good_flatItems F2 (ld + 1) kd f hf a ha
        · exact good_nots nots F2 (ld + 1) kd hn hcomp (by omega) (by omega) (by omega) a ha
        · exact good_ors ors F2 (ld + 1) kd ho hcomp (by omega) (by omega) (by omega) a ha
      have := readsAs_group (F2 + 1) ld kd _ (orAll_ne_nil _) (good_orAll F2 (ld + 1) kd _ hgood) (by omega)
      have hc := hcomp (.mk f nots ors) hok0
      unfold Composes critItems at hc
      rw [hc] at this
      unfold critWire
      exact this
  theorem good_nots : ∀ (nots : CritList) (F ld kd : Nat), NotsOK nots → (∀ c', CritOK c' → Composes c') → 2 * depthNots nots ≤ F →
      ld + depthNots nots < maxListDepth → kd + depthNots nots < maxSearchKeyDepth →
      ∀ a ∈ notItems nots, Good (F + 1) ld kd a
    | .nil, _, _, _, _, _, _, _, _ => by intro a ha; simp [notItems] at ha
    | .cons c t, F, ld, kd, hok, hcomp, hF, hld, hkd => by
      unfold NotsOK at hok
      unfold depthNots at hF hld hkd
      intro a ha
      unfold notItems at ha
      rcases List.mem_cons.mp ha with rfl | ha
      · exact good_not F ld kd (critWire c) (delivCrit c)
          (readsAs_crit c F ld (kd + 1) hok.1 hcomp (by omega) (by omega) (by omega)) (paren_critWire c) (by omega)
      · exact good_nots t F ld kd hok.2 hcomp (by omega) (by omega) (by omega) a ha
  theorem good_ors : ∀ (ors : OrList) (F ld kd : Nat), OrsOK ors → (∀ c', CritOK c' → Composes c') → 2 * depthOrs ors ≤ F →
      ld + depthOrs ors < maxListDepth → kd + depthOrs ors < maxSearchKeyDepth →
      ∀ a ∈ orItems ors, Good (F + 1) ld kd a
    | .nil, _, _, _, _, _, _, _, _ => by intro a ha; simp [orItems] at ha
    | .cons a b t, F, ld, kd, hok, hcomp, hF, hld, hkd => by
      unfold OrsOK at hok
      unfold depthOrs at hF hld hkd
      intro x hx
      unfold orItems at hx
      rcases List.mem_cons.mp hx with rfl | hx
      · exact good_or F ld kd (critWire a) (critWire b) (delivCrit a) (delivCrit b)
          (readsAs_crit a F ld (kd + 1) hok.1 hcomp (by omega) (by omega) (by omega))
          (readsAs_crit b F ld (kd + 1) hok.2.1 hcomp (by omega) (by omega) (by omega))
          (paren_critWire a) (paren_critWire b) (by omega)
      · exact good_ors t F ld kd hok.2.2 hcomp (by omega) (by omega) (by omega) x hx
end

end GoImap.CmdLemmas
