/-
  C18 helper lemmas, part 1: the capability table (`has` vs the RFC implication table) and the
  per-string decision (`rendering`) against the legality rules of Spec/ClientSyntax.
-/
import GoImap.Model.ClientSyntax
import GoImap.Spec.ClientSyntax
namespace GoImap.ClientSyntaxLemmas
open GoImap.Wire GoImap.ClientSyntax
open GoImap.ClientSyntaxSpec (implies available isLiteralPlus isLiteralMinus isRev2 isUtf8 nonSyncLegal utf8Quoted Server)

theorem any_or {α : Type} (l : List α) (f g : α → Bool) :
    l.any (fun x => f x || g x) = (l.any f || l.any g) := by
  induction l with
  | nil => rfl
  | cons x xs ih =>
    simp only [List.any_cons, ih]
    cases f x <;> cases g x <;> cases xs.any f <;> cases xs.any g <;> rfl

theorem any_and_const {α : Type} (l : List α) (f : α → Bool) (k : Bool) :
    l.any (fun x => f x && k) = (l.any f && k) := by
  induction l with
  | nil => cases k <;> rfl
  | cons x xs ih =>
    simp only [List.any_cons, ih]
    cases f x <;> cases k <;> cases xs.any f <;> rfl

/-- the implication table, one disjunct per rule of `CapSet.Has` -/
theorem implies_eq (x c : Cap) :
    implies x c = (Cap.same c x || (Cap.same .imap4rev2 x && c.inRev2)
      || (Cap.same .literalPlus x && Cap.same c .literalMinus)
      || (Cap.same .qresync x && Cap.same c .condStore)
      || (Cap.same .utf8Only x && Cap.same c .utf8Accept)) := by
  cases x <;> cases c <;> rfl

/-- `CapSet.Has` is the RFC implication table: a capability is available iff some advertised name
    implies it -/
theorem has_eq_available (set : List Cap) (c : Cap) : has set c = available set c := by
  have h : (fun x => implies x c) = fun x =>
      ((((Cap.same c x || (Cap.same .imap4rev2 x && c.inRev2))
        || (Cap.same .literalPlus x && Cap.same c .literalMinus))
        || (Cap.same .qresync x && Cap.same c .condStore))
        || (Cap.same .utf8Only x && Cap.same c .utf8Accept)) := by
    funext x; exact implies_eq x c
  unfold available
  rw [h, any_or, any_or, any_or, any_or, any_and_const, any_and_const, any_and_const, any_and_const]
  unfold has mem
  cases set.any (Cap.same c) <;> cases set.any (Cap.same .imap4rev2) <;> cases c.inRev2
    <;> cases set.any (Cap.same .literalPlus) <;> cases Cap.same c .literalMinus
    <;> cases set.any (Cap.same .qresync) <;> cases Cap.same c .condStore
    <;> cases set.any (Cap.same .utf8Only) <;> cases Cap.same c .utf8Accept <;> rfl

theorem has_literalPlus (set : List Cap) : has set .literalPlus = set.any isLiteralPlus := by
  rw [has_eq_available]; unfold available
  congr 1; funext x; cases x <;> rfl

theorem has_rev2 (set : List Cap) : has set .imap4rev2 = set.any isRev2 := by
  rw [has_eq_available]; unfold available
  congr 1; funext x; cases x <;> rfl

theorem has_literalMinus (set : List Cap) :
    has set .literalMinus = (set.any isLiteralMinus || set.any isRev2 || set.any isLiteralPlus) := by
  rw [has_eq_available]; unfold available
  rw [← any_or, ← any_or]
  congr 1; funext x; cases x <;> rfl

theorem has_utf8Accept (set : List Cap) : has set .utf8Accept = set.any isUtf8 := by
  rw [has_eq_available]; unfold available
  congr 1; funext x; cases x <;> rfl

/-- a literal the encoder configured by `cfgOf` leaves non-synchronising is one the server allowed -/
theorem needSync_false_legal (caps enabled : List Cap) (n : Nat)
    (h : needSync (cfgOf caps enabled) n = false) : nonSyncLegal ⟨caps, enabled⟩ n = true := by
  unfold needSync cfgOf at h
  simp only [has_literalPlus, has_literalMinus] at h
  unfold nonSyncLegal
  simp only
  cases hp : caps.any isLiteralPlus <;> cases hm : caps.any isLiteralMinus <;> cases hr : caps.any isRev2
    <;> simp [hp, hm, hr] at h ⊢ <;> omega

/-- the APPEND literal is non-synchronising only where the server allowed it -/
theorem appendSync_false_legal (caps enabled : List Cap) (n : Nat)
    (h : appendSync caps n = false) : nonSyncLegal ⟨caps, enabled⟩ n = true := by
  unfold appendSync at h
  simp only [has_literalMinus] at h
  unfold nonSyncLegal
  simp only
  cases hp : caps.any isLiteralPlus <;> cases hm : caps.any isLiteralMinus <;> cases hr : caps.any isRev2
    <;> simp [hp, hm, hr] at h ⊢ <;> omega

theorem quotedUTF8_cfgOf (caps enabled : List Cap) :
    (cfgOf caps enabled).quotedUTF8 = utf8Quoted ⟨caps, enabled⟩ := by
  unfold cfgOf utf8Quoted
  simp only [has_rev2, has_utf8Accept]

/-- what `validQuoted` guarantees, byte by byte -/
theorem validQuoted_bytes (cfg : Cfg) (s : Wire.Bytes) (h : validQuoted cfg s = true) :
    ∀ b ∈ s, b ≠ 0 ∧ b ≠ 13 ∧ b ≠ 10 ∧ (b ≥ 128 → cfg.quotedUTF8 = true) := by
  unfold validQuoted at h
  simp only [Bool.and_eq_true, List.all_eq_true, decide_eq_true_eq, Bool.or_eq_true, ne_eq] at h
  intro b hb
  have := h.2 b hb
  refine ⟨this.1.1.1, this.1.1.2, this.1.2, ?_⟩
  intro h8
  cases this.2 with
  | inl q => exact q
  | inr l => omega

end GoImap.ClientSyntaxLemmas
