/- Helper lemmas for C20: the position-set matcher of the Spec decides `Matches`. -/
import GoImap.Lemmas.ListMatch
namespace GoImap.ListMatchLemmas
open GoImap.ListMatch GoImap.ListMatchSpec

/-! ### shape of a wildcard byte -/

theorem isWild_iff (c : B) : isWild c = true ↔ c = 42 ∨ c = 37 := by
  simp [isWild]

theorem isWild_false_iff (c : B) : isWild c = false ↔ c ≠ 42 ∧ c ≠ 37 := by
  simp [isWild]

/-! ### basic facts about `Matches` -/

/-- a wildcard may stand for the empty sequence -/
theorem Matches.skipWild {delim : Option B} {w : B} {ps name : List B}
    (hw : isWild w = true) (h : Matches delim ps name) : Matches delim (w :: ps) name := by
  rcases (isWild_iff w).mp hw with rfl | rfl
  · exact .star ps [] name name rfl h
  · exact .pct ps [] name name rfl (by intro d _; simp) h

/-- a whole prefix of wildcards may stand for the empty sequence -/
theorem Matches.skipWilds {delim : Option B} {ws ps name : List B}
    (hw : ∀ w ∈ ws, isWild w = true) (h : Matches delim ps name) : Matches delim (ws ++ ps) name := by
  induction ws with
  | nil => exact h
  | cons w ws ih =>
    exact Matches.skipWild (hw w (by simp)) (ih (fun x hx => hw x (List.mem_cons_of_mem _ hx)))

/-- '*' absorbs one more byte -/
theorem Matches.starCons {delim : Option B} {ps ns : List B} (b : B)
    (h : Matches delim (42 :: ps) ns) : Matches delim (42 :: ps) (b :: ns) := by
  cases h with
  | lit _ _ _ hnw _ => simp [isWild] at hnw
  | star _ pre ns' _ he hm => exact .star ps (b :: pre) ns' _ (by simp [he]) hm

/-- '%' absorbs one more byte that is not the delimiter -/
theorem Matches.pctCons {delim : Option B} {ps ns : List B} (b : B) (hb : delim ≠ some b)
    (h : Matches delim (37 :: ps) ns) : Matches delim (37 :: ps) (b :: ns) := by
  cases h with
  | lit _ _ _ hnw _ => simp [isWild] at hnw
  | pct _ pre ns' _ he hd hm =>
    refine .pct ps (b :: pre) ns' _ (by simp [he]) ?_ hm
    intro d hdd hmem
    rcases List.mem_cons.mp hmem with rfl | hmem
    · exact hb hdd
    · exact hd d hdd hmem

theorem Matches.nil_pat {delim : Option B} {name : List B} (h : Matches delim [] name) : name = [] := by
  cases h; rfl

/-! ### the epsilon closure -/

theorem self_mem_closure (p : List B) : p ∈ closure p := by
  cases p with
  | nil => simp [closure]
  | cons c ps =>
    simp only [closure]
    split <;> simp

theorem mem_closure_cons_of_wild {c : B} {ps st : List B} (hw : isWild c = true)
    (h : st ∈ closure ps) : st ∈ closure (c :: ps) := by
  simp only [closure, hw, if_true]
  exact List.mem_cons_of_mem _ h

/-- a state of the closure is the pattern minus a prefix of wildcards -/
theorem mem_closure {p st : List B} (h : st ∈ closure p) :
    ∃ ws, (∀ w ∈ ws, isWild w = true) ∧ p = ws ++ st := by
  induction p with
  | nil =>
    simp only [closure, List.mem_singleton] at h
    exact ⟨[], by simp, by simp [h]⟩
  | cons c ps ih =>
    simp only [closure] at h
    split at h
    · rename_i hw
      rcases List.mem_cons.mp h with rfl | h
      · exact ⟨[], by simp, rfl⟩
      · obtain ⟨ws, hws, rfl⟩ := ih h
        refine ⟨c :: ws, ?_, rfl⟩
        intro w hwm
        rcases List.mem_cons.mp hwm with rfl | hwm
        · exact hw
        · exact hws w hwm
    · simp only [List.mem_singleton] at h
      exact ⟨[], by simp, by simp [h]⟩

theorem Matches.of_closure {delim : Option B} {p st name : List B}
    (hst : st ∈ closure p) (h : Matches delim st name) : Matches delim p name := by
  obtain ⟨ws, hws, rfl⟩ := mem_closure hst
  exact Matches.skipWilds hws h

/-! ### the simulation, one state at a time -/

/-- `Direct delim name st`: the simulation can go from the (already closed) state `st` to the
    accepting state `[]` by consuming exactly `name` -/
def Direct (delim : Option B) : List B → List B → Prop
  | [], st => st = []
  | b :: ns, st => ∃ st', st' ∈ stepOne delim b st ∧ ∃ st'', st'' ∈ closure st' ∧ Direct delim ns st''

theorem mem_stepAll {delim : Option B} {b : B} {sts : List (List B)} {st'' : List B} :
    st'' ∈ stepAll delim b sts ↔
      ∃ st, st ∈ sts ∧ ∃ st', st' ∈ stepOne delim b st ∧ st'' ∈ closure st' := by
  simp only [stepAll, List.mem_eraseDups, List.mem_flatMap]

theorem run_any_iff (delim : Option B) (name : List B) (sts : List (List B)) :
    (run delim name sts).any List.isEmpty = true ↔ ∃ st, st ∈ sts ∧ Direct delim name st := by
  induction name generalizing sts with
  | nil =>
    simp only [run, List.any_eq_true, Direct, List.isEmpty_iff]
  | cons b bs ih =>
    simp only [run, ih, Direct, mem_stepAll]
    constructor
    · rintro ⟨st'', ⟨st, hst, st', hst', hcl⟩, hd⟩
      exact ⟨st, hst, st', hst', st'', hcl, hd⟩
    · rintro ⟨st, hst, st', hst', st'', hcl, hd⟩
      exact ⟨st'', ⟨st, hst, st', hst', hcl⟩, hd⟩

/-- soundness of one simulation path -/
theorem Direct.matches {delim : Option B} {name st : List B} (h : Direct delim name st) :
    Matches delim st name := by
  induction name generalizing st with
  | nil =>
    simp only [Direct] at h
    subst h; exact .nil
  | cons b ns ih =>
    simp only [Direct] at h
    obtain ⟨st', hst', st'', hcl, hd⟩ := h
    have hm : Matches delim st' ns := Matches.of_closure hcl (ih hd)
    cases st with
    | nil => simp [stepOne] at hst'
    | cons c ps =>
      simp only [stepOne] at hst'
      split at hst'
      · rename_i hc
        subst hc
        simp only [List.mem_singleton] at hst'
        subst hst'
        exact Matches.starCons b hm
      · rename_i hc42
        split at hst'
        · rename_i hc
          subst hc
          split at hst'
          · simp at hst'
          · rename_i hdl
            simp only [List.mem_singleton] at hst'
            subst hst'
            exact Matches.pctCons b hdl hm
        · rename_i hc37
          split at hst'
          · rename_i hc
            subst hc
            simp only [List.mem_singleton] at hst'
            subst hst'
            exact .lit c _ ns ((isWild_false_iff c).mpr ⟨hc42, hc37⟩) hm
          · simp at hst'

/-- the closed state set reached after a wildcard has absorbed `pre` -/
theorem direct_wild_prefix {delim : Option B} {c : B} {ps ns : List B} (hw : isWild c = true)
    (pre : List B) (hpre : c = 37 → ∀ d, delim = some d → d ∉ pre)
    (h : ∃ st, st ∈ closure ps ∧ Direct delim ns st) :
    ∃ st, st ∈ closure (c :: ps) ∧ Direct delim (pre ++ ns) st := by
  induction pre with
  | nil =>
    obtain ⟨st, hst, hd⟩ := h
    exact ⟨st, mem_closure_cons_of_wild hw hst, hd⟩
  | cons b pre ih =>
    obtain ⟨st, hst, hd⟩ := ih (fun h37 d hd hm => hpre h37 d hd (List.mem_cons_of_mem _ hm))
    refine ⟨c :: ps, self_mem_closure _, ?_⟩
    simp only [List.cons_append, Direct]
    refine ⟨c :: ps, ?_, st, hst, hd⟩
    simp only [stepOne]
    rcases (isWild_iff c).mp hw with rfl | rfl
    · simp
    · have hne : delim ≠ some b := fun hdl => hpre rfl b hdl (by simp)
      simp [hne]

/-- completeness of the simulation -/
theorem Matches.direct {delim : Option B} {p name : List B} (h : Matches delim p name) :
    ∃ st, st ∈ closure p ∧ Direct delim name st := by
  induction h with
  | nil => exact ⟨[], by simp [closure], by simp [Direct]⟩
  | lit c ps ns hnw _ ih =>
    refine ⟨c :: ps, self_mem_closure _, ?_⟩
    obtain ⟨st, hst, hd⟩ := ih
    obtain ⟨h42, h37⟩ := (isWild_false_iff c).mp hnw
    simp only [Direct]
    exact ⟨ps, by simp [stepOne, h42, h37], st, hst, hd⟩
  | star ps pre ns name he _ ih =>
    subst he
    exact direct_wild_prefix (by simp [isWild]) pre (by intro h; simp at h) ih
  | pct ps pre ns name he hd _ ih =>
    subst he
    exact direct_wild_prefix (by simp [isWild]) pre (fun _ => hd) ih

theorem matchNFA_iff_matches (delim : Option B) (pat name : List B) :
    matchNFA delim pat name = true ↔ Matches delim pat name := by
  simp only [matchNFA, run_any_iff]
  constructor
  · rintro ⟨st, hst, hd⟩
    exact Matches.of_closure hst hd.matches
  · exact Matches.direct

end GoImap.ListMatchLemmas
