/-
  C02 helper lemmas: LIST — selection options, reference, pattern (a mailbox name read by
  `readListMailbox`), return options with the nested STATUS item list.
-/
import GoImap.Lemmas.CmdGrammarAppend
namespace GoImap.CmdLemmas
open GoImap.CmdGrammar GoImap.CmdSpec GoImap.Utf7 GoImap.Utf7Lemmas

/-! ### selection options -/

inductive SelItem where
  | subscribed | remote | recursive
deriving DecidableEq, Repr

def SelItem.name : SelItem → String
  | .subscribed => "SUBSCRIBED" | .remote => "REMOTE" | .recursive => "RECURSIVEMATCH"

def SelItem.wire (a : SelItem) : Wire := kw a.name

def SelItem.set (o : ListOpts) : SelItem → ListOpts
  | .subscribed => { o with selSubscribed := true }
  | .remote => { o with selRemote := true }
  | .recursive => { o with selRecursive := true }

def selItems (o : ListOpts) : List SelItem :=
  (if o.selSubscribed then [.subscribed] else []) ++ (if o.selRemote then [.remote] else []) ++
  (if o.selRecursive then [.recursive] else [])

theorem listSelectOpts_eq (o : ListOpts) (h : o.selSpecialUse = false) : listSelectOpts o = (selItems o).map SelItem.wire := by
  obtain ⟨a, b, c, d, e, f, g, i⟩ := o
  simp only at h
  subst h
  cases a <;> cases b <;> cases c <;> rfl

theorem selitem_chars (a : SelItem) : str a.name ≠ [] ∧ ∀ c ∈ str a.name, isAtomChar c = true := by
  cases a <;> decide

theorem pAString_atom (t : Str) (rest : Wire) (hne : t ≠ []) (h : ∀ c ∈ t, isAtomChar c = true)
    (hs : Stops isAtomChar rest) : pAString (atom t ++ rest) = .ok (t, rest) := by
  cases t with
  | nil => exact absurd rfl hne
  | cons c t =>
    have := pAtom_atom (c :: t) rest hne h hs
    simp only [atom, List.map_cons, List.cons_append] at this ⊢
    simpa [pAString] using this

theorem selItemSpec : ItemSpec pSelectOpt SelItem.wire SelItem.set (fun _ => True) (Stops isAtomChar) where
  parse := by
    intro st a tail _ hok
    have hc := selitem_chars a
    simp only [pSelectOpt, SelItem.wire, kw, pAString_atom _ tail hc.1 hc.2 hok, bind, Except.bind]
    cases a <;> simp (decide := true) [SelItem.name, SelItem.set, pure, Except.pure]
  okClose := fun rest => stops_b _ 41 (by decide) rest
  okSp := fun rest => stops_sp_atom rest
  notEol := fun a tail _ => notEol_atom _ tail (selitem_chars a).1 (selitem_chars a).2
  notClose := by
    intro a tail _
    cases a <;> simp [SelItem.wire, SelItem.name, kw, str, atom, special]
  nonEmpty := by
    intro a _
    cases a <;> simp [SelItem.wire, SelItem.name, kw, str, atom]

/-! ### return options -/

inductive RetItem where
  | subscribed | children | status (l : List SItem)

def RetItem.wire : RetItem → Wire
  | .subscribed => kw "SUBSCRIBED"
  | .children => kw "CHILDREN"
  | .status l => kw "STATUS" ++ sp ++ wList (l.map SItem.wire)

def RetItem.set (o : ListOpts) : RetItem → ListOpts
  | .subscribed => { o with retSubscribed := true }
  | .children => { o with retChildren := true }
  | .status l => { o with retStatus := some (l.foldl SItem.set {}) }

def retItems (o : ListOpts) : List RetItem :=
  (if o.retSubscribed then [.subscribed] else []) ++ (if o.retChildren then [.children] else []) ++
  (match o.retStatus with | none => [] | some st => [.status (sItems st)])

theorem retItemSpec : ItemSpec pReturnOpt RetItem.wire RetItem.set (fun _ => True) (Stops isAtomChar) where
  parse := by
    intro st a tail _ hok
    cases a with
    | subscribed =>
      simp only [pReturnOpt, RetItem.wire, kw, pAtom_atom (str "SUBSCRIBED") tail (by decide) (by decide) hok, bind, Except.bind]
      simp (decide := true) [RetItem.set, pure, Except.pure]
    | children =>
      simp only [pReturnOpt, RetItem.wire, kw, pAtom_atom (str "CHILDREN") tail (by decide) (by decide) hok, bind, Except.bind]
      simp (decide := true) [RetItem.set, pure, Except.pure]
    | status l =>
      have hl := pList_wList statusItemSpec l (fun _ _ => trivial) {} tail
      simp only [pReturnOpt, RetItem.wire, kw, List.append_assoc,
        pAtom_atom (str "STATUS") _ (by decide) (by decide) (stops_sp_atom _), bind, Except.bind]
      have hu : upper (str "STATUS") = str "STATUS" := by decide
      simp (decide := true) only [hu, pSP_sp _ (notEol_wList _ _), hl]
      simp (decide := true) [RetItem.set, pure, Except.pure]
  okClose := fun rest => stops_b _ 41 (by decide) rest
  okSp := fun rest => stops_sp_atom rest
  notEol := by
    intro a tail _
    cases a <;> simp [RetItem.wire, kw, str, atom, NotEol]
  notClose := by
    intro a tail _
    cases a <;> simp [RetItem.wire, kw, str, atom, special]
  nonEmpty := by
    intro a _
    cases a <;> simp [RetItem.wire, kw, str, atom]

/-- the RETURN part of the command line as one parenthesised list of return items -/
def returnWire (o : ListOpts) : Wire :=
  if retItems o = [] then [] else sp ++ (kw "RETURN" ++ (sp ++ wList ((retItems o).map RetItem.wire)))

theorem linearise_return (o : ListOpts) (h : o.retSpecialUse = false)
    (hst : ∀ st, o.retStatus = some st → st.highestModSeq = false) :
    linearise (listReturnSegs o) = returnWire o := by
  obtain ⟨a, b, c, d, e, f, g, i⟩ := o
  simp only at h hst
  subst h
  cases i with
  | none =>
    cases e <;> cases f <;>
      simp [listReturnSegs, returnWire, retItems, linearise, Seg.lin, RetItem.wire, wList, joinSp]
  | some st =>
    have hs := statusItems_eq st (hst st rfl)
    cases e <;> cases f <;>
      simp [listReturnSegs, returnWire, retItems, linearise, Seg.lin, RetItem.wire, wList, joinSp, hs]

theorem foldl_retItems (o1 o : ListOpts) (h : o.retSpecialUse = false)
    (hst : ∀ st, o.retStatus = some st → st.highestModSeq = false)
    (h1 : o1 = { o with retSubscribed := false, retChildren := false, retStatus := none }) :
    (retItems o).foldl RetItem.set o1 = o := by
  obtain ⟨a, b, c, d, e, f, g, i⟩ := o
  simp only at h hst
  subst h h1
  cases i with
  | none => cases e <;> cases f <;> simp [retItems, RetItem.set]
  | some st =>
    have := foldl_sItems st (hst st rfl)
    cases e <;> cases f <;> simp [retItems, RetItem.set, this]

theorem foldl_selItems (o : ListOpts) (h : o.selSpecialUse = false) :
    (selItems o).foldl SelItem.set {} =
      { o with retSubscribed := false, retChildren := false, retStatus := none, retSpecialUse := false } := by
  obtain ⟨a, b, c, d, e, f, g, i⟩ := o
  simp only at h
  subst h
  cases a <;> cases b <;> cases c <;> simp [selItems, SelItem.set]

/-! ### the pattern -/

theorem decode_inbox : Utf7.decode inboxStr = some inboxStr := by decide

/-- Encoder.Mailbox (after the repair of F14) then readListMailbox -/
theorem pListMailbox_wMailbox (m : List Nat) (rest : Wire) (hm : MailboxOK m) (hs : Stops isListChar rest) :
    pListMailbox (wMailbox m ++ rest) = .ok (canonMailbox m, rest) := by
  unfold pListMailbox wMailbox canonMailbox
  cases hi : isInbox m with
  | true =>
    have hall : ∀ c ∈ inboxStr, isListChar c = true := by decide
    have hsp := span_atom isListChar inboxStr rest hall hs
    have e : atom inboxStr ++ rest = Item.b 73 :: (atom [78, 66, 79, 88] ++ rest) := by simp [atom, inboxStr]
    simp only [if_true]
    rw [e] at hsp ⊢
    simp only [hsp]
    have hne : inboxStr ≠ [] := by decide
    simp [hne, bind, Except.bind, decode_inbox, pure, Except.pure]
  | false =>
    have hfit : ¬ (encode m).length > maxBuffered := by
      have := hm.fits
      simp only [mboxOk, hi, Bool.false_or, decide_eq_true_eq] at this
      omega
    have hd : decode (encode m) = some m := by
      have := dec_enc m [] (by simp) hm.scalar
      simpa [decode, encode] using this
    simp [hfit, bind, Except.bind, hd, pure, Except.pure]

theorem special_wMailbox (c : Nat) (hc : c ≠ 73) (m : List Nat) (rest : Wire) : special c (wMailbox m ++ rest) = none := by
  unfold wMailbox
  split_ifs
  · have : ¬ (73 = c) := fun e => hc e.symm
    simp [atom, inboxStr, special, this]
  · simp [special]

theorem canonMailbox_eq_nil (m : List Nat) : canonMailbox m = [] ↔ m = [] := by
  unfold canonMailbox
  split_ifs with h
  · constructor
    · intro h'; exact absurd h' (by decide)
    · intro h'; subst h'; revert h; decide
  · rfl


/-! ### the command -/

theorem stops_listChar_crlf : Stops isListChar crlf := by simp [crlf, Stops]; decide
theorem stops_listChar_sp (r : Wire) : Stops isListChar (sp ++ r) := stops_sp _ (by decide) _

/-- the domain of the LIST theorem: the options the server implements (no SPECIAL-USE, no HIGHESTMODSEQ in
    RETURN (STATUS …)), RECURSIVEMATCH only together with SUBSCRIBED -/
structure ListOK (o : ListOpts) : Prop where
  noSelSU : o.selSpecialUse = false
  noRetSU : o.retSpecialUse = false
  recSub : o.selRecursive = true → o.selSubscribed = true
  status : ∀ st, o.retStatus = some st → st.highestModSeq = false

/-- the part of LIST after the pattern: nothing, or RETURN (…) -/
theorem pListRet_w (o1 o : ListOpts) (ho : ListOK o)
    (h1 : o1 = { o with retSubscribed := false, retChildren := false, retStatus := none }) :
    pListRet o1 (returnWire o ++ crlf) = .ok (o, crlf) := by
  unfold returnWire pListRet
  by_cases hnil : retItems o = []
  · have : o1 = o := by
      have := foldl_retItems o1 o ho.noRetSU ho.status h1
      rw [hnil] at this
      simpa using this
    simp [hnil, decSP_crlf, this, pure, Except.pure]
  · have hl := pList_wList retItemSpec (retItems o) (fun _ _ => trivial) o1 crlf
    rw [foldl_retItems o1 o ho.noRetSU ho.status h1] at hl
    have hk : ∀ r : Wire, decSP (sp ++ (atom (str "RETURN") ++ r)) = (true, atom (str "RETURN") ++ r) := by
      intro r; simp [sp, str, atom, decSP]
    have hu : upper (str "RETURN") = str "RETURN" := by decide
    simp only [hnil, if_false, List.append_assoc, kw, hk, if_true,
      pAtom_atom (str "RETURN") _ (by decide) (by decide) (stops_sp_atom _), bind, Except.bind, hu, ne_eq, not_true_eq_false,
      pSP_sp _ (notEol_wList _ _), hl]

theorem pListSel_none (m : List Nat) (rest : Wire) : pListSel (wMailbox m ++ rest) = .ok ({}, wMailbox m ++ rest) := by
  simp [pListSel, pListOpt, special_wMailbox 40 (by decide), bind, Except.bind, pure, Except.pure]

theorem pListSel_some (o : ListOpts) (ho : ListOK o) (m : List Nat) (rest : Wire) :
    pListSel (wList ((selItems o).map SelItem.wire) ++ (sp ++ (wMailbox m ++ rest))) =
      .ok ({ o with retSubscribed := false, retChildren := false, retStatus := none }, wMailbox m ++ rest) := by
  have hl := pListOpt_wList selItemSpec (selItems o) (fun _ _ => trivial) {} (sp ++ (wMailbox m ++ rest))
  rw [foldl_selItems o ho.noSelSU] at hl
  have ho1 : ({ o with retSubscribed := false, retChildren := false, retStatus := none, retSpecialUse := false } : ListOpts) =
      { o with retSubscribed := false, retChildren := false, retStatus := none } := by
    obtain ⟨a, b, c, d, e, f, g, i⟩ := o
    have := ho.noRetSU
    simp only at this
    subst this
    rfl
  rw [ho1] at hl
  simp only [pListSel, hl, bind, Except.bind, pSP_sp _ (notEol_wMailbox _ _)]
  rfl

theorem pListPats_w (pat : List Nat) (rest : Wire) (hp : MailboxOK pat) (hs : Stops isListChar rest) :
    pListPats (wMailbox pat ++ rest) = .ok ((if canonMailbox pat = [] then [] else [canonMailbox pat]), rest) := by
  have hnone : pListOpt pPatternItem [] (wMailbox pat ++ rest) = .ok (none, wMailbox pat ++ rest) := by
    simp [pListOpt, special_wMailbox 40 (by decide)]
  simp only [pListPats, hnone, bind, Except.bind, pListMailbox_wMailbox pat rest hp hs]
  rfl

theorem list_fidelity (cfg : Cfg) (tag : Nat) (ref pat : List Nat) (o : ListOpts)
    (hr : MailboxOK ref) (hp : MailboxOK pat) (ho : ListOK o) :
    roundTrip {} cfg tag (.list ref [pat] o) = .calls (sem cfg (.list ref [pat] o)) := by
  unfold roundTrip
  have hw : wBody {} cfg (.list ref [pat] o) =
      .ok [[.fixed (kw "LIST" ++ (if listSelectOpts o = [] then [] else sp ++ wList (listSelectOpts o)) ++ sp ++ wMailbox ref ++ sp ++ wMailbox pat)]
            ++ listReturnSegs o] := by
    simp [wBody]
  rw [printCmd_single _ _ _ _ _ hw]
  have hlin : linearise ([Seg.fixed ([.b 84] ++ atom (digits tag) ++ sp)] ++
      ([Seg.fixed (kw "LIST" ++ (if listSelectOpts o = [] then [] else sp ++ wList (listSelectOpts o)) ++ sp ++ wMailbox ref ++ sp ++ wMailbox pat)]
        ++ listReturnSegs o) ++ [Seg.fixed crlf]) =
      tagW tag ++ (atom (str "LIST") ++ ((if selItems o = [] then [] else sp ++ wList ((selItems o).map SelItem.wire)) ++
        (sp ++ (wMailbox ref ++ (sp ++ (wMailbox pat ++ (returnWire o ++ crlf))))))) := by
    have := linearise_return o ho.noRetSU ho.status
    simp only [linearise, List.flatMap_append, List.flatMap_cons, List.flatMap_nil] at this ⊢
    rw [this, listSelectOpts_eq o ho.noSelSU]
    by_cases hs : selItems o = [] <;> simp [Seg.lin, tagW, kw, hs]
  simp only [List.map_cons, List.map_nil, hlin, parseCmds, bind, Except.bind]
  have hstop : Stops isAtomChar ((if selItems o = [] then ([] : Wire) else sp ++ wList ((selItems o).map SelItem.wire)) ++
        (sp ++ (wMailbox ref ++ (sp ++ (wMailbox pat ++ (returnWire o ++ crlf)))))) := by
    by_cases hs : selItems o = [] <;> simp only [hs, if_true, if_false, List.nil_append, List.append_assoc] <;> exact stops_sp_atom _
  rw [parse_plain cfg tag (str "LIST") _ (isName_kw "LIST") (by decide) hstop, dispatch_list]
  -- what follows the pattern stops a list-mailbox token
  have hstopPat : Stops isListChar (returnWire o ++ crlf) := by
    unfold returnWire
    by_cases hnil : retItems o = []
    · simpa [hnil] using stops_listChar_crlf
    · simp only [hnil, if_false, List.append_assoc]; exact stops_listChar_sp _
  have hpat := pListPats_w pat (returnWire o ++ crlf) hp hstopPat
  have htail := pListRet_w { o with retSubscribed := false, retChildren := false, retStatus := none } o ho rfl
  have hrec : (o.selRecursive && !o.selSubscribed) = false := by
    cases h1 : o.selRecursive <;> cases h2 : o.selSubscribed <;> simp
    exact absurd (ho.recSub h1) (by simp [h2])
  have hsem : sem cfg (.list ref [pat] o) = [.list (canonMailbox ref) (if canonMailbox pat = [] then [] else [canonMailbox pat]) o] := by
    by_cases hpn : pat = []
    · subst hpn; simp [sem, semRaw, canon, canonMailbox_eq_nil]
    · have : canonMailbox pat ≠ [] := fun h => hpn ((canonMailbox_eq_nil pat).mp h)
      simp [sem, semRaw, canon, hpn, this]
  have hsel : pListSel ((if selItems o = [] then ([] : Wire) else wList ((selItems o).map SelItem.wire) ++ sp) ++
        (wMailbox ref ++ (sp ++ (wMailbox pat ++ (returnWire o ++ crlf))))) =
      .ok ({ o with retSubscribed := false, retChildren := false, retStatus := none }, wMailbox ref ++ (sp ++ (wMailbox pat ++ (returnWire o ++ crlf)))) := by
    by_cases hs : selItems o = []
    · have ho1 : ({} : ListOpts) = { o with retSubscribed := false, retChildren := false, retStatus := none } := by
        have := foldl_selItems o ho.noSelSU
        rw [hs] at this
        simp only [List.foldl_nil] at this
        rw [this]
        obtain ⟨a, b, c, d, e, f, g, i⟩ := o
        have := ho.noRetSU
        simp only at this
        subst this
        rfl
      simp only [hs, if_true, List.nil_append, pListSel_none, ho1]
    · simp only [hs, if_false, List.append_assoc]
      exact pListSel_some o ho ref _
  have hne : NotEol ((if selItems o = [] then ([] : Wire) else wList ((selItems o).map SelItem.wire) ++ sp) ++
        (wMailbox ref ++ (sp ++ (wMailbox pat ++ (returnWire o ++ crlf))))) := by
    by_cases hs : selItems o = []
    · simpa [hs] using notEol_wMailbox ref _
    · simp only [hs, if_false, List.append_assoc]; exact notEol_wList _ _
  have hshape : ((if selItems o = [] then ([] : Wire) else sp ++ wList ((selItems o).map SelItem.wire)) ++
        (sp ++ (wMailbox ref ++ (sp ++ (wMailbox pat ++ (returnWire o ++ crlf)))))) =
      sp ++ ((if selItems o = [] then ([] : Wire) else wList ((selItems o).map SelItem.wire) ++ sp) ++
        (wMailbox ref ++ (sp ++ (wMailbox pat ++ (returnWire o ++ crlf))))) := by
    by_cases hs : selItems o = [] <;> simp [hs]
  rw [hshape]
  simp only [one, pListCmd, bind, Except.bind, pSP_sp _ hne, hsel, pMailbox_wMailbox ref _ hr (stops_sp_atom _),
    pSP_sp _ (notEol_wMailbox _ _), hpat, htail, pCRLF_crlf_nil, hrec, hsem]
  simp [pure, Except.pure]

end GoImap.CmdLemmas
