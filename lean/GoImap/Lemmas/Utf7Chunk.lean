/- C16 helper lemmas: a non-final `decT` call (atEOF = false) that stops with ok / short source
   leaves a state from which the one-shot decoder can be resumed. -/
import GoImap.Lemmas.Utf7Trans
namespace GoImap.Utf7Lemmas
open GoImap.Utf7

/-- the bytes the segment scan lets through -/
def Clean (acc : BytesN) : Prop := ∀ c ∈ acc, c ≠ 45 ∧ ¬ (c = 13 ∨ c = 10)

def CleanSeg (sg : Option BytesN) : Prop := ∀ acc, sg = some acc → Clean acc

theorem dec_resume (a : Bool) (b : BytesN) : ∀ (acc acc0 : BytesN), Clean acc →
    dec a (some acc0) (acc ++ b) = dec a (some (acc0 ++ acc)) b
  | [], acc0, _ => by simp
  | c :: acc, acc0, h => by
    have hc := h c (by simp)
    simp only [List.cons_append, dec, hc.1, hc.2, if_false]
    rw [dec_resume a b acc (acc0 ++ [c]) (fun x hx => h x (by simp [hx]))]
    simp

/-- re-reading a pending "&acc" from ASCII state gets back to the scanning state -/
theorem dec_pend (a : Bool) (acc b : BytesN) (h : Clean acc) :
    dec a none (38 :: acc ++ b) = dec a (some acc) b := by
  rw [List.cons_append, dec_amp, dec_resume a b acc [] h, List.nil_append]

theorem decT_chunk (cap : Nat) : ∀ (a : BytesN) (ascii : Bool) (sg : Option BytesN)
    (nDst nSrc : Nat) (out : BytesN) (r : TRes),
    decT cap false ascii sg nDst nSrc out a = r → CleanSeg sg →
    (r.err = .ok ∨ r.err = .shortSrc) →
    ∃ cs1 consumed rest, r.out = out ++ cs1.flatMap utf8enc ∧ pend sg ++ a = consumed ++ rest ∧
      r.nSrc = nSrc + consumed.length ∧
      ∀ b, dec ascii sg (a ++ b) = (dec r.ascii none (rest ++ b)).map (cs1 ++ ·)
  | [], ascii, none, nDst, nSrc, out, r, hr, _, _ => by
    simp only [decT, Bool.false_eq_true, if_false] at hr
    subst hr
    exact ⟨[], [], [], by simp, by simp [pend], by simp, by intro b; simp⟩
  | [], ascii, some acc, nDst, nSrc, out, r, hr, hcl, _ => by
    simp only [decT, Bool.false_eq_true, if_false] at hr
    subst hr
    refine ⟨[], [], 38 :: acc, by simp, by simp [pend], by simp, ?_⟩
    intro b
    simp only [List.nil_append]
    rw [dec_pend ascii acc b (hcl acc rfl)]
    simp
  | x :: xs, ascii, none, nDst, nSrc, out, r, hr, _, herr => by
    simp only [decT] at hr
    split_ifs at hr with hp hx hsh
    · subst hr; simp at herr
    · subst hr; simp at herr
    · have hp' : printable x = true := by simpa using hp
      obtain ⟨cs1, consumed, rest, ho, hpend, hn, hdec⟩ :=
        decT_chunk cap xs true none (nDst + 1) (nSrc + 1) (out ++ [x]) r hr
          (by intro acc h; cases h) herr
      refine ⟨x :: cs1, x :: consumed, rest, ?_, ?_, ?_, ?_⟩
      · rw [ho]; simp [utf8enc_printable hp']
      · simp only [pend, List.nil_append] at hpend ⊢; rw [hpend]; rfl
      · rw [hn]; simp only [List.length_cons]; omega
      · intro b
        simp only [List.cons_append, dec, hp', Bool.not_true, Bool.false_eq_true, if_false, ne_eq,
          hx, not_false_eq_true, if_true]
        rw [hdec b, Option.map_map]
        rfl
    · have hx' : x = 38 := by
        by_cases h38 : x = 38
        · exact h38
        · exact absurd h38 hx
      subst hx'
      obtain ⟨cs1, consumed, rest, ho, hpend, hn, hdec⟩ :=
        decT_chunk cap xs ascii (some []) nDst nSrc out r hr
          (by intro acc h; cases h; intro c hc; simp at hc) herr
      refine ⟨cs1, consumed, rest, ho, ?_, hn, ?_⟩
      · simp only [pend, List.nil_append, List.cons_append] at hpend ⊢; exact hpend
      · intro b
        rw [List.cons_append, dec_amp, hdec b]
  | x :: xs, ascii, some acc, nDst, nSrc, out, r, hr, hcl, herr => by
    simp only [decT] at hr
    by_cases h45 : x = 45
    · subst h45
      simp only [if_true] at hr
      cases acc with
      | nil =>
        simp only [List.isEmpty_nil, if_true] at hr
        split_ifs at hr with hsh
        · subst hr; simp at herr
        · obtain ⟨cs1, consumed, rest, ho, hpend, hn, hdec⟩ :=
            decT_chunk cap xs true none (nDst + 1) (nSrc + 2) (out ++ [38]) r hr
              (by intro acc h; cases h) herr
          refine ⟨38 :: cs1, 38 :: 45 :: consumed, rest, ?_, ?_, ?_, ?_⟩
          · rw [ho]; simp [utf8enc]
          · simp only [pend, List.nil_append, List.cons_append] at hpend ⊢; rw [hpend]
          · rw [hn]; simp only [List.length_cons]; omega
          · intro b
            simp only [List.cons_append, dec, if_true, decSeg, List.isEmpty_nil]
            rw [hdec b, Option.map_map]
            rfl
      | cons y ys =>
        simp only [List.isEmpty_cons, Bool.false_eq_true, if_false] at hr
        split_ifs at hr with ha
        · subst hr; simp at herr
        · have ha' : ascii = true := by simpa using ha
          subst ha'
          cases hd : decodeSeg (y :: ys) with
          | none => simp only [hd] at hr; subst hr; simp at herr
          | some us =>
            simp only [hd] at hr
            split_ifs at hr with hsh
            · subst hr; simp at herr
            · obtain ⟨cs1, consumed, rest, ho, hpend, hn, hdec⟩ :=
                decT_chunk cap xs false none _ _ _ r hr (by intro acc h; cases h) herr
              refine ⟨us ++ cs1, 38 :: (y :: ys) ++ 45 :: consumed, rest, ?_, ?_, ?_, ?_⟩
              · rw [ho]; simp
              · simp only [pend, List.nil_append] at hpend ⊢; rw [hpend]; simp
              · rw [hn]; simp only [List.length_cons, List.length_append]; omega
              · intro b
                simp only [List.cons_append, dec, if_true, decSeg, List.isEmpty_cons,
                  Bool.false_eq_true, if_false, Bool.not_true, hd]
                rw [hdec b, Option.map_map]
                congr 1
                funext t
                simp
    · simp only [h45, if_false] at hr
      split_ifs at hr with hcr
      · subst hr; simp at herr
      · have hcl' : CleanSeg (some (acc ++ [x])) := by
          intro acc' h
          cases h
          intro c hc
          rcases List.mem_append.mp hc with hc | hc
          · exact hcl acc rfl c hc
          · simp only [List.mem_singleton] at hc; subst hc; exact ⟨h45, hcr⟩
        obtain ⟨cs1, consumed, rest, ho, hpend, hn, hdec⟩ :=
          decT_chunk cap xs ascii (some (acc ++ [x])) nDst nSrc out r hr hcl' herr
        refine ⟨cs1, consumed, rest, ho, ?_, hn, ?_⟩
        · simp only [pend, List.cons_append, List.append_assoc, List.nil_append] at hpend ⊢
          exact hpend
        · intro b
          simp only [List.cons_append, dec, h45, hcr, if_false]
          exact hdec b

/-- the final call (atEOF) with ample room agrees with the one-shot decoder from the same flag -/
theorem decTransform_eof (cap : Nat) (src : BytesN) (a : Bool) (hcap : 2 * src.length ≤ cap) :
    match dec a none src with
    | some cs => decTransform cap true a src =
        ⟨(cs.flatMap utf8enc).length, src.length, .ok, cs.flatMap utf8enc, true⟩
    | none => (decTransform cap true a src).err = .invalid := by
  cases hd : dec a none src with
  | none =>
    exact decT_eof_none cap src a none 0 0 [] hd (by simp only [pendLen]; omega)
  | some cs =>
    have hlen := dec_out_length src a none cs hd
    simp only [pendLen] at hlen
    have := decT_eof_some cap src a none 0 0 [] cs hd (by omega)
    simp only [pendLen, Nat.zero_add, List.nil_append] at this
    exact this

/-- a first call without atEOF that ends with ok / short source: what it wrote, where it stopped,
    and how the one-shot decoder continues from there -/
theorem decTransform_chunk (cap : Nat) (a : BytesN)
    (h1 : (decTransform cap false true a).err = .ok ∨ (decTransform cap false true a).err = .shortSrc) :
    ∃ cs1, (decTransform cap false true a).out = cs1.flatMap utf8enc ∧
      (decTransform cap false true a).nSrc ≤ a.length ∧
      ∀ b, decode (a ++ b) =
        (dec (decTransform cap false true a).ascii none
          (a.drop (decTransform cap false true a).nSrc ++ b)).map (cs1 ++ ·) := by
  obtain ⟨cs1, consumed, rest, ho, hpend, hn, hdec⟩ :=
    decT_chunk cap a true none 0 0 [] _ rfl (by intro acc h; cases h) h1
  simp only [pend, List.nil_append] at hpend
  simp only [Nat.zero_add] at hn
  refine ⟨cs1, by simpa [decTransform] using ho, ?_, ?_⟩
  · unfold decTransform; rw [hn, hpend]; simp
  · intro b
    have hdrop : a.drop consumed.length = rest := by rw [hpend]; simp
    unfold decTransform decode
    rw [hn, hdrop]
    exact hdec b

end GoImap.Utf7Lemmas
