/-
  C08 helper lemmas, part 5: a poll of one connection. The updates it dequeues are, by C07, the
  delivery of the session's due ghost updates; rendered on the wire they are accepted by the
  specification's announced view, which stays slot-by-slot the ghost view.
-/
import GoImap.Lemmas.ViewsDispatch
namespace GoImap.ViewsLemmas
open GoImap.Tracker GoImap.TrackerSpec GoImap.TrackerLemmas GoImap.Views GoImap.ViewsSpec

theorem set_getD_self (A : List View) (c : Nat) : A.set c (A.getD c []) = A := by
  apply List.ext_getElem?
  intro i
  by_cases hi : c = i
  · subst hi
    by_cases hc : c < A.length
    · rw [List.getElem?_set_self hc]
      simp [List.getD, List.getElem?_eq_getElem hc]
    · rw [List.getElem?_eq_none (by simp; omega), List.getElem?_eq_none (by omega)]
  · rw [List.getElem?_set_ne hi]

theorem getD_set_self (A : List View) {c : Nat} (hc : c < A.length) (v : View) : (A.set c v).getD c [] = v := by
  simp [List.getD, List.getElem?_set_self hc]

theorem getD_set_ne (A : List View) {c c1 : Nat} (hc : c ≠ c1) (v : View) : (A.set c v).getD c1 [] = A.getD c1 [] := by
  simp [List.getD, List.getElem?_set_ne hc]

/-- one session of mailbox `m` (that of connection `c`) changes its view and pending list, the
    connection its payloads, and the announced view of `c` follows -/
theorem ginv_session_update {st : Views.St} {G : List GSt} {A : List View} (h : GInv st G A) {m : Nat}
    {g : GSt} (hg : G[m]? = some g) {c : Nat} {cn : Conn}
    (hc : st.conns[c]? = some cn) (hsel : cn.sel = some m) {gs : GSess} (hgs : gs ∈ g.sess) (hid : gs.id = c)
    {b' : MBox} {g' : GSt} {v' : List Id} {p' : List GUpd} {cn' : Conn} {Ac' : View} (hmb : MbInv b' g')
    (hsess : g'.sess = g.sess.map fun x => if x.id = c then { x with view := v', pending := p' } else x)
    (hsel' : cn'.sel = some m) (hv : ViewRel Ac' v') (hp : PayRel cn'.pay p') :
    GInv ⟨st.mb.set m b', st.conns.set c cn'⟩ (G.set m g') (A.set c Ac') := by
  have hmlt : m < G.length := (List.getElem?_eq_some_iff.mp hg).1
  have hclt : c < st.conns.length := (List.getElem?_eq_some_iff.mp hc).1
  have hcA : c < A.length := by rw [← h.clen]; exact hclt
  refine ⟨by simp [h.mlen], ?_, by simp [h.clen], ?_, ?_⟩
  · intro m1 b1 g1 hb1 hg1
    change (st.mb.set m b')[m1]? = some b1 at hb1
    by_cases hm : m = m1
    · subst hm
      have e1 := getElem?_set_eq' hb1
      have e2 := getElem?_set_eq' hg1
      subst e1; subst e2; exact hmb
    · simp only [List.getElem?_set_ne hm] at hb1 hg1
      exact h.mb m1 b1 g1 hb1 hg1
  · intro c1 cn1 hc1
    change (st.conns.set c cn')[c1]? = some cn1 at hc1
    by_cases hcc : c = c1
    · subst hcc
      have e := getElem?_set_eq' hc1
      subst e
      rw [getD_set_self A hcA]
      unfold ConnInv
      rw [hsel']
      refine ⟨g', { gs with view := v', pending := p' }, by rw [List.getElem?_set_self hmlt], ?_, hid, hv, hp⟩
      rw [hsess]
      have := List.mem_map_of_mem (f := fun x => if x.id = c then { x with view := v', pending := p' } else x) hgs
      simpa [hid] using this
    · rw [List.getElem?_set_ne hcc] at hc1
      rw [getD_set_ne A hcc]
      have hold := h.conn c1 cn1 hc1
      unfold ConnInv at hold ⊢
      cases hs : cn1.sel with
      | none => rw [hs] at hold; exact hold
      | some m1 =>
        rw [hs] at hold
        simp only at hold ⊢
        obtain ⟨g1, gs1, hg1, hgs1, hid1, hv1, hp1⟩ := hold
        by_cases hm : m = m1
        · subst hm
          rw [hg] at hg1
          cases hg1
          refine ⟨g', gs1, by rw [List.getElem?_set_self hmlt], ?_, hid1, hv1, hp1⟩
          rw [hsess]
          have := List.mem_map_of_mem (f := fun x => if x.id = c then { x with view := v', pending := p' } else x) hgs1
          have hne : ¬ gs1.id = c := by rw [hid1]; exact fun e => hcc e.symm
          simpa [hne] using this
        · exact ⟨g1, gs1, by rw [List.getElem?_set_ne hm]; exact hg1, hgs1, hid1, hv1, hp1⟩
  · intro m1 g1 gs1 hg1 hgs1
    change ∃ cn, (st.conns.set c cn')[gs1.id]? = some cn ∧ cn.sel = some m1
    have key : ∀ (cid : Nat) cn0, st.conns[cid]? = some cn0 → cn0.sel = some m1 → (cid = c → m1 = m) →
        ∃ cn, (st.conns.set c cn')[cid]? = some cn ∧ cn.sel = some m1 := by
      intro cid cn0 hcn0 hs0 hcm
      by_cases hcc : c = cid
      · subst hcc
        exact ⟨cn', by rw [List.getElem?_set_self hclt], by rw [hsel', hcm rfl]⟩
      · exact ⟨cn0, by rw [List.getElem?_set_ne hcc]; exact hcn0, hs0⟩
    by_cases hm : m = m1
    · subst hm
      have e2 := getElem?_set_eq' hg1
      subst e2
      rw [hsess] at hgs1
      simp only [List.mem_map] at hgs1
      obtain ⟨gs0, hgs0, rfl⟩ := hgs1
      obtain ⟨cn0, hcn0, hs0⟩ := h.sess m g gs0 hg hgs0
      have hid0 : (if gs0.id = c then { gs0 with view := v', pending := p' } else gs0).id = gs0.id := by
        split <;> rfl
      rw [hid0]
      exact key _ cn0 hcn0 hs0 (fun _ => rfl)
    · rw [List.getElem?_set_ne hm] at hg1
      obtain ⟨cn0, hcn0, hs0⟩ := h.sess m1 g1 gs1 hg1 hgs1
      refine key _ cn0 hcn0 hs0 ?_
      intro hcid
      rw [hcid, hc] at hcn0
      cases hcn0
      rw [hsel] at hs0
      exact (Option.some.inj hs0).symm

/-- what a ghost poll does to the ghost state, under the invariant -/
theorem gstep_poll {b : MBox} {g : GSt} (h : MbInv b g) {gs : GSess} (hgs : gs ∈ g.sess) (allow : Bool) :
    ∃ q1 v1 t, deliverAll gs.view (dueOf gs.pending allow) = some (q1, v1) ∧
      step b.tr (.poll gs.id allow) = some (t, q1) ∧
      MbInv { b with tr := t } { g with sess := g.sess.map fun x => if x.id = gs.id then
        { x with view := v1, pending := gs.pending.drop (dueOf gs.pending allow).length } else x } ∧
      (allow = true → v1 = g.mbox ∧ gs.pending.drop (dueOf gs.pending allow).length = []) := by
  obtain ⟨s, _, _, hdel, _, _⟩ := sess_pair h hgs
  obtain ⟨q1, v1, q2, hd1, hd2, _⟩ := poll_split allow hdel
  have hf := find?_of_mem_nodup h.ids hgs
  have hgst : gstep g (.poll gs.id allow) = some ({ g with sess := g.sess.map fun x => if x.id = gs.id then
      { x with view := v1, pending := gs.pending.drop (dueOf gs.pending allow).length } else x }, q1) := by
    have hd1' : deliverAll gs.view (if allow = true then gs.pending else gs.pending.takeWhile fun u => !isExpunge u) =
        some (q1, v1) := hd1
    simp only [gstep, hf, hd1']
    rfl
  obtain ⟨t, hst, hinv⟩ := inv_step h.inv _ hgst
  refine ⟨q1, v1, t, hd1, hst, ⟨hinv, h.uids, h.next, ?_⟩, ?_⟩
  · have : (g.sess.map fun x => if x.id = gs.id then
        ({ x with view := v1, pending := gs.pending.drop (dueOf gs.pending allow).length } : GSess) else x).map (·.id) =
        g.sess.map (·.id) := by
      rw [List.map_map]
      apply List.map_congr_left
      intro x _
      simp only [Function.comp]
      split <;> rfl
    show (List.map (fun x : GSess => x.id) (g.sess.map _)).Nodup
    rw [this]; exact h.ids
  · intro ha
    subst ha
    simp only [dueOf, if_true, List.drop_length] at hd1 hd2 ⊢
    rw [hdel] at hd1
    simp only [Option.some.injEq, Prod.mk.injEq] at hd1
    exact ⟨hd1.2.symm, trivial⟩

/-- a poll of connection `c`: the specification accepts what is sent, and the invariant is kept -/
theorem ginv_poll {st : Views.St} {G : List GSt} {A : List View} (h : GInv st G A) {c : Nat} {allow : Bool}
    {st' : Views.St} {evs : List Ev} (hp : pollConn st c allow = some (st', evs)) (quiet sr : Bool)
    (hq : quiet = true → allow = false) :
    ∃ G' Ac', applyEvs quiet sr (A.getD c []) evs = .ok Ac' ∧ GInv st' G' (A.set c Ac') ∧
      (allow = true → ∀ cn m, st.conns[c]? = some cn → cn.sel = some m →
        ∃ g' gs', G'[m]? = some g' ∧ gs' ∈ g'.sess ∧ gs'.id = c ∧ gs'.view = g'.mbox ∧ gs'.pending = [] ∧
          ViewRel Ac' g'.mbox) := by
  rcases pollConn_some hp with ⟨rfl, rfl, hnone⟩ | ⟨cn, m, b, t, out, hc, hsel, hb, hstep, rfl, rfl⟩
  · refine ⟨G, A.getD c [], rfl, by rw [set_getD_self]; exact h, ?_⟩
    intro _ cn m hc hsel
    rw [hnone cn hc] at hsel
    cases hsel
  · simp only [getConn] at hc
    simp only [getMb] at hb
    have hci := h.conn c cn hc
    unfold ConnInv at hci
    rw [hsel] at hci
    obtain ⟨g, gs, hg, hgs, hid, hv, hpay⟩ := hci
    obtain ⟨q1, v1, t', hd1, hst, hmb', hall⟩ := gstep_poll (h.mb m b g hb hg) hgs allow
    rw [hid] at hst hmb'
    rw [hstep] at hst
    simp only [Option.some.injEq, Prod.mk.injEq] at hst
    obtain ⟨rfl, rfl⟩ := hst
    -- the due updates against the announced view
    have hpay' : cn.pay.map (·.1) = (fetchIds (dueOf gs.pending allow) ++
        fetchIds (gs.pending.drop (dueOf gs.pending allow).length)).map (· + 1) := by
      rw [← fetchIds_append, dueOf_append_drop]; exact hpay
    have hquiet : quiet = true → ∀ u ∈ dueOf gs.pending allow, isExpunge u = false := by
      intro hq' u hu
      have ha := hq hq'
      subst ha
      simp only [dueOf, Bool.false_eq_true, if_false] at hu
      have := takeWhile_all _ _ _ hu
      simpa using this
    obtain ⟨Ac', hacc, hv', hrest⟩ := deliverAll_applyEvs (quiet := quiet) (sr := sr) _ hd1 hv hpay' hquiet
    refine ⟨G.set m { g with sess := g.sess.map fun x => if x.id = c then
      { x with view := v1, pending := gs.pending.drop (dueOf gs.pending allow).length } else x }, Ac', hacc, ?_, ?_⟩
    · have := ginv_session_update h hg hc hsel hgs hid (b' := { b with tr := t })
        (cn' := { cn with pay := (render out cn.pay).2 }) hmb' rfl hsel hv' hrest
      simpa [setConn, setMb] using this
    · intro ha cn2 m2 hc2 hsel2
      rw [hc] at hc2
      cases hc2
      rw [hsel] at hsel2
      cases hsel2
      have hmlt : m < G.length := (List.getElem?_eq_some_iff.mp hg).1
      refine ⟨{ g with sess := g.sess.map fun x => if x.id = c then
          { x with view := v1, pending := gs.pending.drop (dueOf gs.pending allow).length } else x },
        { gs with view := v1, pending := gs.pending.drop (dueOf gs.pending allow).length },
        by rw [List.getElem?_set_self hmlt], ?_, hid, (hall ha).1, (hall ha).2, ?_⟩
      · have := List.mem_map_of_mem (f := fun x : GSess => if x.id = c then
          ({ x with view := v1, pending := gs.pending.drop (dueOf gs.pending allow).length } : GSess) else x) hgs
        simpa [hid] using this
      · rw [(hall ha).1] at hv'
        exact hv'

end GoImap.ViewsLemmas
