/-
  C18 helper lemmas, part 4: every encoder call of every modelled command hands the connection
  something the server allows (`PieceOK`), and the end-to-end statement used by Props/C18.
-/
import GoImap.Lemmas.ClientSyntaxRun
namespace GoImap.ClientSyntaxLemmas
open GoImap.Wire (quoteBody encQuoted litHeader digits isDigit Cfg Side validQuoted needSync isValidFlag flagCharsOk
  isAtomChar isControl equalFoldInbox inboxBytes digits_isDigit)
open GoImap.ClientSyntax
open GoImap.ClientSyntaxSpec

/-- parts whose fixed text keeps the scanner between tokens; a direct `Quoted` call is never fine -/
def partOK : Part → Bool
  | .raw b => b.all plainByte
  | .quotedDirect _ => false
  | _ => true

/-- the MODSEQ entry type is written as an atom, unchecked: the statement needs it to be one -/
def critRawOK : Crit → Bool
  | .modseq _ typ _ => typ.all plainByte
  | .not c => critRawOK c
  | .or x y => critRawOK x && critRawOK y
  | _ => true

def cmdRawOK : Cmd → Bool
  | .search _ c => critRawOK c
  | .sort c => critRawOK c
  | .thread c => critRawOK c
  | _ => true

theorem cfgOf_side (caps enabled : List Cap) : (cfgOf caps enabled).side = .client := rfl

/-! ### strings -/

theorem tokOK_quoted (caps enabled : List Cap) (s : Wire.Bytes)
    (hv : validQuoted (cfgOf caps enabled) s = true) :
    TokOK ⟨caps, enabled⟩ (.quoted (quoteBody s)) := by
  have hb := validQuoted_bytes _ s hv
  unfold TokOK tokOK
  have h1 : (quoteBody s).any (fun b => b = 0 || b = 13 || b = 10) = false := by
    rw [List.any_eq_false]
    intro b hm
    rcases quoteBody_mem s b hm with m | e
    · have := hb b m
      simp [this.1, this.2.1, this.2.2.1]
    · simp [e]
  have h2 : ((quoteBody s).any (· ≥ 128) && !utf8Quoted ⟨caps, enabled⟩) = false := by
    cases hu : utf8Quoted ⟨caps, enabled⟩ with
    | true => simp
    | false =>
      simp only [Bool.not_false, Bool.and_true]
      rw [List.any_eq_false]
      intro b hm
      rcases quoteBody_mem s b hm with m | e
      · have h8 := (hb b m).2.2.2
        rw [quotedUTF8_cfgOf, hu] at h8
        simp only [decide_eq_true_eq]
        intro hge
        exact absurd (h8 hge) (by simp)
      · simp [e]
  simp only [h1, h2]
  simp

theorem strPiece_ok (caps enabled : List Cap) (s : Wire.Bytes) :
    PieceOK ⟨caps, enabled⟩ (cfgOf caps enabled) (strPiece (cfgOf caps enabled) s) := by
  unfold strPiece rendering
  by_cases hv : validQuoted (cfgOf caps enabled) s = true
  · simp only [hv, if_true]
    exact .bytes _ (lineBytes_quoted _ s (tokOK_quoted caps enabled s hv))
  · by_cases hs : needSync (cfgOf caps enabled) s.length = true
    · simp only [hv, hs, if_true]
      unfold litPiece; simp only [if_true]
      exact .sync s
    · simp only [hv, hs]
      unfold litPiece; simp only [Bool.false_eq_true, if_false]
      exact .nonSync s (needSync_false_legal caps enabled _ (by simpa using hs))

/-! ### flags -/

theorem isAtomChar_plain (c : Nat) (h : isAtomChar c = true) : plainByte c = true := by
  unfold isAtomChar at h
  split at h
  · simp at h
  · rename_i hsp
    simp only [Bool.or_eq_true, decide_eq_true_eq, not_or] at hsp
    unfold isControl at h
    simp only [Bool.not_eq_true', Bool.or_eq_false_iff, decide_eq_false_iff_not, Bool.and_eq_false_iff,
      Nat.not_lt] at h
    unfold plainByte
    simp only [Bool.and_eq_true, decide_eq_true_eq, ne_eq]
    omega

theorem flagCharsOk_plain (f : Wire.Bytes) : ∀ first, flagCharsOk first f = true → ∀ x ∈ f, plainByte x = true := by
  induction f with
  | nil => intro _ _ x hx; simp at hx
  | cons c cs ih =>
    intro first h x hx
    unfold flagCharsOk at h
    simp only [List.mem_cons] at hx
    by_cases h92 : c = 92
    · simp only [h92, if_true] at h
      rcases hx with e | m
      · rw [e, h92]; decide
      · cases first with
        | true => simp only [if_true] at h; exact ih false h x m
        | false => simp at h
    · simp only [h92, if_false] at h
      by_cases ha : isAtomChar c = true
      · simp only [ha, if_true] at h
        rcases hx with e | m
        · rw [e]; exact isAtomChar_plain c ha
        · exact ih false h x m
      · simp [ha] at h

theorem isValidFlag_plain (f : Wire.Bytes) (h : isValidFlag f = true) : ∀ x ∈ f, plainByte x = true := by
  unfold isValidFlag at h
  simp only [Bool.and_eq_true] at h
  exact flagCharsOk_plain f true h.1.1

/-! ### one part, all parts -/

theorem piece_ok (caps enabled : List Cap) (part : Part) (pc : Piece) (hok : partOK part = true)
    (h : piece caps (cfgOf caps enabled) part = some pc) :
    PieceOK ⟨caps, enabled⟩ (cfgOf caps enabled) pc := by
  cases part with
  | raw b =>
    simp only [piece, Option.some.injEq] at h; subst h
    exact .bytes b (lineBytes_plain _ b (by simpa [partOK, List.all_eq_true] using hok))
  | str s =>
    simp only [piece, Option.some.injEq] at h; subst h
    exact strPiece_ok caps enabled s
  | mbox name =>
    unfold piece at h
    by_cases hi : equalFoldInbox name = true
    · simp only [hi, if_true, Option.some.injEq] at h; subst h
      exact .bytes _ (lineBytes_plain _ _ (by decide))
    · simp only [hi, Bool.false_eq_true, if_false] at h
      cases hd : Utf7.utf8dec name with
      | none => rw [hd] at h; simp at h
      | some cps =>
        rw [hd] at h
        simp only [Option.map_some, Option.some.injEq] at h; subst h
        exact strPiece_ok caps enabled _
  | flag f =>
    simp only [piece, Option.some.injEq] at h; subst h
    by_cases hbad : (f ≠ [92, 42] && !isValidFlag f) = true
    · rw [if_pos hbad]; exact .fail
    · rw [if_neg hbad]
      apply PieceOK.bytes
      apply lineBytes_plain
      simp only [Bool.and_eq_true, decide_eq_true_eq, ne_eq, Bool.not_eq_true', not_and, Bool.not_eq_false] at hbad
      by_cases hstar : f = [92, 42]
      · rw [hstar]; decide
      · exact isValidFlag_plain f (hbad hstar)
  | quotedDirect s => simp [partOK] at hok
  | appendLit p =>
    simp only [piece, Option.some.injEq] at h; subst h
    unfold litPiece
    by_cases hs : appendSync caps p.length = true
    · simp only [hs, if_true]; exact .sync p
    · simp only [hs, Bool.false_eq_true, if_false]
      exact .nonSync p (appendSync_false_legal caps enabled _ (by simpa using hs))

theorem pieces_ok (caps enabled : List Cap) (parts : List Part) :
    ∀ ps, (∀ part ∈ parts, partOK part = true) → pieces caps (cfgOf caps enabled) parts = some ps →
      ∀ pc ∈ ps, PieceOK ⟨caps, enabled⟩ (cfgOf caps enabled) pc := by
  induction parts with
  | nil =>
    intro ps _ h pc hpc
    simp only [pieces, Option.some.injEq] at h; subst h; simp at hpc
  | cons part parts ih =>
    intro ps hok h pc hpc
    unfold pieces at h
    cases h1 : piece caps (cfgOf caps enabled) part with
    | none => rw [h1] at h; simp at h
    | some x =>
      cases h2 : pieces caps (cfgOf caps enabled) parts with
      | none => rw [h1, h2] at h; simp at h
      | some xs =>
        rw [h1, h2] at h
        simp only [Option.some.injEq] at h; subst h
        simp only [List.mem_cons] at hpc
        rcases hpc with e | m
        · rw [e]; exact piece_ok caps enabled part x (hok part (List.mem_cons_self ..)) h1
        · exact ih xs (fun q hq => hok q (List.mem_cons_of_mem _ hq)) h2 pc m

/-! ### the commands -/

theorem all_append {α : Type} (f : α → Bool) (x y : List α) : (x ++ y).all f = (x.all f && y.all f) := by
  simp [List.all_append]

theorem digits_plain (n : Nat) : (digits n).all plainByte = true := by
  rw [List.all_eq_true]
  intro d hd
  have := digits_isDigit n d hd
  unfold isDigit at this
  simp only [Bool.and_eq_true, decide_eq_true_eq] at this
  unfold plainByte
  simp only [Bool.and_eq_true, decide_eq_true_eq, ne_eq]
  omega

theorem addrHeader_plain (k : Wire.Bytes) (h : addrHeaders.contains k = true) : k.all plainByte = true := by
  have hm : k ∈ addrHeaders := by simpa using h
  simp only [addrHeaders, List.map_cons, List.map_nil, List.mem_cons, List.not_mem_nil, or_false] at hm
  rcases hm with e | e | e | e | e <;> (rw [e]; decide)

theorem flagSearchKey_plain (f : Wire.Bytes) (k : String) (h : flagSearchKey f = some k) :
    (ascii k).all plainByte = true := by
  unfold flagSearchKey at h
  split at h
  · simp only [Option.some.injEq] at h; subst h; decide
  · split at h
    · simp only [Option.some.injEq] at h; subst h; decide
    · split at h
      · simp only [Option.some.injEq] at h; subst h; decide
      · split at h
        · simp only [Option.some.injEq] at h; subst h; decide
        · split at h
          · simp only [Option.some.injEq] at h; subst h; decide
          · simp at h

/-- fixed text with free string arguments: evaluate the fixed text -/
macro "parts_tac" : tactic => `(tactic|
  first
  | rfl
  | (simp only [Cmd.partsWith, Crit.partsWith, List.all_cons, List.all_nil, List.all_append, partOK, a, sp,
      modseqName, Bool.and_true, Bool.true_and, List.cons_append, List.nil_append]; decide))

theorem crit_parts_ok (c : Crit) : critRawOK c = true → (c.parts).all partOK = true := by
  unfold Crit.parts
  induction c with
  | body s => intro _; parts_tac
  | text s => intro _; parts_tac
  | header k v =>
    intro _
    unfold Crit.partsWith
    by_cases hk : addrHeaders.contains (upperAscii k) = true
    · simp only [hk, if_true, all_append, List.all_cons, List.all_nil, partOK, Bool.and_true]
      rw [addrHeader_plain _ hk]; rfl
    · simp only [hk, Bool.false_eq_true, if_false]; parts_tac
  | keyword f =>
    intro _
    unfold Crit.partsWith
    cases hf : flagSearchKey f with
    | none => simp only; parts_tac
    | some k =>
      simp only [List.all_cons, List.all_nil, partOK, a, Bool.and_true]
      rw [flagSearchKey_plain f k hf]; rfl
  | unkeyword f =>
    intro _
    unfold Crit.partsWith
    cases hf : flagSearchKey f with
    | none => simp only; parts_tac
    | some k =>
      simp only [List.all_cons, List.all_nil, partOK, a, Bool.and_true]
      rw [flagSearchKey_plain f k hf]; rfl
  | modseq name typ val =>
    intro h
    unfold Crit.partsWith
    have ht : typ.all plainByte = true := h
    have hv : (if val ≠ 0 then digits val else [48]).all plainByte = true := by
      split
      · exact digits_plain val
      · rfl
    by_cases hn : (name ≠ [] && typ ≠ []) = true
    · simp only [hn, if_true, all_append, List.all_cons, List.all_nil, partOK, modseqName, sp, a, ht, hv, Bool.and_true]
      rfl
    · simp only [hn, Bool.false_eq_true, if_false, all_append, List.all_cons, List.all_nil, partOK, sp, a, hv, Bool.and_true]
      rfl
  | not c ih =>
    intro h
    unfold Crit.partsWith
    simp only [all_append, ih h, Bool.and_true]
    rfl
  | or x y ihx ihy =>
    intro h
    unfold Crit.partsWith
    have hxy : critRawOK x = true ∧ critRawOK y = true := by
      have : (critRawOK x && critRawOK y) = true := h
      simpa using this
    simp only [all_append, ihx hxy.1, ihy hxy.2, Bool.and_true]
    rfl

theorem cmd_parts_ok (caps enabled : List Cap) (c : Cmd) (h : cmdRawOK c = true) :
    (c.parts caps enabled).all partOK = true := by
  unfold Cmd.parts
  cases c with
  | search uid cr =>
    unfold Cmd.partsWith
    simp only [all_append, crit_parts_ok cr h, Bool.and_true]
    cases uid <;> cases sendsCharset caps enabled cr <;> rfl
  | sort cr =>
    unfold Cmd.partsWith
    simp only [all_append, crit_parts_ok cr h, Bool.and_true]; rfl
  | thread cr =>
    unfold Cmd.partsWith
    simp only [all_append, crit_parts_ok cr h, Bool.and_true]; rfl
  | select m ro => cases ro <;> parts_tac
  | move m => unfold Cmd.partsWith; cases has caps .move <;> parts_tac
  | login u p => parts_tac
  | create m => parts_tac
  | delete m => parts_tac
  | rename x y => parts_tac
  | subscribe m => parts_tac
  | unsubscribe m => parts_tac
  | list r p => parts_tac
  | status m => parts_tac
  | copy m => parts_tac
  | append m p => parts_tac
  | getMetadata m e => parts_tac
  | setMetadata m k v => parts_tac
  | getQuota r => parts_tac
  | getQuotaRoot m => parts_tac
  | setQuota r => parts_tac
  | fetchHeader f => parts_tac
  | store f => parts_tac

theorem cmdParts_ok (caps enabled : List Cap) (tagNo : Nat) (c : Cmd) (h : cmdRawOK c = true) :
    ∀ part ∈ cmdParts caps enabled tagNo c, partOK part = true := by
  have hall : (cmdParts caps enabled tagNo c).all partOK = true := by
    unfold cmdParts
    simp only [all_append, cmd_parts_ok caps enabled c h, Bool.and_true, List.all_cons, List.all_nil, partOK, sp]
    have := digits_plain tagNo
    simp only [this, Bool.and_true]
    decide
  exact fun part hp => (List.all_eq_true.mp hall) part hp

/-! ### end to end -/

theorem inv_init (cs rs : List Nat) (srv : Server) (script : List Act) (me : Nat) :
    Inv cs rs srv { script := script, queue := [], me := me } := by
  unfold Inv
  simp only
  refine ⟨⟨rfl, rfl, ?_⟩, rfl, ?_⟩
  · intro t ht; simp [scan, scanFrom] at ht
  · intro x hx; simp at hx

/-- the bytes and the server actions of any modelled command, under any server script, pass every
    token and synchronisation rule of the oracle, unless the encoder itself refused an argument -/
theorem exec_conforms (caps enabled : List Cap) (tagNo : Nat) (c : Cmd) (script : List Act) (o : Outcome)
    (hc : cmdRawOK c = true) (h : exec caps enabled tagNo c script = some o) (hres : o.result ≠ .err) :
    checkCore ⟨caps, enabled⟩ (contsOf o.acts) (refusalsOf o.acts) false o.wire = .ok ∧ o.result ≠ .hang := by
  unfold exec execFrom at h
  cases hp : pieces caps (cfgOf caps enabled) (cmdParts caps enabled tagNo c) with
  | none => rw [hp] at h; simp at h
  | some ps =>
    rw [hp] at h
    simp only [Option.map_some, Option.some.injEq] at h
    subst h
    have hpok := pieces_ok caps enabled _ ps (cmdParts_ok caps enabled tagNo c hc) hp
    let r0 : Run := { script := script, queue := [], me := tagNo }
    have hacts : (finish (runPieces r0 ps)).outcome.acts = (runPieces r0 ps).acts := finish_acts _
    have hinv := runPieces_inv (contsOf (runPieces r0 ps).acts) (refusalsOf (runPieces r0 ps).acts)
      ⟨caps, enabled⟩ (cfgOf caps enabled) (cfgOf_side caps enabled) ps r0 hpok (inv_init _ _ _ _ _) rfl rfl
    have hstop : (finish (runPieces r0 ps)).stop = (runPieces r0 ps).stop := by
      unfold finish; split <;> rfl
    have hne : (runPieces r0 ps).stop ≠ some .encErr := by
      intro he
      apply hres
      show (finish (runPieces r0 ps)).outcome.result = .err
      unfold Run.outcome; simp only [hstop, he]
    constructor
    · show verdictCore _ false (scan (contsOf (finish (runPieces r0 ps)).outcome.acts)
          (refusalsOf (finish (runPieces r0 ps)).outcome.acts) (finish (runPieces r0 ps)).wire) = .ok
      rw [hacts]
      exact finish_verdict _ _ _ _ hinv hne
    · show (finish (runPieces r0 ps)).outcome.result ≠ .hang
      unfold Run.outcome; simp only [hstop]
      intro hh
      cases hs : (runPieces r0 ps).stop with
      | none => rw [hs] at hh; simp at hh
      | some k =>
        cases k with
        | hang => unfold Inv at hinv; rw [hs] at hinv; exact hinv
        | refusedNo => rw [hs] at hh; simp at hh
        | refusedBad => rw [hs] at hh; simp at hh
        | encErr => rw [hs] at hh; simp at hh

/-- a command the server refused ends, for the scanner, exactly at the refused literal header -/
theorem exec_refused_mode (caps enabled : List Cap) (tagNo : Nat) (c : Cmd) (script : List Act) (o : Outcome)
    (hc : cmdRawOK c = true) (h : exec caps enabled tagNo c script = some o)
    (hno : o.result = .no ∨ o.result = .bad) :
    (scan (contsOf o.acts) (refusalsOf o.acts) o.wire).mode = .refused := by
  unfold exec execFrom at h
  cases hp : pieces caps (cfgOf caps enabled) (cmdParts caps enabled tagNo c) with
  | none => rw [hp] at h; simp at h
  | some ps =>
    rw [hp] at h
    simp only [Option.map_some, Option.some.injEq] at h
    subst h
    have hpok := pieces_ok caps enabled _ ps (cmdParts_ok caps enabled tagNo c hc) hp
    let r0 : Run := { script := script, queue := [], me := tagNo }
    have hacts : (finish (runPieces r0 ps)).outcome.acts = (runPieces r0 ps).acts := finish_acts _
    have hinv := runPieces_inv (contsOf (runPieces r0 ps).acts) (refusalsOf (runPieces r0 ps).acts)
      ⟨caps, enabled⟩ (cfgOf caps enabled) (cfgOf_side caps enabled) ps r0 hpok (inv_init _ _ _ _ _) rfl rfl
    have hstop : (finish (runPieces r0 ps)).stop = (runPieces r0 ps).stop := by
      unfold finish; split <;> rfl
    have hres : (finish (runPieces r0 ps)).outcome.result = .no ∨ (finish (runPieces r0 ps)).outcome.result = .bad := hno
    show (scan (contsOf (finish (runPieces r0 ps)).outcome.acts) (refusalsOf (finish (runPieces r0 ps)).outcome.acts)
      (finish (runPieces r0 ps)).wire).mode = .refused
    rw [hacts]
    unfold Run.outcome at hres
    simp only [hstop] at hres
    cases hs : (runPieces r0 ps).stop with
    | none => rw [hs] at hres; simp at hres
    | some k =>
      rw [finish_stopped _ (by simp [hs])]
      cases k with
      | hang => rw [hs] at hres; simp at hres
      | encErr => rw [hs] at hres; simp at hres
      | refusedNo => unfold Inv at hinv; rw [hs] at hinv; exact hinv.mode
      | refusedBad => unfold Inv at hinv; rw [hs] at hinv; exact hinv.mode

theorem finish_queue (r : Run) : (finish r).queue = r.queue := by
  unfold finish; split <;> rfl

/-- no continuation request is left behind: after any command (that the encoder itself did not
    abort) the queue `Client.contReqs` is empty again -/
theorem execFrom_queue_nil (caps enabled : List Cap) (tagNo : Nat) (c : Cmd) (script : List Act) (o : Outcome)
    (q : List Nat) (hc : cmdRawOK c = true) (h : execFrom [] caps enabled tagNo c script = some (o, q))
    (hres : o.result ≠ .err) : q = [] := by
  unfold execFrom at h
  cases hp : pieces caps (cfgOf caps enabled) (cmdParts caps enabled tagNo c) with
  | none => rw [hp] at h; simp at h
  | some ps =>
    rw [hp] at h
    simp only [Option.map_some, Option.some.injEq, Prod.mk.injEq] at h
    obtain ⟨ho, hq⟩ := h
    subst ho; subst hq
    have hpok := pieces_ok caps enabled _ ps (cmdParts_ok caps enabled tagNo c hc) hp
    let r0 : Run := { script := script, queue := [], me := tagNo }
    have hinv := runPieces_inv (contsOf (runPieces r0 ps).acts) (refusalsOf (runPieces r0 ps).acts)
      ⟨caps, enabled⟩ (cfgOf caps enabled) (cfgOf_side caps enabled) ps r0 hpok (inv_init _ _ _ _ _) rfl rfl
    have hstop : (finish (runPieces r0 ps)).stop = (runPieces r0 ps).stop := by
      unfold finish; split <;> rfl
    show (finish (runPieces r0 ps)).queue = []
    rw [finish_queue]
    cases hs : (runPieces r0 ps).stop with
    | none => unfold Inv at hinv; rw [hs] at hinv; exact hinv.queue
    | some k =>
      cases k with
      | hang => unfold Inv at hinv; rw [hs] at hinv; exact absurd hinv id
      | refusedNo => unfold Inv at hinv; rw [hs] at hinv; exact hinv.queue
      | refusedBad => unfold Inv at hinv; rw [hs] at hinv; exact hinv.queue
      | encErr =>
        exfalso; apply hres
        show (finish (runPieces r0 ps)).outcome.result = .err
        unfold Run.outcome; simp only [hstop, hs]

end GoImap.ClientSyntaxLemmas
