/- C16 helper lemmas: the must-reject list. -/
import GoImap.Lemmas.Utf7Basic
namespace GoImap.Utf7Lemmas
open GoImap.Utf7

/-! ### lifting a failing segment to `dec` -/

/-- a terminated shift whose segment is rejected fails from every decoder state -/
theorem dec_bad_segment (seg post : BytesN) (hne : seg ≠ []) (h45 : ∀ c ∈ seg, c ≠ 45)
    (hbad : decodeSeg seg = none) : ∀ (a : Bool) (sg : Option BytesN),
    dec a sg (38 :: seg ++ 45 :: post) = none
  | a, none => by
    rw [dec_shift a seg post h45]
    have : decSeg a seg = none := by
      unfold decSeg
      cases seg with
      | nil => exact absurd rfl hne
      | cons x xs => simp only [List.isEmpty_cons, Bool.false_eq_true, if_false]; split_ifs <;> simp [hbad]
    rw [this]; rfl
  | a, some acc => by
    have h := dec_scan a post (38 :: seg) acc (by
      intro c hc
      simp only [List.mem_cons] at hc
      rcases hc with rfl | hc
      · decide
      · exact h45 c hc)
    rw [h, decSeg_bad a (c := 38) (by simp) (by decide)]; rfl

/-- two shifted segments back to back fail from every decoder state -/
theorem dec_adjacent (seg1 seg2 post : BytesN) (hne2 : seg2 ≠ [])
    (h1 : ∀ c ∈ seg1, c ≠ 45) (h2 : ∀ c ∈ seg2, c ≠ 45) (hne1 : seg1 ≠ []) :
    ∀ (a : Bool) (sg : Option BytesN),
    dec a sg (38 :: seg1 ++ 45 :: (38 :: seg2 ++ 45 :: post)) = none
  | a, none => by
    rw [dec_shift a seg1 _ h1]
    have e1 : seg1.isEmpty = false := by cases seg1 <;> simp_all
    have e2 : decSeg false seg2 = none := by
      cases seg2 with
      | nil => exact absurd rfl hne2
      | cons x xs => simp [decSeg]
    cases decSeg a seg1 with
    | none => rfl
    | some out =>
      simp only [Option.bind_some, e1]
      rw [dec_shift false seg2 post h2, e2]; rfl
  | a, some acc => by
    have h := dec_scan a (38 :: seg2 ++ 45 :: post) (38 :: seg1) acc (by
      intro c hc
      simp only [List.mem_cons] at hc
      rcases hc with rfl | hc
      · decide
      · exact h1 c hc)
    rw [h, decSeg_bad a (c := 38) (by simp) (by decide)]; rfl

/-- an unterminated shift fails from every decoder state -/
theorem dec_unterminated_any (seg : BytesN) (h45 : ∀ c ∈ seg, c ≠ 45) :
    ∀ (a : Bool) (sg : Option BytesN), dec a sg (38 :: seg) = none
  | a, none => by rw [dec_amp]; exact dec_unterminated a seg [] h45
  | a, some acc => dec_unterminated a (38 :: seg) acc (by
      intro c hc
      simp only [List.mem_cons] at hc
      rcases hc with rfl | hc
      · decide
      · exact h45 c hc)

/-! ### a byte outside printable US-ASCII -/

theorem dec_nonprintable : ∀ (b : BytesN) (a : Bool) (sg : Option BytesN),
    ((∃ c ∈ b, printable c = false) ∨ (∃ acc, sg = some acc ∧ ∃ c ∈ acc, printable c = false)) →
    dec a sg b = none
  | [], a, none, h => by
    rcases h with ⟨c, hc, _⟩ | ⟨acc, hs, _⟩
    · simp at hc
    · cases hs
  | [], a, some _, _ => by simp [dec]
  | x :: xs, a, none, h => by
    simp only [dec]
    split_ifs with hp hx
    · rfl
    · have hp' : printable x = true := by simpa using hp
      rw [dec_nonprintable xs true none]; rfl
      left
      rcases h with ⟨c, hc, hcp⟩ | ⟨acc, hs, _⟩
      · simp only [List.mem_cons] at hc
        rcases hc with rfl | hc
        · rw [hp'] at hcp; cases hcp
        · exact ⟨c, hc, hcp⟩
      · cases hs
    · have hx' : x = 38 := by
        by_cases h38 : x = 38
        · exact h38
        · exact absurd h38 hx
      apply dec_nonprintable xs a (some [])
      left
      rcases h with ⟨c, hc, hcp⟩ | ⟨acc, hs, _⟩
      · simp only [List.mem_cons] at hc
        rcases hc with rfl | hc
        · subst hx'; cases hcp
        · exact ⟨c, hc, hcp⟩
      · cases hs
  | x :: xs, a, some acc, h => by
    simp only [dec]
    split_ifs with h45 hcr
    · subst h45
      rcases h with ⟨c, hc, hcp⟩ | ⟨acc', hs, c, hc, hcp⟩
      · simp only [List.mem_cons] at hc
        rcases hc with rfl | hc
        · cases hcp
        · cases decSeg a acc with
          | none => rfl
          | some out =>
            simp only
            rw [dec_nonprintable xs _ none (Or.inl ⟨c, hc, hcp⟩)]; rfl
      · cases hs
        rw [decSeg_bad a hc (b64val_nonprintable hcp)]
    · rfl
    · apply dec_nonprintable xs a (some (acc ++ [x]))
      rcases h with ⟨c, hc, hcp⟩ | ⟨acc', hs, c, hc, hcp⟩
      · simp only [List.mem_cons] at hc
        rcases hc with rfl | hc
        · exact Or.inr ⟨_, rfl, c, by simp, hcp⟩
        · exact Or.inl ⟨c, hc, hcp⟩
      · cases hs
        exact Or.inr ⟨_, rfl, c, by simp [hc], hcp⟩

/-! ### UTF-16 level rejections -/

/-- an odd number of UTF-16BE bytes -/
theorem utf16dec_odd : ∀ (bs : BytesN), bs.length % 2 = 1 → utf16dec bs = none
  | [], h => by simp at h
  | [_], _ => by simp [utf16dec]
  | [_, _], h => by simp at h
  | [hh, l, _], _ => by
    rw [utf16dec.eq_def]
    simp only
    split_ifs <;> simp [utf16dec]
  | hh :: l :: h2 :: l2 :: r, h => by
    have ih1 := utf16dec_odd r (by simp only [List.length_cons] at h; omega)
    have ih2 := utf16dec_odd (h2 :: l2 :: r) (by simp only [List.length_cons] at h ⊢; omega)
    rw [utf16dec.eq_def]
    simp only
    split_ifs <;> simp [ih1, ih2]

set_option maxRecDepth 8000 in
/-- a UTF-16 unit (at an even byte offset) that is a printable US-ASCII value -/
theorem utf16dec_ascii : ∀ (pre : BytesN) (hh l : Nat) (post : BytesN), pre.length % 2 = 0 →
    printable (hh * 256 + l) = true → utf16dec (pre ++ hh :: l :: post) = none
  | [], hh, l, post, _, hp => by
    simp only [printable, Bool.and_eq_true, decide_eq_true_eq] at hp
    rw [List.nil_append, utf16dec.eq_def]
    simp only
    have hs : ¬ (55296 ≤ hh * 256 + l ∧ hh * 256 + l < 57344) := by omega
    have hp' : printable (hh * 256 + l) = true := by
      simp only [printable, Bool.and_eq_true, decide_eq_true_eq]; exact hp
    rw [if_neg hs, if_pos hp']
  | [_], _, _, _, h, _ => by simp at h
  | [h0, l0], hh, l, post, _, hp => by
    have base := utf16dec_ascii [] hh l post (by simp) hp
    simp only [List.nil_append] at base
    simp only [printable, Bool.and_eq_true, decide_eq_true_eq] at hp
    simp only [List.cons_append, List.nil_append]
    rw [utf16dec.eq_def]
    simp only
    split_ifs with hs hs2 hp0
    · omega
    · rfl
    · rfl
    · rw [base]; rfl
  | [_, _, _], _, _, _, h, _ => by simp at h
  | h0 :: l0 :: h2 :: l2 :: pre, hh, l, post, h, hp => by
    have ih1 := utf16dec_ascii pre hh l post (by simp only [List.length_cons] at h; omega) hp
    have ih2 := utf16dec_ascii (h2 :: l2 :: pre) hh l post (by simp only [List.length_cons] at h ⊢; omega) hp
    simp only [List.cons_append] at ih2 ⊢
    rw [utf16dec.eq_def]
    simp only
    split_ifs <;> simp [ih1, ih2]

set_option maxRecDepth 8000 in
/-- a high surrogate (at an even byte offset) that is not followed by a low surrogate -/
theorem utf16dec_high : ∀ (pre : BytesN) (hh l : Nat) (post : BytesN), pre.length % 2 = 0 →
    55296 ≤ hh * 256 + l → hh * 256 + l < 56320 →
    (∀ h2 l2 r, post = h2 :: l2 :: r → ¬ (56320 ≤ h2 * 256 + l2 ∧ h2 * 256 + l2 < 57344)) →
    utf16dec (pre ++ hh :: l :: post) = none
  | [], hh, l, post, _, hlo, hhi, hnext => by
    rw [List.nil_append, utf16dec.eq_def]
    simp only
    have hs : 55296 ≤ hh * 256 + l ∧ hh * 256 + l < 57344 := by omega
    rw [if_pos hs]
    match post, hnext with
    | [], _ => rfl
    | [_], _ => rfl
    | h2 :: l2 :: r, hnext =>
      have := hnext h2 l2 r rfl
      simp only
      split_ifs with hc
      · exact absurd hc.2 this
      · rfl
  | [_], _, _, _, h, _, _, _ => by simp at h
  | [h0, l0], hh, l, post, _, hlo, hhi, hnext => by
    have base := utf16dec_high [] hh l post (by simp) hlo hhi hnext
    simp only [List.nil_append] at base
    simp only [List.cons_append, List.nil_append]
    rw [utf16dec.eq_def]
    simp only
    split_ifs with hs hs2 hp0
    · omega
    · rfl
    · rfl
    · rw [base]; rfl
  | [_, _, _], _, _, _, h, _, _, _ => by simp at h
  | h0 :: l0 :: h2 :: l2 :: pre, hh, l, post, h, hlo, hhi, hnext => by
    have ih1 := utf16dec_high pre hh l post (by simp only [List.length_cons] at h; omega) hlo hhi hnext
    have ih2 := utf16dec_high (h2 :: l2 :: pre) hh l post
      (by simp only [List.length_cons] at h ⊢; omega) hlo hhi hnext
    simp only [List.cons_append] at ih2 ⊢
    rw [utf16dec.eq_def]
    simp only
    split_ifs <;> simp [ih1, ih2]

set_option maxRecDepth 8000 in
/-- a low surrogate (at an even byte offset) whose preceding unit is not a high surrogate -/
theorem utf16dec_low : ∀ (pre : BytesN) (hh l : Nat) (post : BytesN), pre.length % 2 = 0 →
    56320 ≤ hh * 256 + l → hh * 256 + l < 57344 →
    (∀ p h0 l0, pre = p ++ [h0, l0] → ¬ (55296 ≤ h0 * 256 + l0 ∧ h0 * 256 + l0 < 56320)) →
    utf16dec (pre ++ hh :: l :: post) = none
  | [], hh, l, post, _, hlo, hhi, _ => by
    rw [List.nil_append, utf16dec.eq_def]
    simp only
    have hs : 55296 ≤ hh * 256 + l ∧ hh * 256 + l < 57344 := by omega
    rw [if_pos hs]
    match post with
    | [] => rfl
    | [_] => rfl
    | h2 :: l2 :: r =>
      simp only
      split_ifs with hc
      · omega
      · rfl
  | [_], _, _, _, h, _, _, _ => by simp at h
  | [h0, l0], hh, l, post, _, hlo, hhi, hprev => by
    have base := utf16dec_low [] hh l post (by simp) hlo hhi (by intro p a b hp; simp at hp)
    have hnot := hprev [] h0 l0 rfl
    simp only [List.nil_append] at base
    simp only [List.cons_append, List.nil_append]
    rw [utf16dec.eq_def]
    simp only
    split_ifs with hs hs2 hp0
    · omega
    · rfl
    · rfl
    · rw [base]; rfl
  | [_, _, _], _, _, _, h, _, _, _ => by simp at h
  | h0 :: l0 :: h2 :: l2 :: pre, hh, l, post, h, hlo, hhi, hprev => by
    have ih1 := utf16dec_low pre hh l post (by simp only [List.length_cons] at h; omega) hlo hhi
      (by intro p a b hp; exact hprev (h0 :: l0 :: h2 :: l2 :: p) a b (by simp [hp]))
    have ih2 := utf16dec_low (h2 :: l2 :: pre) hh l post
      (by simp only [List.length_cons] at h ⊢; omega) hlo hhi
      (by intro p a b hp; exact hprev (h0 :: l0 :: p) a b (by simp [hp]))
    simp only [List.cons_append] at ih2 ⊢
    rw [utf16dec.eq_def]
    simp only
    split_ifs <;> simp [ih1, ih2]

/-- a failing UTF-16 layer makes the segment fail -/
theorem decodeSeg_utf16_none {seg bs : BytesN} (hb : b64dec seg = some bs) (hu : utf16dec bs = none) :
    decodeSeg seg = none := by
  unfold decodeSeg
  split_ifs
  · rfl
  · simp [hb, hu]

theorem b64dec_some_no45 {seg bs : BytesN} (hb : b64dec seg = some bs) : ∀ c ∈ seg, c ≠ 45 := by
  intro c hc h
  subst h
  rw [b64dec_bad seg 45 hc (by decide)] at hb
  cases hb

/-- lifting for the UTF-16 layer: base64 decodes, UTF-16 does not -/
theorem dec_bad_utf16 (pre seg post bs : BytesN) (hne : seg ≠ []) (hb : b64dec seg = some bs)
    (hu : utf16dec bs = none) : decode (pre ++ (38 :: seg ++ 45 :: post)) = none :=
  dec_prefix_none (dec_bad_segment seg post hne (b64dec_some_no45 hb) (decodeSeg_utf16_none hb hu))
    pre true none

end GoImap.Utf7Lemmas
